(* P_MaxSum2.v -- C05 deepening, part 1: the synchronous Max-Sum instance meets the contract of the
   SynchronousComputationMixin model (graph_ok / algo_ok of P_SyncMixin), hence all C08 theorems apply,
   and every run of [maxsum_proto] under ANY schedule refines the purely functional lock-step rounds
   [ms_rounds] ([maxsum_refines_rounds]). *)
From Coq Require Import QArith Qabs Lia Permutation.
From PyDcop Require Import Base Net M_SyncMixin P_SyncMixin M_MaxSum P_MaxSum.
Local Open Scope nat_scope.
Local Notation length := List.length.

(* ------------------------------------------------------------------ association lists *)
Lemma zlookup_notin {V} n (l : list (node * V)) : ~ In n (map fst l) -> zlookup n l = None.
Proof.
  unfold zlookup. induction l as [|[k v] r IH]; simpl; intros H; auto.
  destruct (Z.eqb_spec n k) as [->|Hne]; [exfalso; apply H; auto|]. apply IH. intros Hc. apply H; auto.
Qed.

Lemma zlookup_keys {V} n (l : list (node * V)) v : zlookup n l = Some v -> In n (map fst l).
Proof. intros H. apply zlookup_In in H. apply in_map_iff. exists (n, v). auto. Qed.

Lemma zlookup_none_notin {V} n (l : list (node * V)) : zlookup n l = None -> ~ In n (map fst l).
Proof.
  unfold zlookup. induction l as [|[k v] r IH]; simpl; intros H; auto.
  destruct (Z.eqb_spec n k) as [->|Hne]; [discriminate|]. intros [Hc|Hc]; [congruence | now apply IH].
Qed.

Lemma In_zlookup {V} n v (l : list (node * V)) : NoDup (map fst l) -> In (n, v) l -> zlookup n l = Some v.
Proof.
  unfold zlookup. induction l as [|[k w] r IH]; simpl; intros Hnd Hin; [contradiction|].
  inversion Hnd as [|? ? Hnin Hnd']; subst.
  destruct Hin as [Hin|Hin].
  - inversion Hin; subst. now rewrite Z.eqb_refl.
  - destruct (Z.eqb_spec n k) as [->|Hne]; auto.
    exfalso. apply Hnin. apply in_map_iff. exists (k, v). auto.
Qed.

Lemma Zeqb_iff : forall a b : Z, Z.eqb a b = true <-> a = b.
Proof. intros; apply Z.eqb_eq. Qed.

Lemma zlookup_set_same {V} k (v : V) l : zlookup k (dict_set Z.eqb k v l) = Some v.
Proof. apply lookup_dict_set_same. exact Zeqb_iff. Qed.
Lemma zlookup_set_other {V} k k2 (v : V) l : k2 <> k -> zlookup k2 (dict_set Z.eqb k v l) = zlookup k2 l.
Proof. apply lookup_dict_set_other. exact Zeqb_iff. Qed.

Lemma dict_set_keys {V} k (v : V) l :
  map fst (dict_set Z.eqb k v l) = if zmem k (map fst l) then map fst l else map fst l ++ [k].
Proof.
  induction l as [|[k' v'] r IH]; simpl; auto.
  unfold zmem in *. simpl. destruct (Z.eqb_spec k k') as [->|Hne]; simpl.
  - reflexivity.
  - rewrite IH. destruct (existsb (Z.eqb k) (map fst r)); reflexivity.
Qed.

Lemma dict_set_nodup {V} k (v : V) l : NoDup (map fst l) -> NoDup (map fst (dict_set Z.eqb k v l)).
Proof.
  intros H. rewrite dict_set_keys. destruct (zmem k (map fst l)) eqn:E; auto.
  apply NoDup_app_intro; auto.
  - constructor; [intros []|constructor].
  - intros y Hy [<-|[]]. apply zmem_In in Hy. congruence.
Qed.

Lemma dict_set_keys_incl {V} k (v : V) l L : incl (map fst l) L -> In k L -> incl (map fst (dict_set Z.eqb k v l)) L.
Proof.
  intros H Hk. rewrite dict_set_keys. destruct (zmem k (map fst l)); auto.
  intros y Hy. apply in_app_or in Hy as [Hy|[<-|[]]]; auto.
Qed.

Lemma nodupb_sound l : nodupb Z.eqb l = true -> NoDup l.
Proof.
  induction l as [|x r IH]; simpl; intros H; constructor.
  - apply andb_true_iff in H as [H _]. apply negb_true_iff in H. intros Hc.
    apply zmem_In in Hc. unfold zmem in Hc. congruence.
  - apply andb_true_iff in H as [_ H]. auto.
Qed.

(* ------------------------------------------------------------------ well-formed DCOPs *)
(* what load_dcop guarantees: distinct computation names, constraint scopes without repetition
   that mention declared variables only *)
Definition wf_dcop (G : dcop) : Prop :=
  NoDup (all_nodes G) /\
  forall f fd, In (f, fd) (d_facs G) -> NoDup (f_scope fd) /\ incl (f_scope fd) (var_ids G).

Definition wf_dcop_b (G : dcop) : bool :=
  nodupb Z.eqb (all_nodes G) &&
  forallb (fun gf => nodupb Z.eqb (f_scope (snd gf)) && forallb (fun y => zmem y (var_ids G)) (f_scope (snd gf)))
          (d_facs G).

Lemma wf_dcop_b_sound G : wf_dcop_b G = true -> wf_dcop G.
Proof.
  unfold wf_dcop_b, wf_dcop. intros H. apply andb_true_iff in H as [H1 H2]. split.
  - now apply nodupb_sound.
  - intros f fd Hin. rewrite forallb_forall in H2. specialize (H2 _ Hin). simpl in H2.
    apply andb_true_iff in H2 as [H2 H3]. split; [now apply nodupb_sound|].
    intros y Hy. rewrite forallb_forall in H3. apply zmem_In. auto.
Qed.

Section WF.
  Variable G : dcop.
  Hypothesis Hwf : wf_dcop G.

  Lemma wf_vars_nodup : NoDup (map fst (d_vars G)).
  Proof. destruct Hwf as [H _]. unfold all_nodes, var_ids in H. eapply NoDup_app_l; eauto. Qed.
  Lemma wf_facs_nodup : NoDup (map fst (d_facs G)).
  Proof. destruct Hwf as [H _]. unfold all_nodes in H. eapply NoDup_app_r; eauto. Qed.
  Lemma wf_disjoint x : In x (map fst (d_vars G)) -> In x (map fst (d_facs G)) -> False.
  Proof. destruct Hwf as [H _]. unfold all_nodes, var_ids in H. eapply NoDup_app_disj; eauto. Qed.

  Lemma var_lookup x : In x (var_ids G) <-> exists vd, zlookup x (d_vars G) = Some vd.
  Proof.
    unfold var_ids. split.
    - intros H. apply in_map_iff in H as [[x' vd] [E H]]. simpl in E. subst. exists vd.
      apply In_zlookup; auto. apply wf_vars_nodup.
    - intros [vd H]. eapply zlookup_keys; eauto.
  Qed.

  Lemma factors_of_In x f : In f (factors_of G x) <-> exists fd, In (f, fd) (d_facs G) /\ In x (f_scope fd).
  Proof.
    unfold factors_of. rewrite in_flat_map. split.
    - intros [[g fd] [Hin H]]. simpl in H. destruct (zmem x (f_scope fd)) eqn:E; [|contradiction].
      destruct H as [<-|[]]. exists fd. split; auto. now apply zmem_In.
    - intros [fd [Hin Hx]]. exists (f, fd). split; auto. simpl.
      apply zmem_In in Hx. rewrite Hx. left; reflexivity.
  Qed.

  Lemma flat_sel_nodup {V} (p : node * V -> bool) (l : list (node * V)) :
    NoDup (map fst l) -> NoDup (flat_map (fun gf => if p gf then [fst gf] else []) l).
  Proof.
    induction l as [|gf r IH]; simpl; intros H; [constructor|].
    inversion H as [|? ? Hnin Hnd]; subst.
    destruct (p gf); simpl; auto. constructor; auto.
    intros Hc. apply Hnin. apply in_flat_map in Hc as [gf' [Hin Hc]].
    destruct (p gf'); [|contradiction]. destruct Hc as [<-|[]]. now apply in_map.
  Qed.

  Lemma factors_of_nodup x : NoDup (factors_of G x).
  Proof. unfold factors_of. apply (flat_sel_nodup (fun gf => zmem x (f_scope (snd gf)))). apply wf_facs_nodup. Qed.

  Lemma nbrs_var x vd : zlookup x (d_vars G) = Some vd -> nbrs G x = factors_of G x.
  Proof. intros H. unfold nbrs. now rewrite H. Qed.

  Lemma fac_not_var f fd : In (f, fd) (d_facs G) -> zlookup f (d_vars G) = None.
  Proof.
    intros H. apply zlookup_notin. intros Hc. eapply wf_disjoint; eauto.
    apply in_map_iff. exists (f, fd). auto.
  Qed.

  Lemma nbrs_fac f fd : In (f, fd) (d_facs G) -> nbrs G f = f_scope fd.
  Proof.
    intros H. unfold nbrs. rewrite (fac_not_var f fd H).
    rewrite (In_zlookup f fd (d_facs G) wf_facs_nodup H). reflexivity.
  Qed.

  Lemma nbrs_cases n :
    (exists vd, zlookup n (d_vars G) = Some vd /\ nbrs G n = factors_of G n) \/
    (exists fd, zlookup n (d_vars G) = None /\ zlookup n (d_facs G) = Some fd /\ In (n, fd) (d_facs G) /\ nbrs G n = f_scope fd) \/
    (zlookup n (d_vars G) = None /\ zlookup n (d_facs G) = None /\ nbrs G n = []).
  Proof.
    unfold nbrs. destruct (zlookup n (d_vars G)) as [vd|] eqn:Ev.
    - left. exists vd. auto.
    - destruct (zlookup n (d_facs G)) as [fd|] eqn:Ef.
      + right. left. exists fd. repeat split; auto. now apply zlookup_In.
      + right. right. auto.
  Qed.

  Theorem maxsum_graph_ok_l : graph_ok (nbrs G).
  Proof.
    split; [|split].
    - intros a. destruct (nbrs_cases a) as [[vd [_ ->]]|[[fd [_ [_ [Hin ->]]]]|[_ [_ ->]]]].
      + apply factors_of_nodup.
      + destruct Hwf as [_ H]. apply (H a fd Hin).
      + constructor.
    - intros a b Hab. destruct (nbrs_cases b) as [[vd [Hv Hb]]|[[fd [Hnv [_ [Hin Hb]]]]|[_ [_ Hb]]]]; rewrite Hb in Hab.
      + apply factors_of_In in Hab as [fd [Hin Hx]]. rewrite (nbrs_fac a fd Hin). exact Hx.
      + destruct Hwf as [_ H]. destruct (H b fd Hin) as [_ Hincl].
        pose proof (Hincl _ Hab) as Hav. apply var_lookup in Hav as [vd Hv]. rewrite (nbrs_var a vd Hv).
        apply factors_of_In. exists fd. auto.
      + contradiction.
    - intros a Haa. destruct (nbrs_cases a) as [[vd [Hv Ha]]|[[fd [Hnv [_ [Hin Ha]]]]|[_ [_ Ha]]]]; rewrite Ha in Haa.
      + apply factors_of_In in Haa as [fd [Hin _]]. eapply wf_disjoint.
        * eapply zlookup_keys; eauto.
        * apply in_map_iff. exists (a, fd). auto.
      + destruct Hwf as [_ H]. destruct (H a fd Hin) as [_ Hincl]. apply Hincl in Haa.
        apply var_lookup in Haa as [vd Hv]. congruence.
      + contradiction.
  Qed.
End WF.

(* ------------------------------------------------------------------ the sending loop addresses each target once *)
Lemma emit_all_keys P dampon compute targets : forall prev,
  incl (map fst (fst (emit_all P dampon compute prev targets))) targets /\
  (NoDup targets -> NoDup (map fst (fst (emit_all P dampon compute prev targets)))).
Proof.
  induction targets as [|tgt r IH]; intros prev; simpl.
  - split; [intros x [] | constructor].
  - destruct (emit P dampon prev tgt (compute tgt)) as [o prev1].
    specialize (IH prev1). destruct (emit_all P dampon compute prev1 r) as [os prev2]. simpl in *.
    destruct IH as [IH1 IH2]. split.
    + destruct o; simpl; intros y Hy.
      * destruct Hy as [<-|Hy]; [left; reflexivity | right; apply IH1; exact Hy].
      * right. apply IH1. exact Hy.
    + intros Hnd. inversion Hnd as [|? ? Hnin Hnd']; subst. destruct o; simpl; auto.
      constructor; auto.
Qed.

Lemma filter_true {T} (l : list T) : filter (fun _ => negb false) l = l.
Proof. induction l as [|a l IH]; simpl; [reflexivity | f_equal; exact IH]. Qed.

Lemma firstn_incl {T} n (l : list T) : incl (firstn n l) l.
Proof. intros x H. rewrite <- (firstn_skipn n l). apply in_or_app; auto. Qed.
Lemma firstn_nodup {T} n (l : list T) : NoDup l -> NoDup (firstn n l).
Proof. intros H. rewrite <- (firstn_skipn n l) in H. eapply NoDup_app_l; eauto. Qed.

Lemma map_fst_pairs {T U} (g : T -> U) (l : list T) : map fst (map (fun t => (t, g t)) l) = l.
Proof. rewrite map_map. simpl. apply map_id. Qed.

Section AlgoOk.
  Variable P : params.
  Variable G : dcop.
  Hypothesis Hwf : wf_dcop G.

  Lemma ms_cycle_returns_nil n st k msgs : snd (ms_cycle P G n st k msgs) = [].
  Proof.
    unfold ms_cycle. destruct (zlookup n (d_vars G)) as [vd|].
    - destruct (var_send _ _ _ _ _ _) as [st2 outs]. reflexivity.
    - destruct (zlookup n (d_facs G)) as [fd|]; [|reflexivity].
      destruct (fac_send _ _ _ _ _) as [st2 outs]. reflexivity.
  Qed.

  Lemma sub_targets_ok n (l : list node) :
    NoDup (nbrs G n) -> (l = firstn 1 (nbrs G n) \/ l = nbrs G n \/ l = []) ->
    NoDup l /\ incl l (nbrs G n).
  Proof.
    intros Hnd [->|[->| ->]].
    - split; [now apply firstn_nodup | apply firstn_incl].
    - split; [assumption | apply incl_refl].
    - split; [constructor | intros x []].
  Qed.

  Lemma var_start_keys sync x vd st :
    let l := map fst (snd (var_start P G sync x vd st)) in
    l = firstn 1 (factors_of G x) \/ l = factors_of G x \/ l = [].
  Proof.
    unfold var_start.
    destruct (Nat.eqb (length (factors_of G x)) 1 && Nat.eqb (p_start P) 0);
      [|destruct (Nat.eqb (p_start P) 1 || Nat.eqb (p_start P) 2)]; simpl; rewrite ?map_fst_pairs; auto.
  Qed.

  Lemma fac_start_keys fd st :
    let l := map fst (snd (fac_start P G fd st)) in
    l = f_scope fd \/ l = [].
  Proof.
    unfold fac_start.
    destruct (Nat.eqb (length (f_scope fd)) 1 && (Nat.eqb (p_start P) 0 || Nat.eqb (p_start P) 1));
      [|destruct (Nat.eqb (p_start P) 2)]; simpl; rewrite ?map_fst_pairs; auto.
  Qed.

  Lemma node_start_targets sync n st : targets_ok (nbrs G) n (snd (node_start P G sync n st)).
  Proof.
    pose proof (maxsum_graph_ok_l G Hwf) as [Hnd _].
    unfold targets_ok, node_start.
    destruct (nbrs_cases G n) as [[vd [Hv Hn]]|[[fd [Hnv [Hf [Hin Hn]]]]|[Hnv [Hnf Hn]]]].
    - rewrite Hv. apply sub_targets_ok; auto. rewrite Hn. apply var_start_keys.
    - rewrite Hnv, Hf. apply sub_targets_ok; auto. rewrite Hn.
      destruct (fac_start_keys fd st) as [H|H]; auto.
    - rewrite Hnv, Hnf. simpl. split; [constructor | intros x []].
  Qed.

  Lemma ms_cycle_targets n st k msgs : targets_ok (nbrs G) n (snd (fst (ms_cycle P G n st k msgs))).
  Proof.
    unfold targets_ok, ms_cycle.
    destruct (nbrs_cases G n) as [[vd [Hv Hn]]|[[fd [Hnv [Hf [Hin Hn]]]]|[Hnv [Hnf Hn]]]].
    - rewrite Hv, Hn. unfold var_send. rewrite filter_true.
      match goal with |- context [emit_all ?a ?b ?c ?d ?e] =>
        pose proof (emit_all_keys a b c e d) as [H1 H2]; destruct (emit_all a b c d e) as [outs prev'] end.
      simpl in *. split; auto. apply H2. apply factors_of_nodup; auto.
    - rewrite Hnv, Hf, Hn. unfold fac_send. rewrite filter_true.
      match goal with |- context [emit_all ?a ?b ?c ?d ?e] =>
        pose proof (emit_all_keys a b c e d) as [H1 H2]; destruct (emit_all a b c d e) as [outs prev'] end.
      simpl in *. split; auto. apply H2. destruct Hwf as [_ H]. apply (H n fd Hin).
    - rewrite Hnv, Hnf. simpl. split; [constructor | intros x []].
  Qed.

  Theorem maxsum_algo_ok_l : algo_ok (nbrs G) (maxsum_algo P G).
  Proof.
    split.
    - intros n st. apply node_start_targets.
    - intros n st k msgs. simpl. rewrite ms_cycle_returns_nil, app_nil_r. apply ms_cycle_targets.
  Qed.
End AlgoOk.

(* ================================================================== part 2: lock-step refinement *)
(* ------------------------------------------------------------------ dictionaries up to key order *)
Definition dict_equiv (c c' : list (node * table)) : Prop := forall a, zlookup a c = zlookup a c'.

Lemma dict_update_lookup msgs : forall c a, NoDup (map fst msgs) ->
  zlookup a (dict_update c msgs) = match zlookup a msgs with Some t => Some t | None => zlookup a c end.
Proof.
  unfold dict_update. induction msgs as [|[b t] r IH]; intros c a Hnd; simpl.
  - reflexivity.
  - inversion Hnd as [|? ? Hnin Hnd']; subst. rewrite IH by auto.
    unfold zlookup at 3. simpl. destruct (Z.eqb_spec a b) as [->|Hne].
    + rewrite (zlookup_notin b r Hnin). apply zlookup_set_same.
    + fold (@zlookup table a r). destruct (zlookup a r); auto. now apply zlookup_set_other.
Qed.

Lemma dict_update_nodup msgs : forall c, NoDup (map fst c) -> NoDup (map fst (dict_update c msgs)).
Proof.
  unfold dict_update. induction msgs as [|[b t] r IH]; intros c H; simpl; auto.
  apply IH. now apply dict_set_nodup.
Qed.

Lemma dict_update_keys msgs L : forall c, incl (map fst c) L -> incl (map fst msgs) L ->
  incl (map fst (dict_update c msgs)) L.
Proof.
  unfold dict_update. induction msgs as [|[b t] r IH]; intros c H1 H2; simpl; auto.
  apply IH.
  - apply dict_set_keys_incl; auto. apply H2. left; reflexivity.
  - intros y Hy. apply H2. right; exact Hy.
Qed.

Lemma dict_equiv_perm (c c' : list (node * table)) :
  NoDup (map fst c) -> NoDup (map fst c') -> dict_equiv c c' -> Permutation c c'.
Proof.
  intros H1 H2 He. apply NoDup_Permutation.
  - eapply NoDup_map_inv; eauto.
  - eapply NoDup_map_inv; eauto.
  - intros [a t]. split; intros Hin.
    + apply In_zlookup in Hin; auto. rewrite He in Hin. now apply zlookup_In.
    + apply In_zlookup in Hin; auto. rewrite <- He in Hin. now apply zlookup_In.
Qed.

Lemma qsum_perm l l' : Permutation l l' -> (qsum l == qsum l')%Q.
Proof.
  induction 1; simpl.
  - reflexivity.
  - rewrite IHPermutation. reflexivity.
  - ring.
  - etransitivity; eauto.
Qed.

Lemma belief_equiv vd c c' d :
  NoDup (map fst c) -> NoDup (map fst c') -> dict_equiv c c' -> (belief vd c d == belief vd c' d)%Q.
Proof.
  intros H1 H2 He. unfold belief. apply Qplus_comp; [reflexivity|].
  apply qsum_perm. apply Permutation_map. now apply dict_equiv_perm.
Qed.

Lemma Qltb_comp a a' b b' : (a == a')%Q -> (b == b')%Q -> Qltb a b = Qltb a' b'.
Proof. intros Ha Hb. unfold Qltb. rewrite Ha, Hb. reflexivity. Qed.

Definition sel_rel (x y : option (nat * Q)) : Prop :=
  match x, y with
  | None, None => True
  | Some (b, c), Some (b', c') => b = b' /\ (c == c')%Q
  | _, _ => False
  end.

Lemma sel_fold_equiv mx bf bf' l : (forall d, (bf d == bf' d)%Q) -> forall cur cur',
  sel_rel cur cur' -> sel_rel (fold_left (sel_step mx bf) l cur) (fold_left (sel_step mx bf') l cur').
Proof.
  intros Hb. induction l as [|d l IH]; intros cur cur' H; simpl; auto.
  apply IH. destruct cur as [[b c]|], cur' as [[b' c']|]; simpl in *; try contradiction.
  - destruct H as [-> Hc].
    assert ((if mx then Qltb c (bf d) else Qltb (bf d) c) = (if mx then Qltb c' (bf' d) else Qltb (bf' d) c')) as ->.
    { destruct mx; apply Qltb_comp; auto. }
    destruct (if mx then Qltb c' (bf' d) else Qltb (bf' d) c'); simpl; auto.
  - auto.
Qed.

Lemma select_value_equiv mx vd c c' :
  (forall d, (belief vd c d == belief vd c' d)%Q) -> select_value mx vd c = select_value mx vd c'.
Proof.
  intros H. unfold select_value.
  pose proof (sel_fold_equiv mx _ _ (seq 0 (v_dom vd)) H None None I) as Hr.
  destruct (fold_left (sel_step mx (belief vd c)) _ None) as [[b q]|],
           (fold_left (sel_step mx (belief vd c')) _ None) as [[b' q']|]; simpl in Hr; try contradiction; auto.
  destruct Hr as [-> Hq]. f_equal. now apply Qred_complete.
Qed.

Lemma fold_left_ext' {X Y} (f g : X -> Y -> X) l : (forall a b, f a b = g a b) -> forall i, fold_left f l i = fold_left g l i.
Proof. intros H. induction l as [|y l IH]; intros i; simpl; auto. rewrite H. apply IH. Qed.

Lemma fcv_equiv D mx f recv recv' x :
  dict_equiv recv recv' -> factor_costs_for_var D mx f recv x = factor_costs_for_var D mx f recv' x.
Proof.
  intros H. unfold factor_costs_for_var. apply map_ext. intros d. do 2 f_equal.
  unfold fcv_at. apply fold_left_ext'. intros cur a. do 2 f_equal.
  unfold sum_recv. f_equal. apply map_ext. intros [y v]. unfold recv_cost. simpl. rewrite (H y). reflexivity.
Qed.

Lemma cff_equiv vd factors c c' f :
  dict_equiv c c' -> costs_for_factor vd factors c f = costs_for_factor vd factors c' f.
Proof.
  intros H. unfold costs_for_factor.
  assert (cff_others factors c f = cff_others factors c' f) as ->; [|reflexivity].
  unfold cff_others. apply flat_map_ext. intros g. rewrite (H g). reflexivity.
Qed.

Lemma emit_all_ext P dampon compute compute' targets : (forall t, compute t = compute' t) ->
  forall prev, emit_all P dampon compute prev targets = emit_all P dampon compute' prev targets.
Proof.
  intros H. induction targets as [|t r IH]; intros prev; simpl; auto.
  rewrite H. destruct (emit P dampon prev t (compute' t)) as [o prev1]. rewrite IH. reflexivity.
Qed.

(* ------------------------------------------------------------------ normal forms of on_new_cycle *)
Lemma ms_cycle_var P G n vd st k msgs :
  zlookup n (d_vars G) = Some vd ->
  let c1 := dict_update (n_costs st) msgs in
  let sv := select_value (p_max P) vd c1 in
  let E := emit_all P (p_damp_vars P) (costs_for_factor vd (factors_of G n) c1) (n_prev st) (factors_of G n) in
  ms_cycle P G n st k msgs =
    (mkN c1 (snd E) (n_sel st ++ [(fst sv, Some (snd sv))]) (n_out st ++ fst E), fst E, []).
Proof.
  intros Hv. cbv zeta. unfold ms_cycle. rewrite Hv. unfold var_select, var_send, set_costs. simpl.
  destruct (select_value _ _ _) as [d c]. simpl. rewrite filter_true.
  destruct (emit_all _ _ _ _ _) as [outs prev']. reflexivity.
Qed.

Lemma ms_cycle_fac P G n fd st k msgs :
  zlookup n (d_vars G) = None -> zlookup n (d_facs G) = Some fd ->
  let c1 := dict_update (n_costs st) msgs in
  let E := emit_all P (p_damp_facs P) (factor_costs_for_var (dom_of G) (p_max P) fd c1) (n_prev st) (f_scope fd) in
  ms_cycle P G n st k msgs = (mkN c1 (snd E) (n_sel st) (n_out st ++ fst E), fst E, []).
Proof.
  intros Hv Hf. cbv zeta. unfold ms_cycle. rewrite Hv, Hf. unfold fac_send, set_costs. simpl. rewrite filter_true.
  destruct (emit_all _ _ _ _ _) as [outs prev']. reflexivity.
Qed.

Lemma ms_cycle_none P G n st k msgs :
  zlookup n (d_vars G) = None -> zlookup n (d_facs G) = None ->
  ms_cycle P G n st k msgs = (set_costs st (dict_update (n_costs st) msgs), [], []).
Proof. intros Hv Hf. unfold ms_cycle. rewrite Hv, Hf. reflexivity. Qed.

(* two computation states that differ only in the key order of the received-costs dict *)
Definition st_equiv (s s' : nst) : Prop :=
  dict_equiv (n_costs s) (n_costs s') /\ NoDup (map fst (n_costs s)) /\ NoDup (map fst (n_costs s')) /\
  n_prev s = n_prev s' /\ n_sel s = n_sel s' /\ n_out s = n_out s'.

Lemma st_equiv_refl s : NoDup (map fst (n_costs s)) -> st_equiv s s.
Proof. intros H. repeat split; auto. Qed.

Lemma ms_cycle_equiv P G n s s' k m m' :
  st_equiv s s' -> dict_equiv m m' -> NoDup (map fst m) -> NoDup (map fst m') ->
  st_equiv (fst (fst (ms_cycle P G n s k m))) (fst (fst (ms_cycle P G n s' k m'))) /\
  snd (fst (ms_cycle P G n s k m)) = snd (fst (ms_cycle P G n s' k m')).
Proof.
  intros [Hc [Hn [Hn' [Hp [Hs Ho]]]]] Hm Hmn Hmn'.
  assert (He : dict_equiv (dict_update (n_costs s) m) (dict_update (n_costs s') m')).
  { intros a. rewrite !dict_update_lookup by auto. rewrite (Hm a), (Hc a). reflexivity. }
  assert (Hd : NoDup (map fst (dict_update (n_costs s) m))) by now apply dict_update_nodup.
  assert (Hd' : NoDup (map fst (dict_update (n_costs s') m'))) by now apply dict_update_nodup.
  destruct (zlookup n (d_vars G)) as [vd|] eqn:Ev.
  - rewrite !(ms_cycle_var P G n vd) by auto. cbv zeta. simpl.
    rewrite Hp, Hs, Ho.
    rewrite (select_value_equiv (p_max P) vd _ _ (fun d => belief_equiv vd _ _ d Hd Hd' He)).
    rewrite (emit_all_ext P (p_damp_vars P) _ _ (factors_of G n) (fun f => cff_equiv vd (factors_of G n) _ _ f He)).
    split; [|reflexivity]. repeat split; auto.
  - destruct (zlookup n (d_facs G)) as [fd|] eqn:Ef.
    + rewrite !(ms_cycle_fac P G n fd) by auto. cbv zeta. simpl.
      rewrite Hp, Hs, Ho.
      rewrite (emit_all_ext P (p_damp_facs P) _ _ (f_scope fd)
                 (fun x => fcv_equiv (dom_of G) (p_max P) fd _ _ x He)).
      split; [|reflexivity]. repeat split; auto.
    + rewrite !ms_cycle_none by auto. simpl. split; [|reflexivity]. repeat split; auto.
Qed.

(* ------------------------------------------------------------------ one step of the mixin, exactly *)
Section StepCases.
  Context {A P : Type}.
  Variable nbrs : node -> list node.
  Variable G : algo A P.
  Hypothesis HG : graph_ok nbrs.
  Hypothesis HA : algo_ok nbrs G.
  Hypothesis Hret : forall n s k msgs, snd (a_cycle G n s k msgs) = [].

  (* what one start / one cycle switch posts: the algorithm's messages, then the implicit syncs *)
  Definition bcast (n : node) (o : list (node * P)) : list (node * option P) :=
    map (fun tp => (fst tp, Some (snd tp))) o ++
    map (fun t => (t, None)) (filter (fun t => negb (nmem t (map fst o))) (nbrs n)).

  Lemma sync_start_exact n (s : sst A P) :
    sent s = [] ->
    exists snt, sync_start nbrs G n s =
      (mkS (cur s) (nxt s) [] snt (fst (a_start G n (ast s)))
           (outlog s ++ ol (cur s) (bcast n (snd (a_start G n (ast s))))),
       wl (cur s) (bcast n (snd (a_start G n (ast s)))), []).
  Proof.
    intros Hs. unfold sync_start. destruct (a_start G n (ast s)) as [a' o]. simpl.
    destruct (post_list _ o) as [s1 m1] eqn:E1. apply post_list_spec in E1 as [E1 E1']. simpl in E1, E1'.
    destruct (post_syncs s1 (nbrs n)) as [s2 m2] eqn:E2.
    apply post_syncs_spec in E2 as [E2 E2']; [|apply HG].
    subst s1. simpl in *. rewrite Hs in *. simpl in *. subst. eexists. unfold end_cycle. simpl.
    unfold bcast. rewrite ol_app, wl_app, app_assoc. reflexivity.
  Qed.

  Lemma switch_cycle_exact n (s : sst A P) :
    let msgs := algo_messages (cyc s) in
    let r := a_cycle G n (ast s) (cur s) msgs in
    exists snt, switch_cycle nbrs G n s =
      (mkS (S (cur s)) (nxt s) [] snt (fst (fst r)) (outlog s ++ ol (S (cur s)) (bcast n (snd (fst r)))),
       wl (S (cur s)) (bcast n (snd (fst r))), [EvCycle n (cur s) msgs]).
  Proof.
    cbv zeta. unfold switch_cycle.
    pose proof (Hret n (ast s) (cur s) (algo_messages (cyc s))) as Hr0.
    destruct (a_cycle G n (ast s) (cur s) (algo_messages (cyc s))) as [[a' posted] returned]. simpl in Hr0. subst returned.
    simpl.
    destruct (post_list _ posted) as [s1 m1] eqn:E1. apply post_list_spec in E1 as [E1 E1']. simpl in E1, E1'.
    destruct (post_syncs s1 (nbrs n)) as [s2 m2] eqn:E2.
    apply post_syncs_spec in E2 as [E2 E2']; [|apply HG].
    subst s1. simpl in *. subst. eexists. unfold end_cycle. simpl.
    unfold bcast. rewrite ol_app, wl_app, app_assoc. reflexivity.
  Qed.

  Notation SPx := (sync_proto nbrs G).

  Lemma sync_step_cases cf act : Inv nbrs cf ->
    forall x,
      let cf' := fst (step SPx cf act) in
      (rn cf' x = rn cf x /\ cur (st cf' x) = cur (st cf x) /\ ast (st cf' x) = ast (st cf x) /\
       outlog (st cf' x) = outlog (st cf x))
      \/ (rn cf x = false /\ rn cf' x = true /\ cur (st cf' x) = 0 /\
          ast (st cf' x) = fst (a_start G x (ast (st cf x))) /\
          outlog (st cf' x) = ol 0 (bcast x (snd (a_start G x (ast (st cf x))))))
      \/ (exists msgs, rn cf x = true /\ rn cf' x = true /\
          In (EvCycle x (cur (st cf x)) msgs) (snd (step SPx cf act)) /\
          cur (st cf' x) = S (cur (st cf x)) /\
          ast (st cf' x) = fst (fst (a_cycle G x (ast (st cf x)) (cur (st cf x)) msgs)) /\
          outlog (st cf' x) = outlog (st cf x) ++
             ol (S (cur (st cf x))) (bcast x (snd (fst (a_cycle G x (ast (st cf x)) (cur (st cf x)) msgs))))).
  Proof.
    intros HI x. destruct HG as [Hnd [Hsym Hirr]].
    destruct act as [n|a0 b0]; simpl.
    - (* Start *)
      destruct (w_running (nodes cf n)) eqn:Hr; simpl; [left; auto|].
      destruct (I_idle nbrs cf HI n Hr) as [Ic [Icy [Inx [Isn Iol]]]].
      destruct (sync_start_exact n (w_st (nodes cf n)) Isn) as [snt E].
      fold (st cf n) in E |- *. rewrite E. simpl.
      destruct (Z.eq_dec x n) as [->|Hx].
      + right. left. unfold rn, st. simpl. rewrite upd_node_same. simpl.
        fold (st cf n). rewrite Ic, Iol. simpl. repeat split; auto.
      + left. unfold rn, st. simpl. rewrite upd_node_other by auto. auto.
    - (* Deliver *)
      destruct (chan cf a0 b0) as [|m q] eqn:Hc; simpl; [left; auto|].
      destruct (w_running (nodes cf b0)) eqn:Hr; simpl.
      2:{ left. unfold rn, st. simpl. unfold upd_node. destruct (Z.eqb_spec x b0) as [->|Hx]; simpl; auto. }
      destruct (recv_cases nbrs G Hsym Hirr cf a0 b0 m q HI Hr Hc) as [Hnb [Hne [Hkn [Hst [Hq [Hle Hcases]]]]]].
      fold (st cf b0) in *.
      destruct Hcases as [[Hkc [Hsm [Hlen Hrecv]]] | [[Hkc [Hsm [Hlen Hrecv]]] | [Hkc [Hsm Hrecv]]]];
        rewrite Hrecv.
      + simpl. left. unfold rn, st. simpl. unfold upd_node. destruct (Z.eqb_spec x b0) as [->|Hx]; simpl; auto.
      + match goal with |- context [switch_cycle nbrs G b0 ?s1] =>
          destruct (switch_cycle_exact b0 s1) as [snt E] end.
        simpl in E. rewrite E. simpl.
        destruct (Z.eq_dec x b0) as [->|Hx].
        * right. right. exists (algo_messages (cyc (st cf b0) ++ [(a0, m)])).
          unfold rn, st. simpl. rewrite upd_node_same. simpl. repeat split; auto.
        * left. unfold rn, st. simpl. rewrite upd_node_other by auto. auto.
      + simpl. left. unfold rn, st. simpl. unfold upd_node. destruct (Z.eqb_spec x b0) as [->|Hx]; simpl; auto.
  Qed.
End StepCases.

(* ------------------------------------------------------------------ the functional lock-step rounds *)
Lemma flat_opt_lookup {V} (h : node -> option V) (L : list node) a : NoDup L ->
  zlookup a (flat_map (fun b => match h b with Some t => [(b, t)] | None => [] end) L)
  = if zmem a L then h a else None.
Proof.
  unfold zlookup, zmem. induction L as [|b L IH]; intros Hnd; simpl; auto.
  inversion Hnd as [|? ? Hnin Hnd']; subst. specialize (IH Hnd').
  destruct (Z.eqb_spec a b) as [->|Hne]; simpl.
  - destruct (h b) eqn:Eh; simpl.
    + now rewrite Z.eqb_refl.
    + rewrite IH. destruct (existsb (Z.eqb b) L) eqn:Ex; auto.
  - destruct (h b) eqn:Eh; simpl; auto.
    destruct (Z.eqb_spec a b); [contradiction|]. exact IH.
Qed.

Lemma flat_opt_keys {V} (h : node -> option V) (L : list node) :
  incl (map fst (flat_map (fun b => match h b with Some t => [(b, t)] | None => [] end) L)) L /\
  (NoDup L -> NoDup (map fst (flat_map (fun b => match h b with Some t => [(b, t)] | None => [] end) L))).
Proof.
  induction L as [|b L [IH1 IH2]]; simpl.
  - split; [intros x [] | constructor].
  - split.
    + destruct (h b); simpl; intros y Hy; [destruct Hy as [<-|Hy]|]; auto.
      * left; reflexivity.
      * right; apply IH1; exact Hy.
      * right; apply IH1; exact Hy.
    + intros Hnd. inversion Hnd as [|? ? Hnin Hnd']; subst. destruct (h b); simpl; auto.
      constructor; auto.
Qed.

Section Rounds.
  Variable P : params.
  Variable G : dcop.

  (* global state of the lock-step system after a round: per computation, its state and the max_sum
     messages it posted in that round *)
  Definition gstate := node -> nst * list (node * table).

  (* the messages addressed to n in the last round, in the order of n's neighbour list *)
  Definition inbox (g : gstate) (n : node) : list (node * table) :=
    flat_map (fun a => match zlookup n (snd (g a)) with Some t => [(a, t)] | None => [] end) (nbrs G n).

  Definition ms_init : gstate := fun n => node_start P G true n nst0.
  (* round k: every computation runs on_new_cycle(messages of the previous round, k) *)
  Definition ms_round (k : nat) (g : gstate) : gstate :=
    fun n => fst (ms_cycle P G n (fst (g n)) k (inbox g n)).
  Fixpoint ms_rounds (k : nat) : gstate :=
    match k with O => ms_init | S k' => ms_round k' (ms_rounds k') end.

  Hypothesis Hwf : wf_dcop G.

  Lemma inbox_lookup g n a :
    zlookup a (inbox g n) = if zmem a (nbrs G n) then zlookup n (snd (g a)) else None.
  Proof. unfold inbox. apply (flat_opt_lookup (fun a => zlookup n (snd (g a)))). apply (maxsum_graph_ok_l G Hwf). Qed.

  Lemma inbox_nodup g n : NoDup (map fst (inbox g n)).
  Proof. unfold inbox. apply (flat_opt_keys (fun a => zlookup n (snd (g a)))). apply (maxsum_graph_ok_l G Hwf). Qed.

  Notation MP := (maxsum_proto P G).
  Notation cfg := (config (sst nst table) (wmsg table)).

  (* the simulation relation: a started computation that has completed k cycles is in the state the
     lock-step system gives it after k rounds (up to the key order of the costs dict), and every message
     it ever posted with stamp j is the one of lock-step round j (None = only the implicit sync) *)
  Definition sim (cf : cfg) : Prop :=
    forall n,
      (rn cf n = false -> ast (st cf n) = nst0) /\
      (rn cf n = true ->
         st_equiv (ast (st cf n)) (fst (ms_rounds (cur (st cf n)) n)) /\
         forall j t x, In (j, t, x) (outlog (st cf n)) -> x = zlookup t (snd (ms_rounds j n))).

  Lemma bcast_lookup n (o : list (node * table)) t x :
    NoDup (map fst o) -> In (t, x) (bcast (nbrs G) n o) -> x = zlookup t o.
  Proof.
    intros Hnd Hin. unfold bcast in Hin. apply in_app_or in Hin as [Hin|Hin].
    - apply in_map_iff in Hin as [[t' p] [E Hin]]. simpl in E. inversion E; subst.
      symmetry. now apply In_zlookup.
    - apply in_map_iff in Hin as [t' [E Hin]]. inversion E; subst.
      apply filter_In in Hin as [_ Hin]. apply negb_true_iff in Hin. apply nmem_false in Hin.
      symmetry. now apply zlookup_notin.
  Qed.

  Lemma sim_init : sim (init MP).
  Proof. intros n. unfold rn, st. simpl. split; [reflexivity | discriminate]. Qed.

  Lemma nst0_keys : NoDup (map fst (n_costs nst0)).
  Proof. constructor. Qed.

  Lemma node_start_costs sync n s : n_costs (fst (node_start P G sync n s)) = n_costs s.
  Proof.
    unfold node_start. destruct (zlookup n (d_vars G)) as [vd|].
    - unfold var_start. destruct (v_init vd); [|destruct (select_value _ _ _)]; reflexivity.
    - destruct (zlookup n (d_facs G)); reflexivity.
  Qed.

  Lemma sim_step cf act : reachable MP cf -> sim cf ->
    sim (fst (step MP cf act)) /\
    (forall n k msgs, In (EvCycle n k msgs) (snd (step MP cf act)) ->
       NoDup (map fst msgs) /\ dict_equiv msgs (inbox (ms_rounds k) n)).
  Proof.
    intros Hre Hsim. unfold maxsum_proto in *.
    pose proof (maxsum_graph_ok_l G Hwf) as HGo.
    pose proof (maxsum_algo_ok_l P G Hwf) as HAo.
    destruct HGo as [Hnd [Hsym Hirr]]. destruct HAo as [Hst Hcy].
    destruct (reachable_inv (nbrs G) (maxsum_algo P G) Hnd Hst Hcy Hsym Hirr cf Hre) as [HI H2].
    destruct (step_facts2 (nbrs G) (maxsum_algo P G) Hnd Hst Hcy Hsym Hirr cf act HI H2) as [_ Hin].
    (* what an on_new_cycle call is handed = the lock-step inbox *)
    assert (Hmsgs : forall n k msgs, In (EvCycle n k msgs) (snd (step MP cf act)) ->
              k = cur (st cf n) /\ NoDup (map fst msgs) /\ dict_equiv msgs (inbox (ms_rounds k) n)).
    { intros n k msgs Hev. destruct (Hin n k msgs Hev) as [Hk [Hmn [Hmi Hall]]].
      split; [exact Hk|]. split; [exact Hmn|].
      intros a. rewrite inbox_lookup. destruct (zmem a (nbrs G n)) eqn:Ea.
      - apply zmem_In in Ea. destruct (Hall a Ea) as [x [Hlog Hx]]. rewrite Hx.
        destruct (Hsim a) as [Hidle Hrun]. destruct (rn cf a) eqn:Hra.
        + destruct (Hrun eq_refl) as [_ Hl]. apply (Hl _ _ _ Hlog).
        + destruct (I_idle (nbrs G) cf HI a Hra) as [_ [_ [_ [_ Iol]]]]. rewrite Iol in Hlog. contradiction.
      - apply zlookup_notin. intros Hc. apply Hmi in Hc. apply zmem_In in Hc. congruence. }
    split; [|intros n k msgs Hev; destruct (Hmsgs n k msgs Hev) as [_ [H3 H4]]; auto].
    intros x.
    destruct (sync_step_cases (nbrs G) (maxsum_algo P G) (conj Hnd (conj Hsym Hirr)) (ms_cycle_returns_nil P G)
                cf act HI x) as [[Hr [Hc [Ha Ho]]] | [[Hr [Hr' [Hc [Ha Ho]]]] | [msgs [Hr [Hr' [Hev [Hc [Ha Ho]]]]]]]];
      destruct (Hsim x) as [Hidle Hrun].
    - rewrite Hr, Hc, Ha, Ho. split; auto.
    - rewrite Hr', Hc, Ha, Ho. split; [discriminate|]. intros _.
      rewrite (Hidle Hr). simpl. split.
      + apply st_equiv_refl. unfold ms_init. rewrite node_start_costs. constructor.
      + intros j t y Hy. apply In_ol in Hy as [-> Hy]. simpl. unfold ms_init.
        eapply bcast_lookup; eauto. apply (node_start_targets P G Hwf true x nst0).
    - rewrite Hr', Hc, Ha, Ho. split; [discriminate|]. intros _.
      destruct (Hrun Hr) as [Heq Hlog]. destruct (Hmsgs x _ msgs Hev) as [_ [Hmn Hme]].
      simpl.
      destruct (ms_cycle_equiv P G x _ _ (cur (st cf x)) _ _ Heq Hme Hmn (inbox_nodup (ms_rounds (cur (st cf x))) x))
        as [Hse Hso].
      split.
      + exact Hse.
      + intros j t y Hy. apply in_app_or in Hy as [Hy|Hy]; [now apply Hlog|].
        apply In_ol in Hy as [-> Hy]. simpl. unfold ms_round. rewrite <- Hso.
        eapply bcast_lookup; eauto. apply (ms_cycle_targets P G Hwf).
  Qed.

  Lemma sim_reachable cf : reachable MP cf -> sim cf.
  Proof.
    induction 1 as [|cf a Hre IH].
    - apply sim_init.
    - apply sim_step; auto.
  Qed.

  (* THE REFINEMENT, all schedules: (1) the on_new_cycle call with id k at computation n is handed exactly
     the messages that the lock-step system delivers to n after round k (as a dict: same senders, same
     tables; the insertion order is the arrival order); (2) a computation that has completed k cycles is in
     its lock-step state after k rounds: same value_selection history, same _prev_messages, same messages
     posted, same costs dict up to key order. *)
  Theorem maxsum_refines_rounds_l :
    (forall cf act n k msgs, reachable MP cf -> In (EvCycle n k msgs) (snd (step MP cf act)) ->
       k = cur (w_st (nodes cf n)) /\ NoDup (map fst msgs) /\ dict_equiv msgs (inbox (ms_rounds k) n)) /\
    (forall cf n, reachable MP cf -> w_running (nodes cf n) = true ->
       st_equiv (ast (w_st (nodes cf n))) (fst (ms_rounds (cur (w_st (nodes cf n))) n))).
  Proof.
    split.
    - intros cf act n k msgs Hre Hev.
      pose proof (maxsum_graph_ok_l G Hwf) as HGo. pose proof (maxsum_algo_ok_l P G Hwf) as HAo.
      destruct (sync_round_inputs_l (nbrs G) (maxsum_algo P G) HGo HAo cf act n k msgs Hre Hev) as [Hk _].
      split; [exact Hk|]. apply (sim_step cf act Hre (sim_reachable cf Hre)). exact Hev.
    - intros cf n Hre Hr. destruct (sim_reachable cf Hre n) as [_ H]. apply H. exact Hr.
  Qed.
End Rounds.
