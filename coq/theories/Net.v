(* Net.v -- generic asynchronous network semantics shared by all distributed-algorithm models.

   A node is a real pyDCOP computation object (MessagePassingComputation): it has a
   [running] flag and a buffer of messages received before start; the protocol-specific
   part is plugged in as [proto].  The network is one FIFO list per ordered pair of nodes.
   A *schedule* is an explicit list of actions; the thread-free driver
   /verif/harness/pydrv/netdriver.py executes exactly the same actions on the real objects.

   Start n        : computation.start(): running := True, on_start(), then the messages
                    received before start are re-injected (with priority 19, i.e. ahead of
                    everything still queued from the same sender) in the order
                    [reinject] gives (reception order).
   Deliver s d    : pop the head of channel (s,d) and call d.on_message(s, m): handled if d
                    is running, otherwise stored in d's buffer.
   Actions that are not enabled (Start of a running node, Deliver on an empty channel) are
   no-ops, so [exec] is total and a schedule can be shared verbatim with the driver. *)
From PyDcop Require Import Base.

Definition node := Z.

Section Net.
  Context {St Msg Ev : Type}.

  Record proto := mkProto {
    p_init  : node -> St;
    p_start : node -> St -> St * list (node * Msg) * list Ev;
    p_recv  : node -> St -> node -> Msg -> St * list (node * Msg) * list Ev
  }.

  Record nwrap := mkWrap {
    w_running : bool;
    w_held : list (node * Msg);       (* _paused_messages_recv, in reception order *)
    w_st : St
  }.

  Record config := mkConfig {
    nodes : node -> nwrap;
    chan : node -> node -> list Msg    (* chan s d : FIFO from s to d, head first *)
  }.

  Inductive action := Start (n : node) | Deliver (s d : node).

  Definition upd_node (f : node -> nwrap) (n : node) (w : nwrap) : node -> nwrap :=
    fun x => if Z.eqb x n then w else f x.
  Definition upd_chan (c : node -> node -> list Msg) (s d : node) (l : list Msg) :=
    fun x y => if Z.eqb x s && Z.eqb y d then l else c x y.

  (* append the messages [outs] sent by [src] at the tail of their channels, in order *)
  Fixpoint send_all (c : node -> node -> list Msg) (src : node) (outs : list (node * Msg)) :=
    match outs with
    | [] => c
    | (d, m) :: r => send_all (upd_chan c src d (c src d ++ [m])) src r
    end.

  (* the order in which start() re-posts the messages it held: since /repo fix 97ceda3 the
     code does [buf.pop(0)], i.e. oldest first (before that fix: [buf.pop()], newest first) *)
  Definition reinject (l : list (node * Msg)) : list (node * Msg) := l.

  (* re-injected messages overtake what is still queued from the same sender and keep their
     re-injection order: pushing the list at the head of the channels, last element first *)
  Definition reinject_all (c : node -> node -> list Msg) (dst : node) (l : list (node * Msg)) :=
    fold_right (fun sm c' => upd_chan c' (fst sm) dst (snd sm :: c' (fst sm) dst)) c l.

  Definition init (P : proto) : config :=
    mkConfig (fun n => mkWrap false [] (p_init P n)) (fun _ _ => []).

  Definition step (P : proto) (cf : config) (a : action) : config * list Ev :=
    match a with
    | Start n =>
        let w := nodes cf n in
        if w_running w then (cf, [])
        else
          let '(st', outs, evs) := p_start P n (w_st w) in
          let c1 := send_all (chan cf) n outs in
          let c2 := reinject_all c1 n (reinject (w_held w)) in
          (mkConfig (upd_node (nodes cf) n (mkWrap true [] st')) c2, evs)
    | Deliver s d =>
        match chan cf s d with
        | [] => (cf, [])
        | m :: q =>
            let c0 := upd_chan (chan cf) s d q in
            let w := nodes cf d in
            if w_running w then
              let '(st', outs, evs) := p_recv P d (w_st w) s m in
              (mkConfig (upd_node (nodes cf) d (mkWrap true (w_held w) st')) (send_all c0 d outs), evs)
            else
              (mkConfig (upd_node (nodes cf) d (mkWrap false (w_held w ++ [(s, m)]) (w_st w))) c0, [])
        end
    end.

  Fixpoint exec (P : proto) (cf : config) (sched : list action) : config * list Ev :=
    match sched with
    | [] => (cf, [])
    | a :: r =>
        let '(cf1, e1) := step P cf a in
        let '(cf2, e2) := exec P cf1 r in
        (cf2, e1 ++ e2)
    end.

  Definition run (P : proto) (sched : list action) := exec P (init P) sched.

  (* reachable configurations: the closure of [step] from [init], any schedule *)
  Inductive reachable (P : proto) : config -> Prop :=
  | reach_init : reachable P (init P)
  | reach_step cf a : reachable P cf -> reachable P (fst (step P cf a)).

  Lemma exec_reachable P sched cf : reachable P cf -> reachable P (fst (exec P cf sched)).
  Proof.
    revert cf; induction sched as [|a r IH]; simpl; intros cf H; auto.
    destruct (step P cf a) as [cf1 e1] eqn:E1.
    specialize (IH cf1). destruct (exec P cf1 r) as [cf2 e2] eqn:E2. simpl in *.
    apply IH. change cf1 with (fst (cf1, e1)). rewrite <- E1. now constructor.
  Qed.
End Net.

Arguments proto : clear implicits.
Arguments config : clear implicits.
Arguments nwrap : clear implicits.
