(* P_Params.v -- proofs about M_Params (C28): string-keyed dict facts, check_param_value,
   the two loops of prepare_algo_params, str.split(":"), build_algo_def.  Every lemma of the
   Proofs section holds for ANY int(str)/float(str) behaviour (section variables I, F). *)
From PyDcop Require Import Base P_Base M_Params.
Open Scope string_scope.

(* ---------- string-keyed dict facts ---------- *)
Section SDict.
  Context {V : Type}.
  Implicit Types l : list (string * V).

  Lemma slookup_set_same k (v : V) l : slookup k (sdict_set k v l) = Some v.
  Proof. apply (lookup_dict_set_same String.eqb string_eqb_iff). Qed.

  Lemma slookup_set_other k k2 (v : V) l : k2 <> k -> slookup k2 (sdict_set k v l) = slookup k2 l.
  Proof. apply (lookup_dict_set_other String.eqb string_eqb_iff). Qed.

  Lemma slookup_None_notin k l : slookup k l = None <-> ~ In k (map fst l).
  Proof.
    induction l as [|[k' v'] r IH]; simpl.
    - split; auto.
    - unfold slookup in *. simpl. destruct (String.eqb k k') eqn:E.
      + apply String.eqb_eq in E. subst. split; [discriminate|]. intros H; exfalso; auto.
      + apply String.eqb_neq in E. rewrite IH. split.
        * intros H [H1|H1]; auto.
        * intros H H1. apply H; auto.
  Qed.

  Lemma slookup_Some_in k v l : slookup k l = Some v -> In (k, v) l.
  Proof. apply (lookup_In String.eqb string_eqb_iff). Qed.

  Lemma slookup_in_nodup k v l : NoDup (map fst l) -> In (k, v) l -> slookup k l = Some v.
  Proof.
    induction l as [|[k' v'] r IH]; simpl; intros Hn Hin; [contradiction|].
    inversion Hn as [|? ? Hk Hr]; subst. unfold slookup in *. simpl.
    destruct Hin as [E|Hin].
    - inversion E; subst. now rewrite String.eqb_refl.
    - destruct (String.eqb k k') eqn:E.
      + apply String.eqb_eq in E. subst. exfalso. apply Hk.
        change k' with (fst (k', v)). now apply in_map.
      + auto.
  Qed.

  Lemma smem_key_iff k l : smem_key k l = true <-> In k (map fst l).
  Proof.
    unfold smem_key, mem_key. fold (@slookup V k l).
    destruct (slookup k l) eqn:E.
    - split; auto. intros _. apply slookup_Some_in in E.
      change k with (fst (k, v)). now apply in_map.
    - apply slookup_None_notin in E. split; [discriminate|contradiction].
  Qed.

  Lemma sdict_set_absent k (v : V) l : ~ In k (map fst l) -> sdict_set k v l = (l ++ [(k, v)])%list.
  Proof.
    unfold sdict_set. induction l as [|[k' v'] r IH]; simpl; intros H; auto.
    destruct (String.eqb k k') eqn:E.
    - apply String.eqb_eq in E. subst. exfalso; auto.
    - f_equal. apply IH. auto.
  Qed.

  Lemma sdict_set_keys k (v : V) l :
    map fst (sdict_set k v l) = if smem_key k l then map fst l else (map fst l ++ [k])%list.
  Proof.
    induction l as [|[k' v'] r IH]; simpl; auto.
    unfold sdict_set, smem_key, mem_key in *. simpl.
    destruct (String.eqb k k') eqn:E; simpl; auto.
    rewrite IH. destruct (lookup String.eqb k r); auto.
  Qed.

  Lemma sdict_set_nodup k (v : V) l : NoDup (map fst l) -> NoDup (map fst (sdict_set k v l)).
  Proof.
    intros H. rewrite sdict_set_keys. destruct (smem_key k l) eqn:E; auto.
    assert (~ In k (map fst l)) by (rewrite <- smem_key_iff; congruence).
    clear E. induction (map fst l) as [|x r IH]; simpl.
    - repeat constructor. auto.
    - inversion H; subst. constructor.
      + rewrite in_app_iff. simpl. intros [?|[?|[]]]; auto. subst. apply H0. now left.
      + apply IH; auto. intros ?. apply H0. now right.
  Qed.

  Lemma sdict_set_in_key k k2 (v : V) l :
    In k2 (map fst (sdict_set k v l)) <-> k2 = k \/ In k2 (map fst l).
  Proof.
    rewrite sdict_set_keys. destruct (smem_key k l) eqn:E.
    - apply smem_key_iff in E. split; auto. intros [->|]; auto.
    - rewrite in_app_iff. simpl. intuition.
  Qed.
End SDict.

Lemma dict_of_list_nodup_aux {V} (l acc : list (string * V)) :
  NoDup (map fst acc) ->
  NoDup (map fst (fold_left (fun d kv => dict_set String.eqb (fst kv) (snd kv) d) l acc)).
Proof.
  revert acc; induction l as [|[k v] r IH]; simpl; intros acc H; auto.
  apply IH. now apply (sdict_set_nodup k v acc).
Qed.

Lemma dict_of_list_nodup {V} (l : list (string * V)) : NoDup (map fst (dict_of_list String.eqb l)).
Proof. apply dict_of_list_nodup_aux. constructor. Qed.

Lemma dict_of_list_keys_aux {V} (l acc : list (string * V)) k :
  In k (map fst (fold_left (fun d kv => dict_set String.eqb (fst kv) (snd kv) d) l acc)) <->
  In k (map fst l) \/ In k (map fst acc).
Proof.
  revert acc; induction l as [|[k' v] r IH]; simpl; intros acc.
  - intuition.
  - rewrite IH. pose proof (sdict_set_in_key k' k v acc) as H. unfold sdict_set in H. rewrite H.
    intuition.
Qed.

Lemma dict_of_list_keys {V} (l : list (string * V)) k :
  In k (map fst (dict_of_list String.eqb l)) <-> In k (map fst l).
Proof. unfold dict_of_list. rewrite dict_of_list_keys_aux. simpl. intuition. Qed.

(* ---------- the effective definition of a name ---------- *)
Definition find_def (defs : list pdef) (k : string) : option pdef := slookup k (defs_dict defs).

Lemma find_def_in defs k d : find_def defs k = Some d -> In d defs /\ p_name d = k.
Proof.
  unfold find_def, defs_dict. intros H. apply slookup_Some_in in H.
  apply (In_dict_of_list String.eqb string_eqb_iff) in H.
  apply in_map_iff in H as [d' [E Hin]]. inversion E; subst. auto.
Qed.

Lemma defs_dict_keys defs k : In k (map fst (defs_dict defs)) <-> In k (map p_name defs).
Proof. unfold defs_dict. rewrite dict_of_list_keys, map_map. simpl. reflexivity. Qed.

Lemma find_def_declared defs k : In k (map p_name defs) <-> exists d, find_def defs k = Some d.
Proof.
  rewrite <- defs_dict_keys. unfold find_def. split.
  - intros H. destruct (slookup k (defs_dict defs)) eqn:E; eauto.
    apply slookup_None_notin in E. contradiction.
  - intros [d H]. apply slookup_Some_in in H. change k with (fst (k, d)). now apply in_map.
Qed.

Lemma find_def_nodup defs d :
  NoDup (map p_name defs) -> In d defs -> find_def defs (p_name d) = Some d.
Proof.
  intros Hn Hin.
  assert (H : In (p_name d) (map p_name defs)) by now apply in_map.
  apply find_def_declared in H as [d' H]. rewrite H. f_equal.
  apply find_def_in in H as [Hin' E].
  clear -Hn Hin Hin' E. induction defs as [|x r IH]; simpl in *; [contradiction|].
  inversion Hn as [|? ? Hx Hr]; subst.
  destruct Hin as [->|Hin], Hin' as [->|Hin']; auto.
  - exfalso. apply Hx. rewrite <- E. now apply in_map.
  - exfalso. apply Hx. rewrite E. now apply in_map.
Qed.

Lemma defs_dict_nodup defs : NoDup (map fst (defs_dict defs)).
Proof. apply dict_of_list_nodup. Qed.

Section Proofs.
  Variable I : string -> res Z.
  Variable F : string -> res fl.
  Notation check := (check_param_value I F).
  Notation prepare := (prepare_algo_params I F).
  Notation check_all := (check_all I F).

  (* ----- check_param_value ----- *)
  Lemma check_spec v d v' :
    check v d = Ok v' ->
    ((class_name v = p_type d /\ v' = v) \/
     (class_name v <> p_type d /\ p_type d = "int" /\ exists z, py_int I v = Ok z /\ v' = VInt z) \/
     (class_name v <> p_type d /\ p_type d = "float" /\ exists f, py_float F v = Ok f /\ v' = VFloat f))
    /\ class_name v' = p_type d
    /\ allowed v' (p_values d) = true.
  Proof.
    unfold check_param_value, convert.
    destruct (String.eqb (class_name v) (p_type d)) eqn:E1.
    - apply String.eqb_eq in E1. destruct (allowed v (p_values d)) eqn:A; [|discriminate].
      intros H; inversion H; subst. auto.
    - apply String.eqb_neq in E1. destruct (String.eqb (p_type d) "int") eqn:E2.
      + apply String.eqb_eq in E2. destruct (py_int I v) as [z|e] eqn:Ez; simpl; [|discriminate].
        destruct (allowed (VInt z) (p_values d)) eqn:A; [|discriminate].
        intros H; inversion H; subst. split; [right; left; eauto|]. rewrite E2. auto.
      + destruct (String.eqb (p_type d) "float") eqn:E3; [|discriminate].
        apply String.eqb_eq in E3. destruct (py_float F v) as [f|e] eqn:Ef; simpl; [|discriminate].
        destruct (allowed (VFloat f) (p_values d)) eqn:A; [|discriminate].
        intros H; inversion H; subst. split; [right; right; eauto|]. rewrite E3. auto.
  Qed.

  Lemma check_idempotent v d v' : check v d = Ok v' -> check v' d = Ok v'.
  Proof.
    intros H. apply check_spec in H as [_ [Hc Ha]].
    unfold check_param_value, convert. rewrite Hc, String.eqb_refl, Ha. reflexivity.
  Qed.

  (* ----- first loop ----- *)
  Lemma check_all_keys all params : forall sel sel',
    check_all all params sel = Ok sel' ->
    forall k, In k (map fst sel') <-> In k (map fst sel) \/ In k (map fst params).
  Proof.
    induction params as [|[k v] r IH]; simpl; intros sel sel' H k0.
    - inversion H; subst. intuition.
    - destruct (slookup k all) as [d|]; [|discriminate].
      destruct (check v d) as [v'|e]; [|discriminate].
      rewrite (IH _ _ H k0), sdict_set_in_key. intuition.
  Qed.

  Lemma check_all_nodup all params : forall sel sel',
    check_all all params sel = Ok sel' -> NoDup (map fst sel) -> NoDup (map fst sel').
  Proof.
    induction params as [|[k v] r IH]; simpl; intros sel sel' H Hn.
    - inversion H; subst. auto.
    - destruct (slookup k all) as [d|]; [|discriminate].
      destruct (check v d) as [v'|e]; [|discriminate].
      eapply IH; eauto. now apply sdict_set_nodup.
  Qed.

  Lemma check_all_declared all params : forall sel sel',
    check_all all params sel = Ok sel' -> forall k, In k (map fst params) -> In k (map fst all).
  Proof.
    induction params as [|[k v] r IH]; simpl; intros sel sel' H k0 Hin; [contradiction|].
    destruct (slookup k all) as [d|] eqn:El; [|discriminate].
    destruct (check v d) as [v'|e]; [|discriminate].
    destruct Hin as [<-|Hin]; [|eapply IH; eauto].
    apply slookup_Some_in in El. change k with (fst (k, d)). now apply in_map.
  Qed.

  Lemma check_all_untouched all params : forall sel sel',
    check_all all params sel = Ok sel' ->
    forall k, ~ In k (map fst params) -> slookup k sel' = slookup k sel.
  Proof.
    induction params as [|[k v] r IH]; simpl; intros sel sel' H k0 Hn.
    - now inversion H.
    - destruct (slookup k all) as [d|]; [|discriminate].
      destruct (check v d) as [v'|e]; [|discriminate].
      rewrite (IH _ _ H k0) by tauto. apply slookup_set_other. intros ->. tauto.
  Qed.

  Lemma check_all_values all params : forall sel sel',
    NoDup (map fst params) ->
    check_all all params sel = Ok sel' ->
    forall k v, In (k, v) params ->
      exists d v', slookup k all = Some d /\ check v d = Ok v' /\ slookup k sel' = Some v'.
  Proof.
    induction params as [|[k v] r IH]; simpl; intros sel sel' Hn H k0 v0 Hin; [contradiction|].
    inversion Hn as [|? ? Hk Hr]; subst.
    destruct (slookup k all) as [d|] eqn:El; [|discriminate].
    destruct (check v d) as [v'|e] eqn:Ec; [|discriminate].
    destruct Hin as [E|Hin].
    - inversion E; subst. exists d, v'. repeat split; auto.
      rewrite (check_all_untouched _ _ _ _ H k0 Hk). apply slookup_set_same.
    - eapply IH; eauto.
  Qed.

  Lemma check_all_unknown all params : forall sel k,
    In k (map fst params) -> slookup k all = None -> exists e, check_all all params sel = Err e.
  Proof.
    induction params as [|[k v] r IH]; simpl; intros sel k0 Hin Hu; [contradiction|].
    destruct (slookup k all) as [d|] eqn:El; [|eauto].
    destruct (check v d) as [v'|e]; [|eauto].
    destruct Hin as [<-|Hin]; [congruence|]. eapply IH; eauto.
  Qed.

  Lemma check_all_invalid all params : forall sel k v d e,
    In (k, v) params -> slookup k all = Some d -> check v d = Err e ->
    exists e', check_all all params sel = Err e'.
  Proof.
    induction params as [|[k v] r IH]; simpl; intros sel k0 v0 d0 e0 Hin Hl Hc; [contradiction|].
    destruct (slookup k all) as [d|] eqn:El; [|eauto].
    destruct (check v d) as [v'|e] eqn:Ec; [|eauto].
    destruct Hin as [E|Hin]; [inversion E; subst; congruence|]. eapply IH; eauto.
  Qed.

  Lemma check_all_valid all params : forall sel,
    (forall k v, In (k, v) params -> exists d v', slookup k all = Some d /\ check v d = Ok v') ->
    exists sel', check_all all params sel = Ok sel'.
  Proof.
    induction params as [|[k v] r IH]; simpl; intros sel H; [eauto|].
    destruct (H k v (or_introl eq_refl)) as [d [v' [-> ->]]]. apply IH. intros; apply H; auto.
  Qed.

  (* a dict whose values already pass the check is rebuilt identically *)
  Lemma check_all_fixed all r : forall sel,
    NoDup (map fst sel ++ map fst r) ->
    (forall k v, In (k, v) r -> exists d, slookup k all = Some d /\ check v d = Ok v) ->
    check_all all r sel = Ok (sel ++ r)%list.
  Proof.
    induction r as [|[k v] r IH]; simpl; intros sel Hn H.
    - now rewrite app_nil_r.
    - destruct (H k v (or_introl eq_refl)) as [d [-> ->]].
      assert (Hk : ~ In k (map fst sel)).
      { intros Hin. apply NoDup_remove_2 in Hn. apply Hn. apply in_app_iff. auto. }
      rewrite sdict_set_absent by auto. rewrite IH.
      + now rewrite <- app_assoc.
      + rewrite map_app. simpl. rewrite <- app_assoc. exact Hn.
      + intros; apply H; auto.
  Qed.

  (* ----- second loop ----- *)
  Lemma fill_keys all params : forall sel k,
    In k (map fst (fill_missing all params sel)) <->
    In k (map fst sel) \/ (In k (map fst all) /\ ~ In k (map fst params)).
  Proof.
    induction all as [|[k d] r IH]; simpl; intros sel k0.
    - intuition.
    - rewrite IH. destruct (smem_key k params) eqn:E.
      + apply smem_key_iff in E. intuition. subst. contradiction.
      + assert (~ In k (map fst params)) by (rewrite <- smem_key_iff; congruence).
        rewrite sdict_set_in_key. intuition. subst. auto.
  Qed.

  Lemma fill_nodup all params : forall sel,
    NoDup (map fst sel) -> NoDup (map fst (fill_missing all params sel)).
  Proof.
    induction all as [|[k d] r IH]; simpl; intros sel H; auto.
    apply IH. destruct (smem_key k params); auto. now apply sdict_set_nodup.
  Qed.

  Lemma fill_untouched all params : forall sel k,
    (In k (map fst params) \/ ~ In k (map fst all)) ->
    slookup k (fill_missing all params sel) = slookup k sel.
  Proof.
    induction all as [|[k d] r IH]; simpl; intros sel k0 H; auto.
    rewrite IH by tauto. destruct (smem_key k params) eqn:E; auto.
    apply slookup_set_other. intros ->.
    assert (~ In k (map fst params)) by (rewrite <- smem_key_iff; congruence). tauto.
  Qed.

  Lemma fill_default all params : forall sel k d,
    NoDup (map fst all) -> slookup k all = Some d -> ~ In k (map fst params) ->
    slookup k (fill_missing all params sel) = Some (p_default d).
  Proof.
    induction all as [|[k d] r IH]; simpl; intros sel k0 d0 Hn Hl Hp; [discriminate|].
    inversion Hn as [|? ? Hk Hr]; subst. unfold slookup in Hl. simpl in Hl.
    destruct (String.eqb k0 k) eqn:E.
    - apply String.eqb_eq in E. subst k0. inversion Hl; subst d0.
      rewrite fill_untouched by tauto.
      assert (smem_key k params = false) as ->.
      { destruct (smem_key k params) eqn:E; auto. apply smem_key_iff in E. contradiction. }
      apply slookup_set_same.
    - eapply IH; eauto.
  Qed.

  (* ----- prepare_algo_params ----- *)
  Lemma prepare_exact_keys_l params defs r :
    prepare params defs = Ok r ->
    (forall k, In k (map fst r) <-> In k (map p_name defs)) /\ NoDup (map fst r).
  Proof.
    unfold prepare_algo_params. destruct (check_all (defs_dict defs) params []) as [sel|e] eqn:E; [|discriminate].
    intros H; inversion H; subst. split.
    - intros k. rewrite fill_keys, (check_all_keys _ _ _ _ E), defs_dict_keys. simpl.
      pose proof (check_all_declared _ _ _ _ E k) as D. rewrite defs_dict_keys in D.
      destruct (in_dec string_dec k (map fst params)); intuition.
    - apply fill_nodup. eapply check_all_nodup; eauto. constructor.
  Qed.

  Lemma prepare_user_values_l params defs r k v :
    NoDup (map fst params) -> prepare params defs = Ok r -> In (k, v) params ->
    exists d v', find_def defs k = Some d /\ check v d = Ok v' /\ slookup k r = Some v'.
  Proof.
    unfold prepare_algo_params. intros Hn.
    destruct (check_all (defs_dict defs) params []) as [sel|e] eqn:E; [|discriminate].
    intros H Hin; inversion H; subst.
    destruct (check_all_values _ _ _ _ Hn E k v Hin) as [d [v' [H1 [H2 H3]]]].
    exists d, v'. repeat split; auto. rewrite fill_untouched; auto.
    left. change k with (fst (k, v)). now apply in_map.
  Qed.

  Lemma prepare_defaults_l params defs r k d :
    prepare params defs = Ok r -> ~ In k (map fst params) -> find_def defs k = Some d ->
    slookup k r = Some (p_default d).
  Proof.
    unfold prepare_algo_params.
    destruct (check_all (defs_dict defs) params []) as [sel|e] eqn:E; [|discriminate].
    intros H Hk Hd; inversion H; subst.
    apply fill_default; auto. apply defs_dict_nodup.
  Qed.

  Lemma prepare_rejects_unknown_l params defs k :
    In k (map fst params) -> find_def defs k = None -> exists e, prepare params defs = Err e.
  Proof.
    intros Hin Hu. unfold prepare_algo_params.
    destruct (check_all_unknown (defs_dict defs) params [] k Hin Hu) as [e ->]. eauto.
  Qed.

  Lemma prepare_rejects_invalid_l params defs k v d e :
    In (k, v) params -> find_def defs k = Some d -> check v d = Err e ->
    exists e', prepare params defs = Err e'.
  Proof.
    intros Hin Hd Hc. unfold prepare_algo_params.
    destruct (check_all_invalid (defs_dict defs) params [] k v d e Hin Hd Hc) as [e' ->]. eauto.
  Qed.

  Lemma prepare_accepts_valid_l params defs :
    (forall k v, In (k, v) params -> exists d v', find_def defs k = Some d /\ check v d = Ok v') ->
    exists r, prepare params defs = Ok r.
  Proof.
    intros H. unfold prepare_algo_params.
    destruct (check_all_valid (defs_dict defs) params [] H) as [sel ->]. eauto.
  Qed.

  Definition defaults_valid (defs : list pdef) : Prop :=
    forall k d, find_def defs k = Some d -> check (p_default d) d = Ok (p_default d).

  Lemma fill_noop all r : forall sel,
    (forall k, In k (map fst all) -> In k (map fst r)) -> fill_missing all r sel = sel.
  Proof.
    induction all as [|[k d] rest IH]; simpl; intros sel H; auto.
    assert (smem_key k r = true) as -> by (apply smem_key_iff; auto). apply IH. auto.
  Qed.

  Lemma prepare_idempotent_l params defs r :
    NoDup (map fst params) -> defaults_valid defs ->
    prepare params defs = Ok r -> prepare r defs = Ok r.
  Proof.
    intros Hn Hd H. destruct (prepare_exact_keys_l _ _ _ H) as [Hk Hnr].
    unfold prepare_algo_params.
    rewrite (check_all_fixed (defs_dict defs) r []).
    - simpl. f_equal. apply fill_noop. intros k Hin. apply Hk. now apply defs_dict_keys.
    - simpl. exact Hnr.
    - intros k v Hin.
      assert (Hl : slookup k r = Some v) by now apply slookup_in_nodup.
      destruct (in_dec string_dec k (map fst params)) as [Hp|Hp].
      + apply in_map_iff in Hp as [[k' v0] [E Hin0]]. simpl in E. subst k'.
        destruct (prepare_user_values_l _ _ _ _ _ Hn H Hin0) as [d [v' [H1 [H2 H3]]]].
        exists d. split; auto. rewrite Hl in H3. inversion H3; subst.
        eapply check_idempotent; eauto.
      + assert (Hdecl : In k (map p_name defs)).
        { apply Hk. change k with (fst (k, v)). now apply in_map. }
        apply find_def_declared in Hdecl as [d Hfd]. exists d. split; auto.
        rewrite (prepare_defaults_l _ _ _ _ _ H Hp Hfd) in Hl. inversion Hl; subst.
        eapply Hd; eauto.
  Qed.
End Proofs.

(* ---------- str.split(":") ---------- *)
Fixpoint no_colon (s : string) : bool :=
  match s with
  | EmptyString => true
  | String c r => negb (Ascii.eqb c ":"%char) && no_colon r
  end.

Fixpoint sjoin (sep : string) (l : list string) : string :=
  match l with
  | [] => EmptyString
  | [x] => x
  | x :: r => x ++ sep ++ sjoin sep r
  end.

Lemma sapp_assoc (a b c : string) : (a ++ b) ++ c = a ++ (b ++ c).
Proof. induction a; simpl; congruence. Qed.
Lemma sapp_nil_r (a : string) : a ++ "" = a.
Proof. induction a; simpl; congruence. Qed.

Lemma no_colon_app a b : no_colon (a ++ b) = no_colon a && no_colon b.
Proof. induction a; simpl; auto. rewrite IHa. now rewrite andb_assoc. Qed.

Lemma split_aux_nonempty s : forall cur, split_colon_aux s cur <> [].
Proof. induction s as [|c r IH]; simpl; intros cur; [discriminate|]. destruct (Ascii.eqb c ":"); [discriminate|auto]. Qed.

Lemma split_aux_join s : forall cur, sjoin ":" (split_colon_aux s cur) = cur ++ s.
Proof.
  induction s as [|c r IH]; simpl; intros cur.
  - now rewrite sapp_nil_r.
  - destruct (Ascii.eqb c ":") eqn:E.
    + apply Ascii.eqb_eq in E. subst c.
      pose proof (split_aux_nonempty r "") as Hne. specialize (IH "").
      destruct (split_colon_aux r "") as [|y l]; [congruence|].
      change (sjoin ":" (cur :: y :: l)) with (cur ++ ":" ++ sjoin ":" (y :: l)).
      rewrite IH. reflexivity.
    + rewrite IH, sapp_assoc. reflexivity.
Qed.

Lemma split_aux_nocolon s : forall cur, no_colon cur = true ->
  Forall (fun p => no_colon p = true) (split_colon_aux s cur).
Proof.
  induction s as [|c r IH]; simpl; intros cur Hc.
  - constructor; auto.
  - destruct (Ascii.eqb c ":") eqn:E.
    + constructor; auto.
    + apply IH. rewrite no_colon_app, Hc. simpl. now rewrite E.
Qed.

Lemma split_aux_plain v : forall cur, no_colon v = true -> split_colon_aux v cur = [cur ++ v].
Proof.
  induction v as [|c r IH]; simpl; intros cur H.
  - now rewrite sapp_nil_r.
  - apply andb_true_iff in H as [H1 H2]. destruct (Ascii.eqb c ":"); [discriminate|].
    rewrite IH by auto. now rewrite sapp_assoc.
Qed.

Lemma split_aux_head k rest : forall cur, no_colon k = true ->
  split_colon_aux (k ++ ":" ++ rest) cur = (cur ++ k) :: split_colon_aux rest "".
Proof.
  induction k as [|c r IH]; simpl; intros cur H.
  - now rewrite sapp_nil_r.
  - apply andb_true_iff in H as [H1 H2]. destruct (Ascii.eqb c ":"); [discriminate|].
    rewrite IH by auto. now rewrite sapp_assoc.
Qed.

Lemma split_colon_spec_l s k v :
  split_colon s = [k; v] <-> s = k ++ ":" ++ v /\ no_colon k = true /\ no_colon v = true.
Proof.
  unfold split_colon. split.
  - intros H. pose proof (split_aux_join s "") as J. pose proof (split_aux_nocolon s "" eq_refl) as N.
    rewrite H in J, N. simpl in J. inversion N as [|? ? N1 N2]; subst. inversion N2; subst. auto.
  - intros [-> [Hk Hv]]. rewrite split_aux_head by auto. simpl. now rewrite split_aux_plain.
Qed.

Lemma split_colon_join_l s : sjoin ":" (split_colon s) = s /\ Forall (fun p => no_colon p = true) (split_colon s).
Proof. split; [apply (split_aux_join s "")|apply (split_aux_nocolon s "" eq_refl)]. Qed.

(* ---------- build_algo_def ---------- *)
Lemma cli_dict_nodup cli : forall acc p,
  cli_dict cli acc = Ok p -> NoDup (map fst acc) -> NoDup (map fst p).
Proof.
  induction cli as [|s r IH]; simpl; intros acc p H Hn.
  - now inversion H; subst.
  - destruct (split_colon s) as [|k [|v [|? ?]]]; try discriminate.
    eapply IH; eauto. now apply sdict_set_nodup.
Qed.

Lemma cli_dict_wellformed (pairs : list (string * string)) : forall acc,
  Forall (fun kv => no_colon (fst kv) = true /\ no_colon (snd kv) = true) pairs ->
  cli_dict (map (fun kv => fst kv ++ ":" ++ snd kv) pairs) acc =
  Ok (fold_left (fun d kv => dict_set String.eqb (fst kv) (VStr (snd kv)) d) pairs acc).
Proof.
  induction pairs as [|[k v] r IH]; simpl; intros acc H; auto.
  inversion H as [|? ? [Hk Hv] Hr]; subst. simpl in *.
  assert (E : split_colon (k ++ ":" ++ v) = [k; v]) by (apply split_colon_spec_l; auto).
  simpl in E. rewrite E. apply IH; auto.
Qed.

Lemma cli_dict_malformed cli : forall acc p,
  In p cli -> (forall k v, split_colon p <> [k; v]) -> cli_dict cli acc = Err EValue.
Proof.
  induction cli as [|s r IH]; simpl; intros acc p Hin Hbad; [contradiction|].
  destruct (split_colon s) as [|k [|v [|? ?]]] eqn:E; auto.
  destruct Hin as [->|Hin]; [exfalso; eapply Hbad; eauto|]. eapply IH; eauto.
Qed.

Lemma build_algo_def_prepares_cli_l I F defs cli :
  defaults_valid I F defs ->
  build_algo_def I F (Some defs) defs cli =
  match cli_dict (match cli with Some l => l | None => [] end) [] with
  | Err e => Err e
  | Ok params =>
      match prepare_algo_params I F params defs with
      | Err _ => Err EExit
      | Ok r => Ok r
      end
  end.
Proof.
  intros Hd. unfold build_algo_def.
  destruct (cli_dict _ []) as [params|e] eqn:E; auto.
  destruct (prepare_algo_params I F params defs) as [r|e] eqn:P; auto.
  rewrite (prepare_idempotent_l I F params defs r); auto.
  eapply cli_dict_nodup; eauto. constructor.
Qed.

Lemma build_algo_def_no_params_l I F nd cli :
  build_algo_def I F None nd cli =
  match cli with Some (_ :: _) => Err EExit | _ => Ok [] end.
Proof. reflexivity. Qed.

Lemma effective_definition_l defs :
  (forall k d, find_def defs k = Some d -> In d defs /\ p_name d = k) /\
  (forall k, In k (map p_name defs) <-> exists d, find_def defs k = Some d) /\
  (NoDup (map p_name defs) -> forall d, In d defs -> find_def defs (p_name d) = Some d).
Proof.
  split; [apply find_def_in|]. split; [apply find_def_declared|].
  intros Hn d Hin. now apply find_def_nodup.
Qed.

Lemma cli_strings_split_l pairs :
  Forall (fun kv => no_colon (fst kv) = true /\ no_colon (snd kv) = true) pairs ->
  cli_dict (map (fun kv => fst kv ++ ":" ++ snd kv) pairs) [] =
  Ok (fold_left (fun d kv => dict_set String.eqb (fst kv) (VStr (snd kv)) d) pairs []).
Proof. apply cli_dict_wellformed. Qed.

Lemma cli_malformed_rejected_l cli p :
  In p cli -> (forall k v, split_colon p <> [k; v]) -> cli_dict cli [] = Err EValue.
Proof. apply cli_dict_malformed. Qed.

(* pointwise characterisation of a successful preparation *)
Definition expected_value (I : string -> res Z) (F : string -> res fl)
           (params : list (string * pyval)) (defs : list pdef) (k : string) : option pyval :=
  match find_def defs k with
  | None => None                                   (* not declared: absent from the result *)
  | Some d =>
      match slookup k params with
      | None => Some (p_default d)
      | Some v => match check_param_value I F v d with Ok v' => Some v' | Err _ => None end
      end
  end.

Lemma prepare_exact_l I F params defs r :
  NoDup (map fst params) -> prepare_algo_params I F params defs = Ok r ->
  forall k, slookup k r = expected_value I F params defs k.
Proof.
  intros Hn H k. unfold expected_value.
  destruct (prepare_exact_keys_l I F _ _ _ H) as [Hk Hnr].
  destruct (find_def defs k) as [d|] eqn:Ed.
  - destruct (slookup k params) as [v|] eqn:Ep.
    + apply slookup_Some_in in Ep.
      destruct (prepare_user_values_l I F _ _ _ _ _ Hn H Ep) as [d' [v' [H1 [H2 H3]]]].
      rewrite Ed in H1. inversion H1; subst d'. now rewrite H2.
    + apply slookup_None_notin in Ep. eapply prepare_defaults_l; eauto.
  - apply slookup_None_notin. rewrite Hk. intros Hin.
    apply find_def_declared in Hin as [d Hd]. congruence.
Qed.
