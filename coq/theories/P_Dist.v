(* P_Dist.v -- proofs about M_Dist (C23). *)
From PyDcop Require Import Base M_Dist.
From Coq Require Import Permutation ZifyBool.

(* ---------------------------------------------------------------- generic list facts *)
Lemma insert_sorted_perm {A} (leb : A -> A -> bool) x l :
  Permutation (insert_sorted leb x l) (x :: l).
Proof.
  induction l as [|y r IH]; simpl; auto.
  destruct (leb x y); auto. rewrite IH. apply perm_swap.
Qed.

Lemma isort_perm {A} (leb : A -> A -> bool) l : Permutation (isort leb l) l.
Proof.
  induction l as [|x r IH]; simpl; auto.
  unfold isort in *. simpl. rewrite insert_sorted_perm. auto.
Qed.

Lemma attach_rnd_fst {A} (l : list A) rnd : map fst (fst (attach_rnd l rnd)) = l.
Proof.
  revert rnd; induction l as [|x r IH]; intros rnd; simpl; auto.
  specialize (IH (tl rnd)). destruct (attach_rnd r (tl rnd)) as [r' rnd']. simpl in *. now rewrite IH.
Qed.

Lemma combine_fst {A B} (l : list A) (l' : list B) :
  (List.length l <= List.length l')%nat -> map fst (combine l l') = l.
Proof.
  revert l'; induction l as [|x r IH]; intros [|y r'] H; simpl in *; auto; try lia.
  f_equal. apply IH. lia.
Qed.

Lemma In_combine_r {A B} (l : list A) (l' : list B) x y : In (x, y) (combine l l') -> In y l'.
Proof. apply in_combine_r. Qed.

Lemma NoDup_map_inj {A} (f : A -> Z) l x y :
  NoDup (map f l) -> In x l -> In y l -> f x = f y -> x = y.
Proof.
  induction l as [|z r IH]; simpl; intros Hnd Hx Hy E; [contradiction|].
  inversion Hnd as [|? ? Hnin Hnd']; subst.
  destruct Hx as [->|Hx], Hy as [->|Hy]; auto.
  - exfalso. apply Hnin. rewrite E. now apply in_map.
  - exfalso. apply Hnin. rewrite <- E. now apply in_map.
Qed.

Lemma zsum_app a b : zsum (a ++ b) = zsum a + zsum b.
Proof. induction a; simpl; lia. Qed.

Lemma zsum_perm a b : Permutation a b -> zsum a = zsum b.
Proof. induction 1; simpl; lia. Qed.

Lemma filter_split_perm {A} (p : A -> bool) l :
  Permutation (filter (fun x => negb (p x)) l ++ filter p l) l.
Proof.
  induction l as [|x r IH]; simpl; auto.
  destruct (p x); simpl.
  - rewrite <- Permutation_middle. now constructor.
  - now constructor.
Qed.

Lemma mem_key_In {V} k (l : list (Z * V)) : mem_key Z.eqb k l = true <-> In k (map fst l).
Proof.
  unfold mem_key. induction l as [|[k' v] r IH]; simpl.
  - split; [discriminate | tauto].
  - destruct (k =? k') eqn:E.
    + split; auto. intros _. left. symmetry. now apply Z.eqb_eq.
    + rewrite IH. split; auto. intros [H|H]; auto. subst. rewrite Z.eqb_refl in E. discriminate.
Qed.

Lemma fp_of_node I nd : NoDup (map n_id (i_nodes I)) -> In nd (i_nodes I) ->
  fp_of I (n_id nd) = n_fp nd.
Proof.
  unfold fp_of. intros Hnd Hin.
  destruct (find _ _) as [nd'|] eqn:F.
  - apply find_some in F as [Hin' E]. apply Z.eqb_eq in E.
    now rewrite (NoDup_map_inj n_id _ _ _ Hnd Hin' Hin E).
  - exfalso. apply (find_none _ _ F) in Hin. rewrite Z.eqb_refl in Hin. discriminate.
Qed.

(* ---------------------------------------------------------------- oneagent *)
Lemma oneagent_valid I :
  match oneagent I with
  | Ok m => hosts_once I m /\ agents_declared I m /\
            (NoDup (map g_id (i_agents I)) -> NoDup (map snd m))
  | Impossible => (List.length (i_agents I) < List.length (i_nodes I))%nat
  | _ => False
  end.
Proof.
  unfold oneagent. destruct (Nat.ltb _ _) eqn:E.
  - now apply Nat.ltb_lt in E.
  - apply Nat.ltb_ge in E. repeat split.
    + unfold hosts_once. rewrite combine_fst; auto. rewrite !map_length. lia.
    + intros c a H. now apply in_combine_r in H.
    + intros Hnd. clear E. generalize (map n_id (i_nodes I)) as l.
      induction (map g_id (i_agents I)) as [|y r IH]; intros [|x l]; simpl; try constructor.
      * inversion Hnd; subst. intro H. apply in_map_iff in H as [[a b] [Hb Hin]]. simpl in Hb; subst.
        apply in_combine_r in Hin. contradiction.
      * inversion Hnd; auto.
Qed.

(* ---------------------------------------------------------------- greedy search *)
Section GreedyProofs.
  Variable cle : Z * Z -> Z * Z -> bool.
  Variable I : inst.
  Variable fixed : list (Z * (Z * Z)).
  Hypothesis Hnd : NoDup (map g_id (i_agents I)).
  Hypothesis Hfix : forall ag, In ag (i_agents I) -> fixed_load fixed (g_id ag) <= g_cap ag.

  Definition feasible (L : level) (d : list (level * list Z * Z)) (a : Z) : Prop :=
    exists ag, In ag (i_agents I) /\ g_id ag = a /\
               l_fp L <= g_cap ag - used d a - fixed_load fixed a.

  Fixpoint good_done (d : list (level * list Z * Z)) : Prop :=
    match d with
    | [] => True
    | (L, cl, a) :: d' => good_done d' /\ feasible L d' a /\ Forall (feasible L d') cl
    end.

  Definition stale (e : level * option (list Z)) : Prop := snd e = None \/ snd e = Some [].

  Definition good_todo (d : list (level * list Z * Z)) (t : list (level * option (list Z))) : Prop :=
    match t with
    | [] => True
    | (L, c) :: rest =>
        match c with Some l => Forall (feasible L d) l | None => True end /\ Forall stale rest
    end.

  Lemma cap_ok d : good_done d ->
    forall ag, In ag (i_agents I) -> used d (g_id ag) + fixed_load fixed (g_id ag) <= g_cap ag.
  Proof.
    induction d as [|[[L cl] a] d IH]; simpl; intros G ag Hin.
    - unfold used; simpl. specialize (Hfix ag Hin). lia.
    - destruct G as [G [[ag0 [Hin0 [E F]]] _]].
      unfold used in *; simpl. fold (used d (g_id ag)).
      destruct (a =? g_id ag) eqn:Ea.
      + apply Z.eqb_eq in Ea. subst a.
        assert (ag0 = ag) by (eapply NoDup_map_inj; eauto). subst ag0.
        unfold used in *. lia.
      + specialize (IH G ag Hin). unfold used in *. lia.
  Qed.

  Lemma candidate_hosts_feasible L d rnd :
    Forall (feasible L d) (fst (candidate_hosts cle I fixed L d rnd)).
  Proof.
    unfold candidate_hosts.
    set (ok := filter _ (i_agents I)).
    set (costs := map _ ok).
    pose proof (attach_rnd_fst costs rnd) as Hf.
    destruct (attach_rnd costs rnd) as [withr rnd'] eqn:Ea. simpl in *.
    apply Forall_forall. intros a Ha.
    apply in_map_iff in Ha as [e [<- He]].
    eapply Permutation_in in He; [|apply isort_perm].
    apply in_rev in He. apply in_map_iff in He as [w [<- Hw]]. simpl.
    assert (In (fst w) costs) as Hc by (rewrite <- Hf; now apply in_map).
    unfold costs in Hc. apply in_map_iff in Hc as [agt [Eagt Hagt]].
    unfold ok in Hagt. apply filter_In in Hagt as [Hin Hcap].
    exists agt. rewrite <- Eagt. simpl. repeat split; auto.
    apply negb_true_iff in Hcap. lia.
  Qed.

  Lemma candidate_hosts_length L d rnd :
    (List.length (fst (candidate_hosts cle I fixed L d rnd)) <= List.length (i_agents I))%nat.
  Proof.
    unfold candidate_hosts.
    set (ok := filter _ (i_agents I)).
    set (costs := map _ ok).
    pose proof (attach_rnd_fst costs rnd) as Hf.
    destruct (attach_rnd costs rnd) as [withr rnd'] eqn:Ea. simpl in *.
    rewrite map_length. rewrite (Permutation_length (isort_perm _ _)).
    rewrite rev_length, map_length.
    assert (List.length withr = List.length costs) as -> by (rewrite <- Hf; now rewrite map_length).
    unfold costs. rewrite map_length. unfold ok. clear.
    induction (i_agents I) as [|x r IH]; simpl; auto. destruct (negb _); simpl; lia.
  Qed.

  (* ---- termination measure *)
  Definition rem_todo (t : list (level * option (list Z))) : nat :=
    fold_right (fun e acc => (match snd e with None => List.length (i_agents I) | Some l => List.length l end + acc)%nat) 0%nat t.
  Definition rem_done (d : list (level * list Z * Z)) : nat :=
    fold_right (fun e acc => (List.length (snd (fst e)) + acc)%nat) 0%nat d.
  Definition phi d t : nat := (2 * (rem_done d + rem_todo t) + List.length d)%nat.

  Definition levels_of (d : list (level * list Z * Z)) (t : list (level * option (list Z))) : list level :=
    rev (map (fun e => fst (fst e)) d) ++ map fst t.

  (* what the final result looks like *)
  Definition final_ok (lv0 : list level) (r : result) : Prop :=
    match r with
    | Ok m => exists d, good_done d /\ levels_of d [] = lv0 /\
                        m = rev (mapping_of d) ++ map (fun e => (fst e, fst (snd e))) fixed
    | Impossible => True
    | _ => False
    end.

  Lemma step_spec d t rnd :
    good_done d -> good_todo d t ->
    match step cle I fixed d t rnd with
    | Final r => final_ok (levels_of d t) r
    | Running d' t' _ => good_done d' /\ good_todo d' t' /\ levels_of d' t' = levels_of d t /\
                         (phi d' t' < phi d t)%nat
    end.
  Proof.
    intros Gd Gt. unfold step.
    destruct t as [|[L cands] rest].
    - simpl. exists d. repeat split; auto.
    - assert (exists cl rnd', (match cands with Some l => (l, rnd) | None => candidate_hosts cle I fixed L d rnd end) = (cl, rnd')
              /\ Forall (feasible L d) cl
              /\ (List.length cl <= match cands with None => List.length (i_agents I) | Some l => List.length l end)%nat)
        as [cl [rnd' [-> [Hfe Hlen]]]].
      { destruct cands as [l|].
        - exists l, rnd. destruct Gt as [Gt _]. auto.
        - pose proof (candidate_hosts_feasible L d rnd). pose proof (candidate_hosts_length L d rnd).
          destruct (candidate_hosts cle I fixed L d rnd) as [cl rnd']. exists cl, rnd'. auto. }
      destruct Gt as [_ Gst].
      destruct cl as [|a cl'].
      + destruct d as [|[[L' cl'] a'] d']; [exact Logic.I|].
        simpl in Gd. destruct Gd as [Gd' [_ Hcl']].
        repeat split; auto.
        * simpl. constructor; [right; reflexivity | exact Gst].
        * unfold levels_of. simpl. rewrite <- app_assoc. reflexivity.
        * unfold phi. simpl. destruct cands; simpl in *; lia.
      + inversion Hfe; subst.
        split; [|split; [|split]].
        * simpl. repeat split; auto.
        * destruct rest as [|[L2 c2] rest2]; simpl; auto.
          inversion Gst as [|? ? Hs Hr]; subst. split; auto.
          destruct Hs as [Hs|Hs]; simpl in Hs; subst; auto.
        * unfold levels_of. simpl. rewrite <- app_assoc. reflexivity.
        * unfold phi. simpl in *. destruct cands; simpl in *; lia.
  Qed.

  Lemma run_spec fuel : forall d t rnd,
    (phi d t < fuel)%nat -> good_done d -> good_todo d t ->
    final_ok (levels_of d t) (run cle I fixed fuel d t rnd).
  Proof.
    induction fuel as [|f IH]; intros d t rnd Hphi Gd Gt; [lia|].
    simpl. pose proof (step_spec d t rnd Gd Gt) as Hs.
    destruct (step cle I fixed d t rnd) as [d' t' rnd'|r]; auto.
    destruct Hs as [Gd' [Gt' [El Hlt]]]. rewrite <- El. apply IH; auto. lia.
  Qed.

  Lemma used_hosted d a :
    (forall e, In e d -> In (l_node (fst (fst e))) (i_nodes I) /\ l_fp (fst (fst e)) = n_fp (l_node (fst (fst e)))) ->
    NoDup (map n_id (i_nodes I)) ->
    hosted_fp I (mapping_of d) a = used d a.
  Proof.
    intros H Hn. unfold hosted_fp, used, mapping_of. rewrite map_map.
    f_equal. apply map_ext_in. intros e He. simpl.
    destruct (H e He) as [Hin Hfp].
    rewrite fp_of_node; auto. rewrite Hfp. reflexivity.
  Qed.
End GreedyProofs.

(* ---------------------------------------------------------------- sorted_levels *)
Lemma sorted_levels_spec nds rnd :
  let todo := fst (sorted_levels nds rnd) in
  Permutation (map (fun e => l_node (fst e)) todo) nds /\
  Forall (fun e => snd e = None /\ l_fp (fst e) = n_fp (l_node (fst e))) todo.
Proof.
  unfold sorted_levels.
  pose proof (attach_rnd_fst nds rnd) as Hf.
  destruct (attach_rnd nds rnd) as [withr rnd'] eqn:Ea. simpl in *.
  set (keyed := map _ withr).
  assert (Permutation (map snd (isort comp_ge keyed)) nds) as Hp.
  { rewrite (Permutation_map snd (isort_perm comp_ge keyed)).
    assert (map snd keyed = nds) as ->; auto.
    unfold keyed. rewrite map_map. etransitivity; [|exact Hf]. apply map_ext. reflexivity. }
  assert (Forall (fun k => fst (fst k) = n_fp (snd k)) (isort comp_ge keyed)) as Hk.
  { apply Forall_forall. intros k Hk. eapply Permutation_in in Hk; [|apply isort_perm].
    unfold keyed in Hk. apply in_map_iff in Hk as [w [<- _]]. reflexivity. }
  split.
  - rewrite map_map. simpl. exact Hp.
  - apply Forall_forall. intros e He. apply in_map_iff in He as [k [<- Hin]]. simpl.
    split; auto. rewrite Forall_forall in Hk. now apply Hk.
Qed.

Lemma good_todo_initial I fixed (todo : list (level * option (list Z))) :
  Forall (fun e => snd e = None) todo -> good_todo I fixed [] todo.
Proof.
  intros H. destruct todo as [|[L c] rest]; simpl; auto.
  inversion H; subst. simpl in *. subst. split; auto.
  eapply Forall_impl; [|eassumption]. intros e He. now left.
Qed.

Lemma rem_todo_none I (todo : list (level * option (list Z))) :
  Forall (fun e => snd e = None) todo ->
  rem_todo I todo = (List.length todo * List.length (i_agents I))%nat.
Proof.
  induction 1 as [|e r He _ IH]; simpl; auto. rewrite He, IH. lia.
Qed.

(* the generic statement for both greedy methods: [free] are the computations left to place *)
Lemma greedy_valid cle I fixed free rnd :
  wf I ->
  (forall ag, In ag (i_agents I) -> fixed_load fixed (g_id ag) <= g_cap ag) ->
  (forall nd, In nd free -> In nd (i_nodes I)) ->
  (List.length free <= List.length (i_nodes I))%nat ->
  let '(todo, rnd') := sorted_levels free rnd in
  match run cle I fixed (greedy_fuel I) [] todo rnd' with
  | Ok m => exists m1, m = m1 ++ map (fun e => (fst e, fst (snd e))) fixed /\
                       Permutation (map fst m1) (map n_id free) /\
                       (forall c a, In (c, a) m1 -> In a (map g_id (i_agents I))) /\
                       (forall ag, In ag (i_agents I) ->
                          hosted_fp I m1 (g_id ag) + fixed_load fixed (g_id ag) <= g_cap ag)
  | Impossible => True
  | _ => False
  end.
Proof.
  intros [Hn Ha] Hfix Hfree Hlen.
  pose proof (sorted_levels_spec free rnd) as [Hp Hall].
  destruct (sorted_levels free rnd) as [todo rnd'] eqn:Es. simpl in Hp, Hall.
  assert (Forall (fun e : level * option (list Z) => snd e = None) todo) as Hnone.
  { eapply Forall_impl; [|exact Hall]. now intros e [? _]. }
  pose proof (run_spec cle I fixed (greedy_fuel I) [] todo rnd') as Hr.
  assert (List.length todo = List.length free) as Hlt.
  { rewrite <- (map_length (fun e => l_node (fst e)) todo). now apply Permutation_length. }
  specialize (Hr ltac:(unfold phi, greedy_fuel; simpl; rewrite rem_todo_none by auto; nia)
                 Logic.I (good_todo_initial I fixed todo Hnone)).
  destruct (run cle I fixed (greedy_fuel I) [] todo rnd') as [m| | |]; unfold final_ok in Hr; auto.
  destruct Hr as [d [Gd [El ->]]].
  unfold levels_of in El. simpl in El. rewrite app_nil_r in El.
  exists (rev (mapping_of d)). split; auto.
  assert (forall e, In e d -> In (fst (fst e)) (map fst todo)) as Hlev.
  { intros e He. rewrite <- El. apply in_rev. rewrite rev_involutive.
    exact (in_map (fun e : level * list Z * Z => fst (fst e)) d e He). }
  assert (forall e, In e d -> In (l_node (fst (fst e))) (i_nodes I) /\
                              l_fp (fst (fst e)) = n_fp (l_node (fst (fst e)))) as Hd.
  { intros e He. apply Hlev in He. apply in_map_iff in He as [t [Et Hin]].
    rewrite Forall_forall in Hall. destruct (Hall t Hin) as [_ Hfp]. rewrite <- Et. split; auto.
    apply Hfree. eapply Permutation_in; [exact Hp|]. now apply (in_map (fun e => l_node (fst e))). }
  repeat split.
  - rewrite map_rev. unfold mapping_of. rewrite map_map. simpl.
    rewrite <- (map_map (fun e : level * list Z * Z => fst (fst e)) (fun L => n_id (l_node L))).
    rewrite <- map_rev. rewrite El. rewrite map_map.
    rewrite <- (map_map (fun e : level * option (list Z) => l_node (fst e)) n_id).
    now apply Permutation_map.
  - intros c a Hin. apply in_rev in Hin. unfold mapping_of in Hin.
    apply in_map_iff in Hin as [[[L cl] a'] [E Hin]]. inversion E; subst.
    clear - Gd Hin. induction d as [|[[L2 cl2] a2] d IH]; simpl in *; [contradiction|].
    destruct Gd as [Gd [[ag [Hag [Eag _]]] _]]. destruct Hin as [Hin|Hin].
    + inversion Hin; subst. now apply in_map.
    + auto.
  - intros ag Hag.
    assert (hosted_fp I (rev (mapping_of d)) (g_id ag) = hosted_fp I (mapping_of d) (g_id ag)) as ->.
    { unfold hosted_fp. apply zsum_perm. apply Permutation_map. symmetry. apply Permutation_rev. }
    rewrite (used_hosted I d (g_id ag) Hd Hn).
    eapply cap_ok; eauto.
Qed.

(* ---------------------------------------------------------------- heur_comhost *)
Lemma hosted_fp_app I m1 m2 a : hosted_fp I (m1 ++ m2) a = hosted_fp I m1 a + hosted_fp I m2 a.
Proof. unfold hosted_fp. rewrite map_app. apply zsum_app. Qed.

Definition caps_nonneg (I : inst) : Prop := forall ag, In ag (i_agents I) -> 0 <= g_cap ag.

Lemma heur_comhost_valid cle I rnd : wf I -> caps_nonneg I ->
  match heur_comhost cle I rnd with
  | Ok m => hosts_once I m /\ agents_declared I m /\ within_capacity I m
  | Impossible => True
  | _ => False
  end.
Proof.
  intros Hwf Hcap. unfold heur_comhost.
  pose proof (greedy_valid cle I [] (i_nodes I) rnd Hwf) as H.
  specialize (H ltac:(intros ag Hag; unfold fixed_load; simpl; now apply Hcap) ltac:(auto) ltac:(lia)).
  destruct (sorted_levels (i_nodes I) rnd) as [todo rnd'].
  destruct (run cle I [] (greedy_fuel I) [] todo rnd') as [m| | |]; auto.
  destruct H as [m1 [-> [Hp [Hd Hc]]]]. simpl. rewrite app_nil_r.
  repeat split; auto.
  intros ag Hag. specialize (Hc ag Hag). unfold fixed_load in Hc. simpl in Hc. lia.
Qed.

(* ---------------------------------------------------------------- gh_cgdp *)
Definition pinned (I : inst) (nd : node) : bool :=
  match find (fun a => hosting_cost a (n_id nd) =? 0) (i_agents I) with Some _ => true | None => false end.

Lemma fixed_mapping_keys I : map fst (fixed_mapping I) = map n_id (filter (pinned I) (i_nodes I)).
Proof.
  unfold fixed_mapping. induction (i_nodes I) as [|nd r IH]; simpl; auto.
  unfold pinned at 1. destruct (find _ (i_agents I)); simpl; now rewrite IH.
Qed.

Lemma fixed_mapping_In I c a f : In (c, (a, f)) (fixed_mapping I) ->
  exists nd ag, In nd (i_nodes I) /\ In ag (i_agents I) /\ c = n_id nd /\ a = g_id ag /\ f = n_fp nd.
Proof.
  unfold fixed_mapping. intros H. apply in_flat_map in H as [nd [Hnd H]].
  destruct (find _ (i_agents I)) as [ag|] eqn:F; simpl in H; [|contradiction].
  destruct H as [H|[]]. inversion H; subst. apply find_some in F as [Hag _].
  exists nd, ag. auto.
Qed.

Lemma mem_key_fixed I nd : In nd (i_nodes I) ->
  mem_key Z.eqb (n_id nd) (fixed_mapping I) = pinned I nd.
Proof.
  intros Hin. destruct (pinned I nd) eqn:P.
  - apply mem_key_In. rewrite fixed_mapping_keys. apply in_map. apply filter_In. auto.
  - destruct (mem_key Z.eqb (n_id nd) (fixed_mapping I)) eqn:M; auto.
    apply mem_key_In in M. rewrite fixed_mapping_keys in M.
    apply in_map_iff in M as [nd' [E Hf]]. apply filter_In in Hf as [_ P'].
    unfold pinned in *. rewrite E in P'. rewrite P' in P. discriminate.
Qed.

Lemma gh_cgdp_valid cle I rnd : wf I ->
  match gh_cgdp cle I rnd with
  | Ok m => hosts_once I m /\ agents_declared I m /\ within_capacity I m
  | Impossible => True
  | _ => False
  end.
Proof.
  intros Hwf. unfold gh_cgdp.
  destruct (existsb _ (i_agents I)) eqn:Ex; auto.
  set (fixed := fixed_mapping I).
  set (free := filter (fun nd => negb (mem_key Z.eqb (n_id nd) fixed)) (i_nodes I)).
  pose proof (greedy_valid cle I fixed free rnd Hwf) as H.
  assert (forall ag, In ag (i_agents I) -> fixed_load fixed (g_id ag) <= g_cap ag) as Hfix.
  { intros ag Hag. destruct (g_cap ag <? fixed_load fixed (g_id ag)) eqn:E; [|lia].
    exfalso. assert (existsb (fun a => g_cap a <? fixed_load fixed (g_id a)) (i_agents I) = true) as Ht
      by (apply existsb_exists; eauto).
    unfold fixed in Ht. rewrite Ht in Ex. discriminate. }
  specialize (H Hfix ltac:(intros nd Hnd; apply filter_In in Hnd; tauto)
                ltac:(unfold free; clear; induction (i_nodes I); simpl; auto; destruct (negb _); simpl; lia)).
  destruct (sorted_levels free rnd) as [todo rnd'].
  destruct (run cle I fixed (greedy_fuel I) [] todo rnd') as [m| | |]; auto.
  destruct H as [m1 [-> [Hp [Hd Hc]]]].
  destruct Hwf as [Hn Ha].
  repeat split.
  - unfold hosts_once. rewrite map_app, map_map. simpl.
    fold (map (@fst Z (Z * Z)) fixed). unfold fixed at 1. rewrite fixed_mapping_keys.
    rewrite Hp. rewrite <- map_app. apply Permutation_map.
    assert (free = filter (fun nd => negb (pinned I nd)) (i_nodes I)) as ->.
    { unfold free. apply filter_ext_in. intros nd Hnd. unfold fixed. now rewrite mem_key_fixed. }
    apply filter_split_perm.
  - intros c a Hin. apply in_app_or in Hin as [Hin|Hin]; eauto.
    apply in_map_iff in Hin as [[c' [a' f]] [E Hin]]. simpl in E. inversion E; subst.
    apply fixed_mapping_In in Hin as [nd [ag [_ [Hag [_ [-> _]]]]]]. now apply in_map.
  - intros ag Hag. rewrite hosted_fp_app.
    assert (hosted_fp I (map (fun e : Z * (Z * Z) => (fst e, fst (snd e))) fixed) (g_id ag)
            = fixed_load fixed (g_id ag)) as ->.
    { unfold hosted_fp, fixed_load. rewrite map_map. f_equal. apply map_ext_in.
      intros [c [a f]] Hin. simpl. apply fixed_mapping_In in Hin as [nd [ag' [Hnd [_ [-> [_ ->]]]]]].
      now rewrite fp_of_node. }
    now apply Hc.
Qed.

(* ---------------------------------------------------------------- must-host hints *)
(* oneagent, gh_cgdp and heur_comhost never read their [hints] argument: a well-formed
   must-host hint is not honoured (finding C23-must-host-ignored). *)
Definition witness_mh : inst :=
  mkInst [mkNode 0 0 1 []; mkNode 1 0 1 []]
         [mkAg 0 5 1 [] 1 []; mkAg 1 5 1 [] 1 []] [] 0 [(0, [1])] [].

Definition cle_any (p q : Z * Z) : bool := true.

Lemma must_host_ignored_refuted_l :
  wf witness_mh /\
  (exists m, oneagent witness_mh = Ok m /\ ~ must_host_honoured witness_mh m) /\
  (exists cle rnd m, gh_cgdp cle witness_mh rnd = Ok m /\ ~ must_host_honoured witness_mh m) /\
  (exists cle rnd m, heur_comhost cle witness_mh rnd = Ok m /\ ~ must_host_honoured witness_mh m).
Proof.
  assert (forall m, ~ In (1, 0) m -> ~ must_host_honoured witness_mh m) as Hno.
  { intros m Hn H. apply Hn. apply (H 0 [1] 1); simpl; auto. }
  split; [|split; [|split]].
  - split; simpl; repeat constructor; simpl; intuition lia.
  - eexists. split; [reflexivity|]. apply Hno. simpl. intuition congruence.
  - exists cle_any, [], [(0, 1); (1, 1)]. split; [vm_compute; reflexivity|].
    apply Hno. simpl. intuition congruence.
  - exists cle_any, [], [(0, 1); (1, 1)]. split; [vm_compute; reflexivity|].
    apply Hno. simpl. intuition congruence.
Qed.

(* ---------------------------------------------------------------- adhoc: the SECP loop *)
(* one variable 0 (footprint 1), one factor 100 (footprint 4) with host_with = [0], one agent
   of capacity 1: the first loop hosts both on it (finding C23-adhoc-secp-hostwith). *)
Definition witness_secp : inst :=
  mkInst [mkNode 0 0 1 [[100; 0]]; mkNode 100 1 4 [[100; 0]]]
         [mkAg 0 1 1 [] 1 []] [] 0 [] [(100, [0]); (0, [100])].

Lemma adhoc_secp_refuted_l :
  wf witness_secp /\
  exists m, adhoc witness_secp [[0; 100]] [0%nat] = Ok m /\ hosts_once witness_secp m /\
            ~ within_capacity witness_secp m.
Proof.
  split; [split; simpl; repeat constructor; simpl; intuition lia|].
  eexists. split; [vm_compute; reflexivity|]. split.
  - unfold hosts_once. simpl. apply perm_swap.
  - intros H. specialize (H (mkAg 0 1 1 [] 1 []) (or_introl eq_refl)). vm_compute in H. congruence.
Qed.
