(* P_Ucs9.v -- C25 deepening, part 7: liveness.  From every reachable point of every schedule there
   is a finite continuation after which every agent has reported replication_done
   (ucs_eventually_done_l); together with ucs_terminates_l (no schedule handles more than Omega
   messages) this is "every agent eventually reports done" for all fair schedules. *)
From PyDcop Require Import Base P_Base Net M_Ucs P_Ucs P_Ucs2 P_Ucs3 P_Ucs4 P_Ucs7 P_Ucs8.
From Coq Require Import Lia ZifyBool.

Section ExecApp.
  Context {St Msg Ev : Type} (P : proto St Msg Ev).
  Lemma exec_app a : forall cf b,
    exec P cf (a ++ b) =
    (fst (exec P (fst (exec P cf a)) b), snd (exec P cf a) ++ snd (exec P (fst (exec P cf a)) b)).
  Proof.
    induction a as [|x a IH]; intros cf b; simpl.
    - destruct (exec P cf b); reflexivity.
    - destruct (step P cf x) as [cf1 e1]. rewrite IH.
      destruct (exec P cf1 a) as [cf2 e2]. simpl. destruct (exec P cf2 b) as [cf3 e3]. simpl.
      rewrite app_assoc. reflexivity.
  Qed.
  Lemma run_snoc sched a :
    run P (sched ++ [a]) =
    (fst (step P (fst (run P sched)) a), snd (run P sched) ++ snd (step P (fst (run P sched)) a)).
  Proof.
    unfold run. rewrite exec_app. simpl. destruct (step P (fst (exec P (init P) sched)) a) as [cf1 e1]. simpl.
    rewrite app_nil_r. reflexivity.
  Qed.
End ExecApp.

Section Liveness.
  Variable C : cfg.
  Hypothesis G : guards C.
  Hypothesis UN : uniq C.
  Notation P := (ucs_proto C).
  Notation U := (P_Ucs.U C).
  Notation config := (Net.config nstate msg).

  Definition unst (cf : config) : nat := lsum (fun u => b2n (negb (w_running (nodes cf u)))) U.

  Lemma lsum_flip (g0 g1 : Z -> nat) n : P_Ucs.inU C n = true ->
    (forall u, u <> n -> g1 u = g0 u) -> g0 n = 1%nat -> g1 n = 0%nat -> (lsum g1 U + 1 = lsum g0 U)%nat.
  Proof.
    intros Un E0 E1 E2.
    rewrite (lsum_ext g0 (fun u => (g1 u + b2n (Z.eqb u n) * 1)%nat)).
    - rewrite lsum_lin, (lsum_delta n U (U_NoDup C)). unfold P_Ucs.inU in Un. rewrite Un. simpl. lia.
    - intros u _. destruct (Z.eqb_spec u n) as [->|Hne]; simpl; [lia|rewrite (E0 u Hne); lia].
  Qed.

  Lemma unst_start cf n : P_Ucs.inU C n = true -> w_running (nodes cf n) = false ->
    (unst (fst (step P cf (Start n))) + 1 = unst cf)%nat.
  Proof.
    intros Un Er. simpl. rewrite Er.
    destruct (ucs_start C n (w_st (nodes cf n))) as [[st' outs] evs]. simpl. unfold unst. simpl.
    apply (lsum_flip _ _ n Un).
    - intros u Hne. unfold upd_node. destruct (Z.eqb_spec u n); [contradiction|reflexivity].
    - rewrite Er. reflexivity.
    - unfold upd_node. rewrite Z.eqb_refl. reflexivity.
  Qed.

  Lemma unst_deliver cf s d : unst (fst (step P cf (Deliver s d))) = unst cf.
  Proof.
    simpl. destruct (chan cf s d) as [|m q]; [reflexivity|].
    destruct (w_running (nodes cf d)) eqn:Er.
    - destruct (ucs_recv C d (w_st (nodes cf d)) s m) as [[st' outs] evs]. simpl. unfold unst. simpl.
      apply lsum_ext. intros u _. unfold upd_node. destruct (Z.eqb_spec u d) as [->|]; simpl; [rewrite Er|]; reflexivity.
    - simpl. unfold unst. simpl.
      apply lsum_ext. intros u _. unfold upd_node. destruct (Z.eqb_spec u d) as [->|]; simpl; [rewrite Er|]; reflexivity.
  Qed.

  Definition meas (cf : config) : nat := (Psi C cf + unst cf)%nat.

  Lemma start_meas sched n : P_Ucs.inU C n = true -> w_running (nodes (fst (run P sched)) n) = false ->
    (meas (fst (run P (sched ++ [Start n]))) + 1 <= meas (fst (run P sched)))%nat.
  Proof.
    intros Un Er. rewrite run_snoc. cbn [fst]. unfold meas.
    pose proof (run_reachable C sched) as R.
    pose proof (step_Psi C _ (Start n) (reachable_src C _ R) (reachable_inv3 C _ R)) as S1.
    pose proof (unst_start _ n Un Er). simpl handled in S1. simpl b2n in S1. lia.
  Qed.

  Lemma done_snoc sched a n : done_in (snd (run P sched)) n -> done_in (snd (run P (sched ++ [a]))) n.
  Proof. intros [rh H]. exists rh. rewrite run_snoc. simpl. apply in_or_app. auto. Qed.

  Lemma done_app sched ext n : done_in (snd (run P sched)) n -> done_in (snd (run P (sched ++ ext))) n.
  Proof.
    revert sched. induction ext as [|a r IH]; intros sched H; [rewrite app_nil_r; exact H|].
    replace (sched ++ a :: r) with ((sched ++ [a]) ++ r) by (rewrite <- app_assoc; reflexivity).
    apply IH. apply done_snoc. exact H.
  Qed.

  Lemma reach_done_one n : is_agent C n = true -> forall k sched,
    (meas (fst (run P sched)) <= k)%nat -> exists ext, done_in (snd (run P (sched ++ ext))) n.
  Proof.
    intros An. induction k as [|k IH]; intros sched M.
    - (* measure 0: nothing can be pending *)
      assert (STEP : forall a, (meas (fst (run P (sched ++ [a]))) + 1 <= meas (fst (run P sched)))%nat -> False) by (intros; lia).
      destruct (ucs_pending_l C G UN sched n An) as [D|[OF|(d & m & (Ad & [(s & I)|(s & I)]))]].
      + exists []. rewrite app_nil_r. exact D.
      + exfalso. apply (STEP (Start ORCH)). apply start_meas; auto.
      + exfalso. destruct (w_running (nodes (fst (run P sched)) d)) eqn:Er.
        * apply (STEP (Deliver s d)). rewrite run_snoc. cbn [fst]. unfold meas. rewrite unst_deliver.
          pose proof (run_reachable C sched) as R.
          pose proof (step_Psi C _ (Deliver s d) (reachable_src C _ R) (reachable_inv3 C _ R)) as S1.
          assert (HD : handled C (fst (run P sched)) (Deliver s d) = true).
          { unfold handled. destruct (chan (fst (run P sched)) s d); [destruct I|]. rewrite Er, Ad. reflexivity. }
          rewrite HD in S1. simpl b2n in S1. lia.
        * apply (STEP (Start d)). apply start_meas; auto. apply agent_inU; auto.
      + exfalso. destruct (w_running (nodes (fst (run P sched)) d)) eqn:Er.
        * rewrite (running_held P _ (run_reachable C sched) d Er) in I. destruct I.
        * apply (STEP (Start d)). apply start_meas; auto. apply agent_inU; auto.
    - assert (NEXT : forall a, (meas (fst (run P (sched ++ [a]))) + 1 <= meas (fst (run P sched)))%nat ->
                exists ext, done_in (snd (run P (sched ++ ext))) n).
      { intros a H. destruct (IH (sched ++ [a])) as [ext E]; [lia|]. exists (a :: ext).
        replace (sched ++ a :: ext) with ((sched ++ [a]) ++ ext) by (rewrite <- app_assoc; reflexivity). exact E. }
      destruct (ucs_pending_l C G UN sched n An) as [D|[OF|(d & m & (Ad & [(s & I)|(s & I)]))]].
      + exists []. rewrite app_nil_r. exact D.
      + apply (NEXT (Start ORCH)). apply start_meas; auto.
      + destruct (w_running (nodes (fst (run P sched)) d)) eqn:Er.
        * apply (NEXT (Deliver s d)). rewrite run_snoc. cbn [fst]. unfold meas. rewrite unst_deliver.
          pose proof (run_reachable C sched) as R.
          pose proof (step_Psi C _ (Deliver s d) (reachable_src C _ R) (reachable_inv3 C _ R)) as S1.
          assert (HD : handled C (fst (run P sched)) (Deliver s d) = true).
          { unfold handled. destruct (chan (fst (run P sched)) s d); [destruct I|]. rewrite Er, Ad. reflexivity. }
          rewrite HD in S1. simpl b2n in S1. lia.
        * apply (NEXT (Start d)). apply start_meas; auto. apply agent_inU; auto.
      + destruct (w_running (nodes (fst (run P sched)) d)) eqn:Er.
        * rewrite (running_held P _ (run_reachable C sched) d Er) in I. destruct I.
        * apply (NEXT (Start d)). apply start_meas; auto. apply agent_inU; auto.
  Qed.

  Lemma reach_done_list l : (forall n, In n l -> is_agent C n = true) -> forall sched,
    exists ext, forall n, In n l -> done_in (snd (run P (sched ++ ext))) n.
  Proof.
    induction l as [|x r IH]; intros A sched; [exists []; intros n []|].
    destruct (IH (fun n H => A n (or_intror H)) sched) as [ext1 E1].
    destruct (reach_done_one x (A x (or_introl eq_refl)) _ (sched ++ ext1) (le_n _)) as [ext2 E2].
    exists (ext1 ++ ext2). rewrite app_assoc. intros n [<-|Hn]; [exact E2|]. apply done_app. auto.
  Qed.

  (* liveness: every run can be continued to a point where every agent has reported done *)
  Lemma ucs_eventually_done_l sched :
    exists ext, forall n, is_agent C n = true -> exists rh, In (EvDone n rh) (snd (run P (sched ++ ext))).
  Proof.
    destruct (reach_done_list (agent_ids C)) with (sched := sched) as [ext E].
    - intros n Hn. apply zrange_from_In in Hn. unfold is_agent, nagents. lia.
    - exists ext. intros n An. apply E. apply agent_in_ids. exact An.
  Qed.
End Liveness.
