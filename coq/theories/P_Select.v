(* P_Select.v -- proofs about M_Select.v (funnel, dsatuto, adsa, gdba) and the C10 lemmas for the
   SyncBB and DPOP models of M_SyncBB.v / M_Dpop.v.  Every theorem holds for every schedule. *)
From Coq Require Import Lia.
From PyDcop Require Import Base Net P_SelectNet P_SelectSync M_SyncMixin M_Select.

(* "unset or a member of the domain" *)
Definition ok (dom : list Z) (v : option Z) : Prop :=
  match v with None => True | Some x => In x dom end.

Definition sev_ok (dom : node -> list Z) (e : sev) : Prop :=
  match e with SSel n v => ok (dom n) v | _ => True end.

(* ------------------------------------------------------------------ helpers *)
Lemma pick_In l i v : pick l i = Some v -> In v l.
Proof. unfold pick. destruct l; [discriminate|]. apply nth_error_In. Qed.

Lemma masked_incl dom : forall m v, In v (masked dom m) -> In v dom.
Proof.
  induction dom as [|d r IH]; intros [|b mr] v H; simpl in *; try contradiction.
  destruct b; simpl in H.
  - destruct H as [->|H]; [left; auto|right; eauto].
  - right; eauto.
Qed.

Lemma remove_first_incl x l v : In v (remove_first x l) -> In v l.
Proof.
  induction l as [|y r IH]; simpl; auto.
  destruct (x =? y); simpl; intros H; auto. destruct H; auto.
Qed.

Lemma without_cur_incl cur l v : In v (without_cur cur l) -> In v l.
Proof.
  unfold without_cur. destruct cur; auto. destruct (1 <? Z.of_nat (List.length l)); auto.
  apply remove_first_incl.
Qed.

Lemma vsel_ok dom n cur v cur' e :
  ok (dom n) cur -> ok (dom n) v -> vsel n cur v = (cur', e) ->
  ok (dom n) cur' /\ Forall (sev_ok dom) e.
Proof.
  unfold vsel. intros Hc Hv. destruct (option_eqb Z.eqb v cur); intros H; inversion H; subst.
  - split; auto.
  - split; auto.
Qed.

Lemma firstn_In' {A} : forall k (l : list A) x, In x (firstn k l) -> In x l.
Proof. induction k; intros [|y l] x H; simpl in *; try contradiction. destruct H; auto. Qed.

(* ------------------------------------------------------------------ 1. the funnel *)
Lemma fun_call_ok dom s v :
  ok dom (f_value s) -> ok dom v -> ok dom (f_value (fst (fun_call s v))).
Proof. unfold fun_call. destruct (option_eqb Z.eqb v (f_prev s)); simpl; auto. Qed.

Lemma fun_exec_ok dom args : forall s, ok dom (f_value s) -> Forall (ok dom) args ->
  ok dom (f_value (fst (fun_exec s args))) /\ Forall (ok dom) (snd (fun_exec s args)).
Proof.
  induction args as [|v r IH]; intros s Hs Ha; simpl; auto.
  inversion Ha; subst.
  pose proof (fun_call_ok dom s v Hs H1) as Hc.
  destruct (fun_call s v) as [s1 f]. simpl in Hc.
  specialize (IH s1 Hc H2). destruct (fun_exec s1 r) as [s2 e]. simpl in *.
  destruct IH as [I1 I2]. split; auto. destruct f; auto.
Qed.

(* whatever sequence of value_selection calls an algorithm makes: if every argument is None or
   a domain member then so is every value reported to _on_value_selection and the value
   current_value returns after ANY prefix of the calls *)
Theorem funnel_in_domain_l : forall dom args, Forall (ok dom) args ->
  Forall (ok dom) (snd (fun_exec fun_init args)) /\
  forall k, ok dom (f_value (fst (fun_exec fun_init (firstn k args)))).
Proof.
  intros dom args Ha. split.
  - apply fun_exec_ok; simpl; auto.
  - intros k. apply fun_exec_ok; simpl; auto.
    rewrite Forall_forall in *. intros x Hx. apply Ha. eapply firstn_In'; eauto.
Qed.

(* random_value_selection only ever passes a domain member on *)
Theorem fun_random_in_domain_l : forall dom s i s' f,
  ok dom (f_value s) -> fun_random s dom i = Some (s', f) -> ok dom (f_value s').
Proof.
  intros dom s i s' f Hs. unfold fun_random. destruct dom as [|d r]; [discriminate|].
  destruct (nth_error (d :: r) _) as [v|] eqn:E; [|discriminate].
  intros H; inversion H. apply nth_error_In in E.
  pose proof (fun_call_ok (d :: r) s (Some v) Hs E) as Hc. rewrite H1 in Hc. exact Hc.
Qed.

(* ------------------------------------------------------------------ 2a. dsatuto *)
Section Tuto.
  Variable dom : node -> list Z.
  Variable nbrs : node -> list node.
  Variable orc : node -> list Z.
  Variable tevs : node -> list (bool * list bool).

  Definition tQ (n : node) (a : tst) : Prop := ok (dom n) (t_val a) /\ Forall (sev_ok dom) (t_log a).

  Lemma tuto_start_ok n a a' outs : tQ n a -> tuto_start dom nbrs n a = (a', outs) -> tQ n a'.
  Proof.
    intros [H1 H2]. unfold tuto_start. destruct (draw (t_orc a)) as [i o].
    destruct (pick (dom n) i) as [v|] eqn:Ep.
    - destruct (vsel n (t_val a) (Some v)) as [cur e] eqn:Ev.
      apply (vsel_ok dom) in Ev; auto; [|apply pick_In in Ep; exact Ep].
      intros H; inversion H; subst. split; simpl; [tauto|apply Forall_app; tauto].
    - intros H; inversion H; subst. split; simpl; auto. apply Forall_app. split; auto.
      constructor; simpl; auto.
  Qed.

  Lemma tuto_cycle_ok n a k msgs a' p r : tQ n a -> tuto_cycle dom nbrs n a k msgs = (a', p, r) -> tQ n a'.
  Proof.
    intros [H1 H2]. unfold tuto_cycle. destruct (t_evs a) as [|[imp mask] evs'].
    - intros H; inversion H; subst. split; simpl; auto. apply Forall_app. split; auto. constructor; simpl; auto.
    - destruct imp.
      + destruct (draw (t_orc a)) as [rr o]. destruct (rr <? 500).
        * destruct (masked (dom n) mask) as [|v l] eqn:Em.
          -- intros H; inversion H; subst. split; simpl; auto. apply Forall_app. split; auto. constructor; simpl; auto.
          -- destruct (vsel n (t_val a) (Some v)) as [cur e] eqn:Ev.
             apply (vsel_ok dom) in Ev; auto.
             ++ intros H; inversion H; subst. split; simpl; [tauto|apply Forall_app; tauto].
             ++ simpl. apply (masked_incl _ mask). rewrite Em. left; auto.
        * intros H; inversion H; subst. split; simpl; auto.
      + intros H; inversion H; subst. split; simpl; auto.
  Qed.

  Theorem dsatuto_selects_in_domain_l : forall sched n,
    let cf := fst (run (dsatuto_proto dom nbrs orc tevs) sched) in
    Forall (sev_ok dom) (t_log (ast (w_st (nodes cf n)))) /\ ok (dom n) (t_val (ast (w_st (nodes cf n)))).
  Proof.
    intros sched n. cbv zeta.
    pose proof (sync_algo_inv nbrs (tuto_algo dom nbrs orc tevs) tQ) as H.
    assert (Hq : tQ n (ast (w_st (nodes (fst (run (dsatuto_proto dom nbrs orc tevs) sched)) n)))).
    { apply H.
      - intros m. split; simpl; auto.
      - intros m a a' outs Hq Hs. simpl in Hs. exact (tuto_start_ok _ _ _ _ Hq Hs).
      - intros m a k msgs a' p r Hq Hs. simpl in Hs. exact (tuto_cycle_ok _ _ _ _ _ _ _ Hq Hs). }
    destruct Hq; split; auto.
  Qed.
End Tuto.

(* ------------------------------------------------------------------ 2b. adsa *)
Section Adsa.
  Variable dom : node -> list Z.
  Variable nbrs : node -> list node.
  Variable iso : node -> option Z.
  Variable orc : node -> list Z.
  Variable variant prob : Z.
  Variable aevs : node -> list (bool * bool * list bool).
  Hypothesis iso_ok : forall n, ok (dom n) (iso n).      (* C06: optimal_cost_value returns a domain value *)

  Let PA := adsa_proto dom nbrs iso orc variant prob aevs.
  Definition aJ (n : node) (s : ast_) : Prop := ok (dom n) (a_val s).

  Lemma prob_change_ok n s evs' vals s' e :
    aJ n s -> (forall v, In v vals -> In v (dom n)) -> prob_change prob n s evs' vals = (s', e) ->
    aJ n s' /\ Forall (sev_ok dom) e.
  Proof.
    intros HJ Hv. unfold prob_change. destruct (draw (a_orc s)) as [r o1]. destruct (r <? prob).
    - destruct (draw o1) as [i o2]. destruct (pick vals i) as [v|] eqn:Ep.
      + destruct (vsel n (a_val s) (Some v)) as [cur ev] eqn:Ev.
        apply (vsel_ok dom) in Ev; auto; [|simpl; apply Hv; eapply pick_In; eauto].
        intros H; inversion H; subst. unfold aJ; simpl. tauto.
      + intros H; inversion H; subst. unfold aJ; simpl. split; auto. constructor; simpl; auto.
    - intros H; inversion H; subst. unfold aJ; simpl. split; auto.
  Qed.

  Lemma adsa_tick_ok n s s' outs e :
    aJ n s -> adsa_tick dom nbrs variant prob n s = (s', outs, e) -> aJ n s' /\ Forall (sev_ok dom) e.
  Proof.
    intros HJ. unfold adsa_tick.
    match goal with |- context [let '(s1, e1) := ?X in _] => destruct X as [s1 e1] eqn:E end.
    intros H; inversion H; subst. clear H.
    destruct (Nat.eqb _ _).
    - destruct (a_evs s) as [|[[dpos viol] mask] evs'].
      + inversion E; subst. split; auto. constructor; simpl; auto.
      + assert (Hm : forall v, In v (masked (dom n) mask) -> In v (dom n)) by (intros; eapply masked_incl; eauto).
        assert (Hw : forall v, In v (without_cur (a_val s) (masked (dom n) mask)) -> In v (dom n))
          by (intros v Hv; apply Hm; eapply without_cur_incl; eauto).
        destruct dpos; [eapply prob_change_ok; eauto|].
        destruct (variant =? 0); [inversion E; subst; split; auto|].
        destruct (variant =? 1).
        * destruct viol; [eapply prob_change_ok; eauto|inversion E; subst; split; auto].
        * eapply prob_change_ok; eauto.
    - inversion E; subst. split; auto.
  Qed.

  Lemma adsa_delayed_ok n s s' outs e :
    aJ n s -> adsa_delayed_start dom nbrs iso n s = (s', outs, e) -> aJ n s' /\ Forall (sev_ok dom) e.
  Proof.
    intros HJ. unfold adsa_delayed_start. destruct (nbrs n).
    - pose proof (iso_ok n) as Hi. destruct (iso n) as [v|].
      + destruct (vsel n (a_val s) (Some v)) as [cur ev] eqn:Ev.
        apply (vsel_ok dom) in Ev; auto.
        intros H; inversion H; subst. unfold aJ; simpl. split; [tauto|].
        apply Forall_app. split; [tauto|]. constructor; simpl; auto.
      + intros H; inversion H; subst. unfold aJ; simpl. split; auto. constructor; simpl; auto.
    - destruct (draw (a_orc s)) as [i o]. destruct (pick (dom n) i) as [v|] eqn:Ep.
      + destruct (vsel n (a_val s) (Some v)) as [cur ev] eqn:Ev.
        apply (vsel_ok dom) in Ev; auto; [|simpl; eapply pick_In; eauto].
        intros H; inversion H; subst. unfold aJ; simpl. tauto.
      + intros H; inversion H; subst. unfold aJ; simpl. split; auto. constructor; simpl; auto.
  Qed.

  Theorem adsa_selects_in_domain_l : forall sched,
    (forall e, In e (snd (run PA sched)) -> sev_ok dom e) /\
    (forall n, ok (dom n) (a_val (w_st (nodes (fst (run PA sched)) n)))).
  Proof.
    intros sched.
    pose proof (net_inv PA aJ (fun _ _ _ => True) (sev_ok dom)) as H.
    assert (G : good PA aJ (fun _ _ _ => True) (fst (run PA sched)) /\ Forall (sev_ok dom) (snd (run PA sched))).
    { apply H.
      - intros n. unfold aJ; simpl; auto.
      - intros n s s' outs evs HJ Hs. simpl in Hs. unfold adsa_start in Hs.
        destruct (draw (a_orc s)) as [x o]. inversion Hs; subst.
        split; [exact HJ|]. split; [|constructor]. constructor; simpl; auto.
      - intros n s src m s' outs evs HJ _ Hs. simpl in Hs. unfold adsa_recv in Hs.
        assert (Ho : forall (l : list (node * amsg)), outs_ok (fun _ _ _ => True) n l).
        { intros l. unfold outs_ok. rewrite Forall_forall. auto. }
        destruct m.
        + inversion Hs; subst. split; [exact HJ|]. split; [apply Ho|constructor].
        + destruct (a_stopped s).
          * inversion Hs; subst. split; [exact HJ|]. split; [apply Ho|constructor].
          * destruct (a_started s).
            -- apply adsa_tick_ok in Hs; auto. destruct Hs. split; auto.
            -- apply adsa_delayed_ok in Hs; auto. destruct Hs. split; auto. }
    destruct G as [(G1 & _) G2]. split.
    - rewrite Forall_forall in G2. exact G2.
    - intros n. apply G1.
  Qed.
End Adsa.
