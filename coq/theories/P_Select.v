(* P_Select.v -- proofs about M_Select.v (funnel, dsatuto, adsa, gdba) and the C10 lemmas for the
   SyncBB and DPOP models of M_SyncBB.v / M_Dpop.v.  Every theorem holds for every schedule. *)
From Coq Require Import Lia.
From PyDcop Require Import Base Net P_SelectNet P_SelectSync M_SyncMixin M_Select.

(* "unset or a member of the domain" *)
Definition ok (dom : list Z) (v : option Z) : Prop :=
  match v with None => True | Some x => In x dom end.

Definition sev_ok (dom : node -> list Z) (e : sev) : Prop :=
  match e with SSel n v => ok (dom n) v | _ => True end.

(* ------------------------------------------------------------------ helpers *)
Lemma pick_In l i v : pick l i = Some v -> In v l.
Proof. unfold pick. destruct l; [discriminate|]. apply nth_error_In. Qed.

Lemma masked_incl dom : forall m v, In v (masked dom m) -> In v dom.
Proof.
  induction dom as [|d r IH]; intros [|b mr] v H; simpl in *; try contradiction.
  destruct b; simpl in H.
  - destruct H as [->|H]; [left; auto|right; eauto].
  - right; eauto.
Qed.

Lemma remove_first_incl x l v : In v (remove_first x l) -> In v l.
Proof.
  induction l as [|y r IH]; simpl; auto.
  destruct (x =? y); simpl; intros H; auto. destruct H; auto.
Qed.

Lemma without_cur_incl cur l v : In v (without_cur cur l) -> In v l.
Proof.
  unfold without_cur. destruct cur; auto. destruct (1 <? Z.of_nat (List.length l)); auto.
  apply remove_first_incl.
Qed.

Lemma vsel_ok dom n cur v cur' e :
  ok (dom n) cur -> ok (dom n) v -> vsel n cur v = (cur', e) ->
  ok (dom n) cur' /\ Forall (sev_ok dom) e.
Proof.
  unfold vsel. intros Hc Hv. destruct (option_eqb Z.eqb v cur); intros H; inversion H; subst.
  - split; auto.
  - split; auto.
Qed.

Lemma firstn_In' {A} : forall k (l : list A) x, In x (firstn k l) -> In x l.
Proof. induction k; intros [|y l] x H; simpl in *; try contradiction. destruct H; auto. Qed.

(* ------------------------------------------------------------------ 1. the funnel *)
Lemma fun_call_ok dom s v :
  ok dom (f_value s) -> ok dom v -> ok dom (f_value (fst (fun_call s v))).
Proof. unfold fun_call. destruct (option_eqb Z.eqb v (f_prev s)); simpl; auto. Qed.

Lemma fun_exec_ok dom args : forall s, ok dom (f_value s) -> Forall (ok dom) args ->
  ok dom (f_value (fst (fun_exec s args))) /\ Forall (ok dom) (snd (fun_exec s args)).
Proof.
  induction args as [|v r IH]; intros s Hs Ha; simpl; auto.
  inversion Ha; subst.
  pose proof (fun_call_ok dom s v Hs H1) as Hc.
  destruct (fun_call s v) as [s1 f]. simpl in Hc.
  specialize (IH s1 Hc H2). destruct (fun_exec s1 r) as [s2 e]. simpl in *.
  destruct IH as [I1 I2]. split; auto. destruct f; auto.
Qed.

(* whatever sequence of value_selection calls an algorithm makes: if every argument is None or
   a domain member then so is every value reported to _on_value_selection and the value
   current_value returns after ANY prefix of the calls *)
Theorem funnel_in_domain_l : forall dom args, Forall (ok dom) args ->
  Forall (ok dom) (snd (fun_exec fun_init args)) /\
  forall k, ok dom (f_value (fst (fun_exec fun_init (firstn k args)))).
Proof.
  intros dom args Ha. split.
  - apply fun_exec_ok; simpl; auto.
  - intros k. apply fun_exec_ok; simpl; auto.
    rewrite Forall_forall in *. intros x Hx. apply Ha. eapply firstn_In'; eauto.
Qed.

(* random_value_selection only ever passes a domain member on *)
Theorem fun_random_in_domain_l : forall dom s i s' f,
  ok dom (f_value s) -> fun_random s dom i = Some (s', f) -> ok dom (f_value s').
Proof.
  intros dom s i s' f Hs. unfold fun_random. destruct dom as [|d r]; [discriminate|].
  destruct (nth_error (d :: r) _) as [v|] eqn:E; [|discriminate].
  intros H; inversion H. apply nth_error_In in E.
  pose proof (fun_call_ok (d :: r) s (Some v) Hs E) as Hc. rewrite H1 in Hc. exact Hc.
Qed.

(* ------------------------------------------------------------------ 2a. dsatuto *)
Section Tuto.
  Variable dom : node -> list Z.
  Variable nbrs : node -> list node.
  Variable orc : node -> list Z.
  Variable tevs : node -> list (bool * list bool).

  Definition tQ (n : node) (a : tst) : Prop := ok (dom n) (t_val a) /\ Forall (sev_ok dom) (t_log a).

  Lemma tuto_start_ok n a a' outs : tQ n a -> tuto_start dom nbrs n a = (a', outs) -> tQ n a'.
  Proof.
    intros [H1 H2]. unfold tuto_start. destruct (draw (t_orc a)) as [i o].
    destruct (pick (dom n) i) as [v|] eqn:Ep.
    - destruct (vsel n (t_val a) (Some v)) as [cur e] eqn:Ev.
      apply (vsel_ok dom) in Ev; auto; [|apply pick_In in Ep; exact Ep].
      intros H; inversion H; subst. split; simpl; [tauto|apply Forall_app; tauto].
    - intros H; inversion H; subst. split; simpl; auto. apply Forall_app. split; auto.
      constructor; simpl; auto.
  Qed.

  Lemma tuto_cycle_ok n a k msgs a' p r : tQ n a -> tuto_cycle dom nbrs n a k msgs = (a', p, r) -> tQ n a'.
  Proof.
    intros [H1 H2]. unfold tuto_cycle. destruct (t_evs a) as [|[imp mask] evs'].
    - intros H; inversion H; subst. split; simpl; auto. apply Forall_app. split; auto; repeat constructor.
    - destruct imp.
      + destruct (draw (t_orc a)) as [rr o]. destruct (rr <? 500).
        * destruct (masked (dom n) mask) as [|v l] eqn:Em.
          -- intros H; inversion H; subst. split; simpl; auto. apply Forall_app. split; auto; repeat constructor.
          -- destruct (vsel n (t_val a) (Some v)) as [cur e] eqn:Ev.
             apply (vsel_ok dom) in Ev; auto.
             ++ intros H; inversion H; subst. split; simpl; [tauto|apply Forall_app; tauto].
             ++ simpl. apply (masked_incl _ mask). rewrite Em. left; auto.
        * intros H; inversion H; subst. split; simpl; auto.
      + intros H; inversion H; subst. split; simpl; auto.
  Qed.

  Theorem dsatuto_selects_in_domain_l : forall sched n,
    let cf := fst (run (dsatuto_proto dom nbrs orc tevs) sched) in
    Forall (sev_ok dom) (t_log (ast (w_st (nodes cf n)))) /\ ok (dom n) (t_val (ast (w_st (nodes cf n)))).
  Proof.
    intros sched n. cbv zeta.
    pose proof (sync_algo_inv nbrs (tuto_algo dom nbrs orc tevs) tQ) as H.
    assert (Hq : tQ n (ast (w_st (nodes (fst (run (dsatuto_proto dom nbrs orc tevs) sched)) n)))).
    { apply H.
      - intros m. split; simpl; auto.
      - intros m a a' outs Hq Hs. simpl in Hs. exact (tuto_start_ok _ _ _ _ Hq Hs).
      - intros m a k msgs a' p r Hq Hs. simpl in Hs. exact (tuto_cycle_ok _ _ _ _ _ _ _ Hq Hs). }
    destruct Hq; split; auto.
  Qed.
End Tuto.

(* ------------------------------------------------------------------ 2b. adsa *)
Section Adsa.
  Variable dom : node -> list Z.
  Variable nbrs : node -> list node.
  Variable iso : node -> option Z.
  Variable orc : node -> list Z.
  Variable variant prob : Z.
  Variable aevs : node -> list (bool * bool * list bool).
  Hypothesis iso_ok : forall n, ok (dom n) (iso n).      (* C06: optimal_cost_value returns a domain value *)

  Let PA := adsa_proto dom nbrs iso orc variant prob aevs.
  Definition aJ (n : node) (s : ast_) : Prop := ok (dom n) (a_val s).

  Lemma prob_change_ok n s evs' vals s' e :
    aJ n s -> (forall v, In v vals -> In v (dom n)) -> prob_change prob n s evs' vals = (s', e) ->
    aJ n s' /\ Forall (sev_ok dom) e.
  Proof.
    intros HJ Hv. unfold prob_change. destruct (draw (a_orc s)) as [r o1]. destruct (r <? prob).
    - destruct (draw o1) as [i o2]. destruct (pick vals i) as [v|] eqn:Ep.
      + destruct (vsel n (a_val s) (Some v)) as [cur ev] eqn:Ev.
        apply (vsel_ok dom) in Ev; auto; [|simpl; apply Hv; eapply pick_In; eauto].
        intros H; inversion H; subst. unfold aJ; simpl. tauto.
      + intros H; inversion H; subst. unfold aJ; simpl. split; auto; repeat constructor.
    - intros H; inversion H; subst. unfold aJ; simpl. split; auto.
  Qed.

  Lemma adsa_tick_ok n s s' outs e :
    aJ n s -> adsa_tick dom nbrs variant prob n s = (s', outs, e) -> aJ n s' /\ Forall (sev_ok dom) e.
  Proof.
    intros HJ. unfold adsa_tick.
    match goal with |- context [let '(s1, e1) := ?X in _] => destruct X as [s1 e1] eqn:E end.
    intros H; inversion H; subst. clear H.
    destruct (Nat.eqb _ _).
    - destruct (a_evs s) as [|[[dpos viol] mask] evs'].
      + inversion E; subst. split; auto; repeat constructor.
      + assert (Hm : forall v, In v (masked (dom n) mask) -> In v (dom n)) by (intros; eapply masked_incl; eauto).
        assert (Hw : forall v, In v (without_cur (a_val s) (masked (dom n) mask)) -> In v (dom n))
          by (intros v Hv; apply Hm; eapply without_cur_incl; eauto).
        destruct dpos; [exact (prob_change_ok _ _ _ _ _ _ HJ Hm E)|].
        destruct (variant =? 0); [inversion E; subst; split; auto|].
        destruct (variant =? 1).
        * destruct viol; [exact (prob_change_ok _ _ _ _ _ _ HJ Hw E)|inversion E; subst; split; auto].
        * exact (prob_change_ok _ _ _ _ _ _ HJ Hw E).
    - inversion E; subst. split; auto.
  Qed.

  Lemma adsa_delayed_ok n s s' outs e :
    aJ n s -> adsa_delayed_start dom nbrs iso n s = (s', outs, e) -> aJ n s' /\ Forall (sev_ok dom) e.
  Proof.
    intros HJ. unfold adsa_delayed_start. destruct (nbrs n).
    - pose proof (iso_ok n) as Hi. destruct (iso n) as [v|].
      + destruct (vsel n (a_val s) (Some v)) as [cur ev] eqn:Ev.
        apply (vsel_ok dom) in Ev; auto.
        intros H; inversion H; subst. unfold aJ; simpl. split; [tauto|].
        apply Forall_app. split; [tauto|]. repeat constructor.
      + intros H; inversion H; subst. unfold aJ; simpl. split; auto; repeat constructor.
    - destruct (draw (a_orc s)) as [i o]. destruct (pick (dom n) i) as [v|] eqn:Ep.
      + destruct (vsel n (a_val s) (Some v)) as [cur ev] eqn:Ev.
        apply (vsel_ok dom) in Ev; auto; [|simpl; eapply pick_In; eauto].
        intros H; inversion H; subst. unfold aJ; simpl. tauto.
      + intros H; inversion H; subst. unfold aJ; simpl. split; auto; repeat constructor.
  Qed.

  Theorem adsa_selects_in_domain_l : forall sched,
    (forall e, In e (snd (run PA sched)) -> sev_ok dom e) /\
    (forall n, ok (dom n) (a_val (w_st (nodes (fst (run PA sched)) n)))).
  Proof.
    intros sched.
    assert (Ho : forall n (l : list (node * amsg)), outs_ok (fun _ _ _ => True) n l).
    { intros n l. unfold outs_ok. rewrite Forall_forall. auto. }
    assert (Hi : forall n, aJ n (p_init PA n)) by (intros n; unfold aJ; simpl; auto).
    assert (Hs : forall n s s' outs evs, aJ n s -> p_start PA n s = (s', outs, evs) ->
              aJ n s' /\ outs_ok (fun _ _ _ => True) n outs /\ Forall (sev_ok dom) evs).
    { intros n s s' outs evs HJ Hq. simpl in Hq. unfold adsa_start in Hq.
      destruct (draw (a_orc s)) as [x o]. inversion Hq; subst.
      split; [exact HJ|]. split; [apply Ho|constructor]. }
    assert (Hr : forall n s src m s' outs evs, aJ n s -> True -> p_recv PA n s src m = (s', outs, evs) ->
              aJ n s' /\ outs_ok (fun _ _ _ => True) n outs /\ Forall (sev_ok dom) evs).
    { intros n s src m s' outs evs HJ _ Hq. simpl in Hq. unfold adsa_recv in Hq.
      destruct m.
      - inversion Hq; subst. split; [exact HJ|]. split; [apply Ho|constructor].
      - destruct (a_stopped s).
        + inversion Hq; subst. split; [exact HJ|]. split; [apply Ho|constructor].
        + destruct (a_started s).
          * apply adsa_tick_ok in Hq; auto. destruct Hq. split; auto.
          * apply adsa_delayed_ok in Hq; auto. destruct Hq. split; auto. }
    destruct (net_inv PA aJ (fun _ _ _ => True) (sev_ok dom) Hi Hs Hr sched) as [(G1 & _) G2].
    split.
    - rewrite Forall_forall in G2. exact G2.
    - intros n. apply G1.
  Qed.
End Adsa.

(* ------------------------------------------------------------------ 2c. gdba *)
Section Gdba.
  Variable dom : node -> list Z.
  Variable init : node -> option Z.
  Variable nbrs : node -> list node.
  Variable iso : node -> option Z.
  Variable mx : bool.
  Variable orc : node -> list Z.
  Variable gevs : node -> list (Z * list bool).
  Hypothesis iso_ok : forall n, ok (dom n) (iso n).      (* C06: optimal_cost_value returns a domain value *)
  Hypothesis init_ok : forall n, ok (dom n) (init n).    (* Variable.__init__ checks the initial value *)

  Let PG := gdba_proto dom init nbrs iso mx orc gevs.

  Definition gJ (n : node) (s : gst) : Prop := ok (dom n) (g_val s) /\ ok (dom n) (g_new s).
  Definition good_res (n : node) (r : gres) : Prop :=
    gJ n (fst (fst (fst r))) /\ Forall (sev_ok dom) (snd (fst r)).
  Definition good_k (n : node) (k : gst -> gres) : Prop := forall s, gJ n s -> good_res n (k s).

  Lemma guard_pok_good n : good_k n (g_guard_pok n).
  Proof. intros s HJ. unfold g_guard_pok, good_res. destruct (g_pok s); simpl; split; auto; repeat constructor. Qed.
  Lemma guard_pimp_good n : good_k n (g_guard_pimp n).
  Proof. intros s HJ. unfold g_guard_pimp, good_res. destruct (g_pimp s); simpl; split; auto; repeat constructor. Qed.

  Lemma g_ok_step_good n nested : good_k n nested ->
    forall s src v, gJ n s -> good_res n (g_ok_step dom nbrs mx n nested s src v).
  Proof.
    intros Hk s src v [H1 H2]. unfold g_ok_step.
    destruct (Nat.eqb _ _).
    - destruct (g_evs s) as [|[imp mask] evs'].
      + unfold good_res, gJ; simpl. split; auto; repeat constructor.
      + destruct (improving mx imp).
        * destruct (draw (g_orc s)) as [i o]. destruct (pick (masked (dom n) mask) i) as [w|] eqn:Ep.
          -- match goal with |- context [nested ?s2] =>
               assert (HJ2 : gJ n s2); [|specialize (Hk s2 HJ2); destruct (nested s2) as [[[s3 o3] e3] r3]] end.
             { split; simpl; auto. eapply masked_incl. eapply pick_In; eauto. }
             unfold good_res in *; simpl in *. exact Hk.
          -- unfold good_res, gJ; simpl. split; auto; repeat constructor.
        * match goal with |- context [nested ?s2] =>
            assert (HJ2 : gJ n s2); [|specialize (Hk s2 HJ2); destruct (nested s2) as [[[s3 o3] e3] r3]] end.
          { split; simpl; auto. }
          unfold good_res in *; simpl in *. exact Hk.
    - unfold good_res, gJ; simpl. split; auto.
  Qed.

  Lemma g_imp_step_good n nested : good_k n nested ->
    forall s src i, gJ n s -> good_res n (g_imp_step nbrs mx n nested s src i).
  Proof.
    intros Hk s src i [H1 H2]. unfold g_imp_step.
    destruct (Nat.eqb _ _).
    - destruct (g_max_list n (g_imp s) _) as [maxi ml].
      match goal with |- context [let '(cur, e) := ?X in _] => destruct X as [cur e] eqn:Ev end.
      assert (Hv : ok (dom n) cur /\ Forall (sev_ok dom) e).
      { revert Ev. destruct (improving mx (g_imp s) && g_wins n ml); intros Ev.
        - exact (vsel_ok dom n _ _ _ _ H1 H2 Ev).
        - inversion Ev; subst. split; auto. }
      destruct Hv as [Hv1 Hv2].
      match goal with |- context [nested ?s2] =>
        assert (HJ2 : gJ n s2); [|specialize (Hk s2 HJ2); destruct (nested s2) as [[[s3 o3] e3] r3]] end.
      { split; simpl; auto. }
      unfold good_res in *; simpl in *. destruct Hk. split; auto. apply Forall_app; auto.
    - unfold good_res, gJ; simpl. split; auto.
  Qed.

  Lemma g_replay_good {M} n (h : gst -> node -> M -> gres) :
    (forall s src m, gJ n s -> good_res n (h s src m)) ->
    forall l s, gJ n s -> good_res n (g_replay h s l).
  Proof.
    intros Hh. induction l as [|[src m] r IH]; intros s HJ; simpl.
    - unfold good_res; simpl. split; auto.
    - pose proof (Hh s src m HJ) as H1. destruct (h s src m) as [[[s1 o1] e1] r1].
      unfold good_res in H1; simpl in H1. destruct H1 as [A B].
      destruct r1; [unfold good_res; simpl; split; auto|].
      specialize (IH s1 A). destruct (g_replay h s1 r) as [[[s2 o2] e2] r2].
      unfold good_res in *; simpl in *. destruct IH. split; auto. apply Forall_app; auto.
  Qed.

  Lemma g_go_imp_good n : good_k n (g_go_imp nbrs mx n).
  Proof.
    intros s HJ. unfold g_go_imp.
    pose proof (g_replay_good n _ (g_imp_step_good n _ (guard_pok_good n)) (g_pimp s) s HJ) as H.
    destruct (g_replay _ s (g_pimp s)) as [[[s1 o] e] r]. unfold good_res in *; simpl in *.
    destruct r; simpl; auto.
  Qed.

  Lemma g_go_ok_good n : good_k n (g_go_ok dom nbrs mx n).
  Proof.
    intros s HJ. unfold g_go_ok.
    pose proof (g_replay_good n _ (g_ok_step_good n _ (guard_pimp_good n)) (g_pok s) s HJ) as H.
    destruct (g_replay _ s (g_pok s)) as [[[s1 o] e] r]. unfold good_res in *; simpl in *.
    destruct r; simpl; auto.
  Qed.

  Lemma gdba_recv_ok n s src m s' outs evs :
    gJ n s -> gdba_recv dom nbrs mx n s src m = (s', outs, evs) -> gJ n s' /\ Forall (sev_ok dom) evs.
  Proof.
    intros HJ. unfold gdba_recv. destruct m as [v|i].
    - destruct (g_mode s).
      + intros H; inversion H; subst. split; auto.
      + pose proof (g_ok_step_good n _ (g_go_imp_good n) s src v HJ) as G.
        destruct (g_ok_step _ _ _ _ _ s src v) as [[[s1 o] e] r]. unfold good_res in G; simpl in *.
        intros H; inversion H; subst. exact G.
      + intros H; inversion H; subst. split; auto.
    - destruct (g_mode s).
      + intros H; inversion H; subst. split; auto.
      + intros H; inversion H; subst. split; auto.
      + pose proof (g_imp_step_good n _ (g_go_ok_good n) s src i HJ) as G.
        destruct (g_imp_step _ _ _ _ s src i) as [[[s1 o] e] r]. unfold good_res in G; simpl in *.
        intros H; inversion H; subst. exact G.
  Qed.

  Lemma gdba_start_ok n s s' outs evs :
    gJ n s -> gdba_start dom init nbrs iso mx n s = (s', outs, evs) -> gJ n s' /\ Forall (sev_ok dom) evs.
  Proof.
    intros [H1 H2]. unfold gdba_start. destruct (nbrs n) eqn:En.
    - pose proof (iso_ok n) as Hi. destruct (iso n) as [v|].
      + destruct (vsel n (g_val s) (Some v)) as [cur e] eqn:Ev.
        apply (vsel_ok dom) in Ev; auto. destruct Ev as [E1 E2].
        intros H; inversion H; subst. split; [split; simpl; auto|].
        apply Forall_app. split; auto. repeat constructor.
      + intros H; inversion H; subst. split; [split; auto|repeat constructor].
    - match goal with |- context [match ?X with Some _ => _ | None => (s, [], [SErr n 1]) end] =>
        destruct X as [[v o]|] eqn:Ef end.
      + assert (Hv : ok (dom n) v).
        { pose proof (init_ok n) as Hi. destruct (init n) as [w|].
          - inversion Ef; subst. exact Hi.
          - destruct (draw (g_orc s)) as [i o']. destruct (pick (dom n) i) as [w|] eqn:Ep; [|discriminate].
            inversion Ef; subst. simpl. eapply pick_In; eauto. }
        destruct (vsel n (g_val s) v) as [cur e] eqn:Ev.
        apply (vsel_ok dom) in Ev; auto. destruct Ev as [E1 E2].
        match goal with |- context [g_go_ok dom nbrs mx n ?s1] =>
          assert (HJ1 : gJ n s1) by (split; simpl; auto);
          pose proof (g_go_ok_good n s1 HJ1) as G; destruct (g_go_ok dom nbrs mx n s1) as [[[s2 o2] e2] r2] end.
        unfold good_res in G; simpl in G. destruct G as [G1 G2].
        intros H; inversion H; subst. split; auto. apply Forall_app; auto.
      + intros H; inversion H; subst. split; [split; auto|repeat constructor].
  Qed.

  Theorem gdba_selects_in_domain_l : forall sched,
    (forall e, In e (snd (run PG sched)) -> sev_ok dom e) /\
    (forall n, ok (dom n) (g_val (w_st (nodes (fst (run PG sched)) n)))).
  Proof.
    intros sched.
    assert (Ho : forall n (l : list (node * gmsg)), outs_ok (fun _ _ _ => True) n l).
    { intros n l. unfold outs_ok. rewrite Forall_forall. auto. }
    assert (Hi : forall n, gJ n (p_init PG n)) by (intros n; split; simpl; auto).
    assert (Hs : forall n s s' outs evs, gJ n s -> p_start PG n s = (s', outs, evs) ->
              gJ n s' /\ outs_ok (fun _ _ _ => True) n outs /\ Forall (sev_ok dom) evs).
    { intros n s s' outs evs HJ Hq. simpl in Hq. apply gdba_start_ok in Hq; auto. destruct Hq. auto. }
    assert (Hr : forall n s src m s' outs evs, gJ n s -> True -> p_recv PG n s src m = (s', outs, evs) ->
              gJ n s' /\ outs_ok (fun _ _ _ => True) n outs /\ Forall (sev_ok dom) evs).
    { intros n s src m s' outs evs HJ _ Hq. simpl in Hq. apply gdba_recv_ok in Hq; auto. destruct Hq. auto. }
    destruct (net_inv PG gJ (fun _ _ _ => True) (sev_ok dom) Hi Hs Hr sched) as [(G1 & _) G2].
    split.
    - rewrite Forall_forall in G2. exact G2.
    - intros n. apply G1.
  Qed.
End Gdba.
