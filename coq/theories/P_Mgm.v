(* P_Mgm.v -- proofs about M_Mgm.v: round-level theorems (C03, C04) and the node-local
   invariants of the asynchronous handlers (C07). *)
From Coq Require Import ZArith List Bool Lia ZifyBool.
From PyDcop Require Import Base Net M_Mgm.
Import ListNotations.
Open Scope Z_scope.

(* ------------------------------------------------------------------ lists *)
Lemma In_insert_sorted {A} (leb : A -> A -> bool) x y l :
  In y (insert_sorted leb x l) <-> y = x \/ In y l.
Proof.
  induction l as [|z r IH]; simpl.
  - intuition.
  - destruct (leb x z); simpl; [intuition|]. rewrite IH. intuition.
Qed.

Lemma In_isort {A} (leb : A -> A -> bool) y l : In y (isort leb l) <-> In y l.
Proof.
  unfold isort. induction l as [|x r IH]; simpl; [tauto|].
  rewrite In_insert_sorted, IH. intuition.
Qed.

Lemma In_zdedup y l : In y (zdedup l) <-> In y l.
Proof.
  induction l as [|x r IH]; simpl; [tauto|].
  destruct (zmem x r) eqn:E.
  - rewrite IH. apply zmem_In in E. split; [auto|]. intros [->|H]; auto.
  - simpl. rewrite IH. tauto.
Qed.

Lemma nodupb_NoDup l : nodupb Z.eqb l = true -> NoDup l.
Proof.
  induction l as [|x r IH]; simpl; intros H; constructor.
  - apply andb_true_iff in H as [H _]. intros Hin. apply zmem_In in Hin. unfold zmem in Hin.
    rewrite Hin in H. discriminate.
  - apply IH. apply andb_true_iff in H. tauto.
Qed.

Lemma zsum_app l1 l2 : zsum (l1 ++ l2) = zsum l1 + zsum l2.
Proof. induction l1; simpl; lia. Qed.

Lemma zsum_map_ext {A} (f g : A -> Z) l : (forall x, In x l -> f x = g x) -> zsum (map f l) = zsum (map g l).
Proof. induction l; simpl; intros H; [reflexivity|]. rewrite H, IHl; auto. Qed.

Lemma zsum_filter_split {A} (p : A -> bool) (f : A -> Z) l :
  zsum (map f l) = zsum (map f (filter p l)) + zsum (map f (filter (fun x => negb (p x)) l)).
Proof. induction l as [|x r IH]; simpl; [reflexivity|]. destruct (p x); simpl; lia. Qed.

(* ------------------------------------------------------------------ neighbours *)
Lemma cons_of_In d n c : In c (cons_of d n) <-> In c (d_cons d) /\ In n (c_scope c).
Proof. unfold cons_of. rewrite filter_In, zmem_In. tauto. Qed.

Lemma nbrs_spec d n m :
  In m (nbrs d n) <-> m <> n /\ exists c, In c (d_cons d) /\ In n (c_scope c) /\ In m (c_scope c).
Proof.
  unfold nbrs. rewrite In_isort, In_zdedup, filter_In, in_flat_map. split.
  - intros [[c [Hc Hm]] Hne]. apply cons_of_In in Hc. split; [lia|]. exists c. tauto.
  - intros [Hne [c [H1 [H2 H3]]]]. split; [|lia]. exists c. split; auto. apply cons_of_In. tauto.
Qed.

Lemma nbrs_sym d n m : In m (nbrs d n) -> In n (nbrs d m).
Proof. rewrite !nbrs_spec. intros [H [c Hc]]. split; [auto|]. exists c. tauto. Qed.

Lemma nbrs_irrefl d n : ~ In n (nbrs d n).
Proof. rewrite nbrs_spec. tauto. Qed.

Lemma scope_in_nbrs d n c v : In c (cons_of d n) -> In v (c_scope c) -> v = n \/ In v (nbrs d n).
Proof.
  intros Hc Hv. destruct (Z.eq_dec v n); [auto|right]. apply nbrs_spec. split; auto.
  apply cons_of_In in Hc. exists c. tauto.
Qed.

(* ------------------------------------------------------------------ evaluation *)
Lemma ceval_ext c f g : (forall v, In v (c_scope c) -> f v = g v) -> ceval c f = ceval c g.
Proof. intros H. unfold ceval. f_equal. apply map_ext_in. exact H. Qed.

Lemma own_ext d a b n y : (forall m, In m (nbrs d n) -> b m = a m) -> own d b n y = own d a n y.
Proof.
  intros H. unfold own. f_equal. apply zsum_map_ext. intros c Hc. apply ceval_ext. intros v Hv.
  unfold fupd. destruct (v =? n) eqn:E; [reflexivity|].
  destruct (scope_in_nbrs d n c v Hc Hv) as [->|Hn]; [lia|auto].
Qed.

Definition ids (d : dcop) := map fst (d_vars d).

Lemma wf_nodup d : wf_dcop d = true -> NoDup (ids d).
Proof. unfold wf_dcop. intros H. apply andb_true_iff in H as [H _]. apply andb_true_iff in H as [H _]. now apply nodupb_NoDup. Qed.

Lemma wf_scope d c v : wf_dcop d = true -> In c (d_cons d) -> In v (c_scope c) -> In v (ids d).
Proof.
  unfold wf_dcop. intros H Hc Hv. apply andb_true_iff in H as [H _]. apply andb_true_iff in H as [_ H].
  rewrite forallb_forall in H. specialize (H c Hc). rewrite forallb_forall in H.
  apply zmem_In. now apply H.
Qed.

Lemma wf_dom d n : wf_dcop d = true -> In n (ids d) -> dom_of d n <> [].
Proof.
  unfold wf_dcop. intros H Hn. apply andb_true_iff in H as [_ H]. rewrite forallb_forall in H.
  specialize (H n Hn). destruct (dom_of d n); [discriminate|discriminate].
Qed.

Lemma gcost_ext d f g : wf_dcop d = true -> (forall v, In v (ids d) -> f v = g v) -> gcost d f = gcost d g.
Proof.
  intros W H. unfold gcost. f_equal.
  - apply zsum_map_ext. intros c Hc. apply ceval_ext. intros v Hv. apply H. eapply wf_scope; eauto.
  - apply zsum_map_ext. intros v Hv. now rewrite H.
Qed.

Lemma vsum_fupd d a n x l : NoDup l -> In n l ->
  zsum (map (fun v => vcost d v (fupd a n x v)) l) = zsum (map (fun v => vcost d v (a v)) l) + vcost d n x - vcost d n (a n).
Proof.
  induction l as [|y r IH]; simpl; intros ND Hin; [tauto|].
  inversion ND as [|? ? Hy ND']; subst.
  destruct Hin as [->|Hin].
  - unfold fupd at 1. rewrite Z.eqb_refl.
    assert (zsum (map (fun v => vcost d v (fupd a n x v)) r) = zsum (map (fun v => vcost d v (a v)) r)) as ->.
    { apply zsum_map_ext. intros v Hv. unfold fupd. destruct (v =? n) eqn:E; [|reflexivity].
      apply Z.eqb_eq in E. subst. contradiction. }
    lia.
  - rewrite IH by auto. unfold fupd at 1. destruct (y =? n) eqn:E.
    + apply Z.eqb_eq in E. subst. contradiction.
    + lia.
Qed.

(* changing one variable changes the global cost by the change of its own constraints and cost *)
Lemma gcost_fupd d a n x : wf_dcop d = true -> In n (ids d) ->
  gcost d (fupd a n x) - gcost d a = own d a n x - own d a n (a n).
Proof.
  intros W Hn. unfold gcost. fold (ids d). rewrite (vsum_fupd d a n x (ids d) (wf_nodup d W) Hn).
  rewrite (zsum_filter_split (fun c => zmem n (c_scope c)) (fun c => ceval c (fupd a n x)) (d_cons d)).
  rewrite (zsum_filter_split (fun c => zmem n (c_scope c)) (fun c => ceval c a) (d_cons d)).
  assert (E1 : zsum (map (fun c => ceval c (fupd a n x)) (filter (fun c => negb (zmem n (c_scope c))) (d_cons d)))
             = zsum (map (fun c => ceval c a) (filter (fun c => negb (zmem n (c_scope c))) (d_cons d)))).
  { apply zsum_map_ext. intros c Hc. apply filter_In in Hc as [_ Hc]. apply ceval_ext. intros v Hv.
    unfold fupd. destruct (v =? n) eqn:E; [|reflexivity]. apply Z.eqb_eq in E. subst.
    apply zmem_In in Hv. rewrite Hv in Hc. discriminate. }
  rewrite E1. unfold own, cons_of.
  assert (E2 : zsum (map (fun c => ceval c (fupd a n (a n))) (filter (fun c => zmem n (c_scope c)) (d_cons d)))
             = zsum (map (fun c => ceval c a) (filter (fun c => zmem n (c_scope c)) (d_cons d)))).
  { apply zsum_map_ext. intros c _. apply ceval_ext. intros v _. unfold fupd.
    destruct (v =? n) eqn:E; [|reflexivity]. apply Z.eqb_eq in E. now subst. }
  rewrite E2. lia.
Qed.

(* ------------------------------------------------------------------ find_arg_optimal *)
Definition opt_le (mx : bool) (best c : Z) : Prop := if mx then c <= best else best <= c.

Lemma argopt_from_spec mx f dom : forall best acc vals b,
  argopt_from mx f dom best acc = (vals, b) ->
  acc <> [] -> (forall x, In x acc -> f x = best) ->
  vals <> [] /\ (forall x, In x vals -> f x = b) /\ opt_le mx b best /\ (forall x, In x dom -> opt_le mx b (f x))
  /\ (forall x, In x vals -> In x acc \/ In x dom).
Proof.
  induction dom as [|y r IH]; simpl; intros best acc vals b H Hne Hacc.
  - inversion H; subst. repeat split; auto; try tauto. unfold opt_le. destruct mx; lia.
  - destruct (better mx (f y) best) eqn:Eb.
    + apply IH in H; [|discriminate|intros x [<-|[]]; reflexivity].
      destruct H as (H1 & H2 & H3 & H4 & H5). repeat split; auto.
      * unfold opt_le, better in *. destruct mx; lia.
      * intros x [<-|Hx]; auto.
      * intros x Hx. destruct (H5 x Hx) as [[<-|[]]|]; auto.
    + destruct (f y =? best) eqn:Ee.
      * apply IH in H.
        2:{ destruct acc; discriminate. }
        2:{ intros x Hx. apply in_app_or in Hx as [Hx|[<-|[]]]; auto. lia. }
        destruct H as (H1 & H2 & H3 & H4 & H5). repeat split; auto.
        -- intros x [<-|Hx]; auto. assert (f y = best) as -> by lia. exact H3.
        -- intros x Hx. destruct (H5 x Hx) as [Hx'|]; auto. apply in_app_or in Hx' as [|[<-|[]]]; auto.
      * apply IH in H; auto. destruct H as (H1 & H2 & H3 & H4 & H5). repeat split; auto.
        -- intros x [<-|Hx]; auto. unfold opt_le, better in *. destruct mx; lia.
        -- intros x Hx. destruct (H5 x Hx); auto.
Qed.

Lemma find_arg_optimal_spec mx f dom vals b :
  find_arg_optimal mx f dom = (vals, b) -> dom <> [] ->
  vals <> [] /\ (forall x, In x vals -> f x = b /\ In x dom) /\ (forall x, In x dom -> opt_le mx b (f x)).
Proof.
  destruct dom as [|y r]; [tauto|]. simpl. intros H _.
  apply argopt_from_spec in H; [|discriminate|intros x [<-|[]]; reflexivity].
  destruct H as (H1 & H2 & H3 & H4 & H5). repeat split; auto.
  - destruct (H5 x H) as [[<-|[]]|]; auto.
  - intros x [<-|Hx]; auto.
Qed.

Lemma find_arg_optimal_nil mx f : fst (find_arg_optimal mx f []) = [].
Proof. reflexivity. Qed.

Lemma choose_In l x dflt : l <> [] -> In (choose l x dflt) l.
Proof.
  intros H. unfold choose. apply nth_In. unfold zlen.
  assert (0 < Z.of_nat (List.length l)) by (destruct l; [tauto|simpl; lia]).
  pose proof (Z.mod_pos_bound x (Z.of_nat (List.length l)) H0). lia.
Qed.

Lemma choose_nil x dflt : choose [] x dflt = dflt.
Proof. unfold choose. destruct (Z.to_nat _); reflexivity. Qed.

(* ------------------------------------------------------------------ who moves *)
(* (g, n) beats (gm, m): strictly better signed gain, or equal gain and smaller name *)
Definition beats (mx : bool) (g n gm m : Z) : Prop := (if mx then g < gm else gm < g) \/ (g = gm /\ n < m).

Lemma beats_asym mx g n gm m : beats mx g n gm m -> beats mx gm m g n -> False.
Proof. unfold beats. destruct mx; lia. Qed.

Lemma beats_total mx g n gm m : n <> m -> beats mx g n gm m \/ beats mx gm m g n.
Proof. unfold beats. destruct mx; lia. Qed.

Lemma beats_trans mx g1 n1 g2 n2 g3 n3 : beats mx g1 n1 g2 n2 -> beats mx g2 n2 g3 n3 -> beats mx g1 n1 g3 n3.
Proof. unfold beats. destruct mx; lia. Qed.

Definition fbest (mx : bool) (r : list (Z * Z)) (init : Z) : Z :=
  fold_left (fun m q => if mx then Z.min m (snd q) else Z.max m (snd q)) r init.

Lemma fold_best (mx : bool) (r : list (Z * Z)) : forall init,
  (if mx then fbest mx r init <= init else init <= fbest mx r init)
  /\ (forall q, In q r -> if mx then fbest mx r init <= snd q else snd q <= fbest mx r init)
  /\ (fbest mx r init = init \/ exists q, In q r /\ snd q = fbest mx r init).
Proof.
  induction r as [|p r IH]; intros init.
  - unfold fbest; simpl. repeat split; try tauto. destruct mx; lia.
  - specialize (IH (if mx then Z.min init (snd p) else Z.max init (snd p))).
    change (fbest mx (p :: r) init) with (fbest mx r (if mx then Z.min init (snd p) else Z.max init (snd p))).
    set (m := fbest mx r (if mx then Z.min init (snd p) else Z.max init (snd p))) in *.
    clearbody m. destruct IH as (H1 & H2 & H3). repeat split.
    + destruct mx; lia.
    + intros q [<-|Hq]; [destruct mx; lia|now apply H2].
    + destruct H3 as [H3|[q [Hq E]]].
      * destruct mx.
        -- destruct (Z.min_spec init (snd p)) as [[_ E]|[_ E]]; rewrite E in H3; [auto|right; exists p; simpl; auto].
        -- destruct (Z.max_spec init (snd p)) as [[_ E]|[_ E]]; rewrite E in H3; [right; exists p; simpl; auto|auto].
      * right. exists q. simpl. auto.
Qed.

Lemma max_gain_spec d ng : ng <> [] ->
  (forall q, In q ng -> if d_max d then max_gain d ng <= snd q else snd q <= max_gain d ng)
  /\ exists q, In q ng /\ snd q = max_gain d ng.
Proof.
  destruct ng as [|p r]; [tauto|]. intros _. unfold max_gain. fold (fbest (d_max d) r (snd p)).
  destruct (fold_best (d_max d) r (snd p)) as (H1 & H2 & H3). split.
  - intros q [<-|Hq]; [exact H1|now apply H2].
  - destruct H3 as [E|[q [Hq E]]]; [exists p; rewrite E; simpl; auto|exists q; simpl; auto].
Qed.

Lemma wins_beats d n g ng m gm : wins d n g ng = true -> In (m, gm) ng -> beats (d_max d) g n gm m.
Proof.
  intros W Hin. assert (Hne : ng <> []) by (destruct ng; [contradiction|discriminate]).
  destruct (max_gain_spec d ng Hne) as [Hge _]. specialize (Hge _ Hin). simpl in Hge.
  unfold wins in W. apply orb_true_iff in W as [W|W].
  - left. destruct (d_max d); lia.
  - apply andb_true_iff in W as [E F]. rewrite forallb_forall in F. specialize (F _ Hin). simpl in F.
    unfold beats. destruct (d_max d); lia.
Qed.

Lemma beats_wins d n g ng : ng <> [] -> (forall m gm, In (m, gm) ng -> beats (d_max d) g n gm m) -> wins d n g ng = true.
Proof.
  intros Hne H. destruct (max_gain_spec d ng Hne) as [Hge [[m gm] [Hin E]]]. simpl in E.
  unfold wins. pose proof (H _ _ Hin) as B. unfold beats in B.
  destruct B as [B|[B1 B2]].
  - apply orb_true_iff. left. destruct (d_max d); lia.
  - apply orb_true_iff. right. apply andb_true_iff. split; [lia|].
    apply forallb_forall. intros [m' gm'] Hin'. simpl. specialize (H _ _ Hin'). specialize (Hge _ Hin'). simpl in Hge.
    unfold beats in H. destruct (d_max d); lia.
Qed.

Section RoundProofs.
  Variable d : dcop.
  Hypothesis W : wf_dcop d = true.

  Lemma r_wins_beats a n m : r_wins d a n = true -> In m (nbrs d n) -> beats (d_max d) (r_gain d a n) n (r_gain d a m) m.
  Proof.
    intros Hw Hm. eapply wins_beats; [exact Hw|]. apply in_map_iff. exists m. auto.
  Qed.

  (* C03: two variables sharing a constraint never both move in the same cycle *)
  Lemma movers_independent a n m : r_moves d a n = true -> r_moves d a m = true -> In m (nbrs d n) -> False.
  Proof.
    unfold r_moves. intros Hn Hm Hnb. apply andb_true_iff in Hn as [_ Hn]. apply andb_true_iff in Hm as [_ Hm].
    apply (beats_asym (d_max d) (r_gain d a n) n (r_gain d a m) m).
    - now apply r_wins_beats.
    - apply r_wins_beats; [exact Hm|now apply nbrs_sym].
  Qed.

  Lemma r_best_spec a n : dom_of d n <> [] ->
    fst (r_best d a n) <> [] /\ (forall x, In x (fst (r_best d a n)) -> own d a n x = snd (r_best d a n) /\ In x (dom_of d n))
    /\ (forall x, In x (dom_of d n) -> opt_le (d_max d) (snd (r_best d a n)) (own d a n x)).
  Proof.
    intros H. unfold r_best. destruct (find_arg_optimal (d_max d) (own d a n) (dom_of d n)) as [vals b] eqn:E.
    simpl. eapply find_arg_optimal_spec; eauto.
  Qed.

  (* the value a node would move to is not worse for it, and strictly better whenever it differs *)
  Lemma r_newv_improves a n x :
    (if d_max d then own d a n (a n) <= own d a n (r_newv d a n x) else own d a n (r_newv d a n x) <= own d a n (a n))
    /\ (r_newv d a n x <> a n -> own d a n (r_newv d a n x) <> own d a n (a n)).
  Proof.
    unfold r_newv. destruct (r_improving d a n) eqn:I.
    2:{ split; [destruct (d_max d); lia|tauto]. }
    destruct (dom_of d n) as [|y r] eqn:D.
    - unfold r_best. rewrite D. simpl. rewrite choose_nil. split; [destruct (d_max d); lia|tauto].
    - assert (Hd : dom_of d n <> []) by (rewrite D; discriminate).
      destruct (r_best_spec a n Hd) as (H1 & H2 & _).
      pose proof (choose_In (fst (r_best d a n)) x (a n) H1) as Hc. apply H2 in Hc as [Hc _].
      rewrite Hc. unfold r_improving, r_gain in I. split; [destruct (d_max d); lia|intros _; destruct (d_max d); lia].
  Qed.

  Lemma r_newv_improving_changes a n x : r_improving d a n = true -> dom_of d n <> [] ->
    own d a n (r_newv d a n x) <> own d a n (a n).
  Proof.
    intros I Hd. unfold r_newv. rewrite I.
    destruct (r_best_spec a n Hd) as (H1 & H2 & _).
    pose proof (choose_In (fst (r_best d a n)) x (a n) H1) as Hc. apply H2 in Hc as [Hc _].
    rewrite Hc. unfold r_improving, r_gain in I. destruct (d_max d); lia.
  Qed.

  (* apply the moves of the nodes of l only *)
  Definition upd_list (a' a : Z -> Z) (l : list Z) : Z -> Z := fun v => if zmem v l then a' v else a v.

  Lemma upd_list_cons a' a n l v : upd_list a' a (n :: l) v = fupd (upd_list a' a l) n (a' n) v.
  Proof.
    unfold upd_list, fupd, zmem. simpl. destruct (v =? n) eqn:E; simpl; [|reflexivity].
    apply Z.eqb_eq in E. now subst.
  Qed.

  Lemma partial_moves_monotone a dr l :
    NoDup l -> (forall n, In n l -> In n (ids d) /\ r_moves d a n = true) ->
    if d_max d then gcost d a <= gcost d (upd_list (mgm_next d a dr) a l)
    else gcost d (upd_list (mgm_next d a dr) a l) <= gcost d a.
  Proof.
    induction l as [|n l IH]; intros ND H.
    - assert (gcost d (upd_list (mgm_next d a dr) a []) = gcost d a) as -> by (apply gcost_ext; auto).
      destruct (d_max d); lia.
    - inversion ND as [|? ? Hn ND']; subst.
      assert (IH' := IH ND' (fun k Hk => H k (or_intror Hk))).
      destruct (H n (or_introl eq_refl)) as [Hid Hmv].
      set (b := upd_list (mgm_next d a dr) a l) in *.
      assert (E : gcost d (upd_list (mgm_next d a dr) a (n :: l)) = gcost d (fupd b n (mgm_next d a dr n))).
      { apply gcost_ext; auto. intros v _. apply upd_list_cons. }
      rewrite E. pose proof (gcost_fupd d b n (mgm_next d a dr n) W Hid) as G.
      assert (Hb : forall m, In m (nbrs d n) -> b m = a m).
      { intros m Hm. unfold b, upd_list. destruct (zmem m l) eqn:Em; [|reflexivity].
        apply zmem_In in Em. exfalso. eapply movers_independent; [exact Hmv| |exact Hm]. now apply H; right. }
      rewrite !(own_ext d a b n) in G by exact Hb.
      assert (Hbn : b n = a n).
      { unfold b, upd_list. destruct (zmem n l) eqn:Em; [|reflexivity]. apply zmem_In in Em. contradiction. }
      rewrite Hbn in G.
      assert (Em : mgm_next d a dr n = r_newv d a n (dr n)) by (unfold mgm_next; now rewrite Hmv).
      rewrite Em in *. pose proof (r_newv_improves a n (dr n)) as [I _].
      clearbody b. destruct (d_max d); lia.
  Qed.

  (* C03: one complete MGM cycle never worsens the global cost (constraints + variables' own costs) *)
  Theorem mgm_round_monotone_lemma a dr :
    if d_max d then gcost d a <= gcost d (mgm_next d a dr) else gcost d (mgm_next d a dr) <= gcost d a.
  Proof.
    set (l := filter (r_moves d a) (ids d)).
    assert (E : gcost d (mgm_next d a dr) = gcost d (upd_list (mgm_next d a dr) a l)).
    { apply gcost_ext; auto. intros v Hv. unfold upd_list. destruct (zmem v l) eqn:Em; [reflexivity|].
      unfold mgm_next. destruct (r_moves d a v) eqn:Mv; [|reflexivity].
      assert (In v l) by (apply filter_In; auto). apply zmem_In in H. congruence. }
    rewrite E. apply partial_moves_monotone.
    - apply NoDup_filter. now apply wf_nodup.
    - intros n Hn. apply filter_In in Hn. exact Hn.
  Qed.
End RoundProofs.

(* ------------------------------------------------------------------ C04: 1-opt at stagnation *)
Lemma exists_top (g : Z -> Z) mx (l : list Z) : l <> [] ->
  exists n, In n l /\ forall m, In m l -> m <> n -> beats mx (g n) n (g m) m.
Proof.
  induction l as [|x r IH]; [tauto|]. intros _. destruct r as [|y r'].
  - exists x. split; [left; auto|]. intros m [<-|[]] H; congruence.
  - destruct IH as [n [Hn Ht]]; [discriminate|].
    destruct (Z.eq_dec x n) as [->|Hx].
    + exists n. split; [left; auto|]. intros m [<-|Hm] Hne; [congruence|auto].
    + destruct (beats_total mx (g x) x (g n) n Hx) as [B|B].
      * exists x. split; [left; auto|]. intros m [<-|Hm] Hne; [congruence|].
        destruct (Z.eq_dec m n) as [->|Hmn]; [exact B|].
        eapply beats_trans; [exact B|apply Ht; auto].
      * exists n. split; [right; auto|]. intros m [<-|Hm] Hne; [exact B|auto].
Qed.

Section OneOpt.
  Variable d : dcop.
  Hypothesis W : wf_dcop d = true.

  Lemma active_nbr n m : In m (nbrs d n) -> r_active d m = true.
  Proof. intros H. apply nbrs_sym in H. unfold r_active. destruct (nbrs d m); [contradiction|reflexivity]. Qed.

  Lemma nbr_in_ids n m : In m (nbrs d n) -> In m (ids d).
  Proof. intros H. apply nbrs_spec in H as [_ [c [Hc [_ Hm]]]]. eapply wf_scope; eauto. Qed.

  (* if some active node could improve, the best of them (largest improvement, smallest name) moves
     and really changes its value *)
  Lemma some_improving_moves a dr n0 :
    In n0 (ids d) -> r_active d n0 = true -> r_improving d a n0 = true ->
    exists n, In n (ids d) /\ mgm_next d a dr n <> a n.
  Proof.
    intros Hid Hact Himp.
    set (L := filter (fun v => r_active d v && r_improving d a v) (ids d)).
    assert (HL : L <> []).
    { assert (In n0 L) by (apply filter_In; split; [auto|now rewrite Hact, Himp]). destruct L; [contradiction|discriminate]. }
    destruct (exists_top (r_gain d a) (d_max d) L HL) as [n [Hn Htop]].
    apply filter_In in Hn as [Hnid Hn]. apply andb_true_iff in Hn as [Hna Hni].
    exists n. split; [exact Hnid|].
    assert (Hw : r_wins d a n = true).
    { unfold r_wins. apply beats_wins.
      - unfold r_active in Hna. destruct (nbrs d n); [discriminate|discriminate].
      - intros m gm Hin. apply in_map_iff in Hin as [m' [E Hm]]. inversion E; subst m' gm. clear E.
        assert (Hne : m <> n) by (intros ->; eapply nbrs_irrefl; eauto).
        destruct (r_improving d a m) eqn:Im.
        + apply Htop; [|exact Hne]. apply filter_In. split; [eapply nbr_in_ids; eauto|].
          rewrite (active_nbr n m Hm), Im. reflexivity.
        + left. unfold r_improving in *. destruct (d_max d); lia. }
    unfold mgm_next, r_moves. rewrite Hna, Hw. simpl.
    intros E. apply (r_newv_improving_changes d W a n (dr n) Hni (wf_dom d n W Hnid)). now rewrite E.
  Qed.

  (* C04: a complete cycle in which no variable changes its value leaves every variable that takes
     part in cycles at a best response: no unilateral change improves the global cost *)
  Theorem mgm_no_move_1opt_lemma a dr :
    (forall v, In v (ids d) -> mgm_next d a dr v = a v) ->
    forall n x, In n (ids d) -> r_active d n = true -> In x (dom_of d n) ->
    better (d_max d) (gcost d (fupd a n x)) (gcost d a) = false.
  Proof.
    intros Hstill n x Hid Hact Hx.
    assert (Hni : r_improving d a n = false).
    { destruct (r_improving d a n) eqn:I; [|reflexivity]. exfalso.
      destruct (some_improving_moves a dr n Hid Hact I) as [k [Hk Hc]]. apply Hc. now apply Hstill. }
    pose proof (gcost_fupd d a n x W Hid) as G.
    destruct (r_best_spec d a n (wf_dom d n W Hid)) as (_ & _ & Hopt). specialize (Hopt x Hx).
    unfold r_improving, r_gain in Hni. unfold better, opt_le in *. destruct (d_max d); lia.
  Qed.

  (* a variable without neighbour holds, from the start, a best response as well *)
  Lemma fold_lex_best mx (f : Z -> Z) r : forall b0,
    let b := fold_left (fun b v => let t := (f v, v) in if lex_better mx t b then t else b) r b0 in
    (b = b0 \/ (In (snd b) r /\ fst b = f (snd b))) /\ opt_le mx (fst b) (fst b0) /\ (forall x, In x r -> opt_le mx (fst b) (f x)).
  Proof.
    induction r as [|y r IH]; intros b0; simpl.
    - repeat split; auto; try tauto. unfold opt_le. destruct mx; lia.
    - specialize (IH (if lex_better mx (f y, y) b0 then (f y, y) else b0)). simpl in IH.
      destruct IH as (H1 & H2 & H3).
      assert (Hb : opt_le mx (fst (if lex_better mx (f y, y) b0 then (f y, y) else b0)) (fst b0)
                   /\ opt_le mx (fst (if lex_better mx (f y, y) b0 then (f y, y) else b0)) (f y)).
      { unfold lex_better, opt_le. simpl. destruct mx; destruct b0 as [c0 v0]; simpl;
          match goal with |- context [if ?c then _ else _] => destruct c eqn:E end; simpl; lia. }
      destruct Hb as [Hb1 Hb2]. repeat split.
      + destruct H1 as [H1|[H1 H1']]; [|right; split; auto].
        destruct (lex_better mx (f y, y) b0); [|left; exact H1].
        right. rewrite H1. simpl. auto.
      + unfold opt_le in *. destruct mx; lia.
      + intros x [<-|Hx]; [unfold opt_le in *; destruct mx; lia|auto].
  Qed.

  Theorem mgm_isolated_1opt_lemma a n x :
    In n (ids d) -> nbrs d n = [] -> a n = fst (isolated_choice d n) -> In x (dom_of d n) ->
    better (d_max d) (gcost d (fupd a n x)) (gcost d a) = false.
  Proof.
    intros Hid Hnb Ha Hx. pose proof (gcost_fupd d a n x W Hid) as G.
    assert (Hopt : opt_le (d_max d) (own d a n (a n)) (own d a n x)).
    { rewrite Ha. unfold isolated_choice. destruct (cons_of d n) as [|c0 cs] eqn:Ec.
      - unfold own. rewrite Ec. simpl. unfold optimal_cost_value.
        destruct (dom_of d n) as [|y r] eqn:D; [contradiction|].
        destruct (fold_lex_best (d_max d) (vcost d n) r (vcost d n y, y)) as (H1 & H2 & H3). simpl in *.
        set (b := fold_left _ r (vcost d n y, y)) in *. clearbody b.
        assert (E : fst b = vcost d n (snd b)) by (destruct H1 as [->|[_ H1]]; auto).
        rewrite <- E. destruct Hx as [<-|Hx]; [exact H2|auto].
      - unfold compute_best_value.
        destruct (find_arg_optimal (d_max d) (own_cost d n []) (dom_of d n)) as [vals best] eqn:E. simpl.
        destruct (find_arg_optimal_spec _ _ _ _ _ E (wf_dom d n W Hid)) as (H1 & H2 & H3).
        assert (Eo : forall y, own d a n y = own_cost d n [] y).
        { intros y. rewrite (own_ext d (aget []) a n y); [reflexivity|]. rewrite Hnb. intros m []. }
        rewrite !Eo. destruct vals as [|v vs]; [tauto|]. simpl.
        destruct (H2 v (or_introl eq_refl)) as [-> _]. now apply H3. }
    unfold better, opt_le in *. destruct (d_max d); lia.
  Qed.
End OneOpt.

Lemma mgm_rounds_monotone_lemma d : wf_dcop d = true -> forall drs a,
  if d_max d then gcost d a <= gcost d (fold_left (mgm_next d) drs a)
  else gcost d (fold_left (mgm_next d) drs a) <= gcost d a.
Proof.
  intros W drs. induction drs as [|dr r IH]; intros a; simpl.
  - destruct (d_max d); lia.
  - specialize (IH (mgm_next d a dr)). pose proof (mgm_round_monotone_lemma d W a dr).
    destruct (d_max d); lia.
Qed.

(* ------------------------------------------------------------------ C07: node-local facts *)
(* a variable without neighbour selects its value and reports finished at start, sends nothing *)
Lemma mgm_isolated_finishes_l d stop orc n :
  nbrs d n = [] ->
  exists s, mgm_start d stop n (mgm_init orc n)
            = (s, [], [EvValue n (fst (isolated_choice d n)) (Some (snd (isolated_choice d n))) 0; EvFinished n 0])
            /\ m_fin s = 1 /\ m_value s = Some (fst (isolated_choice d n)).
Proof.
  intros H. unfold mgm_start. rewrite H. destruct (isolated_choice d n) as [v c]. simpl.
  eexists. split; [reflexivity|]. split; reflexivity.
Qed.

(* finished() is only ever called by _send_value when the cycle counter has reached stop_cycle *)
Lemma send_value_finished d stop n s s' o e k :
  send_value d stop n s = (s', o, e) -> In (EvFinished n k) e -> stop <> 0 /\ stop <= k /\ k = m_cycle s + 1 /\ o = [].
Proof.
  unfold send_value. destruct (negb (stop =? 0) && (stop <=? m_cycle s + 1)) eqn:E; intros H Hin; inversion H; subst.
  - destruct Hin as [Hin|[Hin|[]]]; inversion Hin; subst. apply andb_true_iff in E as [E1 E2].
    repeat split; try lia.
  - destruct Hin as [Hin|[]]. discriminate.
Qed.

(* the local invariant that rules out re-entrant processing of the postponed lists *)
Definition linv (s : mst) : Prop :=
  match m_state s with SValues => m_pv s = [] | SGain => m_pg s = [] | SStarting => True end.
Definition no_err (e : list mev) : Prop := forall n k, ~ In (EvErr n k) e.

Lemma no_err_app e1 e2 : no_err e1 -> no_err e2 -> no_err (e1 ++ e2).
Proof. intros H1 H2 n k Hin. apply in_app_or in Hin as [Hin|Hin]; [eapply H1|eapply H2]; eauto. Qed.

Lemma no_err_nil : no_err [].
Proof. intros n k []. Qed.

Section Local.
  Variable d : dcop.
  Variable stop : Z.
  Variable n : node.

  Lemma value_selection_props s v c s' o e : value_selection n s v c = (s', o, e) ->
    no_err e /\ m_pv s' = m_pv s /\ m_pg s' = m_pg s /\ m_state s' = m_state s.
  Proof.
    unfold value_selection. intros H. inversion H; subst; simpl. repeat split; auto.
    destruct (option_eqb Z.eqb (m_value s) (Some v)); intros a b Hin; [destruct Hin|destruct Hin as [Hin|[]]; discriminate].
  Qed.

  Lemma send_value_props s s' o e : send_value d stop n s = (s', o, e) ->
    no_err e /\ m_pv s' = m_pv s /\ m_pg s' = m_pg s /\ m_state s' = m_state s.
  Proof.
    unfold send_value. destruct (negb (stop =? 0) && (stop <=? m_cycle s + 1)); intros H; inversion H; subst; simpl;
      repeat split; auto; intros a b Hin; repeat (destruct Hin as [Hin|Hin]; try discriminate); auto.
  Qed.

  (* innermost level *)
  Lemma wfv2_props s s' o e : m_pv s = [] -> wfv2 d stop n s = (s', o, e) ->
    no_err e /\ m_pv s' = [] /\ m_pg s' = m_pg s /\ m_state s' = SValues.
  Proof.
    intros Hpv. unfold wfv2, andthen.
    destruct (send_value d stop n (set_state s SValues)) as [[s1 o1] e1] eqn:E.
    apply send_value_props in E as (H1 & H2 & H3 & H4). simpl in *.
    rewrite Hpv in H2. rewrite H2. unfold ret. intros H. inversion H; subst.
    repeat split; auto. rewrite app_nil_r. exact H1.
  Qed.

  Lemma wfg2_props s s' o e : m_pg s = [] -> wfg2 n s = (s', o, e) ->
    no_err e /\ m_pg s' = [] /\ m_pv s' = m_pv s /\ m_state s' = SGain.
  Proof.
    intros Hpg. unfold wfg2. rewrite Hpg. unfold ret. intros H. inversion H; subst. simpl.
    repeat split; auto. apply no_err_nil.
  Qed.

  (* a handler built on a continuation that keeps [m_pv = []] (resp. [m_pg = []]) *)
  Lemma handle_gain_props (wfv : mst -> res) (Q : mst -> Prop) s src g s' o e :
    (forall t t' o' e', m_pv t = m_pv s -> m_pg t = m_pg s -> wfv t = (t', o', e') -> no_err e' /\ Q t') ->
    Q (set_ng s (dict_set Z.eqb src g (m_ng s))) ->
    handle_gain d n wfv s src g = (s', o, e) -> no_err e /\ Q s'.
  Proof.
    intros Hw Hq. unfold handle_gain.
    destruct (zlen (m_ng (set_ng s (dict_set Z.eqb src g (m_ng s)))) =? zlen (nbrs d n)).
    2:{ unfold ret. intros H. inversion H; subst. split; [apply no_err_nil|exact Hq]. }
    set (s1 := set_ng s (dict_set Z.eqb src g (m_ng s))) in *.
    destruct (wins d n (m_gain s1) (m_ng s1)).
    - unfold andthen. destruct (value_selection n s1 (m_newv s1) (Some (cur_cost s1 - m_gain s1))) as [[s2 o2] e2] eqn:E.
      apply value_selection_props in E as (H1 & H2 & H3 & H4).
      destruct (wfv (set_nv (set_ng s2 []) [])) as [[s3 o3] e3] eqn:E3. intros H. inversion H; subst.
      apply Hw in E3 as [H5 H6]; [|simpl; rewrite H2; reflexivity|simpl; rewrite H3; reflexivity].
      split; [apply no_err_app; auto|exact H6].
    - unfold andthen, ret. destruct (wfv (set_nv (set_ng s1 []) [])) as [[s3 o3] e3] eqn:E3. intros H. inversion H; subst.
      apply Hw in E3 as [H5 H6]; [|reflexivity|reflexivity]. split; [exact H5|exact H6].
  Qed.
End Local.

Section Local2.
  Variable d : dcop.
  Variable stop : Z.
  Variable n : node.

  Lemma handle_value_props (wfg : mst -> res) (Q : mst -> Prop) s src v s' o e :
    (forall t t' o' e', m_pv t = m_pv s -> m_pg t = m_pg s -> wfg t = (t', o', e') -> no_err e' /\ Q t') ->
    Q (set_nv s (dict_set Z.eqb src v (m_nv s))) ->
    handle_value d n wfg s src v = (s', o, e) -> no_err e /\ Q s'.
  Proof.
    intros Hw Hq. unfold handle_value.
    destruct (zlen (m_nv (set_nv s (dict_set Z.eqb src v (m_nv s)))) =? zlen (nbrs d n)).
    2:{ unfold ret. intros H. inversion H; subst. split; [apply no_err_nil|exact Hq]. }
    repeat match goal with |- context [let '(a, b) := ?X in _] => destruct X as [? ?] end.
    unfold andthen.
    match goal with |- context [wfg ?t] => destruct (wfg t) as [[s3 o3] e3] eqn:E3 end.
    intros H. inversion H; subst. apply Hw in E3 as [H5 H6]; [|reflexivity|reflexivity].
    split; [exact H5|exact H6].
  Qed.

  Lemma fold_andthen_props (h : mst -> Z -> Z -> res) (Q : mst -> Prop) :
    (forall s a b s' o e, Q s -> h s a b = (s', o, e) -> no_err e /\ Q s') ->
    forall (l : list (Z * Z)) s0 o0 e0, no_err e0 -> Q s0 ->
    forall s' o e, fold_left (fun acc m => andthen acc (fun t => h t (fst m) (snd m))) l (s0, o0, e0) = (s', o, e) ->
    no_err e /\ Q s'.
  Proof.
    intros Hh. induction l as [|m l IH]; simpl; intros s0 o0 e0 He Hq s' o e H.
    - inversion H; subst. auto.
    - destruct (h s0 (fst m) (snd m)) as [[s1 o1] e1] eqn:E1. apply Hh in E1 as [H1 H2]; [|exact Hq].
      eapply IH; [| |exact H]; [apply no_err_app; auto|exact H2].
  Qed.

  Lemma hg1_props s src g s' o e : m_pv s = [] -> hg1 d stop n s src g = (s', o, e) -> no_err e /\ m_pv s' = [].
  Proof.
    intros Hpv. unfold hg1. apply (handle_gain_props d n _ (fun t => m_pv t = [])); [|exact Hpv].
    intros t t' o' e' Ht _ Hw. rewrite Hpv in Ht. apply wfv2_props in Hw; [tauto|exact Ht].
  Qed.

  Lemma hv1_props s src v s' o e : m_pg s = [] -> hv1 d n s src v = (s', o, e) -> no_err e /\ m_pg s' = [].
  Proof.
    intros Hpg. unfold hv1. apply (handle_value_props _ (fun t => m_pg t = [])); [|exact Hpg].
    intros t t' o' e' _ Ht Hw. rewrite Hpg in Ht. apply wfg2_props in Hw; [tauto|exact Ht].
  Qed.

  Lemma wfg1_props s s' o e : m_pv s = [] -> wfg1 d stop n s = (s', o, e) -> no_err e /\ m_pv s' = [] /\ m_pg s' = [].
  Proof.
    intros Hpv. unfold wfg1, wfg_gen, andthen, ret.
    match goal with |- context [fold_left ?f ?l ?i] => destruct (fold_left f l i) as [[s1 o1] e1] eqn:E end.
    eapply (fold_andthen_props (hg1 d stop n) (fun t => m_pv t = [])) in E;
      [|intros; eapply hg1_props; eauto|apply no_err_nil|exact Hpv].
    destruct E as [H1 H2]. intros H. inversion H; subst. simpl. rewrite app_nil_r. auto.
  Qed.

  Lemma wfv1_props s s' o e : m_pg s = [] -> wfv1 d stop n s = (s', o, e) -> no_err e /\ m_pv s' = [] /\ m_pg s' = [].
  Proof.
    intros Hpg. unfold wfv1, wfv_gen, andthen, ret.
    destruct (send_value d stop n (set_state s SValues)) as [[s0 o0] e0] eqn:E0.
    apply send_value_props in E0 as (A1 & A2 & A3 & A4). simpl in A3.
    match goal with |- context [fold_left ?f ?l ?i] => destruct (fold_left f l i) as [[s1 o1] e1] eqn:E end.
    eapply (fold_andthen_props (hv1 d n) (fun t => m_pg t = [])) in E;
      [|intros; eapply hv1_props; eauto|exact A1|congruence].
    destruct E as [H1 H2]. intros H. inversion H; subst. simpl. rewrite app_nil_r. auto.
  Qed.

  Lemma linv_of_empty s : m_pv s = [] -> m_pg s = [] -> linv s.
  Proof. unfold linv. intros. destruct (m_state s); auto. Qed.

  Lemma mgm_recv_linv s src m s' o e : linv s -> mgm_recv d stop n s src m = (s', o, e) -> no_err e /\ linv s'.
  Proof.
    intros L. unfold mgm_recv. destruct m as [v|g].
    - destruct (m_state s) eqn:St.
      + unfold ret. intros H. inversion H; subst. split; [apply no_err_nil|]. unfold linv. simpl. now rewrite St.
      + unfold hv0. apply (handle_value_props _ linv).
        * intros t t' o' e' Ht _ Hw. unfold linv in L. rewrite St in L. rewrite L in Ht.
          apply wfg1_props in Hw; [|exact Ht]. destruct Hw as (H1 & H2 & H3). split; [exact H1|now apply linv_of_empty].
        * unfold linv in *. simpl. rewrite St in *. exact L.
      + unfold ret. intros H. inversion H; subst. split; [apply no_err_nil|]. unfold linv in *. simpl. now rewrite St in *.
    - destruct (m_state s) eqn:St.
      + unfold ret. intros H. inversion H; subst. split; [apply no_err_nil|]. unfold linv. simpl. now rewrite St.
      + unfold ret. intros H. inversion H; subst. split; [apply no_err_nil|]. unfold linv in *. simpl. now rewrite St in *.
      + unfold hg0. apply (handle_gain_props d n _ linv).
        * intros t t' o' e' _ Ht Hw. unfold linv in L. rewrite St in L. rewrite L in Ht.
          apply wfv1_props in Hw; [|exact Ht]. destruct Hw as (H1 & H2 & H3). split; [exact H1|now apply linv_of_empty].
        * unfold linv in *. simpl. rewrite St in *. exact L.
  Qed.

  Lemma mgm_start_linv orc s' o e : mgm_start d stop n (mgm_init orc n) = (s', o, e) -> no_err e /\ linv s'.
  Proof.
    unfold mgm_start. destruct (nbrs d n) as [|y r].
    - destruct (isolated_choice d n) as [v c]. unfold andthen. simpl. intros H. inversion H; subst. split.
      + intros a b Hin. repeat (destruct Hin as [Hin|Hin]; try discriminate). auto.
      + unfold linv. simpl. exact I.
    - repeat match goal with |- context [let '(a, b) := ?X in _] => destruct X as [? ?] end.
      unfold andthen.
      match goal with |- context [value_selection n ?t ?v ?c] => destruct (value_selection n t v c) as [[s1 o1] e1] eqn:E1 end.
      pose proof E1 as E1'. apply value_selection_props in E1 as (H1 & H2 & H3 & H4).
      destruct (wfv1 d stop n s1) as [[s2 o2] e2] eqn:E2. intros H. inversion H; subst.
      apply wfv1_props in E2; [|rewrite H3; reflexivity]. destruct E2 as (A1 & A2 & A3).
      split; [apply no_err_app; auto|now apply linv_of_empty].
  Qed.
End Local2.

(* lifted to every schedule of the asynchronous network *)
Section NetLift.
  Variable d : dcop.
  Variable stop : Z.
  Variable orc : node -> list Z.
  Let P := mgm_proto d stop orc.

  Definition cinv (cf : config mst mmsg) : Prop :=
    forall n, if w_running (nodes cf n) then linv (w_st (nodes cf n)) else w_st (nodes cf n) = mgm_init orc n.

  Lemma step_cinv cf a : cinv cf -> cinv (fst (step P cf a)) /\ no_err (snd (step P cf a)).
  Proof.
    intros C. destruct a as [k|s t]; simpl.
    - pose proof (C k) as Ck. destruct (w_running (nodes cf k)) eqn:R; [split; [exact C|apply no_err_nil]|].
      rewrite Ck. destruct (mgm_start d stop k (mgm_init orc k)) as [[st' outs] evs] eqn:E. simpl.
      apply mgm_start_linv in E as [E1 E2]. split; [|exact E1].
      intros m. simpl. unfold upd_node. destruct (m =? k) eqn:Em; [simpl; exact E2|apply C].
    - destruct (chan cf s t) as [|m q] eqn:Ch; [split; [exact C|apply no_err_nil]|].
      pose proof (C t) as Ct. destruct (w_running (nodes cf t)) eqn:R.
      + destruct (mgm_recv d stop t (w_st (nodes cf t)) s m) as [[st' outs] evs] eqn:E. simpl.
        apply mgm_recv_linv in E as [E1 E2]; [|exact Ct]. split; [|exact E1].
        intros k. simpl. unfold upd_node. destruct (k =? t) eqn:Ek; [simpl; exact E2|apply C].
      + simpl. split; [|apply no_err_nil].
        intros k. simpl. unfold upd_node. destruct (k =? t) eqn:Ek; [apply Z.eqb_eq in Ek; subst k; simpl; exact Ct|apply C].
  Qed.

  Lemma exec_cinv sched : forall cf, cinv cf -> cinv (fst (exec P cf sched)) /\ no_err (snd (exec P cf sched)).
  Proof.
    induction sched as [|a r IH]; simpl; intros cf C; [split; [exact C|apply no_err_nil]|].
    destruct (step_cinv cf a C) as [C1 N1]. destruct (step P cf a) as [cf1 e1]. simpl in *.
    destruct (IH cf1 C1) as [C2 N2]. destruct (exec P cf1 r) as [cf2 e2]. simpl in *.
    split; [exact C2|apply no_err_app; auto].
  Qed.

  (* C07 (safety, MGM): under EVERY schedule of starts and FIFO deliveries the handlers never reach
     the re-entrant processing of a postponed list (the only error branch of the model), and
     every started computation keeps its postponed lists consistent with its state *)
  Theorem mgm_no_reentrancy_lemma sched :
    no_err (snd (run P sched)) /\ cinv (fst (run P sched)).
  Proof.
    unfold run. destruct (exec_cinv sched (init P)) as [C N]; [|split; assumption].
    intros n. simpl. reflexivity.
  Qed.
End NetLift.
