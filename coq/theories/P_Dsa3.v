(* P_Dsa3.v -- the global barrier invariant of the asynchronous DSA model (M_Dsa.dsa_proto over
   Net.v) under EVERY schedule and the full C07 statement for DSA: dsa_terminates_k, no deadlock,
   finished exactly once with cycle counter k, no error event.  Same structure as P_Mgm3*.v, one
   phase per cycle, no payloads (DSA is not part of C03/C04): per ordered pair of neighbours (a,b)
   the number of messages in b's pre-start buffer and channel (a,b) is what a has sent minus what
   b has consumed (cycle counter + current_cycle entry + next_cycle entry). *)
From Coq Require Import ZArith List Bool Lia ZifyBool Arith.
From PyDcop Require Import Base Net M_Mgm P_Mgm M_Dsa P_Dsa P_Mgm3 P_Mgm3c P_Mgm3b.
Import ListNotations.
Open Scope Z_scope.

Local Notation length := List.length.

Lemma mem_key_kin a (l : list (Z * Z)) : mem_key Z.eqb a l = kin a l.
Proof.
  unfold mem_key, kin, keys, zmem. induction l as [|[k v] r IH]; simpl; [reflexivity|].
  destruct (a =? k); simpl; auto.
Qed.

(* ------------------------------------------------------------------ local: evaluate_cycle *)
Section DLocal.
  Variable d : dcop.
  Variable stop variant prob : Z.
  Variable fovc : bool.
  Variable n : node.
  Notation nb := (nbrs d n).

  Definition keeps (s s1 : dst) : Prop :=
    ds_cycle s1 = ds_cycle s /\ ds_cur s1 = ds_cur s /\ ds_nxt s1 = ds_nxt s /\
    ds_stopped s1 = ds_stopped s /\ ds_held s1 = ds_held s /\ ds_fin s1 = ds_fin s.
  Definition vev (e : list mev) : Prop := forall x, In x e -> exists v c k, x = EvValue n v c k.

  Lemma keeps_refl s : keeps s s.
  Proof. repeat split. Qed.
  Lemma vev_nil : vev [].
  Proof. intros x []. Qed.

  Lemma dvs_keep s v c : keeps s (fst (dvalue_selection n s v c)) /\ vev (snd (dvalue_selection n s v c)).
  Proof.
    unfold dvalue_selection. simpl. split; [repeat split|].
    destruct (option_eqb Z.eqb (ds_value s) (Some v)); [apply vev_nil|].
    intros x [<-|[]]. eauto.
  Qed.

  Lemma pc_keep s best vals :
    keeps s (fst (probabilistic_change prob n s best vals)) /\ vev (snd (probabilistic_change prob n s best vals)).
  Proof.
    unfold probabilistic_change. destruct (draw (ds_orc s)) as [k o1]. destruct (k <? prob).
    - destruct (draw o1) as [x o2].
      match goal with |- context [dvalue_selection n ?t ?v ?c] => destruct (dvs_keep t v c) as [H1 H2] end.
      split; [|exact H2]. unfold keeps in *. simpl in *. tauto.
    - simpl. split; [repeat split|apply vev_nil].
  Qed.

  Definition ec_fin (s : dst) : bool := negb (stop =? 0) && (stop <=? ds_cycle s + 1).

  Lemma evaluate_cycle_full s s' o e :
    length (ds_cur s) = length nb ->
    evaluate_cycle d stop variant prob fovc n s = (s', o, e) ->
    ds_cycle s' = ds_cycle s + 1 /\ ds_cur s' = ds_nxt s /\ ds_nxt s' = [] /\ ds_held s' = ds_held s /\
    ds_stopped s' = (ec_fin s || ds_stopped s) /\
    ds_fin s' = (if ec_fin s then ds_fin s + 1 else ds_fin s) /\
    (exists v, o = if ec_fin s then [] else bcast nb (MValue v)) /\
    (exists e1, vev e1 /\ e = e1 ++ (if ec_fin s then [EvCycle n (ds_cycle s + 1); EvFinished n (ds_cycle s + 1)]
                                     else [EvCycle n (ds_cycle s + 1)])).
  Proof.
    intros Hlen. unfold evaluate_cycle. rewrite zlen_eqb, Hlen, Nat.eqb_refl.
    destruct (find_arg_optimal _ _ _) as [vals best].
    match goal with |- context [let '(a, b) := ?X in _] => set (X0 := X) end.
    assert (HK : keeps s (fst X0) /\ vev (snd X0)).
    { unfold X0. destruct (0 <? Z.abs _); [apply pc_keep|].
      destruct (variant =? 0); [split; [apply keeps_refl|apply vev_nil]|].
      destruct (variant =? 1).
      - destruct (exists_violated _ _ _ _); [apply pc_keep|split; [apply keeps_refl|apply vev_nil]].
      - apply pc_keep. }
    destruct X0 as [s1 e1]. simpl in HK. destruct HK as [(K1 & K2 & K3 & K4 & K5 & K6) HV].
    unfold ec_fin. rewrite K1.
    destruct (negb (stop =? 0) && (stop <=? ds_cycle s + 1)); intros H; inversion H; subst; simpl;
      (split; [lia|]); (split; [congruence|]); (split; [reflexivity|]); (split; [congruence|]);
      (split; [first [reflexivity|exact K4]|]); (split; [congruence|]);
      (split; [first [exists 0; reflexivity|eexists; reflexivity]|exists e1; split; [exact HV|reflexivity]]).
  Qed.


  Lemma evaluate_cycle_part s : length (ds_cur s) <> length nb ->
    evaluate_cycle d stop variant prob fovc n s = (s, [], []).
  Proof.
    intros Hlen. unfold evaluate_cycle. rewrite zlen_eqb.
    destruct (Nat.eqb_spec (length (ds_cur s)) (length nb)); [contradiction|reflexivity].
  Qed.
End DLocal.

(* ------------------------------------------------------------------ the invariant *)
Section DGlobal.
  Variable d : dcop.
  Variable stop variant prob : Z.
  Variable fovc : bool.
  Variable orc : node -> list Z.
  Hypothesis Hstop : 0 <= stop.
  Notation P := (dsa_proto d stop variant prob fovc orc).
  Notation config := (config dst mmsg).
  Notation nbr := (nbrs d).
  Notation fin_cycle := (fin_cycle d stop).

  Definition dstt (cf : config) n := w_st (nodes cf n).
  Definition drn (cf : config) n := w_running (nodes cf n).
  Definition dcyc (s : dst) : nat := Z.to_nat (ds_cycle s).
  Definition dfb (s : dst) : nat := if ds_stopped s then 1%nat else 0%nat.
  Definition dnsent (cf : config) (a : node) : nat :=
    if drn cf a then (dcyc (dstt cf a) + 1 - dfb (dstt cf a))%nat else 0%nat.
  Definition dacc (cf : config) (b a : node) : nat :=
    (dcyc (dstt cf b) + kb a (ds_cur (dstt cf b)) + kb a (ds_nxt (dstt cf b)))%nat.
  Definition dpipe (cf : config) (a b : node) : list mmsg := from a (w_held (nodes cf b)) ++ chan cf a b.
  Definition isval (m : mmsg) : Prop := exists v, m = MValue v.

  Record dgood (b : node) (s : dst) : Prop := {
    dg_cyc : 0 <= ds_cycle s;
    dg_stop : stop <> 0 -> ds_cycle s <= stop;
    dg_stopped : ds_stopped s = negb (stop =? 0) && (stop <=? ds_cycle s);
    dg_fin : ds_fin s = Z.of_nat (dfb s);
    dg_finst : ds_stopped s = true -> ds_cur s = [] /\ ds_nxt s = [];
    dg_held : ds_held s = [];
    dg_cur : NoDup (keys (ds_cur s)) /\ incl (keys (ds_cur s)) (nbr b) /\ (length (ds_cur s) < length (nbr b))%nat;
    dg_nxt : NoDup (keys (ds_nxt s)) /\ incl (keys (ds_nxt s)) (keys (ds_cur s))
  }.

  Definition DPI (accf : node -> node -> nat) (ns : node -> nat) (pp : node -> node -> list mmsg) : Prop :=
    forall a b, In a (nbr b) ->
      length (pp a b) = (ns a - accf b a)%nat /\ (accf b a <= ns a)%nat /\ Forall isval (pp a b).

  Record DInv (cf : config) : Prop := {
    D_idle : forall b, drn cf b = false -> dstt cf b = dsa_init orc b;
    D_held : forall b, drn cf b = true -> w_held (nodes cf b) = [];
    D_iso : forall b, drn cf b = true -> nbr b = [] -> ds_fin (dstt cf b) = 1 /\ ds_cycle (dstt cf b) = 0;
    D_good : forall b, drn cf b = true -> nbr b <> [] -> dgood b (dstt cf b);
    D_pipe : DPI (dacc cf) (dnsent cf) (dpipe cf);
    D_non : forall a b, ~ In a (nbr b) -> dpipe cf a b = []
  }.

  Lemma DPI_deliver accf ns pp accf' ns' pp' a0 b0 m q L :
    DPI accf ns pp -> In a0 (nbr b0) -> pp a0 b0 = m :: q -> Forall isval L ->
    (forall a b, In a (nbr b) -> accf' b a = (accf b a + (if Z.eqb b b0 && Z.eqb a a0 then 1 else 0))%nat) ->
    (forall a b, In a (nbr b) -> ns' a = (ns a + (if Z.eqb a b0 then length L else 0))%nat) ->
    (forall a b, In a (nbr b) ->
       pp' a b = (if Z.eqb a a0 && Z.eqb b b0 then q else pp a b) ++ (if Z.eqb a b0 then L else [])) ->
    DPI accf' ns' pp'.
  Proof.
    intros HP Hab0 Hhd HL Hacc Hns Hpp a b Hab.
    rewrite (Hacc a b Hab), (Hns a b Hab), (Hpp a b Hab).
    destruct (HP a b Hab) as (Hlen & Hle & Hv).
    assert (Hne0 : a0 <> b0) by (intros ->; eapply nbrs_irrefl; eauto).
    destruct (Z.eqb_spec b b0) as [->|Hb]; destruct (Z.eqb_spec a a0) as [->|Ha]; simpl.
    - destruct (Z.eqb_spec a0 b0) as [|_]; [contradiction|]. rewrite app_nil_r, Nat.add_0_r.
      rewrite Hhd in Hlen, Hv. simpl in Hlen. inversion Hv; subst. split; [lia|]. split; [lia|assumption].
    - assert (Hab' : a <> b0) by (intros ->; eapply nbrs_irrefl; eauto).
      destruct (Z.eqb_spec a b0) as [|_]; [contradiction|]. rewrite app_nil_r, !Nat.add_0_r. auto.
    - destruct (Z.eqb_spec a0 b0) as [|_]; [contradiction|]. rewrite app_nil_r, !Nat.add_0_r. auto.
    - rewrite Nat.add_0_r. destruct (Z.eqb_spec a b0) as [->|Hab'].
      + rewrite app_length. split; [lia|]. split; [lia|]. apply Forall_app. auto.
      + rewrite app_nil_r, Nat.add_0_r. auto.
  Qed.

  Lemma DPI_send accf ns pp accf' ns' pp' b0 L :
    DPI accf ns pp -> Forall isval L ->
    (forall a b, In a (nbr b) -> accf' b a = accf b a) ->
    (forall a b, In a (nbr b) -> ns' a = (ns a + (if Z.eqb a b0 then length L else 0))%nat) ->
    (forall a b, In a (nbr b) -> pp' a b = pp a b ++ (if Z.eqb a b0 then L else [])) ->
    DPI accf' ns' pp'.
  Proof.
    intros HP HL Hacc Hns Hpp a b Hab.
    rewrite (Hacc a b Hab), (Hns a b Hab), (Hpp a b Hab).
    destruct (HP a b Hab) as (Hlen & Hle & Hv).
    destruct (Z.eqb_spec a b0) as [->|Hab'].
    - rewrite app_length. split; [lia|]. split; [lia|]. apply Forall_app. auto.
    - rewrite app_nil_r, Nat.add_0_r. auto.
  Qed.

  Ltac zeq x y := destruct (Z.eqb_spec x y); try subst; try contradiction; try congruence.

  Lemma dupd_same (f : node -> nwrap dst mmsg) n w : upd_node f n w n = w.
  Proof. unfold upd_node. rewrite Z.eqb_refl. reflexivity. Qed.
  Lemma dupd_other (f : node -> nwrap dst mmsg) n w x : x <> n -> upd_node f n w x = f x.
  Proof. unfold upd_node. intros H. destruct (Z.eqb_spec x n); [contradiction|reflexivity]. Qed.

  Lemma dnsent_good b s : dgood b s ->
    (stop <> 0 -> (dcyc s + 1 - dfb s <= Z.to_nat stop)%nat) /\ (dfb s <= 1)%nat.
  Proof.
    intros G. split; [|unfold dfb; destruct (ds_stopped s); lia].
    intros Hs. pose proof (dg_cyc b s G). pose proof (dg_stop b s G Hs). pose proof (dg_stopped b s G) as E.
    unfold dcyc, dfb. destruct (ds_stopped s); [lia|].
    symmetry in E. apply andb_false_iff in E as [E|E].
    - apply negb_false_iff, Z.eqb_eq in E. congruence.
    - apply Z.leb_gt in E. lia.
  Qed.

  Lemma dnsent_bound cf a : DInv cf -> stop <> 0 -> nbr a <> [] -> (dnsent cf a <= Z.to_nat stop)%nat.
  Proof.
    intros HI Hs Ha. unfold dnsent. destruct (drn cf a) eqn:Hr; [|lia].
    destruct (dnsent_good a (dstt cf a)) as [H _]; [now apply (D_good cf HI)|]. now apply H.
  Qed.

  Lemma dhead_facts cf a0 b0 m q :
    DInv cf -> drn cf b0 = true -> chan cf a0 b0 = m :: q ->
    let s := dstt cf b0 in
    In a0 (nbr b0) /\ dgood b0 s /\ ds_stopped s = false /\ kin a0 (ds_nxt s) = false /\
    (exists v, m = MValue v) /\ (dacc cf b0 a0 < dnsent cf a0)%nat.
  Proof.
    intros HI Hr Hc s.
    assert (Hheld := D_held cf HI b0 Hr).
    assert (Hp : dpipe cf a0 b0 = m :: q) by (unfold dpipe; rewrite Hheld, Hc; reflexivity).
    assert (Hnb : In a0 (nbr b0)).
    { destruct (in_dec Z.eq_dec a0 (nbr b0)) as [H|H]; auto.
      rewrite (D_non cf HI a0 b0 H) in Hp. discriminate. }
    assert (Hact : nbr b0 <> []) by (intros Hc'; rewrite Hc' in Hnb; contradiction).
    pose proof (D_good cf HI b0 Hr Hact) as G. fold s in G.
    destruct (D_pipe cf HI a0 b0 Hnb) as (Hlen & Hle & Hv). rewrite Hp in Hlen, Hv. simpl in Hlen.
    assert (Hlt : (dacc cf b0 a0 < dnsent cf a0)%nat) by lia.
    pose proof (nbrs_sym d b0 a0 Hnb) as Hsym.
    destruct (D_pipe cf HI b0 a0 Hsym) as (_ & Hle2 & _).
    assert (H1 : (dnsent cf a0 <= dcyc (dstt cf a0) + 1)%nat) by (unfold dnsent; destruct (drn cf a0); lia).
    assert (H2 : (dcyc (dstt cf a0) <= dacc cf a0 b0)%nat) by (unfold dacc; lia).
    assert (Hnsb : dnsent cf b0 = (dcyc s + 1 - dfb s)%nat) by (unfold dnsent; rewrite Hr; reflexivity).
    destruct (dnsent_good b0 s G) as [Hbound Hfb].
    assert (Hacc : dacc cf b0 a0 = (dcyc s + kb a0 (ds_cur s) + kb a0 (ds_nxt s))%nat) by reflexivity.
    pose proof (kb_le a0 (ds_cur s)) as K1. pose proof (kb_le a0 (ds_nxt s)) as K2.
    assert (Hfin : ds_stopped s = false).
    { destruct (ds_stopped s) eqn:F; auto. exfalso.
      pose proof (dg_stopped b0 s G) as E. rewrite F in E. symmetry in E.
      apply andb_true_iff in E as [E1 E2]. apply negb_true_iff, Z.eqb_neq in E1. apply Z.leb_le in E2.
      assert (Ha0 : nbr a0 <> []) by (intros Hc'; rewrite Hc' in Hsym; contradiction).
      pose proof (dnsent_bound cf a0 HI E1 Ha0) as Hb.
      pose proof (dg_stop b0 s G E1). unfold dcyc in Hacc. lia. }
    assert (Hfb0 : dfb s = 0%nat) by (unfold dfb; rewrite Hfin; reflexivity).
    assert (Hnxt : kin a0 (ds_nxt s) = false).
    { destruct (kin a0 (ds_nxt s)) eqn:Ep; auto. exfalso.
      assert (Ht : kin a0 (ds_cur s) = true).
      { apply kin_In. apply (proj2 (dg_nxt b0 s G)). now apply kin_In. }
      unfold kb in Hacc. rewrite Ep, Ht in Hacc. lia. }
    split; [exact Hnb|]. split; [exact G|]. split; [exact Hfin|]. split; [exact Hnxt|].
    split; [|exact Hlt]. inversion Hv; subst. assumption.
  Qed.

  (* a running computation b0 handles the head of (a0,b0) *)
  Lemma DInv_deliver_run cf a0 b0 m q s' L :
    DInv cf -> drn cf b0 = true -> chan cf a0 b0 = m :: q -> In a0 (nbr b0) ->
    (forall a, In a (nbr b0) ->
       (dcyc s' + kb a (ds_cur s') + kb a (ds_nxt s') = dacc cf b0 a + (if Z.eqb a a0 then 1 else 0))%nat) ->
    (dcyc s' + 1 - dfb s' = dnsent cf b0 + length L)%nat ->
    Forall isval L ->
    dgood b0 s' ->
    DInv (mkConfig (upd_node (nodes cf) b0 (mkWrap true (w_held (nodes cf b0)) s'))
                   (send_all (upd_chan (chan cf) a0 b0 q) b0 (outs_of (nbr b0) L))).
  Proof.
    intros HI Hr Hc Hnb Hacc Hns HL G.
    set (cf' := mkConfig _ _).
    assert (Hheld := D_held cf HI b0 Hr).
    assert (Hst : forall x, x <> b0 -> dstt cf' x = dstt cf x).
    { intros x Hx. unfold dstt, cf'; simpl. rewrite dupd_other; auto. }
    assert (Hst0 : dstt cf' b0 = s') by (unfold dstt, cf'; simpl; rewrite dupd_same; reflexivity).
    assert (Hrn : forall x, drn cf' x = drn cf x).
    { intros x. unfold drn, cf'; simpl. destruct (Z.eq_dec x b0) as [->|Hx].
      - rewrite dupd_same. simpl. symmetry. exact Hr.
      - rewrite dupd_other; auto. }
    assert (Hhd : forall x, w_held (nodes cf' x) = w_held (nodes cf x)).
    { intros x. unfold cf'; simpl. destruct (Z.eq_dec x b0) as [->|Hx].
      - rewrite dupd_same. reflexivity.
      - rewrite dupd_other; auto. }
    assert (Hact : nbr b0 <> []) by (intros Hc'; rewrite Hc' in Hnb; contradiction).
    assert (Hpipe : forall a b, dpipe cf' a b =
               (if Z.eqb a a0 && Z.eqb b b0 then q else dpipe cf a b)
               ++ (if Z.eqb a b0 then to_y b (outs_of (nbr b0) L) else [])).
    { intros a b. unfold dpipe. rewrite Hhd. unfold cf'; simpl. rewrite send_all_spec. unfold upd_chan.
      destruct (Z.eqb_spec a a0) as [->|Ha]; destruct (Z.eqb_spec b b0) as [->|Hb]; simpl.
      - rewrite Hheld. simpl. destruct (Z.eqb a0 b0); [reflexivity|rewrite app_nil_r; reflexivity].
      - destruct (Z.eqb a0 b0); [rewrite app_assoc; reflexivity|rewrite app_nil_r; reflexivity].
      - destruct (Z.eqb a b0); [rewrite app_assoc; reflexivity|rewrite app_nil_r; reflexivity].
      - destruct (Z.eqb a b0); [rewrite app_assoc; reflexivity|rewrite app_nil_r; reflexivity]. }
    constructor.
    - intros b Hb. rewrite Hrn in Hb. assert (b <> b0) by congruence.
      rewrite Hst; auto. apply (D_idle cf HI); auto.
    - intros b Hb. rewrite Hhd. apply (D_held cf HI). now rewrite <- Hrn.
    - intros b Hb Hiso. assert (b <> b0) by congruence. rewrite Hst; auto. apply (D_iso cf HI); auto.
      now rewrite <- Hrn.
    - intros b Hb Hb2. destruct (Z.eq_dec b b0) as [->|Hne].
      + rewrite Hst0. exact G.
      + rewrite Hst; auto. apply (D_good cf HI); auto. now rewrite <- Hrn.
    - apply (DPI_deliver (dacc cf) (dnsent cf) (dpipe cf) _ _ _ a0 b0 m q L).
      + apply (D_pipe cf HI).
      + exact Hnb.
      + unfold dpipe. rewrite Hheld, Hc. reflexivity.
      + exact HL.
      + intros a b Hab. unfold dacc. destruct (Z.eqb_spec b b0) as [->|Hb]; simpl.
        * rewrite Hst0. rewrite (Hacc a Hab). reflexivity.
        * rewrite Hst; auto.
      + intros a b _. unfold dnsent. rewrite Hrn. destruct (Z.eqb_spec a b0) as [->|Ha].
        * rewrite Hst0, Hr. rewrite Hns. unfold dnsent. rewrite Hr. reflexivity.
        * rewrite Hst; auto.
      + intros a b Hab. rewrite Hpipe. f_equal.
        destruct (Z.eqb_spec a b0) as [->|Ha]; auto.
        rewrite to_y_outs_in; auto; [apply nbrs_nodup|now apply nbrs_sym].
    - intros a b Hab. rewrite Hpipe.
      assert (Hq0 : (if Z.eqb a a0 && Z.eqb b b0 then q else dpipe cf a b) = dpipe cf a b).
      { destruct (Z.eqb_spec a a0) as [->|Ha]; destruct (Z.eqb_spec b b0) as [->|Hb]; simpl; auto.
        contradiction. }
      rewrite Hq0, (D_non cf HI a b Hab). simpl.
      destruct (Z.eqb_spec a b0) as [->|Ha]; auto.
      apply to_y_outs_out. intros Hc'. apply Hab. now apply nbrs_sym.
  Qed.

  Lemma DInv_init : DInv (init P).
  Proof.
    constructor; unfold dstt, drn, dpipe; simpl.
    - reflexivity.
    - discriminate.
    - discriminate.
    - discriminate.
    - intros a b _. unfold dacc, dnsent, drn, dstt, dpipe, dcyc, kb. simpl. split; [reflexivity|]. split; [lia|constructor].
    - reflexivity.
  Qed.

  Lemma DInv_deliver_idle cf a0 b0 m q :
    DInv cf -> drn cf b0 = false -> chan cf a0 b0 = m :: q ->
    DInv (mkConfig (upd_node (nodes cf) b0
                     (mkWrap false (w_held (nodes cf b0) ++ [(a0, m)]) (w_st (nodes cf b0))))
                   (upd_chan (chan cf) a0 b0 q)).
  Proof.
    intros HI Hr Hc.
    set (cf' := mkConfig _ _).
    assert (Hst : forall x, dstt cf' x = dstt cf x).
    { intros x. unfold dstt, cf'; simpl. unfold upd_node. zeq x b0; reflexivity. }
    assert (Hrn : forall x, drn cf' x = drn cf x).
    { intros x. unfold drn, cf'; simpl. unfold upd_node. zeq x b0; simpl; auto. }
    assert (Hpipe : forall a b, dpipe cf' a b = dpipe cf a b).
    { intros a b. unfold dpipe, cf'; simpl. unfold upd_node, upd_chan.
      destruct (Z.eqb b b0) eqn:Eb; simpl.
      - apply Z.eqb_eq in Eb; subst b.
        rewrite from_app, from_single, <- app_assoc, andb_true_r.
        rewrite (Z.eqb_sym a0 a).
        destruct (Z.eqb a a0) eqn:Ea; simpl.
        + apply Z.eqb_eq in Ea; subst a. rewrite Hc. reflexivity.
        + reflexivity.
      - rewrite andb_false_r. reflexivity. }
    assert (Hacc : forall a b, dacc cf' b a = dacc cf b a) by (intros; unfold dacc; rewrite Hst; reflexivity).
    assert (Hns : forall a, dnsent cf' a = dnsent cf a) by (intros; unfold dnsent; rewrite Hrn, Hst; reflexivity).
    constructor.
    - intros b. rewrite Hrn, Hst. apply (D_idle cf HI).
    - intros b Hb. rewrite Hrn in Hb. unfold cf'; simpl. unfold upd_node.
      destruct (Z.eqb b b0) eqn:Eb; [apply Z.eqb_eq in Eb; subst; congruence|].
      apply (D_held cf HI); auto.
    - intros b. rewrite Hrn, Hst. apply (D_iso cf HI).
    - intros b. rewrite Hrn, Hst. apply (D_good cf HI).
    - intros a b Hab. rewrite Hpipe, Hacc, Hns. apply (D_pipe cf HI); auto.
    - intros a b Hab. rewrite Hpipe. apply (D_non cf HI); auto.
  Qed.

  Lemma DInv_start cf n s' L :
    DInv cf -> drn cf n = false -> Forall isval L ->
    (nbr n = [] -> L = [] /\ ds_fin s' = 1 /\ ds_cycle s' = 0) ->
    (nbr n <> [] -> dgood n s' /\ dcyc s' = 0%nat /\ ds_cur s' = [] /\ ds_nxt s' = [] /\
                    (1 - dfb s' = length L)%nat) ->
    DInv (mkConfig (upd_node (nodes cf) n (mkWrap true [] s'))
                   (reinject_all (send_all (chan cf) n (outs_of (nbr n) L)) n (reinject (w_held (nodes cf n))))).
  Proof.
    intros HI Hr HL Hiso Hactive.
    set (cf' := mkConfig _ _).
    assert (Hst : forall x, x <> n -> dstt cf' x = dstt cf x).
    { intros x Hx. unfold dstt, cf'; simpl. rewrite dupd_other; auto. }
    assert (Hstn : dstt cf' n = s') by (unfold dstt, cf'; simpl; rewrite dupd_same; reflexivity).
    assert (Hrn : forall x, x <> n -> drn cf' x = drn cf x).
    { intros x Hx. unfold drn, cf'; simpl. rewrite dupd_other; auto. }
    assert (Hrnn : drn cf' n = true) by (unfold drn, cf'; simpl; rewrite dupd_same; reflexivity).
    assert (Hpipe : forall a b, dpipe cf' a b = dpipe cf a b ++ (if Z.eqb a n then to_y b (outs_of (nbr n) L) else [])).
    { intros a b. unfold dpipe, cf'; simpl. rewrite reinject_all_spec, send_all_spec.
      unfold reinject, upd_node.
      destruct (Z.eqb b n) eqn:Eb.
      - apply Z.eqb_eq in Eb; subst b. simpl. unfold from at 1; simpl.
        destruct (Z.eqb a n) eqn:Ea.
        + rewrite <- app_assoc. reflexivity.
        + rewrite app_nil_r. reflexivity.
      - destruct (Z.eqb a n) eqn:Ea.
        + rewrite app_assoc. reflexivity.
        + rewrite app_nil_r. reflexivity. }
    assert (Hacc0 : forall a, dacc cf n a = 0%nat).
    { intros a. unfold dacc. rewrite (D_idle cf HI n Hr). reflexivity. }
    assert (Hns0 : dnsent cf n = 0%nat) by (unfold dnsent; rewrite Hr; reflexivity).
    constructor.
    - intros b Hb. destruct (Z.eq_dec b n) as [->|Hbn]; [congruence|].
      rewrite Hrn in Hb; auto. rewrite Hst; auto. apply (D_idle cf HI); auto.
    - intros b Hb. unfold cf'; simpl. unfold upd_node.
      destruct (Z.eqb_spec b n); [reflexivity|].
      apply (D_held cf HI). rewrite Hrn in Hb; auto.
    - intros b Hb Hb2. destruct (Z.eq_dec b n) as [->|Hbn].
      + rewrite Hstn. apply Hiso; auto.
      + rewrite Hst; auto. apply (D_iso cf HI); auto. rewrite <- Hrn; auto.
    - intros b Hb Hb2. destruct (Z.eq_dec b n) as [->|Hbn].
      + rewrite Hstn. apply Hactive; auto.
      + rewrite Hst; auto. apply (D_good cf HI); auto. rewrite <- Hrn; auto.
    - apply (DPI_send (dacc cf) (dnsent cf) (dpipe cf) _ _ _ n L).
      + apply (D_pipe cf HI).
      + exact HL.
      + intros a b Hab. unfold dacc. destruct (Z.eq_dec b n) as [->|Hbn].
        * assert (Hne : nbr n <> []) by (intros Hc; rewrite Hc in Hab; contradiction).
          destruct (Hactive Hne) as (_ & Hph & Htab & Hpost & _).
          rewrite Hstn, Hph, Htab, Hpost. fold (dacc cf n a). rewrite Hacc0. reflexivity.
        * rewrite Hst; auto.
      + intros a b Hab. unfold dnsent. destruct (Z.eqb_spec a n) as [->|Han].
        * assert (Hne : nbr n <> []).
          { intros Hc. apply nbrs_sym in Hab. rewrite Hc in Hab. contradiction. }
          destruct (Hactive Hne) as (_ & Hph & _ & _ & Hk).
          rewrite Hrnn, Hstn, Hr, Hph. lia.
        * rewrite Hrn, Hst; auto.
      + intros a b Hab. rewrite Hpipe. f_equal.
        destruct (Z.eqb_spec a n) as [->|Han]; auto.
        rewrite to_y_outs_in; [reflexivity|apply nbrs_nodup|now apply nbrs_sym].
    - intros a b Hab. rewrite Hpipe, (D_non cf HI a b Hab). simpl.
      destruct (Z.eqb_spec a n) as [->|Han]; auto.
      apply to_y_outs_out. intros Hc. apply Hab. now apply nbrs_sym.
  Qed.

  (* ---------------------------------------------------------------- one step *)
  Definition dev_ok (evs : list mev) : Prop :=
    (forall n k, ~ In (EvErr n k) evs) /\ (forall n k, In (EvFinished n k) evs -> k = fin_cycle n).
  Lemma dev_ok_nil : dev_ok [].
  Proof. split; [intros n k []|intros n k []]. Qed.
  Lemma dev_ok_app e1 e2 : dev_ok e1 -> dev_ok e2 -> dev_ok (e1 ++ e2).
  Proof.
    intros [A1 A2] [B1 B2]. split.
    - intros n k H. apply in_app_or in H as [H|H]; [eapply A1|eapply B1]; eauto.
    - intros n k H. apply in_app_or in H as [H|H]; [eapply A2|eapply B2]; eauto.
  Qed.
  Lemma vev_ok n e : vev n e -> dev_ok e /\ forall x, count_fin x e = 0%nat.
  Proof.
    intros H. split; [split|].
    - intros m k Hin. destruct (H _ Hin) as (v & c & q & E). discriminate.
    - intros m k Hin. destruct (H _ Hin) as (v & c & q & E). discriminate.
    - intros x. induction e as [|y r IH]; [reflexivity|].
      destruct (H y (or_introl eq_refl)) as (v & c & q & ->). simpl. apply IH. intros z Hz. apply H. now right.
  Qed.

  Definition dstep_concl (cf : config) (a : action) : Prop :=
    DInv (fst (step P cf a)) /\ dev_ok (snd (step P cf a)) /\
    (forall x, ds_fin (dstt (fst (step P cf a)) x) = ds_fin (dstt cf x) + Z.of_nat (count_fin x (snd (step P cf a)))).

  Lemma dsa_start_active n : nbr n <> [] ->
    exists s1 v0 e1, dsa_start d stop variant prob fovc n (dsa_init orc n) = (s1, bcast (nbr n) (MValue v0), e1)
                     /\ keeps (dsa_init orc n) s1 /\ vev n e1.
  Proof.
    intros Hact. unfold dsa_start. destruct (nbr n) as [|y r] eqn:E; [congruence|]. rewrite <- E.
    destruct (draw (ds_orc (dsa_init orc n))) as [x o].
    match goal with |- context [dvalue_selection n ?t ?v ?c] =>
      destruct (dvs_keep n t v c) as [K V]; destruct (dvalue_selection n t v c) as [s1 e1] end.
    simpl in K, V. rewrite evaluate_cycle_part.
    - exists s1, (choose (dom_of d n) x 0), e1. rewrite !app_nil_r. split; [reflexivity|]. split; [exact K|exact V].
    - destruct K as (_ & K2 & _). rewrite K2. simpl. rewrite E. discriminate.
  Qed.

  Lemma dstep_facts cf a : DInv cf -> dstep_concl cf a.
  Proof.
    intros HI. destruct a as [n | a0 b0].
    - (* Start *)
      unfold dstep_concl. simpl.
      destruct (w_running (nodes cf n)) eqn:Hr; simpl.
      { split; [exact HI|]. split; [apply dev_ok_nil|]. intros x. simpl. lia. }
      pose proof (D_idle cf HI n Hr) as Hidle. unfold dstt in Hidle. rewrite Hidle.
      destruct (nbr n) as [|y r] eqn:Enb.
      + unfold dsa_start. rewrite Enb. destruct (optimal_cost_value d n) as [v c]. simpl.
        split; [|split].
        * apply (DInv_start cf n _ []); [exact HI|exact Hr|constructor|intros _; repeat split|intros Hc; congruence].
        * split.
          -- intros x k [H|[H|[]]]; discriminate.
          -- intros x k [H|[H|[]]]; [discriminate|]. inversion H; subst. unfold P_Mgm3c.fin_cycle. rewrite Enb. reflexivity.
        * intros x. unfold dstt. simpl. unfold upd_node. destruct (Z.eqb_spec x n) as [->|Hx]; simpl.
          -- rewrite Hidle. simpl. rewrite Z.eqb_refl. reflexivity.
          -- destruct (Z.eqb_spec n x); [congruence|]. lia.
      + assert (Hact : nbr n <> []) by (rewrite Enb; discriminate). clear Enb.
        destruct (dsa_start_active n Hact) as (s1 & v0 & e1 & E & (K1 & K2 & K3 & K4 & K5 & K6) & V).
        rewrite E. simpl. simpl in K1, K2, K3, K4, K5, K6.
        destruct (vev_ok n e1 V) as [Ev Cf].
        split; [|split].
        * rewrite (outs_of_1 (nbr n) (MValue v0)).
          apply (DInv_start cf n s1 [MValue v0]);
            [exact HI|exact Hr|constructor; [eexists; reflexivity|constructor]|intros Hc; congruence|].
          intros _. split; [|split; [unfold dcyc; rewrite K1; reflexivity|split; [exact K2|split; [exact K3|]]]].
             ++ constructor.
                ** lia.
                ** intros Hs. lia.
                ** rewrite K4, K1. destruct (Z.eqb_spec stop 0); simpl; [reflexivity|].
                   symmetry. apply Z.leb_gt. lia.
                ** unfold dfb. rewrite K4, K6. reflexivity.
                ** rewrite K4. discriminate.
                ** exact K5.
                ** rewrite K2. split; [constructor|]. split; [intros z []|]. simpl. destruct (nbr n); [congruence|simpl; lia].
                ** rewrite K3. split; [constructor|intros z []].
             ++ unfold dfb. rewrite K4. reflexivity.
        * exact Ev.
        * intros x. unfold dstt. simpl. unfold upd_node. rewrite Cf. destruct (Z.eqb_spec x n) as [->|Hx]; simpl.
          -- rewrite Hidle. simpl. lia.
          -- lia.
    - (* Deliver *)
      destruct (chan cf a0 b0) as [|m q] eqn:Hc.
      { unfold dstep_concl. simpl. rewrite Hc. simpl. split; [exact HI|]. split; [apply dev_ok_nil|]. intros x. simpl. lia. }
      destruct (w_running (nodes cf b0)) eqn:Hr.
      2:{ unfold dstep_concl. simpl. rewrite Hc, Hr. simpl. split; [|split].
          - apply DInv_deliver_idle; auto.
          - apply dev_ok_nil.
          - intros x. unfold dstt. simpl. unfold upd_node. destruct (Z.eqb_spec x b0) as [->|Hx]; simpl; lia. }
      destruct (dhead_facts cf a0 b0 m q HI Hr Hc) as (Hnb & G & Hns & Hnxt & [v Hm] & Hlt).
      set (s := dstt cf b0) in *. subst m.
      assert (Hact : nbr b0 <> []) by (intros Hc'; rewrite Hc' in Hnb; contradiction).
      destruct G as [G1 G2 G3 G4 G5 G6 G7 G8].
      assert (Hfb : dfb s = 0%nat) by (unfold dfb; rewrite Hns; reflexivity).
      assert (Hfin0 : ds_fin s = 0) by (rewrite G4, Hfb; reflexivity).
      assert (Hnsb : dnsent cf b0 = (dcyc s + 1)%nat).
      { unfold dnsent, drn. rewrite Hr. fold s. rewrite Hfb. lia. }
      unfold dstep_concl. simpl. rewrite Hc, Hr. unfold dstt in s. fold s. simpl.
      rewrite Hns, mem_key_kin.
      destruct (kin a0 (ds_cur s)) eqn:Ht.
      + (* already has this cycle's value of a0: stored for the next cycle *)
        simpl. rewrite (dict_set_fresh _ _ _ Hnxt).
        split; [|split].
        * apply (DInv_deliver_run cf a0 b0 (MValue v) q _ []); auto.
          -- intros a Ha. unfold dacc, dcyc, dstt. fold s. simpl. rewrite kb_snoc by exact Hnxt. lia.
          -- fold s. rewrite Hnsb. unfold dcyc, dfb. simpl. rewrite ?Hns. simpl. lia.
          -- constructor; simpl; auto.
             ++ rewrite <- Hns. exact G3.
             ++ discriminate.
             ++ split.
                ** unfold keys. rewrite map_app. apply NoDup_snoc; [apply G8|]. now apply kin_false.
                ** unfold keys. rewrite map_app. intros y Hy. apply in_app_or in Hy as [Hy|[<-|[]]]; [now apply G8|now apply kin_In].
        * apply dev_ok_nil.
        * intros x. unfold dstt. simpl. unfold upd_node. destruct (Z.eqb_spec x b0) as [->|Hx]; simpl; fold s; lia.
      + (* a value of this cycle *)
        set (s2 := mkDs (ds_cycle s) (ds_value s) (ds_cost s) (ds_cur s ++ [(a0, v)]) (ds_nxt s) (ds_orc s)
                        false (ds_held s) (ds_fin s)).
        assert (Hnd : NoDup (keys (ds_cur s ++ [(a0, v)]))).
        { unfold keys. rewrite map_app. apply NoDup_snoc; [apply G7|]. now apply kin_false. }
        assert (Hincl : incl (keys (ds_cur s ++ [(a0, v)])) (nbr b0)).
        { unfold keys. rewrite map_app. intros y Hy. apply in_app_or in Hy as [Hy|[<-|[]]]; [now apply G7|exact Hnb]. }
        destruct (Nat.eq_dec (length (ds_cur s) + 1) (length (nbr b0))) as [Hl|Hl].
        * (* the cycle is complete *)
          assert (Hfull : length (ds_cur s2) = length (nbr b0)) by (simpl; rewrite app_length; simpl; lia).
          destruct (evaluate_cycle d stop variant prob fovc b0 s2) as [[s' o] e] eqn:E.
          destruct (evaluate_cycle_full d stop variant prob fovc b0 s2 s' o e Hfull E)
            as (E1 & E2 & E3 & E4 & E5 & E6 & [v' E7] & [e1 [V E8]]).
          simpl in E1, E2, E3, E4, E5, E6. rewrite orb_false_r in E5.
          unfold ec_fin in *. simpl in E5, E6, E7, E8.
          set (f := negb (stop =? 0) && (stop <=? ds_cycle s + 1)) in *.
          assert (Hlt2 : stop <> 0 -> ds_cycle s < stop).
          { intros Hs. rewrite Hns in G3. symmetry in G3. apply andb_false_iff in G3 as [G3|G3].
            - apply negb_false_iff, Z.eqb_eq in G3. congruence.
            - apply Z.leb_gt in G3. exact G3. }
          assert (Hf : f = true -> stop <> 0 /\ ds_cycle s + 1 = stop).
          { unfold f. intros H. apply andb_true_iff in H as [H1 H2]. apply negb_true_iff, Z.eqb_neq in H1.
            apply Z.leb_le in H2. specialize (Hlt2 H1). split; [exact H1|lia]. }
          assert (Hnx0 : f = true -> ds_nxt s = []).
          { intros Hft. destruct (Hf Hft) as [Hs0 Hs1].
            destruct (ds_nxt s) as [|[a w] r] eqn:Enx; [reflexivity|exfalso].
            assert (Ha2 : In a (keys (ds_cur s))) by (apply G8; simpl; auto).
            assert (Ha3 : In a (nbr b0)) by (now apply G7).
            destruct (D_pipe cf HI a b0 Ha3) as (_ & Hle & _).
            assert (Ha4 : nbr a <> []).
            { intros Hc'. apply nbrs_sym in Ha3. rewrite Hc' in Ha3. contradiction. }
            pose proof (dnsent_bound cf a HI Hs0 Ha4) as Hb.
            unfold dacc in Hle. unfold dstt in Hle. fold s in Hle.
            assert (Ha1 : kin a (ds_nxt s) = true) by (apply kin_In; rewrite Enx; simpl; auto).
            apply kin_In in Ha2. unfold kb in Hle. rewrite Ha1, Ha2 in Hle. unfold dcyc in *. lia. }
          destruct (vev_ok b0 e1 V) as [Ev Cf].
          set (L := if f then [] else [MValue v']).
          assert (HoL : o = outs_of (nbr b0) L).
          { rewrite E7. unfold L. destruct f; [reflexivity|apply outs_of_1]. }
          rewrite HoL. simpl.
          split; [|split].
          -- apply (DInv_deliver_run cf a0 b0 (MValue v) q s' L); auto.
             ++ intros a Ha. unfold dacc, dcyc, dstt. fold s. rewrite E1, E2, E3, kb_nil.
                pose proof (kb_full a _ _ Hnd Hincl (eq_trans (eq_sym (eq_refl)) Hfull) Ha) as Hk.
                rewrite kb_snoc in Hk by exact Ht. lia.
             ++ rewrite Hnsb. unfold dcyc, dfb, L. rewrite E1, E5. destruct f; simpl; lia.
             ++ unfold L. destruct f; [constructor|constructor; [eexists; reflexivity|constructor]].
             ++ constructor.
                ** rewrite E1. lia.
                ** rewrite E1. intros Hs. specialize (Hlt2 Hs). lia.
                ** rewrite E5, E1. reflexivity.
                ** unfold dfb. rewrite E5, E6, Hfin0. destruct f; reflexivity.
                ** rewrite E5. intros Hft. rewrite E2, E3. split; [now apply Hnx0|reflexivity].
                ** rewrite E4. exact G6.
                ** rewrite E2. split; [apply G8|]. split; [intros y Hy; apply G7; now apply G8|].
                   pose proof (NoDup_incl_length (proj1 G8) (proj2 G8)) as Hle. unfold keys in Hle.
                   rewrite !map_length in Hle. destruct G7 as (_ & _ & G7c). lia.
                ** rewrite E3. split; [constructor|intros y []].
          -- rewrite E8. apply dev_ok_app; [exact Ev|]. split.
             ++ intros x k Hin. destruct f; [destruct Hin as [H|[H|[]]]|destruct Hin as [H|[]]]; discriminate.
             ++ intros x k Hin. destruct f eqn:Ef; [|destruct Hin as [H|[]]; discriminate].
                destruct Hin as [H|[H|[]]]; [discriminate|]. inversion H; subst.
                rewrite (fin_cycle_active d stop x Hact). apply Hf. reflexivity.
          -- intros x. unfold dstt. simpl. unfold upd_node. rewrite E8, count_fin_app, Cf.
             destruct (Z.eqb_spec x b0) as [->|Hx]; simpl.
             ++ fold s. rewrite E6. destruct f; simpl; [rewrite Z.eqb_refl|]; lia.
             ++ destruct f; simpl; [destruct (Z.eqb_spec b0 x); [congruence|]|]; lia.
        * (* still waiting *)
          rewrite evaluate_cycle_part by (simpl; rewrite app_length; simpl; lia). simpl.
          split; [|split].
          -- apply (DInv_deliver_run cf a0 b0 (MValue v) q s2 []); auto.
             ++ intros a Ha. unfold dacc, dcyc, dstt. fold s. simpl. rewrite kb_snoc by exact Ht. lia.
             ++ rewrite Hnsb. unfold dcyc, dfb. simpl. rewrite ?Hns. simpl. lia.
             ++ constructor; simpl; auto.
                ** rewrite <- Hns. exact G3.
                ** discriminate.
                ** split; [exact Hnd|]. split; [exact Hincl|].
                   pose proof (keys_length_le _ _ Hnd Hincl) as Hle. rewrite app_length in *. simpl in *. lia.
                ** split; [apply G8|]. unfold keys. rewrite map_app. intros y Hy. apply in_or_app. left. now apply G8.
          -- apply dev_ok_nil.
          -- intros x. unfold dstt. simpl. unfold upd_node. destruct (Z.eqb_spec x b0) as [->|Hx]; simpl; fold s; lia.
  Qed.

  (* ================================================================ all schedules *)
  Lemma dreachable_inv cf : reachable P cf -> DInv cf.
  Proof.
    induction 1 as [|cf a _ HI].
    - apply DInv_init.
    - apply (dstep_facts cf a HI).
  Qed.

  Lemma dexec_facts sched : forall cf, DInv cf ->
    DInv (fst (exec P cf sched)) /\ dev_ok (snd (exec P cf sched)) /\
    (forall x, ds_fin (dstt (fst (exec P cf sched)) x) = ds_fin (dstt cf x) + Z.of_nat (count_fin x (snd (exec P cf sched)))).
  Proof.
    induction sched as [|a r IH]; intros cf HI; simpl.
    - split; [exact HI|]. split; [apply dev_ok_nil|]. intros x. simpl. lia.
    - destruct (dstep_facts cf a HI) as (HI1 & Ev1 & F1).
      destruct (step P cf a) as [cf1 e1] eqn:E1. simpl in *.
      destruct (IH cf1 HI1) as (HI2 & Ev2 & F2).
      destruct (exec P cf1 r) as [cf2 e2] eqn:E2. simpl in *.
      split; [exact HI2|]. split; [now apply dev_ok_app|].
      intros x. rewrite F2, F1, count_fin_app. lia.
  Qed.

  Lemma dfin_le_one cf x : DInv cf -> 0 <= ds_fin (dstt cf x) <= 1.
  Proof.
    intros HI. destruct (drn cf x) eqn:Hr.
    - destruct (nbr x) as [|y r] eqn:E.
      + destruct (D_iso cf HI x Hr E) as [H _]. lia.
      + assert (Ha : nbr x <> []) by (rewrite E; discriminate).
        pose proof (D_good cf HI x Hr Ha) as G. rewrite (dg_fin x _ G). unfold dfb. destruct (ds_stopped (dstt cf x)); lia.
    - rewrite (D_idle cf HI x Hr). simpl. lia.
  Qed.

  (* every execution: no error event (in particular no MGain ever reaches a DSA computation),
     finished() carries cycle counter stop_cycle (0 without neighbour), at most once per node *)
  Theorem dsa_trace_ok_l sched :
    let evs := snd (run P sched) in
    (forall n k, ~ In (EvErr n k) evs) /\
    (forall n k, In (EvFinished n k) evs -> k = fin_cycle n) /\
    (forall x, (count_fin x evs <= 1)%nat /\ Z.of_nat (count_fin x evs) = ds_fin (dstt (fst (run P sched)) x)).
  Proof.
    intros evs. destruct (dexec_facts sched (init P) DInv_init) as (HI & [E1 E2] & F).
    change (exec P (init P) sched) with (run P sched) in *. fold evs in E1, E2, F.
    split; [exact E1|]. split; [exact E2|]. intros x. specialize (F x).
    assert (ds_fin (dstt (init P) x) = 0) by reflexivity.
    pose proof (dfin_le_one _ x HI). split; lia.
  Qed.

  Lemma dquiescent_all_fin cf :
    DInv cf -> (forall x, nbr x <> [] -> drn cf x = true) -> (forall a b, chan cf a b = []) ->
    forall x, nbr x <> [] -> ds_stopped (dstt cf x) = true.
  Proof.
    intros HI Hrun Hempty x0 Hx0.
    destruct (ds_stopped (dstt cf x0)) eqn:F0; [reflexivity|exfalso].
    set (U := flat_map c_scope (d_cons d)).
    set (W := filter (fun x => match nbr x with [] => false | _ => negb (ds_stopped (dstt cf x)) end) U).
    assert (HW : forall x, In x W <-> nbr x <> [] /\ ds_stopped (dstt cf x) = false).
    { intros x. unfold W. rewrite filter_In. split.
      - intros [_ H]. destruct (nbr x); [discriminate|]. split; [discriminate|]. now apply negb_true_iff.
      - intros [H1 H2]. split; [now apply active_in_scopes|]. destruct (nbr x); [congruence|]. now apply negb_true_iff. }
    assert (HW0 : W <> []).
    { intros Hc. assert (In x0 W) as Hin by (apply HW; auto). rewrite Hc in Hin. contradiction. }
    destruct (exists_min (dnsent cf) W HW0) as [b [Hb Hmin]].
    apply HW in Hb as [Hbact Hbfin].
    pose proof (Hrun b Hbact) as Hbr. pose proof (D_good cf HI b Hbr Hbact) as G.
    set (s := dstt cf b) in *.
    assert (Hnsb : dnsent cf b = (dcyc s + 1)%nat).
    { unfold dnsent. rewrite Hbr. fold s. unfold dfb. rewrite Hbfin. lia. }
    assert (Hall : forall a, In a (nbr b) -> In a (keys (ds_cur s))).
    { intros a Ha.
      assert (Haact : nbr a <> []).
      { intros Hc. apply nbrs_sym in Ha. rewrite Hc in Ha. contradiction. }
      destruct (D_pipe cf HI a b Ha) as (Hlen & Hle & _).
      unfold dpipe in Hlen. rewrite (D_held cf HI b Hbr), Hempty in Hlen. simpl in Hlen.
      assert (Hge : (dnsent cf b <= dnsent cf a)%nat).
      { destruct (ds_stopped (dstt cf a)) eqn:Fa.
        - pose proof (Hrun a Haact) as Har. pose proof (D_good cf HI a Har Haact) as Ga.
          pose proof (dg_stopped a _ Ga) as E. rewrite Fa in E. symmetry in E.
          apply andb_true_iff in E as [E1 E2]. apply negb_true_iff, Z.eqb_neq in E1. apply Z.leb_le in E2.
          pose proof (dnsent_bound cf b HI E1 Hbact) as Hb1.
          pose proof (dg_stop a _ Ga E1). pose proof (dg_cyc a _ Ga).
          unfold dnsent at 2. rewrite Har. unfold dcyc, dfb. rewrite Fa. lia.
        - apply Hmin. apply HW. auto. }
      unfold dacc in Hlen, Hle. fold s in Hlen, Hle.
      pose proof (kb_le a (ds_nxt s)).
      destruct (kin a (ds_cur s)) eqn:Ek; [now apply kin_In|exfalso].
      assert (Hp : kin a (ds_nxt s) = false).
      { destruct (kin a (ds_nxt s)) eqn:Ep; auto. apply kin_In in Ep. apply (proj2 (dg_nxt b s G)) in Ep.
        apply kin_In in Ep. congruence. }
      unfold kb in *. rewrite Ek, Hp in *. lia. }
    destruct (dg_cur b s G) as (Hnd & Hincl & Hlen).
    pose proof (NoDup_incl_length (nbrs_nodup d b) Hall) as Hl. unfold keys in Hl. rewrite map_length in Hl. lia.
  Qed.

  (* dsa_terminates_k *)
  Theorem dsa_terminates_k_l sched : 0 < stop ->
    let cf := fst (run P sched) in let evs := snd (run P sched) in
    (forall x, nbr x <> [] -> w_running (nodes cf x) = true) -> (forall a b, chan cf a b = []) ->
    (forall n k, ~ In (EvErr n k) evs) /\
    forall x, w_running (nodes cf x) = true ->
      count_fin x evs = 1%nat /\ (forall k, In (EvFinished x k) evs -> k = fin_cycle x) /\
      ds_cycle (w_st (nodes cf x)) = fin_cycle x /\ ds_fin (w_st (nodes cf x)) = 1 /\
      w_held (nodes cf x) = [] /\
      (nbr x <> [] -> ds_stopped (w_st (nodes cf x)) = true /\ ds_cur (w_st (nodes cf x)) = [] /\
                      ds_nxt (w_st (nodes cf x)) = [] /\ ds_held (w_st (nodes cf x)) = []).
  Proof.
    intros Hs cf evs Hrun Hempty.
    destruct (dsa_trace_ok_l sched) as (E1 & E2 & E3). fold evs cf in E1, E2, E3.
    split; [exact E1|]. intros x Hr.
    assert (HI : DInv cf) by (apply dexec_facts; apply DInv_init).
    destruct (E3 x) as [_ F3].
    assert (Hfin : ds_fin (dstt cf x) = 1 /\ ds_cycle (dstt cf x) = fin_cycle x).
    { unfold P_Mgm3c.fin_cycle. destruct (nbr x) as [|y r] eqn:E.
      - apply (D_iso cf HI x Hr E).
      - assert (Ha : nbr x <> []) by (rewrite E; discriminate).
        pose proof (dquiescent_all_fin cf HI Hrun Hempty x Ha) as F.
        pose proof (D_good cf HI x Hr Ha) as G. split.
        + rewrite (dg_fin x _ G). unfold dfb. rewrite F. reflexivity.
        + pose proof (dg_stopped x _ G) as E0. rewrite F in E0. symmetry in E0.
          apply andb_true_iff in E0 as [E4 E5]. apply negb_true_iff, Z.eqb_neq in E4. apply Z.leb_le in E5.
          pose proof (dg_stop x _ G E4). lia. }
    destruct Hfin as [F1 F2]. unfold dstt in *.
    split; [lia|]. split; [intros k Hk; now apply E2|]. split; [exact F2|]. split; [exact F1|].
    split; [apply (D_held cf HI x Hr)|].
    intros Ha. pose proof (dquiescent_all_fin cf HI Hrun Hempty x Ha) as F.
    pose proof (D_good cf HI x Hr Ha) as G. destruct (dg_finst x _ G F) as [C1 C2].
    split; [exact F|]. split; [exact C1|]. split; [exact C2|exact (dg_held x _ G)].
  Qed.

  (* no deadlock before termination *)
  Theorem dsa_no_deadlock_l cf :
    reachable P cf -> (forall x, nbr x <> [] -> w_running (nodes cf x) = true) ->
    (exists x, nbr x <> [] /\ ds_stopped (w_st (nodes cf x)) = false) -> ~ (forall a b, chan cf a b = []).
  Proof.
    intros Hre Hrun [x [Ha Hf]] Hempty. apply dreachable_inv in Hre as HI.
    pose proof (dquiescent_all_fin cf HI Hrun Hempty x Ha) as F. unfold dstt in F. congruence.
  Qed.

  (* neighbours' cycle counters differ by at most one *)
  Theorem dsa_one_cycle_apart_l cf a b : reachable P cf -> In a (nbr b) ->
    ds_cycle (w_st (nodes cf b)) <= ds_cycle (w_st (nodes cf a)) + 1.
  Proof.
    intros Hre Hab. apply dreachable_inv in Hre as HI.
    destruct (D_pipe cf HI a b Hab) as (_ & Hle & _).
    assert (H1 : (dnsent cf a <= dcyc (dstt cf a) + 1)%nat) by (unfold dnsent; destruct (drn cf a); lia).
    assert (H2 : (dcyc (dstt cf b) <= dacc cf b a)%nat) by (unfold dacc; lia).
    assert (Hca : 0 <= ds_cycle (dstt cf a)).
    { destruct (drn cf a) eqn:Ra.
      - assert (Haact : nbr a <> []) by (intros Hc; apply nbrs_sym in Hab; rewrite Hc in Hab; contradiction).
        exact (dg_cyc a _ (D_good cf HI a Ra Haact)).
      - rewrite (D_idle cf HI a Ra). simpl. lia. }
    unfold dcyc, dstt in *. lia.
  Qed.
End DGlobal.

(* closed statement *)
Lemma dsa_terminates_k_closed d stop variant prob fovc orc sched : 0 < stop ->
  let cf := fst (run (dsa_proto d stop variant prob fovc orc) sched) in
  let evs := snd (run (dsa_proto d stop variant prob fovc orc) sched) in
  (forall x, nbrs d x <> [] -> w_running (nodes cf x) = true) -> (forall a b, chan cf a b = []) ->
  (forall n k, ~ In (EvErr n k) evs) /\
  (forall x, w_running (nodes cf x) = true ->
     count_fin x evs = 1%nat /\ (forall k, In (EvFinished x k) evs -> k = fin_cycle d stop x) /\
     ds_cycle (w_st (nodes cf x)) = fin_cycle d stop x /\ ds_fin (w_st (nodes cf x)) = 1 /\
     w_held (nodes cf x) = [] /\
     (nbrs d x <> [] -> ds_stopped (w_st (nodes cf x)) = true /\ ds_cur (w_st (nodes cf x)) = [] /\
                        ds_nxt (w_st (nodes cf x)) = [] /\ ds_held (w_st (nodes cf x)) = [])).
Proof. intros Hs. apply (dsa_terminates_k_l d stop variant prob fovc orc (Z.lt_le_incl _ _ Hs) sched Hs). Qed.
