(* M_Ucs.v -- executable model of pydcop.replication.dist_ucs_hostingcosts.UCSReplication
   (+ path_utils, ReplicationTracker, the glue of ResilientAgent.add_computation/replicate)
   plugged into the asynchronous network of Net.v (C25).  Models only; proofs in P_Ucs.v.

   Nodes: agent i (0 <= i < number of agents) = the computation "_replication_aII" of agent
   "aII"; node ORCH = the orchestrator, whose only action is to send one [MReplicate k] to every
   agent (in the runtime: ReplicateComputationsMessage -> ResilientAgent.replicate(k), executed
   on the agent's own thread, i.e. atomically w.r.t. that agent's message handlers).
   Names: agents a00 < a01 < ..., "__hosting__" sorts before every agent name ('_' < 'a'), so it
   is the id -1.  Costs, footprints and capacities are integers.

   Not modelled: agent_added / agent_removed events (_on_agent_event, _removed_agents,
   _answer_lost_requests), remove_replica, the logger. *)
From PyDcop Require Import Base Net.

Definition HOSTING : Z := -1.
Definition ORCH : Z := -5.
Definition path := list Z.
Definition ptable := list (Z * path).

(* ------------------------------------------------------------------ path_utils *)
Definition path_eqb (a b : path) : bool := list_eqb Z.eqb a b.

(* Python tuple comparison (lexicographic, a proper prefix is smaller) *)
Fixpoint path_leb (a b : path) : bool :=
  match a, b with
  | [], _ => true
  | _ :: _, [] => false
  | x :: a', y :: b' => if x <? y then true else if y <? x then false else path_leb a' b'
  end.
Definition entry_leb (e f : Z * path) : bool :=
  if fst e <? fst f then true else if fst f <? fst e then false else path_leb (snd e) (snd f).
(* list.sort() of a paths table *)
Definition psort (l : ptable) : ptable := isort entry_leb l.

(* remove_path: every entry whose path is [p] is removed, order kept *)
Definition remove_path (paths : ptable) (p : path) : ptable :=
  filter (fun e => negb (path_eqb (snd e) p)) paths.

Definition last_z (p : path) : Z := last p (-2).

(* cheapest_path_to: first entry ending at [target]; None = (inf, ()) *)
Fixpoint cheapest_path_to (target : Z) (paths : ptable) : option (Z * path) :=
  match paths with
  | [] => None
  | (c, p) :: r => if last_z p =? target then Some (c, p) else cheapest_path_to target r
  end.

Fixpoint is_prefix (pre p : path) : bool :=
  match pre, p with
  | [], _ => true
  | x :: pre', y :: p' => (x =? y) && is_prefix pre' p'
  | _ :: _, [] => false
  end.

(* ------------------------------------------------------------------ static configuration *)
Record acfg := mkA {
  a_cap : Z;                              (* agent_def.capacity *)
  a_comps : list (Z * Z * list Z);        (* active computations: (name, footprint, neighbours) *)
  a_droute : Z; a_routes : list (Z * Z);  (* AgentDef default_route / routes *)
  a_dhost : Z; a_hcosts : list (Z * Z)    (* AgentDef default_hosting_cost / hosting_costs *)
}.
Record cfg := mkCfg {
  c_agents : list acfg;                   (* position = agent id *)
  c_k : Z;                                (* replication level requested by the orchestrator *)
  c_ktarget : Z                           (* UCSReplication.k_target (constructor default 3) *)
}.

(* ------------------------------------------------------------------ messages / state / events *)
Record tok := mkTok {
  t_budget : Z; t_spent : Z; t_path : path; t_paths : ptable; t_visited : list Z;
  t_comp : Z; t_fp : Z; t_count : Z; t_hosts : list Z
}.
Inductive msg := MReplicate (k : Z) | MRequest (t : tok) | MAnswer (t : tok).

Record nstate := mkSt {
  s_hosted : list (Z * (Z * Z));    (* _hosted_replicas: comp -> (owner, footprint), dict order *)
  s_rhosts : list (Z * list Z);     (* _replica_hosts: comp -> set of hosts (insertion order) *)
  s_inprog : list (Z * Z);          (* ReplicationTracker.replicating *)
  s_pending : list (Z * Z * Z)      (* keys of _pending_requests: ((agent, comp), 0) *)
}.

Inductive ev :=
| EvAccept (n c owner fp : Z) (hosted_before : list (Z * (Z * Z)))   (* _accept_replica at n *)
| EvRepl (n c : Z) (hosts : list Z)               (* computation_replicated(c, hosts) at n *)
| EvDone (n : Z) (rh : list (Z * list Z))         (* replication_done(replica_hosts) at n *)
| EvRaise (n : Z) (kind : Z).   (* 1 AssertionError 2 IndexError 3 ValueError 4 KeyError 9 fuel *)

Section Ucs.
  Variable C : cfg.

  Definition nagents : Z := Z.of_nat (List.length (c_agents C)).
  Definition dflt_agent : acfg := mkA 0 [] 0 [] 0 [].
  Definition agent (n : Z) : acfg :=
    if (0 <=? n) && (n <? nagents) then nth (Z.to_nat n) (c_agents C) dflt_agent else dflt_agent.

  Definition comp_name (x : Z * Z * list Z) : Z := fst (fst x).
  Definition comp_fp (x : Z * Z * list Z) : Z := snd (fst x).
  Definition own_names (n : Z) : list Z := map comp_name (a_comps (agent n)).
  Definition owns (n c : Z) : bool := zmem c (own_names n).

  (* AgentDef.route / hosting_cost *)
  Definition route (me other : Z) : Z :=
    if me =? other then 0
    else match zlookup other (a_routes (agent me)) with Some c => c | None => a_droute (agent me) end.
  Definition hosting_cost (me c : Z) : Z :=
    match zlookup c (a_hcosts (agent me)) with Some x => x | None => a_dhost (agent me) end.

  Fixpoint zrange_from (start : Z) (count : nat) : list Z :=
    match count with O => [] | S k => start :: zrange_from (start + 1) k end.
  Definition agent_ids : list Z := zrange_from 0 (List.length (c_agents C)).

  (* replication_neighbors(): agents hosting a neighbour (that is not one of our own computations)
     of one of our computations, with the route cost; a set in the code -- every use is
     order-independent, here in increasing agent id *)
  Definition is_nbr (me j : Z) : bool :=
    existsb (fun x => existsb (fun nb => negb (owns me nb) && owns j nb) (snd x)) (a_comps (agent me)).
  Definition neighbors (me : Z) : list (Z * Z) :=
    map (fun j => (j, route me j)) (filter (is_nbr me) agent_ids).

  (* _remaining_capacity: capacity minus the footprints of the agent's active computations *)
  Definition remaining (me : Z) : Z := a_cap (agent me) - zsum (map comp_fp (a_comps (agent me))).

  (* ---- _max_footprint (after the fix: no class-level memo) *)
  Fixpoint dedup (l : list Z) : list Z :=
    match l with [] => [] | x :: r => if zmem x r then dedup r else x :: dedup r end.
  Definition owners_of (h : list (Z * (Z * Z))) : list Z := dedup (map (fun e => fst (snd e)) h).
  Fixpoint combs (m : nat) (l : list Z) : list (list Z) :=
    match m, l with
    | O, _ => [[]]
    | S _, [] => []
    | S m', x :: r => map (cons x) (combs m' r) ++ combs m r
    end.
  Definition total_for (h : list (Z * (Z * Z))) (sel : list Z) : Z :=
    zsum (map (fun e => if zmem (fst (snd e)) sel then snd (snd e) else 0) h).
  Definition max_footprint (h : list (Z * (Z * Z))) : Z :=
    let os := owners_of h in
    let m := Z.min (c_ktarget C - 1) (Z.of_nat (List.length os)) in
    fold_left Z.max (map (total_for h) (combs (Z.to_nat m) os)) 0.

  (* _can_host *)
  Definition can_host (me : Z) (h : list (Z * (Z * Z))) (c fp : Z) : bool :=
    negb (mem_key Z.eqb c h) && (max_footprint h + fp <=? remaining me).

  (* ---- results of handlers: state, messages posted, events, raised? *)
  Definition hres := (nstate * list (node * msg) * list ev * bool)%type.

  Definition set_hosted (s : nstate) h := mkSt h (s_rhosts s) (s_inprog s) (s_pending s).
  Definition set_rhosts (s : nstate) r := mkSt (s_hosted s) r (s_inprog s) (s_pending s).
  Definition set_inprog (s : nstate) i := mkSt (s_hosted s) (s_rhosts s) i (s_pending s).
  Definition set_pending (s : nstate) p := mkSt (s_hosted s) (s_rhosts s) (s_inprog s) p.

  Definition key3_eqb (a b : Z * Z) : bool := (fst a =? fst b) && (snd a =? snd b).

  (* _send_answer (the two asserts of UCSReplicateMessage.__init__ included) *)
  Definition send_answer (me : Z) (s : nstate) (budget spent : Z) (rq : path) (paths : ptable)
      (visited : list Z) (c fp count : Z) (hosts : list Z) (evs : list ev) : hres :=
    if negb (last_z rq =? me) then (s, [], evs ++ [EvRaise me 1], true)
    else match rev rq with
    | _ :: target :: _ =>
        let r := route me target in
        if (budget + r <? 0) || (spent - r <? 0) then (s, [], evs ++ [EvRaise me 1], true)
        else (s, [(target, MAnswer (mkTok (budget + r) (spent - r) rq paths visited c fp count hosts))],
              evs, false)
    | _ => (s, [], evs ++ [EvRaise me 2], true)
    end.

  (* _send_request *)
  Definition send_request (me : Z) (s : nstate) (budget spent : Z) (target_path : path)
      (paths : ptable) (visited : list Z) (c fp count : Z) (hosts : list Z) (evs : list ev) : hres :=
    let target := last_z target_path in
    let r := route me target in
    if (budget - r <? 0) || (spent + r <? 0) then (s, [], evs ++ [EvRaise me 1], true)
    else (set_pending s (dict_set key3_eqb (target, c) 0 (s_pending s)),
          [(target, MRequest (mkTok (budget - r) (spent + r) target_path paths visited c fp count hosts))],
          evs, false).

  (* the loop `for target_path in target_paths: ... _visit_path(...)` of on_replicate_request /
     on_replicate_answer.  affordable_path_from is a generator over the LIVE list [paths], and
     _visit_path removes the visited __hosting__ path from that list while it is being iterated:
     Python's list iterator then continues at index i+1 of the shortened list (one entry is
     skipped).  [skip] = the path excluded in on_replicate_answer. *)
  Inductive lres :=
  | LDone (r : hres)                                   (* forwarded / answered / raised *)
  | LCont (s : nstate) (paths : ptable) (count : Z) (hosts : list Z) (evs : list ev).

  Fixpoint visit_loop (fuel : nat) (i : nat) (me : Z) (prefix : path) (skip : option path)
      (budget spent : Z) (visited : list Z) (c fp : Z)
      (s : nstate) (paths : ptable) (count : Z) (hosts : list Z) (evs : list ev) : lres :=
    match fuel with
    | O => LDone (s, [], evs ++ [EvRaise me 9], true)
    | S f =>
      match nth_error paths i with
      | None => LCont s paths count hosts evs
      | Some (cost, p) =>
        if is_prefix prefix p && (cost <=? budget + spent) then
          match skipn (List.length prefix) p with
          | [] => LDone (s, [], evs ++ [EvRaise me 2], true)
          | x :: _ =>
            let target := prefix ++ [x] in
            if match skip with Some sp => path_eqb target sp | None => false end then
              visit_loop f (S i) me prefix skip budget spent visited c fp s paths count hosts evs
            else if x =? HOSTING then
              let paths' := remove_path paths target in
              let owner := hd (-2) target in
              if can_host me (s_hosted s) c fp then
                let s' := set_hosted s (dict_set Z.eqb c (owner, fp) (s_hosted s)) in
                let evs' := evs ++ [EvAccept me c owner fp (s_hosted s)] in
                let hosts' := hosts ++ [me] in
                let count' := count - 1 in
                if count' =? 0 then
                  LDone (send_answer me s' budget spent prefix paths' visited c fp count' hosts' evs')
                else visit_loop f (S i) me prefix skip budget spent visited c fp s' paths' count' hosts' evs'
              else visit_loop f (S i) me prefix skip budget spent visited c fp s paths' count hosts evs
            else LDone (send_request me s budget spent target paths visited c fp count hosts evs)
          end
        else visit_loop f (S i) me prefix skip budget spent visited c fp s paths count hosts evs
      end
    end.

  (* the neighbour loop at the end of on_replicate_request *)
  Fixpoint add_neighbor_paths (nbrs : list (Z * Z)) (visited : list Z) (spent : Z) (rq : path)
      (paths : ptable) : ptable :=
    match nbrs with
    | [] => paths
    | (n, r) :: rest =>
        let paths' :=
          if zmem n visited then paths
          else match cheapest_path_to n paths with
               | Some (cheapest, cp) =>
                   if spent + r <? cheapest then psort (remove_path paths cp ++ [(spent + r, rq ++ [n])])
                   else paths
               | None => psort (paths ++ [(spent + r, rq ++ [n])])
               end in
        add_neighbor_paths rest visited spent rq paths'
    end.

  (* on_replicate_request *)
  Definition on_request (me : Z) (s : nstate) (budget spent : Z) (rq : path) (paths : ptable)
      (visited : list Z) (c fp count : Z) (hosts : list Z) (evs : list ev) : hres :=
    if negb (last_z rq =? me) then (s, [], evs ++ [EvRaise me 1], true)
    else
      let paths1 := remove_path paths rq in
      let first := negb (zmem me visited) in
      let visited1 := if first then visited ++ [me] else visited in
      let paths2 := if first && negb (owns me c)
                    then psort (paths1 ++ [(spent + hosting_cost me c, rq ++ [HOSTING])]) else paths1 in
      match visit_loop (S (List.length paths2)) 0 me rq None budget spent visited1 c fp s paths2 count hosts evs with
      | LDone r => r
      | LCont s' paths3 count' hosts' evs' =>
          let paths4 := add_neighbor_paths (neighbors me) visited1 spent rq paths3 in
          send_answer me s' budget spent rq paths4 visited1 c fp count' hosts' evs'
      end.

  (* ReplicationTracker.add / remove, _replica_hosts[c].update(hosts) *)
  Definition tracker_add (t : list (Z * Z)) (c : Z) : list (Z * Z) :=
    dict_set Z.eqb c (match zlookup c t with Some n => n + 1 | None => 1 end) t.
  Definition set_union (a b : list Z) : list Z :=
    fold_left (fun acc x => if zmem x acc then acc else acc ++ [x]) b a.

  (* computation_replicated *)
  Definition computation_replicated (me : Z) (s : nstate) (c : Z) (hosts : list Z) (evs : list ev) : hres :=
    match zlookup c (s_inprog s) with
    | None => (s, [], evs ++ [EvRepl me c hosts; EvRaise me 4], true)
    | Some n =>
        let t1 := filter (fun e => 0 <? snd e) (dict_set Z.eqb c (n - 1) (s_inprog s)) in
        let cur := match zlookup c (s_rhosts s) with Some l => l | None => [] end in
        let rh := dict_set Z.eqb c (set_union cur hosts) (s_rhosts s) in
        let s' := set_rhosts (set_inprog s t1) rh in
        (s', [], evs ++ [EvRepl me c hosts] ++ (match t1 with [] => [EvDone me rh] | _ => [] end), false)
    end.

  Fixpoint min_cost (l : ptable) (acc : Z) : Z :=
    match l with [] => acc | (c, _) :: r => min_cost r (Z.min c acc) end.

  (* on_replicate_answer *)
  Definition on_answer (me : Z) (s : nstate) (budget spent : Z) (rq : path) (paths : ptable)
      (visited : list Z) (c fp count : Z) (hosts : list Z) (evs : list ev) : hres :=
    match rev rq with
    | _sender :: current :: _ =>
      let initial := removelast rq in
      let long := 3 <=? Z.of_nat (List.length rq) in
      if count =? 0 then
        if long then send_answer me s budget spent initial paths visited c fp count hosts evs
        else computation_replicated me s c hosts evs
      else
        match visit_loop (S (List.length paths)) 0 me initial (Some rq) budget spent visited c fp s paths count hosts evs with
        | LDone r => r
        | LCont s' paths' count' hosts' evs' =>
          if long then send_answer me s' budget spent initial paths' visited c fp count' hosts' evs'
          else match paths' with
          | [] => computation_replicated me s' c hosts' evs'
          | _ =>
            match filter (fun e => negb (path_eqb (snd e) rq)) paths' with
            | [] => (s', [], evs' ++ [EvRaise me 3], true)
            | (c0, _) :: r => on_request me s' (min_cost r c0) 0 [current] paths' visited c fp count' hosts' evs'
            end
          end
        end
    | _ => (s, [], evs ++ [EvRaise me 3], true)
    end.

  (* replicate(k) through ResilientAgent.replicate: all the computations of the agent *)
  Fixpoint replicate_loop (me : Z) (k : Z) (comps : list (Z * Z * list Z)) (s : nstate)
      (outs : list (node * msg)) (evs : list ev) : hres :=
    match comps with
    | [] => (s, outs, evs, false)
    | x :: rest =>
        let nb := neighbors me in
        let paths := psort (map (fun nr => (snd nr, [me; fst nr])) nb) in
        match paths with
        | [] => (s, outs, evs ++ [EvRaise me 3], true)
        | (c0, _) :: r =>
          let '(s1, o1, e1, raised) :=
            on_request me s (min_cost r c0) 0 [me] paths [me] (comp_name x) (comp_fp x) k [] evs in
          if raised then (s1, outs ++ o1, e1, true)
          else replicate_loop me k rest s1 (outs ++ o1) e1
        end
    end.

  Definition replicate (me : Z) (s : nstate) (k : Z) : hres :=
    match a_comps (agent me) with
    | [] => (s, [], [EvDone me (s_rhosts s)], false)
    | comps =>
        let s1 := set_inprog s (fold_left tracker_add (map comp_name comps) (s_inprog s)) in
        match neighbors me with
        | [] => (s1, [], [EvDone me (s_rhosts s1)], false)
        | _ => replicate_loop me k comps s1 [] []
        end
    end.

  Definition drop_raised (r : hres) : nstate * list (node * msg) * list ev :=
    let '(s, o, e, _) := r in (s, o, e).

  Definition ucs_init (n : node) : nstate := mkSt [] [] [] [].

  Definition ucs_start (n : node) (s : nstate) : nstate * list (node * msg) * list ev :=
    if n =? ORCH then (s, map (fun a => (a, MReplicate (c_k C))) agent_ids, [])
    else (s, [], []).

  (* the only nodes that exist are the orchestrator and the agents' replication computations *)
  Definition is_agent (n : Z) : bool := (0 <=? n) && (n <? nagents).

  Definition ucs_recv (n : node) (s : nstate) (src : node) (m : msg) : nstate * list (node * msg) * list ev :=
    if negb (is_agent n) then (s, [], [])
    else match m with
    | MReplicate k => drop_raised (replicate n s k)
    | MRequest t =>
        drop_raised (on_request n s (t_budget t) (t_spent t) (t_path t) (t_paths t) (t_visited t)
                                (t_comp t) (t_fp t) (t_count t) (t_hosts t) [])
    | MAnswer t =>
        let s0 := set_pending s (dict_remove key3_eqb (last_z (t_path t), t_comp t) (s_pending s)) in
        drop_raised (on_answer n s0 (t_budget t) (t_spent t) (t_path t) (t_paths t) (t_visited t)
                               (t_comp t) (t_fp t) (t_count t) (t_hosts t) [])
    end.

  Definition ucs_proto : proto nstate msg ev := mkProto ucs_init ucs_start ucs_recv.
End Ucs.

(* ------------------------------------------------------------------ correspondence *)
Definition zl_eqb := list_eqb Z.eqb.
Definition entry_eqb (a b : Z * path) : bool := (fst a =? fst b) && path_eqb (snd a) (snd b).
Definition tok_eqb (a b : tok) : bool :=
  (t_budget a =? t_budget b) && (t_spent a =? t_spent b) && path_eqb (t_path a) (t_path b)
  && list_eqb entry_eqb (t_paths a) (t_paths b) && zl_eqb (t_visited a) (t_visited b)
  && (t_comp a =? t_comp b) && (t_fp a =? t_fp b) && (t_count a =? t_count b)
  && zl_eqb (t_hosts a) (t_hosts b).
Definition msg_eqb (a b : msg) : bool :=
  match a, b with
  | MReplicate k, MReplicate k' => k =? k'
  | MRequest t, MRequest t' => tok_eqb t t'
  | MAnswer t, MAnswer t' => tok_eqb t t'
  | _, _ => false
  end.
Definition hosted_eqb (a b : list (Z * (Z * Z))) : bool :=
  list_eqb (fun x y => (fst x =? fst y) && (fst (snd x) =? fst (snd y)) && (snd (snd x) =? snd (snd y))) a b.
Definition zsort := isort Z.leb.
Definition rh_leb (a b : Z * list Z) : bool := fst a <=? fst b.
(* a replica_hosts dict, canonical: sorted by computation, hosts sorted *)
Definition canon_rh (r : list (Z * list Z)) : list (Z * list Z) :=
  isort rh_leb (map (fun e => (fst e, zsort (snd e))) r).
Definition rh_eqb (a b : list (Z * list Z)) : bool :=
  list_eqb (fun x y => (fst x =? fst y) && zl_eqb (snd x) (snd y)) a b.
Definition ev_eqb (a b : ev) : bool :=
  match a, b with
  | EvAccept n c o f h, EvAccept n' c' o' f' h' =>
      (n =? n') && (c =? c') && (o =? o') && (f =? f') && hosted_eqb h h'
  | EvRepl n c h, EvRepl n' c' h' => (n =? n') && (c =? c') && zl_eqb h h'
  | EvDone n r, EvDone n' r' => (n =? n') && rh_eqb (canon_rh r) r'
  | EvRaise n k, EvRaise n' k' => (n =? n') && (k =? k')
  | _, _ => false
  end.
Definition key_leb (a b : Z * Z * Z) : bool :=
  let '(x1, y1, _) := a in let '(x2, y2, _) := b in
  if x1 <? x2 then true else if x2 <? x1 then false else y1 <=? y2.

Record case := mkCase {
  k_cfg : cfg;
  k_sched : list (@action);
  k_events : list ev;                                 (* observed, in order (EvDone canonical) *)
  k_hosted : list (Z * list (Z * (Z * Z)));           (* final _hosted_replicas of every agent *)
  k_rhosts : list (Z * list (Z * list Z));            (* final _replica_hosts (canonical) *)
  k_inprog : list (Z * list (Z * Z));                 (* final tracker, dict order *)
  k_pending : list (Z * list (Z * Z));                (* final pending request keys, sorted *)
  k_inflight : list (Z * Z * list msg)                (* final channel contents *)
}.

Definition check_case (c : case) : bool :=
  let P := ucs_proto (k_cfg c) in
  let '(cf, evs) := run P (k_sched c) in
  list_eqb ev_eqb evs (k_events c)
  && forallb (fun x => hosted_eqb (s_hosted (w_st (nodes cf (fst x)))) (snd x)) (k_hosted c)
  && forallb (fun x => rh_eqb (canon_rh (s_rhosts (w_st (nodes cf (fst x))))) (snd x)) (k_rhosts c)
  && forallb (fun x => list_eqb (pair_eqb Z.eqb Z.eqb) (s_inprog (w_st (nodes cf (fst x)))) (snd x)) (k_inprog c)
  && forallb (fun x => list_eqb (pair_eqb Z.eqb Z.eqb)
                          (map fst (isort key_leb (s_pending (w_st (nodes cf (fst x)))))) (snd x)) (k_pending c)
  && forallb (fun q => let '(s, d, l) := q in list_eqb msg_eqb (chan cf s d) l) (k_inflight c).
