(* M_Mgm2.v -- executable model of pydcop/algorithms/mgm2.py (Mgm2Computation), C07/C03/C04.
   The five-state machine (value, offer, answer?, gain, go?) with its per-state postponed lists
   (popped from the END by _enter_state, re-dispatched through the on_*_msg handlers), offers,
   responses, go/no-go, plugged into Net.v.  The nesting handler -> _enter_state -> handler is
   modelled with explicit fuel; exhaustion is the event [EvErr n 7] (never reached in the
   correspondence runs).  A handler that raises (ValueError / AttributeError in
   _handle_response_message) is the event [EvErr n 1]; the abort of the enclosing loops is not
   modelled.
   Randomness, from the node's own draw stream: random.uniform(0,1) = k/1000 (threshold = t/1000),
   random.choice(list) = index, random.choice over the neighbour set = rank in name order,
   random.choice(best_offers) = rank in sorted order.  Models only. *)
From PyDcop Require Import Base Net M_Mgm.

Inductive m2msg :=
| M2Value (v : Z)
| M2Gain (g : Z)
| M2Offer (offering : bool) (offers : list (Z * Z * Z))   (* (sender's value, receiver's value, sender's gain) *)
| M2Answer (accept : bool) (v : option Z) (g : option Z)
| M2Go (go : bool).

Record m2st := mkT {
  t_state : Z;
  t_cycle : Z;
  t_value : option Z;
  t_cost : option Z;
  t_nv : list (Z * Z);
  t_ng : list (Z * Z);
  t_offers : list (Z * m2msg);
  t_partner : option Z;
  t_committed : bool;
  t_offerer : bool;
  t_pgain : Z;
  t_pval : option Z;
  t_canmove : bool;
  t_pvalue : list (Z * m2msg);
  t_poffer : list (Z * m2msg);
  t_panswer : list (Z * m2msg);
  t_pgainm : list (Z * m2msg);
  t_pgo : list (Z * m2msg);
  t_orc : list Z;
  t_fin : Z
}.
Definition set_t_state (s : m2st) (x : Z) : m2st := mkT x (t_cycle s) (t_value s) (t_cost s) (t_nv s) (t_ng s) (t_offers s) (t_partner s) (t_committed s) (t_offerer s) (t_pgain s) (t_pval s) (t_canmove s) (t_pvalue s) (t_poffer s) (t_panswer s) (t_pgainm s) (t_pgo s) (t_orc s) (t_fin s).
Definition set_t_cycle (s : m2st) (x : Z) : m2st := mkT (t_state s) x (t_value s) (t_cost s) (t_nv s) (t_ng s) (t_offers s) (t_partner s) (t_committed s) (t_offerer s) (t_pgain s) (t_pval s) (t_canmove s) (t_pvalue s) (t_poffer s) (t_panswer s) (t_pgainm s) (t_pgo s) (t_orc s) (t_fin s).
Definition set_t_value (s : m2st) (x : option Z) : m2st := mkT (t_state s) (t_cycle s) x (t_cost s) (t_nv s) (t_ng s) (t_offers s) (t_partner s) (t_committed s) (t_offerer s) (t_pgain s) (t_pval s) (t_canmove s) (t_pvalue s) (t_poffer s) (t_panswer s) (t_pgainm s) (t_pgo s) (t_orc s) (t_fin s).
Definition set_t_cost (s : m2st) (x : option Z) : m2st := mkT (t_state s) (t_cycle s) (t_value s) x (t_nv s) (t_ng s) (t_offers s) (t_partner s) (t_committed s) (t_offerer s) (t_pgain s) (t_pval s) (t_canmove s) (t_pvalue s) (t_poffer s) (t_panswer s) (t_pgainm s) (t_pgo s) (t_orc s) (t_fin s).
Definition set_t_nv (s : m2st) (x : list (Z * Z)) : m2st := mkT (t_state s) (t_cycle s) (t_value s) (t_cost s) x (t_ng s) (t_offers s) (t_partner s) (t_committed s) (t_offerer s) (t_pgain s) (t_pval s) (t_canmove s) (t_pvalue s) (t_poffer s) (t_panswer s) (t_pgainm s) (t_pgo s) (t_orc s) (t_fin s).
Definition set_t_ng (s : m2st) (x : list (Z * Z)) : m2st := mkT (t_state s) (t_cycle s) (t_value s) (t_cost s) (t_nv s) x (t_offers s) (t_partner s) (t_committed s) (t_offerer s) (t_pgain s) (t_pval s) (t_canmove s) (t_pvalue s) (t_poffer s) (t_panswer s) (t_pgainm s) (t_pgo s) (t_orc s) (t_fin s).
Definition set_t_offers (s : m2st) (x : list (Z * m2msg)) : m2st := mkT (t_state s) (t_cycle s) (t_value s) (t_cost s) (t_nv s) (t_ng s) x (t_partner s) (t_committed s) (t_offerer s) (t_pgain s) (t_pval s) (t_canmove s) (t_pvalue s) (t_poffer s) (t_panswer s) (t_pgainm s) (t_pgo s) (t_orc s) (t_fin s).
Definition set_t_partner (s : m2st) (x : option Z) : m2st := mkT (t_state s) (t_cycle s) (t_value s) (t_cost s) (t_nv s) (t_ng s) (t_offers s) x (t_committed s) (t_offerer s) (t_pgain s) (t_pval s) (t_canmove s) (t_pvalue s) (t_poffer s) (t_panswer s) (t_pgainm s) (t_pgo s) (t_orc s) (t_fin s).
Definition set_t_committed (s : m2st) (x : bool) : m2st := mkT (t_state s) (t_cycle s) (t_value s) (t_cost s) (t_nv s) (t_ng s) (t_offers s) (t_partner s) x (t_offerer s) (t_pgain s) (t_pval s) (t_canmove s) (t_pvalue s) (t_poffer s) (t_panswer s) (t_pgainm s) (t_pgo s) (t_orc s) (t_fin s).
Definition set_t_offerer (s : m2st) (x : bool) : m2st := mkT (t_state s) (t_cycle s) (t_value s) (t_cost s) (t_nv s) (t_ng s) (t_offers s) (t_partner s) (t_committed s) x (t_pgain s) (t_pval s) (t_canmove s) (t_pvalue s) (t_poffer s) (t_panswer s) (t_pgainm s) (t_pgo s) (t_orc s) (t_fin s).
Definition set_t_pgain (s : m2st) (x : Z) : m2st := mkT (t_state s) (t_cycle s) (t_value s) (t_cost s) (t_nv s) (t_ng s) (t_offers s) (t_partner s) (t_committed s) (t_offerer s) x (t_pval s) (t_canmove s) (t_pvalue s) (t_poffer s) (t_panswer s) (t_pgainm s) (t_pgo s) (t_orc s) (t_fin s).
Definition set_t_pval (s : m2st) (x : option Z) : m2st := mkT (t_state s) (t_cycle s) (t_value s) (t_cost s) (t_nv s) (t_ng s) (t_offers s) (t_partner s) (t_committed s) (t_offerer s) (t_pgain s) x (t_canmove s) (t_pvalue s) (t_poffer s) (t_panswer s) (t_pgainm s) (t_pgo s) (t_orc s) (t_fin s).
Definition set_t_canmove (s : m2st) (x : bool) : m2st := mkT (t_state s) (t_cycle s) (t_value s) (t_cost s) (t_nv s) (t_ng s) (t_offers s) (t_partner s) (t_committed s) (t_offerer s) (t_pgain s) (t_pval s) x (t_pvalue s) (t_poffer s) (t_panswer s) (t_pgainm s) (t_pgo s) (t_orc s) (t_fin s).
Definition set_t_pvalue (s : m2st) (x : list (Z * m2msg)) : m2st := mkT (t_state s) (t_cycle s) (t_value s) (t_cost s) (t_nv s) (t_ng s) (t_offers s) (t_partner s) (t_committed s) (t_offerer s) (t_pgain s) (t_pval s) (t_canmove s) x (t_poffer s) (t_panswer s) (t_pgainm s) (t_pgo s) (t_orc s) (t_fin s).
Definition set_t_poffer (s : m2st) (x : list (Z * m2msg)) : m2st := mkT (t_state s) (t_cycle s) (t_value s) (t_cost s) (t_nv s) (t_ng s) (t_offers s) (t_partner s) (t_committed s) (t_offerer s) (t_pgain s) (t_pval s) (t_canmove s) (t_pvalue s) x (t_panswer s) (t_pgainm s) (t_pgo s) (t_orc s) (t_fin s).
Definition set_t_panswer (s : m2st) (x : list (Z * m2msg)) : m2st := mkT (t_state s) (t_cycle s) (t_value s) (t_cost s) (t_nv s) (t_ng s) (t_offers s) (t_partner s) (t_committed s) (t_offerer s) (t_pgain s) (t_pval s) (t_canmove s) (t_pvalue s) (t_poffer s) x (t_pgainm s) (t_pgo s) (t_orc s) (t_fin s).
Definition set_t_pgainm (s : m2st) (x : list (Z * m2msg)) : m2st := mkT (t_state s) (t_cycle s) (t_value s) (t_cost s) (t_nv s) (t_ng s) (t_offers s) (t_partner s) (t_committed s) (t_offerer s) (t_pgain s) (t_pval s) (t_canmove s) (t_pvalue s) (t_poffer s) (t_panswer s) x (t_pgo s) (t_orc s) (t_fin s).
Definition set_t_pgo (s : m2st) (x : list (Z * m2msg)) : m2st := mkT (t_state s) (t_cycle s) (t_value s) (t_cost s) (t_nv s) (t_ng s) (t_offers s) (t_partner s) (t_committed s) (t_offerer s) (t_pgain s) (t_pval s) (t_canmove s) (t_pvalue s) (t_poffer s) (t_panswer s) (t_pgainm s) x (t_orc s) (t_fin s).
Definition set_t_orc (s : m2st) (x : list Z) : m2st := mkT (t_state s) (t_cycle s) (t_value s) (t_cost s) (t_nv s) (t_ng s) (t_offers s) (t_partner s) (t_committed s) (t_offerer s) (t_pgain s) (t_pval s) (t_canmove s) (t_pvalue s) (t_poffer s) (t_panswer s) (t_pgainm s) (t_pgo s) x (t_fin s).
Definition set_t_fin (s : m2st) (x : Z) : m2st := mkT (t_state s) (t_cycle s) (t_value s) (t_cost s) (t_nv s) (t_ng s) (t_offers s) (t_partner s) (t_committed s) (t_offerer s) (t_pgain s) (t_pval s) (t_canmove s) (t_pvalue s) (t_poffer s) (t_panswer s) (t_pgainm s) (t_pgo s) (t_orc s) x.

Definition res2 := (m2st * list (node * m2msg) * list mev)%type.
Definition andthen2 (r : res2) (f : m2st -> res2) : res2 :=
  let '(s, o, e) := r in let '(s', o', e') := f s in (s', o ++ o', e ++ e').
Definition ret2 (s : m2st) : res2 := (s, [], []).

Definition kind_of (m : m2msg) : Z :=
  match m with M2Value _ => 1 | M2Offer _ _ => 2 | M2Answer _ _ _ => 3 | M2Gain _ => 4 | M2Go _ => 5 end.
Definition get_post (s : m2st) (k : Z) : list (Z * m2msg) :=
  if k =? 1 then t_pvalue s else if k =? 2 then t_poffer s else if k =? 3 then t_panswer s
  else if k =? 4 then t_pgainm s else t_pgo s.
Definition set_post (s : m2st) (k : Z) (l : list (Z * m2msg)) : m2st :=
  if k =? 1 then set_t_pvalue s l else if k =? 2 then set_t_poffer s l else if k =? 3 then set_t_panswer s l
  else if k =? 4 then set_t_pgainm s l else set_t_pgo s l.

Fixpoint pop_last {A} (l : list A) : option (list A * A) :=
  match l with
  | [] => None
  | x :: r => match pop_last r with None => Some ([], x) | Some (r', y) => Some (x :: r', y) end
  end.

Definition t3_leb (a b : Z * Z * Z) : bool :=
  let '(a1, a2, a3) := a in let '(b1, b2, b3) := b in
  (a1 <? b1) || ((a1 =? b1) && ((a2 <? b2) || ((a2 =? b2) && (a3 <=? b3)))).

Section Mgm2.
  Variable d : dcop.
  Variable stop : Z.
  Variable thr : Z.              (* threshold * 1000 *)
  Variable favor : Z.            (* 0 unilateral, 1 no, 2 coordinated *)
  Variable orc : node -> list Z.

  Section Node.
  Variable n : node.
  Let nb := nbrs d n.
  Let mx := d_max d.

  Definition cost_at (cs : list constr) (f : Z -> Z) : Z := zsum (map (fun c => ceval c f) cs).
  (* _compute_cost: the constraints of the node and the cost of its own value (mgm2 own-cost fix) *)
  Definition local_at (f : Z -> Z) : Z := cost_at (cons_of d n) f + vcost d n (f n).
  Definition view1 (nv : list (Z * Z)) (x : Z) : Z -> Z := fun v => if v =? n then x else aget nv v.
  Definition view2 (nv : list (Z * Z)) (x p xp : Z) : Z -> Z :=
    fun v => if v =? n then x else if v =? p then xp else aget nv v.

  Definition cur2 (s : m2st) : Z := match t_value s with Some v => v | None => 0 end.
  Definition cost2 (s : m2st) : Z := match t_cost s with Some v => v | None => 0 end.

  Definition value_selection2 (s : m2st) (v : Z) (c : option Z) : res2 :=
    (set_t_cost (set_t_value s (Some v)) c, [],
     if option_eqb Z.eqb (t_value s) (Some v) then [] else [EvValue n v c (t_cycle s)]).

  Definition send_value2 (s : m2st) : res2 :=
    let k := t_cycle s + 1 in
    let s1 := set_t_cycle s k in
    if negb (stop =? 0) && (stop <=? k) then (set_t_fin s1 (t_fin s1 + 1), [], [EvCycle n k; EvFinished n k])
    else (s1, map (fun t => (t, M2Value (cur2 s1))) nb, [EvCycle n k]).

  Definition send_gain2 (s : m2st) : res2 := (s, map (fun t => (t, M2Gain (t_pgain s))) nb, []).

  Definition compute_best_value2 (nv : list (Z * Z)) : list Z * Z :=
    find_arg_optimal mx (fun x => local_at (view1 nv x)) (dom_of d n).

  (* _compute_offers_to_send: partner's domain outermost *)
  Definition compute_offers (s : m2st) (p : Z) : list (Z * Z * Z) :=
    flat_map (fun dp => flat_map (fun ds =>
        let c := local_at (view2 (t_nv s) ds p dp) in
        if better mx c (cost2 s) then [(ds, dp, cost2 s - c)] else []) (dom_of d n)) (dom_of d p).

  (* _find_best_offer *)
  Definition find_best_offer (s : m2st) (all : list (Z * list (Z * Z * Z))) : list (Z * Z * Z) * Z :=
    fold_left (fun acc po =>
      let p := fst po in
      let concerned := filter (fun c => negb (zmem p (c_scope c))) (cons_of d n) in
      fold_left (fun acc2 o =>
        let '(vp, vme, pg) := o in
        let '(bests, best) := acc2 in
        let gg := cost2 s - cost_at concerned (view2 (t_nv s) vme p vp) + pg in
        if (if mx then gg <? best else best <? gg) then ([(vp, vme, p)], gg)
        else if gg =? best then (bests ++ [(vp, vme, p)], best)
        else acc2) (snd po) acc) all ([], 0).

  Definition clear_agent (s : m2st) : m2st :=
    set_t_canmove (set_t_pval (set_t_pgain (set_t_offerer (set_t_committed (set_t_partner
      (set_t_offers (set_t_ng (set_t_nv s []) []) []) None) false) false) 0) None) false.

  Definition opt_is (o : option Z) (x : Z) : bool := match o with Some y => x =? y | None => false end.

  Section Handlers.
  Variable enter : Z -> m2st -> res2.          (* _enter_state *)

  Definition handle_value_messages (s : m2st) : res2 :=
    let s1 := set_t_cost s (Some (local_at (view1 (t_nv s) (cur2 s)))) in
    let '(k, o1) := draw (t_orc s1) in
    let '(partner, o2) := if k <? thr then let '(x, o) := draw o1 in (Some (choose nb x 0), o) else (None, o1) in
    let s2 := set_t_orc (set_t_offerer (set_t_partner s1 partner) (k <? thr)) o2 in
    let outs := map (fun t => if opt_is partner t then (t, M2Offer true (compute_offers s2 t))
                              else (t, M2Offer false [])) nb in
    let '(vals, best) := compute_best_value2 (t_nv s2) in
    let pg := cost2 s2 - best in
    let improving := if mx then pg <? 0 else 0 <? pg in
    let '(pv, o3) := if improving then let '(x, o) := draw (t_orc s2) in (choose vals x (cur2 s2), o)
                     else (cur2 s2, t_orc s2) in
    let s3 := set_t_orc (set_t_pval (set_t_pgain s2 pg) (Some pv)) o3 in
    andthen2 (s3, outs, []) (enter 2).

  Definition offering (l : list (Z * m2msg)) : list (Z * list (Z * Z * Z)) :=
    flat_map (fun sm => match snd sm with M2Offer true os => [(fst sm, os)] | _ => [] end) l.

  Definition handle_offer_messages (s : m2st) : res2 :=
    if t_offerer s then
      andthen2 (s, map (fun so => (fst so, M2Answer false None None)) (offering (t_offers s)), []) (enter 3)
    else
      let '(bests, gain) := find_best_offer s (offering (t_offers s)) in
      let nobest := match bests with [] => true | _ => false end in
      let '(committed, o1) :=
        if (gain =? 0) || nobest then (false, t_orc s)
        else if (if mx then gain <? t_pgain s else t_pgain s <? gain) then (true, t_orc s)
        else if gain =? t_pgain s then
          if favor =? 2 then (true, t_orc s)
          else if favor =? 1 then let '(k, o) := draw (t_orc s) in (500 <? k, o)
          else (false, t_orc s)
        else (false, t_orc s) in
      let s1 := set_t_orc (set_t_committed s committed) o1 in
      let '(s2, valp) :=
        if committed then
          let '(x, o) := draw (t_orc s1) in
          let sorted := isort t3_leb bests in
          let '(vp, vme, p) := nth (Z.to_nat (x mod (zlen sorted))) sorted (0, 0, 0) in
          (set_t_orc (set_t_partner (set_t_pgain (set_t_pval s1 (Some vme)) gain) (Some p)) o, Some vp)
        else (s1, None) in
      let answers := map (fun so => if opt_is (t_partner s2) (fst so) then (fst so, M2Answer true valp (Some gain))
                                    else (fst so, M2Answer false None None)) (offering (t_offers s2)) in
      andthen2 (andthen2 (s2, answers, []) send_gain2) (enter 4).

  Definition handle_response (s : m2st) (src : Z) (acc : bool) (v g : option Z) : res2 :=
    if negb (opt_is (t_partner s) src) || negb (t_offerer s) then (s, [], [EvErr n 1])
    else
      let s1 := if acc then set_t_committed (set_t_pgain (set_t_pval s v) (match g with Some x => x | None => 0 end)) true
                else set_t_committed s false in
      andthen2 (send_gain2 s1) (enter 4).

  (* best signed gain of a list: max when minimising, min when maximising *)
  Definition bestl (l : list Z) : Z :=
    match l with [] => 0 | x :: r => fold_left (fun a b => if mx then Z.min a b else Z.max a b) r x end.

  Definition finish_cycle (s : m2st) : res2 := andthen2 (send_value2 (clear_agent s)) (enter 1).

  Definition handle_gain_messages (s : m2st) : res2 :=
    if t_pgain s =? 0 then finish_cycle s
    else if t_committed s then
      match t_partner s with
      | None => (s, [], [EvErr n 1])
      | Some p =>
          let others := map snd (filter (fun q => negb (fst q =? p)) (t_ng s)) in
          let go := match others with [] => true | _ => if mx then t_pgain s <? bestl others else bestl others <? t_pgain s end in
          andthen2 (set_t_canmove s go, [(p, M2Go go)], []) (enter 5)
      end
    else
      let mxn := bestl (map snd (t_ng s)) in
      let moves := (if mx then t_pgain s <? mxn else mxn <? t_pgain s)
                   || ((t_pgain s =? mxn) && forallb (fun q => negb (snd q =? mxn) || (n <? fst q)) (t_ng s)) in
      let r := if moves then value_selection2 s (match t_pval s with Some v => v | None => 0 end) (Some (cost2 s - t_pgain s))
               else ret2 s in
      andthen2 r finish_cycle.

  Definition handle_go (s : m2st) (go : bool) : res2 :=
    let r := if go && t_canmove s
             then value_selection2 s (match t_pval s with Some v => v | None => 0 end) (Some (cost2 s - t_pgain s))
             else ret2 s in
    andthen2 r finish_cycle.

  (* the registered handlers on_value_msg ... on_go_msg *)
  Definition on_msg (s : m2st) (src : Z) (m : m2msg) : res2 :=
    let k := kind_of m in
    if negb (t_state s =? k) then ret2 (set_post s k (get_post s k ++ [(src, m)]))
    else match m with
         | M2Value v =>
             let s1 := set_t_nv s (dict_set Z.eqb src v (t_nv s)) in
             if zlen (t_nv s1) =? zlen nb then handle_value_messages s1 else ret2 s1
         | M2Gain g =>
             let s1 := set_t_ng s (dict_set Z.eqb src g (t_ng s)) in
             if zlen (t_ng s1) =? zlen nb then handle_gain_messages s1 else ret2 s1
         | M2Offer _ _ =>
             let s1 := set_t_offers s (t_offers s ++ [(src, m)]) in
             if zlen (t_offers s1) =? zlen nb then handle_offer_messages s1 else ret2 s1
         | M2Answer a v g => handle_response s src a v g
         | M2Go go => handle_go s go
         end.
  End Handlers.

  (* _enter_state: set the state, then pop the postponed messages of that state from the end and
     dispatch them again *)
  Fixpoint enter (fuel : nat) (st : Z) (s : m2st) : res2 :=
    match fuel with
    | O => (s, [], [EvErr n 7])
    | S f => loop f st (set_t_state s st)
    end
  with loop (fuel : nat) (st : Z) (s : m2st) : res2 :=
    match pop_last (get_post s st) with
    | None => ret2 s
    | Some (rest, (src, m)) =>
        match fuel with
        | O => (s, [], [EvErr n 7])
        | S f => andthen2 (on_msg (enter f) (set_post s st rest) src m) (loop f st)
        end
    end.

  Definition FUEL : nat := 60%nat.

  Definition mgm2_start (s : m2st) : res2 :=
    match nb with
    | [] =>
        let '(vals, cost) := compute_best_value2 [] in
        let '(x, o) := draw (t_orc s) in
        andthen2 (value_selection2 (set_t_orc s o) (choose vals x 0) (Some cost))
                 (fun s1 => (set_t_fin s1 (t_fin s1 + 1), [], [EvFinished n (t_cycle s1)]))
    | _ =>
        let '(v0, o) := match v_init (var_of d n) with
                        | Some v => (v, t_orc s)
                        | None => let '(x, o) := draw (t_orc s) in (choose (dom_of d n) x 0, o)
                        end in
        andthen2 (andthen2 (value_selection2 (set_t_orc s o) v0 None) send_value2) (enter FUEL 1)
    end.

  Definition mgm2_recv (s : m2st) (src : node) (m : m2msg) : res2 := on_msg (enter FUEL) s src m.

  Definition mgm2_init : m2st :=
    mkT 0 0 None None [] [] [] None false false 0 None false [] [] [] [] [] (orc n) 0.
  End Node.

  Definition mgm2_proto : proto m2st m2msg mev := mkProto mgm2_init mgm2_start mgm2_recv.
End Mgm2.

(* ------------------------------------------------------------------ correspondence *)
Definition t3_eqb (a b : Z * Z * Z) : bool :=
  let '(a1, a2, a3) := a in let '(b1, b2, b3) := b in (a1 =? b1) && (a2 =? b2) && (a3 =? b3).
(* offers are compared as sets (the wire format is a dict): both sides sorted *)
Definition m2msg_eqb (a b : m2msg) : bool :=
  match a, b with
  | M2Value x, M2Value y => x =? y
  | M2Gain x, M2Gain y => x =? y
  | M2Offer o l, M2Offer o' l' => Bool.eqb o o' && list_eqb t3_eqb (isort t3_leb l) (isort t3_leb l')
  | M2Answer a v g, M2Answer a' v' g' => Bool.eqb a a' && oz_eqb v v' && oz_eqb g g'
  | M2Go x, M2Go y => Bool.eqb x y
  | _, _ => false
  end.
Definition sm_eqb (a b : Z * m2msg) : bool := (fst a =? fst b) && m2msg_eqb (snd a) (snd b).

Record n2obs := mkN2 {
  o2_state : Z; o2_cycle : Z; o2_value : option Z; o2_cost : option Z;
  o2_nv : list (Z * Z); o2_ng : list (Z * Z); o2_offers : list (Z * m2msg);
  o2_partner : option Z; o2_committed : bool; o2_offerer : bool; o2_pgain : Z; o2_pval : option Z;
  o2_canmove : bool;
  o2_post : list (list (Z * m2msg))      (* value, offer, answer?, gain, go? *)
}.
Definition n2obs_ok (s : m2st) (o : n2obs) : bool :=
  (t_state s =? o2_state o) && (t_cycle s =? o2_cycle o) && oz_eqb (t_value s) (o2_value o)
  && oz_eqb (t_cost s) (o2_cost o)
  && list_eqb zz_eqb (sort_kv (t_nv s)) (o2_nv o) && list_eqb zz_eqb (sort_kv (t_ng s)) (o2_ng o)
  && list_eqb sm_eqb (t_offers s) (o2_offers o)
  && oz_eqb (t_partner s) (o2_partner o) && Bool.eqb (t_committed s) (o2_committed o)
  && Bool.eqb (t_offerer s) (o2_offerer o) && (t_pgain s =? o2_pgain o) && oz_eqb (t_pval s) (o2_pval o)
  && Bool.eqb (t_canmove s) (o2_canmove o)
  && list_eqb (list_eqb sm_eqb) [t_pvalue s; t_poffer s; t_panswer s; t_pgainm s; t_pgo s] (o2_post o).

Record case2 := mkCase2 {
  k2_dcop : dcop; k2_stop : Z; k2_thr : Z; k2_favor : Z; k2_orc : list (Z * list Z);
  k2_sched : list (@action);
  k2_events : list mev;
  k2_nodes : list (Z * n2obs);
  k2_chans : list (Z * Z * list m2msg);
  k2_nbrs : list (Z * list Z)
}.

Definition check_case2 (c : case2) : bool :=
  let P := mgm2_proto (k2_dcop c) (k2_stop c) (k2_thr c) (k2_favor c) (orc_of (k2_orc c)) in
  let '(cf, evs) := run P (k2_sched c) in
  let ids := map fst (d_vars (k2_dcop c)) in
  list_eqb mev_eqb evs (k2_events c)
  && forallb (fun no => n2obs_ok (w_st (nodes cf (fst no))) (snd no)) (k2_nodes c)
  && forallb (fun s => forallb (fun t => list_eqb m2msg_eqb (chan cf s t) (chan_expected (k2_chans c) s t)) ids) ids
  && forallb (fun nl => list_eqb Z.eqb (nbrs (k2_dcop c) (fst nl)) (snd nl)) (k2_nbrs c).
