(* P_SelectBB.v -- C10 for the SyncBB model of M_SyncBB.v: for EVERY schedule, every value a
   computation selects is a member of its variable's domain.  No hypothesis on the problem
   (no WF, no sign condition on the costs, labels of the path elements are irrelevant).

   The value selected on a Backward message is MESSAGE-BORNE (the head of the received path), so
   the proof carries an invariant over all messages in flight (channels and pre-start buffers):
   a Forward path delivered to k holds, from its head, values of dom (k-1), dom (k-2), ... and a
   Backward path delivered to k holds values of dom k, dom (k-1), ... *)
From Coq Require Import Lia.
From PyDcop Require Import Base Net P_SelectNet M_SyncBB.

Section BB.
  Variable is_min : bool.
  Variable nvars : Z.
  Variable dom : Z -> list Z.
  Variable pc : Z -> Z -> Z -> Z -> Z.

  Let PB := syncbb_proto is_min nvars dom pc.

  Fixpoint pok (top : Z) (rp : rpath) : Prop :=
    match rp with
    | [] => True
    | (_, val, _) :: r => In val (dom top) /\ pok (top - 1) r
    end.

  Definition bMok (src dst : node) (m : msg) : Prop :=
    match m with
    | Forward rp _ => pok (dst - 1) rp
    | Backward rp _ => pok dst rp
    | Terminate => True
    end.
  Definition bJ (n : node) (s : nst) : Prop := forall v, value s = Some v -> In v (dom n).
  Definition bPev (e : ev) : Prop := match e with EvSel n v _ => In v (dom n) | _ => True end.

  Lemma after_incl' cur d x : In x (after cur d) -> In x d.
  Proof. induction d as [|v r IH]; simpl; auto. destruct (v =? cur); auto. Qed.

  Lemma candidates_incl j cur x : In x (candidates dom j cur) -> In x (dom j).
  Proof. unfold candidates. destruct cur; auto. apply after_incl'. Qed.

  Lemma first_ok_In cands rp j u v c : first_ok is_min pc cands rp j u = Some (v, c) -> In v cands.
  Proof.
    induction cands as [|x r IH]; simpl; [discriminate|].
    destruct (scan is_min pc rp j x u).
    - intros H; inversion H; subst. left; auto.
    - intros H. right; auto.
  Qed.

  Lemma next_assignment_In j cur rp u v c :
    next_assignment is_min dom pc j cur rp u = Some (v, c) -> In v (dom j).
  Proof. unfold next_assignment. intros H. apply first_ok_In in H. eapply candidates_incl; eauto. Qed.

  Lemma last_loop_In cands rp j u pb : forall bv bb bv' bb',
    last_loop is_min pc cands rp j u pb bv bb = (bv', bb') ->
    bv' = bv \/ exists v, bv' = Some v /\ In v cands.
  Proof.
    induction cands as [|x r IH]; intros bv bb bv' bb' H; cbn [last_loop] in H.
    - inversion H; auto.
    - destruct (scan is_min pc rp j x u) as [c|].
      + destruct (better is_min (Some (pb + c)) bb).
        * apply IH in H. destruct H as [->|(v & -> & Hv)];
            [right; exists x; split; [reflexivity|left; reflexivity]|right; exists v; split; [reflexivity|right; exact Hv]].
        * apply IH in H. destruct H as [->|(v & -> & Hv)];
            [left; reflexivity|right; exists v; split; [reflexivity|right; exact Hv]].
      + apply IH in H. destruct H as [->|(v & -> & Hv)];
          [left; reflexivity|right; exists v; split; [reflexivity|right; exact Hv]].
  Qed.

  Lemma select_ok k s v c s' e : bJ k s -> In v (dom k) -> select k s v c = (s', e) ->
    bJ k s' /\ Forall bPev e /\ ub s' = ub s.
  Proof.
    unfold select. intros HJ Hv. destruct (option_eqb Z.eqb (value s) (Some v)); intros H; inversion H; subst.
    - repeat split; auto.
    - repeat split; auto; try (intros w Hw; simpl in Hw; inversion Hw; subst; auto);
        try (repeat constructor; exact Hv).
  Qed.

  Lemma bJ_set_ub k s u : bJ k s -> bJ k (set_ub s u).
  Proof. unfold bJ, set_ub; simpl; auto. Qed.
  Lemma bJ_finish k s : bJ k s -> bJ k (finish s).
  Proof. unfold bJ, finish; simpl; auto. Qed.

  Definition bouts (n : node) (outs : list (node * msg)) : Prop := outs_ok bMok n outs.

  Lemma bouts1 k d m : bMok k d m -> bouts k [(d, m)].
  Proof. intros H. constructor; [exact H|constructor]. Qed.
  Lemma bouts0 k : bouts k [].
  Proof. constructor. Qed.
  Lemma pev_other l : (forall e, In e l -> match e with EvSel _ _ _ => False | _ => True end) -> Forall bPev l.
  Proof. intros H. rewrite Forall_forall. intros e He. specialize (H e He). destruct e; simpl; tauto. Qed.
  Ltac quiet := apply pev_other; simpl; intros ? Hq; repeat (destruct Hq as [<-|Hq]; [exact I|]); contradiction.

  Lemma on_start_ok k s s' outs e : bJ k s -> on_start nvars dom k s = (s', outs, e) ->
    bJ k s' /\ bouts k outs /\ Forall bPev e.
  Proof.
    intros HJ. unfold on_start. destruct (is_first k).
    - destruct (dom k) as [|d0 r] eqn:Ed.
      + intros H; inversion H; subst. split; [exact HJ|]. split; [apply bouts0|quiet].
      + destruct (has_next nvars k).
        * intros H; inversion H; subst. split; [exact HJ|]. split; [|quiet].
          apply bouts1. simpl. replace (k + 1 - 1) with k by lia. rewrite Ed. split; [left; reflexivity|exact I].
        * destruct (select k s d0 (Some 0)) as [s1 e1] eqn:Es.
          assert (Hd0 : In d0 (dom k)) by (rewrite Ed; left; reflexivity).
          pose proof (select_ok _ _ _ _ _ _ HJ Hd0 Es) as (A & B & _).
          intros H; inversion H; subst. split; [apply bJ_finish; auto|]. split; [apply bouts0|].
          apply Forall_app. split; [exact B|quiet].
    - intros H; inversion H; subst. split; [exact HJ|]. split; [apply bouts0|constructor].
  Qed.

  Lemma on_forward_ok k s rp s' outs e : bJ k s -> pok (k - 1) rp ->
    on_forward is_min nvars dom pc k s rp = (s', outs, e) ->
    bJ k s' /\ bouts k outs /\ Forall bPev e.
  Proof.
    intros HJ Hp. unfold on_forward.
    destruct (next_assignment is_min dom pc k None rp (ub s)) as [[v c]|] eqn:En.
    - apply next_assignment_In in En. destruct (has_next nvars k).
      + intros H; inversion H; subst. split; [exact HJ|]. split; [|quiet].
        apply bouts1. simpl. replace (k + 1 - 1) with k by lia. split; assumption.
      + destruct (last_loop is_min pc (dom k) rp k (ub s) (path_bound rp) None (ub s)) as [bv bb] eqn:El.
        apply last_loop_In in El.
        match goal with |- context [let '(s1, e1) := ?X in _] => destruct X as [s1 e1] eqn:Es end.
        assert (Hs : bJ k s1 /\ Forall bPev e1).
        { destruct bv as [b|].
          - destruct El as [El|(w & Ew & Hw)]; [discriminate|]. inversion Ew; subst.
            pose proof (select_ok _ _ _ _ _ _ (bJ_set_ub _ _ bb HJ) Hw Es) as (A & B & _). split; assumption.
          - inversion Es; subst. split; auto. }
        destruct Hs as [A B].
        intros H; inversion H; subst. split; [exact A|]. split.
        * apply bouts1. simpl. exact Hp.
        * apply Forall_app. split; [exact B|quiet].
    - destruct (is_first k).
      + intros H; inversion H; subst. split; [apply bJ_finish; auto|]. split; [apply bouts1; exact I|quiet].
      + intros H; inversion H; subst. split; [exact HJ|]. split; [apply bouts1; simpl; exact Hp|quiet].
  Qed.

  Lemma on_backward_ok k s rp u s' outs e : bJ k s -> pok k rp ->
    on_backward is_min dom pc k s rp u = (s', outs, e) ->
    bJ k s' /\ bouts k outs /\ Forall bPev e.
  Proof.
    intros HJ Hp. unfold on_backward. destruct rp as [|[[var val] c0] rest].
    - intros H; inversion H; subst. split; [exact HJ|]. split; [apply bouts0|quiet].
    - simpl in Hp. destruct Hp as [Hval Hrest].
      match goal with |- context [let '(s1, e1) := ?X in _] => destruct X as [s1 e1] eqn:Es end.
      assert (Hs : bJ k s1 /\ Forall bPev e1).
      { revert Es. destruct (better is_min u (ub s)); intros Es.
        - pose proof (select_ok _ _ _ _ _ _ (bJ_set_ub _ _ u HJ) Hval Es) as (A & B & _). split; assumption.
        - inversion Es; subst. split; auto. }
      destruct Hs as [A B].
      destruct (negb (var =? k)).
      + intros H; inversion H; subst. split; [exact A|]. split; [apply bouts0|].
        apply Forall_app. split; [exact B|quiet].
      + destruct (next_assignment is_min dom pc k (Some val) rest (ub s1)) as [[v2 c2]|] eqn:En.
        * apply next_assignment_In in En.
          intros H; inversion H; subst. split; [exact A|]. split.
          -- apply bouts1. simpl. replace (k + 1 - 1) with k by lia. split; assumption.
          -- apply Forall_app. split; [exact B|quiet].
        * destruct (is_first k).
          -- intros H; inversion H; subst. split; [apply bJ_finish; auto|]. split; [apply bouts1; exact I|].
             apply Forall_app. split; [exact B|quiet].
          -- intros H; inversion H; subst. split; [exact A|]. split.
             ++ apply bouts1. simpl. exact Hrest.
             ++ apply Forall_app. split; [exact B|quiet].
  Qed.

  Lemma on_terminate_ok k s s' outs e : bJ k s -> on_terminate nvars k s = (s', outs, e) ->
    bJ k s' /\ bouts k outs /\ Forall bPev e.
  Proof.
    intros HJ. unfold on_terminate. destruct (has_next nvars k); intros H; inversion H; subst;
      (split; [apply bJ_finish; auto|]); (split; [first [apply bouts1; exact I|apply bouts0]|quiet]).
  Qed.

  (* C10 for SyncBB, every schedule, every problem *)
  Theorem syncbb_selects_in_domain_l : forall sched,
    (forall n v c, In (EvSel n v c) (snd (run PB sched)) -> In v (dom n)) /\
    (forall n v, value (w_st (nodes (fst (run PB sched)) n)) = Some v -> In v (dom n)) /\
    (forall s d m, In m (chan (fst (run PB sched)) s d) -> bMok s d m).
  Proof.
    intros sched.
    assert (Hi : forall n, bJ n (p_init PB n)) by (intros n v H; discriminate).
    assert (Hs : forall n s s' outs evs, bJ n s -> p_start PB n s = (s', outs, evs) ->
              bJ n s' /\ outs_ok bMok n outs /\ Forall bPev evs).
    { intros n s s' outs evs HJ Hq. simpl in Hq. eapply on_start_ok; eauto. }
    assert (Hr : forall n s src m s' outs evs, bJ n s -> bMok src n m -> p_recv PB n s src m = (s', outs, evs) ->
              bJ n s' /\ outs_ok bMok n outs /\ Forall bPev evs).
    { intros n s src m s' outs evs HJ Hm Hq. simpl in Hq. unfold on_recv in Hq. destruct m; simpl in Hm.
      - eapply on_forward_ok; eauto.
      - eapply on_backward_ok; eauto.
      - eapply on_terminate_ok; eauto. }
    destruct (net_inv PB bJ bMok bPev Hi Hs Hr sched) as [(G1 & G2 & G3) G4].
    split; [|split].
    - intros n v c Hin. rewrite Forall_forall in G4. apply (G4 _ Hin).
    - intros n v. apply G1.
    - intros s d m Hin. specialize (G3 s d). rewrite Forall_forall in G3. auto.
  Qed.
End BB.
