(* M_Dba.v -- executable model of pydcop/algorithms/dba.py (DbaComputation), property C09.
   The computation is a [proto] of Net.v: one state per variable, three message kinds
   (dba_ok, dba_improve, dba_end).  Modelled: on_start, _on_ok_msg/_handle_ok_message,
   improve, _compute_best_improvement, compute_eval_value (weights), _send_improve,
   _go_to_wait_improve_mode / _go_to_wait_ok_mode with their postponed-message replay,
   _on_improve_msg/_handle_improve_message (termination counter by min, can_move, quasi local
   minimum, consistent), _send_ok (new_cycle, counter increment, stop_condition, weight increase,
   value_selection), _on_end_msg/_send_end_msg, the IndexError of random.choice([]) and the quirk
   that a computation that stopped through stop_condition is put back in 'ok' mode by
   _handle_improve_message (so it calls finished() a second time on the first dba_end it receives).
   Randomness (random.choice) is an explicit per-node list of drawn indices.
   Second half: the synchronous-round semantics [sround] built from the same node-local functions.
   Models only; proofs in P_Dba.v. *)
From PyDcop Require Import Base Net.

Inductive dmode := Starting | OkM | ImpM | FinM.
Inductive dmsg := MOk (v : Z) | MImp (improve ceval tc : Z) | MEnd.
Inductive dev :=
| EvSelect (n : node) (v : Z) (cost : option Z) (cycle : Z)   (* _on_value_selection(v, cost, cycle_count) *)
| EvCycle (n : node) (k : Z)                                  (* _on_new_cycle(k) *)
| EvFinished (n : node)                                       (* finished() *)
| EvRaise (n : node) (kind : Z).   (* 1 = IndexError of random.choice([]) ; 9 = nested replay of a
                                      non-empty postponed list (outside the model, proved unreachable) *)

(* a constraint: scope (variable ids) and cost table (value tuple -> cost, 0 when absent) *)
Definition constr := (list node * list (list Z * Z))%type.

Record dst := mkD {
  d_mode : dmode;                    (* _mode *)
  d_value : option Z;                (* current_value (= _previous_val) *)
  d_cost : option Z;                 (* __cost__ *)
  d_w : list Z;                      (* __constraints_weights__ *)
  d_viol : list nat;                 (* _violated_constraints *)
  d_nvals : list (node * Z);         (* _neighbors_values (dict, insertion order) *)
  d_nimps : list node;               (* keys of _neighbors_improvements *)
  d_pok : list (node * Z);           (* __postponed_ok_messages__ *)
  d_pimp : list (node * (Z * Z * Z));(* __postponed_improve_messages__ : (improve, eval, counter) *)
  d_tc : Z;                          (* _termination_counter *)
  d_cons : option bool;              (* _consistent (None at construction) *)
  d_can : bool;                      (* _can_move *)
  d_qlm : bool;                      (* _quasi_local_minimum *)
  d_imp : Z;                         (* _my_improve *)
  d_new : option Z;                  (* _new_value *)
  d_cycle : Z;                       (* cycle_count *)
  d_orc : list Z                     (* remaining random draws of this node *)
}.

Definition set_mode m s := mkD m (d_value s) (d_cost s) (d_w s) (d_viol s) (d_nvals s) (d_nimps s) (d_pok s) (d_pimp s) (d_tc s) (d_cons s) (d_can s) (d_qlm s) (d_imp s) (d_new s) (d_cycle s) (d_orc s).
Definition set_nvals x s := mkD (d_mode s) (d_value s) (d_cost s) (d_w s) (d_viol s) x (d_nimps s) (d_pok s) (d_pimp s) (d_tc s) (d_cons s) (d_can s) (d_qlm s) (d_imp s) (d_new s) (d_cycle s) (d_orc s).
Definition set_pok x s := mkD (d_mode s) (d_value s) (d_cost s) (d_w s) (d_viol s) (d_nvals s) (d_nimps s) x (d_pimp s) (d_tc s) (d_cons s) (d_can s) (d_qlm s) (d_imp s) (d_new s) (d_cycle s) (d_orc s).
Definition set_pimp x s := mkD (d_mode s) (d_value s) (d_cost s) (d_w s) (d_viol s) (d_nvals s) (d_nimps s) (d_pok s) x (d_tc s) (d_cons s) (d_can s) (d_qlm s) (d_imp s) (d_new s) (d_cycle s) (d_orc s).
(* End of a cycle: clear agent view (_neighbors_improvements, _neighbors_values, _violated_constraints) *)
Definition clear_view s := mkD (d_mode s) (d_value s) (d_cost s) (d_w s) [] [] [] (d_pok s) (d_pimp s) (d_tc s) (d_cons s) (d_can s) (d_qlm s) (d_imp s) (d_new s) (d_cycle s) (d_orc s).

Definition oz (o : option Z) : Z := match o with Some x => x | None => 0 end.

(* random.choice(l) with the drawn index supplied by the oracle; None = IndexError (empty l) *)
Definition pick (o : list Z) (l : list Z) : option Z * list Z :=
  match l with
  | [] => (None, o)
  | _ => match o with
         | [] => (nth_error l 0, [])
         | k :: o' => (nth_error l (Z.to_nat (k mod Z.of_nat (List.length l))), o')
         end
  end.

Definition set_add (x : node) (l : list node) : list node := if zmem x l then l else l ++ [x].

(* _increase_weights *)
Fixpoint incr_at (i : nat) (w : list Z) : list Z :=
  match w, i with
  | [], _ => []
  | x :: r, O => (x + 1) :: r
  | x :: r, S k => x :: incr_at k r
  end.
Definition incr_weights (viol : list nat) (w : list Z) : list Z := fold_left (fun w i => incr_at i w) viol w.

Section Dba.
  Variable cs : list constr.            (* all constraints of the problem *)
  Variable ncs : node -> list nat.      (* indices (in cs) of the constraints of a node, in comp.constraints order *)
  Variable dom : node -> list Z.        (* domain values, in order *)
  Variable infinity maxd : Z.           (* algorithm parameters *)
  Variable orc0 : node -> list Z.       (* random draws (indices) per node *)

  Definition node_cs (n : node) : list constr := map (fun i => nth i cs ([], [])) (ncs n).

  (* self._neighbors = set(v.name for c in constraints for v in c.dimensions if v != variable) *)
  Definition nbrs (n : node) : list node :=
    nodup Z.eq_dec (filter (fun v => negb (v =? n)) (flat_map fst (node_cs n))).
  Definition nnb (n : node) : nat := List.length (nbrs n).

  (* value of variable v for node n: own candidate value, or the value received from the neighbour *)
  Definition asg (n : node) (own : Z) (nv : list (node * Z)) (v : node) : Z :=
    if v =? n then own else oz (zlookup v nv).

  Definition c_cost (c : constr) (f : node -> Z) : Z :=
    oz (lookup (list_eqb Z.eqb) (map f (fst c)) (snd c)).

  Definition violated (c : constr) (f : node -> Z) : bool := infinity <=? c_cost c f.

  (* compute_eval_value: (sum of the weights of the violated constraints, their indices) *)
  Fixpoint eval_value (f : node -> Z) (i : nat) (rels : list constr) (w : list Z) : Z * list nat :=
    match rels, w with
    | c :: rs, wi :: ws =>
        let '(e, vl) := eval_value f (S i) rs ws in
        if violated c f then (wi + e, i :: vl) else (e, vl)
    | _, _ => (0, [])
    end.

  Definition eval_at (n : node) (s : dst) (own : Z) : Z * list nat :=
    eval_value (asg n own (d_nvals s)) 0 (node_cs n) (d_w s).

  (* _compute_best_improvement *)
  Fixpoint best_imp (evalf : Z -> Z) (vals : list Z) (bests : list Z) (best : Z) : list Z * Z :=
    match vals with
    | [] => (bests, best)
    | v :: r =>
        let e := evalf v in
        if e <? best then best_imp evalf r [v] e
        else if e =? best then best_imp evalf r (bests ++ [v]) best
        else best_imp evalf r bests best
    end.

  Definition to_all (n : node) (m : dmsg) : list (node * dmsg) := map (fun t => (t, m)) (nbrs n).

  (* the part of _handle_ok_message run once every neighbour value is known:
     __cost__ := eval(current value); improve(reduced constraints).  bool = raised IndexError *)
  Definition do_improve (n : node) (s : dst) : dst * list (node * dmsg) * bool :=
    let cur := oz (d_value s) in
    let '(ce, viol) := eval_at n s cur in
    let '(bests, be) := best_imp (fun v => fst (eval_at n s v)) (dom n) [] infinity in
    let cons := ce =? 0 in
    let tc := if cons then d_tc s else 0 in
    let mi := ce - be in
    if 0 <? mi then
      match pick (d_orc s) bests with
      | (None, o) =>
          (mkD (d_mode s) (d_value s) (Some ce) (d_w s) (d_viol s) (d_nvals s) (d_nimps s) (d_pok s) (d_pimp s)
               tc (Some cons) true false mi (d_new s) (d_cycle s) o, [], true)
      | (Some nv, o) =>
          (mkD (d_mode s) (d_value s) (Some ce) (d_w s) viol (d_nvals s) (d_nimps s) (d_pok s) (d_pimp s)
               tc (Some cons) true false mi (Some nv) (d_cycle s) o, to_all n (MImp mi ce tc), false)
      end
    else
      (mkD (d_mode s) (d_value s) (Some ce) (d_w s) viol (d_nvals s) (d_nimps s) (d_pok s) (d_pimp s)
           tc (Some cons) false true mi (d_new s) (d_cycle s) (d_orc s), to_all n (MImp mi ce tc), false).

  (* first part of _handle_improve_message: one received improve message *)
  Definition imp_core (n : node) (s : dst) (src : node) (m : Z * Z * Z) : dst :=
    let '(mi, me, mtc) := m in
    let tc := Z.min mtc (d_tc s) in
    let can := if d_imp s <? mi then false
               else if (mi =? d_imp s) && (src <? n) then false else d_can s in
    let qlm := if d_imp s <? mi then false else d_qlm s in
    let cons := if 0 <? me then Some false else d_cons s in
    mkD (d_mode s) (d_value s) (d_cost s) (d_w s) (d_viol s) (d_nvals s) (set_add src (d_nimps s)) (d_pok s) (d_pimp s)
        tc cons can qlm (d_imp s) (d_new s) (d_cycle s) (d_orc s).

  (* _send_ok *)
  Definition send_ok (n : node) (s : dst) : dst * list (node * dmsg) * list dev :=
    let cyc := d_cycle s + 1 in
    let cons := match d_cons s with Some true => true | _ => false end in
    let tc := if cons then d_tc s + 1 else d_tc s in
    if cons && (tc =? maxd) then
      (mkD FinM (d_value s) (d_cost s) (d_w s) (d_viol s) (d_nvals s) (d_nimps s) (d_pok s) (d_pimp s)
           tc (d_cons s) (d_can s) (d_qlm s) (d_imp s) (d_new s) cyc (d_orc s),
       to_all n MEnd, [EvCycle n cyc; EvFinished n])
    else
      let w := if d_qlm s then incr_weights (d_viol s) (d_w s) else d_w s in
      let cost' := Some (oz (d_cost s) - d_imp s) in
      let moved := d_can s in
      let changed := moved && negb (option_eqb Z.eqb (d_new s) (d_value s)) in
      let value := if moved then d_new s else d_value s in
      let cost := if moved then cost' else d_cost s in
      (mkD (d_mode s) value cost w (d_viol s) (d_nvals s) (d_nimps s) (d_pok s) (d_pimp s)
           tc (d_cons s) (d_can s) (d_qlm s) (d_imp s) (d_new s) cyc (d_orc s),
       to_all n (MOk (oz value)),
       EvCycle n cyc :: (if changed then [EvSelect n (oz (d_new s)) cost' cyc] else [])).

  (* handler result: state, sent messages, events, raised (the Python call stack was unwound) *)
  Definition res := (dst * list (node * dmsg) * list dev * bool)%type.

  Definition guard_pok (n : node) (s : dst) : res :=
    match d_pok s with [] => (s, [], [], false) | _ => (s, [], [EvRaise n 9], true) end.
  Definition guard_pimp (n : node) (s : dst) : res :=
    match d_pimp s with [] => (s, [], [], false) | _ => (s, [], [EvRaise n 9], true) end.

  (* _handle_ok_message ; [nested] = _go_to_wait_improve_mode after mode := 'improve' *)
  Definition ok_step (n : node) (nested : dst -> res) (s : dst) (src : node) (v : Z) : res :=
    let s1 := set_nvals (dict_set Z.eqb src v (d_nvals s)) s in
    if Nat.eqb (List.length (d_nvals s1)) (nnb n) then
      let '(s2, o2, raised) := do_improve n s1 in
      if raised then (s2, o2, [EvRaise n 1], true)
      else
        let '(s3, o3, e3, r3) := nested (set_mode ImpM s2) in
        (s3, o2 ++ o3, e3, r3)
    else (s1, [], [], false).

  (* _handle_improve_message ; [nested] = _go_to_wait_ok_mode after mode := 'ok' *)
  Definition imp_step (n : node) (nested : dst -> res) (s : dst) (src : node) (m : Z * Z * Z) : res :=
    let s1 := imp_core n s src m in
    if Nat.eqb (List.length (d_nimps s1)) (nnb n) then
      let '(s2, o2, e2) := send_ok n s1 in
      let '(s3, o3, e3, r3) := nested (set_mode OkM (clear_view s2)) in
      (s3, o2 ++ o3, e2 ++ e3, r3)
    else (s1, [], [], false).

  (* for sender, msg in postponed: handle(sender, msg) -- stops when the handler raised *)
  Fixpoint replay {M : Type} (h : dst -> node -> M -> res) (s : dst) (l : list (node * M)) : res :=
    match l with
    | [] => (s, [], [], false)
    | (src, m) :: r =>
        let '(s1, o1, e1, r1) := h s src m in
        if r1 then (s1, o1, e1, true)
        else let '(s2, o2, e2, r2) := replay h s1 r in (s2, o1 ++ o2, e1 ++ e2, r2)
    end.

  (* _go_to_wait_improve_mode reached from a delivered ok message (mode already set) *)
  Definition go_imp (n : node) (s : dst) : res :=
    let '(s1, o, e, r) := replay (imp_step n (guard_pok n)) s (d_pimp s) in
    if r then (s1, o, e, true) else (set_pimp [] s1, o, e, false).

  (* _go_to_wait_ok_mode reached from on_start or a delivered improve message *)
  Definition go_ok (n : node) (s : dst) : res :=
    let '(s1, o, e, r) := replay (ok_step n (guard_pimp n)) s (d_pok s) in
    if r then (s1, o, e, true) else (set_pok [] s1, o, e, false).

  Definition strip (r : res) : dst * list (node * dmsg) * list dev :=
    let '(s, o, e, _) := r in (s, o, e).

  Definition dba_recv (n : node) (s : dst) (src : node) (m : dmsg) : dst * list (node * dmsg) * list dev :=
    match m with
    | MOk v =>
        match d_mode s with
        | OkM => strip (ok_step n (go_imp n) s src v)
        | _ => (set_pok (d_pok s ++ [(src, v)]) s, [], [])
        end
    | MImp mi me mtc =>
        match d_mode s with
        | ImpM => strip (imp_step n (go_ok n) s src (mi, me, mtc))
        | _ => (set_pimp (d_pimp s ++ [(src, (mi, me, mtc))]) s, [], [])
        end
    | MEnd =>
        match d_mode s with
        | FinM => (s, [], [])
        | _ => (set_mode FinM s, to_all n MEnd, [EvFinished n])
        end
    end.

  Definition dba_init (n : node) : dst :=
    mkD Starting None None (map (fun _ => 1) (ncs n)) [] [] [] [] [] 0 None false false 0 None 0 (orc0 n).

  (* on_start: random value, value_selection(v, None), ok to all neighbours, wait_ok mode.
     (an empty domain makes random.choice raise before anything is sent: EvRaise 1, nothing else) *)
  Definition dba_start (n : node) (s : dst) : dst * list (node * dmsg) * list dev :=
    match pick (d_orc s) (dom n) with
    | (None, _) => (s, [], [EvRaise n 1])
    | (Some v, o) =>
        let s1 := mkD (d_mode s) (Some v) None (d_w s) (d_viol s) (d_nvals s) (d_nimps s) (d_pok s) (d_pimp s)
                      (d_tc s) (d_cons s) (d_can s) (d_qlm s) (d_imp s) (d_new s) (d_cycle s) o in
        let '(s2, o2, e2, _) := go_ok n (set_mode OkM s1) in
        (s2, to_all n (MOk v) ++ o2, EvSelect n v None (d_cycle s) :: e2)
    end.

  Definition dba_proto : proto dst dmsg dev := mkProto dba_init dba_start dba_recv.

  (* ------------------------------------------------------------------ the property's vocabulary *)
  (* the assignment held by all computations in a configuration *)
  Definition held (cf : config dst dmsg) (v : node) : Z := oz (d_value (w_st (nodes cf v))).
  (* no constraint of the problem is violated (cost >= infinity) by an assignment *)
  Definition satisfying (f : node -> Z) : Prop := forall c, In c cs -> violated c f = false.
  Definition satisfyingb (f : node -> Z) : bool := forallb (fun c => negb (violated c f)) cs.

  (* ------------------------------------------------------------------ synchronous rounds
     Global state = one [dst] per node (only value, weights, counter, cycle, oracle matter between
     rounds).  One round = every node receives the ok value of all its neighbours (do_improve),
     then the improve message of all its neighbours (imp_core folded, any order) and runs _send_ok.
     Built from the SAME node-local functions as the handlers above. *)
  Definition gst := node -> dst.

  Definition nvals_of (g : gst) (n : node) : list (node * Z) :=
    map (fun m => (m, oz (d_value (g m)))) (nbrs n).

  (* state of n after the ok phase of the round (all values known) *)
  Definition after_ok (g : gst) (n : node) : dst * list (node * dmsg) * bool :=
    do_improve n (set_nvals (nvals_of g n) (g n)).

  Definition imp_msg (s : dst) : Z * Z * Z := (d_imp s, oz (d_cost s), d_tc s).

  Definition after_imp (g : gst) (n : node) : dst :=
    fold_left (fun s m => imp_core n s m (imp_msg (fst (fst (after_ok g m))))) (nbrs n) (fst (fst (after_ok g n))).

  Definition sround (g : gst) : gst :=
    fun n => set_mode OkM (clear_view (fst (fst (send_ok n (after_imp g n))))).

  (* node n stops (stop_condition true in _send_ok) at the end of the round that starts in g *)
  Definition stops (g : gst) (n : node) : bool :=
    let s := after_imp g n in
    match d_cons s with Some true => (d_tc s + 1 =? maxd) | _ => false end.

  Fixpoint srounds (k : nat) (g : gst) : gst :=
    match k with O => g | S k' => sround (srounds k' g) end.

  (* vocabulary of the synchronous statements *)
  Definition sassign (g : gst) (v : node) : Z := oz (d_value (g v)).          (* the assignment held *)
  Definition seval (g : gst) (n : node) : Z :=                                  (* n's evaluation this round *)
    fst (eval_at n (set_nvals (nvals_of g n) (g n)) (oz (d_value (g n)))).
  Definition occurs (x : node) : Prop := exists c, In c cs /\ In x (fst c).
  (* x is at most k hops away from n in the constraint graph *)
  Inductive within : nat -> node -> node -> Prop :=
  | within_refl k n : within k n n
  | within_step k n m x : In m (nbrs n) -> within k m x -> within (S k) n x.
  (* the problem is well formed: a node's constraint list holds exactly the constraints it occurs in *)
  Definition wf_problem : Prop :=
    (forall c x, In c cs -> In x (fst c) -> In c (node_cs x))
    /\ (forall c, In c cs -> fst c <> [])
    /\ (forall n c, In c (node_cs n) -> In c cs /\ In n (fst c)).
  (* a legal global state at the start of a round: one positive weight per constraint, counter >= 0 *)
  Definition gst_ok (g : gst) : Prop :=
    forall n, List.length (d_w (g n)) = List.length (ncs n) /\ Forall (fun w => 0 < w) (d_w (g n)) /\ 0 <= d_tc (g n).
  Definition gst_init (g : gst) : Prop := gst_ok g /\ forall n, d_tc (g n) = 0.

  (* every node started (on_start): the global state the rounds start from *)
  Definition sinit : gst := fun n => fst (fst (dba_start n (dba_init n))).
End Dba.

(* ------------------------------------------------------------------ correspondence *)
Record obs_node := mkObs {
  o_id : node;
  o_mode : Z;                        (* 0 starting 1 ok 2 improve 3 finished *)
  o_value : option Z;
  o_cost : option Z;
  o_w : list Z;
  o_viol : list Z;
  o_nvals : list (node * Z);
  o_nimps : list node;
  o_pok : list (node * Z);
  o_pimp : list (node * (Z * Z * Z));
  o_tc : Z;
  o_cons : option bool;
  o_can : bool;
  o_qlm : bool;
  o_imp : Z;
  o_new : option Z;
  o_cycle : Z
}.

Inductive omsg := OOk (v : Z) | OImp (a b c : Z) | OEnd.
Inductive oev := OSelect (n v : Z) (cost : option Z) (cycle : Z) | OCycle (n k : Z) | OFinished (n : Z) | ORaise (n kind : Z).

Record case := mkCase {
  c_cs : list constr;
  c_ncs : list (node * list nat);
  c_dom : list (node * list Z);
  c_inf : Z;
  c_maxd : Z;
  c_orc : list (node * list Z);
  c_sched : list (@action);
  c_events : list oev;                             (* observed hooks, in order *)
  c_states : list obs_node;                        (* observed final state of every computation *)
  c_inflight : list (node * node * list omsg);     (* observed final channel contents *)
  c_syncvals : list (node * list Z);               (* per node: value held during cycle 0,1,2,... as observed *)
  c_syncfuel : nat
}.

Definition tbl {A} (l : list (node * list A)) (n : node) : list A :=
  match zlookup n l with Some x => x | None => [] end.

Definition mode_z (m : dmode) : Z := match m with Starting => 0 | OkM => 1 | ImpM => 2 | FinM => 3 end.
Definition zeqb3 (a b : Z * Z * Z) : bool :=
  let '(a1, a2, a3) := a in let '(b1, b2, b3) := b in (a1 =? b1) && (a2 =? b2) && (a3 =? b3).

Definition st_eqb (s : dst) (o : obs_node) : bool :=
  (mode_z (d_mode s) =? o_mode o) && option_eqb Z.eqb (d_value s) (o_value o)
  && option_eqb Z.eqb (d_cost s) (o_cost o) && list_eqb Z.eqb (d_w s) (o_w o)
  && list_eqb Z.eqb (map Z.of_nat (d_viol s)) (o_viol o)
  && list_eqb (pair_eqb Z.eqb Z.eqb) (d_nvals s) (o_nvals o)
  && list_eqb Z.eqb (d_nimps s) (o_nimps o)
  && list_eqb (pair_eqb Z.eqb Z.eqb) (d_pok s) (o_pok o)
  && list_eqb (pair_eqb Z.eqb zeqb3) (d_pimp s) (o_pimp o)
  && (d_tc s =? o_tc o) && option_eqb Bool.eqb (d_cons s) (o_cons o)
  && Bool.eqb (d_can s) (o_can o) && Bool.eqb (d_qlm s) (o_qlm o) && (d_imp s =? o_imp o)
  && option_eqb Z.eqb (d_new s) (o_new o) && (d_cycle s =? o_cycle o).

Definition msg_o (m : dmsg) : omsg := match m with MOk v => OOk v | MImp a b c => OImp a b c | MEnd => OEnd end.
Definition omsg_eqb (a b : omsg) : bool :=
  match a, b with
  | OOk v, OOk v' => v =? v'
  | OImp a b c, OImp a' b' c' => (a =? a') && (b =? b') && (c =? c')
  | OEnd, OEnd => true
  | _, _ => false
  end.
Definition ev_o (e : dev) : oev :=
  match e with
  | EvSelect n v c k => OSelect n v c k | EvCycle n k => OCycle n k
  | EvFinished n => OFinished n | EvRaise n k => ORaise n k
  end.
Definition oev_eqb (a b : oev) : bool :=
  match a, b with
  | OSelect n v c k, OSelect n' v' c' k' => (n =? n') && (v =? v') && option_eqb Z.eqb c c' && (k =? k')
  | OCycle n k, OCycle n' k' => (n =? n') && (k =? k')
  | OFinished n, OFinished n' => n =? n'
  | ORaise n k, ORaise n' k' => (n =? n') && (k =? k')
  | _, _ => false
  end.

Definition case_proto (c : case) :=
  dba_proto (c_cs c) (tbl (c_ncs c)) (tbl (c_dom c)) (c_inf c) (c_maxd c) (tbl (c_orc c)).

(* the synchronous semantics replayed against the observed per-cycle values: the value a node holds
   after k rounds of [sround] (same per-node draws) is the value the implementation held at cycle k,
   for as long as no node has stopped *)
Definition memo (ids : list node) (g : gst) : gst :=
  let tab := map (fun n => (n, g n)) ids in
  fun n => match zlookup n tab with Some s => s | None => g n end.

Fixpoint sync_agrees (c : case) (g : gst) (k : nat) (fuel : nat) : bool :=
  match fuel with
  | O => true
  | S fuel' =>
      forallb (fun nv => match nth_error (snd nv) k with
                         | Some v => option_eqb Z.eqb (d_value (g (fst nv))) (Some v)
                         | None => true end) (c_syncvals c)
      && (if existsb (fun nv => stops (c_cs c) (tbl (c_ncs c)) (tbl (c_dom c)) (c_inf c) (c_maxd c) g (fst nv)) (c_syncvals c)
          then true
          else sync_agrees c (memo (map fst (c_syncvals c))
                                (sround (c_cs c) (tbl (c_ncs c)) (tbl (c_dom c)) (c_inf c) (c_maxd c) g)) (S k) fuel')
  end.

Definition case_sinit (c : case) : gst :=
  memo (map fst (c_syncvals c)) (sinit (c_cs c) (tbl (c_ncs c)) (tbl (c_dom c)) (c_inf c) (tbl (c_orc c))).

Definition check_case (c : case) : bool :=
  let '(cf, evs) := run (case_proto c) (c_sched c) in
  list_eqb oev_eqb (map ev_o evs) (c_events c)
  && forallb (fun o => st_eqb (w_st (nodes cf (o_id o))) o) (c_states c)
  && forallb (fun q => let '(s, d, l) := q in list_eqb omsg_eqb (map msg_o (chan cf s d)) l) (c_inflight c)
  && sync_agrees c (case_sinit c) 0 (c_syncfuel c).
