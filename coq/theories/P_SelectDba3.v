(* P_SelectDba3.v -- property C10 for DBA, part 2: every handler of M_Dba preserves the counting
   invariant [KI] of P_SelectDba2.v; the full theorem [dba_selects_in_domain]. *)
From PyDcop Require Import Base Net M_Dba P_Dba M_Dba2 P_Dba2 P_SelectDba P_SelectDba2.
From Coq Require Import ZifyBool.

Local Notation length := List.length.

Section Count2.
  Variable cs : list constr.
  Variable ncs : node -> list nat.
  Variable dom : node -> list Z.
  Variable infinity maxd : Z.
  Variable orc0 : node -> list Z.

  Notation nbrs := (nbrs cs ncs).
  Notation nnb := (nnb cs ncs).
  Notation to_all := (to_all cs ncs).
  Notation do_improve := (do_improve cs ncs dom infinity).
  Notation send_ok := (send_ok cs ncs maxd).
  Notation dba_recv := (dba_recv cs ncs dom infinity maxd).
  Notation dba_start := (dba_start cs ncs dom infinity).
  Notation dba_init := (dba_init ncs orc0).
  Notation P := (dba_proto cs ncs dom infinity maxd orc0).
  Notation cfg := (config dst dmsg).
  Notation KI := (KI cs ncs orc0).
  Notation NL := (NL cs ncs).
  Notation outs_cnt := (outs_cnt cs ncs).

  Hypothesis Hsym : forall a b, In a (nbrs b) -> In b (nbrs a).

  Local Open Scope nat_scope.

  (* ---------------------------------------------------------------- list helpers *)
  Lemma full_view (l N : list node) : NoDup l -> incl l N -> length l = length N -> forall a, In a N -> In a l.
  Proof. intros Hl Hi Hlen. apply NoDup_length_incl; auto. lia. Qed.

  Lemma len_fromI a l : length (fromI a l) = length (filter (fun p : node * (Z * Z * Z) => Z.eqb (fst p) a) l).
  Proof. unfold fromI. now rewrite map_length. Qed.
  Lemma len_fromO a l : length (fromO a l) = length (filter (fun p : node * Z => Z.eqb (fst p) a) l).
  Proof. unfold fromO. now rewrite map_length. Qed.

  Lemma filt_pos {V} (a : node) (l : list (node * V)) :
    In a (map fst l) -> 1 <= length (filter (fun p => Z.eqb (fst p) a) l).
  Proof.
    intros H. apply filt_in in H. destruct (filter (fun p => Z.eqb (fst p) a) l); [congruence | simpl; lia].
  Qed.
  Lemma filt_zero {V} (a : node) (l : list (node * V)) :
    ~ In a (map fst l) -> length (filter (fun p => Z.eqb (fst p) a) l) = 0.
  Proof.
    intros H. destruct (filter (fun p => Z.eqb (fst p) a) l) eqn:E; auto.
    exfalso. apply H. apply filt_in. rewrite E. discriminate.
  Qed.
  Lemma zmem_le_filt {V} (a : node) (l : list (node * V)) :
    (if zmem a (map fst l) then 1 else 0) <= length (filter (fun p => Z.eqb (fst p) a) l).
  Proof.
    destruct (zmem a (map fst l)) eqn:E; [|lia]. apply zmem_In in E. now apply filt_pos.
  Qed.

  Lemma senders_nodup {V} (l : list (node * V)) (N : list node) :
    incl (map fst l) N -> (forall a, In a N -> length (filter (fun p => Z.eqb (fst p) a) l) <= 1) ->
    NoDup (map fst l) /\ length l <= length N.
  Proof.
    intros Hi H1.
    assert (Hnd : NoDup (map fst l)).
    { apply filt_nodup. intros a. destruct (in_dec Z.eq_dec a N) as [Ha|Ha]; [auto|].
      rewrite filt_zero; [lia|]. intros Hc. apply Ha. now apply Hi. }
    split; auto. rewrite <- (map_length fst). now apply NoDup_incl_length.
  Qed.

  Lemma got_okm s a : d_mode s = OkM -> got s a = zmem a (map fst (d_nvals s)).
  Proof. intros H. unfold got. now rewrite H. Qed.
  Lemma got_impm s a : d_mode s = ImpM -> got s a = zmem a (d_nimps s).
  Proof. intros H. unfold got. now rewrite H. Qed.

  Lemma zmem_true_in x l : In x l -> zmem x l = true.
  Proof. apply zmem_In. Qed.
  Lemma zmem_false_nin x l : ~ In x l -> zmem x l = false.
  Proof. intros H. destruct (zmem x l) eqn:E; auto. apply zmem_In in E. contradiction. Qed.

  (* ---------------------------------------------------------------- node-local helpers *)
  Lemma foldI_nimps n l : forall s,
    NoDup (map fst l) -> (forall x, In x (map fst l) -> ~ In x (d_nimps s)) ->
    d_nimps (foldI n l s) = d_nimps s ++ map fst l.
  Proof.
    induction l as [|[src m] l IH]; intros s Hnd Hnew; simpl.
    - now rewrite app_nil_r.
    - inversion Hnd as [|? ? Hnin Hnd']; subst.
      assert (Hn : d_nimps (imp_core n s src m) = d_nimps s ++ [src]).
      { rewrite imp_core_nimps. apply set_add_new. apply Hnew. now left. }
      rewrite IH; auto.
      + rewrite Hn, <- app_assoc. reflexivity.
      + intros x Hx. rewrite Hn. intros Hc. apply in_app_or in Hc as [Hc|[Hc|[]]].
        * apply (Hnew x); auto. now right.
        * subst. contradiction.
  Qed.

  Lemma foldI_sel n l : forall s, selI s -> selI (foldI n l s) /\ d_new (foldI n l s) = d_new s.
  Proof.
    induction l as [|[src m] l IH]; intros s HI; simpl; [auto|].
    destruct (imp_core_sel n s src m) as (K1 & K2 & K3).
    destruct (IH (imp_core n s src m)) as [A B].
    { intros Hc. rewrite K2. apply HI. auto. }
    split; [exact A | congruence].
  Qed.

  Lemma send_ok_outs n s : exists m, isImp m = false /\ snd (fst (send_ok n s)) = to_all n m.
  Proof.
    unfold M_Dba.send_ok.
    destruct ((match d_cons s with Some true => true | _ => false end)
              && ((if match d_cons s with Some true => true | _ => false end then d_tc s + 1 else d_tc s) =? maxd)%Z).
    - exists MEnd. split; reflexivity.
    - eexists (MOk _). split; reflexivity.
  Qed.

  Lemma send_ok_selI n s : selI s -> selI (fst (fst (send_ok n s))).
  Proof.
    unfold M_Dba.send_ok, selI.
    destruct ((match d_cons s with Some true => true | _ => false end)
              && ((if match d_cons s with Some true => true | _ => false end then d_tc s + 1 else d_tc s) =? maxd)%Z);
      simpl; auto.
  Qed.

  Lemma isOk_le m : (if isOk m then 1 else 0) <= 1.
  Proof. destruct (isOk m); lia. Qed.

  (* ---------------------------------------------------------------- deliveries, case by case *)
  Definition after (cf : cfg) (a0 b0 : node) (q : list dmsg) (r : dst * list (node * dmsg) * list dev) : cfg :=
    mkConfig (upd_node (nodes cf) b0 (mkWrap true (w_held (nodes cf b0)) (fst (fst r))))
             (send_all (upd_chan (chan cf) a0 b0 q) b0 (snd (fst r))).

  Definition goal (cf : cfg) (a0 b0 : node) (q : list dmsg) (r : dst * list (node * dmsg) * list dev) : Prop :=
    (exists gm', KI (after cf a0 b0 q r) gm') /\ Forall (selPev dom) (snd r).

  Lemma bal_keep cf gm b0 s' :
    KI cf gm -> d_mode (stt cf b0) <> FinM -> d_mode s' = d_mode (stt cf b0) -> cyc s' = cyc (stt cf b0) ->
    forall x, In x (nbrs b0) ->
      impS (d_mode s') (cyc s') <= okS (em gm x (stt cf x)) (cyc (stt cf x))
      /\ cycS (d_mode s') (cyc s') <= impS (em gm x (stt cf x)) (cyc (stt cf x)).
  Proof.
    intros HK Hnf Hm Hc x Hx. rewrite Hm, Hc.
    pose proof (K_bal _ _ _ _ _ HK b0 x (Hsym _ _ Hx)) as B. rewrite (em_alive gm b0 _ Hnf) in B. exact B.
  Qed.

  Lemma KI_postpone cf gm a0 b0 m q s' :
    KI cf gm -> w_running (nodes cf b0) = true -> chan cf a0 b0 = m :: q ->
    d_mode (stt cf b0) <> FinM ->
    d_mode s' = d_mode (stt cf b0) -> d_cycle s' = d_cycle (stt cf b0) ->
    d_nvals s' = d_nvals (stt cf b0) -> d_nimps s' = d_nimps (stt cf b0) ->
    (forall a, rO s' a + nO (if Z.eqb a a0 then q else chan cf a b0) <= rO (stt cf b0) a + nO (chan cf a b0)) ->
    (forall a, rI s' a + nI (if Z.eqb a a0 then q else chan cf a b0) <= rI (stt cf b0) a + nI (chan cf a b0)) ->
    incl (map fst (d_pok s')) (nbrs b0) -> incl (map fst (d_pimp s')) (nbrs b0) -> NL b0 s' ->
    KI (mkConfig (upd_node (nodes cf) b0 (mkWrap true (w_held (nodes cf b0)) s'))
                 (send_all (upd_chan (chan cf) a0 b0 q) b0 [])) gm.
  Proof.
    intros HK Hr Hc Hnf Hm Hcy Hnv Hni HO HI Hpo Hpi Hnl.
    assert (Ecy : cyc s' = cyc (stt cf b0)) by (unfold cyc; now rewrite Hcy).
    assert (EokH : forall a, okH s' a = okH (stt cf b0) a) by (intros a; unfold okH, got; now rewrite Hm, Ecy, Hnv, Hni).
    assert (EimpH : forall a, impH s' a = impH (stt cf b0) a) by (intros a; unfold impH, got; now rewrite Hm, Ecy, Hnv, Hni).
    apply (KI_deliver cs ncs orc0 Hsym cf gm a0 b0 m q s' [] 0 0); auto.
    - congruence.
    - apply outs_nil.
    - rewrite Hm, Ecy. lia.
    - rewrite Hm, Ecy. lia.
    - now apply bal_keep.
    - intros a _. rewrite EokH. specialize (HO a). lia.
    - intros a _. rewrite EimpH. specialize (HI a). lia.
  Qed.

  Lemma nO_cons m q : nO (m :: q) = (if isOk m then 1 else 0) + nO q.
  Proof. unfold nO. simpl. destruct (isOk m); reflexivity. Qed.
  Lemma nI_cons m q : nI (m :: q) = (if isImp m then 1 else 0) + nI q.
  Proof. unfold nI. simpl. destruct (isImp m); reflexivity. Qed.

  Section Recv.
    Variable cf : cfg.
    Variable gm : node -> dmode.
    Variables a0 b0 : node.
    Variable q : list dmsg.
    Hypothesis HK : KI cf gm.
    Hypothesis Hr : w_running (nodes cf b0) = true.
    Hypothesis HW : selW dom b0 (stt cf b0).

    (* the receiver is in 'finished' mode, or the message is dba_end *)
    Lemma recv_fin m : chan cf a0 b0 = m :: q ->
      d_mode (stt cf b0) = FinM \/ m = MEnd -> goal cf a0 b0 q (dba_recv b0 (stt cf b0) a0 m).
    Proof.
      intros Hc Hcase. pose proof (chan_nbr cs ncs orc0 cf gm HK _ _ _ _ Hc) as Ha0.
      destruct (K_post _ _ _ _ _ HK b0) as [Ppo Ppi].
      assert (G : forall s' outs evs, dba_recv b0 (stt cf b0) a0 m = (s', outs, evs) ->
                d_mode s' = FinM -> d_cycle s' = d_cycle (stt cf b0) ->
                incl (map fst (d_pok s')) (nbrs b0) -> incl (map fst (d_pimp s')) (nbrs b0) ->
                outs_cnt b0 outs 0 0 -> Forall (selPev dom) evs -> goal cf a0 b0 q (dba_recv b0 (stt cf b0) a0 m)).
      { intros s' outs evs E Hm Hcy Hpo Hpi Ho He. rewrite E. split; [|exact He].
        eexists. unfold after. simpl. eapply KI_fin; eauto. }
      unfold M_Dba.dba_recv in *.
      destruct m as [v|x y z|]; destruct (d_mode (stt cf b0)) eqn:Em;
        try (destruct Hcase as [Hcase|Hcase]; discriminate).
      - eapply G; [reflexivity|simpl; auto ..| apply outs_nil | constructor].
        simpl. rewrite map_app. apply incl_app; auto. intros t [<-|[]]; auto.
      - eapply G; [reflexivity|simpl; auto ..| apply outs_nil | constructor].
        simpl. rewrite map_app. apply incl_app; auto. intros t [<-|[]]; auto.
      - eapply G; [reflexivity|simpl; auto ..| apply (outs_all cs ncs b0 MEnd) | repeat constructor].
      - eapply G; [reflexivity|simpl; auto ..| apply (outs_all cs ncs b0 MEnd) | repeat constructor].
      - eapply G; [reflexivity|simpl; auto ..| apply (outs_all cs ncs b0 MEnd) | repeat constructor].
      - eapply G; [reflexivity|simpl; auto ..| apply outs_nil | constructor].
    Qed.
  
    Lemma NL_set_pok x : d_mode (stt cf b0) <> OkM -> NL b0 (stt cf b0) -> NL b0 (set_pok x (stt cf b0)).
    Proof. unfold NL. simpl. destruct (d_mode (stt cf b0)); auto. congruence. Qed.
    Lemma NL_set_pimp x : d_mode (stt cf b0) <> ImpM -> NL b0 (stt cf b0) -> NL b0 (set_pimp x (stt cf b0)).
    Proof. unfold NL. simpl. destruct (d_mode (stt cf b0)); auto. congruence. Qed.

    (* an ok? message that arrives outside 'ok' mode is postponed *)
    Lemma recv_post_ok v : chan cf a0 b0 = MOk v :: q ->
      d_mode (stt cf b0) = ImpM \/ d_mode (stt cf b0) = Starting ->
      goal cf a0 b0 q (dba_recv b0 (stt cf b0) a0 (MOk v)).
    Proof.
      intros Hc Hcase. pose proof (chan_nbr cs ncs orc0 cf gm HK _ _ _ _ Hc) as Ha0.
      destruct (K_post _ _ _ _ _ HK b0) as [Ppo Ppi].
      assert (E : dba_recv b0 (stt cf b0) a0 (MOk v) = (set_pok (d_pok (stt cf b0) ++ [(a0, v)]) (stt cf b0), [], [])).
      { unfold M_Dba.dba_recv. destruct Hcase as [-> | ->]; reflexivity. }
      rewrite E. split; [|constructor]. exists gm. unfold after. simpl fst. simpl snd.
      apply (KI_postpone cf gm a0 b0 (MOk v) q); auto.
      - destruct Hcase as [-> | ->]; discriminate.
      - intros a. unfold rO. simpl.
        assert (Hm : d_mode (stt cf b0) <> OkM) by (destruct Hcase as [-> | ->]; discriminate).
        destruct (d_mode (stt cf b0)); try congruence;
          rewrite fromO_app, app_length, fromO_one;
          (destruct (Z.eqb_spec a a0) as [->|]; [rewrite Hc, nO_cons; simpl; lia | simpl; lia]).
      - intros a. unfold rI. simpl. destruct (Z.eqb_spec a a0) as [->|]; [rewrite Hc, nI_cons; simpl; lia | lia].
      - simpl. rewrite map_app. apply incl_app; auto. intros t [<-|[]]; auto.
      - apply NL_set_pok; [destruct Hcase as [-> | ->]; discriminate | now apply (K_node _ _ _ _ _ HK)].
    Qed.

    (* an improve message that arrives outside 'improve' mode is postponed *)
    Lemma recv_post_imp x y z : chan cf a0 b0 = MImp x y z :: q ->
      d_mode (stt cf b0) = OkM \/ d_mode (stt cf b0) = Starting ->
      goal cf a0 b0 q (dba_recv b0 (stt cf b0) a0 (MImp x y z)).
    Proof.
      intros Hc Hcase. pose proof (chan_nbr cs ncs orc0 cf gm HK _ _ _ _ Hc) as Ha0.
      destruct (K_post _ _ _ _ _ HK b0) as [Ppo Ppi].
      assert (E : dba_recv b0 (stt cf b0) a0 (MImp x y z)
                  = (set_pimp (d_pimp (stt cf b0) ++ [(a0, (x, y, z))]) (stt cf b0), [], [])).
      { unfold M_Dba.dba_recv. destruct Hcase as [-> | ->]; reflexivity. }
      rewrite E. split; [|constructor]. exists gm. unfold after. simpl fst. simpl snd.
      apply (KI_postpone cf gm a0 b0 (MImp x y z) q); auto.
      - destruct Hcase as [-> | ->]; discriminate.
      - intros a. unfold rO. simpl. destruct (Z.eqb_spec a a0) as [->|]; [rewrite Hc, nO_cons; simpl; lia | lia].
      - intros a. unfold rI. simpl. rewrite fromI_app, app_length, fromI_one.
        destruct (Z.eqb_spec a a0) as [->|]; [rewrite Hc, nI_cons; simpl; lia | simpl; lia].
      - simpl. rewrite map_app. apply incl_app; auto. intros t [<-|[]]; auto.
      - apply NL_set_pimp; [destruct Hcase as [-> | ->]; discriminate | now apply (K_node _ _ _ _ _ HK)].
    Qed.
  
    Lemma okH_okm s a : d_mode s = OkM -> okH s a = cyc s + (if zmem a (map fst (d_nvals s)) then 1 else 0).
    Proof. intros H. unfold okH, got. now rewrite H. Qed.
    Lemma okH_impm s a : d_mode s = ImpM -> okH s a = S (cyc s).
    Proof. intros H. unfold okH. now rewrite H. Qed.
    Lemma impH_okm s a : d_mode s = OkM -> impH s a = cyc s.
    Proof. intros H. unfold impH. now rewrite H. Qed.
    Lemma impH_impm s a : d_mode s = ImpM -> impH s a = cyc s + (if zmem a (d_nimps s) then 1 else 0).
    Proof. intros H. unfold impH, got. now rewrite H. Qed.
    Lemma rO_okm s a : d_mode s = OkM -> rO s a = 0.
    Proof. intros H. unfold rO. now rewrite H. Qed.
    Lemma rO_impm s a : d_mode s = ImpM -> rO s a = length (fromO a (d_pok s)).
    Proof. intros H. unfold rO. now rewrite H. Qed.

    (* ------------------------------------------------ an ok? message handled in 'ok' mode *)
    Section OkCase.
      Variable v : Z.
      Hypothesis Hc : chan cf a0 b0 = MOk v :: q.
      Hypothesis Hm : d_mode (stt cf b0) = OkM.
      Hypothesis Hnew : ~ In a0 (map fst (d_nvals (stt cf b0))).
      Hypothesis Hnd : NoDup (map fst (d_nvals (stt cf b0))).
      Hypothesis Hincl : incl (map fst (d_nvals (stt cf b0))) (nbrs b0).
      Hypothesis Hcy : (0 <= d_cycle (stt cf b0))%Z.

      Let Ha0 : In a0 (nbrs b0) := chan_nbr cs ncs orc0 cf gm HK _ _ _ _ Hc.
      Let Hnf : d_mode (stt cf b0) <> FinM.
      Proof. rewrite Hm. discriminate. Qed.

      Lemma ok_AB s' :
        d_mode s' = OkM -> d_cycle s' = d_cycle (stt cf b0) ->
        d_nvals s' = d_nvals (stt cf b0) ++ [(a0, v)] -> d_pimp s' = d_pimp (stt cf b0) ->
        incl (map fst (d_pok s')) (nbrs b0) -> NL b0 s' ->
        KI (mkConfig (upd_node (nodes cf) b0 (mkWrap true (w_held (nodes cf b0)) s'))
                     (send_all (upd_chan (chan cf) a0 b0 q) b0 [])) gm.
      Proof.
        intros Hm' Hcy' Hnv' Hpi' Hpo' Hnl.
        assert (Ecy : cyc s' = cyc (stt cf b0)) by (unfold cyc; now rewrite Hcy').
        apply (KI_deliver cs ncs orc0 Hsym cf gm a0 b0 (MOk v) q s' [] 0 0); auto.
        - congruence.
        - apply outs_nil.
        - rewrite Hm, Hm', Ecy. lia.
        - rewrite Hm, Hm', Ecy. lia.
        - apply bal_keep; auto. congruence.
        - intros a Ha. rewrite (okH_okm s' a Hm'), (okH_okm _ a Hm), (rO_okm s' a Hm'), (rO_okm _ a Hm), Ecy, Hnv'.
          rewrite map_app. simpl map. rewrite zmem_snoc.
          destruct (Z.eqb_spec a a0) as [->|Hne].
          + rewrite Hc, nO_cons. simpl isOk. rewrite (zmem_false_nin _ _ Hnew). simpl. lia.
          + rewrite orb_false_r. lia.
        - intros a Ha. rewrite (impH_okm s' a Hm'), (impH_okm _ a Hm), Ecy. unfold rI. rewrite Hpi'.
          destruct (Z.eqb_spec a a0) as [->|Hne]; [rewrite Hc, nI_cons; simpl; lia | lia].
        - rewrite Hpi'. apply (K_post _ _ _ _ _ HK b0).
      Qed.

      (* the view is complete after this message *)
      Hypothesis Hfull : S (length (d_nvals (stt cf b0))) = nnb b0.

      Lemma others_in a : In a (nbrs b0) -> a <> a0 -> zmem a (map fst (d_nvals (stt cf b0))) = true.
      Proof.
        intros Ha Hne. apply zmem_true_in.
        apply (complete_but_one (map fst (d_nvals (stt cf b0))) (nbrs b0) a0); auto.
        - apply nbrs_nd.
        - rewrite map_length. unfold M_Dba.nnb in Hfull. lia.
      Qed.

      (* every neighbour made its ok? broadcast of this cycle *)
      Lemma ok_all_sent x : In x (nbrs b0) -> S (cyc (stt cf b0)) <= okS (em gm x (stt cf x)) (cyc (stt cf x)).
      Proof.
        intros Hx. pose proof (K_ok _ _ _ _ _ HK x b0 Hx Hnf) as K1.
        rewrite (okH_okm _ x Hm) in K1.
        destruct (Z.eq_dec x a0) as [->|Hne].
        - rewrite Hc, nO_cons in K1. simpl in K1. lia.
        - rewrite (others_in x Hx Hne) in K1. lia.
      Qed.

      Lemma ok_C s' outs :
        d_mode s' = ImpM -> d_cycle s' = d_cycle (stt cf b0) ->
        d_nimps s' = map fst (d_pimp (stt cf b0)) -> d_pok s' = [] -> d_pimp s' = [] ->
        d_pok (stt cf b0) = [] ->
        outs_cnt b0 outs 0 1 -> NL b0 s' ->
        KI (mkConfig (upd_node (nodes cf) b0 (mkWrap true (w_held (nodes cf b0)) s'))
                     (send_all (upd_chan (chan cf) a0 b0 q) b0 outs)) gm.
      Proof.
        intros Hm' Hcy' Hni' Hpo' Hpi' Hpo Ho Hnl.
        assert (Ecy : cyc s' = cyc (stt cf b0)) by (unfold cyc; now rewrite Hcy').
        apply (KI_deliver cs ncs orc0 Hsym cf gm a0 b0 (MOk v) q s' outs 0 1); auto.
        - congruence.
        - rewrite Hm, Hm', Ecy. simpl. lia.
        - rewrite Hm, Hm', Ecy. simpl. lia.
        - intros x Hx. rewrite Hm', Ecy. simpl. split; [now apply ok_all_sent|].
          pose proof (K_bal _ _ _ _ _ HK b0 x (Hsym _ _ Hx)) as [_ B]. rewrite (em_alive gm b0 _ Hnf), Hm in B. exact B.
        - intros a Ha. rewrite (okH_impm s' a Hm'), (okH_okm _ a Hm), (rO_impm s' a Hm'), (rO_okm _ a Hm), Ecy, Hpo'.
          change (length (fromO a [])) with 0.
          destruct (Z.eqb_spec a a0) as [->|Hne].
          + rewrite Hc, nO_cons. simpl. lia.
          + rewrite (others_in a Ha Hne). lia.
        - intros a Ha. rewrite (impH_impm s' a Hm'), (impH_okm _ a Hm), Ecy, Hni'. unfold rI. rewrite Hpi'.
          change (length (fromI a [])) with 0. rewrite len_fromI.
          pose proof (zmem_le_filt a (d_pimp (stt cf b0))) as L.
          destruct (Z.eqb_spec a a0) as [->|Hne].
          + rewrite Hc, nI_cons. simpl. unfold node in *. lia.
          + unfold node in *. lia.
        - rewrite Hpo'. intros t [].
        - rewrite Hpi'. intros t [].
      Qed.

      Lemma ok_D s' outs j :
        d_mode s' = OkM -> d_cycle s' = (d_cycle (stt cf b0) + 1)%Z ->
        d_nvals s' = [] -> d_pimp s' = [] -> d_pok s' = [] ->
        NoDup (map fst (d_pimp (stt cf b0))) -> length (d_pimp (stt cf b0)) = nnb b0 ->
        outs_cnt b0 outs j 1 -> j <= 1 -> NL b0 s' ->
        KI (mkConfig (upd_node (nodes cf) b0 (mkWrap true (w_held (nodes cf b0)) s'))
                     (send_all (upd_chan (chan cf) a0 b0 q) b0 outs)) gm.
      Proof.
        intros Hm' Hcy' Hnv' Hpi' Hpo' Hndp Hlen Ho Hj Hnl.
        assert (Ecy : cyc s' = S (cyc (stt cf b0))) by (unfold cyc; rewrite Hcy'; lia).
        assert (Hall : forall a, In a (nbrs b0) -> 1 <= length (fromI a (d_pimp (stt cf b0)))).
        { intros a Ha. rewrite len_fromI. apply filt_pos.
          apply (full_view (map fst (d_pimp (stt cf b0))) (nbrs b0)); auto.
          - apply (K_post _ _ _ _ _ HK b0).
          - rewrite map_length. exact Hlen. }
        apply (KI_deliver cs ncs orc0 Hsym cf gm a0 b0 (MOk v) q s' outs j 1); auto.
        - congruence.
        - rewrite Hm, Hm', Ecy. simpl. lia.
        - rewrite Hm, Hm', Ecy. simpl. lia.
        - intros x Hx. rewrite Hm', Ecy. simpl. split; [now apply ok_all_sent|].
          pose proof (K_imp _ _ _ _ _ HK x b0 Hx Hnf) as K2. rewrite (impH_okm _ x Hm) in K2.
          unfold rI in K2. specialize (Hall x Hx). lia.
        - intros a Ha. rewrite (okH_okm s' a Hm'), (okH_okm _ a Hm), (rO_okm s' a Hm'), (rO_okm _ a Hm), Ecy, Hnv'.
          simpl.
          destruct (Z.eqb_spec a a0) as [->|Hne].
          + rewrite Hc, nO_cons. simpl. lia.
          + rewrite (others_in a Ha Hne). lia.
        - intros a Ha. rewrite (impH_okm s' a Hm'), (impH_okm _ a Hm), Ecy. unfold rI. rewrite Hpi'.
          change (length (fromI a [])) with 0. specialize (Hall a Ha).
          destruct (Z.eqb_spec a a0) as [->|Hne]; [rewrite Hc, nI_cons; simpl; lia | lia].
        - rewrite Hpo'. intros t [].
        - rewrite Hpi'. intros t [].
      Qed.
    End OkCase.
  
    (* ------------------------------------------------ an improve message handled in 'improve' mode *)
    Section ImpCase.
      Variables x y z : Z.
      Hypothesis Hc : chan cf a0 b0 = MImp x y z :: q.
      Hypothesis Hm : d_mode (stt cf b0) = ImpM.
      Hypothesis Hnew : ~ In a0 (d_nimps (stt cf b0)).
      Hypothesis Hnd : NoDup (d_nimps (stt cf b0)).
      Hypothesis Hincl : incl (d_nimps (stt cf b0)) (nbrs b0).
      Hypothesis Hcy : (0 <= d_cycle (stt cf b0))%Z.

      Let Ha0 : In a0 (nbrs b0) := chan_nbr cs ncs orc0 cf gm HK _ _ _ _ Hc.
      Let Hnf : d_mode (stt cf b0) <> FinM.
      Proof. rewrite Hm. discriminate. Qed.

      Lemma imp_A s' :
        d_mode s' = ImpM -> d_cycle s' = d_cycle (stt cf b0) ->
        d_nimps s' = d_nimps (stt cf b0) ++ [a0] -> d_pok s' = d_pok (stt cf b0) -> d_pimp s' = d_pimp (stt cf b0) ->
        NL b0 s' ->
        KI (mkConfig (upd_node (nodes cf) b0 (mkWrap true (w_held (nodes cf b0)) s'))
                     (send_all (upd_chan (chan cf) a0 b0 q) b0 [])) gm.
      Proof.
        intros Hm' Hcy' Hni' Hpo' Hpi' Hnl.
        assert (Ecy : cyc s' = cyc (stt cf b0)) by (unfold cyc; now rewrite Hcy').
        apply (KI_deliver cs ncs orc0 Hsym cf gm a0 b0 (MImp x y z) q s' [] 0 0); auto.
        - congruence.
        - apply outs_nil.
        - rewrite Hm, Hm', Ecy. lia.
        - rewrite Hm, Hm', Ecy. lia.
        - apply bal_keep; auto. congruence.
        - intros a Ha. rewrite (okH_impm s' a Hm'), (okH_impm _ a Hm), (rO_impm s' a Hm'), (rO_impm _ a Hm), Ecy, Hpo'.
          destruct (Z.eqb_spec a a0) as [->|Hne]; [rewrite Hc, nO_cons; simpl; lia | lia].
        - intros a Ha. rewrite (impH_impm s' a Hm'), (impH_impm _ a Hm), Ecy, Hni'. unfold rI. rewrite Hpi'.
          rewrite zmem_snoc.
          destruct (Z.eqb_spec a a0) as [->|Hne].
          + rewrite Hc, nI_cons. simpl isImp. rewrite (zmem_false_nin _ _ Hnew). simpl. lia.
          + rewrite orb_false_r. lia.
        - rewrite Hpo'. apply (K_post _ _ _ _ _ HK b0).
        - rewrite Hpi'. apply (K_post _ _ _ _ _ HK b0).
      Qed.

      (* every neighbour has been heard after this message *)
      Hypothesis Hfull : S (length (d_nimps (stt cf b0))) = nnb b0.

      Lemma others_in' a : In a (nbrs b0) -> a <> a0 -> zmem a (d_nimps (stt cf b0)) = true.
      Proof.
        intros Ha Hne. apply zmem_true_in.
        apply (complete_but_one (d_nimps (stt cf b0)) (nbrs b0) a0); auto.
        - apply nbrs_nd.
        - unfold M_Dba.nnb in Hfull. lia.
      Qed.

      Lemma imp_all_sent t : In t (nbrs b0) -> S (cyc (stt cf b0)) <= impS (em gm t (stt cf t)) (cyc (stt cf t)).
      Proof.
        intros Ht. pose proof (K_imp _ _ _ _ _ HK t b0 Ht Hnf) as K1.
        rewrite (impH_impm _ t Hm) in K1.
        destruct (Z.eq_dec t a0) as [->|Hne].
        - rewrite Hc, nI_cons in K1. simpl in K1. lia.
        - rewrite (others_in' t Ht Hne) in K1. lia.
      Qed.

      Lemma imp_recv_side c' a : In a (nbrs b0) -> c' = S (cyc (stt cf b0)) ->
        c' + 0 + nI (if Z.eqb a a0 then q else chan cf a b0)
        <= impH (stt cf b0) a + rI (stt cf b0) a + nI (chan cf a b0).
      Proof.
        intros Ha ->. rewrite (impH_impm _ a Hm).
        destruct (Z.eqb_spec a a0) as [->|Hne].
        - rewrite Hc, nI_cons. simpl. lia.
        - rewrite (others_in' a Ha Hne). lia.
      Qed.

      Lemma imp_BC s' outs j :
        d_mode s' = OkM -> d_cycle s' = (d_cycle (stt cf b0) + 1)%Z ->
        d_nvals s' = d_pok (stt cf b0) -> d_pimp s' = [] ->
        incl (map fst (d_pok s')) (nbrs b0) ->
        outs_cnt b0 outs j 0 -> j <= 1 -> NL b0 s' ->
        KI (mkConfig (upd_node (nodes cf) b0 (mkWrap true (w_held (nodes cf b0)) s'))
                     (send_all (upd_chan (chan cf) a0 b0 q) b0 outs)) gm.
      Proof.
        intros Hm' Hcy' Hnv' Hpi' Hpo' Ho Hj Hnl.
        assert (Ecy : cyc s' = S (cyc (stt cf b0))) by (unfold cyc; rewrite Hcy'; lia).
        apply (KI_deliver cs ncs orc0 Hsym cf gm a0 b0 (MImp x y z) q s' outs j 0); auto.
        - congruence.
        - rewrite Hm, Hm', Ecy. simpl. lia.
        - rewrite Hm, Hm', Ecy. simpl. lia.
        - intros t Ht. rewrite Hm', Ecy. simpl. split; [|now apply imp_all_sent].
          pose proof (K_bal _ _ _ _ _ HK b0 t (Hsym _ _ Ht)) as [B _]. rewrite (em_alive gm b0 _ Hnf), Hm in B. exact B.
        - intros a Ha. rewrite (okH_okm s' a Hm'), (okH_impm _ a Hm), (rO_okm s' a Hm'), (rO_impm _ a Hm), Ecy, Hnv'.
          rewrite len_fromO. pose proof (zmem_le_filt a (d_pok (stt cf b0))) as L.
          destruct (Z.eqb_spec a a0) as [->|Hne].
          + rewrite Hc, nO_cons. simpl. unfold node in *. lia.
          + unfold node in *. lia.
        - intros a Ha. rewrite (impH_okm s' a Hm'), Ecy. unfold rI at 1. rewrite Hpi'.
          change (length (fromI a [])) with 0. now apply imp_recv_side.
        - rewrite Hpi'. intros t [].
      Qed.

      Lemma imp_D s' outs j :
        d_mode s' = ImpM -> d_cycle s' = (d_cycle (stt cf b0) + 1)%Z ->
        d_nimps s' = [] -> d_pok s' = [] -> d_pimp s' = [] ->
        NoDup (map fst (d_pok (stt cf b0))) -> length (d_pok (stt cf b0)) = nnb b0 ->
        outs_cnt b0 outs j 1 -> j <= 1 -> NL b0 s' ->
        KI (mkConfig (upd_node (nodes cf) b0 (mkWrap true (w_held (nodes cf b0)) s'))
                     (send_all (upd_chan (chan cf) a0 b0 q) b0 outs)) gm.
      Proof.
        intros Hm' Hcy' Hni' Hpo' Hpi' Hndp Hlen Ho Hj Hnl.
        assert (Ecy : cyc s' = S (cyc (stt cf b0))) by (unfold cyc; rewrite Hcy'; lia).
        assert (Hall : forall a, In a (nbrs b0) -> 1 <= length (fromO a (d_pok (stt cf b0)))).
        { intros a Ha. rewrite len_fromO. apply filt_pos.
          apply (full_view (map fst (d_pok (stt cf b0))) (nbrs b0)); auto.
          - apply (K_post _ _ _ _ _ HK b0).
          - rewrite map_length. exact Hlen. }
        apply (KI_deliver cs ncs orc0 Hsym cf gm a0 b0 (MImp x y z) q s' outs j 1); auto.
        - congruence.
        - rewrite Hm, Hm', Ecy. simpl. lia.
        - rewrite Hm, Hm', Ecy. simpl. lia.
        - intros t Ht. rewrite Hm', Ecy. simpl. split.
          + pose proof (K_ok _ _ _ _ _ HK t b0 Ht Hnf) as K1. rewrite (okH_impm _ t Hm), (rO_impm _ t Hm) in K1.
            specialize (Hall t Ht). lia.
          + pose proof (imp_all_sent t Ht). lia.
        - intros a Ha. rewrite (okH_impm s' a Hm'), (okH_impm _ a Hm), (rO_impm s' a Hm'), (rO_impm _ a Hm), Ecy, Hpo'.
          change (length (fromO a [])) with 0. specialize (Hall a Ha).
          destruct (Z.eqb_spec a a0) as [->|Hne].
          + rewrite Hc, nO_cons. simpl. lia.
          + lia.
        - intros a Ha. rewrite (impH_impm s' a Hm'), Ecy, Hni'. unfold rI at 1. rewrite Hpi'.
          change (length (fromI a [])) with 0. simpl zmem. cbv iota. now apply imp_recv_side.
        - rewrite Hpo'. intros t [].
        - rewrite Hpi'. intros t [].
      Qed.
    End ImpCase.
  
    Lemma outs_cnt_eq b o j i j' i' : outs_cnt b o j i -> j = j' -> i = i' -> outs_cnt b o j' i'.
    Proof. intros H -> ->. exact H. Qed.

    Lemma nnb_pos : In a0 (nbrs b0) -> 0 < nnb b0.
    Proof. unfold M_Dba.nnb. destruct (nbrs b0); simpl; [intros [] | lia]. Qed.

    Lemma recv_events m : selI (stt cf b0) -> Forall (selPev dom) (snd (dba_recv b0 (stt cf b0) a0 m)).
    Proof.
      intros HsI. pose proof (dba_recv_sel cs ncs dom infinity maxd b0 (stt cf b0) a0 m HW) as H.
      destruct (dba_recv b0 (stt cf b0) a0 m) as [[s' o] e]. destruct H as [_ H]. destruct (H HsI) as [H1 _]. exact H1.
    Qed.

    Lemma recv_ok_okm v : chan cf a0 b0 = MOk v :: q -> d_mode (stt cf b0) = OkM ->
      goal cf a0 b0 q (dba_recv b0 (stt cf b0) a0 (MOk v)).
    Proof.
      intros Hc Hm.
      pose proof (chan_nbr cs ncs orc0 cf gm HK _ _ _ _ Hc) as Ha0.
      pose proof (head_ok_new cs ncs orc0 cf gm HK a0 b0 v q Hc Hm) as Hg.
      rewrite (got_okm _ _ Hm) in Hg.
      assert (Hnew : ~ In a0 (map fst (d_nvals (stt cf b0)))) by (intros H; apply zmem_true_in in H; congruence).
      destruct (K_node _ _ _ _ _ HK b0 Hr) as [Hcy Hn]. rewrite Hm in Hn. destruct Hn as [Hnd [Hincl Hbr]].
      destruct (K_post _ _ _ _ _ HK b0) as [Ppo Ppi].
      destruct Hbr as [[Hlt [Hpok [Hnimps HsI]]] | [Hst Hne]].
      2:{ exfalso. apply Hnew. apply (full_view _ (nbrs b0)); auto. rewrite map_length. exact Hst. }
      assert (Hne : nbrs b0 <> []) by (intros E; rewrite E in Ha0; destruct Ha0).
      specialize (Hlt Hne).
      destruct (senders_nodup (d_pimp (stt cf b0)) (nbrs b0)) as [Hndp Hlp]; auto.
      { intros a Ha. rewrite <- len_fromI. apply (pimp_one cs ncs orc0 cf gm HK a b0 Ha Hm). }
      fold (nnb b0) in Hlp.
      split; [|now apply recv_events]. exists gm. unfold after.
      rewrite (recv_ok_spec cs ncs dom infinity maxd b0 (stt cf b0) a0 v Hm Hnimps Hpok Hnew Hlt Hndp Hlp).
      cbv zeta. set (s1 := set_nvals (d_nvals (stt cf b0) ++ [(a0, v)]) (stt cf b0)).
      assert (Hnd1 : NoDup (map fst (d_nvals (stt cf b0) ++ [(a0, v)]))).
      { rewrite map_app. apply NoDup_app_intro'; auto.
        - constructor; [intros []|constructor].
        - intros t Ht [<-|[]]. contradiction. }
      assert (Hincl1 : incl (map fst (d_nvals (stt cf b0) ++ [(a0, v)])) (nbrs b0)).
      { rewrite map_app. apply incl_app; auto. intros t [<-|[]]; auto. }
      assert (Hlen1 : length (d_nvals (stt cf b0) ++ [(a0, v)]) = S (length (d_nvals (stt cf b0))))
        by (rewrite app_length; simpl; lia).
      destruct (Nat.ltb_spec (S (length (d_nvals (stt cf b0)))) (nnb b0)) as [Hlt2|Hge].
      - (* still waiting *)
        cbn [fst snd]. apply (ok_AB v Hc Hm Hnew s1); auto.
        split; [exact Hcy|]. simpl d_mode. rewrite Hm. split; [exact Hnd1|]. split; [exact Hincl1|].
        left. split; [intros _; simpl; lia|]. auto.
      - assert (Hfull : S (length (d_nvals (stt cf b0))) = nnb b0) by lia.
        assert (W1 : selW dom b0 s1) by (destruct HW; split; auto).
        pose proof (do_improve_sel cs ncs dom infinity b0 s1 W1) as Hsel.
        destruct (do_improve_frame cs ncs dom infinity b0 s1) as [Fm [Fnv [Fni [Fpok [Fpimp [Fcy [Fv [Fo1 Fo2]]]]]]]].
        destruct (do_improve b0 s1) as [[s2 o2] raised]. cbn [fst snd] in *. destruct Hsel as [W2 I2].
        destruct raised.
        + (* improve() raised: stuck *)
          cbn [fst snd]. rewrite (Fo2 eq_refl).
          apply (ok_AB v Hc Hm Hnew s2); auto.
          * rewrite Fm. exact Hm.
          * rewrite Fpok. exact Ppo.
          * split; [rewrite Fcy; exact Hcy|]. rewrite Fm. simpl d_mode. rewrite Hm, Fnv.
            split; [exact Hnd1|]. split; [exact Hincl1|]. right. split; [simpl; lia | exact Hne].
        + specialize (I2 eq_refl). rewrite (Fo1 eq_refl).
          set (s4 := foldI b0 (d_pimp (stt cf b0)) (set_mode ImpM s2)).
          destruct (foldI_frame b0 (d_pimp (stt cf b0)) (set_mode ImpM s2)) as [Gm [Gnv [Gpok [Gpimp [Gcy Gv]]]]].
          fold s4 in Gm, Gnv, Gpok, Gpimp, Gcy, Gv. simpl in Gm, Gnv, Gpok, Gpimp, Gcy, Gv.
          assert (Gni : d_nimps s4 = map fst (d_pimp (stt cf b0))).
          { unfold s4. rewrite foldI_nimps; auto.
            - simpl. rewrite Fni. simpl. rewrite Hnimps. reflexivity.
            - simpl. rewrite Fni. simpl. rewrite Hnimps. auto. }
          assert (GI : selI s4) by (apply foldI_sel; exact I2).
          destruct (Nat.ltb_spec (length (d_pimp (stt cf b0))) (nnb b0)) as [Hq|Hfullp].
          * (* improve mode, waiting *)
            cbn [fst snd].
            apply (ok_C v Hc Hm Hnew Hnd Hincl Hfull (set_pimp [] s4)); auto.
            -- simpl. rewrite Gcy, Fcy. reflexivity.
            -- simpl. rewrite Gpok, Fpok. exact Hpok.
            -- exact (outs_all cs ncs b0 (MImp _ _ _)).
            -- split; [simpl; rewrite Gcy, Fcy; exact Hcy|]. simpl d_mode. rewrite Gm.
               simpl d_nimps. rewrite Gni. split; [exact Hndp|]. split; [exact Ppi|].
               split; [rewrite map_length; exact Hq|]. split; [reflexivity | exact GI].
          * (* every improve message was already there: the cycle ends *)
            destruct (send_ok_frame cs ncs maxd b0 s4) as [Snv [Sni [Spok [Spimp Scy]]]].
            destruct (send_ok_outs b0 s4) as [mo [Emo Eo5]].
            pose proof (send_ok_selI b0 s4 GI) as SI.
            destruct (send_ok b0 s4) as [[s5 o5] e5]. cbn [fst snd] in *.
            apply (ok_D v Hc Hm Hnew Hnd Hincl Hcy Hfull _ _ (if isOk mo then 1 else 0)); auto.
            -- simpl. rewrite Scy, Gcy, Fcy. reflexivity.
            -- simpl. rewrite Spok, Gpok, Fpok. exact Hpok.
            -- lia.
            -- rewrite Eo5. eapply outs_cnt_eq.
               ++ apply outs_app; [exact (outs_all cs ncs b0 (MImp _ _ _)) | apply (outs_all cs ncs b0 mo)].
               ++ simpl. reflexivity.
               ++ rewrite Emo. reflexivity.
            -- apply isOk_le.
            -- split; [simpl; rewrite Scy, Gcy, Fcy; simpl; lia|]. simpl.
               split; [constructor|]. split; [intros t []|]. left.
               split; [intros _; now apply nnb_pos|]. split; [rewrite Spok, Gpok, Fpok; exact Hpok|].
               split; [reflexivity|]. exact SI.
    Qed.
  
    Lemma recv_imp_impm x y z : chan cf a0 b0 = MImp x y z :: q -> d_mode (stt cf b0) = ImpM ->
      goal cf a0 b0 q (dba_recv b0 (stt cf b0) a0 (MImp x y z)).
    Proof.
      intros Hc Hm.
      pose proof (chan_nbr cs ncs orc0 cf gm HK _ _ _ _ Hc) as Ha0.
      pose proof (head_imp_new cs ncs orc0 cf gm HK a0 b0 x y z q Hc Hm) as Hg.
      rewrite (got_impm _ _ Hm) in Hg.
      assert (Hnew : ~ In a0 (d_nimps (stt cf b0))) by (intros H; apply zmem_true_in in H; congruence).
      destruct (K_node _ _ _ _ _ HK b0 Hr) as [Hcy Hn]. rewrite Hm in Hn.
      destruct Hn as [Hnd [Hincl [Hlt [Hpimp HsI]]]].
      destruct (K_post _ _ _ _ _ HK b0) as [Ppo Ppi].
      destruct (senders_nodup (d_pok (stt cf b0)) (nbrs b0)) as [Hndp Hlp]; auto.
      { intros a Ha. rewrite <- len_fromO. apply (pok_one cs ncs orc0 cf gm HK a b0 Ha Hm). }
      fold (nnb b0) in Hlp.
      split; [|now apply recv_events]. exists gm. unfold after.
      rewrite (recv_imp_spec cs ncs dom infinity maxd b0 (stt cf b0) a0 x y z Hm Hpimp Hnew Hlt Hndp Hlp).
      cbv zeta. set (s1 := imp_core b0 (stt cf b0) a0 (x, y, z)).
      destruct (imp_core_frame b0 (stt cf b0) a0 (x, y, z)) as [Cm [Cnv [Cpok [Cpimp [Ccy Cv]]]]].
      fold s1 in Cm, Cnv, Cpok, Cpimp, Ccy, Cv.
      assert (Cni : d_nimps s1 = d_nimps (stt cf b0) ++ [a0]).
      { unfold s1. rewrite imp_core_nimps. now apply set_add_new. }
      destruct (imp_core_sel b0 (stt cf b0) a0 (x, y, z)) as (K1 & K2 & K3). fold s1 in K1, K2, K3.
      assert (I1 : selI s1) by (intros Hcan; rewrite K2; apply HsI; auto).
      assert (W1 : selW dom b0 s1) by (destruct HW; split; [rewrite K1 | rewrite K2]; auto).
      destruct (Nat.ltb_spec (S (length (d_nimps (stt cf b0)))) (nnb b0)) as [Hlt2|Hge].
      - (* still waiting *)
        cbn [fst snd]. apply (imp_A x y z Hc Hm Hnew s1); auto; try congruence.
        split; [rewrite Ccy; exact Hcy|]. rewrite Cm, Hm, Cni.
        split; [|split; [|split; [|split]]]; auto.
        + apply NoDup_app_intro'; auto; [constructor; [intros []|constructor] | intros t Ht [<-|[]]; contradiction].
        + apply incl_app; auto. intros t [<-|[]]; auto.
        + rewrite app_length. simpl. lia.
      - assert (Hfull : S (length (d_nimps (stt cf b0))) = nnb b0) by lia.
        destruct (send_ok_frame cs ncs maxd b0 s1) as [Snv [Sni [Spok [Spimp Scy]]]].
        destruct (send_ok_outs b0 s1) as [mo [Emo Eo2]].
        pose proof (send_ok_selI b0 s1 I1) as SI.
        pose proof (send_ok_sel cs ncs dom maxd b0 s1 W1) as SW.
        destruct (send_ok b0 s1) as [[s2 o2] e2]. cbn [fst snd] in *. destruct SW as [W2 _].
        set (s4 := set_nvals (d_pok (stt cf b0)) (set_mode OkM (clear_view s2))).
        assert (Ecy4 : d_cycle s4 = (d_cycle (stt cf b0) + 1)%Z) by (simpl; rewrite Scy, Ccy; reflexivity).
        assert (Ho2 : outs_cnt b0 o2 (if isOk mo then 1 else 0) 0).
        { rewrite Eo2. eapply outs_cnt_eq; [apply (outs_all cs ncs b0 mo) | reflexivity | now rewrite Emo]. }
        destruct (Nat.ltb_spec (length (d_pok (stt cf b0))) (nnb b0)) as [Hq|Hfullp].
        + (* next cycle, waiting for ok? messages *)
          cbn [fst snd].
          apply (imp_BC x y z Hc Hm Hnew Hnd Hincl Hcy Hfull (set_pok [] s4) o2 (if isOk mo then 1 else 0)); auto.
          * simpl. rewrite Spimp, Cpimp. exact Hpimp.
          * simpl. intros t [].
          * apply isOk_le.
          * split; [simpl; rewrite Scy, Ccy; lia|]. simpl.
            split; [exact Hndp|]. split; [exact Ppo|]. left.
            split; [intros _; exact Hq|]. split; [reflexivity|]. split; [reflexivity|]. exact SI.
        + assert (W4 : selW dom b0 s4) by (destruct W2; split; auto).
          pose proof (do_improve_sel cs ncs dom infinity b0 s4 W4) as Hsel.
          destruct (do_improve_frame cs ncs dom infinity b0 s4) as [Fm [Fnv [Fni [Fpok [Fpimp [Fcy [Fv [Fo1 Fo2]]]]]]]].
          destruct (do_improve b0 s4) as [[s5 o5] raised]. cbn [fst snd] in *. destruct Hsel as [W5 I5].
          assert (Hlenp : length (d_pok (stt cf b0)) = nnb b0) by lia.
          destruct raised.
          * (* improve() raised during the replay: stuck *)
            cbn [fst snd]. rewrite (Fo2 eq_refl), app_nil_r.
            apply (imp_BC x y z Hc Hm Hnew Hnd Hincl Hcy Hfull s5 o2 (if isOk mo then 1 else 0)); auto.
            -- now rewrite Fcy.
            -- rewrite Fpimp. simpl. rewrite Spimp, Cpimp. exact Hpimp.
            -- rewrite Fpok. simpl. rewrite Spok, Cpok. exact Ppo.
            -- apply isOk_le.
            -- split; [rewrite Fcy, Ecy4; lia|]. rewrite Fm. simpl d_mode. rewrite Fnv. simpl d_nvals.
               split; [exact Hndp|]. split; [exact Ppo|]. right. split; [exact Hlenp|].
               intros E. rewrite E in Ha0. destruct Ha0.
          * (* improve mode of the next cycle *)
            cbn [fst snd]. rewrite (Fo1 eq_refl).
            apply (imp_D x y z Hc Hm Hnew Hnd Hincl Hcy Hfull (set_pok [] (set_mode ImpM s5)) _ (if isOk mo then 1 else 0)); auto.
            -- simpl. now rewrite Fcy.
            -- simpl. rewrite Fpimp. simpl. rewrite Spimp, Cpimp. exact Hpimp.
            -- eapply outs_cnt_eq.
               ++ apply outs_app; [exact Ho2 | exact (outs_all cs ncs b0 (MImp _ _ _))].
               ++ lia.
               ++ reflexivity.
            -- apply isOk_le.
            -- split; [simpl; rewrite Fcy, Ecy4; lia|]. simpl. rewrite Fni. simpl.
               split; [constructor|]. split; [intros t []|]. split; [now apply nnb_pos|].
               split; [rewrite Fpimp; simpl; rewrite Spimp, Cpimp; exact Hpimp|].
               apply I5. reflexivity.
    Qed.
  End Recv.

  Lemma recv_goal cf gm a0 b0 m q :
    KI cf gm -> w_running (nodes cf b0) = true -> selW dom b0 (stt cf b0) -> chan cf a0 b0 = m :: q ->
    goal cf a0 b0 q (dba_recv b0 (stt cf b0) a0 m).
  Proof.
    intros HK Hr HW Hc.
    destruct m as [v|x y z|]; [| |eapply recv_fin; eauto]; destruct (d_mode (stt cf b0)) eqn:Em.
    - eapply recv_post_ok; eauto.
    - eapply recv_ok_okm; eauto.
    - eapply recv_post_ok; eauto.
    - eapply recv_fin; eauto.
    - eapply recv_post_imp; eauto.
    - eapply recv_post_imp; eauto.
    - eapply recv_imp_impm; eauto.
    - eapply recv_fin; eauto.
  Qed.

  Lemma start_goal cf gm n0 :
    KI cf gm -> w_running (nodes cf n0) = false ->
    let r := dba_start n0 (dba_init n0) in
    KI (mkConfig (upd_node (nodes cf) n0 (mkWrap true [] (fst (fst r))))
                 (reinject_all (send_all (chan cf) n0 (snd (fst r))) n0 (reinject (w_held (nodes cf n0))))) gm
    /\ Forall (selPev dom) (snd r) /\ selW dom n0 (fst (fst r)).
  Proof.
    intros HK Hr. unfold M_Dba.dba_start, M_Dba.dba_init. simpl.
    destruct (pick (orc0 n0) (dom n0)) as [[v|] o] eqn:Ep; simpl.
    - apply pick_In in Ep. split; [|split].
      + apply (KI_start cs ncs orc0 Hsym cf gm n0 _ _ 1); auto.
        * discriminate.
        * rewrite app_nil_r. exact (outs_all cs ncs n0 (MOk v)).
        * split; [simpl; lia|]. simpl. split; [constructor|]. split; [intros t []|]. left.
          split; [intros H; unfold M_Dba.nnb; destruct (nbrs n0); [congruence | simpl; lia]|].
          split; [reflexivity|]. split; [reflexivity|]. intros H. discriminate.
      + constructor; [exact Ep | constructor].
      + split; intros w Hw; simpl in Hw; [inversion Hw; subst; exact Ep | discriminate].
    - split; [|split].
      + apply (KI_start cs ncs orc0 Hsym cf gm n0 _ [] 0); auto.
        * discriminate.
        * apply outs_nil.
        * split; [simpl; lia | exact I].
      + repeat constructor.
      + split; intros w Hw; simpl in Hw; discriminate.
  Qed.

  (* ---------------------------------------------------------------- every schedule *)
  Definition SI (cf : cfg) : Prop := (exists gm, KI cf gm) /\ (forall n, selW dom n (stt cf n)).

  Lemma step_SI cf a : SI cf -> SI (fst (step P cf a)) /\ Forall (selPev dom) (snd (step P cf a)).
  Proof.
    intros [[gm HK] HW]. destruct a as [n0|a0 b0]; simpl.
    - destruct (w_running (nodes cf n0)) eqn:Ru; [split; [split; eauto | constructor]|].
      pose proof (K_idle _ _ _ _ _ HK n0 Ru) as Hinit. unfold stt in Hinit. rewrite Hinit.
      destruct (start_goal cf gm n0 HK Ru) as [A [B C]].
      destruct (dba_start n0 (dba_init n0)) as [[s' o] e]. simpl in *.
      split; [|exact B]. split; [eauto|].
      intros n. unfold stt. simpl. unfold upd_node. destruct (Z.eqb_spec n n0) as [->|]; [exact C | apply HW].
    - destruct (chan cf a0 b0) as [|m q] eqn:Hc; [split; [split; eauto | constructor]|].
      destruct (w_running (nodes cf b0)) eqn:Ru.
      + pose proof (recv_goal cf gm a0 b0 m q HK Ru (HW b0) Hc) as [[gm' A] B].
        pose proof (dba_recv_sel cs ncs dom infinity maxd b0 (stt cf b0) a0 m (HW b0)) as C.
        unfold after, stt in *.
        destruct (dba_recv b0 (w_st (nodes cf b0)) a0 m) as [[s' o] e]. simpl in *. destruct C as [C _].
        split; [|exact B]. split; [eauto|].
        intros n. unfold stt. simpl. unfold upd_node. destruct (Z.eqb_spec n b0) as [->|]; [exact C | apply HW].
      + split; [|constructor]. split; [exists gm; now apply KI_hold|].
        intros n. unfold stt. simpl. unfold upd_node. destruct (Z.eqb_spec n b0) as [->|]; [apply HW | apply HW].
  Qed.

  Lemma exec_SI sched : forall cf, SI cf ->
    SI (fst (exec P cf sched)) /\ Forall (selPev dom) (snd (exec P cf sched)).
  Proof.
    induction sched as [|a r IH]; intros cf H; simpl; [split; [exact H | constructor]|].
    destruct (step_SI cf a H) as [H1 E1]. destruct (step P cf a) as [cf1 e1]. simpl in *.
    destruct (IH cf1 H1) as [H2 E2]. destruct (exec P cf1 r) as [cf2 e2]. simpl in *.
    split; [exact H2 | apply Forall_app; split; auto].
  Qed.

  Lemma KI_init : KI (init P) (fun _ => Starting).
  Proof.
    constructor; simpl; auto; try discriminate.
    intros b. split; intros t [].
  Qed.

  Lemma SI_init : SI (init P).
  Proof.
    split; [exists (fun _ => Starting); exact KI_init|].
    intros n. unfold stt. simpl. split; intros w Hw; simpl in Hw; discriminate.
  Qed.

  Theorem run_sel sched :
    Forall (selPev dom) (snd (run P sched)) /\ SI (fst (run P sched)).
  Proof. destruct (exec_SI sched (init P) SI_init) as [A B]. split; auto. Qed.

  (* ---------------------------------------------------------------- the model's nesting limit
     (EvRaise n 9: a postponed list that would have to be replayed two levels deep) is never reached,
     for every schedule - also after finished() (C09 proves it before the first finished()) *)
  Definition no9 (e : dev) : Prop := forall n, e <> EvRaise n 9.

  Lemma own_no9 d e : Forall (fun ev => ev_node ev = d) e -> ~ In (EvRaise d 9) e -> Forall no9 e.
  Proof.
    intros Hown Hn. apply Forall_forall. intros ev Hin n ->.
    rewrite Forall_forall in Hown. specialize (Hown _ Hin). simpl in Hown. subst. contradiction.
  Qed.

  Lemma recv_no9 cf gm a0 b0 m q :
    KI cf gm -> w_running (nodes cf b0) = true -> chan cf a0 b0 = m :: q ->
    Forall no9 (snd (dba_recv b0 (stt cf b0) a0 m)).
  Proof.
    intros HK Hr Hc.
    pose proof (dba_recv_ok cs ncs dom infinity maxd orc0 b0 (stt cf b0) a0 m) as H.
    assert (L : linv (stt cf b0) -> Forall no9 (snd (dba_recv b0 (stt cf b0) a0 m))).
    { intros HL. destruct (dba_recv b0 (stt cf b0) a0 m) as [[s' o] e]. destruct H as [[Hown _] H].
      destruct (H HL) as [H9 _]. simpl. now apply own_no9 with b0. }
    destruct (d_mode (stt cf b0)) eqn:Em; try (apply L; unfold linv; rewrite Em; exact I).
    - (* ok mode *)
      destruct (K_node _ _ _ _ _ HK b0 Hr) as [_ Hn]. rewrite Em in Hn. destruct Hn as [Hnd [Hincl Hbr]].
      destruct Hbr as [[_ [Hpok _]] | [Hst Hne]]; [apply L; unfold linv; rewrite Em; exact Hpok|].
      destruct m as [v|x y z|].
      + exfalso. pose proof (head_ok_new cs ncs orc0 cf gm HK a0 b0 v q Hc Em) as Hg.
        rewrite (got_okm _ _ Em) in Hg.
        assert (In a0 (map fst (d_nvals (stt cf b0)))); [|apply zmem_true_in in H0; congruence].
        apply (full_view _ (nbrs b0)); auto.
        * rewrite map_length. exact Hst.
        * apply (chan_nbr cs ncs orc0 cf gm HK _ _ _ _ Hc).
      + unfold M_Dba.dba_recv. rewrite Em. constructor.
      + unfold M_Dba.dba_recv. rewrite Em. repeat constructor. intros n E. discriminate.
    - (* improve mode *)
      destruct (K_node _ _ _ _ _ HK b0 Hr) as [_ Hn]. rewrite Em in Hn.
      destruct Hn as [_ [_ [_ [Hpimp _]]]]. apply L. unfold linv. rewrite Em. exact Hpimp.
  Qed.

  Lemma step_no9 cf a : SI cf -> Forall no9 (snd (step P cf a)).
  Proof.
    intros [[gm HK] HW]. destruct a as [n0|a0 b0]; simpl.
    - destruct (w_running (nodes cf n0)) eqn:Ru; [constructor|].
      pose proof (K_idle _ _ _ _ _ HK n0 Ru) as Hinit. unfold stt in Hinit. rewrite Hinit.
      pose proof (dba_start_ok cs ncs dom infinity orc0 n0 (dba_init n0)) as H.
      destruct (dba_start n0 (dba_init n0)) as [[s' o] e]. simpl. destruct H as [[Hown _] H].
      destruct (H eq_refl) as [H9 _]. now apply own_no9 with n0.
    - destruct (chan cf a0 b0) as [|m q] eqn:Hc; [constructor|].
      destruct (w_running (nodes cf b0)) eqn:Ru; [|constructor].
      pose proof (recv_no9 cf gm a0 b0 m q HK Ru Hc) as H. unfold stt in H.
      destruct (dba_recv b0 (w_st (nodes cf b0)) a0 m) as [[s' o] e]. exact H.
  Qed.

  Lemma exec_no9 sched : forall cf, SI cf -> Forall no9 (snd (exec P cf sched)).
  Proof.
    induction sched as [|a r IH]; intros cf H; simpl; [constructor|].
    pose proof (step_no9 cf a H) as E1. destruct (step_SI cf a H) as [H1 _].
    destruct (step P cf a) as [cf1 e1]. simpl in *.
    specialize (IH cf1 H1). destruct (exec P cf1 r) as [cf2 e2]. simpl in *.
    apply Forall_app; split; auto.
  Qed.
End Count2.

(* For every well-formed problem (the constraint list of every variable holds exactly the constraints
   it occurs in - which makes the neighbour lists symmetric), every parameter value, every domain
   (even empty ones), every random draw and EVERY schedule:
   - every value-selection event of every computation carries a member of its variable's domain
     (no exception for runs in which random.choice([]) raised IndexError, none for what happens after
     computations called finished());
   - current_value and _new_value are None or members of the domain. *)
Theorem dba_selects_in_domain_wf : forall cs ncs dom infinity maxd orc0 sched,
  wf_problem cs ncs ->
  (forall n v c k, In (EvSelect n v c k) (snd (run (dba_proto cs ncs dom infinity maxd orc0) sched)) -> In v (dom n)) /\
  (forall n v, d_value (w_st (nodes (fst (run (dba_proto cs ncs dom infinity maxd orc0) sched)) n)) = Some v ->
               In v (dom n)) /\
  (forall n v, d_new (w_st (nodes (fst (run (dba_proto cs ncs dom infinity maxd orc0) sched)) n)) = Some v ->
               In v (dom n)).
Proof.
  intros cs ncs dom infinity maxd orc0 sched Hwf.
  destruct (run_sel cs ncs dom infinity maxd orc0 (wf_sym cs ncs Hwf) sched) as [A [_ B]].
  split; [|split].
  - intros n v c k Hin. rewrite Forall_forall in A. exact (A _ Hin).
  - intros n v Hv. destruct (B n) as [Wv _]. apply Wv. exact Hv.
  - intros n v Hv. destruct (B n) as [_ Wn]. apply Wn. exact Hv.
Qed.

(* the handler-level model M_Dba.v replays postponed messages one level deep; on a well-formed problem
   a second level is never needed, whatever the schedule - before and after finished() *)
Theorem dba_nesting_limit_unreached : forall cs ncs dom infinity maxd orc0 sched n,
  wf_problem cs ncs -> ~ In (EvRaise n 9) (snd (run (dba_proto cs ncs dom infinity maxd orc0) sched)).
Proof.
  intros cs ncs dom infinity maxd orc0 sched n Hwf Hin.
  pose proof (exec_no9 cs ncs dom infinity maxd orc0 (wf_sym cs ncs Hwf) sched _
                (SI_init cs ncs dom infinity maxd orc0)) as H.
  rewrite Forall_forall in H. exact (H _ Hin n eq_refl).
Qed.

(* non-vacuity: a well-formed 2-variable instance (the one of P_Dba.v) with infinity = 0, where every
   value of every variable evaluates above infinity: both computations select an initial value, then
   raise IndexError in improve() -- the runs about which [dba_selects_in_domain_partial] said nothing;
   and, with infinity = 10000, a run that continues after both computations called finished() (each
   calls it twice: stop_condition, then the dba_end of the other one) *)
Example dba_selects_in_domain_nonvacuous :
  wf_problem ex_cs ex_ncs
  /\ snd (run (dba_proto ex_cs ex_ncs ex_dom 0 1 ex_orc) [Start 0; Start 1; Deliver 0 1; Deliver 1 0; Deliver 0 1; Deliver 1 0])
     = [EvSelect 0 0 None 0; EvSelect 1 0 None 0; EvRaise 1 1; EvRaise 0 1]
  /\ snd (run (dba_proto ex_cs ex_ncs ex_dom 10000 1 ex_orc) ex_sched)
     = [EvSelect 0 0 None 0; EvSelect 1 0 None 0; EvCycle 1 1; EvCycle 0 1; EvSelect 0 1 (Some 0) 1;
        EvCycle 1 2; EvFinished 1; EvCycle 0 2; EvFinished 0; EvFinished 1; EvFinished 0].
Proof. split; [exact ex_wf | split; vm_compute; reflexivity]. Qed.
