(* P_Dpop2Aux.v -- helper lemmas for P_Dpop2.v: dimension lists of join / join_own / projection,
   dict_of_list, the closed form of the VALUE loop, success of slice / find_arg_optimal. *)
From PyDcop Require Import Base Net M_Dpop P_Dpop P_Dpop2Net.
From Coq Require Import ZifyBool.
Local Open Scope list_scope.

Lemma zmem_false x l : zmem x l = false <-> ~ In x l.
Proof.
  split.
  - intros H Hin. apply zmem_In in Hin. congruence.
  - intros H. destruct (zmem x l) eqn:E; auto. apply zmem_In in E. contradiction.
Qed.

Lemma remove_first_iff x d l : NoDup l -> (In d (remove_first x l) <-> In d l /\ d <> x).
Proof.
  induction l as [|y r IH]; intros Hnd; simpl; [tauto|]. inversion Hnd; subst.
  destruct (Z.eqb x y) eqn:E.
  - apply Z.eqb_eq in E; subst y. split.
    + intros H. split; auto. intros ->. contradiction.
    + intros [[<-|H] Hne]; [congruence|auto].
  - apply Z.eqb_neq in E. simpl. rewrite IH by auto. split.
    + intros [<-|[H Hne]]; auto.
    + intros [[<-|H] Hne]; auto.
Qed.

Lemma remove_first_nodup x l : NoDup l -> NoDup (remove_first x l).
Proof.
  induction l as [|y r IH]; intros Hnd; simpl; auto. inversion Hnd; subst.
  destruct (Z.eqb x y); auto. constructor; auto. intros H. apply remove_first_in in H. contradiction.
Qed.

Lemma zmem_remove_first_other c c0 l : c <> c0 -> zmem c (remove_first c0 l) = zmem c l.
Proof.
  intros Hne. destruct (zmem c l) eqn:E.
  - apply zmem_In. apply zmem_In in E. apply in_remove_first; auto.
  - apply zmem_false. apply zmem_false in E. intros H. apply E. eapply remove_first_in; eauto.
Qed.

Lemma zmem_remove_first_same c0 l : NoDup l -> zmem c0 (remove_first c0 l) = false.
Proof. intros H. apply zmem_false. intros Hin. apply remove_first_iff in Hin; auto. destruct Hin; congruence. Qed.

Lemma zsum_remove_first (g : Z -> Z) c W : In c W ->
  zsum (map g W) = g c + zsum (map g (remove_first c W)).
Proof.
  induction W as [|y r IH]; simpl; intros H; [tauto|].
  destruct (Z.eqb c y) eqn:E.
  - apply Z.eqb_eq in E; subst. reflexivity.
  - apply Z.eqb_neq in E. destruct H as [H|H]; [congruence|]. simpl. rewrite IH by auto. lia.
Qed.

Lemma filter_none_l {A} (f : A -> bool) l : (forall d, In d l -> f d = false) -> filter f l = [].
Proof.
  induction l as [|a r IH]; intros H; simpl; auto. rewrite (H a) by (left; auto). apply IH.
  intros d Hd. apply H. right; auto.
Qed.

Lemma filter_single (f : Z -> bool) x l : NoDup l -> In x l -> f x = true ->
  (forall d, In d l -> d <> x -> f d = false) -> filter f l = [x].
Proof.
  induction l as [|y r IH]; intros Hnd Hin Hfx Hoth; [destruct Hin|]. inversion Hnd; subst. simpl.
  destruct Hin as [->|Hin].
  - rewrite Hfx. f_equal. apply filter_none_l. intros d Hd. apply Hoth; [right; auto|].
    intros ->. contradiction.
  - assert (Hne : y <> x) by (intros ->; contradiction).
    rewrite (Hoth y); [|left; auto|exact Hne]. apply IH; auto. intros d Hd Hn. apply Hoth; auto. right; auto.
Qed.

Lemma nodup_all_eq (x : Z) l : NoDup l -> In x l -> (forall d, In d l -> d = x) -> l = [x].
Proof.
  intros Hnd Hin Hall. destruct l as [|a [|b r]]; [destruct Hin| |].
  - rewrite (Hall a) by (left; auto). reflexivity.
  - exfalso. inversion Hnd; subst. apply H1. left.
    rewrite (Hall a), (Hall b); auto; simpl; auto.
Qed.

(* ---- dict_of_list when all the values are given by a function of the key *)
Lemma dol_fold (f : Z -> Z) l : (forall k v, In (k, v) l -> v = f k) ->
  forall acc, (forall k v, zlookup k acc = Some v -> v = f k) ->
  forall d, zlookup d (fold_left (fun d0 kv => dict_set Z.eqb (fst kv) (snd kv) d0) l acc)
            = if zmem d (map fst l) || mem_key Z.eqb d acc then Some (f d) else None.
Proof.
  induction l as [|[k v] r IH]; intros Hl acc Hacc d; simpl.
  - unfold mem_key. fold (@zlookup Z d acc). destruct (zlookup d acc) eqn:E; auto. f_equal. apply Hacc. exact E.
  - rewrite IH.
    + unfold mem_key. destruct (Z.eqb d k) eqn:E.
      * apply Z.eqb_eq in E; subst d. simpl.
        rewrite lookup_dict_set_same by (apply Z.eqb_eq). rewrite orb_true_r. reflexivity.
      * apply Z.eqb_neq in E. simpl. rewrite lookup_dict_set_other by (try apply Z.eqb_eq; auto). reflexivity.
    + intros k' v' H. apply Hl. right; auto.
    + intros k' v'. destruct (Z.eq_dec k' k) as [->|Hne].
      * unfold zlookup. rewrite lookup_dict_set_same by (apply Z.eqb_eq). intros H; inversion H; subst.
        apply Hl. left; auto.
      * unfold zlookup. rewrite lookup_dict_set_other by (try apply Z.eqb_eq; auto). apply Hacc.
Qed.

Lemma dol_spec (f : Z -> Z) l : (forall k v, In (k, v) l -> v = f k) ->
  forall d, zlookup d (dict_of_list Z.eqb l) = if zmem d (map fst l) then Some (f d) else None.
Proof.
  intros H d. unfold dict_of_list. rewrite (dol_fold f l H []).
  - unfold mem_key; simpl. rewrite orb_false_r. reflexivity.
  - intros k v. unfold zlookup; simpl. discriminate.
Qed.

Lemma map_fst_combine (a b : list Z) : List.length a = List.length b -> map fst (combine a b) = a.
Proof.
  revert b. induction a as [|x r IH]; intros [|y b] H; simpl in *; try discriminate; auto.
  f_equal. apply IH. lia.
Qed.

Lemma in_combine_map (f : Z -> Z) l d v : In (d, v) (combine l (map f l)) -> In d l /\ v = f d.
Proof.
  induction l as [|a r IH]; simpl; intros H; [tauto|]. destruct H as [H|H].
  - inversion H; subst. auto.
  - destruct (IH H). auto.
Qed.

Lemma in_combine_exists (a b : list Z) d : List.length a = List.length b -> In d a -> exists w, In (d, w) (combine a b).
Proof.
  revert b. induction a as [|x r IH]; intros [|y b] Hl Hin; simpl in *; try discriminate; [tauto|].
  destruct Hin as [->|Hin]; [exists y; auto|]. destruct (IH b) as (w & Hw); auto. exists w; auto.
Qed.

Lemma in_mem_key (k v : Z) l : In (k, v) l -> mem_key Z.eqb k l = true.
Proof.
  unfold mem_key. induction l as [|[k' v'] r IH]; simpl; intros H; [tauto|].
  destruct (Z.eqb k k') eqn:E; auto. destruct H as [H|H]; [inversion H; subst; rewrite Z.eqb_refl in E; discriminate|auto].
Qed.

Lemma nodup_snoc (d : Z) acc : NoDup acc -> ~ In d acc -> NoDup (acc ++ [d]).
Proof.
  induction acc as [|a r IH]; simpl; intros H Hn.
  - constructor; [intros []|constructor].
  - inversion H; subst. constructor.
    + rewrite in_app_iff; simpl. intros [?|[?|[]]]; [auto|subst; apply Hn; left; auto].
    + apply IH; auto.
Qed.

Lemma filter_true {A} (f : A -> bool) l : (forall x, In x l -> f x = true) -> filter f l = l.
Proof.
  induction l as [|a r IH]; intros H; simpl; auto. rewrite (H a) by (left; auto). f_equal. apply IH.
  intros x Hx. apply H. right; auto.
Qed.

Lemma from_none {M} c (l : list (Z * M)) : (forall p, In p l -> fst p <> c) -> from c l = [].
Proof.
  unfold from. induction l as [|a r IH]; intros H; simpl; auto.
  destruct (Z.eqb (fst a) c) eqn:E.
  - apply Z.eqb_eq in E. exfalso. apply (H a); auto. left; auto.
  - apply IH. intros p Hp. apply H. right; auto.
Qed.

Lemma from_map_nodup {M} (g : Z -> M) cs c : NoDup cs ->
  from c (map (fun c0 => (c0, g c0)) cs) = if zmem c cs then [g c] else [].
Proof.
  induction cs as [|a r IH]; intros Hnd; [reflexivity|]. inversion Hnd; subst.
  unfold from in *. simpl. rewrite (Z.eqb_sym c a). destruct (Z.eqb a c) eqn:E; simpl.
  - apply Z.eqb_eq in E; subst a. rewrite IH by auto.
    apply zmem_false in H1. rewrite H1. reflexivity.
  - apply IH. auto.
Qed.

Section Aux.
  Variable P : dcop.
  Let D := dsize P.
  Let m := dc_mode P.

  Lemma join_dims_nodup d2 : forall acc, NoDup acc -> NoDup (join_dims acc d2).
  Proof.
    induction d2 as [|d r IH]; intros acc H; simpl; auto.
    destruct (zmem d acc) eqn:E; apply IH; auto.
    apply zmem_false in E. apply nodup_snoc; auto.
  Qed.

  Lemma dims_join_nodup u1 u2 : NoDup (r_dims u1) -> NoDup (r_dims (join D u1 u2)).
  Proof. unfold join; simpl. apply join_dims_nodup. Qed.

  Lemma dims_join_own_iff x j d :
    In d (r_dims (join_own P x j)) <->
    In d (r_dims j) \/ exists k, In k (owned P x) /\ In d (r_dims (con P k)).
  Proof.
    unfold join_own. generalize (owned P x) j. induction l as [|c r IH]; intros j0; simpl.
    - split; [auto|intros [H|(k & [] & _)]; auto].
    - rewrite IH. fold D. rewrite dims_join. split.
      + intros [[H|H]|(k & Hk & H)]; eauto.
      + intros [H|(k & [<-|Hk] & H)]; eauto.
  Qed.

  Lemma dims_join_own_nodup x j : NoDup (r_dims j) -> NoDup (r_dims (join_own P x j)).
  Proof.
    unfold join_own. generalize (owned P x) j. induction l as [|c r IH]; intros j0 H; simpl; auto.
    apply IH. apply dims_join_nodup. exact H.
  Qed.

  Lemma init_dims x : r_dims (init_joined P x) = [x].
  Proof. reflexivity. Qed.

  Lemma init_eval x a : (aval a x < D x)%nat -> eval (init_joined P x) a = vc P x a.
  Proof.
    intros H. unfold eval, init_joined; cbn [r_dims r_tbl]. fold D. rewrite tget_build.
    - unfold vc. rewrite aval_restrict by (left; auto). reflexivity.
    - intros d [<-|[]]; auto.
  Qed.

  Lemma projection_some r x : In x (r_dims r) ->
    exists u, projection D r x m = Some u /\ r_dims u = remove_first x (r_dims r).
  Proof. intros H. unfold projection. apply zmem_In in H. rewrite H. eexists; split; reflexivity. Qed.

  Lemma fao_ok x r : r_dims r = [x] -> (0 < D x)%nat -> exists v c, fao D x r m = inl (v, c).
  Proof.
    intros Hd Hx. unfold fao. rewrite Hd, Z.eqb_refl.
    destruct (fao_costs_spec m (map (fun v => eval r [(x, Z.of_nat v)]) (seq 0 (D x)))) as (b & i & args & E & _).
    - apply map_seq_nonempty; auto.
    - rewrite E. eauto.
  Qed.

  (* closed form of the VALUE loop when every child's separator is known *)
  Definition vkeep (vd : asg) (csep : list (Z * list Z)) (c : Z) : list Z :=
    filter (fun v => mem_key Z.eqb v vd) (match zlookup c csep with Some sep => sep | None => [] end).
  Definition vvals (vd : asg) (csep : list (Z * list Z)) (c : Z) : list Z :=
    map (fun v => match zlookup v vd with Some w => w | None => 0 end) (vkeep vd csep c).

  Lemma value_msgs_ok x sel vd csep cs : (forall c, In c cs -> zlookup c csep <> None) ->
    value_msgs x sel vd csep cs =
      (map (fun c => (c, MValue (x :: vkeep vd csep c) (sel :: vvals vd csep c))) cs,
       map (fun c => EvValue x c (x :: vkeep vd csep c) (sel :: vvals vd csep c)) cs, true).
  Proof.
    induction cs as [|c r IH]; intros H; simpl; [reflexivity|].
    destruct (zlookup c csep) as [sep|] eqn:E; [|exfalso; apply (H c); auto; left; auto].
    rewrite IH by (intros c' Hc'; apply H; right; auto).
    unfold vvals, vkeep. rewrite E. reflexivity.
  Qed.

  Lemma slice_ok r vd : (forall k v, In (k, v) vd -> In k (r_dims r)) -> exists p, slice D r vd = Some p.
  Proof.
    unfold slice. destruct vd as [|kv vd']; eauto. intros H.
    rewrite (proj2 (forallb_forall _ _)); eauto.
    intros [k v] Hin. apply zmem_In. eapply H; eauto.
  Qed.

  Lemma slice_dims r vd p : slice D r vd = Some p ->
    r_dims p = filter (fun d => negb (mem_key Z.eqb d vd)) (r_dims r).
  Proof.
    unfold slice. destruct vd as [|kv vd'].
    - intros H; inversion H; subst. symmetry. apply filter_true. intros; reflexivity.
    - destruct (forallb _ _); [|discriminate]. intros H; inversion H; reflexivity.
  Qed.
End Aux.
