(* P_Mgm2sO.v -- MGM2 barrier proof: the micro-step that consumes an OFFER message (state offer):
   the offer is filed; when the table is complete the answers (and, for a non-offerer, the gains)
   are sent and the state becomes answer? (offerer) or gain (non-offerer). *)
From Coq Require Import ZArith List Bool Lia.
From PyDcop Require Import Base Net M_Mgm M_Mgm2 M_Mgm2x P_Mgm P_Mgm3 P_Mgm3c P_Mgm2x P_Mgm2y P_Mgm2s.
Import ListNotations.
Open Scope Z_scope.

Local Notation length := List.length.

Ltac getP P :=
  pose proof (p_V _ _ _ _ _ P) as PV; pose proof (p_O _ _ _ _ _ P) as PO; pose proof (p_G _ _ _ _ _ P) as PG;
  pose proof (p_A1 _ _ _ _ _ P) as PA1; pose proof (p_A0 _ _ _ _ _ P) as PA0;
  pose proof (p_Go1 _ _ _ _ _ P) as PGo1; pose proof (p_Go0 _ _ _ _ _ P) as PGo0;
  pose proof (p_PO _ _ _ _ _ P) as PPO; pose proof (p_PS _ _ _ _ _ P) as PPS; pose proof (p_PA _ _ _ _ _ P) as PPA;
  pose proof (p_L _ _ _ _ _ P) as PL; pose proof (p_Ans _ _ _ _ _ P) as PAns; clear P.

(* ------------------------------------------------------------------ list helpers *)
Lemma offering_in l w os : In (w, os) (offering l) <-> In (w, M2Offer true os) l.
Proof.
  unfold offering. rewrite in_flat_map. split.
  - intros [[w' m] [H1 H2]]. simpl in H2. destruct m as [| |[|] os'| |]; try contradiction.
    destruct H2 as [H2|[]]. injection H2 as -> ->. exact H1.
  - intros H. exists (w, M2Offer true os). split; [exact H|left; reflexivity].
Qed.

Lemma offering_nodup l : NoDup (map fst l) -> NoDup (map fst (offering l)).
Proof.
  induction l as [|[w m] r IH]; simpl; [intros _; constructor|].
  intros H. inversion H as [|? ? Hn Hr]; subst. specialize (IH Hr).
  assert (Hsub : forall a, In a (map fst (offering r)) -> In a (map fst r)).
  { intros a Ha. apply in_map_iff in Ha as [[a' os] [<- Ha]]. apply offering_in in Ha.
    apply in_map_iff. exists (a', M2Offer true os). split; [reflexivity|exact Ha]. }
  destruct m as [| |[|] os'| |]; simpl; try exact IH.
  constructor; [|exact IH]. intros Hc. apply Hn. apply Hsub. exact Hc.
Qed.

Lemma to_y2_off {A} (g : Z * A -> node * m2msg) (OFF : list (Z * A)) w :
  (forall so, fst (g so) = fst so) -> NoDup (map fst OFF) ->
  (~ In w (map fst OFF) -> to_y2 w (map g OFF) = []) /\
  (forall os, In (w, os) OFF -> to_y2 w (map g OFF) = [snd (g (w, os))]).
Proof.
  intros Hg. unfold to_y2. induction OFF as [|[t a] r IH]; intros Hnd; [split; [reflexivity|intros os []]|].
  simpl in Hnd. inversion Hnd as [|? ? Hn Hnd']; subst. destruct (IH Hnd') as [I1 I2]. simpl. rewrite Hg. simpl.
  destruct (Z.eqb_spec t w) as [->|Hne]; simpl.
  - split; [intros Hc; exfalso; apply Hc; left; reflexivity|].
    intros os [Ho|Ho].
    + injection Ho as ->. rewrite (I1 Hn). reflexivity.
    + exfalso. apply Hn. apply in_map_iff. exists (w, os). split; [reflexivity|exact Ho].
  - split.
    + intros Hc. apply I1. intros Hc'. apply Hc. right. exact Hc'.
    + intros os [Ho|Ho]; [injection Ho as -> _; congruence|apply (I2 os Ho)].
Qed.

Lemma pd_step_recv_indep pd x y rest o o' x' : x' <> y ->
  pd_step pd x y rest o x' y = pd_step pd x y rest o' x' y.
Proof. intros H. unfold pd_step. apply Z.eqb_neq in H. rewrite H. reflexivity. Qed.

(* ------------------------------------------------------------------ local pair transformations:
   b (resp. a) is the node whose table is complete; only its control fields change *)
Section Local.
  Variable rn : node -> bool.
  Variables S1 S2 : node -> m2st.
  Variables pd1 pd2 : node -> node -> list m2msg.

  (* receiver b: offer -> answer? *)
  Lemma recv_to3 a b :
    skelS (S2 a) = skelS (S1 a) ->
    t_state (S1 b) = 2 -> t_state (S2 b) = 3 ->
    t_cycle (S2 b) = t_cycle (S1 b) -> t_fin (S2 b) = t_fin (S1 b) -> t_nv (S2 b) = t_nv (S1 b) ->
    t_offers (S2 b) = t_offers (S1 b) -> t_ng (S2 b) = t_ng (S1 b) -> t_partner (S2 b) = t_partner (S1 b) ->
    t_committed (S2 b) = t_committed (S1 b) -> t_offerer (S2 b) = t_offerer (S1 b) ->
    pd2 a b = pd1 a b ->
    pairI rn S1 pd1 a b -> pairI rn S2 pd2 a b.
  Proof.
    unfold skelS. intros Ha B1 B1' B2 B3 B4 B5 B6 B7 B8 B9 Hp P. getP P.
    injection Ha as A1 A2 A3 A7 A8 A9.
    constructor; unf; rewrite ?Hp, ?A1, ?A2, ?A3, ?A7, ?A8, ?A9, ?B1', ?B2, ?B3, ?B4, ?B5, ?B6, ?B7, ?B8, ?B9;
      rewrite ?B1 in *; try assumption.
    - intros (E1 & E2 & E3) H3. apply PA1; [repeat split; try assumption; clear; lia|exact H3].
    - intros H. apply PA0. intros [(E1 & E2 & E3) H3]. apply H. split; [repeat split; try assumption; clear; lia|exact H3].
    - intros f os H. exfalso. clear - H. lia.
    - intros H1 H2. destruct (PL H1 H2) as [H|[H H']]; [left; exact H|right; split; [exact H|]].
      destruct (t_offerer (S1 a)); [exact H'|]. destruct H' as (U1 & U2 & U3). repeat split; auto. left. clear. lia.
    - intros H1 H2 H3. destruct (PAns H1 H2 H3) as [[H H']|H]; [exfalso; clear - H'; lia|right; exact H].
  Qed.
  (* sender a: offer -> answer? ; inb = "b has made an offer to a" *)
  Lemma send_to3 a b (inb : bool) :
    S2 b = S1 b ->
    t_state (S1 a) = 2 -> t_state (S2 a) = 3 ->
    t_cycle (S2 a) = t_cycle (S1 a) -> t_fin (S2 a) = t_fin (S1 a) -> t_partner (S2 a) = t_partner (S1 a) ->
    t_committed (S2 a) = t_committed (S1 a) -> t_offerer (S2 a) = t_offerer (S1 a) ->
    t_offerer (S1 a) = true ->
    pd2 a b = pd1 a b ++ (if inb then [M2Answer false None None] else []) ->
    (inb = true -> expA S1 b a) -> (expA S1 b a -> inb = true) ->
    pairI rn S1 pd1 a b -> pairI rn S2 pd2 a b.
  Proof.
    intros Eb A1 A1' A2 A3 A7 A8 A9 Hoff Hp Hi1 Hi2 P. getP P.
    assert (C : forall k, cnt k (pd2 a b) = cnt k (pd1 a b) + b2z inb * b2z (3 =? k)).
    { intros k. rewrite Hp, cnt_app. destruct inb; [rewrite cnt_cons, cnt_nil; simpl kind_of|rewrite cnt_nil];
      [change (b2z true) with 1|change (b2z false) with 0]; lia. }
    assert (Hin : forall m, In m (pd2 a b) -> In m (pd1 a b) \/ (inb = true /\ m = M2Answer false None None)).
    { intros m. rewrite Hp. intros H. apply in_app_or in H as [H|H]; [left; exact H|right].
      destruct inb; [destruct H as [<-|[]]; auto|destruct H]. }
    constructor; unf; rewrite ?Eb, ?C, ?A1', ?A2, ?A3, ?A7, ?A8, ?A9; rewrite ?A1 in *; simpl b2z;
      rewrite ?Z.mul_0_r, ?Z.mul_1_r, ?Z.add_0_r; try assumption.
    - simpl b2z in PG. rewrite Z.add_0_r in PG. exact PG.
    - intros E _. rewrite PA0; [rewrite (Hi2 E); reflexivity|]. intros [_ H]. clear - H. lia.
    - intros H. rewrite PA0; [|intros [_ H']; clear - H'; lia].
      destruct inb; [|reflexivity]. exfalso. apply H. split; [apply Hi1; reflexivity|clear; lia].
    - intros E [[_ H]|H]; [exfalso; clear - H; lia|]. apply PGo1; [exact E|right; exact H].
    - intros H0. apply PGo0. intros [E [[_ H]|H]]; [clear - H; lia|]. apply H0. split; [exact E|right; exact H].
    - intros f os H. apply Hin in H as [H|[_ H]]; [apply (PPO f os H)|discriminate].
    - intros a0 v g H. apply Hin in H as [H|[_ H]]; [apply (PPA a0 v g H)|].
      injection H as -> _ _. rewrite Hoff. simpl. rewrite andb_false_r. simpl. split; [reflexivity|discriminate].
    - intros H1 H2. destruct (PL H1 H2) as [[_ H]|H]; [exfalso; clear - H; lia|right; exact H].
  Qed.

  (* receiver b: offer -> gain (b is not an offerer) *)
  Lemma recv_to4 a b (com : bool) p :
    S2 a = S1 a ->
    t_state (S1 b) = 2 -> t_offerer (S1 b) = false -> t_committed (S1 b) = false ->
    t_state (S2 b) = 4 ->
    t_cycle (S2 b) = t_cycle (S1 b) -> t_fin (S2 b) = t_fin (S1 b) -> t_nv (S2 b) = t_nv (S1 b) ->
    t_offers (S2 b) = t_offers (S1 b) -> t_ng (S2 b) = t_ng (S1 b) ->
    t_partner (S2 b) = (if com then Some p else None) -> t_committed (S2 b) = com -> t_offerer (S2 b) = false ->
    pd2 a b = pd1 a b ->
    t_cycle (S1 a) = t_cycle (S1 b) -> t_state (S1 a) <= 4 ->
    pairI rn S1 pd1 a b -> pairI rn S2 pd2 a b.
  Proof.
    intros Ea B1 Bo Bc B1' B2 B3 B4 B5 B6 B7 B8 B9 Hp Hcy Hk P. getP P.
    constructor; unf; rewrite ?Ea, ?Hp, ?B1', ?B2, ?B3, ?B4, ?B5, ?B6, ?B7, ?B8, ?B9; rewrite ?B1, ?Bo, ?Bc in *;
      try assumption.
    - intros (E & _). discriminate.
    - intros _. apply PA0. intros [(E & _) _]. discriminate.
    - intros _ [[_ H]|H]; exfalso; clear - H Hcy Hk; lia.
    - intros _. apply PGo0. intros [(E & _) _]. discriminate.
    - intros f os H. exfalso. clear - H. lia.
    - intros H1 H2. exfalso. destruct (PL H1 H2) as [[H _]|[_ H]]; [clear - H Hcy; lia|].
      destruct (t_offerer (S1 a)); [destruct H as (_ & H & _)|destruct H as (H & _)]; discriminate.
    - intros _ _ _. left. split; [symmetry; exact Hcy|clear; lia].
  Qed.

  (* sender a: offer -> gain (a is not an offerer); inb = "b has made an offer to a" *)
  Lemma send_to4 a b (inb com : bool) p vp gain gv :
    S2 b = S1 b -> rn a = true ->
    t_state (S1 a) = 2 -> t_offerer (S1 a) = false -> t_committed (S1 a) = false ->
    t_state (S2 a) = 4 ->
    t_cycle (S2 a) = t_cycle (S1 a) -> t_fin (S2 a) = t_fin (S1 a) ->
    t_partner (S2 a) = (if com then Some p else None) -> t_committed (S2 a) = com -> t_offerer (S2 a) = false ->
    pd2 a b = pd1 a b ++ (if inb then [if com && (b =? p) then M2Answer true vp (Some gain) else M2Answer false None None]
                          else []) ++ [M2Gain gv] ->
    (inb = true -> expA S1 b a) -> (expA S1 b a -> inb = true) ->
    (com = true -> gain <> 0) -> (com = true -> b = p -> inb = true) ->
    t_cycle (S1 b) = t_cycle (S1 a) ->
    pairI rn S1 pd1 a b -> pairI rn S2 pd2 a b.
  Proof.
    intros Eb Ra A1 Ao Ac A1' A2 A3 A7 A8 A9 Hp Hi1 Hi2 Hg Hpi Hcy P. getP P.
    set (ans := if com && (b =? p) then M2Answer true vp (Some gain) else M2Answer false None None) in *.
    assert (Ka : kind_of ans = 3) by (unfold ans; destruct (com && (b =? p)); reflexivity).
    assert (C : forall k, cnt k (pd2 a b) = cnt k (pd1 a b) + b2z inb * b2z (3 =? k) + b2z (4 =? k)).
    { intros k. rewrite Hp, !cnt_app, cnt_cons, cnt_nil. simpl kind_of.
      destruct inb; [rewrite cnt_cons, cnt_nil, Ka|rewrite cnt_nil];
      [change (b2z true) with 1|change (b2z false) with 0]; lia. }
    assert (Hin : forall m, In m (pd2 a b) -> In m (pd1 a b) \/ (inb = true /\ m = ans) \/ m = M2Gain gv).
    { intros m. rewrite Hp. intros H. apply in_app_or in H as [H|H]; [left; exact H|right].
      apply in_app_or in H as [H|[<-|[]]]; [left|right; reflexivity].
      destruct inb; [destruct H as [<-|[]]; auto|destruct H]. }
    assert (Z3 : cnt 3 (pd1 a b) = 0).
    { apply PA0. intros [_ H]. rewrite A1 in H. clear - H. lia. }
    constructor; unf; rewrite ?Eb, ?C, ?A1', ?A2, ?A3, ?A7, ?A8, ?A9; rewrite ?A1, ?Ao, ?Ac, ?Ra in *; simpl b2z;
      rewrite ?Z.mul_0_r, ?Z.mul_1_r, ?Z.add_0_r; try assumption.
    - simpl b2z in PG. clear - PG. lia.
    - intros E _. rewrite Z3, (Hi2 E). reflexivity.
    - intros H. rewrite Z3. destruct inb; [|reflexivity]. exfalso. apply H. split; [apply Hi1; reflexivity|clear; lia].
    - intros _ [[_ H]|H]; exfalso; clear - H Hcy; lia.
    - intros _. apply PGo0. intros [_ [[_ H]|H]]; clear - H Hcy; lia.
    - intros f os H. apply Hin in H as [H|[[_ H]|H]]; [apply (PPO f os H)| |discriminate].
      unfold ans in H. destruct (com && (b =? p)); discriminate.
    - intros a0 v g H. apply Hin in H as [H|[[Hb H]|H]]; [|clear Z3|discriminate].
      + exfalso. apply in_cnt_pos in H. simpl kind_of in H. clear - H Z3. lia.
      + unfold ans in H. destruct com; simpl in *.
        * destruct (Z.eqb_spec b p) as [->|Hne].
          -- injection H as -> _ ->. split; [reflexivity|]. intros _. exists gain. split; [reflexivity|].
             apply Hg. reflexivity.
          -- injection H as -> _ _. split; [reflexivity|discriminate].
        * injection H as -> _ _. split; [reflexivity|discriminate].
    - intros -> H2. injection H2 as <-. right. split; [exact Hcy|].
      destruct (Hi1 (Hpi eq_refl eq_refl)) as (U1 & U2 & U3). repeat split; auto. left. clear - U3. lia.
    - discriminate.
  Qed.
End Local.

Lemma kino_snoc x' l x m : kino x' (l ++ [(x, m)]) = kino x' l || (x' =? x).
Proof. unfold kino, zmem. rewrite map_app, existsb_app. simpl. rewrite orb_false_r. reflexivity. Qed.

Lemma to_y2_off' {A} (g : Z * A -> node * m2msg) (msg : Z -> m2msg) (OFF : list (Z * A)) w :
  (forall so, g so = (fst so, msg (fst so))) -> NoDup (map fst OFF) ->
  to_y2 w (map g OFF) = if zmem w (map fst OFF) then [msg w] else [].
Proof.
  intros Hg Hnd. destruct (to_y2_off g OFF w (fun so => f_equal fst (Hg so)) Hnd) as [H1 H2].
  destruct (zmem w (map fst OFF)) eqn:E.
  - apply zmem_In in E. apply in_map_iff in E as [[w' os] [Hw Hi]]. simpl in Hw. subst w'.
    rewrite (H2 os Hi), Hg. reflexivity.
  - apply H1. intros Hc. apply zmem_In in Hc. congruence.
Qed.

Section StepO.
  Variable d : dcop.
  Variable stop thr favor : Z.
  Notation nbr := (nbrs d).
  Notation doneb := (doneb stop).
  Notation InvA := (InvA d stop).
  Notation good := (good d stop).
  Variable rn : node -> bool.
  Variable S : node -> m2st.
  Variable pd : node -> node -> list m2msg.
  Hypothesis HI : InvA rn S pd.
  Notation step_ok := (step_ok d stop thr favor rn S pd).
  Notation pos_facts := (pos_facts d stop rn S pd HI).
  Notation le_facts := (le_facts d stop rn S pd HI).
  Notation pending_nbr := (pending_nbr d stop rn S pd HI).
  Notation evok := (evok stop).

  (* a neighbour w of y (state offer) whose offer of the current cycle has reached y *)
  Lemma nbr_here y w : rn y = true -> t_state (S y) = 2 -> In w (nbr y) ->
    0 < cnt 2 (pd w y) + b2z (kino w (t_offers (S y))) ->
    rn w = true /\ t_cycle (S w) = t_cycle (S y) /\ 2 <= t_state (S w) <= 4 /\
    cnt 2 (pd w y) + b2z (kino w (t_offers (S y))) = 1.
  Proof.
    intros Ry Hk Hw Hpos. pose proof (i_pair _ _ _ _ _ HI w y Hw) as P. pose proof (p_O _ _ _ _ _ P) as E. clear P.
    unf. rewrite Ry in E.
    pose proof (g_c _ _ _ _ (i_good _ _ _ _ _ HI y Ry (act_of d w y Hw))) as Cy.
    assert (Rw : rn w = true). { destruct (rn w); [reflexivity|]. exfalso. clear - E Cy Hpos. lia. }
    rewrite Rw in E. destruct (pos_facts w y Hw Rw Ry) as (Q1 & Q2 & Q3).
    pose proof (g_k _ _ _ _ (i_good _ _ _ _ _ HI w Rw (act_of d y w (nbrs_sym d y w Hw)))) as Kw.
    pose proof (b2z_range (2 <=? t_state (S w))) as Bw.
    assert (Hle : t_cycle (S w) <= t_cycle (S y)) by (clear - Q1 Q2 Hk; lia).
    assert (Hc : t_cycle (S w) = t_cycle (S y) /\ cnt 2 (pd w y) + b2z (kino w (t_offers (S y))) = 1 /\
                 b2z (2 <=? t_state (S w)) = 1) by (clear - E Hpos Bw Hle; lia).
    destruct Hc as (Hc & H1 & H2). destruct (Q3 Hc) as (_ & Q5 & _).
    split; [exact Rw|]. split; [exact Hc|]. split; [|exact H1].
    destruct (Z.leb_spec 2 (t_state (S w))); simpl in H2; [|discriminate].
    clear - H Kw Q5 Hk. lia.
  Qed.

  (* ============================================================ offer message *)
  Lemma step_O y x f os l1 l2 : rn y = true -> pd x y = l1 ++ M2Offer f os :: l2 -> t_state (S y) = 2 ->
    step_ok y x (M2Offer f os) l1 l2.
  Proof.
    intros Ry Hp Hk s2 o2 e2 Hm.
    pose proof (pending_nbr x y _ _ _ Hp) as Hxy. pose proof (nbrs_sym d y x Hxy) as Hyx.
    pose proof (act_of d x y Hxy) as Hact.
    pose proof (i_good _ _ _ _ _ HI y Ry Hact) as Gy.
    assert (Hne : x <> y) by (intros ->; eapply nbrs_irrefl; eauto).
    pose proof (in_pd _ _ _ _ _ _ Hp) as Hinp.
    pose proof (in_cnt_pos _ _ Hinp) as Hc1. simpl in Hc1.
    destruct (nbr_here y x Ry Hk Hxy) as (Rx & Hcyc & Hkx & Hone).
    { pose proof (b2z_range (kino x (t_offers (S y)))) as B. clear - B Hc1. lia. }
    assert (Hko : kino x (t_offers (S y)) = false).
    { destruct (kino x (t_offers (S y))); [exfalso; simpl in Hone; clear - Hone Hc1; lia|reflexivity]. }
    unfold mstep, on_msg in Hm. simpl kind_of in Hm. rewrite Hk in Hm. simpl negb in Hm. cbv iota in Hm.
    match type of Hm with context [handle_offer_messages _ _ _ _ ?t] =>
      assert (KK : skel t = (t_state (S y), t_cycle (S y), t_fin (S y), t_nv (S y), t_offers (S y) ++ [(x, M2Offer f os)],
                             t_ng (S y), t_partner (S y), t_committed (S y), t_offerer (S y), t_pgain (S y)) /\
                   posts t = posts (S y))
        by apply skel_set_offers;
      remember t as s1 eqn:Es1 in * end.
    clear Es1. destruct KK as [K1 Po1].
    destruct (g_of _ _ _ _ Gy) as (Nd & Inc & Fk).
    assert (Nd1 : NoDup (map fst (t_offers (S y) ++ [(x, M2Offer f os)])) /\
                  incl (map fst (t_offers (S y) ++ [(x, M2Offer f os)])) (nbr y) /\
                  Forall (fun sm => kind_of (snd sm) = 2) (t_offers (S y) ++ [(x, M2Offer f os)])).
    { rewrite map_app. simpl. split; [|split].
      - apply NoDup_snoc; [exact Nd|]. apply kino_false. exact Hko.
      - intros z Hz. apply in_app_or in Hz as [Hz|[<-|[]]]; [apply Inc; exact Hz|exact Hxy].
      - apply Forall_app. split; [exact Fk|]. constructor; [reflexivity|constructor]. }
    unfold skel in K1. injection K1 as K1st K1cy K1fi K1nv K1of K1ng K1pa K1co K1or K1pg.
    assert (SS1 : skelS s1 = skelS (S y)) by (unfold skelS; rewrite K1st, K1cy, K1fi, K1pa, K1co, K1or; reflexivity).
    assert (Hlen : (length (t_offers s1) <= length (nbr y))%nat).
    { rewrite K1of. rewrite <- (map_length fst). apply NoDup_incl_length; apply Nd1. }
    cbv zeta in Hm. rewrite zlen_eqb in Hm.
    (* the world after the store *)
    assert (P1r : forall x', In x' (nbr y) -> pairI rn (updS S y s1) (pd_step pd x y (l1 ++ l2) []) x' y).
    { intros x' Hx'. assert (Hx'y : x' <> y) by (intros ->; eapply nbrs_irrefl; eauto).
      destruct (pd_step_recv pd x y l1 (M2Offer f os) l2 [] x' Hp Hx'y) as [Hc Hi].
      apply (pairI_store rn S pd); rewrite ?updS_same, ?updS_other by assumption; try reflexivity; try assumption;
        rewrite ?Hc, ?K1nv, ?K1of, ?K1ng; simpl kind_of; try (rewrite andb_false_r; simpl; lia).
      + rewrite kino_snoc. destruct (Z.eqb_spec x' x) as [->|Hn]; simpl.
        * rewrite Hko. simpl. lia.
        * rewrite orb_false_r. lia.
      + intros f0 os0 _ H. apply in_app_or in H as [H|[H|[]]]; [left; exact H|right].
        injection H as -> -> ->. exact Hinp.
      + apply (i_pair _ _ _ _ _ HI x' y Hx'). }
    assert (P1s : forall w, In w (nbr y) -> pairI rn (updS S y s1) (pd_step pd x y (l1 ++ l2) []) y w).
    { intros w Hw. assert (Hwy : w <> y) by (intros ->; eapply nbrs_irrefl; eauto).
      apply (pairI_ext rn S pd); rewrite ?updS_same, ?updS_other by assumption; try reflexivity; try assumption.
      + intros k. rewrite pd_step_send. simpl. rewrite app_nil_r. reflexivity.
      + intros m0. rewrite pd_step_send. simpl. rewrite app_nil_r. auto.
      + apply (i_pair _ _ _ _ _ HI y w (nbrs_sym d y w Hw)). }
    destruct (Nat.eqb (length (t_offers s1)) (length (nbr y))) eqn:Ez.
    2:{ (* ---- the offer is filed, the table is not complete *)
      apply Nat.eqb_neq in Ez. unfold ret2 in Hm.
      injection Hm as <- <- <-.
      assert (G1 : good y s1).
      { destruct Gy. constructor; rewrite ?K1st, ?K1cy, ?K1fi, ?K1nv, ?K1of, ?K1ng, ?K1pa, ?K1co, ?K1or, ?K1pg; auto.
        - intros H. rewrite Hk in H. clear - H. lia.
        - intros _. rewrite <- K1of. clear - Ez Hlen. lia.
        - intros H. rewrite Hk in H. clear - H. lia. }
      split; [|split; [apply evok_nil; rewrite K1fi; reflexivity|split; [exact Po1|intros Hc; rewrite K1st in Hc; congruence]]].
      apply (step_frame d stop rn S pd y s1 x (l1 ++ l2) [] HI Ry Hact Hxy G1 P1r P1s).
      intros w _. reflexivity. }
    (* ---- the table is complete *)
    apply Nat.eqb_eq in Ez.
    rewrite <- K1of in Nd1. destruct Nd1 as (Nd1 & Inc1 & Fk1).
    assert (K1k : t_state s1 = 2) by (rewrite K1st; exact Hk).
    assert (Hfull : forall w, In w (nbr y) -> In w (map fst (t_offers s1))).
    { intros w Hw. apply (full_in _ (nbr y) w Nd1 Inc1); [rewrite map_length; exact Ez|exact Hw]. }
    assert (Hall : forall w, In w (nbr y) -> rn w = true /\ t_cycle (S w) = t_cycle (S y) /\ 2 <= t_state (S w) <= 4 /\
                                              cnt 2 (pd_step pd x y (l1 ++ l2) [] w y) = 0).
    { intros w Hw. assert (Hwy : w <> y) by (intros ->; eapply nbrs_irrefl; eauto).
      destruct (pd_step_recv pd x y l1 (M2Offer f os) l2 [] w Hp Hwy) as [Hc _]. specialize (Hc 2). simpl kind_of in Hc.
      pose proof (Hfull w Hw) as Hin. apply kino_In in Hin. rewrite K1of, kino_snoc in Hin.
      destruct (Z.eqb_spec w x) as [->|Hn].
      - split; [exact Rx|]. split; [exact Hcyc|]. split; [exact Hkx|]. rewrite Hko in Hone. simpl in Hc, Hone.
        clear - Hc Hone. lia.
      - rewrite orb_false_r in Hin. pose proof (cnt_nonneg 2 (pd w y)) as Hnn.
        destruct (nbr_here y w Ry Hk Hw) as (R & C & K & O); [rewrite Hin; simpl; clear - Hnn; lia|].
        split; [exact R|]. split; [exact C|]. split; [exact K|]. rewrite Hin in O. simpl in Hc, O. clear - Hc O Hnn. lia. }
    assert (Hflag : forall w f' os', In w (nbr y) -> In (w, M2Offer f' os') (t_offers s1) ->
                      f' = t_offerer (S w) && opt_is (t_partner (S w)) y).
    { intros w f' os' Hw Hin. assert (Hwy : w <> y) by (intros ->; eapply nbrs_irrefl; eauto).
      pose proof (p_PS _ _ _ _ _ (P1r w Hw) f' os') as H. rewrite updS_same, updS_other in H by assumption.
      apply H; assumption. }
    set (OFF := offering (t_offers s1)) in *.
    assert (HoffA : forall w os', In (w, os') OFF -> In w (nbr y) /\ expA S w y).
    { intros w os' Hin. apply offering_in in Hin.
      assert (Hw : In w (nbr y)). { apply Inc1. apply in_map_iff. exists (w, M2Offer true os'). split; [reflexivity|exact Hin]. }
      split; [exact Hw|]. pose proof (Hflag w true os' Hw Hin) as Hf. symmetry in Hf. apply andb_true_iff in Hf as [Hf1 Hf2].
      assert (Hpw : t_partner (S w) = Some y).
      { destruct (t_partner (S w)) as [q|]; simpl in Hf2; [|discriminate]. apply Z.eqb_eq in Hf2. rewrite Hf2. reflexivity. }
      destruct (Hall w Hw) as (Rw & Cw & Kw & _).
      split; [exact Hf1|]. split; [exact Hpw|]. split; [apply Kw|].
      destruct (Z_le_gt_dec 4 (t_state (S w))) as [H4|H4]; [exfalso|clear - H4; lia].
      pose proof (p_Ans _ _ _ _ _ (i_pair _ _ _ _ _ HI w y Hw) Hf1 Hpw H4) as HA. clear - HA Cw Hk. lia. }
    assert (HAoff : forall w, In w (nbr y) -> expA S w y -> exists os', In (w, os') OFF).
    { intros w Hw (E1 & E2 & E3). pose proof (Hfull w Hw) as Hin. apply in_map_iff in Hin as [[w' m] [Hw' Hin]].
      simpl in Hw'. subst w'. pose proof (proj1 (Forall_forall _ _) Fk1 _ Hin) as Hkd. simpl in Hkd.
      destruct m as [| |f' os'| |]; try discriminate.
      pose proof (Hflag w f' os' Hw Hin) as Hf. rewrite E1, E2 in Hf. simpl in Hf. rewrite Z.eqb_refl in Hf. subst f'.
      exists os'. apply offering_in. exact Hin. }
    assert (NdO : NoDup (map fst OFF)) by (apply offering_nodup; exact Nd1).
    assert (Hinb1 : forall w, zmem w (map fst OFF) = true -> In w (nbr y) /\ expA S w y).
    { intros w H. apply zmem_In in H. apply in_map_iff in H as [[w' os'] [Hw' Hin]]. simpl in Hw'. subst w'.
      apply (HoffA w os' Hin). }
    assert (Hinb2 : forall w, In w (nbr y) -> expA S w y -> zmem w (map fst OFF) = true).
    { intros w Hw HE. destruct (HAoff w Hw HE) as [os' Hin]. apply zmem_In. apply in_map_iff.
      exists (w, os'). split; [reflexivity|exact Hin]. }
    assert (Hchg : forall o x', In x' (nbr y) -> cnt (t_state (S y)) (pd_step pd x y (l1 ++ l2) o x' y) = 0).
    { intros o x' Hx'. assert (Hx'y : x' <> y) by (intros ->; eapply nbrs_irrefl; eauto).
      rewrite Hk, (pd_step_recv_indep pd x y (l1 ++ l2) o [] x' Hx'y). apply (Hall x' Hx'). }
    destruct (t_offerer (S y)) eqn:Eo.
    { (* ---- y is an offerer: rejections, state answer? *)
      destruct (hom0_offerer d favor y s1 K1or) as (s' & Hh & K2 & Po2). fold OFF in Hh.
      rewrite Hh in Hm. injection Hm as <- <- <-.
      unfold skel in K2. injection K2 as K2st K2cy K2fi K2nv K2of K2ng K2pa K2co K2or K2pg.
      assert (G2 : good y s').
      { pose proof Gy as Gy0. destruct Gy.
        constructor; rewrite ?K2st, ?K2cy, ?K2fi, ?K2nv, ?K2of, ?K2ng, ?K2pa, ?K2co, ?K2or, ?K2pg;
          rewrite ?K1cy, ?K1fi, ?K1nv, ?K1ng, ?K1pa, ?K1co, ?K1or, ?K1pg; auto; try (intros H; discriminate H).
        - clear; lia.
        - intros H. pose proof (P_Mgm2y.g_done _ _ _ _ Gy0 H) as H'. rewrite Hk in H'. discriminate H'.
        - intros _. apply (P_Mgm2y.g_nv2 _ _ _ _ Gy0). rewrite Hk. clear; lia.
        - intros _. apply (P_Mgm2y.g_ng3 _ _ _ _ Gy0). rewrite Hk. clear; lia.
        - intros _. apply (P_Mgm2y.g_com23 _ _ _ _ Gy0). rewrite Hk. clear; lia. }
      split; [|split; [apply evok_nil; rewrite K2fi, K1fi; reflexivity|split; [rewrite Po2; exact Po1|intros _; apply Hchg]]].
      apply (step_frame d stop rn S pd y s' x (l1 ++ l2) _ HI Ry Hact Hxy G2).
      - intros x' Hx'. assert (Hx'y : x' <> y) by (intros ->; eapply nbrs_irrefl; eauto).
        apply (recv_to3 rn (updS S y s1) (updS S y s') (pd_step pd x y (l1 ++ l2) []) _ x' y);
          rewrite ?updS_same, ?updS_other by assumption; try reflexivity; try assumption.
        + apply pd_step_recv_indep. exact Hx'y.
        + apply (P1r x' Hx').
      - intros w Hw. assert (Hwy : w <> y) by (intros ->; eapply nbrs_irrefl; eauto).
        apply (send_to3 rn (updS S y s1) (updS S y s') (pd_step pd x y (l1 ++ l2) []) _ y w (zmem w (map fst OFF)));
          rewrite ?updS_same, ?updS_other by assumption; try reflexivity; try assumption.
        + rewrite !pd_step_send. simpl to_y2 at 1. rewrite app_nil_r. f_equal.
          apply (to_y2_off' reject (fun _ => M2Answer false None None)); [intros so; reflexivity|exact NdO].
        + intros H. destruct (Hinb1 w H) as [_ HE]. unfold expA. rewrite updS_other by assumption. exact HE.
        + intros HE. unfold expA in HE. rewrite updS_other in HE by assumption. apply (Hinb2 w Hw HE).
        + apply (P1s w Hw).
      - intros w Hw. rewrite (to_y2_off' reject (fun _ => M2Answer false None None)); [|intros so; reflexivity|exact NdO].
        destruct (zmem w (map fst OFF)) eqn:E; [|reflexivity]. exfalso. apply Hw. apply (Hinb1 w E). }
    (* ---- y is not an offerer: answers and gains, state gain *)
    assert (Hco : t_committed (S y) = false) by (apply (g_com23 _ _ _ _ Gy); rewrite Hk; clear; lia).
    assert (Hpa : t_partner (S y) = None) by (apply (g_nopar _ _ _ _ Gy); assumption).
    rewrite Hco in K1co. rewrite Hpa in K1pa.
    destruct (hom0_other d favor y s1 K1or K1pa) as (s' & com & p & vp & gain & gv & Hh & Hcom & K2 & Po2).
    fold OFF in Hh, Hcom.
    rewrite Hh in Hm. injection Hm as <- <- <-.
    unfold skel in K2. injection K2 as K2st K2cy K2fi K2nv K2of K2ng K2pa K2co K2or.
    assert (G2 : good y s').
    { pose proof Gy as Gy0. destruct Gy.
      constructor; rewrite ?K2st, ?K2cy, ?K2fi, ?K2nv, ?K2of, ?K2ng, ?K2pa, ?K2co, ?K2or;
        rewrite ?K1cy, ?K1fi, ?K1nv, ?K1ng; auto; try (intros H; discriminate H).
      - clear; lia.
      - intros H. pose proof (P_Mgm2y.g_done _ _ _ _ Gy0 H) as H'. rewrite Hk in H'. discriminate H'.
      - intros _. apply (P_Mgm2y.g_nv2 _ _ _ _ Gy0). rewrite Hk. clear; lia.
      - intros H. exfalso. clear - H. lia.
      - intros _. rewrite (P_Mgm2y.g_ng3 _ _ _ _ Gy0) by (rewrite Hk; clear; lia). simpl.
        destruct (nbr y); [congruence|simpl; clear; lia].
      - intros H. exfalso. clear - H. lia.
      - intros ->. destruct (Hcom eq_refl) as (Hg & Hp' & Hpg). split; [rewrite Hpg; exact Hg|].
        exists p. split; [reflexivity|]. apply zmem_In in Hp'. apply (Hinb1 p Hp').
      - intros _ ->. reflexivity. }
    split; [|split; [apply evok_nil; rewrite K2fi, K1fi; reflexivity|split; [rewrite Po2; exact Po1|intros _; apply Hchg]]].
    assert (Hnb : forall w, to_y2 w (map (fun t => (t, M2Gain gv)) (nbr y)) = if zmem w (nbr y) then [M2Gain gv] else []).
    { intros w. apply (to_y2_map (fun t => (t, M2Gain gv))); [intros t; reflexivity|apply nbrs_nodup]. }
    assert (Hans : forall w, to_y2 w (map (fun so : Z * list (Z * Z * Z) =>
                     (fst so, if com && (fst so =? p) then M2Answer true vp (Some gain) else M2Answer false None None)) OFF) =
                   if zmem w (map fst OFF) then [if com && (w =? p) then M2Answer true vp (Some gain) else M2Answer false None None]
                   else []).
    { intros w. apply (to_y2_off' _ (fun t => if com && (t =? p) then M2Answer true vp (Some gain) else M2Answer false None None));
        [intros so; reflexivity|exact NdO]. }
    apply (step_frame d stop rn S pd y s' x (l1 ++ l2) _ HI Ry Hact Hxy G2).
    - intros x' Hx'. assert (Hx'y : x' <> y) by (intros ->; eapply nbrs_irrefl; eauto).
      destruct (Hall x' Hx') as (Rx' & Cx' & Kx' & _).
      apply (recv_to4 rn (updS S y s1) (updS S y s') (pd_step pd x y (l1 ++ l2) []) _ x' y com p);
        rewrite ?updS_same, ?updS_other by assumption; try reflexivity; try assumption.
      + apply pd_step_recv_indep. exact Hx'y.
      + rewrite K1cy. exact Cx'.
      + apply Kx'.
      + apply (P1r x' Hx').
    - intros w Hw. assert (Hwy : w <> y) by (intros ->; eapply nbrs_irrefl; eauto).
      destruct (Hall w Hw) as (Rw & Cw & Kw & _).
      apply (send_to4 rn (updS S y s1) (updS S y s') (pd_step pd x y (l1 ++ l2) []) _ y w (zmem w (map fst OFF)) com p vp gain gv);
        rewrite ?updS_same, ?updS_other by assumption; try reflexivity; try assumption.
      + rewrite !pd_step_send. simpl to_y2 at 1. rewrite app_nil_r. f_equal. rewrite to_y2_app, Hans, Hnb.
        rewrite (proj2 (zmem_In w (nbr y)) Hw). reflexivity.
      + intros H. destruct (Hinb1 w H) as [_ HE]. unfold expA. rewrite updS_other by assumption. exact HE.
      + intros HE. unfold expA in HE. rewrite updS_other in HE by assumption. apply (Hinb2 w Hw HE).
      + intros Hc. apply (Hcom Hc).
      + intros Hc ->. apply zmem_In. apply (Hcom Hc).
      + rewrite K1cy. exact Cw.
      + apply (P1s w Hw).
    - intros w Hw. rewrite to_y2_app, Hans, Hnb.
      destruct (zmem w (map fst OFF)) eqn:E; [exfalso; apply Hw; apply (Hinb1 w E)|].
      destruct (zmem w (nbr y)) eqn:E'; [exfalso; apply Hw; apply zmem_In; exact E'|reflexivity].
  Qed.
End StepO.
