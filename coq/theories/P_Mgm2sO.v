(* P_Mgm2sO.v -- MGM2 barrier proof: the micro-step that consumes an OFFER message (state offer):
   the offer is filed; when the table is complete the answers (and, for a non-offerer, the gains)
   are sent and the state becomes answer? (offerer) or gain (non-offerer). *)
From Coq Require Import ZArith List Bool Lia.
From PyDcop Require Import Base Net M_Mgm M_Mgm2 M_Mgm2x P_Mgm P_Mgm3 P_Mgm3c P_Mgm2x P_Mgm2y P_Mgm2s.
Import ListNotations.
Open Scope Z_scope.

Local Notation length := List.length.

Ltac getP P :=
  pose proof (p_V _ _ _ _ _ P) as PV; pose proof (p_O _ _ _ _ _ P) as PO; pose proof (p_G _ _ _ _ _ P) as PG;
  pose proof (p_A1 _ _ _ _ _ P) as PA1; pose proof (p_A0 _ _ _ _ _ P) as PA0;
  pose proof (p_Go1 _ _ _ _ _ P) as PGo1; pose proof (p_Go0 _ _ _ _ _ P) as PGo0;
  pose proof (p_PO _ _ _ _ _ P) as PPO; pose proof (p_PS _ _ _ _ _ P) as PPS; pose proof (p_PA _ _ _ _ _ P) as PPA;
  pose proof (p_L _ _ _ _ _ P) as PL; pose proof (p_Ans _ _ _ _ _ P) as PAns; clear P.

(* ------------------------------------------------------------------ list helpers *)
Lemma offering_in l w os : In (w, os) (offering l) <-> In (w, M2Offer true os) l.
Proof.
  unfold offering. rewrite in_flat_map. split.
  - intros [[w' m] [H1 H2]]. simpl in H2. destruct m as [| |[|] os'| |]; try contradiction.
    destruct H2 as [H2|[]]. injection H2 as -> ->. exact H1.
  - intros H. exists (w, M2Offer true os). split; [exact H|left; reflexivity].
Qed.

Lemma offering_nodup l : NoDup (map fst l) -> NoDup (map fst (offering l)).
Proof.
  induction l as [|[w m] r IH]; simpl; [intros _; constructor|].
  intros H. inversion H as [|? ? Hn Hr]; subst. specialize (IH Hr).
  assert (Hsub : forall a, In a (map fst (offering r)) -> In a (map fst r)).
  { intros a Ha. apply in_map_iff in Ha as [[a' os] [<- Ha]]. apply offering_in in Ha.
    apply in_map_iff. exists (a', M2Offer true os). split; [reflexivity|exact Ha]. }
  destruct m as [| |[|] os'| |]; simpl; try exact IH.
  constructor; [|exact IH]. intros Hc. apply Hn. apply Hsub. exact Hc.
Qed.

Lemma to_y2_off {A} (g : Z * A -> node * m2msg) (OFF : list (Z * A)) w :
  (forall so, fst (g so) = fst so) -> NoDup (map fst OFF) ->
  (~ In w (map fst OFF) -> to_y2 w (map g OFF) = []) /\
  (forall os, In (w, os) OFF -> to_y2 w (map g OFF) = [snd (g (w, os))]).
Proof.
  intros Hg. unfold to_y2. induction OFF as [|[t a] r IH]; intros Hnd; [split; [reflexivity|intros os []]|].
  simpl in Hnd. inversion Hnd as [|? ? Hn Hnd']; subst. destruct (IH Hnd') as [I1 I2]. simpl. rewrite Hg. simpl.
  destruct (Z.eqb_spec t w) as [->|Hne]; simpl.
  - split; [intros Hc; exfalso; apply Hc; left; reflexivity|].
    intros os [Ho|Ho].
    + injection Ho as ->. rewrite (I1 Hn). reflexivity.
    + exfalso. apply Hn. apply in_map_iff. exists (w, os). split; [reflexivity|exact Ho].
  - split.
    + intros Hc. apply I1. intros Hc'. apply Hc. right. exact Hc'.
    + intros os [Ho|Ho]; [injection Ho as -> _; congruence|apply (I2 os Ho)].
Qed.

Lemma pd_step_recv_indep pd x y rest o o' x' : x' <> y ->
  pd_step pd x y rest o x' y = pd_step pd x y rest o' x' y.
Proof. intros H. unfold pd_step. apply Z.eqb_neq in H. rewrite H. reflexivity. Qed.

(* ------------------------------------------------------------------ local pair transformations:
   b (resp. a) is the node whose table is complete; only its control fields change *)
Section Local.
  Variable rn : node -> bool.
  Variables S1 S2 : node -> m2st.
  Variables pd1 pd2 : node -> node -> list m2msg.

  (* receiver b: offer -> answer? *)
  Lemma recv_to3 a b :
    skelS (S2 a) = skelS (S1 a) ->
    t_state (S1 b) = 2 -> t_state (S2 b) = 3 ->
    t_cycle (S2 b) = t_cycle (S1 b) -> t_fin (S2 b) = t_fin (S1 b) -> t_nv (S2 b) = t_nv (S1 b) ->
    t_offers (S2 b) = t_offers (S1 b) -> t_ng (S2 b) = t_ng (S1 b) -> t_partner (S2 b) = t_partner (S1 b) ->
    t_committed (S2 b) = t_committed (S1 b) -> t_offerer (S2 b) = t_offerer (S1 b) ->
    pd2 a b = pd1 a b ->
    pairI rn S1 pd1 a b -> pairI rn S2 pd2 a b.
  Proof.
    unfold skelS. intros Ha B1 B1' B2 B3 B4 B5 B6 B7 B8 B9 Hp P. getP P.
    injection Ha as A1 A2 A3 A7 A8 A9.
    constructor; unf; rewrite ?Hp, ?A1, ?A2, ?A3, ?A7, ?A8, ?A9, ?B1', ?B2, ?B3, ?B4, ?B5, ?B6, ?B7, ?B8, ?B9;
      rewrite ?B1 in *; try assumption.
    - intros (E1 & E2 & E3) H3. apply PA1; [repeat split; try assumption; clear; lia|exact H3].
    - intros H. apply PA0. intros [(E1 & E2 & E3) H3]. apply H. split; [repeat split; try assumption; clear; lia|exact H3].
    - intros f os H. exfalso. clear - H. lia.
    - intros H1 H2. destruct (PL H1 H2) as [H|[H H']]; [left; exact H|right; split; [exact H|]].
      destruct (t_offerer (S1 a)); [exact H'|]. destruct H' as (U1 & U2 & U3). repeat split; auto. left. clear. lia.
    - intros H1 H2 H3. destruct (PAns H1 H2 H3) as [[H H']|H]; [exfalso; clear - H'; lia|right; exact H].
  Qed.
End Local.
