(* P_MaxSum.v -- lemmas and proofs about M_MaxSum.v (C05). *)
From Coq Require Import QArith Qabs Lia.
From PyDcop Require Import Base Net M_SyncMixin M_MaxSum.
Local Open Scope Z_scope.

(* ------------------------------------------------------------------ order helpers *)
(* [ord mx v w] : v is at least as good as w  (min: v <= w, max: w <= v) *)
Definition ord (mx : bool) (v w : Q) : Prop := if mx then (w <= v)%Q else (v <= w)%Q.

Lemma ord_refl mx v : ord mx v v.
Proof. destruct mx; simpl; apply Qle_refl. Qed.

Lemma ord_trans mx a b c : ord mx a b -> ord mx b c -> ord mx a c.
Proof. destruct mx; simpl; intros; eapply Qle_trans; eauto. Qed.

Lemma Qltb_true a b : Qltb a b = true <-> (a < b)%Q.
Proof.
  unfold Qltb. rewrite negb_true_iff. split.
  - intro H. apply Qnot_le_lt. intro L. apply Qle_bool_iff in L. congruence.
  - intro H. destruct (Qle_bool b a) eqn:E; auto. apply Qle_bool_iff in E.
    exfalso. eapply Qlt_not_le; eauto.
Qed.

Lemma Qltb_false a b : Qltb a b = false <-> (b <= a)%Q.
Proof.
  unfold Qltb. rewrite negb_false_iff. apply Qle_bool_iff.
Qed.

Lemma better_some mx c x :
  exists v, better mx (Some c) x = Some v /\ (v = c \/ v = x) /\ ord mx v c /\ ord mx v x.
Proof.
  unfold better. destruct mx.
  - destruct (Qltb c x) eqn:E.
    + exists x. apply Qltb_true in E. split; [reflexivity|]. split; [right; reflexivity|]. split; unfold ord; [apply Qlt_le_weak; exact E | apply Qle_refl].
    + exists c. apply Qltb_false in E. split; [reflexivity|]. split; [left; reflexivity|]. split; unfold ord; [apply Qle_refl | exact E].
  - destruct (Qltb x c) eqn:E.
    + exists x. apply Qltb_true in E. split; [reflexivity|]. split; [right; reflexivity|]. split; unfold ord; [apply Qlt_le_weak; exact E | apply Qle_refl].
    + exists c. apply Qltb_false in E. split; [reflexivity|]. split; [left; reflexivity|]. split; unfold ord; [apply Qle_refl | exact E].
Qed.

Lemma fold_better_some {A} mx (g : A -> Q) l : forall c,
  exists v, fold_left (fun cur a => better mx cur (g a)) l (Some c) = Some v /\
    ord mx v c /\ (forall a, In a l -> ord mx v (g a)) /\ (v = c \/ exists a, In a l /\ v = g a).
Proof.
  induction l as [|a l IH]; intros c; cbn [fold_left].
  - exists c. repeat split; auto using ord_refl. intros a [].
  - destruct (better_some mx c (g a)) as [v1 [E1 [D1 [O1 O2]]]]. rewrite E1.
    destruct (IH v1) as [v [E [O [Hall Hatt]]]]. exists v. split; auto. split; [eapply ord_trans; eauto|].
    split.
    + intros a' [<-|Hin]; [eapply ord_trans; eauto | auto].
    + destruct Hatt as [Hv|[a' [Hin Hv]]]; subst v.
      * destruct D1 as [D1|D1]; [left; exact D1 | right; exists a; split; [left; reflexivity | exact D1]].
      * right. exists a'. split; [right; exact Hin | reflexivity].
Qed.

(* the optimum of a non-empty list: what the "optimal_value = inf; for ...: if better: update" loop computes *)
Lemma fold_better_spec {A} mx (g : A -> Q) l :
  l <> [] ->
  exists v, fold_left (fun cur a => better mx cur (g a)) l None = Some v /\
    (forall a, In a l -> ord mx v (g a)) /\ (exists a, In a l /\ v = g a).
Proof.
  destruct l as [|a l]; [congruence|]. intros _. simpl.
  destruct (fold_better_some mx g l (g a)) as [v [E [O [Hall Hatt]]]].
  exists v. split; auto. split.
  - intros a' [<-|Hin]; auto.
  - destruct Hatt as [->|[a' [Hin ->]]]; [exists a; auto | exists a'; auto].
Qed.

(* ------------------------------------------------------------------ generate_assignment_as_dict *)
Lemma In_assigns ds : forall a, In a (assigns ds) <-> Forall2 (fun v n => (v < n)%nat) a ds.
Proof.
  induction ds as [|n r IH]; intros a; simpl.
  - split.
    + intros [<-|[]]. constructor.
    + intros H. inversion H. auto.
  - rewrite in_flat_map. split.
    + intros [a0 [Ha0 Hin]]. apply in_map_iff in Hin as [d [<- Hd]]. apply in_seq in Hd.
      constructor; [lia | now apply IH].
    + intros H. inversion H as [|v n' a0 r' Hv Hr]; subst. exists a0. split; [now apply IH|].
      apply in_map_iff. exists v. split; auto. apply in_seq. lia.
Qed.

Lemma assigns_nonempty ds : Forall (fun n => (0 < n)%nat) ds -> assigns ds <> [].
Proof.
  intros H. assert (In (map (fun _ => 0%nat) ds) (assigns ds)) as Hin.
  { apply In_assigns. induction H; simpl; constructor; auto. }
  intro E. rewrite E in Hin. destruct Hin.
Qed.

(* ------------------------------------------------------------------ T1: factor_costs_for_var *)
(* the cost the loop of factor_costs_for_var gives to the assignment [a] of the other variables *)
Definition fcv_cost (f : fdef) (recv : list (node * table)) (x : node) (d : nat) (a : list nat) : Q :=
  let i := index_of x (f_scope f) in
  (f_cost f (insert_at i d a) + sum_recv recv (remove_at i (f_scope f)) a)%Q.

Definition fcv_others (D : node -> nat) (f : fdef) (x : node) : list nat :=
  map D (remove_at (index_of x (f_scope f)) (f_scope f)).

Theorem fcv_at_spec D mx f recv x d :
  Forall (fun n => (0 < n)%nat) (fcv_others D f x) ->
  exists v, fcv_at D mx f recv x d = Some v /\
    (forall a, Forall2 (fun v n => (v < n)%nat) a (fcv_others D f x) -> ord mx v (fcv_cost f recv x d a)) /\
    (exists a, Forall2 (fun v n => (v < n)%nat) a (fcv_others D f x) /\ v = fcv_cost f recv x d a).
Proof.
  intros Hpos. unfold fcv_at, fcv_others in *.
  destruct (fold_better_spec mx (fcv_cost f recv x d) _ (assigns_nonempty _ Hpos)) as [v [E [Hall [a [Hin Ha]]]]].
  exists v. split; [exact E|]. split.
  - intros a' Ha'. apply Hall. now apply In_assigns.
  - exists a. split; auto. now apply In_assigns.
Qed.

Lemma nth_map_seq {A} (g : nat -> A) n d (dflt : A) : (d < n)%nat -> nth d (map g (seq 0 n)) dflt = g d.
Proof.
  intros H. rewrite nth_indep with (d' := g 0%nat) by (rewrite map_length, seq_length; auto).
  rewrite map_nth. rewrite seq_nth; auto.
Qed.

(* the message table: entry d is (Qeq to) the optimum over the other variables' assignments *)
Theorem factor_costs_for_var_spec D mx f recv x d :
  Forall (fun n => (0 < n)%nat) (fcv_others D f x) -> (d < D x)%nat ->
  List.length (factor_costs_for_var D mx f recv x) = D x /\
  (forall a, Forall2 (fun v n => (v < n)%nat) a (fcv_others D f x) ->
             ord mx (tget (factor_costs_for_var D mx f recv x) d) (fcv_cost f recv x d a)) /\
  (exists a, Forall2 (fun v n => (v < n)%nat) a (fcv_others D f x) /\
             (tget (factor_costs_for_var D mx f recv x) d == fcv_cost f recv x d a)%Q).
Proof.
  intros Hpos Hd. unfold factor_costs_for_var, tget. split; [now rewrite map_length, seq_length|].
  rewrite nth_map_seq by auto.
  destruct (fcv_at_spec D mx f recv x d Hpos) as [v [E [Hall [a [Ha Hv]]]]]. rewrite E. simpl.
  split.
  - intros a' Ha'. specialize (Hall a' Ha'). destruct mx; simpl in *; rewrite Qred_correct; auto.
  - exists a. split; auto. rewrite Qred_correct. rewrite Hv. reflexivity.
Qed.

(* ------------------------------------------------------------------ T2: select_value *)
Lemma sel_fold mx bf l : forall b,
  exists b', fold_left (sel_step mx bf) l (Some (b, bf b)) = Some (b', bf b') /\
    (b' = b \/ In b' l) /\ ord mx (bf b') (bf b) /\ (forall d, In d l -> ord mx (bf b') (bf d)).
Proof.
  induction l as [|d l IH]; intros b; simpl.
  - exists b. repeat split; auto using ord_refl. intros d [].
  - assert (exists b1, (if (if mx then Qltb (bf b) (bf d) else Qltb (bf d) (bf b)) then Some (d, bf d) else Some (b, bf b))
                       = Some (b1, bf b1) /\ (b1 = b \/ b1 = d) /\ ord mx (bf b1) (bf b) /\ ord mx (bf b1) (bf d)) as [b1 [E1 [D1 [O1 O2]]]].
    { destruct mx.
      - destruct (Qltb (bf b) (bf d)) eqn:E.
        + exists d. apply Qltb_true in E. split; [reflexivity|]. split; [right; reflexivity|]. split; unfold ord; [apply Qlt_le_weak; exact E | apply Qle_refl].
        + exists b. apply Qltb_false in E. split; [reflexivity|]. split; [left; reflexivity|]. split; unfold ord; [apply Qle_refl | exact E].
      - destruct (Qltb (bf d) (bf b)) eqn:E.
        + exists d. apply Qltb_true in E. split; [reflexivity|]. split; [right; reflexivity|]. split; unfold ord; [apply Qlt_le_weak; exact E | apply Qle_refl].
        + exists b. apply Qltb_false in E. split; [reflexivity|]. split; [left; reflexivity|]. split; unfold ord; [apply Qle_refl | exact E]. }
    rewrite E1. destruct (IH b1) as [b' [E [Hin [O Hall]]]]. exists b'. split; auto. split.
    + destruct Hin as [->|Hin]; [destruct D1 as [->| ->]; auto | auto].
    + split; [eapply ord_trans; eauto|]. intros d' [<-|Hd']; [eapply ord_trans; eauto | auto].
Qed.

Theorem select_value_spec mx vd costs :
  (0 < v_dom vd)%nat ->
  let '(d, c) := select_value mx vd costs in
  (d < v_dom vd)%nat /\ (c == belief vd costs d)%Q /\
  (forall d', (d' < v_dom vd)%nat -> ord mx (belief vd costs d) (belief vd costs d')).
Proof.
  intros Hpos. unfold select_value. destruct (v_dom vd) as [|n] eqn:En; [lia|].
  simpl seq. simpl fold_left.
  destruct (sel_fold mx (belief vd costs) (seq 1 n) 0%nat) as [b' [E [Hin [O Hall]]]]. rewrite E.
  split; [|split].
  - destruct Hin as [->|Hin]; [lia|]. apply in_seq in Hin. lia.
  - apply Qred_correct.
  - intros d' Hd'. destruct d' as [|d']; auto. apply Hall. apply in_seq. lia.
Qed.

(* ------------------------------------------------------------------ T3: costs_for_factor *)
(* the variable-to-factor message is the pointwise sum (own cost + tables of the other factors)
   shifted by one constant -- the normalisation never changes differences between values *)
Theorem costs_for_factor_shift vd factors costs f :
  List.length (costs_for_factor vd factors costs f) = v_dom vd /\
  exists k : Q, forall d, (d < v_dom vd)%nat ->
    (tget (costs_for_factor vd factors costs f) d == unary vd d + col (cff_others factors costs f) d - k)%Q.
Proof.
  unfold costs_for_factor. split; [now rewrite map_length, seq_length|].
  eexists. intros d Hd. unfold tget. rewrite nth_map_seq by auto. rewrite Qred_correct. reflexivity.
Qed.

Lemma qsum_zero {A} (l : list A) : (qsum (map (fun _ => 0%Q) l) == 0)%Q.
Proof. induction l; simpl; [reflexivity|]. rewrite IHl. ring. Qed.

(* a variable whose only factor is f sends exactly its own costs (first message of a leaf) *)
Theorem costs_for_factor_leaf vd factors costs f d :
  cff_others factors costs f = [] -> (d < v_dom vd)%nat ->
  (tget (costs_for_factor vd factors costs f) d == unary vd d)%Q.
Proof.
  intros E Hd. unfold costs_for_factor, tget. rewrite nth_map_seq by auto. rewrite Qred_correct, E.
  unfold col at 1. simpl qsum at 1.
  assert (qsum (map (col []) (seq 0 (v_dom vd))) == 0)%Q as ->.
  { unfold col. simpl. apply qsum_zero. }
  unfold Qdiv. ring.
Qed.

(* ------------------------------------------------------------------ T4: stability 0 *)
Lemma Qeq_bool_true a b : Qeq_bool a b = true <-> (a == b)%Q.
Proof. apply Qeq_bool_iff. Qed.

Lemma match1_zero c p : match1 0 c p = true <-> (p == c)%Q.
Proof.
  unfold match1. destruct (Qeq_bool p c) eqn:E.
  - apply Qeq_bool_true in E. tauto.
  - split; [|intro H; apply Qeq_bool_true in H; congruence].
    destruct (Qeq_bool (p + c) 0); [discriminate|].
    intro H. apply Qltb_true in H. exfalso.
    apply (Qlt_not_le _ _ H). unfold Qdiv.
    apply Qmult_le_0_compat.
    + apply Qmult_le_0_compat; [discriminate | apply Qabs_nonneg].
    + apply Qinv_le_0_compat. apply Qabs_nonneg.
Qed.

Theorem approx_match_zero t p :
  approx_match 0 t p = true <-> Forall (fun cp => (snd cp == fst cp)%Q) (combine t p).
Proof.
  unfold approx_match. rewrite forallb_forall, Forall_forall. split; intros H cp Hin.
  - apply match1_zero. auto.
  - apply match1_zero. auto.
Qed.

Lemma forallb_ext' {A} (f g : A -> bool) l : (forall x, f x = g x) -> forallb f l = forallb g l.
Proof. intros H. induction l; simpl; [reflexivity|]. now rewrite H, IHl. Qed.

(* with stability 0 and no damping, [emit] only ever withholds a message that is pointwise equal to the
   last message sent to that target; a message that is posted is the computed one *)
Theorem suppression_exact_repeat_ok P prev tgt t :
  (p_stab P == 0)%Q ->
  match emit P false prev tgt t with
  | (Some t', prev') => t' = t /\ exists c, zlookup tgt prev' = Some (t, c)
  | (None, prev') => prev' = prev /\ exists p c, zlookup tgt prev = Some (p, c) /\
                     Forall (fun cp => (snd cp == fst cp)%Q) (combine t p)
  end.
Proof.
  intros Hs. unfold emit.
  assert (Hk : forall a b : Z, (a =? b) = true <-> a = b) by (intros; apply Z.eqb_eq).
  destruct (zlookup tgt prev) as [[p c]|] eqn:E.
  - assert (approx_match (p_stab P) t p = approx_match 0 t p) as Hm.
    { unfold approx_match. apply forallb_ext'. intros cp. unfold match1.
      destruct (Qeq_bool (snd cp) (fst cp)); auto. destruct (Qeq_bool (snd cp + fst cp) 0); auto.
      unfold Qltb. f_equal.
      destruct (Qle_bool (p_stab P) _) eqn:A, (Qle_bool 0 (2 * Qabs (snd cp - fst cp) / Qabs (snd cp + fst cp))) eqn:B; auto.
      - apply Qle_bool_iff in A. rewrite Hs in A. apply Qle_bool_iff in A. congruence.
      - apply Qle_bool_iff in B. rewrite <- Hs in B. apply Qle_bool_iff in B. congruence. }
    rewrite Hm. destruct (approx_match 0 t p) eqn:M; simpl.
    + destruct (Nat.ltb c SAME_COUNT).
      * split; auto. eexists. unfold zlookup. apply lookup_dict_set_same. exact Hk.
      * split; auto. exists p, c. split; auto. now apply approx_match_zero.
    + split; auto. eexists. unfold zlookup. apply lookup_dict_set_same. exact Hk.
  - split; auto. eexists. unfold zlookup. apply lookup_dict_set_same. exact Hk.
Qed.

(* ------------------------------------------------------------------ property vocabulary: reflection *)
Lemma nat_list_eqb_spec (a b : list nat) : list_eqb Nat.eqb a b = true <-> a = b.
Proof. apply list_eqb_spec. intros x y. apply Nat.eqb_eq. Qed.

Lemma unique_optimum_b_sound mx G a : unique_optimum_b mx G a = true -> unique_optimum mx G a.
Proof.
  unfold unique_optimum_b, unique_optimum, valid_assignment. intros H.
  apply andb_true_iff in H as [H1 H2]. split.
  - apply existsb_exists in H1 as [a0 [Hin E]]. apply nat_list_eqb_spec in E. subst a0. now apply In_assigns.
  - intros a' Hv Hne. rewrite forallb_forall in H2. specialize (H2 a' (proj2 (In_assigns _ _) Hv)).
    apply orb_true_iff in H2 as [E|E].
    + apply nat_list_eqb_spec in E. contradiction.
    + destruct mx; now apply Qltb_true in E.
Qed.

(* ------------------------------------------------------------------ concrete witnesses *)
Definition bin_chain (tabs : list (list Q)) : dcop :=
  mkD (map (fun i => (Z.of_nat i, mkV 2 [] None)) (seq 0 (S (List.length tabs))))
      (map (fun it => (100 + Z.of_nat (fst it),
                       mkF [Z.of_nat (fst it); Z.of_nat (S (fst it))] (tab_fun [2%nat; 2%nat] (snd it))))
           (combine (seq 0 (List.length tabs)) tabs)).
Definition ztab (l : list Z) : list Q := map inject_Z l.

Definition W_chain3 : dcop := bin_chain [ztab [3; 5; 4; 0]; ztab [2; 6; 1; 7]].
Definition W_chain4 : dcop :=
  bin_chain [ztab [1004; 1007; 1003; 1000]; ztab [1005; 1007; 1005; 1009]; ztab [1005; 1003; 1000; 1000]].
Definition W_single : dcop := mkD [(0, mkV 2 [inject_Z 5; inject_Z 1] (Some 0%nat))] [].

(* min, stability s, damping 0, start_messages st *)
Definition par (s : Q) (st : nat) : params := mkPar false s 0 false false st.

(* ------------------------------------------------------------------ refutations (the code as it is) *)
(* A-Max-Sum with the default start_messages = leafs deadlocks on a chain of three variables *)
Lemma amaxsum_default_start_deadlock :
  exists G a sched,
    let P := par 0 0 in
    forest_b G = true /\ unique_optimum (p_max P) G a /\
    let cf := fst (run (amaxsum_proto P G) sched) in
    quiescent G cf = true /\ selected_async G cf <> map Some a.
Proof.
  exists W_chain3, [1; 1; 0]%nat, (lockstep (all_nodes W_chain3) 3). cbv zeta.
  split; [vm_compute; reflexivity|]. split; [apply unique_optimum_b_sound; vm_compute; reflexivity|].
  split; [vm_compute; reflexivity|]. vm_compute. discriminate.
Qed.

(* synchronous Max-Sum with the default stability 0.1: the cut-off freezes a still-changing message *)
Lemma maxsum_default_stability_freezes :
  exists G a sched,
    let P := par (1 # 10) 0 in
    forest_b G = true /\ unique_optimum (p_max P) G a /\
    let cf := fst (run (maxsum_proto P G) sched) in
    rounds_done P G cf (List.length (all_nodes G) + 3) = true /\ selected_sync G cf <> map Some a.
Proof.
  exists W_chain4, [1; 1; 0; 1]%nat, (lockstep (all_nodes W_chain4) 14). cbv zeta.
  split; [vm_compute; reflexivity|]. split; [apply unique_optimum_b_sound; vm_compute; reflexivity|].
  split; [vm_compute; reflexivity|]. vm_compute. discriminate.
Qed.

(* a variable in no constraint keeps its initial value, whatever its own costs say *)
Lemma isolated_variable_keeps_initial_value :
  exists G a sched,
    let P := par 0 2 in
    forest_b G = true /\ unique_optimum (p_max P) G a /\
    let cf := fst (run (amaxsum_proto P G) sched) in
    quiescent G cf = true /\ selected_async G cf <> map Some a.
Proof.
  exists W_single, [1%nat], (lockstep (all_nodes W_single) 2). cbv zeta.
  split; [vm_compute; reflexivity|]. split; [apply unique_optimum_b_sound; vm_compute; reflexivity|].
  split; [vm_compute; reflexivity|]. vm_compute. discriminate.
Qed.

(* ------------------------------------------------------------------ positive instances (non-vacuity) *)
Lemma maxsum_chain4_exact_stability0 :
  let P := par 0 0 in
  let cf := fst (run (maxsum_proto P W_chain4) (lockstep (all_nodes W_chain4) 14)) in
  forest_b W_chain4 = true /\ unique_optimum false W_chain4 [1; 1; 0; 1]%nat /\
  rounds_done P W_chain4 cf 10 = true /\ selected_sync W_chain4 cf = map Some [1; 1; 0; 1]%nat.
Proof.
  cbv zeta. split; [vm_compute; reflexivity|]. split; [apply unique_optimum_b_sound; vm_compute; reflexivity|].
  split; vm_compute; reflexivity.
Qed.

Lemma amaxsum_chain3_exact_start_all :
  let P := par 0 2 in
  let cf := fst (run (amaxsum_proto P W_chain3) (lockstep (all_nodes W_chain3) 12)) in
  unique_optimum false W_chain3 [1; 1; 0]%nat /\
  quiescent W_chain3 cf = true /\ selected_async W_chain3 cf = map Some [1; 1; 0]%nat.
Proof.
  cbv zeta. split; [apply unique_optimum_b_sound; vm_compute; reflexivity|]. split; vm_compute; reflexivity.
Qed.

(* ------------------------------------------------------------------ the start_messages=leafs deadlock, every schedule *)
Lemma zlookup_In {V} n (l : list (node * V)) v : zlookup n l = Some v -> In (n, v) l.
Proof.
  unfold zlookup. induction l as [|[k w] r IH]; simpl; [discriminate|].
  destruct (Z.eqb n k) eqn:E.
  - intros H. inversion H; subst. apply Z.eqb_eq in E. subst. now left.
  - intros H. right. auto.
Qed.

Section Silent.
  Variable P : params.
  Variable G : dcop.
  Hypothesis Hstart : p_start P = 0%nat.
  Hypothesis Hvars : forall x vd, In (x, vd) (d_vars G) -> List.length (factors_of G x) <> 1%nat.
  Hypothesis Hfacs : forall f fd, In (f, fd) (d_facs G) -> List.length (f_scope fd) <> 1%nat.

  Lemma node_start_silent sync n st : snd (node_start P G sync n st) = [].
  Proof.
    unfold node_start. destruct (zlookup n (d_vars G)) as [vd|] eqn:E.
    - apply zlookup_In in E. apply Hvars in E. unfold var_start. rewrite Hstart.
      apply Nat.eqb_neq in E. rewrite E. simpl. reflexivity.
    - destruct (zlookup n (d_facs G)) as [fd|] eqn:F; [|reflexivity].
      apply zlookup_In in F. apply Hfacs in F. unfold fac_start. rewrite Hstart.
      apply Nat.eqb_neq in F. rewrite F. simpl. reflexivity.
  Qed.

  (* no variable with exactly one factor and no unary factor: with start_messages = leafs nothing is ever
     sent, under every schedule -- every computation keeps the value chosen in on_start *)
  Theorem amaxsum_leafs_silent cf :
    reachable (amaxsum_proto P G) cf ->
    (forall s d, chan cf s d = []) /\ (forall n, w_held (nodes cf n) = []).
  Proof.
    induction 1 as [|cf a Hr [IHc IHh]].
    - simpl. auto.
    - destruct a as [n|s d]; simpl.
      + destruct (w_running (nodes cf n)) eqn:R; simpl; [auto|].
        unfold ams_start. pose proof (node_start_silent false n (w_st (nodes cf n))) as Hs.
        destruct (node_start P G false n (w_st (nodes cf n))) as [st1 outs]. simpl in Hs. subst outs.
        simpl. rewrite IHh. simpl. split; [exact IHc|].
        intros m. unfold upd_node. destruct (Z.eqb m n); [reflexivity | apply IHh].
      + rewrite IHc. simpl. auto.
  Qed.
End Silent.
