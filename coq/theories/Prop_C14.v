(* Prop_C14.v -- C14: DCOP YAML files round-trip and load faithfully.
   Only statements; each closed by an exact lemma from P_Yaml.

   FULL STATEMENT of the property about the model (not proved as one theorem):
     forall d, wf d -> exists t l, to_tree d = Ok t /\ of_tree t = Ok l /\ equiv d l
   where equiv = same domains, same variables (domain, initial value), every constraint has the
   same value on every assignment, every agent has the same capacity, route() and hosting_cost().
   Proved below: the extensional-constraint part at full strength (any arity, any domain sizes,
   any table), the text encoding of assignments, and the multi-file statement.  NOT proved (rests
   on the correspondence run only): domains/variables/agents sections (routes, hosting costs,
   capacity), the assembly into of_tree (to_tree d), invariance under PyYAML's key sorting,
   evaluation of expression constraints (Python eval is outside the model). *)
From PyDcop Require Import Base M_AgentDef M_Yaml P_Yaml.

(* Loading several files = loading the concatenation of their sections (a later section with
   the same top-level key replaces an earlier one). *)
Theorem multi_file_concat : forall files,
  load_files files = of_tree (tree_of_sections (List.concat files)).
Proof. exact multi_file_concat_l. Qed.

(* The text "a b | c d | ..." written for one cost value is read back as exactly the token
   lists it was made from (str.join / str.split("|") / str.split()), whenever every token is
   non-empty and has no blank and no '|' and every assignment has at least one token. *)
Theorem assignments_text_roundtrip_partial : forall tokss : list (list string),
  tokss <> [] -> Forall clean_list tokss ->
  map split_ws (split_on is_bar (join bar_sep (map (join sp) tokss))) = tokss.
Proof. exact parse_join. Qed.

(* Extensional constraints, full strength: for every scope [dims] (any arity >= 1, any domain
   sizes) and every complete table, _yaml_constraints succeeds and _build_constraints's loop
   over the written "values" mapping -- started from assignment_matrix(vars, default) for ANY
   default -- ends with a matrix that has exactly the positions of the shape and, at every
   position, the value of the original table: the loaded constraint has the same value on
   every assignment.  ext_wf is the expressibility guard: str() of the values of each scope
   domain pairwise distinct, non-empty, without blank or '|'. *)
Theorem extensional_table_roundtrip : forall dims table dflt, ext_wf dims table ->
  exists vals m, ext_values dims table = Ok vals /\
    foldM (ext_load_one dims) vals (assignment_matrix dims dflt) = Ok m /\
    map fst m = all_tuples (shape_of dims) /\
    forall t, In t (all_tuples (shape_of dims)) ->
              lookup tuple_eqb t m = option_map Some (lookup tuple_eqb t table).
Proof. exact extensional_table_roundtrip_l. Qed.

(* the guard is necessary: two values with the same str() (1 and "1") make the loaded table
   differ from the written one *)
Theorem extensional_same_str_refuted : exists dims table vals m t,
  ext_values dims table = Ok vals /\
  foldM (ext_load_one dims) vals (assignment_matrix dims None) = Ok m /\
  In t (all_tuples (shape_of dims)) /\
  lookup tuple_eqb t m <> option_map Some (lookup tuple_eqb t table).
Proof. exact ext_same_str_refuted_l. Qed.

(* non-vacuity: a 2x2 table over an int and a str domain meets the guard; its text *)
Example c14_nonvacuous :
  let d1 := mkDom "d1" "" [VInt 1; VInt 2] in
  let d2 := mkDom "d2" "" [VStr "a"; VStr "b"] in
  let dims := [mkVar "v1" d1 None; mkVar "v2" d2 (Some (VStr "a"))] in
  let table : list (tuple * Z) := [([0;0]%nat, 5); ([0;1]%nat, 7); ([1;0]%nat, 7); ([1;1]%nat, 5)] in
  ext_wf dims table /\
  ext_values dims table = Ok [(5, AStr "1 a | 2 b"); (7, AStr "2 a | 1 b")].
Proof. exact c14_nonvacuous_l. Qed.
