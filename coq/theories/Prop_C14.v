(* Prop_C14.v -- C14: DCOP YAML files round-trip and load faithfully.
   Only statements; each closed by an exact lemma from P_Yaml / P_Yaml2.

   FULL STATEMENT of the property about the model, proved below as [yaml_roundtrip]:
     forall d, wf d -> exists t l, to_tree d = Ok t /\ of_tree t = Ok l /\ equiv d l
   where equiv = same name/objective, same domains, same variables (domain, initial value), every
   table constraint has the same value on every assignment and every expression constraint the
   same expression text, every agent has the same capacity, route() and hosting_cost(); wf is the
   explicit expressibility predicate (P_Yaml2.wf, each conjunct justified in design_notes/C14.md).
   The per-section theorems (domains / variables / constraints / agents) are kept as separate
   obligations, and [yaml_roundtrip_files] extends the result to a document split into several
   files with its top-level sections in any order.
   [yaml_roundtrip_any_key_order] / [yaml_roundtrip_pipeline] state the same for ANY re-ordering of
   the keys of every mapping of the written tree (yaml.dump sorts keys).
   NOT in the model (rests on the correspondence run only): PyYAML's text layer (that
   yaml.load (yaml.dump t) is a key re-ordering of t is checked per case), evaluation of expression
   constraints (Python eval). *)
From PyDcop Require Import Base M_AgentDef M_Yaml P_Yaml P_Yaml2.

(* Loading several files = loading the concatenation of their sections (a later section with
   the same top-level key replaces an earlier one). *)
Theorem multi_file_concat : forall files,
  load_files files = of_tree (tree_of_sections (List.concat files)).
Proof. exact multi_file_concat_l. Qed.

(* The text "a b | c d | ..." written for one cost value is read back as exactly the token
   lists it was made from (str.join / str.split("|") / str.split()), whenever every token is
   non-empty and has no blank and no '|' and every assignment has at least one token. *)
Theorem assignments_text_roundtrip_partial : forall tokss : list (list string),
  tokss <> [] -> Forall clean_list tokss ->
  map split_ws (split_on is_bar (join bar_sep (map (join sp) tokss))) = tokss.
Proof. exact parse_join. Qed.

(* Extensional constraints, full strength: for every scope [dims] (any arity >= 1, any domain
   sizes) and every complete table, _yaml_constraints succeeds and _build_constraints's loop
   over the written "values" mapping -- started from assignment_matrix(vars, default) for ANY
   default -- ends with a matrix that has exactly the positions of the shape and, at every
   position, the value of the original table: the loaded constraint has the same value on
   every assignment.  ext_wf is the expressibility guard: str() of the values of each scope
   domain pairwise distinct, non-empty, without blank or '|'. *)
Theorem extensional_table_roundtrip : forall dims table dflt, ext_wf dims table ->
  exists vals m, ext_values dims table = Ok vals /\
    foldM (ext_load_one dims) vals (assignment_matrix dims dflt) = Ok m /\
    map fst m = all_tuples (shape_of dims) /\
    forall t, In t (all_tuples (shape_of dims)) ->
              lookup tuple_eqb t m = option_map Some (lookup tuple_eqb t table).
Proof. exact extensional_table_roundtrip_l. Qed.

(* the guard is necessary: two values with the same str() (1 and "1") make the loaded table
   differ from the written one *)
Theorem extensional_same_str_refuted : exists dims table vals m t,
  ext_values dims table = Ok vals /\
  foldM (ext_load_one dims) vals (assignment_matrix dims None) = Ok m /\
  In t (all_tuples (shape_of dims)) /\
  lookup tuple_eqb t m <> option_map Some (lookup tuple_eqb t table).
Proof. exact ext_same_str_refuted_l. Qed.

(* non-vacuity: a 2x2 table over an int and a str domain meets the guard; its text *)
Example c14_nonvacuous :
  let d1 := mkDom "d1" "" [VInt 1; VInt 2] in
  let d2 := mkDom "d2" "" [VStr "a"; VStr "b"] in
  let dims := [mkVar "v1" d1 None; mkVar "v2" d2 (Some (VStr "a"))] in
  let table : list (tuple * Z) := [([0;0]%nat, 5); ([0;1]%nat, 7); ([1;0]%nat, 7); ([1;1]%nat, 5)] in
  ext_wf dims table /\
  ext_values dims table = Ok [(5, AStr "1 a | 2 b"); (7, AStr "2 a | 1 b")].
Proof. exact c14_nonvacuous_l. Qed.

(* ---------------------------------------------------------------------------------------- *)
(* Deepening: the remaining sections and the whole DCOP                                      *)
(* ---------------------------------------------------------------------------------------- *)
Local Open Scope string_scope.

(* domains: _build_domains (_yaml_domains ds) gives back every domain (name, type, values, in
   order).  Guard: names unique (dcop.domains is a dict keyed by name); no one-value domain whose
   value is a str containing ".." (read as a range). *)
Theorem domains_roundtrip : forall ds,
  NoDup (map d_name ds) -> Forall dotdot_free ds ->
  mapM build_domain (yaml_domains ds) = Ok (named_doms ds).
Proof. exact domains_roundtrip_l. Qed.

(* variables: _build_variables (_yaml_variables vs) gives back every variable with its domain
   object and initial value (incl. falsy ones: 0, "").  Guard: names unique; every variable's
   domain is one of dcop.domains; an initial value belongs to the domain. *)
Theorem variables_roundtrip : forall ds vs,
  NoDup (map d_name ds) -> NoDup (map v_name vs) -> Forall (var_ok ds) vs ->
  mapM (build_variable (named_doms ds)) (yaml_variables vs) = Ok (named_vars vs).
Proof. exact variables_roundtrip_l. Qed.

(* constraints: _yaml_constraints succeeds and _build_constraints of what it wrote gives, name by
   name and in order, an equivalent constraint (cons_equiv: same expression text / same scope and
   the original value at every position of the matrix).  Guard: names unique; for a table
   constraint ext_wf (see extensional_table_roundtrip), scope variables are variables of the DCOP
   and have non-empty domains. *)
Theorem constraints_roundtrip : forall vs cs,
  NoDup (map v_name vs) -> NoDup (map c_name cs) -> Forall (cons_ok vs) cs ->
  exists ycs lcs, yaml_constraints cs = Ok ycs /\
    mapM (build_constraint (named_vars vs)) ycs = Ok lcs /\ Forall2 cons_rel cs lcs.
Proof. exact constraints_roundtrip_l. Qed.

(* "the same value on every assignment", stated on assignments (lists of domain values) rather
   than matrix positions *)
Theorem constraint_values_preserved : forall n dims table m a,
  ext_wf dims table -> cons_equiv (CExt n dims table) (LExt dims m) ->
  in_doms a (dim_values dims) ->
  exists c, rel_value dims table a = Ok c /\ lrel_value dims m a = Some (Some c).
Proof. exact cons_equiv_values. Qed.

(* agents: for ANY tree whose agents / routes / hosting_costs sections are what yaml_agents
   writes, _build_agents succeeds and gives, agent by agent and in order, an agent with the same
   name, the same capacity, the same route() to every name and the same hosting_cost() for every
   computation name (agent_rel).  Guard agents_wf: names unique, none called "default", a single
   default route, route tables symmetric and between agents of the DCOP, tables are dicts. *)
Theorem agents_roundtrip : forall ags t,
  agents_wf ags ->
  agents_list t = yaml_agents_agents ags ->
  olist (y_routes t) = yaml_agents_routes ags ->
  olist (y_hosting t) = yaml_agents_hosting ags ->
  exists las, build_agents t = Ok las /\ Forall2 agent_rel ags las.
Proof. exact agents_roundtrip_l. Qed.

(* the loader's routes loop is independent of the order of the "routes" mapping (so PyYAML's
   key sorting is harmless): for any list of entries with unique keys that are either the default
   or an agent's symmetric table, it succeeds and the pair-keyed dict holds exactly the tables *)
Theorem routes_load_order_independent :
  forall (AL : list (string * list (string * Z))) (Rt : string -> string -> Z -> Prop),
  (forall a b c, Rt a b c -> Rt b a c) ->
  (forall a b c c', Rt a b c -> Rt a b c' -> c = c') ->
  (forall a b c, Rt a b c -> mem_key String.eqb b AL = true) ->
  forall dr ys dr0 R0,
  NoDup (map fst ys) ->
  (forall k y, In (k, y) ys -> rentry_ok AL Rt dr k y) ->
  (forall a b c, plookup (a, b) R0 = Some c -> ~ In a (map fst ys) /\ Rt a b c) ->
  NoDup (map fst R0) ->
  exists dr1 R, foldM (routes_step AL) ys (dr0, R0) = Ok (dr1, R) /\ NoDup (map fst R) /\
    (In default_s (map fst ys) -> dr1 = dr) /\ (~ In default_s (map fst ys) -> dr1 = dr0) /\
    forall a b c, plookup (a, b) R = Some c <->
      plookup (a, b) R0 = Some c \/ exists tb, In (a, YRTable tb) ys /\ In (b, c) tb.
Proof. exact routes_fold_ok. Qed.

(* THE PROPERTY: every expressible DCOP is written, read back, and the result is equivalent *)
Theorem yaml_roundtrip : forall d, wf d ->
  exists t l, to_tree d = Ok t /\ of_tree t = Ok l /\ equiv d l.
Proof. exact yaml_roundtrip_l. Qed.

(* several files, as a real statement: if the top-level sections of a document are distributed
   over files in any order (their concatenation is a permutation of the document's sections),
   loading the files is loading the document *)
Theorem multi_file_split : forall t files,
  Permutation.Permutation (List.concat files) (sections_of t) -> load_files files = of_tree t.
Proof. exact multi_file_split_l. Qed.

Theorem yaml_roundtrip_files : forall d, wf d ->
  exists t l, to_tree d = Ok t /\ equiv d l /\
    forall files, Permutation.Permutation (List.concat files) (sections_of t) ->
                  load_files files = Ok l.
Proof. exact yaml_roundtrip_files_l. Qed.

(* ---------------------------------------------------------------------------------------- *)
(* yaml.dump sorts the keys of every mapping: what is read is a key re-ordering of what was   *)
(* written.  tperm t t' = t' is t with the entries of every mapping (domains, variables,      *)
(* constraints and each constraint's "values", agents, routes and each agent's table,         *)
(* hosting_costs and each agent's "computations") in ANY other order.                          *)
(* ---------------------------------------------------------------------------------------- *)

(* the "values" mapping of a table constraint may be read in any order *)
Theorem extensional_values_order_independent : forall dims table dflt vals vals',
  ext_wf dims table -> ext_values dims table = Ok vals -> Permutation.Permutation vals vals' ->
  exists m, foldM (ext_load_one dims) vals' (assignment_matrix dims dflt) = Ok m /\
    map fst m = all_tuples (shape_of dims) /\
    forall t, In t (all_tuples (shape_of dims)) ->
              lookup tuple_eqb t m = option_map Some (lookup tuple_eqb t table).
Proof. exact ext_values_order_independent_l. Qed.

(* agents, with the three mappings (and the inner route / computations tables) re-ordered *)
Theorem agents_roundtrip_any_key_order : forall ags ags1 t',
  agents_wf ags -> Permutation.Permutation ags ags1 ->
  agents_list t' = map aentry ags1 ->
  assoc_perm yroute_perm (yaml_agents_routes ags) (olist (y_routes t')) ->
  assoc_perm yhost_perm (yaml_agents_hosting ags) (olist (y_hosting t')) ->
  exists las, build_agents t' = Ok las /\ Forall2 agent_rel ags1 las.
Proof. exact agents_load_perm_l. Qed.

(* THE PROPERTY, robust to the YAML layer's key order: loading ANY key re-ordering of the
   written tree succeeds and yields a DCOP equivalent to the original up to the iteration order
   of its four dicts (dperm) *)
Theorem yaml_roundtrip_any_key_order : forall d t t',
  wf d -> to_tree d = Ok t -> tperm t t' ->
  exists d' l, dperm d d' /\ of_tree t' = Ok l /\ equiv d' l.
Proof. exact yaml_roundtrip_any_key_order_l. Qed.

(* the whole pipeline: write, re-order keys, distribute the sections over files, load *)
Theorem yaml_roundtrip_pipeline : forall d t t' files,
  wf d -> to_tree d = Ok t -> tperm t t' ->
  Permutation.Permutation (List.concat files) (sections_of t') ->
  exists d' l, dperm d d' /\ load_files files = Ok l /\ equiv d' l.
Proof. exact yaml_roundtrip_pipeline_l. Qed.

(* tperm is not vacuous: the tree of ex_dcop and a genuinely different key re-ordering of it
   (all mappings permuted, incl. the "values" of c1 and the position of routes.default) *)
Example tperm_nonvacuous : exists t t', to_tree ex_dcop = Ok t /\ tperm t t' /\ t <> t'.
Proof. exact tperm_nonvacuous_l. Qed.

(* two conjuncts of wf are necessary.  (1) one default route for all agents: *)
Theorem default_route_guard_refuted : exists d t l,
  to_tree d = Ok t /\ of_tree t = Ok l /\
  exists a e o, In a (dc_agents d) /\ In e (l_agents l) /\ fst e = a_name a /\
                route (snd e) o <> route a o.
Proof. exact default_route_guard_refuted_l. Qed.

(* (2) every variable's domain is one of dcop.domains (the file is written; loading raises
   KeyError).  DCOP.add_variable now registers the domain, see design_notes/C14.md *)
Theorem unregistered_domain_guard_refuted : exists d t,
  to_tree d = Ok t /\ of_tree t = Err EKey.
Proof. exact unregistered_domain_guard_refuted_l. Qed.

(* non-vacuity of yaml_roundtrip: a DCOP with two domains, three variables (falsy-free and with
   initial values), a table and an expression constraint, two agents with capacity, symmetric
   routes, default and specific hosting costs is well formed; what it loads back to *)
Example c14_roundtrip_nonvacuous :
  wf ex_dcop /\
  bind (to_tree ex_dcop) of_tree =
  Ok (mkLoaded "t1" "max" [("d1", ex_d1); ("d2", ex_d2)]
        [("v1", ex_v1); ("v2", ex_v2); ("v3", ex_v3)]
        [("c1", LExt [ex_v1; ex_v2]
                  [([0;0]%nat, Some 5); ([0;1]%nat, Some 7); ([1;0]%nat, Some 7); ([1;1]%nat, Some 5)]);
         ("c2", LInt "v1 + v3")]
        [("a1", mkAgent "a1" 3 [("a2", 7)] 0 [] [("capacity", 10)]);
         ("a2", mkAgent "a2" 3 [("a1", 7)] 5 [("v1", 2)] [])]).
Proof. exact (conj ex_dcop_wf ex_dcop_loaded). Qed.
