(* M_Dpop.v -- executable model of pydcop/algorithms/dpop.py (DpopAlgo: __init__ constraint
   ownership filter + initial _joined_utils, on_start, _on_util_message, _compute_utils_msg,
   _on_value_message, select_value_and_finish) over a small model of the relation helpers it
   calls (relations.py: NAryMatrixRelation tables, slice, join, projection, find_arg_optimal),
   plugged into the generic network of Net.v.  Definitions only; proofs are in P_Dpop.v.

   Encoding.  A variable / computation = a Z id (lexical order of the generated names = numeric
   order).  A domain value = its index in the domain.  A cost table is the nested list numpy's
   `_m.tolist()` gives ([tbl]), first dimension outermost; a relation = dimension list + table.
   The pseudo-tree (parent / children / pseudo-parents / pseudo-children / node.constraints per
   node) is an INPUT: exactly what pseudotree.build_computation_graph returned. *)
From PyDcop Require Import Base Net.

Inductive dmode := Min | Max.

(* ------------------------------------------------------------------ *)
(*  Cost tables and relations                                           *)
(* ------------------------------------------------------------------ *)
Inductive tbl := Leaf (c : Z) | Node (l : list tbl).
Record rel := mkRel { r_dims : list Z; r_tbl : tbl }.
Definition asg := list (Z * Z).           (* variable -> domain index (a Python dict) *)

(* index of the value of x in a (0 when absent: never used on a missing key by the code paths
   the theorems cover) *)
Definition aval (a : asg) (x : Z) : nat :=
  match zlookup x a with Some v => Z.to_nat v | None => O end.

Fixpoint tget (t : tbl) (idx : list nat) : Z :=
  match idx, t with
  | [], Leaf c => c
  | i :: r, Node l => tget (nth i l (Leaf 0)) r
  | _, _ => 0
  end.

(* calling a relation with keyword arguments covering its dimensions *)
Definition eval (r : rel) (a : asg) : Z := tget (r_tbl r) (map (aval a) (r_dims r)).

Fixpoint tbl_eqb (a b : tbl) : bool :=
  match a, b with
  | Leaf x, Leaf y => Z.eqb x y
  | Node l, Node l' =>
      (fix go (l l' : list tbl) : bool :=
         match l, l' with
         | [], [] => true
         | x :: r, y :: r' => tbl_eqb x y && go r r'
         | _, _ => false
         end) l l'
  | _, _ => false
  end.
Definition zl_eqb := list_eqb Z.eqb.
Definition rel_eqb (a b : rel) : bool := zl_eqb (r_dims a) (r_dims b) && tbl_eqb (r_tbl a) (r_tbl b).

Fixpoint remove_first (x : Z) (l : list Z) : list Z :=
  match l with
  | [] => []
  | y :: r => if Z.eqb x y then r else y :: remove_first x r
  end.

Section Rel.
  Variable D : Z -> nat.                  (* domain sizes *)

  (* the table whose entry for the assignment a of [dims] is [f a]; the assignment handed to f
     lists the dimensions in order *)
  Fixpoint build (dims : list Z) (f : asg -> Z) : tbl :=
    match dims with
    | [] => Leaf (f [])
    | d :: r => Node (map (fun v => build r (fun a => f ((d, Z.of_nat v) :: a))) (seq 0 (D d)))
    end.

  (* join: dims = u1.dimensions[:] ; for d2 in u2.dimensions: if d2 not in dims: dims.append(d2) *)
  Fixpoint join_dims (acc d2 : list Z) : list Z :=
    match d2 with
    | [] => acc
    | d :: r => if zmem d acc then join_dims acc r else join_dims (acc ++ [d]) r
    end.
  Definition join (u1 u2 : rel) : rel :=
    let dims := join_dims (r_dims u1) (r_dims u2) in
    mkRel dims (build dims (fun a => eval u1 a + eval u2 a)).

  (* find_arg_optimal's loop.  [None] is the start value +/-inf: any cost is strictly better. *)
  Definition better (m : dmode) (c : Z) (best : option Z) : bool :=
    match best with
    | None => true
    | Some b => match m with Min => c <? b | Max => b <? c end
    end.
  Definition same (c : Z) (best : option Z) : bool :=
    match best with None => false | Some b => c =? b end.
  Fixpoint fao_loop (m : dmode) (costs : list Z) (i : nat) (best : option Z) (args : list nat)
    : list nat * option Z :=
    match costs with
    | [] => (args, best)
    | c :: r =>
        if better m c best then fao_loop m r (S i) (Some c) [i]
        else if same c best then fao_loop m r (S i) best (args ++ [i])
        else fao_loop m r (S i) best args
    end.
  Definition fao_costs (m : dmode) (costs : list Z) := fao_loop m costs O None [].
  Definition best_val (b : option Z) : Z := match b with Some z => z | None => 0 end.

  (* projection(a_rel, a_var, mode); None = ValueError (a_var not a dimension) *)
  Definition projection (r : rel) (x : Z) (m : dmode) : option rel :=
    if zmem x (r_dims r) then
      let dims := remove_first x (r_dims r) in
      Some (mkRel dims (build dims (fun a =>
        best_val (snd (fao_costs m (map (fun v => eval r ((x, Z.of_nat v) :: a)) (seq 0 (D x))))))))
    else None.

  (* NAryMatrixRelation.slice(partial) without ignore_extra_vars; None = AttributeError *)
  Definition slice (r : rel) (vd : asg) : option rel :=
    match vd with
    | [] => Some r
    | _ =>
      if forallb (fun kv => zmem (fst kv) (r_dims r)) vd then
        let dims := filter (fun d => negb (mem_key Z.eqb d vd)) (r_dims r) in
        Some (mkRel dims (build dims (fun a => eval r (vd ++ a))))
      else None
    end.

  (* find_arg_optimal(variable, relation, mode) followed by values[0]:
     inl (value index, cost) | inr exception (1 ValueError: wrong dimensions, 2 IndexError) *)
  Definition fao (x : Z) (r : rel) (m : dmode) : (Z * Z) + Z :=
    match r_dims r with
    | [y] =>
        if Z.eqb x y then
          match fao_costs m (map (fun v => eval r [(x, Z.of_nat v)]) (seq 0 (D x))) with
          | (i :: _, b) => inl (Z.of_nat i, best_val b)
          | ([], _) => inr 2
          end
        else inr 1
    | _ => inr 1
    end.
End Rel.

(* ------------------------------------------------------------------ *)
(*  DCOP + pseudo-tree input                                            *)
(* ------------------------------------------------------------------ *)
Record pnode := mkPN {
  pn_id : Z;
  pn_parent : option Z;
  pn_children : list Z;
  pn_pps : list Z;
  pn_pcs : list Z;
  pn_cons : list Z           (* node.constraints: ids of the constraints on the variable, in order *)
}.

Record dcop := mkDcop {
  dc_mode : dmode;
  dc_dom : list (Z * Z);            (* variable -> domain size *)
  dc_vcost : list (Z * list Z);     (* variable -> cost_for_val of each domain value *)
  dc_cons : list (Z * rel);         (* constraint id -> (dimensions, cost table) *)
  dc_tree : list pnode
}.

Definition dsize (P : dcop) (x : Z) : nat :=
  match zlookup x (dc_dom P) with Some k => Z.to_nat k | None => O end.
Definition vcosts (P : dcop) (x : Z) : list Z :=
  match zlookup x (dc_vcost P) with Some l => l | None => [] end.
Definition con (P : dcop) (c : Z) : rel :=
  match zlookup c (dc_cons P) with Some r => r | None => mkRel [] (Leaf 0) end.
Fixpoint find_pn (t : list pnode) (x : Z) : option pnode :=
  match t with
  | [] => None
  | n :: r => if Z.eqb x (pn_id n) then Some n else find_pn r x
  end.
Definition pn_of (P : dcop) (x : Z) : pnode :=
  match find_pn (dc_tree P) x with Some n => n | None => mkPN x None [] [] [] [] end.
Definition parent (P : dcop) x := pn_parent (pn_of P x).
Definition children (P : dcop) x := pn_children (pn_of P x).

(* DpopAlgo.__init__: drop every constraint that depends on a pseudo-child or child *)
Definition owned (P : dcop) (x : Z) : list Z :=
  let desc := pn_pcs (pn_of P x) ++ pn_children (pn_of P x) in
  filter (fun c => negb (existsb (fun d => zmem d (r_dims (con P c))) desc)) (pn_cons (pn_of P x)).

(* ------------------------------------------------------------------ *)
(*  The computation                                                     *)
(* ------------------------------------------------------------------ *)
Inductive msg := MUtil (u : rel) | MValue (vars vals : list Z).

Record st := mkSt {
  s_joined : rel;                   (* _joined_utils *)
  s_waited : list Z;                (* _waited_children *)
  s_csep : list (Z * list Z);       (* _children_separator: child -> dimensions of its UTIL *)
  s_value : option (Z * Z);         (* current_value (index), current_cost *)
  s_fin : bool;                     (* stop() + finished() done *)
  s_late : list (Z * msg)           (* messages received after stop(): stored, never handled *)
}.

Inductive ev :=
| EvUtil (src dst : Z) (u : rel)                  (* post_msg(dst, UTIL) *)
| EvValue (src dst : Z) (vars vals : list Z)      (* post_msg(dst, VALUE) *)
| EvSelect (n : Z) (v cost : Z)                   (* value_selection -> _on_value_selection *)
| EvFinished (n : Z)
| EvRaise (n : Z) (kind : Z).   (* 1 ValueError, 2 IndexError, 3 AttributeError, 4 KeyError *)

Section Dpop.
  Variable P : dcop.
  Let D := dsize P.
  Let m := dc_mode P.

  Definition is_leaf (x : Z) : bool := match children P x with [] => true | _ => false end.
  Definition is_root (x : Z) : bool := match parent P x with None => true | Some _ => false end.

  Definition init_joined (x : Z) : rel :=
    mkRel [x] (build D [x] (fun a => nth (aval a x) (vcosts P x) 0)).

  Definition dpop_init (x : Z) : st :=
    mkSt (init_joined x) (children P x) [] None false [].

  Definition set_joined (s : st) (j : rel) : st :=
    mkSt j (s_waited s) (s_csep s) (s_value s) (s_fin s) (s_late s).

  (* for r in self._constraints: self._joined_utils = join(self._joined_utils, r) *)
  Definition join_own (x : Z) (j : rel) : rel :=
    fold_left (fun acc c => join D acc (con P c)) (owned P x) j.

  (* select_value_and_finish *)
  Definition finish (x : Z) (s : st) (v cost : Z) : st * list ev :=
    (mkSt (s_joined s) (s_waited s) (s_csep s) (Some (v, cost)) true (s_late s),
     [EvSelect x v cost; EvFinished x]).

  (* _compute_utils_msg + post to the parent *)
  Definition send_util (x : Z) (s : st) : st * list (Z * msg) * list ev :=
    let j := join_own x (s_joined s) in
    let s1 := set_joined s j in
    match projection D j x m, parent P x with
    | Some u, Some p => (s1, [(p, MUtil u)], [EvUtil x p u])
    | _, _ => (s1, [], [EvRaise x 1])
    end.

  (* root (or isolated variable): join own constraints, pick the optimum, tell the children *)
  Definition root_select (x : Z) (s : st) : st * list (Z * msg) * list ev :=
    let j := join_own x (s_joined s) in
    let s1 := set_joined s j in
    match fao D x j m with
    | inl (v, cost) =>
        let outs := map (fun c => (c, MValue [x] [v])) (children P x) in
        let '(s2, e2) := finish x s1 v cost in
        (s2, outs, map (fun c => EvValue x c [x] [v]) (children P x) ++ e2)
    | inr k => (s1, [], [EvRaise x k])
    end.

  Definition dpop_start (x : Z) (s : st) : st * list (Z * msg) * list ev :=
    if is_leaf x then
      if is_root x then root_select x s else send_util x s
    else (s, [], []).

  Definition on_util (x : Z) (s : st) (src : Z) (u : rel) : st * list (Z * msg) * list ev :=
    let j := join D (s_joined s) u in
    if zmem src (s_waited s) then
      let s1 := mkSt j (remove_first src (s_waited s)) (dict_set Z.eqb src (r_dims u) (s_csep s))
                     (s_value s) (s_fin s) (s_late s) in
      match s_waited s1 with
      | [] => if is_root x then root_select x s1 else send_util x s1
      | _ => (s1, [], [])
      end
    else (set_joined s j, [], [EvRaise x 1]).

  (* the loop over the children of _on_value_message; stops at the first KeyError *)
  Fixpoint value_msgs (x sel : Z) (vd : asg) (csep : list (Z * list Z)) (cs : list Z)
    : list (Z * msg) * list ev * bool :=
    match cs with
    | [] => ([], [], true)
    | c :: r =>
        match zlookup c csep with
        | None => ([], [EvRaise x 4], false)
        | Some sep =>
            let keep := filter (fun v => mem_key Z.eqb v vd) sep in
            let vars := x :: keep in
            let vals := sel :: map (fun v => match zlookup v vd with Some w => w | None => 0 end) keep in
            let '(o, e, ok) := value_msgs x sel vd csep r in
            ((c, MValue vars vals) :: o, EvValue x c vars vals :: e, ok)
        end
    end.

  Definition on_value (x : Z) (s : st) (vars vals : list Z) : st * list (Z * msg) * list ev :=
    let vd := dict_of_list Z.eqb (combine vars vals) in
    match slice D (s_joined s) vd with
    | None => (s, [], [EvRaise x 3])
    | Some r =>
        match fao D x r m with
        | inr k => (s, [], [EvRaise x k])
        | inl (v, cost) =>
            let '(outs, evs, ok) := value_msgs x v vd (s_csep s) (children P x) in
            if ok then let '(s2, e2) := finish x s v cost in (s2, outs, evs ++ e2)
            else (s, outs, evs)
        end
    end.

  Definition dpop_recv (x : Z) (s : st) (src : Z) (mm : msg) : st * list (Z * msg) * list ev :=
    if s_fin s then
      (mkSt (s_joined s) (s_waited s) (s_csep s) (s_value s) true (s_late s ++ [(src, mm)]), [], [])
    else
      match mm with
      | MUtil u => on_util x s src u
      | MValue vars vals => on_value x s vars vals
      end.

  Definition dpop_proto : proto st msg ev := mkProto dpop_init dpop_start dpop_recv.
End Dpop.

(* ------------------------------------------------------------------ *)
(*  Correspondence                                                      *)
(* ------------------------------------------------------------------ *)
Definition msg_eqb (a b : msg) : bool :=
  match a, b with
  | MUtil u, MUtil u' => rel_eqb u u'
  | MValue a1 a2, MValue b1 b2 => zl_eqb a1 b1 && zl_eqb a2 b2
  | _, _ => false
  end.

Definition ev_eqb (a b : ev) : bool :=
  match a, b with
  | EvUtil s d u, EvUtil s' d' u' => Z.eqb s s' && Z.eqb d d' && rel_eqb u u'
  | EvValue s d a1 a2, EvValue s' d' b1 b2 => Z.eqb s s' && Z.eqb d d' && zl_eqb a1 b1 && zl_eqb a2 b2
  | EvSelect n v c, EvSelect n' v' c' => Z.eqb n n' && Z.eqb v v' && Z.eqb c c'
  | EvFinished n, EvFinished n' => Z.eqb n n'
  | EvRaise n k, EvRaise n' k' => Z.eqb n n' && Z.eqb k k'
  | _, _ => false
  end.

Record case := mkCase {
  c_dcop : dcop;
  c_sched : list (@action);
  c_events : list ev;                               (* observed sends / selections / finished / raises *)
  c_final : list (Z * option (Z * Z) * bool * list Z);  (* node, current value+cost, finished, _waited_children *)
  c_joined : list (Z * rel);                        (* final _joined_utils of every node *)
  c_inflight : list (Z * Z * list msg)              (* observed final channel contents *)
}.

Definition tree_ids (P : dcop) : list Z := map pn_id (dc_tree P).

Definition check_case (c : case) : bool :=
  let P := c_dcop c in
  let '(cf, evs) := run (dpop_proto P) (c_sched c) in
  list_eqb ev_eqb evs (c_events c)
  && forallb (fun q => let '(n, v, f, w) := q in
        let s := w_st (nodes cf n) in
        option_eqb (pair_eqb Z.eqb Z.eqb) (s_value s) v && Bool.eqb (s_fin s) f && zl_eqb (s_waited s) w)
      (c_final c)
  && forallb (fun q => rel_eqb (s_joined (w_st (nodes cf (fst q)))) (snd q)) (c_joined c)
  && forallb (fun q => let '(s, d, l) := q in list_eqb msg_eqb (chan cf s d) l) (c_inflight c)
  && Nat.eqb (fold_left (fun acc s => fold_left (fun acc d => acc + List.length (chan cf s d))%nat (tree_ids P) acc)
                        (tree_ids P) O)
             (fold_left (fun acc q => acc + List.length (snd q))%nat (c_inflight c) O).
