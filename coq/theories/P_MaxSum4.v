(* P_MaxSum4.v -- C05 deepening, part 3: exactness on forests.
   [SN h a b] unrolls the factor graph behind the directed edge a->b to depth h; the factor graph is a forest
   iff some unrolling is closed ([low]) and repetition-free.  On such an edge the message of lock-step round
   k >= height is the exact min/max-marginal of the subtree behind the edge, up to an explicit additive constant
   ([tree_messages]); with a unique optimum select_value then returns the optimum's value ([tree_select]). *)
From Coq Require Import QArith Qabs Lia Permutation.
From PyDcop Require Import Base Net M_SyncMixin P_SyncMixin M_MaxSum P_MaxSum P_MaxSum2 P_MaxSum3.
Local Open Scope nat_scope.
Local Notation length := List.length.

(* ------------------------------------------------------------------ sums and orders *)
Lemma qsum_app l1 l2 : (qsum (l1 ++ l2) == qsum l1 + qsum l2)%Q.
Proof. induction l1 as [|x l IH]; simpl; [ring | rewrite IH; ring]. Qed.

Lemma qsum_flat_map {X} (F : X -> list Q) l : (qsum (flat_map F l) == qsum (map (fun x => qsum (F x)) l))%Q.
Proof. induction l as [|x l IH]; simpl; [reflexivity|]. rewrite qsum_app, IH. reflexivity. Qed.

Lemma qsum_map_ext_in {X} (F H : X -> Q) l : (forall x, In x l -> (F x == H x)%Q) ->
  (qsum (map F l) == qsum (map H l))%Q.
Proof.
  induction l as [|x l IH]; simpl; intros Hx; [reflexivity|].
  rewrite (Hx x (or_introl eq_refl)), IH; [reflexivity|]. intros y Hy. apply Hx. right; exact Hy.
Qed.

Lemma qsum_map_plus {X} (F H : X -> Q) l : (qsum (map (fun x => F x + H x) l) == qsum (map F l) + qsum (map H l))%Q.
Proof. induction l as [|x l IH]; simpl; [ring | rewrite IH; ring]. Qed.

Lemma ord_plus mx a b c d : ord mx a b -> ord mx c d -> ord mx (a + c) (b + d).
Proof. destruct mx; simpl; intros; apply Qplus_le_compat; auto. Qed.

Lemma ord_sum {X} mx (F H : X -> Q) l : (forall x, In x l -> ord mx (F x) (H x)) ->
  ord mx (qsum (map F l)) (qsum (map H l)).
Proof.
  induction l as [|x l IH]; simpl; intros Hx; [apply ord_refl|].
  apply ord_plus; [apply Hx; left; reflexivity | apply IH; intros y Hy; apply Hx; right; exact Hy].
Qed.

Lemma ord_eq mx a a' b b' : (a == a')%Q -> (b == b')%Q -> ord mx a b -> ord mx a' b'.
Proof. intros Ha Hb. destruct mx; simpl; rewrite Ha, Hb; auto. Qed.

(* ------------------------------------------------------------------ positions in a scope *)
Lemma remove_at_index x l : In x l -> NoDup l ->
  remove_at (index_of x l) l = filter (fun c => negb (Z.eqb c x)) l.
Proof.
  induction l as [|y r IH]; intros Hin Hnd; [contradiction|].
  inversion Hnd as [|? ? Hnin Hnd']; subst. simpl.
  rewrite (Z.eqb_sym y x). destruct (Z.eqb_spec x y) as [->|Hne]; simpl.
  - unfold remove_at. simpl. clear IH Hin Hnd Hnd'. induction r as [|c r IH]; simpl; auto.
    destruct (Z.eqb_spec c y) as [->|Hc]; simpl; [exfalso; apply Hnin; left; reflexivity|].
    f_equal. apply IH. intros H. apply Hnin. right; exact H.
  - destruct Hin as [Hin|Hin]; [congruence|].
    unfold remove_at in *. simpl. f_equal. now apply IH.
Qed.

Lemma insert_remove (s : node -> nat) x l : In x l ->
  insert_at (index_of x l) (s x) (map s (remove_at (index_of x l) l)) = map s l.
Proof.
  induction l as [|y r IH]; intros Hin; [contradiction|]. simpl.
  destruct (Z.eqb_spec x y) as [->|Hne].
  - reflexivity.
  - destruct Hin as [Hin|Hin]; [congruence|].
    unfold insert_at, remove_at in *. simpl. f_equal. now apply IH.
Qed.

Lemma index_of_lt x l : In x l -> index_of x l < length l.
Proof.
  induction l as [|y r IH]; intros Hin; [contradiction|]. simpl.
  destruct (Z.eqb_spec x y); [lia|]. destruct Hin as [Hin|Hin]; [congruence|]. specialize (IH Hin). lia.
Qed.

Lemma map_nth_index (a : list nat) : forall os, NoDup os -> length a = length os ->
  map (fun y => nth (index_of y os) a 0) os = a.
Proof.
  induction a as [|v a IH]; intros os Hnd Hl; destruct os as [|y r]; simpl in Hl; try discriminate; auto.
  inversion Hnd as [|? ? Hnin Hnd']; subst. simpl. rewrite Z.eqb_refl. f_equal.
  transitivity (map (fun z => nth (index_of z r) a 0) r); [|apply IH; auto; lia].
  apply map_ext_in. intros z Hz. destruct (Z.eqb_spec z y) as [->|Hne]; [contradiction|reflexivity].
Qed.

Lemma combine_map_r {X Y} (g : X -> Y) l : combine l (map g l) = map (fun x => (x, g x)) l.
Proof. induction l; simpl; congruence. Qed.

Lemma Forall2_map_lt (s D : node -> nat) l : (forall y, In y l -> s y < D y) ->
  Forall2 (fun v n => v < n) (map s l) (map D l).
Proof.
  induction l as [|y r IH]; simpl; intros H; constructor.
  - apply H. left; reflexivity.
  - apply IH. intros z Hz. apply H. right; exact Hz.
Qed.

Lemma Forall2_length {X Y} (R : X -> Y -> Prop) l l' : Forall2 R l l' -> length l = length l'.
Proof. induction 1; simpl; congruence. Qed.

Lemma NoDup_flat_map_in {X Y} (F : X -> list Y) l c : NoDup (flat_map F l) -> In c l -> NoDup (F c).
Proof.
  induction l as [|x l IH]; simpl; intros H Hin; [contradiction|].
  destruct Hin as [->|Hin]; [eapply NoDup_app_l; eauto | apply IH; auto; eapply NoDup_app_r; eauto].
Qed.

Lemma map_flat_map {X Y Z'} (f : Y -> Z') (g : X -> list Y) l :
  map f (flat_map g l) = flat_map (fun x => map f (g x)) l.
Proof. induction l as [|x l IH]; simpl; [reflexivity|]. now rewrite map_app, IH. Qed.

(* ================================================================== the unrolled factor graph *)
Section Tree.
  Variable P : params.
  Variable G : dcop.
  Hypothesis Hwf : wf_dcop G.
  Hypothesis Hdom : forall x vd, In (x, vd) (d_vars G) -> 0 < v_dom vd.

  Definition asg := node -> nat.
  Definition valid (s : asg) : Prop := forall x vd, zlookup x (d_vars G) = Some vd -> s x < v_dom vd.

  (* the cost a computation node contributes under assignment s: variable cost / constraint value *)
  Definition own (s : asg) (a : node) : Q :=
    match zlookup a (d_vars G) with
    | Some vd => unary vd (s a)
    | None => match zlookup a (d_facs G) with Some fd => f_cost fd (map s (f_scope fd)) | None => 0%Q end
    end.

  Definition others (a b : node) : list node := filter (fun c => negb (Z.eqb c b)) (nbrs G a).

  (* the nodes met when unrolling the graph behind the directed edge a->b (a included), depth h *)
  Fixpoint SN (h : nat) (a b : node) : list node :=
    match h with O => [] | S h' => a :: flat_map (fun c => SN h' c a) (others a b) end.
  (* ... the unrolling is complete: the part of the graph behind a->b is a tree of height <= h *)
  Fixpoint low (h : nat) (a b : node) : bool :=
    match h with O => false | S h' => forallb (fun c => low h' c a) (others a b) end.
  (* the cost of the part of the problem behind a->b *)
  Definition SC (h : nat) (a b : node) (s : asg) : Q := qsum (map (own s) (SN h a b)).

  Lemma others_In a b c : In c (others a b) <-> In c (nbrs G a) /\ c <> b.
  Proof.
    unfold others. rewrite filter_In. split; intros [H1 H2]; split; auto.
    - apply negb_true_iff in H2. now apply Z.eqb_neq.
    - apply negb_true_iff. now apply Z.eqb_neq.
  Qed.

  Lemma others_nodup a b : NoDup (others a b).
  Proof. apply NoDup_filter. apply (maxsum_graph_ok_l G Hwf). Qed.

  Lemma SC_S h a b s : (SC (S h) a b s == own s a + qsum (map (fun c => SC h c a s) (others a b)))%Q.
  Proof.
    unfold SC. simpl. apply Qplus_comp; [reflexivity|].
    rewrite map_flat_map, qsum_flat_map. reflexivity.
  Qed.

  Lemma low_head h c a : low h c a = true -> In c (SN h c a).
  Proof. destruct h; simpl; [discriminate | auto]. Qed.

  Lemma low_mono h : forall a b, low h a b = true -> low (S h) a b = true.
  Proof.
    induction h as [|h IH]; intros a b H; [discriminate|].
    simpl in H. change (forallb (fun c => low (S h) c a) (others a b) = true).
    rewrite forallb_forall in *. intros c Hc. apply IH. now apply H.
  Qed.

  (* a closed unrolling contains, with a node, all its neighbours -- except the entry edge *)
  Lemma SN_closed h : forall a b n y, low h a b = true -> In n (SN h a b) -> In y (nbrs G n) ->
    In y (SN h a b) \/ (n = a /\ y = b).
  Proof.
    induction h as [|h IH]; intros a b n y Hl Hn Hy; [discriminate|].
    simpl in Hl, Hn |- *. rewrite forallb_forall in Hl.
    destruct Hn as [<-|Hn].
    - destruct (Z.eq_dec y b) as [->|Hyb]; [right; auto|]. left. right.
      apply in_flat_map. exists y. assert (Hyo : In y (others a b)) by (apply others_In; auto).
      split; auto. apply low_head. now apply Hl.
    - apply in_flat_map in Hn as [c [Hc Hn]]. left.
      destruct (IH c a n y (Hl c Hc) Hn Hy) as [H|[-> ->]].
      + right. apply in_flat_map. exists c. auto.
      + left. reflexivity.
  Qed.

  Definition is_var (a : node) : bool := match zlookup a (d_vars G) with Some _ => true | None => false end.

  (* the cost behind a->b only depends on the assignment of the nodes met there (and of b, the variable a
     factor a shares with the rest) *)
  Lemma SC_dep h a b s s' : low h a b = true ->
    (forall z, In z (SN h a b) -> s z = s' z) -> (is_var b = true -> s b = s' b) ->
    SC h a b s = SC h a b s'.
  Proof.
    intros Hl Hag Hb. unfold SC. f_equal. apply map_ext_in. intros n Hn. unfold own.
    destruct (zlookup n (d_vars G)) as [vd|] eqn:Ev.
    - now rewrite (Hag n Hn).
    - destruct (zlookup n (d_facs G)) as [fd|] eqn:Ef; [|reflexivity].
      f_equal. apply map_ext_in. intros y Hy.
      assert (Hin : In (n, fd) (d_facs G)) by now apply zlookup_In.
      assert (Hyn : In y (nbrs G n)) by (rewrite (nbrs_fac G Hwf n fd Hin); exact Hy).
      destruct (SN_closed h a b n y Hl Hn Hyn) as [H|[-> ->]]; [now apply Hag|].
      apply Hb. destruct Hwf as [_ Hsc]. destruct (Hsc _ _ Hin) as [_ Hincl].
      apply Hincl in Hy. apply (var_lookup G Hwf) in Hy as [vd Hv]. unfold is_var. now rewrite Hv.
  Qed.

  (* gluing assignments chosen independently for the branches below a (pairwise disjoint in a forest) *)
  Lemma glue h a xr d os (Q : node -> asg -> Prop) :
    NoDup (flat_map (fun g => SN h g a) os) -> ~ In xr (flat_map (fun g => SN h g a) os) ->
    (forall vd, zlookup xr (d_vars G) = Some vd -> d < v_dom vd) ->
    (forall g s s', In g os -> (forall z, In z (SN h g a) -> s z = s' z) -> s xr = s' xr -> Q g s -> Q g s') ->
    (forall g, In g os -> exists s, valid s /\ s xr = d /\ Q g s) ->
    exists s, valid s /\ s xr = d /\ forall g, In g os -> Q g s.
  Proof.
    intros Hnd Hx Hd. induction os as [|g r IH]; intros Hresp Hw.
    - exists (fun z => if Z.eqb z xr then d else 0). split; [|split].
      + intros x vd Hv. destruct (Z.eqb_spec x xr) as [->|_]; [now apply Hd|].
        apply (Hdom x vd). now apply zlookup_In.
      + now rewrite Z.eqb_refl.
      + intros g [].
    - simpl in Hnd, Hx.
      destruct IH as [sr [Hvr [Hxr Hqr]]].
      + eapply NoDup_app_r; eauto.
      + intros Hc. apply Hx. apply in_or_app. right; exact Hc.
      + intros g' s s' Hg'. apply Hresp. right; exact Hg'.
      + intros g' Hg'. apply Hw. right; exact Hg'.
      + destruct (Hw g (or_introl eq_refl)) as [sg [Hvg [Hxg Hqg]]].
        exists (fun z => if zmem z (SN h g a) then sg z else sr z).
        assert (Hxn : zmem xr (SN h g a) = false).
        { destruct (zmem xr (SN h g a)) eqn:E; auto. apply zmem_In in E. exfalso. apply Hx. apply in_or_app. left; exact E. }
        split; [|split].
        * intros x vd Hv. destruct (zmem x (SN h g a)); [now apply Hvg | now apply Hvr].
        * rewrite Hxn. exact Hxr.
        * intros g' [<-|Hg'].
          -- apply (Hresp g sg); [left; reflexivity | | | exact Hqg].
             ++ intros z Hz. apply zmem_In in Hz. now rewrite Hz.
             ++ rewrite Hxn. congruence.
          -- apply (Hresp g' sr); [right; exact Hg' | | | now apply Hqr].
             ++ intros z Hz. destruct (zmem z (SN h g a)) eqn:E; auto. apply zmem_In in E.
                exfalso. eapply (NoDup_app_disj _ _ z Hnd); eauto. apply in_flat_map. exists g'. auto.
             ++ now rewrite Hxn.
  Qed.

  (* ---------------------------------------------------------------- exact marginals *)
  Notation mx := (p_max P).
  (* B is the min/max-marginal of the cost function C on variable x: B d is the optimum of C over all valid
     assignments that give x the value d (a bound for all of them, attained by one) *)
  Definition is_margf (x : node) (dom : nat) (B : nat -> Q) (C : asg -> Q) : Prop :=
    forall d, d < dom ->
      (forall s, valid s -> s x = d -> ord mx (B d) (C s)) /\
      (exists s, valid s /\ s x = d /\ (B d == C s)%Q).

  Lemma is_margf_ext x dom B B' C C' :
    (forall d, d < dom -> (B d == B' d)%Q) -> (forall s, (C s == C' s)%Q) ->
    is_margf x dom B C -> is_margf x dom B' C'.
  Proof.
    intros HB HC H d Hd. destruct (H d Hd) as [H1 [s [Hv [Hx He]]]]. split.
    - intros s' Hv' Hx'. eapply ord_eq; [apply HB; auto | apply HC | apply H1; auto].
    - exists s. repeat split; auto. rewrite <- (HB d Hd), <- (HC s). exact He.
  Qed.

  Lemma valid_dom s y : valid s -> is_var y = true -> s y < dom_of G y.
  Proof.
    intros Hv Hy. unfold is_var, dom_of in *. destruct (zlookup y (d_vars G)) as [vd|] eqn:E; [|discriminate].
    now apply Hv.
  Qed.

  (* variable side: own cost + the marginals of the branches = the marginal of the union *)
  Lemma var_step x vd h os (tg : node -> table) (Kg : node -> Q) :
    zlookup x (d_vars G) = Some vd ->
    (forall g, In g os -> low h g x = true) ->
    NoDup (flat_map (fun g => SN h g x) os) -> ~ In x (flat_map (fun g => SN h g x) os) ->
    (forall g, In g os -> is_margf x (v_dom vd) (fun d => tget (tg g) d + Kg g)%Q (SC h g x)) ->
    is_margf x (v_dom vd) (fun d => unary vd d + qsum (map (fun g => tget (tg g) d + Kg g) os))%Q
                          (fun s => own s x + qsum (map (fun g => SC h g x s) os))%Q.
  Proof.
    intros Hv Hlow Hnd Hx Hm d Hd. split.
    - intros s Hvs Hsx. apply ord_plus.
      + unfold own. rewrite Hv, Hsx. apply ord_refl.
      + apply ord_sum. intros g Hg. apply (Hm g Hg d Hd); auto.
    - destruct (glue h x x d os (fun g s => (tget (tg g) d + Kg g == SC h g x s)%Q) Hnd Hx) as [s [Hvs [Hsx Hq]]].
      + intros vd' Hv'. rewrite Hv in Hv'. inversion Hv'; subst. exact Hd.
      + intros g s s' Hg Hag Hxx Hq. rewrite <- (SC_dep h g x s s' (Hlow g Hg) Hag (fun _ => Hxx)). exact Hq.
      + intros g Hg. destruct (Hm g Hg d Hd) as [_ [s [Hvs [Hsx He]]]]. exists s. auto.
      + exists s. split; [exact Hvs|]. split; [exact Hsx|].
        apply Qplus_comp.
        * unfold own. rewrite Hv, Hsx. reflexivity.
        * apply qsum_map_ext_in. exact Hq.
  Qed.

  Lemma Forall2_map_lt_inv (s D : node -> nat) l :
    Forall2 (fun v n => v < n) (map s l) (map D l) -> forall y, In y l -> s y < D y.
  Proof.
    induction l as [|z r IH]; simpl; intros H y Hy; [contradiction|].
    inversion H; subst. destruct Hy as [<-|Hy]; auto.
  Qed.

  (* factor side: optimum over the other variables of constraint + their marginals *)
  Lemma fac_step f fd x h (recv : list (node * table)) (ty : node -> table) (Ky : node -> Q) :
    In (f, fd) (d_facs G) -> In x (f_scope fd) ->
    (forall y, In y (others f x) -> low h y f = true) ->
    NoDup (flat_map (fun y => SN h y f) (others f x)) -> ~ In x (flat_map (fun y => SN h y f) (others f x)) ->
    (forall y, In y (others f x) -> zlookup y recv = Some (ty y) /\ length (ty y) = dom_of G y /\
         is_margf y (dom_of G y) (fun v => tget (ty y) v + Ky y)%Q (SC h y f)) ->
    is_margf x (dom_of G x)
      (fun d => tget (factor_costs_for_var (dom_of G) mx fd recv x) d + qsum (map Ky (others f x)))%Q
      (fun s => own s f + qsum (map (fun y => SC h y f s) (others f x)))%Q.
  Proof.
    intros Hin Hxs Hlow Hnd Hx Hm.
    destruct Hwf as [_ Hsc]. destruct (Hsc f fd Hin) as [Hnds Hincl].
    assert (Hnf : nbrs G f = f_scope fd) by now apply nbrs_fac.
    set (os := others f x) in *.
    set (i := index_of x (f_scope fd)).
    assert (Hos : remove_at i (f_scope fd) = os).
    { unfold os, others, i. rewrite Hnf. now apply remove_at_index. }
    assert (Hosin : forall y, In y os -> In y (f_scope fd) /\ y <> x).
    { intros y Hy. unfold os in Hy. apply others_In in Hy. now rewrite Hnf in Hy. }
    assert (Hvar : forall y, In y (f_scope fd) -> is_var y = true /\ 0 < dom_of G y).
    { intros y Hy. apply Hincl in Hy. apply (var_lookup G Hwf) in Hy as [vd Hv].
      unfold is_var, dom_of. rewrite Hv. split; auto. apply (Hdom y vd). now apply zlookup_In. }
    assert (Hfnv : is_var f = false).
    { unfold is_var. now rewrite (fac_not_var G Hwf f fd Hin). }
    assert (Hown : forall s, own s f = f_cost fd (map s (f_scope fd))).
    { intros s. unfold own. rewrite (fac_not_var G Hwf f fd Hin).
      rewrite (In_zlookup f fd (d_facs G) (wf_facs_nodup G Hwf) Hin). reflexivity. }
    assert (Hrecv : forall vf : node -> nat, (forall y, In y os -> vf y < dom_of G y) ->
              (sum_recv recv os (map vf os) == qsum (map (fun y => tget (ty y) (vf y)) os))%Q).
    { intros vf Hvf. unfold sum_recv. rewrite combine_map_r, map_map. apply qsum_map_ext_in.
      intros y Hy. simpl. unfold recv_cost. destruct (Hm y Hy) as [Hl [Hlen _]]. rewrite Hl, Hlen.
      pose proof (Hvf y Hy) as Hlt. apply Nat.ltb_lt in Hlt. rewrite Hlt. reflexivity. }
    assert (Hpos : Forall (fun n => 0 < n) (fcv_others (dom_of G) fd x)).
    { unfold fcv_others. fold i. rewrite Hos. apply Forall_forall. intros n Hn.
      apply in_map_iff in Hn as [y [<- Hy]]. apply Hvar. now apply Hosin. }
    intros d Hd.
    destruct (factor_costs_for_var_spec (dom_of G) mx fd recv x d Hpos Hd) as [_ [Hall Hatt]].
    unfold fcv_others, fcv_cost in Hall, Hatt. fold i in Hall, Hatt. rewrite Hos in Hall, Hatt.
    split.
    - intros s Hvs Hsx.
      assert (Hvf : forall y, In y os -> s y < dom_of G y).
      { intros y Hy. apply valid_dom; auto. apply Hvar. now apply Hosin. }
      specialize (Hall (map s os) (Forall2_map_lt s (dom_of G) os Hvf)).
      assert (Hins : insert_at i d (map s os) = map s (f_scope fd)).
      { rewrite <- Hsx, <- Hos. unfold i. now apply insert_remove. }
      rewrite Hins, <- Hown in Hall.
      eapply ord_trans; [apply ord_plus; [exact Hall | apply ord_refl]|].
      eapply ord_eq; [| reflexivity |
        apply (ord_plus mx (own s f) (own s f) (qsum (map (fun y => tget (ty y) (s y) + Ky y) os)%Q)
                 (qsum (map (fun y => SC h y f s) os)));
        [apply ord_refl | apply ord_sum; intros y Hy; destruct (Hm y Hy) as [_ [_ Hmy]];
                          apply (Hmy (s y) (Hvf y Hy)); auto]].
      rewrite (Hrecv s Hvf), qsum_map_plus. ring.
    - destruct Hatt as [a [Ha He]].
      set (vf := fun y => nth (index_of y os) a 0).
      assert (Hmap : map vf os = a).
      { apply map_nth_index; [apply others_nodup|]. apply Forall2_length in Ha. now rewrite map_length in Ha. }
      rewrite <- Hmap in Ha, He.
      pose proof (Forall2_map_lt_inv vf (dom_of G) os Ha) as Hvf.
      destruct (glue h f x d os (fun y s => s y = vf y /\ (tget (ty y) (vf y) + Ky y == SC h y f s)%Q) Hnd Hx)
        as [s [Hvs [Hsx Hq]]].
      + intros vd Hv. unfold dom_of in Hd. now rewrite Hv in Hd.
      + intros y s s' Hy Hag Hxx [Hq1 Hq2]. split.
        * rewrite <- (Hag y (low_head h y f (Hlow y Hy))). exact Hq1.
        * rewrite <- (SC_dep h y f s s' (Hlow y Hy) Hag); [exact Hq2|]. rewrite Hfnv. discriminate.
      + intros y Hy. destruct (Hm y Hy) as [_ [_ Hmy]]. destruct (Hmy (vf y) (Hvf y Hy)) as [_ [s0 [Hv0 [Hy0 He0]]]].
        exists (fun z => if Z.eqb z x then d else s0 z). split; [|split; [|split]].
        * intros z vd Hv. destruct (Z.eqb_spec z x) as [->|_]; [|now apply Hv0].
          unfold dom_of in Hd. now rewrite Hv in Hd.
        * now rewrite Z.eqb_refl.
        * destruct (Z.eqb_spec y x) as [->|_]; [exfalso; now apply (Hosin x Hy)|]. exact Hy0.
        * rewrite <- (SC_dep h y f s0 _ (Hlow y Hy)); [exact He0 | | rewrite Hfnv; discriminate].
          intros z Hz. destruct (Z.eqb_spec z x) as [->|_]; [|reflexivity].
          exfalso. apply Hx. apply in_flat_map. exists y. auto.
      + exists s. split; [exact Hvs|]. split; [exact Hsx|].
        assert (Hms : map s os = map vf os).
        { apply map_ext_in. intros y Hy. apply (Hq y Hy). }
        assert (Hins : insert_at i d (map vf os) = map s (f_scope fd)).
        { rewrite <- Hms, <- Hsx, <- Hos. unfold i. now apply insert_remove. }
        rewrite Hins, <- Hown in He. rewrite He, (Hrecv vf Hvf).
        rewrite <- Qplus_assoc, <- qsum_map_plus. apply Qplus_comp; [reflexivity|].
        apply qsum_map_ext_in. intros y Hy. apply (Hq y Hy).
  Qed.
End Tree.

(* ================================================================== the messages of the lock-step rounds *)
Lemma cff_others_map fs c f (tg : node -> table) :
  (forall g, In g fs -> g <> f -> zlookup g c = Some (tg g)) ->
  cff_others fs c f = map tg (filter (fun g => negb (Z.eqb g f)) fs).
Proof.
  unfold cff_others. induction fs as [|g r IH]; intros H; simpl; [reflexivity|].
  destruct (Z.eqb_spec g f) as [->|Hne]; simpl.
  - apply IH. intros g' Hg'. apply H. right; exact Hg'.
  - rewrite (H g (or_introl eq_refl) Hne). simpl. f_equal. apply IH. intros g' Hg'. apply H. right; exact Hg'.
Qed.

Lemma col_map (tg : node -> table) os d : (forall g, In g os -> d < length (tg g)) ->
  (col (map tg os) d == qsum (map (fun g => tget (tg g) d) os))%Q.
Proof.
  intros H. unfold col. rewrite map_map. apply qsum_map_ext_in. intros g Hg.
  pose proof (H g Hg) as Hlt. apply Nat.ltb_lt in Hlt. rewrite Hlt. reflexivity.
Qed.

Definition cff_avg (vd : vdef) (factors : list node) (costs : list (node * table)) (f : node) : Q :=
  (qsum (map (col (cff_others factors costs f)) (seq 0 (v_dom vd))) / inject_Z (Z.of_nat (v_dom vd)))%Q.

Lemma cff_tget vd fs c f d : d < v_dom vd ->
  (tget (costs_for_factor vd fs c f) d == unary vd d + col (cff_others fs c f) d - cff_avg vd fs c f)%Q.
Proof.
  intros Hd. unfold costs_for_factor, tget, cff_avg. rewrite nth_map_seq by auto. apply Qred_correct.
Qed.

Section TreeRounds.
  Variable P : params.
  Variable G : dcop.
  Hypothesis Hwf : wf_dcop G.
  Hypothesis Hdom : forall x vd, In (x, vd) (d_vars G) -> 0 < v_dom vd.
  Hypothesis Hstab : (p_stab P == 0)%Q.
  Hypothesis Hdamp : (p_damp P == 0)%Q.
  Notation mx := (p_max P).

  (* the variable end of the edge a-b *)
  Definition xv (a b : node) : node := if is_var G a then a else b.

  (* the additive constant: the normalisations (average subtracted by costs_for_factor) met in the subtree *)
  Definition norm (k : nat) (a b : node) : Q :=
    match zlookup a (d_vars G) with
    | Some vd => cff_avg vd (factors_of G a) (costs_at P G k a) b
    | None => 0%Q
    end.
  Fixpoint KK (h k : nat) (a b : node) : Q :=
    match h with
    | O => 0%Q
    | S h' => (norm k a b + qsum (map (fun c => KK h' (pred k) c a) (others G a b)))%Q
    end.

  (* MESSAGES ON A TREE: if the part of the factor graph behind a->b is a tree of height <= h (closed,
     repetition-free unrolling), then in every round k >= h-1 the table a computes for b is the exact
     min/max-marginal of the cost of that part on the edge's variable, up to the constant KK *)
  Theorem tree_messages_l : forall h a b k, In b (nbrs G a) -> low G h a b = true ->
    NoDup (SN G h a b) -> ~ In b (SN G h a b) -> h <= S k ->
    length (T P G k a b) = dom_of G (xv a b) /\
    is_margf P G (xv a b) (dom_of G (xv a b)) (fun d => tget (T P G k a b) d + KK h k a b)%Q (SC G h a b).
  Proof.
    pose proof (maxsum_graph_ok_l G Hwf) as [Hgnd [Hsym Hirr]].
    induction h as [|h IH]; intros a b k Hb Hl Hnd Hbn Hk; [discriminate|].
    simpl in Hl, Hnd, Hbn. rewrite forallb_forall in Hl.
    inversion Hnd as [|? ? Han Hndf]; subst.
    (* the branches *)
    assert (Hbr : forall c, In c (others G a b) ->
              zlookup c (costs_at P G k a) = Some (T P G (pred k) c a) /\
              length (T P G (pred k) c a) = dom_of G (xv c a) /\
              is_margf P G (xv c a) (dom_of G (xv c a))
                (fun d => tget (T P G (pred k) c a) d + KK h (pred k) c a)%Q (SC G h c a)).
    { intros c Hc. pose proof (Hl c Hc) as Hlc. apply others_In in Hc as Hc'. destruct Hc' as [Hca Hcb].
      destruct h as [|h']; [discriminate|]. destruct k as [|k']; [lia|]. simpl pred.
      split; [apply (view_spec P G Hwf Hstab Hdamp k' c a); now apply Hsym|].
      apply IH; [now apply Hsym | exact Hlc
                | exact (NoDup_flat_map_in (fun c => SN G (S h') c a) (others G a b) c Hndf Hc) | | lia].
      intros Hc2. apply Han. apply in_flat_map. exists c. auto. }
    destruct (nbrs_cases G a) as [[vd [Hv Hn]]|[[fd [Hnv [Hf [Hin Hn]]]]|[_ [_ Hn]]]].
    - (* a variable *)
      assert (Hxa : xv a b = a) by (unfold xv, is_var; now rewrite Hv).
      assert (Hda : dom_of G a = v_dom vd) by (unfold dom_of; now rewrite Hv).
      assert (HT : T P G k a b = costs_for_factor vd (factors_of G a) (costs_at P G k a) b).
      { unfold T, comp_table. now rewrite Hv. }
      assert (Hxc : forall c, In c (others G a b) -> xv c a = a).
      { intros c Hc. apply others_In in Hc as [Hca _]. rewrite Hn in Hca.
        apply (factors_of_In G) in Hca as [fd [Hin _]]. unfold xv, is_var.
        now rewrite (fac_not_var G Hwf c fd Hin). }
      rewrite Hxa, Hda, HT. split; [apply costs_for_factor_shift|].
      eapply is_margf_ext; [| |
        apply (var_step P G Hwf Hdom a vd h (others G a b) (fun c => T P G (pred k) c a)
                 (fun c => KK h (pred k) c a) Hv Hl Hndf Han)].
      + intros d Hd. cbv beta.
        change (KK (S h) k a b) with (norm k a b + qsum (map (fun c => KK h (pred k) c a) (others G a b)))%Q.
        rewrite cff_tget by auto. unfold norm, cff_avg. rewrite Hv.
        rewrite (cff_others_map (factors_of G a) (costs_at P G k a) b (fun c => T P G (pred k) c a)).
        2:{ intros g Hg Hgb. apply Hbr. apply others_In. rewrite Hn. auto. }
        rewrite <- Hn. fold (others G a b).
        rewrite col_map.
        2:{ intros g Hg. destruct (Hbr g Hg) as [_ [Hlen _]]. rewrite Hlen, (Hxc g Hg), Hda. exact Hd. }
        rewrite qsum_map_plus.
        match goal with |- context [(?u / ?v)%Q] => generalize (u / v)%Q; intro AVG end.
        ring.
      + intros s. symmetry. apply SC_S.
      + intros g Hg. destruct (Hbr g Hg) as [_ [_ Hm]]. rewrite (Hxc g Hg), Hda in Hm. exact Hm.
    - (* a factor *)
      assert (Hxa : xv a b = b) by (unfold xv, is_var; now rewrite Hnv).
      assert (HT : T P G k a b = factor_costs_for_var (dom_of G) mx fd (costs_at P G k a) b).
      { unfold T, comp_table. now rewrite Hnv, Hf. }
      assert (Hbs : In b (f_scope fd)) by now rewrite <- Hn.
      assert (Hxc : forall c, In c (others G a b) -> xv c a = c).
      { intros c Hc. apply others_In in Hc as [Hca _]. rewrite Hn in Hca.
        destruct Hwf as [_ Hsc]. destruct (Hsc a fd Hin) as [_ Hincl]. apply Hincl in Hca.
        apply (var_lookup G Hwf) in Hca as [vd Hv]. unfold xv, is_var. now rewrite Hv. }
      rewrite Hxa, HT. split; [unfold factor_costs_for_var; now rewrite map_length, seq_length|].
      eapply is_margf_ext; [| |
        apply (fac_step P G Hwf Hdom a fd b h (costs_at P G k a) (fun c => T P G (pred k) c a)
                 (fun c => KK h (pred k) c a) Hin Hbs Hl Hndf)].
      + intros d Hd. simpl. unfold norm. rewrite Hnv. ring.
      + intros s. symmetry. apply SC_S.
      + intros Hc. apply Hbn. right; exact Hc.
      + intros y Hy. destruct (Hbr y Hy) as [H1 [H2 H3]]. rewrite (Hxc y Hy) in H2, H3. auto.
    - rewrite Hn in Hb. contradiction.
  Qed.
End TreeRounds.

(* ================================================================== value selection at the root *)
Lemma filter_id {X} (f : X -> bool) l : (forall c, In c l -> f c = true) -> filter f l = l.
Proof.
  induction l as [|c l IH]; simpl; intros H; [reflexivity|].
  rewrite (H c (or_introl eq_refl)). f_equal. apply IH. intros y Hy. apply H. right; exact Hy.
Qed.

Lemma zlookup_map_pairs {V} (F : node -> V) L a :
  zlookup a (map (fun g => (g, F g)) L) = if zmem a L then Some (F a) else None.
Proof.
  unfold zlookup, zmem. induction L as [|g L IH]; simpl; [reflexivity|].
  destruct (Z.eqb_spec a g) as [->|Hne]; simpl; auto.
Qed.

Lemma nth_index_map (s : node -> nat) y l : In y l -> nth (index_of y l) (map s l) 0 = s y.
Proof.
  induction l as [|z r IH]; intros Hin; [contradiction|]. simpl.
  destruct (Z.eqb_spec y z) as [->|Hne]; [reflexivity|]. destruct Hin as [Hin|Hin]; [congruence|]. now apply IH.
Qed.

Lemma qsum_split (F : node -> Q) L S : NoDup L -> NoDup S -> incl S L ->
  (qsum (map F L) == qsum (map F S) + qsum (map F (filter (fun n => negb (zmem n S)) L)))%Q.
Proof.
  intros HL HS Hincl. rewrite <- qsum_app, <- map_app. apply qsum_perm. apply Permutation_map.
  apply NoDup_Permutation; auto.
  - apply NoDup_app_intro; auto.
    + now apply NoDup_filter.
    + intros y Hy1 Hy2. apply filter_In in Hy2 as [_ Hy2]. apply zmem_In in Hy1. rewrite Hy1 in Hy2. discriminate.
  - intros y. rewrite in_app_iff, filter_In. split.
    + intros Hy. destruct (zmem y S) eqn:E; [left; now apply zmem_In | right; auto].
    + intros [Hy|[Hy _]]; auto.
Qed.

Section Exact.
  Variable P : params.
  Variable G : dcop.
  Hypothesis Hwf : wf_dcop G.
  Hypothesis Hdom : forall x vd, In (x, vd) (d_vars G) -> 0 < v_dom vd.
  Notation mx := (p_max P).

  Lemma others_self x : others G x x = nbrs G x.
  Proof.
    unfold others. apply filter_id. intros c Hc. apply negb_true_iff. apply Z.eqb_neq. intros ->.
    now apply (maxsum_graph_ok_l G Hwf) in Hc.
  Qed.

  (* the belief of a variable whose branches all deliver exact marginals is the exact marginal of the cost of
     its whole connected component *)
  Lemma root_marg x vd c H (tg : node -> table) (Kg : node -> Q) :
    zlookup x (d_vars G) = Some vd ->
    NoDup (map fst c) -> incl (map fst c) (nbrs G x) ->
    (forall g, In g (nbrs G x) -> zlookup g c = Some (tg g) /\
        is_margf P G x (v_dom vd) (fun d => tget (tg g) d + Kg g)%Q (SC G H g x)) ->
    low G (S H) x x = true -> NoDup (SN G (S H) x x) ->
    is_margf P G x (v_dom vd) (fun d => belief vd c d + qsum (map Kg (nbrs G x)))%Q (SC G (S H) x x).
  Proof.
    intros Hv Hnd Hincl Hm Hl Hsn.
    simpl in Hl, Hsn. rewrite others_self in Hl, Hsn. rewrite forallb_forall in Hl.
    inversion Hsn as [|? ? Hxn Hndf]; subst.
    eapply is_margf_ext; [| | apply (var_step P G Hwf Hdom x vd H (nbrs G x) tg Kg Hv Hl Hndf Hxn)].
    - intros d Hd. cbv beta. rewrite qsum_map_plus.
      assert (Hb : (belief vd c d == unary vd d + qsum (map (fun g => tget (tg g) d) (nbrs G x)))%Q).
      { rewrite (belief_equiv vd c (map (fun g => (g, tg g)) (nbrs G x)) d Hnd).
        - unfold belief. rewrite map_map. reflexivity.
        - rewrite map_fst_pairs. apply (maxsum_graph_ok_l G Hwf).
        - intros a. rewrite zlookup_map_pairs. destruct (zmem a (nbrs G x)) eqn:E.
          + apply zmem_In in E. apply (Hm a E).
          + apply zlookup_notin. intros Hc. apply Hincl in Hc. apply zmem_In in Hc. congruence. }
      rewrite Hb. ring.
    - intros s. rewrite SC_S, others_self. reflexivity.
    - intros g Hg. apply (Hm g Hg).
  Qed.

  (* ---------------------------------------------------------------- total cost = component + rest *)
  Definition tot (s : asg) : Q := qsum (map (own G s) (all_nodes G)).

  Lemma own_fac s f fd : In (f, fd) (d_facs G) -> own G s f = f_cost fd (map s (f_scope fd)).
  Proof.
    intros Hin. unfold own. rewrite (fac_not_var G Hwf f fd Hin).
    rewrite (In_zlookup f fd (d_facs G) (wf_facs_nodup G Hwf) Hin). reflexivity.
  Qed.

  Lemma total_cost_own s : (total_cost G (map s (var_ids G)) == tot s)%Q.
  Proof.
    unfold total_cost, tot, all_nodes. rewrite map_app, qsum_app. apply Qplus_comp.
    - unfold var_ids.
      assert (Hgen : forall l, (forall x vd, In (x, vd) l -> zlookup x (d_vars G) = Some vd) ->
                (qsum (map (fun xv => unary (snd (fst xv)) (snd xv)) (combine l (map s (map fst l))))
                 == qsum (map (own G s) (map fst l)))%Q).
      { induction l as [|[x vd] r IH]; intros Hl; simpl; [reflexivity|].
        rewrite IH by (intros y vy Hy; apply Hl; right; exact Hy).
        unfold own at 2. rewrite (Hl x vd (or_introl eq_refl)). reflexivity. }
      apply Hgen. intros x vd Hin. apply In_zlookup; auto. apply (wf_vars_nodup G Hwf).
    - rewrite map_map. apply qsum_map_ext_in. intros [f fd] Hin. simpl.
      rewrite (own_fac s f fd Hin).
      assert (map (val_of G (map s (var_ids G))) (f_scope fd) = map s (f_scope fd)) as ->; [|reflexivity].
      apply map_ext_in. intros y Hy.
      destruct Hwf as [_ Hsc]. destruct (Hsc f fd Hin) as [_ Hincl].
      unfold val_of. apply nth_index_map. now apply Hincl.
  Qed.

  Lemma nbrs_in_nodes a c : In c (nbrs G a) -> In c (all_nodes G).
  Proof.
    intros Hc. unfold all_nodes. apply in_or_app.
    destruct (nbrs_cases G a) as [[vd [Hv Hn]]|[[fd [Hnv [Hf [Hin Hn]]]]|[_ [_ Hn]]]]; rewrite Hn in Hc.
    - right. apply (factors_of_In G) in Hc as [fd [Hin _]]. apply in_map_iff. exists (c, fd). auto.
    - left. destruct Hwf as [_ Hsc]. destruct (Hsc a fd Hin) as [_ Hincl]. now apply Hincl.
    - contradiction.
  Qed.

  Lemma SN_incl h : forall a b, In a (all_nodes G) -> incl (SN G h a b) (all_nodes G).
  Proof.
    induction h as [|h IH]; intros a b Ha y Hy; [contradiction|]. simpl in Hy.
    destruct Hy as [<-|Hy]; auto. apply in_flat_map in Hy as [c [Hc Hy]].
    apply (IH c a); auto. apply others_In in Hc as [Hc _]. now apply nbrs_in_nodes in Hc.
  Qed.

  (* ---------------------------------------------------------------- assignments: lists <-> functions *)
  Lemma valid_to_list s : valid G s -> valid_assignment G (map s (var_ids G)).
  Proof.
    intros Hv. unfold valid_assignment, var_ids.
    assert (Hgen : forall l, (forall x vd, In (x, vd) l -> s x < v_dom vd) ->
              Forall2 (fun v n => v < n) (map s (map fst l)) (map (fun xv => v_dom (snd xv)) l)).
    { induction l as [|[x vd] r IH]; intros Hl; simpl; constructor.
      - apply (Hl x vd). left; reflexivity.
      - apply IH. intros y vy Hy. apply Hl. right; exact Hy. }
    apply Hgen. intros x vd Hin. apply Hv. apply In_zlookup; auto. apply (wf_vars_nodup G Hwf).
  Qed.

  Lemma list_to_valid a : valid_assignment G a ->
    valid G (val_of G a) /\ map (val_of G a) (var_ids G) = a.
  Proof.
    intros Ha. unfold valid_assignment in Ha. split.
    - intros x vd Hv. apply zlookup_In in Hv. unfold val_of, var_ids.
      pose proof (wf_vars_nodup G Hwf) as Hnd. revert a Ha Hnd Hv.
      induction (d_vars G) as [|[y vy] r IH]; intros a Ha Hnd Hv; [contradiction|].
      simpl in Ha, Hnd. inversion Ha as [|v n a' l' Hvn Ha']; subst. inversion Hnd as [|? ? Hnin Hnd']; subst.
      simpl. destruct (Z.eqb_spec x y) as [->|Hne].
      + destruct Hv as [Hv|Hv]; [inversion Hv; subst; exact Hvn|].
        exfalso. apply Hnin. apply in_map_iff. exists (y, vd). auto.
      + destruct Hv as [Hv|Hv]; [inversion Hv; congruence|]. simpl. apply IH; auto.
        intros x0 vd0 H0. apply (Hdom x0 vd0). right; exact H0.
    - unfold val_of. apply map_nth_index.
      + apply (wf_vars_nodup G Hwf).
      + apply Forall2_length in Ha. rewrite map_length in Ha. unfold var_ids. now rewrite map_length.
  Qed.

  (* ---------------------------------------------------------------- THE SELECTION IS THE OPTIMUM *)
  Lemma root_select x vd c H (tg : node -> table) (Kg : node -> Q) a :
    zlookup x (d_vars G) = Some vd ->
    NoDup (map fst c) -> incl (map fst c) (nbrs G x) ->
    (forall g, In g (nbrs G x) -> zlookup g c = Some (tg g) /\
        is_margf P G x (v_dom vd) (fun d => tget (tg g) d + Kg g)%Q (SC G H g x)) ->
    low G (S H) x x = true -> NoDup (SN G (S H) x x) ->
    unique_optimum mx G a ->
    fst (select_value mx vd c) = val_of G a x.
  Proof.
    intros Hv Hnd Hincl Hbr Hl Hsn [Hva Huniq].
    pose proof (root_marg x vd c H tg Kg Hv Hnd Hincl Hbr Hl Hsn) as Hm.
    set (K := qsum (map Kg (nbrs G x))) in *.
    destruct (list_to_valid a Hva) as [Hvs Hmap]. set (ss := val_of G a) in *.
    assert (Hdx : 0 < v_dom vd) by (apply (Hdom x vd); now apply zlookup_In).
    pose proof (select_value_spec mx vd c Hdx) as Hsel.
    destruct (select_value mx vd c) as [d0 c0]. simpl. destruct Hsel as [Hd0 [_ Hbest]].
    destruct (Nat.eq_dec d0 (ss x)) as [|Hne]; auto. exfalso.
    assert (Hds : ss x < v_dom vd) by now apply Hvs.
    destruct (Hm d0 Hd0) as [_ [s0 [Hv0 [Hx0 He0]]]].
    destruct (Hm (ss x) Hds) as [Hlow _]. specialize (Hlow ss Hvs eq_refl).
    specialize (Hbest (ss x) Hds).
    set (Comp := SN G (S H) x x) in *.
    set (s' := fun z => if zmem z Comp then s0 z else ss z).
    assert (Hxc : In x Comp) by (left; reflexivity).
    assert (Hv' : valid G s').
    { intros z vz Hz. unfold s'. destruct (zmem z Comp); [now apply Hv0 | now apply Hvs]. }
    assert (Hrc : SC G (S H) x x s' = SC G (S H) x x s0).
    { apply (SC_dep G Hwf); auto.
      - intros z Hz. unfold s'. apply zmem_In in Hz. fold Comp in Hz. now rewrite Hz.
      - intros _. unfold s'. apply zmem_In in Hxc. now rewrite Hxc. }
    set (Rest := fun s : asg => qsum (map (own G s) (filter (fun n => negb (zmem n Comp)) (all_nodes G)))).
    assert (Hrest : Rest s' = Rest ss).
    { unfold Rest. f_equal. apply map_ext_in. intros n Hn. apply filter_In in Hn as [Hn Hnc].
      apply negb_true_iff in Hnc.
      assert (Hz : forall z, zmem z Comp = false -> s' z = ss z) by (intros z Hz; unfold s'; now rewrite Hz).
      unfold own. destruct (zlookup n (d_vars G)) as [vn|] eqn:Evn; [now rewrite Hz|].
      destruct (zlookup n (d_facs G)) as [fd|] eqn:Ef; [|reflexivity].
      f_equal. apply map_ext_in. intros y Hy. apply Hz.
      destruct (zmem y Comp) eqn:Ey; auto. exfalso. apply zmem_In in Ey.
      assert (Hin : In (n, fd) (d_facs G)) by now apply zlookup_In.
      assert (Hny : In n (nbrs G y)).
      { apply (maxsum_graph_ok_l G Hwf). rewrite (nbrs_fac G Hwf n fd Hin). exact Hy. }
      destruct (SN_closed G (S H) x x y n Hl Ey Hny) as [Hc|[_ Hc]].
      - apply zmem_In in Hc. fold Comp in Hc. congruence.
      - subst n. congruence. }
    assert (Hsplit : forall s, (tot s == SC G (S H) x x s + Rest s)%Q).
    { intros s. unfold tot, SC, Rest. apply qsum_split; auto.
      - apply Hwf.
      - apply SN_incl. unfold all_nodes. apply in_or_app. left. eapply zlookup_keys; eauto. }
    assert (Hord : ord mx (tot s') (tot ss)).
    { eapply ord_eq; [symmetry; apply Hsplit | symmetry; apply Hsplit |].
      rewrite Hrc, Hrest. apply ord_plus; [|apply ord_refl].
      eapply ord_eq; [exact He0 | reflexivity |].
      eapply ord_trans; [|exact Hlow]. apply ord_plus; [exact Hbest | apply ord_refl]. }
    assert (Hnea : map s' (var_ids G) <> a).
    { intros Hc. apply Hne. rewrite <- Hx0.
      assert (Hxv : In x (var_ids G)) by (eapply zlookup_keys; eauto).
      replace (s0 x) with (s' x) by (unfold s'; apply zmem_In in Hxc; now rewrite Hxc).
      rewrite <- (nth_index_map s' x (var_ids G) Hxv).
      transitivity (nth (index_of x (var_ids G)) a 0); [f_equal; exact Hc | reflexivity]. }
    specialize (Huniq _ (valid_to_list s' Hv') Hnea).
    assert (Hta : (total_cost G a == tot ss)%Q) by (rewrite <- Hmap at 1; apply total_cost_own).
    pose proof (total_cost_own s') as Hts. revert Hord Huniq.
    destruct (p_max P); simpl; intros Hord Huniq; rewrite Hta, Hts in Huniq;
      apply (Qlt_not_le _ _ Huniq); exact Hord.
  Qed.
End Exact.
