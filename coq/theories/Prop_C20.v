(* Prop_C20.v -- C20: discovery views converge to the directory for subscribed items.

   Full statement (properties.jsonl): for any history of registrations, un-registrations, replica
   publications and (un)subscriptions and any delivery order, once messages are drained every
   agent's view agrees with the directory on each agent, computation and replica it is still
   subscribed to, and subscription callbacks have fired for each change.

   The faithful model of discovery.py does not satisfy this in full (three witnesses below, each a
   recorded finding).  What is proved, for ALL histories, subscribers, start orders and schedules:
   the computation sub-protocol in its positive form (what the directory lists, the subscriber has)
   under the exact guard that the directory holds an address for the hosting agent, for every
   history made of any operations except unregister_agent, register_computation without an
   address and unregister_computation naming an agent; and, per handler, that a notification which changes the view fires every callback
   registered for the item.  Agents and replicas are covered by the correspondence run and the
   Python oracle only.  Statements only; each closed by a lemma of P_Discovery. *)
From PyDcop Require Import Base Net M_Discovery P_Discovery.
From PyDcop Require Import P_Discovery2 P_Discovery2A P_Discovery2R P_Discovery2C P_Discovery2T.
From PyDcop Require Import P_Discovery3C P_Discovery3T P_Discovery3N.

(* In-flight invariant (DESIGN: disc_inv), computations: in every configuration reached, for
   subscriber a and every computation c the directory lists on g: either the last notification
   about c travelling to a says g, or none travels and a's view says g, or a publication of a's own
   about c is still travelling to the directory. *)
Theorem disc_comp_inv_partial : forall (h : hist_t) (a : Z) (ns : list node) (sched : list (@action)),
  (forall k o, In o (hist_of h k) -> frag o = true) -> 0 < a -> In 0 ns -> In a ns ->
  let P := disc_proto h in
  let cf0 := fst (exec P (init P) (map (@Start) ns)) in
  guard_along h cf0 sched ->
  INV a (fst (exec P cf0 sched)).
Proof. exact disc_comp_inv_l. Qed.

(* Convergence (DESIGN: disc_converges), computations, positive form: when nothing travels between
   a and the directory, a's view of every computation it is subscribed to is the directory's. *)
Theorem disc_comp_converges_partial : forall (h : hist_t) (a : Z) (ns : list node) (sched : list (@action)),
  (forall k o, In o (hist_of h k) -> frag o = true) -> 0 < a -> In 0 ns -> In a ns ->
  let P := disc_proto h in
  let cf0 := fst (exec P (init P) (map (@Start) ns)) in
  guard_along h cf0 sched ->
  let cf := fst (exec P cf0 sched) in
  forall c g,
    In a (sm_get c (g_sub_comps (n_dir (w_st (nodes cf 0))))) ->
    zlookup c (g_comps (n_dir (w_st (nodes cf 0)))) = Some g ->
    chan cf 0 a = [] -> chan cf a 0 = [] ->
    zlookup c (d_comps (n_disc (w_st (nodes cf a)))) = Some g.
Proof. exact disc_comp_converges_l. Qed.

(* the guard can be checked by computation *)
Theorem guard_check_sound : forall h sched cf, guard_alongb h cf sched = true -> guard_along h cf sched.
Proof. exact guard_alongb_sound. Qed.

(* Callbacks (DESIGN: callbacks_fired), per notification handler, any state: a notification that
   changes the entry fires every callback registered for the item. *)
Theorem callbacks_computation_added_partial : forall s c g ad l cb os,
  zlookup c (d_comps s) <> Some g -> zlookup c (d_ccbs s) = Some l -> In (cb, os) l ->
  In (EvCb (d_own s) cb 3 c (Some g)) (snd (fst (disc_recv s (MPubComp c g (Some ad))))).
Proof. exact cb_computation_added_l. Qed.

Theorem callbacks_computation_removed_partial : forall s c k ag l cb os,
  zlookup c (d_comps s) = Some k -> (ag = None \/ ag = Some k) ->
  zlookup c (d_ccbs s) = Some l -> In (cb, os) l ->
  In (EvCb (d_own s) cb 4 c ag) (snd (fst (disc_recv s (MUnpubComp c ag)))).
Proof. exact cb_computation_removed_l. Qed.

Theorem callbacks_agent_added_partial : forall s x ad,
  zlookup x (d_agents s) <> Some ad ->
  (forall l cb os, zlookup x (d_acbs s) = Some l -> In (cb, os) l ->
     In (EvCb (d_own s) cb 1 x (Some ad)) (snd (fst (disc_recv s (MPubAgent x ad))))) /\
  (forall cb, In cb (d_allcbs s) -> In (EvCb (d_own s) cb 1 x (Some ad)) (snd (fst (disc_recv s (MPubAgent x ad))))).
Proof. exact cb_agent_added_l. Qed.

Theorem callbacks_replica_added_partial : forall s r g l cb os,
  zmemk r (d_comps s) = true -> ~ In g (get_or_nil r (d_reps s)) ->
  zlookup r (d_rcbs s) = Some l -> In (cb, os) l ->
  In (EvCb (d_own s) cb 5 r (Some g)) (snd (fst (disc_recv s (MPubRep r g true)))).
Proof. exact cb_replica_added_l. Qed.

(* The unguarded / full statements are false of the model: *)
Theorem converges_unguarded_refuted :
  exists h a ns sched c g, fragb h = true /\ 0 < a /\ In 0 ns /\ In a ns /\
    let cf := run_from h ns sched in
    quietb cf ns = true /\
    In a (sm_get c (g_sub_comps (n_dir (w_st (nodes cf 0))))) /\
    zlookup c (g_comps (n_dir (w_st (nodes cf 0)))) = Some g /\
    zlookup c (d_comps (n_disc (w_st (nodes cf a)))) = None.
Proof. exact converges_unguarded_refuted_l. Qed.

Theorem removal_agreement_refuted :
  exists h a ns sched c g, fragb h = true /\ 0 < a /\ In 0 ns /\ In a ns /\
    guard_alongb h (run_from h ns []) sched = true /\
    let cf := run_from h ns sched in
    quietb cf ns = true /\
    In a (sm_get c (g_sub_comps (n_dir (w_st (nodes cf 0))))) /\
    zlookup c (g_comps (n_dir (w_st (nodes cf 0)))) = None /\
    zlookup c (d_comps (n_disc (w_st (nodes cf a)))) = Some g.
Proof. exact removal_agreement_refuted_l. Qed.

Theorem replica_agreement_refuted :
  exists h a ns sched r g, fragb h = true /\ 0 < a /\ In 0 ns /\ In a ns /\
    let cf := run_from h ns sched in
    quietb cf ns = true /\
    In a (sm_get r (g_sub_reps (n_dir (w_st (nodes cf 0))))) /\
    In g (get_or_nil r (d_reps (n_disc (w_st (nodes cf 0))))) /\
    get_or_nil r (d_reps (n_disc (w_st (nodes cf a)))) = [].
Proof. exact replica_agreement_refuted_l. Qed.

(* non-vacuity: a history and schedule meeting every hypothesis of disc_comp_converges_partial
   (fragment, guard along the whole schedule, subscriber 2 subscribed, directory lists 0 -> 1,
   nothing in flight), the conclusion, and the callback 7 fired with computation_added *)
Example c20_nonvacuous :
  fragb ok_h = true /\ guard_alongb ok_h (run_from ok_h w1_ns []) ok_sched = true /\
  let cf := run_from ok_h w1_ns ok_sched in
  In 2 (sm_get 0 (g_sub_comps (n_dir (w_st (nodes cf 0))))) /\
  zlookup 0 (g_comps (n_dir (w_st (nodes cf 0)))) = Some 1 /\
  chan cf 0 2 = [] /\ chan cf 2 0 = [] /\
  zlookup 0 (d_comps (n_disc (w_st (nodes cf 2)))) = Some 1 /\
  snd (exec (disc_proto ok_h) (run_from ok_h w1_ns []) ok_sched) = [EvCb 2 7 3 0 (Some 1)].
Proof. vm_compute. repeat split; auto. Qed.

(* ====================================================================== Deepening (P_Discovery2*.v)
   The in-flight invariant is now stated with "replay": what the FIFO of pending notifications makes
   of the subscriber's entry ([Jg] in P_Discovery2: replaying chan 0->a on a's entry gives the
   directory's value, or a publication of a's own that the directory will act on still travels).
   Agents and replicas: EVERY history (no operation excluded), guards = exact negations of the recorded
   findings, stated on single steps ([along h G cf sched] : G holds before every action). *)

(* Agents, in-flight invariant: [Base] (nodes 0 and a run, channel typing, directory-node invariants)
   and [IA] = for every agent x that a is subscribed to (by name, or by '*' for x <> orchestrator) and
   the directory lists at ad: replay of chan 0->a on a's entry for x = ad, or a publish/unpublish of x
   by a travels to the directory.  Guard [GA]: the directory is not about to refuse an
   un-registration published by a (finding C20-unregister-agent-refused). *)
Theorem disc_agent_inv : forall (h : hist_t) (a : Z) (ns : list node) (sched : list (@action)),
  0 < a -> In 0 ns -> In a ns ->
  let P := disc_proto h in
  let cf0 := fst (exec P (init P) (map (@Start) ns)) in
  along h (GA a) cf0 sched ->
  Base a (fst (exec P cf0 sched)) /\ IA a (fst (exec P cf0 sched)).
Proof. exact disc_agent_inv_l. Qed.

(* Agents, convergence (positive form): nothing travels between a and the directory => a's address
   for every agent it is subscribed to and the directory lists is the directory's. *)
Theorem disc_agent_converges : forall (h : hist_t) (a : Z) (ns : list node) (sched : list (@action)),
  0 < a -> In 0 ns -> In a ns ->
  let P := disc_proto h in
  let cf0 := fst (exec P (init P) (map (@Start) ns)) in
  along h (GA a) cf0 sched ->
  let cf := fst (exec P cf0 sched) in
  forall x ad,
    In a (sm_get x (g_sub_agents (n_dir (w_st (nodes cf 0))))) \/
      (In a (g_sub_all (n_dir (w_st (nodes cf 0)))) /\ x <> 0) ->
    zlookup x (g_agents (n_dir (w_st (nodes cf 0)))) = Some ad ->
    chan cf 0 a = [] -> chan cf a 0 = [] ->
    zlookup x (d_agents (n_disc (w_st (nodes cf a)))) = Some ad.
Proof. exact disc_agent_converges_l. Qed.

Theorem agent_guard_check_sound : forall h a sched cf,
  alongb h (GAb a) cf sched = true -> along h (GA a) cf sched.
Proof. intros h a. apply alongb_sound. apply GAb_sound. Qed.

(* without the guard the agent statement is false (finding C20-unregister-agent-refused) *)
Theorem agent_agreement_unguarded_refuted :
  exists h a ns sched x ad, 0 < a /\ In 0 ns /\ In a ns /\
    let cf := run_from h ns sched in
    quietb cf ns = true /\
    In a (sm_get x (g_sub_agents (n_dir (w_st (nodes cf 0))))) /\
    zlookup x (g_agents (n_dir (w_st (nodes cf 0)))) = Some ad /\
    zlookup x (d_agents (n_disc (w_st (nodes cf a)))) = None.
Proof. exact agent_agreement_unguarded_refuted_l. Qed.

(* Replicas, in-flight invariant [IR] (per replica r and holder g: replay of chan 0->a on "g in a's
   replica set of r" gives membership, or a's un-publication of (r,g) / un-subscription of r travels)
   and convergence.  Guard [GR]: no replica handler is about to find the computation unknown -- a when
   it is told of a replica, the directory when a subscribes (finding C20-replica-of-unknown-computation). *)
Theorem disc_replica_inv : forall (h : hist_t) (a : Z) (ns : list node) (sched : list (@action)),
  0 < a -> In 0 ns -> In a ns ->
  let P := disc_proto h in
  let cf0 := fst (exec P (init P) (map (@Start) ns)) in
  along h (GR a) cf0 sched ->
  Base a (fst (exec P cf0 sched)) /\ IR a (fst (exec P cf0 sched)).
Proof. exact disc_replica_inv_l. Qed.

Theorem disc_replica_converges : forall (h : hist_t) (a : Z) (ns : list node) (sched : list (@action)),
  0 < a -> In 0 ns -> In a ns ->
  let P := disc_proto h in
  let cf0 := fst (exec P (init P) (map (@Start) ns)) in
  along h (GR a) cf0 sched ->
  let cf := fst (exec P cf0 sched) in
  forall r g,
    In a (sm_get r (g_sub_reps (n_dir (w_st (nodes cf 0))))) ->
    In g (get_or_nil r (d_reps (n_disc (w_st (nodes cf 0))))) ->
    chan cf 0 a = [] -> chan cf a 0 = [] ->
    In g (get_or_nil r (d_reps (n_disc (w_st (nodes cf a))))).
Proof. exact disc_replica_converges_l. Qed.

Theorem replica_guard_check_sound : forall h a sched cf,
  alongb h (GRb a) cf sched = true -> along h (GR a) cf sched.
Proof. intros h a. apply alongb_sound. apply GRb_sound. Qed.

(* Computations again, now with unregister_computation(c, agent) naming an agent (a stale
   un-publication is consumed by the directory without any notification: the invariant only counts
   own publications the directory will act on, [aboutc2]) and register_computation without address.
   Partial: histories without unregister_agent (its cascade removes computations at the subscriber
   without a computation notification); same guard as disc_comp_converges_partial. *)
Theorem disc_comp2_inv_partial : forall (h : hist_t) (a : Z) (ns : list node) (sched : list (@action)),
  (forall k o, In o (hist_of h k) -> frag2 o = true) -> 0 < a -> In 0 ns -> In a ns ->
  let P := disc_proto h in
  let cf0 := fst (exec P (init P) (map (@Start) ns)) in
  guard_along h cf0 sched ->
  Base a (fst (exec P cf0 sched)) /\ IC a (fst (exec P cf0 sched)).
Proof. exact disc_comp2_inv_l. Qed.

Theorem disc_comp2_converges_partial : forall (h : hist_t) (a : Z) (ns : list node) (sched : list (@action)),
  (forall k o, In o (hist_of h k) -> frag2 o = true) -> 0 < a -> In 0 ns -> In a ns ->
  let P := disc_proto h in
  let cf0 := fst (exec P (init P) (map (@Start) ns)) in
  guard_along h cf0 sched ->
  let cf := fst (exec P cf0 sched) in
  forall c g,
    In a (sm_get c (g_sub_comps (n_dir (w_st (nodes cf 0))))) ->
    zlookup c (g_comps (n_dir (w_st (nodes cf 0)))) = Some g ->
    chan cf 0 a = [] -> chan cf a 0 = [] ->
    zlookup c (d_comps (n_disc (w_st (nodes cf a)))) = Some g.
Proof. exact disc_comp2_converges_l. Qed.

(* Callbacks along a trace (any configuration, any action, any node n > 0): a step that makes n's
   entry for computation c become g produces exactly one computation_added invocation per registration
   in n's table before the step, in registration order, and leaves the table without its one-shot
   registrations.  Partial: computation_added only (agent_added / replica_added are analogous;
   computation_removed and replica_removed do NOT discard one-shot callbacks in discovery.py). *)
Theorem callbacks_trace_computation_added_partial : forall (h : hist_t) (cf : config nst msg) (act : action) (n c g : Z),
  0 < n ->
  let P := disc_proto h in
  let cf' := fst (step P cf act) in
  let d := n_disc (w_st (nodes cf n)) in
  let d' := n_disc (w_st (nodes cf' n)) in
  zlookup c (d_comps d') = Some g -> zlookup c (d_comps d) <> Some g ->
  filter (iscb3 c) (snd (step P cf act)) = fire (d_own d) 3 c (Some g) (get_or_nil c (d_ccbs d)) /\
  zlookup c (d_ccbs d') = option_map drop_oneshot (zlookup c (d_ccbs d)).
Proof. exact callbacks_trace_computation_added_l. Qed.

(* non-vacuity of the three new convergence theorems: hypotheses (guards checked by computation along
   the whole schedule, quiescence, subscription, directory entry) and conclusions *)
Example c20_agents_nonvacuous :
  alongb oka_h (GAb 2) (run_from oka_h w1_ns []) oka_sched = true /\
  alongb oka_h (GAb 1) (run_from oka_h w1_ns []) oka_sched = true /\
  let cf := run_from oka_h w1_ns oka_sched in
  quietb cf w1_ns = true /\
  In 2 (sm_get 3 (g_sub_agents (n_dir (w_st (nodes cf 0))))) /\ In 1 (g_sub_all (n_dir (w_st (nodes cf 0)))) /\
  zlookup 3 (g_agents (n_dir (w_st (nodes cf 0)))) = Some 1004 /\
  zlookup 3 (d_agents (n_disc (w_st (nodes cf 2)))) = Some 1004 /\
  zlookup 3 (d_agents (n_disc (w_st (nodes cf 1)))) = Some 1004.
Proof. vm_compute. repeat split; auto. Qed.

Example c20_replicas_nonvacuous :
  alongb okr_h (GRb 2) (run_from okr_h w1_ns []) okr_sched = true /\
  let cf := run_from okr_h w1_ns okr_sched in
  quietb cf w1_ns = true /\
  In 2 (sm_get 0 (g_sub_reps (n_dir (w_st (nodes cf 0))))) /\
  In 3 (get_or_nil 0 (d_reps (n_disc (w_st (nodes cf 0))))) /\
  In 3 (get_or_nil 0 (d_reps (n_disc (w_st (nodes cf 2))))).
Proof. vm_compute. repeat split; auto. Qed.

(* the stale named un-publication of agent 1 is ignored by the directory; 1 re-subscribes and agrees *)
Example c20_comp2_nonvacuous :
  frag2b okc_h = true /\ fragb okc_h = false /\
  guard_alongb okc_h (run_from okc_h w1_ns []) okc_sched = true /\
  let cf := run_from okc_h w1_ns okc_sched in
  quietb cf w1_ns = true /\
  In 1 (sm_get 0 (g_sub_comps (n_dir (w_st (nodes cf 0))))) /\
  zlookup 0 (g_comps (n_dir (w_st (nodes cf 0)))) = Some 2 /\
  zlookup 0 (d_comps (n_disc (w_st (nodes cf 1)))) = Some 2.
Proof. vm_compute. repeat split; auto. Qed.

(* ====================================================================== Deepening 2 (P_Discovery3*.v)
   Computations for EVERY history: unregister_agent is no longer excluded.  unpublish_agent(y) makes
   the subscriber drop the non-technical computations it lists on y, so the replay of the pending
   notifications applies *filters* as well as values ([replay3], [dropc]); the directory node carries
   two more invariants ([Dinv]: Directory._computations_data is contained in the orchestrator's
   Discovery table -- hence a directory that carries out unregister_agent(y) lists no non-technical
   computation on y -- and sorted keys of the computation-subscription map).  Same guard as before. *)
Theorem disc_comp3_inv : forall (h : hist_t) (a : Z) (ns : list node) (sched : list (@action)),
  0 < a -> In 0 ns -> In a ns ->
  let P := disc_proto h in
  let cf0 := fst (exec P (init P) (map (@Start) ns)) in
  guard_along h cf0 sched ->
  Base a (fst (exec P cf0 sched)) /\ IC3 a (fst (exec P cf0 sched)).
Proof. exact disc_comp3_inv_l. Qed.

(* full strength for the positive form: any history, subscriber, start order, schedule under the guard *)
Theorem disc_comp3_converges : forall (h : hist_t) (a : Z) (ns : list node) (sched : list (@action)),
  0 < a -> In 0 ns -> In a ns ->
  let P := disc_proto h in
  let cf0 := fst (exec P (init P) (map (@Start) ns)) in
  guard_along h cf0 sched ->
  let cf := fst (exec P cf0 sched) in
  forall c g,
    In a (sm_get c (g_sub_comps (n_dir (w_st (nodes cf 0))))) ->
    zlookup c (g_comps (n_dir (w_st (nodes cf 0)))) = Some g ->
    chan cf 0 a = [] -> chan cf a 0 = [] ->
    zlookup c (d_comps (n_disc (w_st (nodes cf a)))) = Some g.
Proof. exact disc_comp3_converges_l. Qed.

(* by-product: under the guard, every computation the Directory lists is listed (on the same agent) by
   the Discovery object of the orchestrator, in every reachable configuration *)
Theorem dir_tables_agree : forall (h : hist_t) (a : Z) (ns : list node) (sched : list (@action)),
  0 < a -> In 0 ns -> In a ns ->
  let P := disc_proto h in
  let cf0 := fst (exec P (init P) (map (@Start) ns)) in
  guard_along h cf0 sched ->
  let cf := fst (exec P cf0 sched) in
  forall c g, zlookup c (g_comps (n_dir (w_st (nodes cf 0)))) = Some g ->
              zlookup c (d_comps (n_disc (w_st (nodes cf 0)))) = Some g.
Proof. exact dir_tables_agree_l. Qed.

(* non-vacuity: a history with unregister_agent (outside frag2) that the directory carries out --
   subscriber 2 sees agent_removed for agent 1 -- every hypothesis and the conclusion *)
Example c20_comp3_nonvacuous :
  frag2b okc3_h = false /\
  guard_alongb okc3_h (run_from okc3_h w1_ns []) okc3_sched = true /\
  let cf := run_from okc3_h w1_ns okc3_sched in
  quietb cf w1_ns = true /\
  In 2 (sm_get 0 (g_sub_comps (n_dir (w_st (nodes cf 0))))) /\
  zlookup 0 (g_comps (n_dir (w_st (nodes cf 0)))) = Some 1 /\
  zlookup 0 (d_comps (n_disc (w_st (nodes cf 2)))) = Some 1 /\
  In (EvCb 2 8 2 1 None) (snd (exec (disc_proto okc3_h) (run_from okc3_h w1_ns []) okc3_sched)).
Proof. vm_compute. repeat split; auto 10. Qed.

(* ---------------------------------------------------------------------- exact callback lists, all kinds.
   [iscb k x] selects the callback events of kind k about item x; [cbs_of x table] is the list of
   registrations (callback, one_shot) for x in registration order.  Each theorem: ANY configuration
   satisfying [wfcf] (= every reachable one, [callbacks_wf_reachable]), ANY action, ANY node n > 0:
   if the step changes n's entry in the stated way, the step's events of that kind about the item are
   EXACTLY one invocation per registration, in registration order (for agents: the per-agent
   registrations, then the '*' ones), and the table afterwards is as stated. *)
Theorem callbacks_wf_reachable : forall (h : hist_t) (cf : config nst msg),
  reachable (disc_proto h) cf -> wfcf cf.
Proof. exact wfcf_reachable. Qed.

Theorem callbacks_trace_agent_added : forall (h : hist_t) (cf : config nst msg) (act : action) (n : Z),
  0 < n -> wfcf cf ->
  let P := disc_proto h in
  let d := n_disc (w_st (nodes cf n)) in
  let d' := n_disc (w_st (nodes (fst (step P cf act)) n)) in
  forall x ad, zlookup x (d_agents d') = Some ad -> zlookup x (d_agents d) <> Some ad ->
  filter (iscb 1 x) (snd (step P cf act))
    = fire (d_own d) 1 x (Some ad) (cbs_of x (d_acbs d)) ++ fire_all (d_own d) 1 x (Some ad) (d_allcbs d) /\
  zlookup x (d_acbs d') = option_map drop_oneshot (zlookup x (d_acbs d)) /\ d_allcbs d' = d_allcbs d.
Proof. exact trace_agent_added. Qed.

Theorem callbacks_trace_agent_removed : forall (h : hist_t) (cf : config nst msg) (act : action) (n : Z),
  0 < n ->
  let P := disc_proto h in
  let d := n_disc (w_st (nodes cf n)) in
  let d' := n_disc (w_st (nodes (fst (step P cf act)) n)) in
  forall x, zlookup x (d_agents d) <> None -> zlookup x (d_agents d') = None ->
  filter (iscb 2 x) (snd (step P cf act))
    = fire (d_own d) 2 x None (cbs_of x (d_acbs d)) ++ fire_all (d_own d) 2 x None (d_allcbs d) /\
  zlookup x (d_acbs d') = option_map drop_oneshot (zlookup x (d_acbs d)) /\ d_allcbs d' = d_allcbs d.
Proof. exact trace_agent_removed. Qed.

(* computation_removed: the value passed is the agent named by the notification (None, or the agent the
   subscriber listed); QUIRK: a notification leaves the callback table alone -- one-shot callbacks are
   not discarded -- whereas the node's own unregister_computation forgets every callback of c *)
Theorem callbacks_trace_computation_removed : forall (h : hist_t) (cf : config nst msg) (act : action) (n : Z),
  0 < n -> wfcf cf ->
  let P := disc_proto h in
  let d := n_disc (w_st (nodes cf n)) in
  let d' := n_disc (w_st (nodes (fst (step P cf act)) n)) in
  forall c k, zlookup c (d_comps d) = Some k -> zlookup c (d_comps d') = None ->
  exists val, (val = None \/ val = Some k) /\
    filter (iscb 4 c) (snd (step P cf act)) = fire (d_own d) 4 c val (cbs_of c (d_ccbs d)) /\
    (cbs_of c (d_ccbs d') = [] \/ d_ccbs d' = d_ccbs d).
Proof. exact trace_computation_removed. Qed.

Theorem callbacks_trace_replica_added : forall (h : hist_t) (cf : config nst msg) (act : action) (n : Z),
  0 < n ->
  let P := disc_proto h in
  let d := n_disc (w_st (nodes cf n)) in
  let d' := n_disc (w_st (nodes (fst (step P cf act)) n)) in
  forall r g, In g (get_or_nil r (d_reps d')) -> ~ In g (get_or_nil r (d_reps d)) ->
  filter (iscb 5 r) (snd (step P cf act)) = fire (d_own d) 5 r (Some g) (cbs_of r (d_rcbs d)) /\
  zlookup r (d_rcbs d') = option_map drop_oneshot (zlookup r (d_rcbs d)).
Proof. exact trace_replica_added. Qed.

(* replica_removed: either no callback at all (the node's own unsubscribe_replica(r) forgets the
   replicas of r silently) or exactly one invocation per registration; QUIRK: the table is left alone *)
Theorem callbacks_trace_replica_removed : forall (h : hist_t) (cf : config nst msg) (act : action) (n : Z),
  0 < n ->
  let P := disc_proto h in
  let d := n_disc (w_st (nodes cf n)) in
  let d' := n_disc (w_st (nodes (fst (step P cf act)) n)) in
  forall r g, In g (get_or_nil r (d_reps d)) -> ~ In g (get_or_nil r (d_reps d')) ->
  filter (iscb 6 r) (snd (step P cf act)) = [] \/
  (filter (iscb 6 r) (snd (step P cf act)) = fire (d_own d) 6 r (Some g) (cbs_of r (d_rcbs d)) /\
   d_rcbs d' = d_rcbs d).
Proof. exact trace_replica_removed. Qed.

(* ORDER of callbacks of different kinds inside one handler (whole event list, any Discovery state).
   publish_computation(c, g, addr), not refused: agent_added for g (if the address makes g known: per-agent
   registrations, then '*'), THEN computation_added for c. *)
Theorem callbacks_order_publish_computation : forall s c g addr,
  is_none addr && negb (zmemk g (d_agents s)) = false ->
  snd (fst (disc_recv s (MPubComp c g addr))) =
    (match addr with
     | Some ad => if zmemk g (d_agents s) then [] else agent_added_evs s g ad
     | None => []
     end) ++ (if option_eqb Z.eqb (zlookup c (d_comps s)) (Some g) then [] else comp_added_evs s c g).
Proof. exact publish_computation_order. Qed.

(* unpublish_agent(y): computation_removed (value y) for every non-technical computation listed on y, in
   table order, THEN agent_removed for y (per-agent registrations, then '*'); no exception; the
   computation callback table is untouched (quirk), the agent table loses its one-shot entries; the
   computation table loses exactly the non-technical computations listed on y *)
Theorem callbacks_order_unpublish_agent : forall s y, nodupk (d_comps s) ->
  let r := disc_recv s (MUnpubAgent y) in
  snd r = None /\
  snd (fst r) = cascade_evs s y ++ (if zmemk y (d_agents s) then agent_removed_evs s y else []) /\
  d_ccbs (fst (fst (fst r))) = d_ccbs s /\
  d_acbs (fst (fst (fst r))) = (if zmemk y (d_agents s) then table_after y (d_acbs s) else d_acbs s) /\
  (forall c, zlookup c (d_comps (fst (fst (fst r))))
             = if (0 <=? c) && option_eqb Z.eqb (zlookup c (d_comps s)) (Some y) then None else zlookup c (d_comps s)).
Proof. exact unpublish_agent_order. Qed.

(* the one-shot quirk is observable: a ONE-SHOT callback fires for computation_removed, survives, and
   fires again for the next computation_added (only then is it discarded) *)
Example oneshot_survives_removal :
  let cf := run_from q_h w1_ns q_sched in
  quietb cf w1_ns = true /\
  snd (exec (disc_proto q_h) (run_from q_h w1_ns []) q_sched) = [EvCb 2 7 4 0 None; EvCb 2 7 3 0 (Some 1)] /\
  zlookup 0 (d_ccbs (n_disc (w_st (nodes cf 2)))) = Some [].
Proof. vm_compute. repeat split; auto. Qed.

(* ---------------------------------------------------------------------- agreement AFTER REMOVAL.
   Full statement: "a subscribed to c, the directory does not list c, nothing travels => a does not list c":
   false of the model in general ([removal_agreement_refuted]).  It holds along every schedule on which the
   single-step guard [GN] holds: the address guard of the computation theorems, and for a delivery to the
   directory
     GN1  not: subscribe_computation(c) from a arrives while the directory does not list c and the replay
          [rx] of the notifications pending towards a on a's entry for c is not empty (and no publication of
          c by a travels) -- the directory records the subscription and answers nothing, a's stale entry stays
          (this is exactly what happens in the refutation witness: [removal_guard_needed]);
     GN2  not: an un-publication of c naming the host g' arrives while a is subscribed and a's replayed entry
          names another agent -- a's handler would raise ValueError and keep its entry.
   [rx] is the EXACT replay (P_Discovery3N.txc): value, removal, removal refused because it names another
   agent, cascade of unpublish_agent.  Partial: (a) non-technical computations (c >= 0) -- the technical
   computations of an agent are removed by the cascade inside Directory.unregister_agent, not followed here;
   (b) GN1 is shown necessary by the witness, GN2 is only shown sufficient (no run violating GN2 alone with a
   stale entry at quiescence is known; it may be derivable from GN1 and the address guard). *)
Theorem disc_removal_inv_partial : forall (h : hist_t) (a : Z) (ns : list node) (sched : list (@action)),
  0 < a -> In 0 ns -> In a ns ->
  let P := disc_proto h in
  let cf0 := fst (exec P (init P) (map (@Start) ns)) in
  along h (GN h a) cf0 sched ->
  Base a (fst (exec P cf0 sched)) /\ IN a (fst (exec P cf0 sched)).
Proof. exact disc_removal_inv_l. Qed.

Theorem disc_removal_converges_partial : forall (h : hist_t) (a : Z) (ns : list node) (sched : list (@action)),
  0 < a -> In 0 ns -> In a ns ->
  let P := disc_proto h in
  let cf0 := fst (exec P (init P) (map (@Start) ns)) in
  along h (GN h a) cf0 sched ->
  let cf := fst (exec P cf0 sched) in
  forall c, 0 <= c ->
    In a (sm_get c (g_sub_comps (n_dir (w_st (nodes cf 0))))) ->
    zlookup c (g_comps (n_dir (w_st (nodes cf 0)))) = None ->
    chan cf 0 a = [] -> chan cf a 0 = [] ->
    zlookup c (d_comps (n_disc (w_st (nodes cf a)))) = None.
Proof. exact disc_removal_converges_l. Qed.

Theorem removal_guard_check_sound : forall h a sched cf,
  alongb h (GNb h a) cf sched = true -> along h (GN h a) cf sched.
Proof. intros h a. apply alongb_sound. apply GNb_sound. Qed.

(* the witness of removal_agreement_refuted satisfies the address guard but violates GN (at the step where
   the directory records agent 1's subscription for a computation it no longer lists) *)
Example removal_guard_needed :
  guard_alongb w2_h (run_from w2_h w1_ns []) w2_sched = true /\
  alongb w2_h (GNb w2_h 1) (run_from w2_h w1_ns []) w2_sched = false.
Proof. vm_compute. auto. Qed.

(* non-vacuity: every hypothesis (guard checked along the whole schedule, quiescent, subscribed, not
   listed) and the conclusion; the removal fired computation_removed at the subscriber *)
Example c20_removal_nonvacuous :
  alongb okn_h (GNb okn_h 2) (run_from okn_h w1_ns []) okn_sched = true /\
  let cf := run_from okn_h w1_ns okn_sched in
  quietb cf w1_ns = true /\
  In 2 (sm_get 0 (g_sub_comps (n_dir (w_st (nodes cf 0))))) /\
  zlookup 0 (g_comps (n_dir (w_st (nodes cf 0)))) = None /\
  zlookup 0 (d_comps (n_disc (w_st (nodes cf 2)))) = None /\
  snd (exec (disc_proto okn_h) (run_from okn_h w1_ns []) okn_sched) = [EvCb 2 7 3 0 (Some 1); EvCb 2 7 4 0 None].
Proof. vm_compute. repeat split; auto. Qed.
