(* Prop_C20.v -- C20: discovery views converge to the directory for subscribed items.

   Full statement (properties.jsonl): for any history of registrations, un-registrations, replica
   publications and (un)subscriptions and any delivery order, once messages are drained every
   agent's view agrees with the directory on each agent, computation and replica it is still
   subscribed to, and subscription callbacks have fired for each change.

   The faithful model of discovery.py does not satisfy this in full (three witnesses below, each a
   recorded finding).  What is proved, for ALL histories, subscribers, start orders and schedules:
   the computation sub-protocol in its positive form (what the directory lists, the subscriber has)
   under the exact guard that the directory holds an address for the hosting agent, for every
   history made of any operations except unregister_agent, register_computation without an
   address and unregister_computation naming an agent; and, per handler, that a notification which changes the view fires every callback
   registered for the item.  Agents and replicas are covered by the correspondence run and the
   Python oracle only.  Statements only; each closed by a lemma of P_Discovery. *)
From PyDcop Require Import Base Net M_Discovery P_Discovery.

(* In-flight invariant (DESIGN: disc_inv), computations: in every configuration reached, for
   subscriber a and every computation c the directory lists on g: either the last notification
   about c travelling to a says g, or none travels and a's view says g, or a publication of a's own
   about c is still travelling to the directory. *)
Theorem disc_comp_inv_partial : forall (h : hist_t) (a : Z) (ns : list node) (sched : list (@action)),
  (forall k o, In o (hist_of h k) -> frag o = true) -> 0 < a -> In 0 ns -> In a ns ->
  let P := disc_proto h in
  let cf0 := fst (exec P (init P) (map (@Start) ns)) in
  guard_along h cf0 sched ->
  INV a (fst (exec P cf0 sched)).
Proof. exact disc_comp_inv_l. Qed.

(* Convergence (DESIGN: disc_converges), computations, positive form: when nothing travels between
   a and the directory, a's view of every computation it is subscribed to is the directory's. *)
Theorem disc_comp_converges_partial : forall (h : hist_t) (a : Z) (ns : list node) (sched : list (@action)),
  (forall k o, In o (hist_of h k) -> frag o = true) -> 0 < a -> In 0 ns -> In a ns ->
  let P := disc_proto h in
  let cf0 := fst (exec P (init P) (map (@Start) ns)) in
  guard_along h cf0 sched ->
  let cf := fst (exec P cf0 sched) in
  forall c g,
    In a (sm_get c (g_sub_comps (n_dir (w_st (nodes cf 0))))) ->
    zlookup c (g_comps (n_dir (w_st (nodes cf 0)))) = Some g ->
    chan cf 0 a = [] -> chan cf a 0 = [] ->
    zlookup c (d_comps (n_disc (w_st (nodes cf a)))) = Some g.
Proof. exact disc_comp_converges_l. Qed.

(* the guard can be checked by computation *)
Theorem guard_check_sound : forall h sched cf, guard_alongb h cf sched = true -> guard_along h cf sched.
Proof. exact guard_alongb_sound. Qed.

(* Callbacks (DESIGN: callbacks_fired), per notification handler, any state: a notification that
   changes the entry fires every callback registered for the item. *)
Theorem callbacks_computation_added_partial : forall s c g ad l cb os,
  zlookup c (d_comps s) <> Some g -> zlookup c (d_ccbs s) = Some l -> In (cb, os) l ->
  In (EvCb (d_own s) cb 3 c (Some g)) (snd (fst (disc_recv s (MPubComp c g (Some ad))))).
Proof. exact cb_computation_added_l. Qed.

Theorem callbacks_computation_removed_partial : forall s c k ag l cb os,
  zlookup c (d_comps s) = Some k -> (ag = None \/ ag = Some k) ->
  zlookup c (d_ccbs s) = Some l -> In (cb, os) l ->
  In (EvCb (d_own s) cb 4 c ag) (snd (fst (disc_recv s (MUnpubComp c ag)))).
Proof. exact cb_computation_removed_l. Qed.

Theorem callbacks_agent_added_partial : forall s x ad,
  zlookup x (d_agents s) <> Some ad ->
  (forall l cb os, zlookup x (d_acbs s) = Some l -> In (cb, os) l ->
     In (EvCb (d_own s) cb 1 x (Some ad)) (snd (fst (disc_recv s (MPubAgent x ad))))) /\
  (forall cb, In cb (d_allcbs s) -> In (EvCb (d_own s) cb 1 x (Some ad)) (snd (fst (disc_recv s (MPubAgent x ad))))).
Proof. exact cb_agent_added_l. Qed.

Theorem callbacks_replica_added_partial : forall s r g l cb os,
  zmemk r (d_comps s) = true -> ~ In g (get_or_nil r (d_reps s)) ->
  zlookup r (d_rcbs s) = Some l -> In (cb, os) l ->
  In (EvCb (d_own s) cb 5 r (Some g)) (snd (fst (disc_recv s (MPubRep r g true)))).
Proof. exact cb_replica_added_l. Qed.

(* The unguarded / full statements are false of the model: *)
Theorem converges_unguarded_refuted :
  exists h a ns sched c g, fragb h = true /\ 0 < a /\ In 0 ns /\ In a ns /\
    let cf := run_from h ns sched in
    quietb cf ns = true /\
    In a (sm_get c (g_sub_comps (n_dir (w_st (nodes cf 0))))) /\
    zlookup c (g_comps (n_dir (w_st (nodes cf 0)))) = Some g /\
    zlookup c (d_comps (n_disc (w_st (nodes cf a)))) = None.
Proof. exact converges_unguarded_refuted_l. Qed.

Theorem removal_agreement_refuted :
  exists h a ns sched c g, fragb h = true /\ 0 < a /\ In 0 ns /\ In a ns /\
    guard_alongb h (run_from h ns []) sched = true /\
    let cf := run_from h ns sched in
    quietb cf ns = true /\
    In a (sm_get c (g_sub_comps (n_dir (w_st (nodes cf 0))))) /\
    zlookup c (g_comps (n_dir (w_st (nodes cf 0)))) = None /\
    zlookup c (d_comps (n_disc (w_st (nodes cf a)))) = Some g.
Proof. exact removal_agreement_refuted_l. Qed.

Theorem replica_agreement_refuted :
  exists h a ns sched r g, fragb h = true /\ 0 < a /\ In 0 ns /\ In a ns /\
    let cf := run_from h ns sched in
    quietb cf ns = true /\
    In a (sm_get r (g_sub_reps (n_dir (w_st (nodes cf 0))))) /\
    In g (get_or_nil r (d_reps (n_disc (w_st (nodes cf 0))))) /\
    get_or_nil r (d_reps (n_disc (w_st (nodes cf a)))) = [].
Proof. exact replica_agreement_refuted_l. Qed.

(* non-vacuity: a history and schedule meeting every hypothesis of disc_comp_converges_partial
   (fragment, guard along the whole schedule, subscriber 2 subscribed, directory lists 0 -> 1,
   nothing in flight), the conclusion, and the callback 7 fired with computation_added *)
Example c20_nonvacuous :
  fragb ok_h = true /\ guard_alongb ok_h (run_from ok_h w1_ns []) ok_sched = true /\
  let cf := run_from ok_h w1_ns ok_sched in
  In 2 (sm_get 0 (g_sub_comps (n_dir (w_st (nodes cf 0))))) /\
  zlookup 0 (g_comps (n_dir (w_st (nodes cf 0)))) = Some 1 /\
  chan cf 0 2 = [] /\ chan cf 2 0 = [] /\
  zlookup 0 (d_comps (n_disc (w_st (nodes cf 2)))) = Some 1 /\
  snd (exec (disc_proto ok_h) (run_from ok_h w1_ns []) ok_sched) = [EvCb 2 7 3 0 (Some 1)].
Proof. vm_compute. repeat split; auto. Qed.
