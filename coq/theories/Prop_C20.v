(* Prop_C20.v -- C20: discovery views converge to the directory for subscribed items.

   Full statement (properties.jsonl): for any history of registrations, un-registrations, replica
   publications and (un)subscriptions and any delivery order, once messages are drained every
   agent's view agrees with the directory on each agent, computation and replica it is still
   subscribed to, and subscription callbacks have fired for each change.

   The faithful model of discovery.py does not satisfy this in full (three witnesses below, each a
   recorded finding).  What is proved, for ALL histories, subscribers, start orders and schedules:
   the computation sub-protocol in its positive form (what the directory lists, the subscriber has)
   under the exact guard that the directory holds an address for the hosting agent, for every
   history made of any operations except unregister_agent, register_computation without an
   address and unregister_computation naming an agent; and, per handler, that a notification which changes the view fires every callback
   registered for the item.  Agents and replicas are covered by the correspondence run and the
   Python oracle only.  Statements only; each closed by a lemma of P_Discovery. *)
From PyDcop Require Import Base Net M_Discovery P_Discovery.
From PyDcop Require Import P_Discovery2 P_Discovery2A P_Discovery2R P_Discovery2C P_Discovery2T.
From PyDcop Require Import P_Discovery3C.

(* In-flight invariant (DESIGN: disc_inv), computations: in every configuration reached, for
   subscriber a and every computation c the directory lists on g: either the last notification
   about c travelling to a says g, or none travels and a's view says g, or a publication of a's own
   about c is still travelling to the directory. *)
Theorem disc_comp_inv_partial : forall (h : hist_t) (a : Z) (ns : list node) (sched : list (@action)),
  (forall k o, In o (hist_of h k) -> frag o = true) -> 0 < a -> In 0 ns -> In a ns ->
  let P := disc_proto h in
  let cf0 := fst (exec P (init P) (map (@Start) ns)) in
  guard_along h cf0 sched ->
  INV a (fst (exec P cf0 sched)).
Proof. exact disc_comp_inv_l. Qed.

(* Convergence (DESIGN: disc_converges), computations, positive form: when nothing travels between
   a and the directory, a's view of every computation it is subscribed to is the directory's. *)
Theorem disc_comp_converges_partial : forall (h : hist_t) (a : Z) (ns : list node) (sched : list (@action)),
  (forall k o, In o (hist_of h k) -> frag o = true) -> 0 < a -> In 0 ns -> In a ns ->
  let P := disc_proto h in
  let cf0 := fst (exec P (init P) (map (@Start) ns)) in
  guard_along h cf0 sched ->
  let cf := fst (exec P cf0 sched) in
  forall c g,
    In a (sm_get c (g_sub_comps (n_dir (w_st (nodes cf 0))))) ->
    zlookup c (g_comps (n_dir (w_st (nodes cf 0)))) = Some g ->
    chan cf 0 a = [] -> chan cf a 0 = [] ->
    zlookup c (d_comps (n_disc (w_st (nodes cf a)))) = Some g.
Proof. exact disc_comp_converges_l. Qed.

(* the guard can be checked by computation *)
Theorem guard_check_sound : forall h sched cf, guard_alongb h cf sched = true -> guard_along h cf sched.
Proof. exact guard_alongb_sound. Qed.

(* Callbacks (DESIGN: callbacks_fired), per notification handler, any state: a notification that
   changes the entry fires every callback registered for the item. *)
Theorem callbacks_computation_added_partial : forall s c g ad l cb os,
  zlookup c (d_comps s) <> Some g -> zlookup c (d_ccbs s) = Some l -> In (cb, os) l ->
  In (EvCb (d_own s) cb 3 c (Some g)) (snd (fst (disc_recv s (MPubComp c g (Some ad))))).
Proof. exact cb_computation_added_l. Qed.

Theorem callbacks_computation_removed_partial : forall s c k ag l cb os,
  zlookup c (d_comps s) = Some k -> (ag = None \/ ag = Some k) ->
  zlookup c (d_ccbs s) = Some l -> In (cb, os) l ->
  In (EvCb (d_own s) cb 4 c ag) (snd (fst (disc_recv s (MUnpubComp c ag)))).
Proof. exact cb_computation_removed_l. Qed.

Theorem callbacks_agent_added_partial : forall s x ad,
  zlookup x (d_agents s) <> Some ad ->
  (forall l cb os, zlookup x (d_acbs s) = Some l -> In (cb, os) l ->
     In (EvCb (d_own s) cb 1 x (Some ad)) (snd (fst (disc_recv s (MPubAgent x ad))))) /\
  (forall cb, In cb (d_allcbs s) -> In (EvCb (d_own s) cb 1 x (Some ad)) (snd (fst (disc_recv s (MPubAgent x ad))))).
Proof. exact cb_agent_added_l. Qed.

Theorem callbacks_replica_added_partial : forall s r g l cb os,
  zmemk r (d_comps s) = true -> ~ In g (get_or_nil r (d_reps s)) ->
  zlookup r (d_rcbs s) = Some l -> In (cb, os) l ->
  In (EvCb (d_own s) cb 5 r (Some g)) (snd (fst (disc_recv s (MPubRep r g true)))).
Proof. exact cb_replica_added_l. Qed.

(* The unguarded / full statements are false of the model: *)
Theorem converges_unguarded_refuted :
  exists h a ns sched c g, fragb h = true /\ 0 < a /\ In 0 ns /\ In a ns /\
    let cf := run_from h ns sched in
    quietb cf ns = true /\
    In a (sm_get c (g_sub_comps (n_dir (w_st (nodes cf 0))))) /\
    zlookup c (g_comps (n_dir (w_st (nodes cf 0)))) = Some g /\
    zlookup c (d_comps (n_disc (w_st (nodes cf a)))) = None.
Proof. exact converges_unguarded_refuted_l. Qed.

Theorem removal_agreement_refuted :
  exists h a ns sched c g, fragb h = true /\ 0 < a /\ In 0 ns /\ In a ns /\
    guard_alongb h (run_from h ns []) sched = true /\
    let cf := run_from h ns sched in
    quietb cf ns = true /\
    In a (sm_get c (g_sub_comps (n_dir (w_st (nodes cf 0))))) /\
    zlookup c (g_comps (n_dir (w_st (nodes cf 0)))) = None /\
    zlookup c (d_comps (n_disc (w_st (nodes cf a)))) = Some g.
Proof. exact removal_agreement_refuted_l. Qed.

Theorem replica_agreement_refuted :
  exists h a ns sched r g, fragb h = true /\ 0 < a /\ In 0 ns /\ In a ns /\
    let cf := run_from h ns sched in
    quietb cf ns = true /\
    In a (sm_get r (g_sub_reps (n_dir (w_st (nodes cf 0))))) /\
    In g (get_or_nil r (d_reps (n_disc (w_st (nodes cf 0))))) /\
    get_or_nil r (d_reps (n_disc (w_st (nodes cf a)))) = [].
Proof. exact replica_agreement_refuted_l. Qed.

(* non-vacuity: a history and schedule meeting every hypothesis of disc_comp_converges_partial
   (fragment, guard along the whole schedule, subscriber 2 subscribed, directory lists 0 -> 1,
   nothing in flight), the conclusion, and the callback 7 fired with computation_added *)
Example c20_nonvacuous :
  fragb ok_h = true /\ guard_alongb ok_h (run_from ok_h w1_ns []) ok_sched = true /\
  let cf := run_from ok_h w1_ns ok_sched in
  In 2 (sm_get 0 (g_sub_comps (n_dir (w_st (nodes cf 0))))) /\
  zlookup 0 (g_comps (n_dir (w_st (nodes cf 0)))) = Some 1 /\
  chan cf 0 2 = [] /\ chan cf 2 0 = [] /\
  zlookup 0 (d_comps (n_disc (w_st (nodes cf 2)))) = Some 1 /\
  snd (exec (disc_proto ok_h) (run_from ok_h w1_ns []) ok_sched) = [EvCb 2 7 3 0 (Some 1)].
Proof. vm_compute. repeat split; auto. Qed.

(* ====================================================================== Deepening (P_Discovery2*.v)
   The in-flight invariant is now stated with "replay": what the FIFO of pending notifications makes
   of the subscriber's entry ([Jg] in P_Discovery2: replaying chan 0->a on a's entry gives the
   directory's value, or a publication of a's own that the directory will act on still travels).
   Agents and replicas: EVERY history (no operation excluded), guards = exact negations of the recorded
   findings, stated on single steps ([along h G cf sched] : G holds before every action). *)

(* Agents, in-flight invariant: [Base] (nodes 0 and a run, channel typing, directory-node invariants)
   and [IA] = for every agent x that a is subscribed to (by name, or by '*' for x <> orchestrator) and
   the directory lists at ad: replay of chan 0->a on a's entry for x = ad, or a publish/unpublish of x
   by a travels to the directory.  Guard [GA]: the directory is not about to refuse an
   un-registration published by a (finding C20-unregister-agent-refused). *)
Theorem disc_agent_inv : forall (h : hist_t) (a : Z) (ns : list node) (sched : list (@action)),
  0 < a -> In 0 ns -> In a ns ->
  let P := disc_proto h in
  let cf0 := fst (exec P (init P) (map (@Start) ns)) in
  along h (GA a) cf0 sched ->
  Base a (fst (exec P cf0 sched)) /\ IA a (fst (exec P cf0 sched)).
Proof. exact disc_agent_inv_l. Qed.

(* Agents, convergence (positive form): nothing travels between a and the directory => a's address
   for every agent it is subscribed to and the directory lists is the directory's. *)
Theorem disc_agent_converges : forall (h : hist_t) (a : Z) (ns : list node) (sched : list (@action)),
  0 < a -> In 0 ns -> In a ns ->
  let P := disc_proto h in
  let cf0 := fst (exec P (init P) (map (@Start) ns)) in
  along h (GA a) cf0 sched ->
  let cf := fst (exec P cf0 sched) in
  forall x ad,
    In a (sm_get x (g_sub_agents (n_dir (w_st (nodes cf 0))))) \/
      (In a (g_sub_all (n_dir (w_st (nodes cf 0)))) /\ x <> 0) ->
    zlookup x (g_agents (n_dir (w_st (nodes cf 0)))) = Some ad ->
    chan cf 0 a = [] -> chan cf a 0 = [] ->
    zlookup x (d_agents (n_disc (w_st (nodes cf a)))) = Some ad.
Proof. exact disc_agent_converges_l. Qed.

Theorem agent_guard_check_sound : forall h a sched cf,
  alongb h (GAb a) cf sched = true -> along h (GA a) cf sched.
Proof. intros h a. apply alongb_sound. apply GAb_sound. Qed.

(* without the guard the agent statement is false (finding C20-unregister-agent-refused) *)
Theorem agent_agreement_unguarded_refuted :
  exists h a ns sched x ad, 0 < a /\ In 0 ns /\ In a ns /\
    let cf := run_from h ns sched in
    quietb cf ns = true /\
    In a (sm_get x (g_sub_agents (n_dir (w_st (nodes cf 0))))) /\
    zlookup x (g_agents (n_dir (w_st (nodes cf 0)))) = Some ad /\
    zlookup x (d_agents (n_disc (w_st (nodes cf a)))) = None.
Proof. exact agent_agreement_unguarded_refuted_l. Qed.

(* Replicas, in-flight invariant [IR] (per replica r and holder g: replay of chan 0->a on "g in a's
   replica set of r" gives membership, or a's un-publication of (r,g) / un-subscription of r travels)
   and convergence.  Guard [GR]: no replica handler is about to find the computation unknown -- a when
   it is told of a replica, the directory when a subscribes (finding C20-replica-of-unknown-computation). *)
Theorem disc_replica_inv : forall (h : hist_t) (a : Z) (ns : list node) (sched : list (@action)),
  0 < a -> In 0 ns -> In a ns ->
  let P := disc_proto h in
  let cf0 := fst (exec P (init P) (map (@Start) ns)) in
  along h (GR a) cf0 sched ->
  Base a (fst (exec P cf0 sched)) /\ IR a (fst (exec P cf0 sched)).
Proof. exact disc_replica_inv_l. Qed.

Theorem disc_replica_converges : forall (h : hist_t) (a : Z) (ns : list node) (sched : list (@action)),
  0 < a -> In 0 ns -> In a ns ->
  let P := disc_proto h in
  let cf0 := fst (exec P (init P) (map (@Start) ns)) in
  along h (GR a) cf0 sched ->
  let cf := fst (exec P cf0 sched) in
  forall r g,
    In a (sm_get r (g_sub_reps (n_dir (w_st (nodes cf 0))))) ->
    In g (get_or_nil r (d_reps (n_disc (w_st (nodes cf 0))))) ->
    chan cf 0 a = [] -> chan cf a 0 = [] ->
    In g (get_or_nil r (d_reps (n_disc (w_st (nodes cf a))))).
Proof. exact disc_replica_converges_l. Qed.

Theorem replica_guard_check_sound : forall h a sched cf,
  alongb h (GRb a) cf sched = true -> along h (GR a) cf sched.
Proof. intros h a. apply alongb_sound. apply GRb_sound. Qed.

(* Computations again, now with unregister_computation(c, agent) naming an agent (a stale
   un-publication is consumed by the directory without any notification: the invariant only counts
   own publications the directory will act on, [aboutc2]) and register_computation without address.
   Partial: histories without unregister_agent (its cascade removes computations at the subscriber
   without a computation notification); same guard as disc_comp_converges_partial. *)
Theorem disc_comp2_inv_partial : forall (h : hist_t) (a : Z) (ns : list node) (sched : list (@action)),
  (forall k o, In o (hist_of h k) -> frag2 o = true) -> 0 < a -> In 0 ns -> In a ns ->
  let P := disc_proto h in
  let cf0 := fst (exec P (init P) (map (@Start) ns)) in
  guard_along h cf0 sched ->
  Base a (fst (exec P cf0 sched)) /\ IC a (fst (exec P cf0 sched)).
Proof. exact disc_comp2_inv_l. Qed.

Theorem disc_comp2_converges_partial : forall (h : hist_t) (a : Z) (ns : list node) (sched : list (@action)),
  (forall k o, In o (hist_of h k) -> frag2 o = true) -> 0 < a -> In 0 ns -> In a ns ->
  let P := disc_proto h in
  let cf0 := fst (exec P (init P) (map (@Start) ns)) in
  guard_along h cf0 sched ->
  let cf := fst (exec P cf0 sched) in
  forall c g,
    In a (sm_get c (g_sub_comps (n_dir (w_st (nodes cf 0))))) ->
    zlookup c (g_comps (n_dir (w_st (nodes cf 0)))) = Some g ->
    chan cf 0 a = [] -> chan cf a 0 = [] ->
    zlookup c (d_comps (n_disc (w_st (nodes cf a)))) = Some g.
Proof. exact disc_comp2_converges_l. Qed.

(* Callbacks along a trace (any configuration, any action, any node n > 0): a step that makes n's
   entry for computation c become g produces exactly one computation_added invocation per registration
   in n's table before the step, in registration order, and leaves the table without its one-shot
   registrations.  Partial: computation_added only (agent_added / replica_added are analogous;
   computation_removed and replica_removed do NOT discard one-shot callbacks in discovery.py). *)
Theorem callbacks_trace_computation_added_partial : forall (h : hist_t) (cf : config nst msg) (act : action) (n c g : Z),
  0 < n ->
  let P := disc_proto h in
  let cf' := fst (step P cf act) in
  let d := n_disc (w_st (nodes cf n)) in
  let d' := n_disc (w_st (nodes cf' n)) in
  zlookup c (d_comps d') = Some g -> zlookup c (d_comps d) <> Some g ->
  filter (iscb3 c) (snd (step P cf act)) = fire (d_own d) 3 c (Some g) (get_or_nil c (d_ccbs d)) /\
  zlookup c (d_ccbs d') = option_map drop_oneshot (zlookup c (d_ccbs d)).
Proof. exact callbacks_trace_computation_added_l. Qed.

(* non-vacuity of the three new convergence theorems: hypotheses (guards checked by computation along
   the whole schedule, quiescence, subscription, directory entry) and conclusions *)
Example c20_agents_nonvacuous :
  alongb oka_h (GAb 2) (run_from oka_h w1_ns []) oka_sched = true /\
  alongb oka_h (GAb 1) (run_from oka_h w1_ns []) oka_sched = true /\
  let cf := run_from oka_h w1_ns oka_sched in
  quietb cf w1_ns = true /\
  In 2 (sm_get 3 (g_sub_agents (n_dir (w_st (nodes cf 0))))) /\ In 1 (g_sub_all (n_dir (w_st (nodes cf 0)))) /\
  zlookup 3 (g_agents (n_dir (w_st (nodes cf 0)))) = Some 1004 /\
  zlookup 3 (d_agents (n_disc (w_st (nodes cf 2)))) = Some 1004 /\
  zlookup 3 (d_agents (n_disc (w_st (nodes cf 1)))) = Some 1004.
Proof. vm_compute. repeat split; auto. Qed.

Example c20_replicas_nonvacuous :
  alongb okr_h (GRb 2) (run_from okr_h w1_ns []) okr_sched = true /\
  let cf := run_from okr_h w1_ns okr_sched in
  quietb cf w1_ns = true /\
  In 2 (sm_get 0 (g_sub_reps (n_dir (w_st (nodes cf 0))))) /\
  In 3 (get_or_nil 0 (d_reps (n_disc (w_st (nodes cf 0))))) /\
  In 3 (get_or_nil 0 (d_reps (n_disc (w_st (nodes cf 2))))).
Proof. vm_compute. repeat split; auto. Qed.

(* the stale named un-publication of agent 1 is ignored by the directory; 1 re-subscribes and agrees *)
Example c20_comp2_nonvacuous :
  frag2b okc_h = true /\ fragb okc_h = false /\
  guard_alongb okc_h (run_from okc_h w1_ns []) okc_sched = true /\
  let cf := run_from okc_h w1_ns okc_sched in
  quietb cf w1_ns = true /\
  In 1 (sm_get 0 (g_sub_comps (n_dir (w_st (nodes cf 0))))) /\
  zlookup 0 (g_comps (n_dir (w_st (nodes cf 0)))) = Some 2 /\
  zlookup 0 (d_comps (n_disc (w_st (nodes cf 1)))) = Some 2.
Proof. vm_compute. repeat split; auto. Qed.

(* ====================================================================== Deepening 2 (P_Discovery3*.v)
   Computations for EVERY history: unregister_agent is no longer excluded.  unpublish_agent(y) makes
   the subscriber drop the non-technical computations it lists on y, so the replay of the pending
   notifications applies *filters* as well as values ([replay3], [dropc]); the directory node carries
   two more invariants ([Dinv]: Directory._computations_data is contained in the orchestrator's
   Discovery table -- hence a directory that carries out unregister_agent(y) lists no non-technical
   computation on y -- and sorted keys of the computation-subscription map).  Same guard as before. *)
Theorem disc_comp3_inv : forall (h : hist_t) (a : Z) (ns : list node) (sched : list (@action)),
  0 < a -> In 0 ns -> In a ns ->
  let P := disc_proto h in
  let cf0 := fst (exec P (init P) (map (@Start) ns)) in
  guard_along h cf0 sched ->
  Base a (fst (exec P cf0 sched)) /\ IC3 a (fst (exec P cf0 sched)).
Proof. exact disc_comp3_inv_l. Qed.

(* full strength for the positive form: any history, subscriber, start order, schedule under the guard *)
Theorem disc_comp3_converges : forall (h : hist_t) (a : Z) (ns : list node) (sched : list (@action)),
  0 < a -> In 0 ns -> In a ns ->
  let P := disc_proto h in
  let cf0 := fst (exec P (init P) (map (@Start) ns)) in
  guard_along h cf0 sched ->
  let cf := fst (exec P cf0 sched) in
  forall c g,
    In a (sm_get c (g_sub_comps (n_dir (w_st (nodes cf 0))))) ->
    zlookup c (g_comps (n_dir (w_st (nodes cf 0)))) = Some g ->
    chan cf 0 a = [] -> chan cf a 0 = [] ->
    zlookup c (d_comps (n_disc (w_st (nodes cf a)))) = Some g.
Proof. exact disc_comp3_converges_l. Qed.

(* by-product: under the guard, every computation the Directory lists is listed (on the same agent) by
   the Discovery object of the orchestrator, in every reachable configuration *)
Theorem dir_tables_agree : forall (h : hist_t) (a : Z) (ns : list node) (sched : list (@action)),
  0 < a -> In 0 ns -> In a ns ->
  let P := disc_proto h in
  let cf0 := fst (exec P (init P) (map (@Start) ns)) in
  guard_along h cf0 sched ->
  let cf := fst (exec P cf0 sched) in
  forall c g, zlookup c (g_comps (n_dir (w_st (nodes cf 0)))) = Some g ->
              zlookup c (d_comps (n_disc (w_st (nodes cf 0)))) = Some g.
Proof. exact dir_tables_agree_l. Qed.

(* non-vacuity: a history with unregister_agent (outside frag2) that the directory carries out --
   subscriber 2 sees agent_removed for agent 1 -- every hypothesis and the conclusion *)
Example c20_comp3_nonvacuous :
  frag2b okc3_h = false /\
  guard_alongb okc3_h (run_from okc3_h w1_ns []) okc3_sched = true /\
  let cf := run_from okc3_h w1_ns okc3_sched in
  quietb cf w1_ns = true /\
  In 2 (sm_get 0 (g_sub_comps (n_dir (w_st (nodes cf 0))))) /\
  zlookup 0 (g_comps (n_dir (w_st (nodes cf 0)))) = Some 1 /\
  zlookup 0 (d_comps (n_disc (w_st (nodes cf 2)))) = Some 1 /\
  In (EvCb 2 8 2 1 None) (snd (exec (disc_proto okc3_h) (run_from okc3_h w1_ns []) okc3_sched)).
Proof. vm_compute. repeat split; auto 10. Qed.
