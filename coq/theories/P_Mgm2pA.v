(* P_Mgm2pA.v -- MGM2 payload refinement, part 1 (C03/C04): order-independence of the tables
   (_find_best_offer, best gain of a list), the synchronous reference run of M_Mgm2r.mgm2_next, the
   reference messages of a round, and what ONE handler (micro-step M_Mgm2x.mstep) computes when the
   tables it reads hold the reference payloads. *)
From Coq Require Import ZArith List Bool Lia Permutation Sorted.
From PyDcop Require Import Base Net M_Mgm M_Mgm2 M_Mgm2x M_Mgm2r P_Mgm P_Mgm3 P_Mgm3c P_Mgm2x P_Mgm2y P_Mgm2s P_Mgm2sV P_Mgm2sO P_Mgm2sA P_Mgm2sG P_Mgm2sS P_Mgm2f P_Mgm2r.
Import ListNotations.
Open Scope Z_scope.
Local Notation length := List.length.

(* ---- sorting facts *)
Section SortFacts.
  Context {A : Type} (leb : A -> A -> bool).
  Hypothesis leb_total : forall a b, leb a b = true \/ leb b a = true.
  Hypothesis leb_trans : forall a b c, leb a b = true -> leb b c = true -> leb a c = true.
  Hypothesis leb_anti : forall a b, leb a b = true -> leb b a = true -> a = b.
  Let R a b := leb a b = true.

  Lemma ins_perm x l : Permutation (insert_sorted leb x l) (x :: l).
  Proof.
    induction l as [|y r IH]; simpl; auto.
    destruct (leb x y); auto. rewrite IH. apply perm_swap.
  Qed.
  Lemma isort_perm2 l : Permutation (isort leb l) l.
  Proof. induction l as [|x r IH]; simpl; auto. rewrite ins_perm. now constructor. Qed.
  Lemma ins_sorted x l : StronglySorted R l -> StronglySorted R (insert_sorted leb x l).
  Proof.
    induction 1 as [|y r Hs IH Hall]; simpl.
    - repeat constructor.
    - destruct (leb x y) eqn:E.
      + constructor; [constructor; auto|]. constructor; auto.
        eapply Forall_impl; [|exact Hall]. intros z Hz. eapply leb_trans; eauto.
      + constructor; auto.
        assert (Hyx : leb y x = true) by (destruct (leb_total x y); congruence).
        eapply Permutation_Forall; [symmetry; apply ins_perm|]. constructor; auto.
  Qed.
  Lemma isort_sorted2 l : StronglySorted R (isort leb l).
  Proof. induction l; simpl; [constructor|]. now apply ins_sorted. Qed.
  Lemma sorted_perm_eq l : forall l', StronglySorted R l -> StronglySorted R l' -> Permutation l l' -> l = l'.
  Proof.
    induction l as [|x r IH]; intros l' Hs Hs' Hp.
    - apply Permutation_nil in Hp. now subst.
    - destruct l' as [|y r']; [apply Permutation_sym, Permutation_nil in Hp; discriminate|].
      inversion Hs as [|? ? Hsr Hxr]; inversion Hs' as [|? ? Hsr' Hyr']; subst.
      assert (x = y) as ->.
      { assert (Hy : In y (x :: r)) by (eapply Permutation_in; [symmetry; eauto|now left]).
        assert (Hx : In x (y :: r')) by (eapply Permutation_in; [eauto|now left]).
        destruct Hy as [|Hy]; auto. destruct Hx as [|Hx]; auto.
        rewrite Forall_forall in Hxr, Hyr'. apply leb_anti; [apply Hxr; auto|apply Hyr'; auto]. }
      f_equal. apply IH; auto. eapply Permutation_cons_inv; eauto.
  Qed.
  Lemma isort_perm_eq2 l l' : Permutation l l' -> isort leb l = isort leb l'.
  Proof.
    intros Hp. apply sorted_perm_eq; try apply isort_sorted2. rewrite !isort_perm2. exact Hp.
  Qed.
End SortFacts.

Lemma t3_total a b : t3_leb a b = true \/ t3_leb b a = true.
Proof. destruct a as [[a1 a2] a3], b as [[b1 b2] b3]. unfold t3_leb. lia. Qed.
Lemma t3_trans a b c : t3_leb a b = true -> t3_leb b c = true -> t3_leb a c = true.
Proof. destruct a as [[a1 a2] a3], b as [[b1 b2] b3], c as [[c1 c2] c3]. unfold t3_leb. lia. Qed.
Lemma t3_anti a b : t3_leb a b = true -> t3_leb b a = true -> a = b.
Proof.
  destruct a as [[a1 a2] a3], b as [[b1 b2] b3]. unfold t3_leb. intros H1 H2.
  assert (a1 = b1 /\ a2 = b2 /\ a3 = b3) by lia. destruct H as (-> & -> & ->). reflexivity.
Qed.
Lemma isort_t3_perm l l' : Permutation l l' -> isort t3_leb l = isort t3_leb l'.
Proof. apply isort_perm_eq2; [apply t3_total|apply t3_trans|apply t3_anti]. Qed.

(* ---- the accumulator of _find_best_offer in closed form *)
Section BestFold.
  Variable mx : bool.
  Context {I : Type}.
  Variable G : I -> Z.
  Variable T : I -> Z * Z * Z.
  Definition sb (g best : Z) : bool := if mx then g <? best else best <? g.
  Definition bstep (acc : list (Z * Z * Z) * Z) (it : I) : list (Z * Z * Z) * Z :=
    let '(bests, best) := acc in
    if sb (G it) best then ([T it], G it)
    else if G it =? best then (bests ++ [T it], best) else acc.
  Definition bmax (b : Z) (l : list I) : Z := fold_left (fun b it => if sb (G it) b then G it else b) l b.

  Lemma bmax_ge l : forall b, if mx then bmax b l <= b else b <= bmax b l.
  Proof.
    induction l as [|it r IH]; intros b; simpl; [destruct mx; lia|].
    specialize (IH (if sb (G it) b then G it else b)). unfold bmax in *. unfold sb in *.
    destruct mx; [destruct (Z.ltb_spec (G it) b)|destruct (Z.ltb_spec b (G it))]; lia.
  Qed.

  Lemma bfold_closed l : forall bests best,
    fold_left bstep l (bests, best) =
    ((if bmax best l =? best then bests else []) ++ map T (filter (fun it => G it =? bmax best l) l), bmax best l).
  Proof.
    induction l as [|it r IH]; intros bests best.
    - simpl. rewrite Z.eqb_refl, app_nil_r. reflexivity.
    - simpl fold_left.
      change (bmax best (it :: r)) with (bmax (if sb (G it) best then G it else best) r).
      pose proof (bmax_ge r (if sb (G it) best then G it else best)) as Hge.
      destruct (sb (G it) best) eqn:Es.
      + rewrite IH. set (M := bmax (G it) r) in *. f_equal. simpl filter.
        assert (Hne : (M =? best) = false).
        { apply Z.eqb_neq. unfold sb in Es. destruct mx; [apply Z.ltb_lt in Es|apply Z.ltb_lt in Es]; lia. }
        rewrite Hne. rewrite (Z.eqb_sym (G it) M). destruct (M =? G it); reflexivity.
      + destruct (Z.eqb_spec (G it) best) as [Eq|Ne].
        * rewrite IH. set (M := bmax best r) in *. f_equal. simpl filter. rewrite Eq.
          rewrite (Z.eqb_sym best M). destruct (M =? best); [rewrite <- app_assoc; reflexivity|reflexivity].
        * rewrite IH. set (M := bmax best r) in *. f_equal. simpl filter.
          assert (Hn : (G it =? M) = false).
          { apply Z.eqb_neq. unfold sb in Es. destruct mx; apply Z.ltb_ge in Es; lia. }
          rewrite Hn. reflexivity.
  Qed.

  Lemma bmax_perm l l' : Permutation l l' -> forall b, bmax b l = bmax b l'.
  Proof.
    intros Hp. induction Hp as [|x l l' Hp IH|x y l|l l' l'' Hp1 IH1 Hp2 IH2]; intros b.
    - reflexivity.
    - simpl. apply IH.
    - unfold bmax. simpl. f_equal. unfold sb.
      destruct mx.
      + destruct (Z.ltb_spec (G y) b), (Z.ltb_spec (G x) b); try lia;
        repeat match goal with |- context [?a <? ?c] => destruct (Z.ltb_spec a c) end; lia.
      + destruct (Z.ltb_spec b (G y)), (Z.ltb_spec b (G x)); try lia;
        repeat match goal with |- context [?a <? ?c] => destruct (Z.ltb_spec a c) end; lia.
    - rewrite IH1. apply IH2.
  Qed.
End BestFold.

Lemma filter_perm {A} (f : A -> bool) l l' : Permutation l l' -> Permutation (filter f l) (filter f l').
Proof.
  intros Hp. induction Hp as [|x l l' Hp IH|x y l|l l' l'' Hp1 IH1 Hp2 IH2]; simpl; auto.
  - destruct (f x); auto.
  - destruct (f x), (f y); auto. apply perm_swap.
  - eapply perm_trans; eauto.
Qed.

Lemma bfold_ext mx {I} (G G' : I -> Z) T l : (forall it, In it l -> G it = G' it) ->
  forall acc, fold_left (bstep mx G T) l acc = fold_left (bstep mx G' T) l acc.
Proof.
  induction l as [|it r IH]; intros H acc; [reflexivity|]. simpl.
  assert (E : bstep mx G T acc it = bstep mx G' T acc it).
  { unfold bstep. destruct acc. rewrite (H it (or_introl eq_refl)). reflexivity. }
  rewrite E. apply IH. intros it' Hi. apply H. right. exact Hi.
Qed.

(* two permuted item lists: same best gain, permuted best offers *)
Lemma bfold_perm mx {I} (G : I -> Z) T l l' : Permutation l l' ->
  snd (fold_left (bstep mx G T) l ([], 0)) = snd (fold_left (bstep mx G T) l' ([], 0)) /\
  Permutation (fst (fold_left (bstep mx G T) l ([], 0))) (fst (fold_left (bstep mx G T) l' ([], 0))).
Proof.
  intros Hp. rewrite !bfold_closed. simpl. rewrite (bmax_perm mx G l l' Hp 0). split; [reflexivity|].
  apply Permutation_app_head. apply Permutation_map. apply filter_perm. exact Hp.
Qed.
(* ---- order-independence of bestl, tables as permutations of the neighbour list *)
Lemma fold_op_perm (op : Z -> Z -> Z) : (forall a b c, op (op a b) c = op (op a c) b) ->
  forall l l', Permutation l l' -> forall b, fold_left op l b = fold_left op l' b.
Proof.
  intros Hc l l' Hp. induction Hp as [|x l l' Hp IH|x y l|l l' l'' Hp1 IH1 Hp2 IH2]; intros b.
  - reflexivity.
  - simpl. apply IH.
  - simpl. rewrite Hc. reflexivity.
  - rewrite IH1. apply IH2.
Qed.

Lemma bestl_perm d l l' : Permutation l l' -> bestl d l = bestl d l'.
Proof.
  set (op := fun a b : Z => if d_max d then Z.min a b else Z.max a b).
  assert (Hc : forall a b c, op (op a b) c = op (op a c) b) by (intros a b c; unfold op; destruct (d_max d); lia).
  assert (Hs : forall a b, op a b = op b a) by (intros a b; unfold op; destruct (d_max d); lia).
  intros Hp. induction Hp as [|x l l' Hp IH|x y l|l l' l'' Hp1 IH1 Hp2 IH2].
  - reflexivity.
  - unfold bestl. fold op. apply (fold_op_perm op Hc l l' Hp).
  - unfold bestl. fold op. simpl. rewrite (Hs y x). reflexivity.
  - congruence.
Qed.

Lemma forallb_perm {A} (f : A -> bool) l l' : Permutation l l' -> forallb f l = forallb f l'.
Proof.
  intros Hp. induction Hp as [|x l l' Hp IH|x y l|l l' l'' Hp1 IH1 Hp2 IH2]; simpl.
  - reflexivity.
  - rewrite IH. reflexivity.
  - destruct (f x), (f y); reflexivity.
  - congruence.
Qed.

(* a complete table (distinct keys inside the neighbours, as many as neighbours) whose entries are
   [f key]: a permutation of the table in neighbour order *)
Lemma table_perm {B} (f : Z -> B) (tab : list (Z * B)) (nb : list Z) :
  NoDup (map fst tab) -> incl (map fst tab) nb -> length tab = length nb ->
  (forall x v, In (x, v) tab -> v = f x) ->
  Permutation tab (map (fun x => (x, f x)) nb).
Proof.
  intros Hnd Hi Hl Hv.
  assert (E : tab = map (fun x => (x, f x)) (map fst tab)).
  { clear Hnd Hi Hl. induction tab as [|[x v] r IH]; [reflexivity|]. simpl.
    rewrite (Hv x v (or_introl eq_refl)). f_equal. apply IH. intros x' v' H. apply Hv. right. exact H. }
  rewrite E at 1. apply Permutation_map. apply NoDup_Permutation_bis; [exact Hnd| |exact Hi].
  rewrite map_length. lia.
Qed.

Lemma table_get (tab : list (Z * Z)) (nb : list Z) (f : Z -> Z) x :
  NoDup (map fst tab) -> incl (map fst tab) nb -> length tab = length nb ->
  (forall x v, In (x, v) tab -> v = f x) -> In x nb -> aget tab x = f x.
Proof.
  intros Hnd Hi Hl Hv Hx.
  assert (Hk : In x (map fst tab)).
  { apply (full_in _ nb); [exact Hnd|exact Hi|rewrite map_length; exact Hl|exact Hx]. }
  apply in_map_iff in Hk as [[x' v] [E Hin]]. simpl in E. subst x'.
  rewrite (aget_in tab x v Hnd Hin). apply Hv. exact Hin.
Qed.
(* ================================================================== one round, one node *)
Section RoundRef.
  Variable d : dcop.
  Variables stop thr favor : Z.
  Variable a : Z -> Z.            (* the assignment at the start of the cycle *)
  Variable o : Z -> list Z.       (* the remaining draws of every node at the start of the cycle *)
  Notation nbr := (nbrs d).
  Notation E0 := enter0.

  (* the messages of the cycle *)
  Definition mO (x y : Z) : m2msg :=
    if opt_is (r2_choice d thr o x) y then M2Offer true (r2_offers d a x y) else M2Offer false [].
  Definition mA (x y : Z) : m2msg :=
    match r2_acc d thr favor a o x with
    | Some (vo, _, p) => if y =? p then M2Answer true (Some vo) (Some (snd (r2_best_offer d thr a o x)))
                         else M2Answer false None None
    | None => M2Answer false None None
    end.

  (* a complete table of neighbour values holding the reference values *)
  Definition nv_ok (n : Z) (nv : list (Z * Z)) : Prop :=
    NoDup (map fst nv) /\ incl (map fst nv) (nbr n) /\ length nv = length (nbr n) /\
    forall x v, In (x, v) nv -> v = a x.

  Lemma nv_get n nv v : nv_ok n nv -> In v (nbr n) -> aget nv v = a v.
  Proof. intros (H1 & H2 & H3 & H4) Hv. apply (table_get nv (nbr n) a v H1 H2 H3 H4 Hv). Qed.

  Lemma view1_ref n nv x c v : nv_ok n nv -> In c (cons_of d n) -> In v (c_scope c) ->
    view1 n nv x v = fupd a n x v.
  Proof.
    intros Hnv Hc Hv. unfold view1, fupd. destruct (v =? n) eqn:E; [reflexivity|].
    destruct (scope_in_nbrs d n c v Hc Hv) as [->|Hn]; [rewrite Z.eqb_refl in E; discriminate|].
    apply (nv_get n nv v Hnv Hn).
  Qed.
  Lemma view2_ref n nv x p xp c v : nv_ok n nv -> In c (cons_of d n) -> In v (c_scope c) ->
    view2 n nv x p xp v = fupd (fupd a p xp) n x v.
  Proof.
    intros Hnv Hc Hv. unfold view2, fupd. destruct (v =? n) eqn:E; [reflexivity|].
    destruct (v =? p); [reflexivity|].
    destruct (scope_in_nbrs d n c v Hc Hv) as [->|Hn]; [rewrite Z.eqb_refl in E; discriminate|].
    apply (nv_get n nv v Hnv Hn).
  Qed.

  Lemma local_at_ext n f g : (forall c v, In c (cons_of d n) -> In v (c_scope c) -> f v = g v) -> f n = g n ->
    local_at d n f = local_at d n g.
  Proof. intros H Hn. unfold local_at. rewrite (cost_at_ext _ f g H), Hn. reflexivity. Qed.

  Lemma local1_ref n nv x : nv_ok n nv -> local_at d n (view1 n nv x) = local_at d n (fupd a n x).
  Proof.
    intros Hnv. apply local_at_ext; [intros c v Hc Hv; apply (view1_ref n nv x c v Hnv Hc Hv)|].
    unfold view1, fupd. rewrite Z.eqb_refl. reflexivity.
  Qed.
  Lemma local2_ref n nv x p xp : nv_ok n nv ->
    local_at d n (view2 n nv x p xp) = local_at d n (fupd (fupd a p xp) n x).
  Proof.
    intros Hnv. apply local_at_ext; [intros c v Hc Hv; apply (view2_ref n nv x p xp c v Hnv Hc Hv)|].
    unfold view2, fupd. rewrite Z.eqb_refl. reflexivity.
  Qed.
  Lemma fupd_same n : forall v, fupd a n (a n) v = a v.
  Proof. intros v. unfold fupd. destruct (Z.eqb_spec v n) as [->|]; reflexivity. Qed.
  Lemma cost_ref n nv : nv_ok n nv -> local_at d n (view1 n nv (a n)) = r2_cost d a n.
  Proof.
    intros Hnv. rewrite (local1_ref n nv (a n) Hnv). unfold r2_cost. apply local_at_ext; intros; apply fupd_same.
  Qed.
  Lemma ubest_ref n nv : nv_ok n nv -> compute_best_value2 d n nv = r2_ubest d a n.
  Proof.
    intros Hnv. unfold compute_best_value2, r2_ubest. apply find_arg_optimal_ext.
    intros x. apply (local1_ref n nv x Hnv).
  Qed.
  Lemma offers_ref n s p : nv_ok n (t_nv s) -> cost2 s = r2_cost d a n ->
    compute_offers d n s p = r2_offers d a n p.
  Proof.
    intros Hnv Hc. unfold compute_offers, r2_offers. apply flat_map_ext. intros dp. apply flat_map_ext. intros ds.
    rewrite (local2_ref n (t_nv s) ds p dp Hnv), Hc. unfold r2_offer_gain. reflexivity.
  Qed.
  (* ---------------------------------------------------------------- the payload of a computation's state *)
  Definition st23 (n : Z) (s : m2st) : Prop :=
    t_cost s = Some (r2_cost d a n) /\ t_offerer s = r2_offerer thr o n /\ t_partner s = r2_choice d thr o n /\
    t_committed s = false /\ t_pgain s = r2_ugain d a n /\ t_pval s = Some (r2_uval d thr a o n) /\
    t_orc s = r2_orc2 d thr a o n.
  Definition st45 (n : Z) (s : m2st) : Prop :=
    t_cost s = Some (r2_cost d a n) /\ t_offerer s = r2_offerer thr o n /\
    t_partner s = r2_partner d thr favor a o n /\ t_committed s = r2_committed d thr favor a o n /\
    t_pgain s = r2_pgain d thr favor a o n /\ t_pval s = Some (r2_pval d thr favor a o n) /\
    t_orc s = r2_orc_end d thr favor a o n.
  Record pay (n : Z) (s : m2st) : Prop := {
    y_val : t_value s = Some (a n);
    y_nv : forall x v, In (x, v) (t_nv s) -> v = a x;
    y_of : forall x m, In (x, m) (t_offers s) -> m = mO x n;
    y_ng : forall x g, In (x, g) (t_ng s) -> g = r2_pgain d thr favor a o x;
    y_1 : t_state s = 1 -> t_orc s = o n;
    y_23 : 2 <= t_state s <= 3 -> st23 n s;
    y_45 : 4 <= t_state s -> st45 n s;
    y_5 : t_state s = 5 -> t_canmove s = r2_go d thr favor a o n
  }.
  (* the fields a handler leaves alone *)
  Definition same_tabs (s s' : m2st) : Prop :=
    t_value s' = t_value s /\ t_nv s' = t_nv s /\ t_offers s' = t_offers s /\ t_ng s' = t_ng s /\ t_cycle s' = t_cycle s.

  (* ---------------------------------------------------------------- values complete *)
  Lemma hvm_eval n s : handle_value_messages d thr n E0 s =
    let c := local_at d n (view1 n (t_nv s) (cur2 s)) in
    let k := fst (draw (t_orc s)) in let o1 := snd (draw (t_orc s)) in
    let off := k <? thr in
    let partner := if off then Some (choose (nbr n) (fst (draw o1)) 0) else None in
    let o2 := if off then snd (draw o1) else o1 in
    let s2 := set_t_orc (set_t_offerer (set_t_partner (set_t_cost s (Some c)) partner) off) o2 in
    let best := compute_best_value2 d n (t_nv s) in
    let pg := c - snd best in
    let imp := if d_max d then pg <? 0 else 0 <? pg in
    let pv := if imp then choose (fst best) (fst (draw o2)) (cur2 s) else cur2 s in
    let o3 := if imp then snd (draw o2) else o2 in
    (set_t_state (set_t_orc (set_t_pval (set_t_pgain s2 pg) (Some pv)) o3) 2,
     map (fun t => if opt_is partner t then (t, M2Offer true (compute_offers d n s2 t)) else (t, M2Offer false [])) (nbr n),
     []).
  Proof.
    unfold handle_value_messages, enter0, ret2. destruct s. cbn.
    destruct (draw t_orc) as [k o1]. cbn. destruct (k <? thr).
    - destruct (draw o1) as [x o2]. cbn.
      destruct (compute_best_value2 d n t_nv) as [vals best]. cbn.
      match goal with |- context [if ?c then _ else _] => destruct c end;
        [destruct (draw o2) as [x3 o3]|]; cbn; rewrite !app_nil_r; reflexivity.
    - cbn. destruct (compute_best_value2 d n t_nv) as [vals best]. cbn.
      match goal with |- context [if ?c then _ else _] => destruct c end;
        [destruct (draw o1) as [x3 o3]|]; cbn; rewrite !app_nil_r; reflexivity.
  Qed.
  Lemma hvm_ref n s : nv_ok n (t_nv s) -> t_value s = Some (a n) -> t_orc s = o n -> t_committed s = false ->
    exists s', handle_value_messages d thr n E0 s = (s', map (fun t => (t, mO n t)) (nbr n), []) /\
      t_state s' = 2 /\ st23 n s' /\ same_tabs s s'.
  Proof.
    intros Hnv Hval Horc Hcom. rewrite hvm_eval. cbv zeta.
    assert (Hcur : cur2 s = a n) by (unfold cur2; rewrite Hval; reflexivity).
    rewrite Hcur, (cost_ref n _ Hnv), (ubest_ref n _ Hnv), Horc.
    change (if fst (draw (o n)) <? thr then Some (choose (nbr n) (fst (draw (snd (draw (o n))))) 0) else None)
      with (r2_choice d thr o n).
    eexists. split; [|split; [|split]].
    - f_equal. f_equal. apply map_ext. intros t. unfold mO.
      destruct (opt_is (r2_choice d thr o n) t); [|reflexivity].
      rewrite offers_ref; [reflexivity| |]; destruct s; cbn in *; [exact Hnv|reflexivity].
    - destruct s; reflexivity.
    - destruct s; cbn in *. subst. unfold st23. cbn. repeat split.
    - destruct s; cbn. repeat split.
  Qed.
  (* ---------------------------------------------------------------- offers complete *)
  Definition of_ok (n : Z) (offs : list (Z * m2msg)) : Prop :=
    NoDup (map fst offs) /\ incl (map fst offs) (nbr n) /\ length offs = length (nbr n) /\
    forall x m, In (x, m) offs -> m = mO x n.

  Definition flat_offers (all : list (Z * list (Z * Z * Z))) : list (Z * (Z * Z * Z)) :=
    flat_map (fun po => map (fun ofr => (fst po, ofr)) (snd po)) all.
  Definition Tof (it : Z * (Z * Z * Z)) : Z * Z * Z := let '(p, (vp, vme, _)) := it in (vp, vme, p).
  Definition Gs (n : Z) (s : m2st) (it : Z * (Z * Z * Z)) : Z :=
    let '(p, (vp, vme, pg)) := it in
    cost2 s - cost_at (filter (fun c => negb (zmem p (c_scope c))) (cons_of d n)) (view2 n (t_nv s) vme p vp) + pg.
  Definition Gr (n : Z) (it : Z * (Z * Z * Z)) : Z :=
    let '(p, (vo, vme, pg)) := it in r2_claimed d a n p vo vme pg.

  Lemma fold_flat {A B C} (f : A -> C -> A) (g : B -> list C) l : forall acc,
    fold_left (fun acc x => fold_left f (g x) acc) l acc = fold_left f (flat_map g l) acc.
  Proof. induction l as [|x r IH]; intros acc; simpl; [reflexivity|]. rewrite fold_left_app. apply IH. Qed.
  Lemma fold_map {A B C} (f : A -> C -> A) (g : B -> C) l : forall acc,
    fold_left (fun acc x => f acc (g x)) l acc = fold_left f (map g l) acc.
  Proof. induction l as [|x r IH]; intros acc; simpl; [reflexivity|]. apply IH. Qed.

  Lemma fold_left_ext2 {A B} (f g : A -> B -> A) l : (forall acc x, f acc x = g acc x) ->
    forall acc, fold_left f l acc = fold_left g l acc.
  Proof. intros H. induction l as [|x r IH]; intros acc; simpl; [reflexivity|]. rewrite H. apply IH. Qed.

  Lemma fbo_fold n s all :
    find_best_offer d n s all = fold_left (bstep (d_max d) (Gs n s) Tof) (flat_offers all) ([], 0).
  Proof.
    unfold find_best_offer, flat_offers. rewrite <- fold_flat. apply fold_left_ext2. intros acc po.
    rewrite <- fold_map. apply fold_left_ext2. intros [bests best] [[vp vme] pg]. reflexivity.
  Qed.
  Lemma rbo_fold n :
    r2_best_offer d thr a o n =
    fold_left (bstep (d_max d) (Gr n) Tof) (flat_offers (map (fun x => (x, r2_offers d a x n)) (r2_offerers d thr o n))) ([], 0).
  Proof.
    unfold r2_best_offer, flat_offers. rewrite <- fold_flat, <- fold_map. apply fold_left_ext2. intros acc x. cbn [fst snd].
    rewrite <- fold_map. apply fold_left_ext2. intros [bests best] [[vp vme] pg]. reflexivity.
  Qed.

  Lemma Gs_Gr n s it : nv_ok n (t_nv s) -> cost2 s = r2_cost d a n -> Gs n s it = Gr n it.
  Proof.
    intros Hnv Hc. destruct it as [p [[vp vme] pg]]. unfold Gs, Gr, r2_claimed. rewrite Hc. f_equal. f_equal.
    apply cost_at_ext. intros c v Hcin Hv. apply filter_In in Hcin as [Hcin _].
    apply (view2_ref n (t_nv s) vme p vp c v Hnv Hcin Hv).
  Qed.

  Lemma offering_ref n offs : (forall x m, In (x, m) offs -> m = mO x n) ->
    offering offs = map (fun x => (x, r2_offers d a x n)) (filter (fun x => opt_is (r2_choice d thr o x) n) (map fst offs)).
  Proof.
    induction offs as [|[x m] r IH]; intros H; [reflexivity|].
    unfold offering in *. simpl. rewrite (H x m (or_introl eq_refl)). unfold mO.
    destruct (opt_is (r2_choice d thr o x) n); simpl; [f_equal|]; apply IH; intros x' m' Hi; apply H; right; exact Hi.
  Qed.

  Lemma offering_perm n offs : of_ok n offs ->
    Permutation (offering offs) (map (fun x => (x, r2_offers d a x n)) (r2_offerers d thr o n)).
  Proof.
    intros (H1 & H2 & H3 & H4). rewrite (offering_ref n offs H4). apply Permutation_map.
    unfold r2_offerers.
    rewrite (filter_ext (fun x => match r2_choice d thr o x with Some p => p =? n | None => false end)
                        (fun x => opt_is (r2_choice d thr o x) n)).
    2:{ intros x. unfold opt_is. destruct (r2_choice d thr o x); [apply Z.eqb_sym|reflexivity]. }
    apply filter_perm. apply NoDup_Permutation_bis; [exact H1| |exact H2]. rewrite map_length. lia.
  Qed.

  Lemma fbo_ref n s : nv_ok n (t_nv s) -> of_ok n (t_offers s) -> cost2 s = r2_cost d a n ->
    snd (find_best_offer d n s (offering (t_offers s))) = snd (r2_best_offer d thr a o n) /\
    Permutation (fst (find_best_offer d n s (offering (t_offers s)))) (fst (r2_best_offer d thr a o n)).
  Proof.
    intros Hnv Hof Hc. rewrite fbo_fold, rbo_fold.
    rewrite (bfold_ext (d_max d) (Gs n s) (Gr n) Tof) by (intros it _; apply Gs_Gr; assumption).
    apply bfold_perm. unfold flat_offers. apply Permutation_flat_map. apply offering_perm. exact Hof.
  Qed.
  Lemma perm_nobest {A} (l l' : list A) : Permutation l l' ->
    match l with [] => true | _ => false end = match l' with [] => true | _ => false end.
  Proof.
    intros Hp. destruct l; destruct l'; try reflexivity.
    - apply Permutation_nil in Hp. discriminate.
    - apply Permutation_sym, Permutation_nil in Hp. discriminate.
  Qed.

  Lemma hom_ref_offerer n s : t_offerer s = true ->
    handle_offer_messages d favor n E0 s = (set_t_state s 3, map (fun so => (fst so, M2Answer false None None)) (offering (t_offers s)), []).
  Proof.
    intros Ho. unfold handle_offer_messages, enter0, ret2. rewrite Ho. cbn. rewrite !app_nil_r. reflexivity.
  Qed.

  Lemma hom_ref_other n s : nv_ok n (t_nv s) -> of_ok n (t_offers s) -> st23 n s -> t_offerer s = false ->
    exists s', handle_offer_messages d favor n E0 s =
        (s', map (fun so => (fst so, mA n (fst so))) (offering (t_offers s)) ++
             map (fun t => (t, M2Gain (r2_pgain d thr favor a o n))) (nbr n), []) /\
      t_state s' = 4 /\ st45 n s' /\ same_tabs s s'.
  Proof.
    intros Hnv Hof (C1 & C2 & C3 & C4 & C5 & C6 & C7) Ho.
    assert (Hc2 : cost2 s = r2_cost d a n) by (unfold cost2; rewrite C1; reflexivity).
    destruct (fbo_ref n s Hnv Hof Hc2) as [Hg Hp].
    unfold handle_offer_messages, enter0, ret2, send_gain2. rewrite Ho.
    destruct (find_best_offer d n s (offering (t_offers s))) as [bests gain]. cbn [fst snd] in Hg, Hp.
    rewrite (perm_nobest _ _ Hp), (isort_t3_perm _ _ Hp), C5, C7. subst gain.
    assert (Hno : r2_offerer thr o n = false) by congruence.
    unfold mA, st45, r2_pgain, r2_pval, r2_partner, r2_committed, r2_orc_end, r2_acc, r2_accept, r2_decide. rewrite Hno.
    destruct (r2_best_offer d thr a o n) as [rb rg]. cbn [fst snd].
    match goal with |- context [let '(committed, o1) := ?D in _] => set (DEC := D) end.
    destruct DEC as [[|] o1].
    - assert (E : t_orc (set_t_orc (set_t_committed s true) o1) = o1) by (destruct s; reflexivity). rewrite E.
      destruct (draw o1) as [x o0].
      destruct (nth (Z.to_nat (x mod zlen (isort t3_leb rb))) (isort t3_leb rb) (0, 0, 0)) as [[vp vme] p].
      eexists. split; [|split; [|split]].
      + cbn. rewrite !app_nil_r. f_equal. f_equal. apply f_equal2; [|reflexivity].
        apply map_ext. intros so. destruct (fst so =? p); reflexivity.
      + destruct s; reflexivity.
      + destruct s; cbn in *. subst. repeat split; assumption.
      + destruct s; cbn. repeat split.
    - eexists. split; [|split; [|split]].
      + assert (Hpn : t_partner s = None) by (rewrite C3; unfold r2_choice; rewrite Hno; reflexivity).
        cbn. rewrite !app_nil_r, Hpn. f_equal. f_equal. apply f_equal2; [reflexivity|].
        destruct s; cbn in *. subst. reflexivity.
      + destruct s; reflexivity.
      + destruct s; cbn in *. subst. repeat split; try assumption. unfold r2_choice. rewrite Hno. reflexivity.
      + destruct s; cbn. repeat split.
  Qed.
  (* ---------------------------------------------------------------- answer *)
  Lemma hr_ref n s src acc v g : st23 n s -> t_offerer s = true -> t_partner s = Some src ->
    M2Answer acc v g = mA src n ->
    exists s', handle_response d n E0 s src acc v g =
        (s', map (fun t => (t, M2Gain (r2_pgain d thr favor a o n))) (nbr n), []) /\
      t_state s' = 4 /\ st45 n s' /\ same_tabs s s'.
  Proof.
    intros (C1 & C2 & C3 & C4 & C5 & C6 & C7) Ho Hp Hm.
    assert (Hoff : r2_offerer thr o n = true) by congruence.
    assert (Hch : r2_choice d thr o n = Some src) by congruence.
    unfold handle_response, enter0, ret2, send_gain2, opt_is. rewrite Ho, Hp, Z.eqb_refl. cbn [negb orb].
    unfold st45, r2_pgain, r2_pval, r2_partner, r2_committed, r2_orc_end, r2_accepted_by. rewrite Hoff, Hch.
    unfold mA in Hm. destruct (r2_acc d thr favor a o src) as [[[vo vp] p]|].
    - rewrite (Z.eqb_sym p n). destruct (n =? p).
      + injection Hm as -> -> ->. eexists. split; [|split; [|split]].
        * cbn. rewrite !app_nil_r. reflexivity.
        * destruct s; reflexivity.
        * destruct s; cbn in *. subst. repeat split; try assumption; try (symmetry; assumption).
        * destruct s; cbn. repeat split.
      + injection Hm as -> -> ->. eexists. split; [|split; [|split]].
        * cbn. rewrite !app_nil_r. rewrite C5. reflexivity.
        * destruct s; reflexivity.
        * destruct s; cbn in *. subst. repeat split; try assumption; try (symmetry; assumption).
        * destruct s; cbn. repeat split.
    - injection Hm as -> -> ->. eexists. split; [|split; [|split]].
      + cbn. rewrite !app_nil_r. rewrite C5. reflexivity.
      + destruct s; reflexivity.
      + destruct s; cbn in *. subst. repeat split; try assumption; try (symmetry; assumption).
      + destruct s; cbn. repeat split.
  Qed.

  (* ---------------------------------------------------------------- end of the cycle *)
  Notation doneb := (doneb stop).
  Definition fresh_next (n : Z) (v : Z) (s s' : m2st) : Prop :=
    t_value s' = Some v /\ t_orc s' = t_orc s /\ t_state s' = 1 /\ t_cycle s' = t_cycle s + 1 /\
    t_nv s' = [] /\ t_offers s' = [] /\ t_ng s' = [].

  Lemma finish_pay n s r v :
    ((r = ret2 s /\ t_value s = Some v) \/ exists c, r = value_selection2 n s v c) ->
    exists s' evs,
      andthen2 r (finish_cycle d stop n E0) =
        (s', map (fun t => (t, M2Value v)) (if doneb (t_cycle s + 1) then [] else nbr n), evs) /\
      fresh_next n v s s'.
  Proof.
    intros [[-> Hv]|[c ->]].
    - rewrite andthen2_ret_l. unfold finish_cycle, send_value2, P_Mgm2x.doneb, enter0, ret2. destruct s. cbn in *. subst.
      destruct (negb (stop =? 0) && (stop <=? t_cycle + 1)); cbn.
      + eexists _, _. split; [reflexivity|]. repeat split.
      + eexists _, _. rewrite !app_nil_r. split; [reflexivity|]. repeat split.
    - unfold value_selection2, andthen2, finish_cycle, send_value2, P_Mgm2x.doneb, enter0, ret2. destruct s. cbn.
      destruct (negb (stop =? 0) && (stop <=? t_cycle + 1)); cbn.
      + eexists _, _. split; [reflexivity|]. repeat split.
      + eexists _, _. rewrite !app_nil_r. split; [reflexivity|]. repeat split.
  Qed.
  (* ---------------------------------------------------------------- gains complete *)
  Definition ng_ok (n : Z) (ng : list (Z * Z)) : Prop :=
    NoDup (map fst ng) /\ incl (map fst ng) (nbr n) /\ length ng = length (nbr n) /\
    forall x g, In (x, g) ng -> g = r2_pgain d thr favor a o x.

  Lemma ng_perm n ng : ng_ok n ng -> Permutation ng (r2_ng d thr favor a o n).
  Proof. intros (H1 & H2 & H3 & H4). apply (table_perm (r2_pgain d thr favor a o) ng (nbr n) H1 H2 H3 H4). Qed.

  Lemma others_perm (l l' : list Z) (g : Z) : Permutation l l' ->
    match l with [] => true | _ => if d_max d then g <? bestl d l else bestl d l <? g end =
    match l' with [] => true | _ => if d_max d then g <? bestl d l' else bestl d l' <? g end.
  Proof.
    intros Hp. rewrite (bestl_perm d l l' Hp). destruct l; destruct l'; try reflexivity.
    - apply Permutation_nil in Hp. discriminate.
    - apply Permutation_sym, Permutation_nil in Hp. discriminate.
  Qed.

  Lemma umoves_ref n ng : ng_ok n ng ->
    ((if d_max d then r2_pgain d thr favor a o n <? bestl d (map snd ng) else bestl d (map snd ng) <? r2_pgain d thr favor a o n)
     || ((r2_pgain d thr favor a o n =? bestl d (map snd ng)) &&
         forallb (fun q => negb (snd q =? bestl d (map snd ng)) || (n <? fst q)) ng))
    = r2_umoves d thr favor a o n.
  Proof.
    intros Hng. pose proof (ng_perm n ng Hng) as Hp. unfold r2_umoves.
    rewrite (bestl_perm d _ _ (Permutation_map snd Hp)).
    rewrite (forallb_perm _ _ _ Hp). reflexivity.
  Qed.

  Lemma go_ref n ng p : ng_ok n ng ->
    (let others := map snd (filter (fun q => negb (fst q =? p)) ng) in
     match others with [] => true
     | _ => if d_max d then r2_pgain d thr favor a o n <? bestl d others else bestl d others <? r2_pgain d thr favor a o n end)
    = (let others := map snd (filter (fun q => negb (fst q =? p)) (r2_ng d thr favor a o n)) in
       match others with [] => true
       | _ => if d_max d then r2_pgain d thr favor a o n <? bestl d others else bestl d others <? r2_pgain d thr favor a o n end).
  Proof.
    intros Hng. cbv zeta. apply others_perm. apply Permutation_map. apply filter_perm. apply (ng_perm n ng Hng).
  Qed.

  Lemma hgm_ref n s : nbr n <> [] -> ng_ok n (t_ng s) -> st45 n s -> t_value s = Some (a n) ->
    (t_committed s = true -> t_pgain s <> 0 /\ exists p, t_partner s = Some p) ->
    (t_committed s = true /\ exists s' p, t_partner s = Some p /\
       handle_gain_messages d stop n E0 s = (s', [(p, M2Go (r2_go d thr favor a o n))], []) /\
       t_state s' = 5 /\ st45 n s' /\ t_canmove s' = r2_go d thr favor a o n /\ same_tabs s s') \/
    (t_committed s = false /\ exists s' evs,
       handle_gain_messages d stop n E0 s =
         (s', map (fun t => (t, M2Value (mgm2_next d thr favor a o n))) (if doneb (t_cycle s + 1) then [] else nbr n), evs) /\
       fresh_next n (mgm2_next d thr favor a o n) s s').
  Proof.
    intros Hact Hng (C1 & C2 & C3 & C4 & C5 & C6 & C7) Hval Hcom.
    unfold handle_gain_messages. destruct (t_committed s) eqn:Ec.
    - left. split; [reflexivity|]. destruct (Hcom eq_refl) as [Hg [p Hp]].
      apply Z.eqb_neq in Hg. rewrite Hg, Hp. unfold enter0, ret2.
      assert (Hgo : (let others := map snd (filter (fun q => negb (fst q =? p)) (t_ng s)) in
                     match others with [] => true | _ => if d_max d then t_pgain s <? bestl d others else bestl d others <? t_pgain s end)
                    = r2_go d thr favor a o n).
      { rewrite C5. rewrite (go_ref n (t_ng s) p Hng). unfold r2_go. rewrite <- C5, <- C4, <- C3, Hg, Hp. reflexivity. }
      cbv zeta in Hgo. cbv zeta. rewrite Hgo.
      eexists _, p. split; [reflexivity|]. split; [cbn; reflexivity|].
      destruct s; cbn in *. subst. repeat split; try assumption; try (symmetry; assumption).
    - right. split; [reflexivity|]. clear Hcom.
      assert (Hact' : r_active d n = true) by (unfold r_active; destruct (nbr n); [congruence|reflexivity]).
      assert (Hnx : mgm2_next d thr favor a o n =
                    if negb (t_pgain s =? 0) && r2_umoves d thr favor a o n then r2_pval d thr favor a o n else a n).
      { unfold mgm2_next, r2_moves. rewrite Hact', <- C4, <- C5. reflexivity. }
      destruct (t_pgain s =? 0) eqn:Eg.
      + simpl in Hnx. rewrite Hnx.
        destruct (finish_pay n s (ret2 s) (a n) (or_introl (conj eq_refl Hval))) as (s' & evs & E & F).
        rewrite andthen2_ret_l in E. exists s', evs. split; assumption.
      + simpl in Hnx. cbv zeta. rewrite C5, (umoves_ref n (t_ng s) Hng). rewrite Hnx.
        destruct (r2_umoves d thr favor a o n).
        * rewrite C6.
          destruct (finish_pay n s _ (r2_pval d thr favor a o n) (or_intror (ex_intro _ (Some (cost2 s - r2_pgain d thr favor a o n)) eq_refl)))
            as (s' & evs & E & F). exists s', evs. split; assumption.
        * destruct (finish_pay n s (ret2 s) (a n) (or_introl (conj eq_refl Hval))) as (s' & evs & E & F).
          exists s', evs. split; assumption.
  Qed.

  (* ---------------------------------------------------------------- go / no-go *)
  Lemma hgo_ref n s src go : nbr n <> [] -> st45 n s -> t_value s = Some (a n) ->
    t_committed s = true -> t_partner s = Some src -> t_pgain s <> 0 -> t_canmove s = r2_go d thr favor a o n ->
    go = r2_go d thr favor a o src ->
    exists s' evs,
      handle_go d stop n E0 s go =
        (s', map (fun t => (t, M2Value (mgm2_next d thr favor a o n))) (if doneb (t_cycle s + 1) then [] else nbr n), evs) /\
      fresh_next n (mgm2_next d thr favor a o n) s s'.
  Proof.
    intros Hact (C1 & C2 & C3 & C4 & C5 & C6 & C7) Hval Hc Hp Hg Hcm ->.
    assert (Hact' : r_active d n = true) by (unfold r_active; destruct (nbr n); [congruence|reflexivity]).
    assert (Hnx : mgm2_next d thr favor a o n =
                  if r2_go d thr favor a o src && r2_go d thr favor a o n then r2_pval d thr favor a o n else a n).
    { unfold mgm2_next, r2_moves. rewrite Hact', <- C4, Hc, <- C3, Hp, <- C5.
      apply Z.eqb_neq in Hg. rewrite Hg. simpl. rewrite andb_comm. reflexivity. }
    unfold handle_go. rewrite Hcm, Hnx.
    destruct (r2_go d thr favor a o src && r2_go d thr favor a o n).
    - rewrite C6.
      destruct (finish_pay n s _ (r2_pval d thr favor a o n) (or_intror (ex_intro _ (Some (cost2 s - t_pgain s)) eq_refl)))
        as (s' & evs & E & F). exists s', evs. split; assumption.
    - destruct (finish_pay n s (ret2 s) (a n) (or_introl (conj eq_refl Hval))) as (s' & evs & E & F).
      exists s', evs. split; assumption.
  Qed.
  (* ---------------------------------------------------------------- one micro-step *)
  Definition refmsg (x y : Z) (m : m2msg) : Prop :=
    match m with
    | M2Value v => v = a x
    | M2Offer _ _ => m = mO x y
    | M2Answer _ _ _ => m = mA x y
    | M2Gain g => g = r2_pgain d thr favor a o x
    | M2Go go => go = r2_go d thr favor a o x
    end.

  Definition post (y : Z) (s s2 : m2st) (o2 : list (node * m2msg)) : Prop :=
    (t_cycle s2 = t_cycle s /\ pay y s2 /\
     forall w m', In (w, m') o2 ->
       refmsg y w m' /\ kind_of m' <> 1 /\ (kind_of m' = 2 -> t_state s2 = 2) /\ (kind_of m' = 4 -> t_state s2 = 4) /\
       (kind_of m' = 5 -> t_committed s = true /\ t_partner s = Some w /\ t_state s = 4)) \/
    (fresh_next y (mgm2_next d thr favor a o y) s s2 /\ 4 <= t_state s /\ t_orc s = r2_orc_end d thr favor a o y /\
     forall w m', In (w, m') o2 -> m' = M2Value (mgm2_next d thr favor a o y) /\ doneb (t_cycle s + 1) = false).

  Lemma pay_tabs y s s' : same_tabs s s' -> pay y s ->
    (t_state s' = 1 -> t_orc s' = o y) -> (2 <= t_state s' <= 3 -> st23 y s') -> (4 <= t_state s' -> st45 y s') ->
    (t_state s' = 5 -> t_canmove s' = r2_go d thr favor a o y) -> pay y s'.
  Proof.
    intros (E1 & E2 & E3 & E4 & E5) [] H1 H2 H3 H4. constructor; rewrite ?E1, ?E2, ?E3, ?E4; assumption.
  Qed.

  Lemma in_snoc {A} (l : list A) x y : In y (l ++ [x]) -> In y l \/ y = x.
  Proof. intros H. apply in_app_or in H as [H|[H|[]]]; auto. Qed.

  Lemma mO_kind x y : exists f os, mO x y = M2Offer f os.
  Proof. unfold mO. destruct (opt_is _ _); eexists _, _; reflexivity. Qed.

  Lemma mstep_V y s x v s2 o2 e2 :
    good d stop y s -> pay y s -> In x (nbr y) -> t_state s = 1 -> v = a x -> kinv x (t_nv s) = false ->
    mstep d stop thr favor y s x (M2Value v) = (s2, o2, e2) -> post y s s2 o2.
  Proof.
    intros G P Hx Hk Hv Hfr Hm. left.
    assert (Hact : nbr y <> []) by (intros Hc; rewrite Hc in Hx; exact Hx).
    unfold mstep, on_msg in Hm. simpl kind_of in Hm. rewrite Hk in Hm. simpl negb in Hm. cbv iota zeta in Hm.
    rewrite (dict_set_fresh x v (t_nv s) Hfr) in Hm.
    set (s1 := set_t_nv s (t_nv s ++ [(x, v)])) in *.
    assert (T1 : t_value s1 = t_value s /\ t_nv s1 = t_nv s ++ [(x, v)] /\ t_offers s1 = t_offers s /\ t_ng s1 = t_ng s /\
                 t_cycle s1 = t_cycle s /\ t_state s1 = t_state s /\ t_orc s1 = t_orc s /\ t_committed s1 = t_committed s)
      by (destruct s; repeat split).
    destruct T1 as (T1 & T2 & T3 & T4 & T5 & T6 & T7 & T8).
    destruct (g_nv _ _ _ _ G) as [Nd Inc]. destruct (g_fl1 _ _ _ _ G Hk) as (_ & Fcom & _).
    assert (Hent : forall x' v', In (x', v') (t_nv s1) -> v' = a x').
    { intros x' v'. rewrite T2. intros H. apply in_snoc in H as [H|H]; [apply (y_nv _ _ P x' v' H)|]. congruence. }
    assert (P1 : pay y s1).
    { destruct P. constructor; rewrite ?T1, ?T3, ?T4, ?T6, ?T7; assumption. }
    destruct (zlen (t_nv s1) =? zlen (nbr y)) eqn:Ez.
    - rewrite zlen_eqb in Ez. apply Nat.eqb_eq in Ez.
      assert (Hnv : nv_ok y (t_nv s1)).
      { unfold nv_ok. rewrite T2 at 1 2. rewrite map_app. simpl. split; [|split; [|split]].
        - apply NoDup_snoc; [exact Nd|]. apply kinv_false. exact Hfr.
        - intros z Hz. apply in_app_or in Hz as [Hz|[<-|[]]]; [apply Inc; exact Hz|exact Hx].
        - exact Ez.
        - exact Hent. }
      destruct (hvm_ref y s1 Hnv) as (s' & E & K2 & S23 & ST).
      { rewrite T1. apply (y_val _ _ P). }
      { rewrite T7. apply (y_1 _ _ P Hk). }
      { rewrite T8. exact Fcom. }
      rewrite E in Hm. injection Hm as <- <- <-.
      split; [destruct ST as (_ & _ & _ & _ & E5); rewrite E5; exact T5|]. split.
      + apply (pay_tabs y s1 s' ST P1); rewrite K2; intros H; try (exfalso; lia). exact S23.
      + intros w m' Hin. apply in_map_iff in Hin as [t [Et _]]. injection Et as <- <-.
        destruct (mO_kind y t) as (f & os & Em). rewrite Em. simpl. repeat split; try discriminate; auto.
    - unfold ret2 in Hm. injection Hm as <- <- <-.
      split; [exact T5|]. split; [exact P1|]. intros w m' [].
  Qed.
  Lemma mA_kind x y : exists ac v g, mA x y = M2Answer ac v g.
  Proof.
    unfold mA. destruct (r2_acc d thr favor a o x) as [[[vo vp] p]|]; [destruct (y =? p)|]; eexists _, _, _; reflexivity.
  Qed.
  Lemma mA_offerer x y : r2_offerer thr o x = true -> mA x y = M2Answer false None None.
  Proof. intros H. unfold mA, r2_acc. rewrite H. reflexivity. Qed.

  Lemma good_nv_ok y s : good d stop y s -> pay y s -> 2 <= t_state s -> nv_ok y (t_nv s).
  Proof.
    intros G P H. destruct (g_nv _ _ _ _ G) as [Nd Inc].
    split; [exact Nd|]. split; [exact Inc|]. split; [apply (g_nv2 _ _ _ _ G H)|apply (y_nv _ _ P)].
  Qed.

  Lemma mstep_O y s x f os s2 o2 e2 :
    good d stop y s -> pay y s -> In x (nbr y) -> t_state s = 2 -> M2Offer f os = mO x y -> kino x (t_offers s) = false ->
    mstep d stop thr favor y s x (M2Offer f os) = (s2, o2, e2) -> post y s s2 o2.
  Proof.
    intros G P Hx Hk Hv Hfr Hm. left.
    unfold mstep, on_msg in Hm. simpl kind_of in Hm. rewrite Hk in Hm. simpl negb in Hm. cbv iota zeta in Hm.
    set (s1 := set_t_offers s (t_offers s ++ [(x, M2Offer f os)])) in *.
    assert (T : t_value s1 = t_value s /\ t_nv s1 = t_nv s /\ t_offers s1 = t_offers s ++ [(x, M2Offer f os)] /\ t_ng s1 = t_ng s /\
                t_cycle s1 = t_cycle s /\ t_state s1 = t_state s /\ t_orc s1 = t_orc s /\ t_committed s1 = t_committed s /\
                t_cost s1 = t_cost s /\ t_offerer s1 = t_offerer s /\ t_partner s1 = t_partner s /\ t_pgain s1 = t_pgain s /\
                t_pval s1 = t_pval s /\ t_canmove s1 = t_canmove s)
      by (destruct s; repeat split).
    destruct T as (T1 & T2 & T3 & T4 & T5 & T6 & T7 & T8 & T9 & T10 & T11 & T12 & T13 & T14).
    destruct (g_of _ _ _ _ G) as (Nd & Inc & _).
    assert (H2 : 2 <= t_state s <= 3) by lia.
    pose proof (y_23 _ _ P H2) as S23.
    assert (S23' : st23 y s1) by (unfold st23 in *; rewrite T9, T10, T11, T8, T12, T13, T7; exact S23).
    assert (Hent : forall x' m', In (x', m') (t_offers s1) -> m' = mO x' y).
    { intros x' m'. rewrite T3. intros H. apply in_snoc in H as [H|H]; [apply (y_of _ _ P x' m' H)|]. congruence. }
    assert (P1 : pay y s1).
    { destruct P. constructor; rewrite ?T1, ?T2, ?T4, ?T6, ?T7, ?T14; assumption. }
    destruct (zlen (t_offers s1) =? zlen (nbr y)) eqn:Ez.
    - rewrite zlen_eqb in Ez. apply Nat.eqb_eq in Ez.
      assert (Hof : of_ok y (t_offers s1)).
      { unfold of_ok. rewrite T3 at 1 2. rewrite map_app. simpl. split; [|split; [|split]].
        - apply NoDup_snoc; [exact Nd|]. apply kino_false. exact Hfr.
        - intros z Hz. apply in_app_or in Hz as [Hz|[<-|[]]]; [apply Inc; exact Hz|exact Hx].
        - exact Ez.
        - exact Hent. }
      assert (Hnv : nv_ok y (t_nv s1)) by (rewrite T2; apply (good_nv_ok y s G P); lia).
      destruct (t_offerer s1) eqn:Eo.
      + rewrite (hom_ref_offerer y s1 Eo) in Hm. injection Hm as <- <- <-.
        assert (ST : same_tabs s1 (set_t_state s1 3)) by (destruct s1; repeat split).
        assert (K : t_state (set_t_state s1 3) = 3) by (destruct s1; reflexivity).
        split; [destruct s1; cbn in *; exact T5|]. split.
        * apply (pay_tabs y s1 _ ST P1); rewrite K; intros H; try (exfalso; lia).
          destruct s1; cbn in *. exact S23'.
        * intros w m' Hin. apply in_map_iff in Hin as [so [Et _]]. injection Et as <- <-.
          assert (Hoy : r2_offerer thr o y = true) by (destruct S23' as (_ & C2 & _); congruence).
          simpl. rewrite (mA_offerer y (fst so) Hoy). repeat split; try discriminate; auto.
      + destruct (hom_ref_other y s1 Hnv Hof S23' Eo) as (s' & E & K4 & S45 & ST).
        rewrite E in Hm. injection Hm as <- <- <-.
        split; [destruct ST as (_ & _ & _ & _ & E5); rewrite E5; exact T5|]. split.
        * apply (pay_tabs y s1 s' ST P1); rewrite K4; intros H; try (exfalso; lia). exact S45.
        * intros w m' Hin. apply in_app_or in Hin as [Hin|Hin].
          -- apply in_map_iff in Hin as [so [Et _]]. injection Et as <- <-.
             destruct (mA_kind y (fst so)) as (ac & v0 & g0 & Em). rewrite Em. simpl. rewrite Em.
             repeat split; try discriminate; auto.
          -- apply in_map_iff in Hin as [t [Et _]]. injection Et as <- <-. simpl.
             repeat split; try discriminate; auto.
    - unfold ret2 in Hm. injection Hm as <- <- <-.
      split; [exact T5|]. split; [exact P1|]. intros w m' [].
  Qed.
  Lemma mstep_A y s x ac v g s2 o2 e2 :
    good d stop y s -> pay y s -> t_state s = 3 -> M2Answer ac v g = mA x y ->
    t_offerer s = true -> t_partner s = Some x ->
    mstep d stop thr favor y s x (M2Answer ac v g) = (s2, o2, e2) -> post y s s2 o2.
  Proof.
    intros G P Hk Hv Ho Hp Hm. left.
    unfold mstep, on_msg in Hm. simpl kind_of in Hm. rewrite Hk in Hm. simpl negb in Hm. cbv iota zeta in Hm.
    assert (H2 : 2 <= t_state s <= 3) by lia.
    destruct (hr_ref y s x ac v g (y_23 _ _ P H2) Ho Hp Hv) as (s' & E & K4 & S45 & ST).
    rewrite E in Hm. injection Hm as <- <- <-.
    split; [destruct ST as (_ & _ & _ & _ & E5); exact E5|]. split.
    - apply (pay_tabs y s s' ST P); rewrite K4; intros H; try (exfalso; lia). exact S45.
    - intros w m' Hin. apply in_map_iff in Hin as [t [Et _]]. injection Et as <- <-. simpl.
      repeat split; try discriminate; auto.
  Qed.

  Lemma mstep_G y s x g s2 o2 e2 :
    good d stop y s -> pay y s -> In x (nbr y) -> t_state s = 4 -> g = r2_pgain d thr favor a o x -> kinv x (t_ng s) = false ->
    mstep d stop thr favor y s x (M2Gain g) = (s2, o2, e2) -> post y s s2 o2.
  Proof.
    intros G P Hx Hk Hv Hfr Hm.
    assert (Hact : nbr y <> []) by (intros Hc; rewrite Hc in Hx; exact Hx).
    unfold mstep, on_msg in Hm. simpl kind_of in Hm. rewrite Hk in Hm. simpl negb in Hm. cbv iota zeta in Hm.
    rewrite (dict_set_fresh x g (t_ng s) Hfr) in Hm.
    set (s1 := set_t_ng s (t_ng s ++ [(x, g)])) in *.
    assert (T : t_value s1 = t_value s /\ t_nv s1 = t_nv s /\ t_offers s1 = t_offers s /\ t_ng s1 = t_ng s ++ [(x, g)] /\
                t_cycle s1 = t_cycle s /\ t_state s1 = t_state s /\ t_orc s1 = t_orc s /\ t_committed s1 = t_committed s /\
                t_partner s1 = t_partner s /\ t_pgain s1 = t_pgain s /\ t_canmove s1 = t_canmove s)
      by (destruct s; repeat split).
    destruct T as (T1 & T2 & T3 & T4 & T5 & T6 & T7 & T8 & T9 & T10 & T11).
    destruct (g_ng _ _ _ _ G) as (Nd & Inc).
    assert (H4 : 4 <= t_state s) by lia.
    pose proof (y_45 _ _ P H4) as S45.
    assert (Hent : forall x' g', In (x', g') (t_ng s1) -> g' = r2_pgain d thr favor a o x').
    { intros x' g'. rewrite T4. intros H. apply in_snoc in H as [H|H]; [apply (y_ng _ _ P x' g' H)|]. congruence. }
    assert (P1 : pay y s1).
    { destruct P. constructor; rewrite ?T1, ?T2, ?T3, ?T6, ?T7, ?T11; assumption. }
    destruct (zlen (t_ng s1) =? zlen (nbr y)) eqn:Ez.
    - rewrite zlen_eqb in Ez. apply Nat.eqb_eq in Ez.
      assert (Hng : ng_ok y (t_ng s1)).
      { unfold ng_ok. rewrite T4 at 1 2. rewrite map_app. simpl. split; [|split; [|split]].
        - apply NoDup_snoc; [exact Nd|]. apply kinv_false. exact Hfr.
        - intros z Hz. apply in_app_or in Hz as [Hz|[<-|[]]]; [apply Inc; exact Hz|exact Hx].
        - exact Ez.
        - exact Hent. }
      destruct (hgm_ref y s1 Hact Hng) as [(Ec & s' & p & Hp & E & K5 & S45' & Hcm & ST)|(Ec & s' & evs & E & F)].
      { exact S45. }
      { rewrite T1. apply (y_val _ _ P). }
      { rewrite T8, T10, T9. intros Hc. destruct (g_com _ _ _ _ G Hc) as [Hg (p & Hp & _)]. split; [exact Hg|exists p; exact Hp]. }
      + rewrite E in Hm. injection Hm as <- <- <-. left.
        split; [destruct ST as (_ & _ & _ & _ & E5); rewrite E5; exact T5|]. split.
        * apply (pay_tabs y s1 s' ST P1); rewrite K5; intros H; try (exfalso; lia); assumption.
        * intros w m' [Hin|[]]. injection Hin as <- <-. simpl. repeat split; try discriminate; auto.
      + rewrite E in Hm. injection Hm as <- <- <-. right.
        split; [|split; [exact H4|split]].
        * destruct F as (F1 & F2 & F3 & F4 & F5 & F6 & F7). repeat split; try assumption; congruence.
        * destruct S45 as (_ & _ & _ & _ & _ & _ & C7). exact C7.
        * intros w m' Hin. apply in_map_iff in Hin as [t [Et Hin]]. injection Et as <- <-.
          split; [reflexivity|]. destruct (doneb (t_cycle s + 1)); [destruct Hin|reflexivity].
    - unfold ret2 in Hm. injection Hm as <- <- <-. left.
      split; [exact T5|]. split; [exact P1|]. intros w m' [].
  Qed.

  Lemma mstep_Go y s x go s2 o2 e2 :
    good d stop y s -> pay y s -> nbr y <> [] -> t_state s = 5 -> go = r2_go d thr favor a o x -> t_partner s = Some x ->
    mstep d stop thr favor y s x (M2Go go) = (s2, o2, e2) -> post y s s2 o2.
  Proof.
    intros G P Hact Hk Hv Hp Hm. right.
    unfold mstep, on_msg in Hm. simpl kind_of in Hm. rewrite Hk in Hm. simpl negb in Hm. cbv iota zeta in Hm.
    assert (H4 : 4 <= t_state s) by lia.
    pose proof (y_45 _ _ P H4) as S45.
    pose proof (g_k5 _ _ _ _ G Hk) as Hc. destruct (g_com _ _ _ _ G Hc) as [Hg _].
    destruct (hgo_ref y s x go Hact S45 (y_val _ _ P) Hc Hp Hg (y_5 _ _ P Hk) Hv) as (s' & evs & E & F).
    rewrite E in Hm. injection Hm as <- <- <-.
    split; [exact F|split; [exact H4|split]].
    - destruct S45 as (_ & _ & _ & _ & _ & _ & C7). exact C7.
    - intros w m' Hin. apply in_map_iff in Hin as [t [Et Hin]]. injection Et as <- <-.
      split; [reflexivity|]. destruct (doneb (t_cycle s + 1)); [destruct Hin|reflexivity].
  Qed.
  Lemma mstep_pay y s x m s2 o2 e2 :
    good d stop y s -> pay y s -> In x (nbr y) -> kind_of m = t_state s -> refmsg x y m ->
    (forall v, m = M2Value v -> kinv x (t_nv s) = false) ->
    (forall f os, m = M2Offer f os -> kino x (t_offers s) = false) ->
    (forall g, m = M2Gain g -> kinv x (t_ng s) = false) ->
    (forall ac v g, m = M2Answer ac v g -> t_offerer s = true /\ t_partner s = Some x) ->
    (forall go, m = M2Go go -> t_partner s = Some x) ->
    mstep d stop thr favor y s x m = (s2, o2, e2) -> post y s s2 o2.
  Proof.
    intros G P Hx Hk Hr F1 F2 F4 F3 F5 Hm.
    assert (Hact : nbr y <> []) by (intros Hc; rewrite Hc in Hx; exact Hx).
    destruct m as [v|g|f os|ac v g|go]; simpl in Hk, Hr; symmetry in Hk.
    - apply (mstep_V y s x v s2 o2 e2 G P Hx Hk Hr (F1 v eq_refl) Hm).
    - apply (mstep_G y s x g s2 o2 e2 G P Hx Hk Hr (F4 g eq_refl) Hm).
    - apply (mstep_O y s x f os s2 o2 e2 G P Hx Hk Hr (F2 f os eq_refl) Hm).
    - destruct (F3 ac v g eq_refl) as [Ho Hp]. apply (mstep_A y s x ac v g s2 o2 e2 G P Hk Hr Ho Hp Hm).
    - apply (mstep_Go y s x go s2 o2 e2 G P Hact Hk Hr (F5 go eq_refl) Hm).
  Qed.
End RoundRef.

(* ================================================================== the synchronous reference run *)
Section Ref2.
  Variable d : dcop.
  Variables stop thr favor : Z.
  Variable orc : node -> list Z.
  Notation nbr := (nbrs d).
  Notation doneb := (doneb stop).

  (* value held before the first cycle: initial_value or random.choice(domain); a variable without
     neighbour draws among its best values at start and never changes *)
  Definition init_val2 (n : Z) : Z :=
    match nbr n with
    | [] => choose (fst (compute_best_value2 d n [])) (fst (draw (orc n))) 0
    | _ => match v_init (var_of d n) with Some v => v | None => choose (dom_of d n) (fst (draw (orc n))) 0 end
    end.
  Definition init_orc2 (n : Z) : list Z :=
    match nbr n with
    | [] => snd (draw (orc n))
    | _ => match v_init (var_of d n) with Some _ => orc n | None => snd (draw (orc n)) end
    end.
  Definition sstate2 := ((Z -> Z) * (Z -> list Z))%type.
  Fixpoint siter2 (j : nat) : sstate2 :=
    match j with
    | O => (init_val2, init_orc2)
    | S j' => (mgm2_next d thr favor (fst (siter2 j')) (snd (siter2 j')),
               mgm2_next_orc d thr favor (fst (siter2 j')) (snd (siter2 j')))
    end.
  Definition RA2 (j : nat) : Z -> Z := fst (siter2 j).          (* assignment after j complete cycles *)
  Definition RO2 (j : nat) : Z -> list Z := snd (siter2 j).     (* remaining draws after j complete cycles *)
  (* indexed by the cycle counter of the computations: during cycle c they hold [AC c] *)
  Definition AC (c : Z) : Z -> Z := RA2 (Z.to_nat (c - 1)).
  Definition OC (c : Z) : Z -> list Z := RO2 (Z.to_nat (c - 1)).

  Lemma AC_next c : 1 <= c -> AC (c + 1) = mgm2_next d thr favor (AC c) (OC c).
  Proof. intros H. unfold AC, OC, RA2, RO2. replace (Z.to_nat (c + 1 - 1)) with (S (Z.to_nat (c - 1))) by lia. reflexivity. Qed.
  Lemma OC_next c : 1 <= c -> OC (c + 1) = mgm2_next_orc d thr favor (AC c) (OC c).
  Proof. intros H. unfold AC, OC, RA2, RO2. replace (Z.to_nat (c + 1 - 1)) with (S (Z.to_nat (c - 1))) by lia. reflexivity. Qed.

  Lemma RA2_iso j n : nbr n = [] -> RA2 j n = init_val2 n.
  Proof.
    intros H. induction j as [|j IH]; [reflexivity|]. unfold RA2 in *. simpl.
    unfold mgm2_next, r2_moves, r_active. rewrite H. simpl. exact IH.
  Qed.

  (* the payload of a computation in cycle c *)
  Definition payc (n : Z) (s : m2st) : Prop := pay d thr favor (AC (t_cycle s)) (OC (t_cycle s)) n s.

  Lemma fresh_payc n s s' : nbr n <> [] -> 1 <= t_cycle s ->
    fresh_next n (mgm2_next d thr favor (AC (t_cycle s)) (OC (t_cycle s)) n) s s' ->
    t_orc s = r2_orc_end d thr favor (AC (t_cycle s)) (OC (t_cycle s)) n -> payc n s'.
  Proof.
    intros Hact Hc (F1 & F2 & F3 & F4 & F5 & F6 & F7) Ho. unfold payc. rewrite F4.
    constructor; rewrite ?F5, ?F6, ?F7; try (intros ? ? []); try (intros H; exfalso; rewrite F3 in H; lia).
    - rewrite F1, (AC_next _ Hc). reflexivity.
    - intros _. rewrite F2, Ho, (OC_next _ Hc). unfold mgm2_next_orc, r_active.
      destruct (nbr n); [congruence|reflexivity].
  Qed.

  (* ---------------------------------------------------------------- start *)
  Lemma start_payc n : nbr n <> [] ->
    exists s' evs,
      start0 d stop thr favor n (mgm2_init orc n) =
        (s', map (fun t => (t, M2Value (init_val2 n))) (if doneb 1 then [] else nbr n), evs) /\
      payc n s' /\ t_cycle s' = 1 /\ t_state s' = 1.
  Proof.
    intros Hact. unfold start0, init_val2, payc. destruct (nbr n) as [|z r] eqn:En; [congruence|]. rewrite <- En.
    unfold mgm2_init. cbn [t_orc].
    assert (K : forall v0 o0, v0 = init_val2 n -> o0 = init_orc2 n ->
       exists s' evs,
        andthen2 (andthen2 (value_selection2 n (set_t_orc (mkT 0 0 None None [] [] [] None false false 0 None false [] [] [] [] [] (orc n) 0) o0) v0 None)
                           (send_value2 d stop n)) (enter0 1) =
        (s', map (fun t => (t, M2Value v0)) (if doneb 1 then [] else nbr n), evs) /\
        pay d thr favor (AC (t_cycle s')) (OC (t_cycle s')) n s' /\ t_cycle s' = 1 /\ t_state s' = 1).
    { intros v0 o0 Hv Ho. unfold value_selection2, send_value2, enter0, ret2, andthen2, P_Mgm2x.doneb. cbn.
      destruct (negb (stop =? 0) && (stop <=? 1)); cbn.
      - eexists _, _. split; [reflexivity|]. cbn. split; [|split; reflexivity].
        constructor; cbn; try (intros ? ? []); try (intros H; exfalso; lia); try reflexivity.
        + rewrite Hv. reflexivity.
        + intros _. rewrite Ho. reflexivity.
      - eexists _, _. rewrite !app_nil_r. split; [reflexivity|]. cbn. split; [|split; reflexivity].
        constructor; cbn; try (intros ? ? []); try (intros H; exfalso; lia); try reflexivity.
        + rewrite Hv. reflexivity.
        + intros _. rewrite Ho. reflexivity. }
    destruct (v_init (var_of d n)) as [v|] eqn:Ev.
    - apply K; unfold init_val2, init_orc2; rewrite En, Ev; reflexivity.
    - destruct (draw (orc n)) as [x o1] eqn:Ed. apply K; unfold init_val2, init_orc2; rewrite En, Ev, Ed; reflexivity.
  Qed.
End Ref2.
