(* M_Mgm2x.v -- additions to the MGM2 model (M_Mgm2.v) used by the global proofs of P_Mgm2x*.v.

   1. [mgm2_proto_f fuel]: the protocol of M_Mgm2 with the fuel of the nested
      handler -> _enter_state -> handler recursion as a parameter ([mgm2_proto] is the instance
      [fuel = FUEL = 60]; the real code has no fuel, so the faithful model is "fuel large enough",
      which is what the theorems quantify over: any fuel >= 10 * degree + 2).
   2. [enter0] / [mstep]: one handler WITHOUT the re-dispatch of postponed messages
      (_enter_state reduced to the assignment of the state).  The proofs show that every real
      handler execution is a sequence of such micro-steps, each consuming one pending message of
      the kind the computation is waiting for.
   3. the round function [mgm2_next] (one complete MGM2 cycle of all computations as a function
      on total assignments, with the oracle draws for offerer / partner / tie choices explicit).
   Models only. *)
From PyDcop Require Import Base Net M_Mgm M_Mgm2.

Section F.
  Variable d : dcop.
  Variable stop thr favor : Z.
  Variable orc : node -> list Z.
  Variable fuel : nat.

  Definition mgm2_start_f (n : node) (s : m2st) : res2 :=
    match nbrs d n with
    | [] => mgm2_start d stop thr favor n s
    | _ =>
        let '(v0, o) := match v_init (var_of d n) with
                        | Some v => (v, t_orc s)
                        | None => let '(x, o) := draw (t_orc s) in (choose (dom_of d n) x 0, o)
                        end in
        andthen2 (andthen2 (value_selection2 n (set_t_orc s o) v0 None) (send_value2 d stop n))
                 (enter d stop thr favor n fuel 1)
    end.

  Definition mgm2_recv_f (n : node) (s : m2st) (src : node) (m : m2msg) : res2 :=
    on_msg d stop thr favor n (enter d stop thr favor n fuel) s src m.

  Definition mgm2_proto_f : proto m2st m2msg mev :=
    mkProto (mgm2_init orc) mgm2_start_f mgm2_recv_f.

  (* _enter_state without the loop over the postponed messages *)
  Definition enter0 (st : Z) (s : m2st) : res2 := ret2 (set_t_state s st).

  (* one micro-step: the handler of message [m] from [src], postponed messages left alone *)
  Definition mstep (n : node) (s : m2st) (src : node) (m : m2msg) : res2 :=
    on_msg d stop thr favor n enter0 s src m.

  Definition start0 (n : node) (s : m2st) : res2 :=
    match nbrs d n with
    | [] => mgm2_start d stop thr favor n s
    | _ =>
        let '(v0, o) := match v_init (var_of d n) with
                        | Some v => (v, t_orc s)
                        | None => let '(x, o) := draw (t_orc s) in (choose (dom_of d n) x 0, o)
                        end in
        andthen2 (andthen2 (value_selection2 n (set_t_orc s o) v0 None) (send_value2 d stop n))
                 (enter0 1)
    end.
End F.
