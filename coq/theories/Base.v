(* Base.v -- shared definitions for all pyDCOP models.  Stdlib only. *)
From Coq Require Export ZArith List Bool Lia String Ascii.
From Coq Require Import ZifyBool.
Export ListNotations.
Open Scope Z_scope.

(* ---------- correspondence plumbing ---------- *)
(* [mismatches f l] = positions of the cases on which the model disagrees with the
   implementation's recorded observation ([f c = false]).  The harness prints only this. *)
Fixpoint mismatches_from {A} (f : A -> bool) (i : nat) (l : list A) : list nat :=
  match l with
  | [] => []
  | x :: r => if f x then mismatches_from f (S i) r else i :: mismatches_from f (S i) r
  end.
Definition mismatches {A} (f : A -> bool) (l : list A) : list nat := mismatches_from f 0%nat l.

(* ---------- generic list / option equality as booleans ---------- *)
Fixpoint list_eqb {A} (e : A -> A -> bool) (a b : list A) : bool :=
  match a, b with
  | [], [] => true
  | x :: a', y :: b' => e x y && list_eqb e a' b'
  | _, _ => false
  end.
Definition option_eqb {A} (e : A -> A -> bool) (a b : option A) : bool :=
  match a, b with
  | None, None => true
  | Some x, Some y => e x y
  | _, _ => false
  end.
Definition pair_eqb {A B} (ea : A -> A -> bool) (eb : B -> B -> bool) (a b : A * B) : bool :=
  ea (fst a) (fst b) && eb (snd a) (snd b).

Lemma list_eqb_spec {A} (e : A -> A -> bool) :
  (forall x y, e x y = true <-> x = y) -> forall a b, list_eqb e a b = true <-> a = b.
Proof.
  intros He a; induction a as [|x a IH]; intros [|y b]; simpl; split; intro H;
    try reflexivity; try discriminate.
  - apply andb_true_iff in H as [H1 H2]. apply He in H1. apply IH in H2. now subst.
  - inversion H; subst. apply andb_true_iff; split; [now apply He | now apply IH].
Qed.

(* ---------- association lists (Python dicts with insertion order) ---------- *)
Section Assoc.
  Context {K V : Type} (keq : K -> K -> bool).
  Fixpoint lookup (k : K) (l : list (K * V)) : option V :=
    match l with
    | [] => None
    | (k', v) :: r => if keq k k' then Some v else lookup k r
    end.
  Definition mem_key (k : K) (l : list (K * V)) : bool :=
    match lookup k l with Some _ => true | None => false end.
  (* d[k] = v : overwrite in place if present, else append at the end *)
  Fixpoint dict_set (k : K) (v : V) (l : list (K * V)) : list (K * V) :=
    match l with
    | [] => [(k, v)]
    | (k', v') :: r => if keq k k' then (k', v) :: r else (k', v') :: dict_set k v r
    end.
  Definition dict_of_list (l : list (K * V)) : list (K * V) :=
    fold_left (fun d kv => dict_set (fst kv) (snd kv) d) l [].
  Fixpoint dict_remove (k : K) (l : list (K * V)) : list (K * V) :=
    match l with
    | [] => []
    | (k', v') :: r => if keq k k' then r else (k', v') :: dict_remove k r
    end.
End Assoc.

Definition zlookup {V} := @lookup Z V Z.eqb.
Definition slookup {V} := @lookup string V String.eqb.

Lemma lookup_dict_set_same {K V} (keq : K -> K -> bool)
  (Hk : forall a b, keq a b = true <-> a = b) (k : K) (v : V) l :
  lookup keq k (dict_set keq k v l) = Some v.
Proof.
  induction l as [|[k' v'] r IH]; simpl.
  - assert (keq k k = true) as -> by now apply Hk. reflexivity.
  - destruct (keq k k') eqn:E; simpl; rewrite E; auto.
Qed.

Lemma lookup_dict_set_other {K V} (keq : K -> K -> bool)
  (Hk : forall a b, keq a b = true <-> a = b) (k k2 : K) (v : V) l :
  k2 <> k -> lookup keq k2 (dict_set keq k v l) = lookup keq k2 l.
Proof.
  intros Hne; induction l as [|[k' v'] r IH]; simpl.
  - destruct (keq k2 k) eqn:E; auto. apply Hk in E. contradiction.
  - destruct (keq k k') eqn:E; simpl.
    + apply Hk in E; subst k'. destruct (keq k2 k) eqn:E2; auto.
      apply Hk in E2; contradiction.
    + destruct (keq k2 k'); auto.
Qed.

(* ---------- small list utilities ---------- *)
Fixpoint zsum (l : list Z) : Z := match l with [] => 0 | x :: r => x + zsum r end.
Definition zmem (x : Z) (l : list Z) : bool := existsb (Z.eqb x) l.
Definition smem (x : string) (l : list string) : bool := existsb (String.eqb x) l.

Fixpoint nodupb {A} (e : A -> A -> bool) (l : list A) : bool :=
  match l with
  | [] => true
  | x :: r => negb (existsb (e x) r) && nodupb e r
  end.

Lemma zmem_In x l : zmem x l = true <-> In x l.
Proof.
  unfold zmem. rewrite existsb_exists. split.
  - intros [y [Hy E]]. apply Z.eqb_eq in E. now subst.
  - intros H. exists x. split; auto. apply Z.eqb_refl.
Qed.

Lemma smem_In x l : smem x l = true <-> In x l.
Proof.
  unfold smem. rewrite existsb_exists. split.
  - intros [y [Hy E]]. apply String.eqb_eq in E. now subst.
  - intros H. exists x. split; auto. apply String.eqb_refl.
Qed.

(* stable insertion sort on an arbitrary boolean "less or equal" *)
Section Sort.
  Context {A : Type} (leb : A -> A -> bool).
  Fixpoint insert_sorted (x : A) (l : list A) : list A :=
    match l with
    | [] => [x]
    | y :: r => if leb x y then x :: y :: r else y :: insert_sorted x r
    end.
  (* Python's sorted() is stable: equal keys keep input order.  Insert from the right
     with [leb] (<=) so that an element goes before equal elements that come later. *)
  Definition isort (l : list A) : list A := fold_right insert_sorted [] l.
End Sort.
