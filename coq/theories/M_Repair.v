(* M_Repair.v -- executable model of pydcop/reparation/removal.py (the _removal_ helpers) and
   pydcop/reparation/__init__.py (the four create_..._constraint functions) (C26).  Models only; proofs in P_Repair.v.

   Names (agents, computations, variables) are strings.  Python sets are lists without
   duplicates whose order is irrelevant (compared with [set_eqb]); dicts are association
   lists in insertion order. *)
From PyDcop Require Import Base.

Inductive err := EKey | EUnknownComputation.
Inductive res (A : Type) := Ok (a : A) | Err (e : err).
Arguments Ok {A} a.
Arguments Err {A} e.

Definition bind {A B} (x : res A) (f : A -> res B) : res B :=
  match x with Ok a => f a | Err e => Err e end.

(* ---------- Python set helpers ---------- *)
(* set(l): first occurrences, order of no consequence *)
Fixpoint dedup (l : list string) : list string :=
  match l with
  | [] => []
  | x :: r => if smem x r then dedup r else x :: dedup r
  end.
(* s.difference(l) *)
Definition set_diff (s l : list string) : list string := filter (fun x => negb (smem x l)) s.

(* ---------- discovery.py: the part of Discovery the removal helpers read ---------- *)
(* _is_technical: names starting with '_' or 'B' *)
Definition is_technical (c : string) : bool :=
  match c with
  | String ch _ => Ascii.eqb ch "_"%char || Ascii.eqb ch "B"%char
  | EmptyString => false
  end.

Record discovery := mkDisc {
  d_comps : list (string * string);          (* _computations_data: computation -> agent *)
  d_replicas : list (string * list string)   (* _replicas_data: computation -> set of agents *)
}.

(* Discovery.agent_computations(agt) (include_technical=False) *)
Definition agent_computations (d : discovery) (agt : string) : list string :=
  map fst (filter (fun ca => String.eqb agt (snd ca) && negb (is_technical (fst ca))) (d_comps d)).

(* Discovery.replica_agents(c): UnknownComputation unless c is a registered computation *)
Definition replica_agents (d : discovery) (c : string) : res (list string) :=
  if mem_key String.eqb c (d_comps d)
  then Ok (dedup (match slookup c (d_replicas d) with Some l => l | None => [] end))
  else Err EUnknownComputation.

(* Discovery.computation_agent(c) *)
Definition computation_agent (d : discovery) (c : string) : res string :=
  match slookup c (d_comps d) with Some a => Ok a | None => Err EUnknownComputation end.

(* ---------- removal.py ---------- *)
(* _removal_orphaned_computations *)
Definition orphaned (departed : list string) (d : discovery) : list string :=
  flat_map (agent_computations d) departed.

Fixpoint concat_replicas (d : discovery) (os : list string) : res (list string) :=
  match os with
  | [] => Ok []
  | o :: r => bind (replica_agents d o) (fun s => bind (concat_replicas d r) (fun t => Ok (s ++ t)))
  end.

(* _removal_candidate_agents *)
Definition candidate_agents (departed : list string) (d : discovery) : res (list string) :=
  bind (concat_replicas d (orphaned departed d))
       (fun l => Ok (set_diff (dedup l) (dedup departed))).

(* _removal_candidate_computations_for_agt *)
Fixpoint candidate_computations_for_agt (agt : string) (orph : list string) (d : discovery)
  : res (list string) :=
  match orph with
  | [] => Ok []
  | o :: r =>
      bind (replica_agents d o) (fun s =>
      bind (candidate_computations_for_agt agt r d) (fun t =>
      Ok (if smem agt s then o :: t else t)))
  end.

(* (candidate_agents, fixed_neighbors, candidates_neighbors) *)
Definition info := (list string * list (string * string) * list (string * list string))%type.

(* the loop over cg.neighbors(orphan) *)
Fixpoint info_loop (orphan : string) (orph departed : list string) (d : discovery)
  (ns : list string) (fixed : list (string * string)) (cn : list (string * list string))
  : res (list (string * string) * list (string * list string)) :=
  match ns with
  | [] => Ok (fixed, cn)
  | n :: r =>
      if String.eqb n orphan then info_loop orphan orph departed d r fixed cn
      else if smem n orph then
        bind (replica_agents d n) (fun s =>
          info_loop orphan orph departed d r fixed (dict_set String.eqb n (set_diff s departed) cn))
      else
        bind (computation_agent d n) (fun a =>
          info_loop orphan orph departed d r (dict_set String.eqb n a fixed) cn)
  end.

(* computation graph = node name -> neighbours, first node with the name wins *)
Definition graph := list (string * list string).

(* _removal_candidate_computation_info *)
Definition computation_info (orphan : string) (departed : list string) (g : graph)
  (d : discovery) : res info :=
  let orph := orphaned departed d in
  bind (replica_agents d orphan) (fun s =>
  let cand := set_diff s departed in
  match slookup orphan g with
  | None => Err EKey
  | Some ns =>
      bind (info_loop orphan orph departed d ns [] []) (fun fc => Ok (cand, fst fc, snd fc))
  end).

Fixpoint agt_info_loop (cs : list string) (departed : list string) (g : graph) (d : discovery)
  (acc : list (string * info)) : res (list (string * info)) :=
  match cs with
  | [] => Ok acc
  | c :: r =>
      bind (computation_info c departed g d) (fun i =>
        agt_info_loop r departed g d (dict_set String.eqb c i acc))
  end.

(* _removal_candidate_agt_info *)
Definition candidate_agt_info (agt : string) (departed : list string) (g : graph)
  (d : discovery) : res (list (string * info)) :=
  let orph := orphaned departed d in
  bind (candidate_computations_for_agt agt orph d) (fun cs => agt_info_loop cs departed g d []).

(* ---------- reparation/__init__.py: the four constraints ---------- *)
(* bin_vars: { (comp, agt) -> BinaryVariable }, a variable is its name *)
Definition bkey := (string * string)%type.
Definition bkey_eqb (a b : bkey) : bool := String.eqb (fst a) (fst b) && String.eqb (snd a) (snd b).
Definition binvars := list (bkey * string).
Definition bv_name (k : bkey) (bv : binvars) : res string :=
  match lookup bkey_eqb k bv with Some v => Ok v | None => Err EKey end.

(* kwargs: variable name -> value, in call order *)
Definition asg := list (string * Z).
Definition kw (a : asg) (v : string) : res Z :=
  match slookup v a with Some x => Ok x | None => Err EKey end.

(* NAryFunctionRelation(f, variables, name) for f [kwargs] *)
Record relation := mkRel { r_name : string; r_scope : list string; r_fun : asg -> res Z }.

(* relation [kwargs] -> get_value_for_assignment(dict): every key goes through _var_mapping
   (KeyError for a name outside the scope), then f [args] *)
Definition rel_call (r : relation) (a : asg) : res Z :=
  if forallb (fun kv => smem (fst kv) (r_scope r)) a then r_fun r a else Err EKey.

(* create_computation_hosted_constraint *)
Definition hosted_f (a : asg) : res Z := Ok (if zsum (map snd a) =? 1 then 0 else 10000).
Definition create_hosted (comp : string) (bv : binvars) : relation :=
  mkRel (comp ++ "_hosted")%string (map snd bv) hosted_f.

(* var_lookup = {v.name: k for k, v in bin_vars.items()} *)
Definition var_lookup (bv : binvars) : list (string * bkey) :=
  dict_of_list String.eqb (map (fun kv => (snd kv, fst kv)) bv).

(* for v_name in kwargs: comp, _ = var_lookup[v_name]; acc += kwargs[v_name] * w(comp) *)
Fixpoint weighted_sum (vl : list (string * bkey)) (w : string -> Z) (a : asg) (acc : Z) : res Z :=
  match a with
  | [] => Ok acc
  | (v, x) :: r =>
      match slookup v vl with
      | None => Err EKey
      | Some k => weighted_sum vl w r (acc + x * w (fst k))
      end
  end.

(* create_agent_capacity_constraint *)
Definition capacity_f (remaining : Z) (footprint : string -> Z) (bv : binvars) (a : asg) : res Z :=
  bind (weighted_sum (var_lookup bv) footprint a 0)
       (fun s => Ok (if remaining - s >=? 0 then 0 else 10000)).
Definition create_capacity (agt : string) (remaining : Z) (footprint : string -> Z) (bv : binvars)
  : relation := mkRel (agt ++ "_capacity")%string (map snd bv) (capacity_f remaining footprint bv).

(* create_agent_hosting_constraint *)
Definition hosting_f (hosting : string -> Z) (bv : binvars) (a : asg) : res Z :=
  weighted_sum (var_lookup bv) hosting a 0.
Definition create_hosting (agt : string) (hosting : string -> Z) (bv : binvars) : relation :=
  mkRel (agt ++ "_hosting")%string (map snd bv) (hosting_f hosting bv).

(* create_agent_comp_comm_constraint: host_cost [kwargs] *)
Definition commfn := string -> string -> string -> Z.

Fixpoint comm_fixed (cand : string) (comm : commfn) (a : asg) (loc : string)
  (fixed : list (string * string)) (acc : Z) : res Z :=
  match fixed with
  | [] => Ok acc
  | (v, v_agt) :: r =>
      bind (kw a loc) (fun x => comm_fixed cand comm a loc r (acc + x * comm cand v v_agt))
  end.

Fixpoint comm_cost_v (cand : string) (comm : commfn) (bv : binvars) (a : asg) (v : string)
  (agts : list string) (acc : Z) : res Z :=
  match agts with
  | [] => Ok acc
  | v_agt :: r =>
      bind (bv_name (v, v_agt) bv) (fun arg =>
      bind (kw a arg) (fun x => comm_cost_v cand comm bv a v r (acc + x * comm cand v v_agt)))
  end.

Fixpoint comm_cands (cand : string) (comm : commfn) (bv : binvars) (a : asg) (loc : string)
  (cn : list (string * list string)) (acc : Z) : res Z :=
  match cn with
  | [] => Ok acc
  | (v, agts) :: r =>
      bind (comm_cost_v cand comm bv a v agts 0) (fun cost_v =>
      bind (kw a loc) (fun x => comm_cands cand comm bv a loc r (acc + x * cost_v)))
  end.

Definition comm_f (agt cand : string) (i : info) (comm : commfn) (bv : binvars) (a : asg) : res Z :=
  let '(_, fixed, cn) := i in
  bind (bv_name (cand, agt) bv) (fun loc =>
  bind (comm_fixed cand comm a loc fixed 0) (fun c1 => comm_cands cand comm bv a loc cn c1)).

Fixpoint names_for (bv : binvars) (v : string) (agts : list string) : res (list string) :=
  match agts with
  | [] => Ok []
  | v_agt :: r =>
      bind (bv_name (v, v_agt) bv) (fun n => bind (names_for bv v r) (fun t => Ok (n :: t)))
  end.

Fixpoint comm_scope (bv : binvars) (cn : list (string * list string)) : res (list string) :=
  match cn with
  | [] => Ok []
  | (v, agts) :: r =>
      bind (names_for bv v agts) (fun s1 => bind (comm_scope bv r) (fun s2 => Ok (s1 ++ s2)))
  end.

Definition create_comm (agt cand : string) (i : info) (comm : commfn) (bv : binvars)
  : res relation :=
  let '(_, _, cn) := i in
  bind (bv_name (cand, agt) bv) (fun loc =>
  bind (comm_scope bv cn) (fun s =>
  Ok (mkRel ("comm_" ++ agt ++ "_" ++ cand)%string (loc :: s) (comm_f agt cand i comm bv)))).

(* ---------- correspondence ---------- *)
Definition err_eqb (a b : err) : bool :=
  match a, b with EKey, EKey => true | EUnknownComputation, EUnknownComputation => true | _, _ => false end.
Definition res_eqb {A} (e : A -> A -> bool) (a b : res A) : bool :=
  match a, b with
  | Ok x, Ok y => e x y
  | Err x, Err y => err_eqb x y
  | _, _ => false
  end.

(* a: model value (must be duplicate free), b: list(python set), sorted by the harness *)
Definition set_eqb (a b : list string) : bool :=
  nodupb String.eqb a && Nat.eqb (List.length a) (List.length b)
  && forallb (fun x => smem x b) a && forallb (fun x => smem x a) b.
Definition slist_eqb := list_eqb String.eqb.

Definition info_eqb (a b : info) : bool :=
  let '(ca, fa, na) := a in let '(cb, fb, nb) := b in
  set_eqb ca cb && list_eqb (pair_eqb String.eqb String.eqb) fa fb
  && list_eqb (pair_eqb String.eqb set_eqb) na nb.

Record removal_case := mkRemoval {
  rc_disc : discovery; rc_graph : graph; rc_departed : list string;
  rc_orphaned : list string;                                   (* observed, exact order *)
  rc_cand_agents : res (list string);                          (* observed set *)
  rc_for_agt : list (string * res (list string) * res (list (string * info)));
      (* agt, observed _removal_candidate_computations_for_agt(agt, orphaned),
         observed _removal_candidate_agt_info(agt) items *)
  rc_info : list (string * res info);                          (* orphan name, observed info *)
  rc_comps_for : list (string * list string * res (list string))
      (* agt, arbitrary orphan list, observed candidate computations *)
}.

Definition check_removal (c : removal_case) : bool :=
  let d := rc_disc c in let dep := rc_departed c in let g := rc_graph c in
  slist_eqb (orphaned dep d) (rc_orphaned c)
  && res_eqb set_eqb (candidate_agents dep d) (rc_cand_agents c)
  && forallb (fun q => let '(agt, oc, oi) := q in
        res_eqb slist_eqb (candidate_computations_for_agt agt (orphaned dep d) d) oc
        && res_eqb (list_eqb (pair_eqb String.eqb info_eqb)) (candidate_agt_info agt dep g d) oi)
      (rc_for_agt c)
  && forallb (fun q => res_eqb info_eqb (computation_info (fst q) dep g d) (snd q)) (rc_info c)
  && forallb (fun q => let '(agt, os, oc) := q in
        res_eqb slist_eqb (candidate_computations_for_agt agt os d) oc) (rc_comps_for c).

Definition tbl_fun (t : list (string * Z)) (c : string) : Z :=
  match slookup c t with Some x => x | None => 0 end.
Definition ckey_eqb (a b : string * string * string) : bool :=
  let '(a1, a2, a3) := a in let '(b1, b2, b3) := b in
  String.eqb a1 b1 && String.eqb a2 b2 && String.eqb a3 b3.
Definition comm_tbl (t : list (string * string * string * Z)) (dflt : Z) : commfn :=
  fun c v a => match lookup ckey_eqb (c, v, a) t with Some x => x | None => dflt end.

Inductive cspec :=
| SHosted (comp : string)
| SCapacity (agt : string) (remaining : Z) (footprint : list (string * Z))
| SHosting (agt : string) (hosting : list (string * Z))
| SComm (agt cand : string) (i : info) (comm : list (string * string * string * Z)) (dflt : Z).

Record constr_case := mkConstr {
  cc_spec : cspec; cc_bv : binvars;
  cc_created : res (string * list string);    (* observed name and scope (variable names) *)
  cc_keys : list string;                      (* keys of the regular assignments *)
  cc_evals : list (list Z * res Z);           (* values for cc_keys, observed result *)
  cc_extra : list (asg * res Z)               (* irregular assignments, observed result *)
}.

Definition build (s : cspec) (bv : binvars) : res relation :=
  match s with
  | SHosted comp => Ok (create_hosted comp bv)
  | SCapacity agt rem fp => Ok (create_capacity agt rem (tbl_fun fp) bv)
  | SHosting agt h => Ok (create_hosting agt (tbl_fun h) bv)
  | SComm agt cand i t dflt => create_comm agt cand i (comm_tbl t dflt) bv
  end.

Definition check_constr (c : constr_case) : bool :=
  match build (cc_spec c) (cc_bv c), cc_created c with
  | Err e, Err e' => err_eqb e e'
  | Ok r, Ok (n, sc) =>
      String.eqb (r_name r) n && slist_eqb (r_scope r) sc
      && forallb (fun q => res_eqb Z.eqb (rel_call r (combine (cc_keys c) (fst q))) (snd q)) (cc_evals c)
      && forallb (fun q => res_eqb Z.eqb (rel_call r (fst q)) (snd q)) (cc_extra c)
  | _, _ => false
  end.

(* a case = everything observed on one generated state (its removal queries and the
   constraints of the repair DCOP built from it) *)
Inductive atom := CRemoval (c : removal_case) | CConstr (c : constr_case).
Definition check_atom (c : atom) : bool :=
  match c with CRemoval r => check_removal r | CConstr r => check_constr r end.
Definition case := list atom.
Definition check_case (c : case) : bool := forallb check_atom c.
