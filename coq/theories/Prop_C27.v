(* Prop_C27.v -- C27: after an agent removal every computation runs on exactly one live agent.
   Only statements; each closed by an exact lemma from P_RepairOrch.

   Full statement: in a resilient run with replication level k where at most k agents leave in
   one event, every agent has ample capacity and the algorithm does not terminate on its own,
   once the repair for that event completes each original computation is hosted (directory and
   agents' actual hosted computations) by exactly one surviving agent, a re-hosted
   computation's new host held its replica, and the orchestrator reports the repair OK only
   in that case.

   PARTIAL.  M_RepairOrch models the orchestrator's repair bookkeeping (_agts_state,
   _comps_state, the messages it sends, the status it dumps) and what an agent activates at
   the end of its repair computations; what Discovery holds and the outcome of the repair DCOP
   (MGM2, a randomised local search with stop_cycle 20) are inputs.  Theorems, for every trace:
     repair_status_ok_iff               the dumped status is OK iff no recorded orphan is unmarked
     repair_done_records_selection      an accepted repair_done marks what the agent selected
     repair_done_ignored_unless_running a repair_done in any other agent state changes nothing
     repair_ok_every_orphan_selected    OK => every recorded orphan was selected by some agent
     rehost_only_replica_holders        an agent only activates computations whose replica it held
     orphan_hosts_are_selectors         hosts of an orphan afterwards = the agents that selected it
     repair_ok_not_exactly_one_refuted  "OK only if hosted exactly once" is FALSE of the code:
                                        two agents selecting the same computation overwrite each
                                        other in _comps_state and the status is still OK
   Not a theorem: that MGM2 reaches an assignment selecting every orphan exactly once (liveness
   of a randomised search), message transport, threads, replication itself (C25).  The real
   resilient runs of harness/props/C27.py check the whole statement on the end state. *)
From PyDcop Require Import Base M_RepairOrch P_RepairOrch.

Theorem repair_status_ok_iff : forall ro st a sel ags b,
  In (ROStatus b) (snd (rstep ro st (RvRepairDone a sel ags))) ->
  (b = true <-> forall c s, In (c, s) (r_comps (fst (rstep ro st (RvRepairDone a sel ags)))) -> s <> None).
Proof. exact repair_status_ok_iff_l. Qed.

Theorem repair_done_records_selection : forall ro st a sel ags c,
  slookup a (r_agts st) = Some SRepairRun -> In c sel ->
  slookup c (r_comps (fst (rstep ro st (RvRepairDone a sel ags)))) = Some (Some a).
Proof. exact repair_done_records_selection_l. Qed.

Theorem repair_done_ignored_unless_running : forall ro st a sel ags,
  slookup a (r_agts st) <> Some SRepairRun -> rstep ro st (RvRepairDone a sel ags) = (st, []).
Proof. exact repair_done_ignored_unless_running_l. Qed.

Theorem repair_ok_every_orphan_selected : forall ro tr a sel ags,
  In (ROStatus true) (snd (rstep ro (rrun ro rinit tr) (RvRepairDone a sel ags))) ->
  forall c s, In (c, s) (r_comps (rrun ro rinit (tr ++ [RvRepairDone a sel ags]))) ->
  exists b, s = Some b /\ selected_by (tr ++ [RvRepairDone a sel ags]) c b.
Proof. exact repair_ok_every_orphan_selected_l. Qed.

Theorem rehost_only_replica_holders : forall replicas orphaned a values c,
  map fst values = setup_candidates replicas orphaned a ->
  In c (agent_selected values) ->
  In a (replica_agents replicas c) /\ In c orphaned.
Proof. exact rehost_only_replica_holders_l. Qed.

Theorem orphan_hosts_are_selectors : forall hosting leaving selections c,
  (forall a, In (c, a) hosting -> In a leaving) ->
  hosts_after hosting leaving selections c =
  map fst (filter (fun asel => smem c (snd asel)) selections).
Proof. exact orphan_hosts_are_selectors_l. Qed.

Local Open Scope string_scope.
Theorem repair_ok_not_exactly_one_refuted :
  exists tr hosting leaving selections c,
    In (ROStatus true) (snd (rstep false (rrun false rinit tr)
                                   (RvRepairDone "a2" ["v1"] ["a1"; "a2"]))) /\
    selections = [("a1", ["v1"]); ("a2", ["v1"])] /\
    (forall a sel, In (a, sel) selections -> selected_by (tr ++ [RvRepairDone "a2" ["v1"] ["a1"; "a2"]]) "v1" a) /\
    hosts_after hosting leaving selections c = ["a1"; "a2"].
Proof. exact repair_ok_not_exactly_one_refuted_l. Qed.

(* non-vacuity: removal of a0 orphans v1 (replicas on a1, a2); only a1 selects it: status OK,
   v1 marked on a1, hosted exactly once; if nobody selects it the status is KO *)
Example c27_nonvacuous :
  let pre := [RvRun ["a0"; "a1"; "a2"]; RvRemoval ["a0"] ["a0"; "a1"; "a2"] ["v1"] ["a1"; "a2"];
              RvRepairReady "a1"; RvRepairReady "a2"] in
  snd (rstep false (rrun false rinit (pre ++ [RvRepairDone "a1" ["v1"] ["a1"; "a2"]]))
             (RvRepairDone "a2" [] ["a1"; "a2"]))
    = [ROStatus true; ROResume "a1"; ROResume "a2"] /\
  snd (rstep false (rrun false rinit (pre ++ [RvRepairDone "a1" [] ["a1"; "a2"]]))
             (RvRepairDone "a2" [] ["a1"; "a2"]))
    = [ROStatus false; ROResume "a1"; ROResume "a2"] /\
  hosts_after [("v1", "a0"); ("v2", "a1")] ["a0"] [("a1", ["v1"]); ("a2", [])] "v1" = ["a1"] /\
  agent_selected [("v1", 1); ("v3", 0)] = ["v1"].
Proof. vm_compute. repeat split; reflexivity. Qed.
