(* Prop_C27.v -- C27: after an agent removal every computation runs on exactly one live agent.
   Only statements; each closed by an exact lemma from P_RepairOrch.

   Full statement: in a resilient run with replication level k where at most k agents leave in
   one event, every agent has ample capacity and the algorithm does not terminate on its own,
   once the repair for that event completes each original computation is hosted (directory and
   agents' actual hosted computations) by exactly one surviving agent, a re-hosted
   computation's new host held its replica, and the orchestrator reports the repair OK only
   in that case.

   PARTIAL.  M_RepairOrch models the orchestrator's repair bookkeeping (_agts_state,
   _comps_state, the messages it sends, the status it dumps) and what an agent activates at
   the end of its repair computations; what Discovery holds and the outcome of the repair DCOP
   (MGM2, a randomised local search with stop_cycle 20) are inputs.  Theorems, for every trace:
     repair_status_ok_iff               the dumped status is OK iff no recorded orphan is unmarked
     repair_done_records_selection      an accepted repair_done marks what the agent selected
     repair_done_ignored_unless_running a repair_done in any other agent state changes nothing
     repair_ok_every_orphan_selected    OK => every recorded orphan was selected by some agent
     rehost_only_replica_holders        an agent only activates computations whose replica it held
     orphan_hosts_are_selectors         hosts of an orphan afterwards = the agents that selected it
     repair_ok_not_exactly_one_refuted  "OK only if hosted exactly once" is FALSE of the code:
                                        two agents selecting the same computation overwrite each
                                        other in _comps_state and the status is still OK
   Not a theorem: that MGM2 reaches an assignment selecting every orphan exactly once (liveness
   of a randomised search), message transport, threads, replication itself (C25).  The real
   resilient runs of harness/props/C27.py check the whole statement on the end state.

   DEEPENING (second half of this file; models M_RepairOrch2 = ResilientAgent.setup_repair, the
   activation rule on the agent's own binary variables, Directory._computations_data, composed
   with M_Repair (C26) and M_RepairOrch):
     setup_repair_never_fails           what the orchestrator sends never makes setup_repair raise
     agent_repair_dcop_zero_iff         one agent's hard constraints (hosted + capacity) are all 0
                                        iff each of its candidates is selected exactly once among
                                        that candidate's agents and its own selection fits
     repair_zero_hard_cost_iff_valid    the whole repair DCOP has hard cost 0 iff the outcome is a
                                        valid re-hosting (exactly one surviving replica holder per
                                        orphan, capacities respected)
     selections_exact                   what each agent deploys/reports = its variables at 1
     repair_done_any_order              the repair_done messages of one repair, in ANY order, end
                                        in exactly one status + resume; _comps_state = all marks
     repair_reported_ok_iff             ... and that status is OK iff every pending orphan was
                                        selected AT LEAST once  (quantifies the finding: OK-but-
                                        invalid = all selected, one selected several times)
     repair_ok_never_lost               OK never hides a computation hosted nowhere
     rehost_directory_consistent        whatever the interleaving of the departed agents' late
                                        un-publications with the new hosts' registrations, the
                                        directory ends naming the agent that hosts the computation
     repair_valid_outcome_exactly_one   composition: hard cost 0 + every orphan has a surviving
                                        replica holder => status OK, and bookkeeping, agents
                                        (hosts_after) and directory all name the same single
                                        surviving replica holder with x = 1
     reachable_keys_distinct            the distinct-key hypotheses hold in every reachable state
     directory_table_is_dir_step        the directory table used here is the projection of C20's
                                        Directory model (M_Discovery.dir_recv on publish / unpublish
                                        computation messages), for any injective naming of its ids
   Still outside: that MGM2 (randomised local search, 20 cycles) REACHES a zero-hard-cost
   outcome; transport; threads; replication (C25). *)
From PyDcop Require Import Base M_Repair P_Repair M_RepairOrch2 P_RepairOrch2 P_RepairOrch3.
From PyDcop Require Import M_RepairOrch P_RepairOrch P_RepairOrch4.
From Coq Require Import Permutation.
From PyDcop Require M_Discovery P_RepairOrch5.

Theorem repair_status_ok_iff : forall ro st a sel ags b,
  In (ROStatus b) (snd (rstep ro st (RvRepairDone a sel ags))) ->
  (b = true <-> forall c s, In (c, s) (r_comps (fst (rstep ro st (RvRepairDone a sel ags)))) -> s <> None).
Proof. exact repair_status_ok_iff_l. Qed.

Theorem repair_done_records_selection : forall ro st a sel ags c,
  slookup a (r_agts st) = Some SRepairRun -> In c sel ->
  slookup c (r_comps (fst (rstep ro st (RvRepairDone a sel ags)))) = Some (Some a).
Proof. exact repair_done_records_selection_l. Qed.

Theorem repair_done_ignored_unless_running : forall ro st a sel ags,
  slookup a (r_agts st) <> Some SRepairRun -> rstep ro st (RvRepairDone a sel ags) = (st, []).
Proof. exact repair_done_ignored_unless_running_l. Qed.

Theorem repair_ok_every_orphan_selected : forall ro tr a sel ags,
  In (ROStatus true) (snd (rstep ro (rrun ro rinit tr) (RvRepairDone a sel ags))) ->
  forall c s, In (c, s) (r_comps (rrun ro rinit (tr ++ [RvRepairDone a sel ags]))) ->
  exists b, s = Some b /\ selected_by (tr ++ [RvRepairDone a sel ags]) c b.
Proof. exact repair_ok_every_orphan_selected_l. Qed.

Theorem rehost_only_replica_holders : forall replicas orphaned a values c,
  map fst values = setup_candidates replicas orphaned a ->
  In c (agent_selected values) ->
  In a (replica_agents replicas c) /\ In c orphaned.
Proof. exact rehost_only_replica_holders_l. Qed.

Theorem orphan_hosts_are_selectors : forall hosting leaving selections c,
  (forall a, In (c, a) hosting -> In a leaving) ->
  hosts_after hosting leaving selections c =
  map fst (filter (fun asel => smem c (snd asel)) selections).
Proof. exact orphan_hosts_are_selectors_l. Qed.

Local Open Scope string_scope.
Theorem repair_ok_not_exactly_one_refuted :
  exists tr hosting leaving selections c,
    In (ROStatus true) (snd (rstep false (rrun false rinit tr)
                                   (RvRepairDone "a2" ["v1"] ["a1"; "a2"]))) /\
    selections = [("a1", ["v1"]); ("a2", ["v1"])] /\
    (forall a sel, In (a, sel) selections -> selected_by (tr ++ [RvRepairDone "a2" ["v1"] ["a1"; "a2"]]) "v1" a) /\
    hosts_after hosting leaving selections c = ["a1"; "a2"].
Proof. exact repair_ok_not_exactly_one_refuted_l. Qed.

(* non-vacuity: removal of a0 orphans v1 (replicas on a1, a2); only a1 selects it: status OK,
   v1 marked on a1, hosted exactly once; if nobody selects it the status is KO *)
Example c27_nonvacuous :
  let pre := [RvRun ["a0"; "a1"; "a2"]; RvRemoval ["a0"] ["a0"; "a1"; "a2"] ["v1"] ["a1"; "a2"];
              RvRepairReady "a1"; RvRepairReady "a2"] in
  snd (rstep false (rrun false rinit (pre ++ [RvRepairDone "a1" ["v1"] ["a1"; "a2"]]))
             (RvRepairDone "a2" [] ["a1"; "a2"]))
    = [ROStatus true; ROResume "a1"; ROResume "a2"] /\
  snd (rstep false (rrun false rinit (pre ++ [RvRepairDone "a1" [] ["a1"; "a2"]]))
             (RvRepairDone "a2" [] ["a1"; "a2"]))
    = [ROStatus false; ROResume "a1"; ROResume "a2"] /\
  hosts_after [("v1", "a0"); ("v2", "a1")] ["a0"] [("a1", ["v1"]); ("a2", [])] "v1" = ["a1"] /\
  agent_selected [("v1", 1); ("v3", 0)] = ["v1"].
Proof. vm_compute. repeat split; reflexivity. Qed.

(* ====================== deepening: the composed repair pipeline ====================== *)
Close Scope string_scope.

Theorem setup_repair_never_fails : forall s cands,
  is_candidates s cands ->
  (forall a, In a cands -> exists l, candidate_agt_info a (s_departed s) (s_graph s) (s_disc s) = Ok l) ->
  exists ds, all_dcops s cands = Ok ds.
Proof. exact all_dcops_defined. Qed.

Theorem agent_repair_dcop_zero_iff : forall own rem fp inf rd x,
  wf_info own inf -> binary_on x inf -> setup_repair own rem fp inf = Ok rd ->
  (exists v, agent_hard rd x = Ok v /\ 0 <= v) /\
  (agent_hard rd x = Ok 0 <->
   (forall ci, In ci inf -> exactly_one x (fst ci) (cands_of ci)) /\
   load fp x own (map fst inf) <= rem).
Proof. exact agent_hard_zero_iff. Qed.

(* s = Discovery contents, graph, departed agents, capacities, footprints; cands = the agents
   the orchestrator sends setup_repair to; ds = the repair DCOP part built by each of them *)
Theorem repair_zero_hard_cost_iff_valid : forall s cands ds x,
  is_candidates s cands -> binary_outcome s x -> all_dcops s cands = Ok ds ->
  (total_hard ds x = Ok 0 <-> valid_rehosting s cands x).
Proof. exact repair_zero_hard_cost_iff_valid_l. Qed.

Theorem selections_exact : forall s cands ds x,
  is_candidates s cands -> all_dcops s cands = Ok ds ->
  map fst (selections ds x) = cands /\
  forall a sel c, In (a, sel) (selections ds x) ->
    (In c sel <-> In c (orph s) /\ holder s c a /\ x (c, a) = 1).
Proof. exact selections_spec. Qed.

Theorem repair_done_any_order : forall ro ags dones st,
  NoDup (map fst (r_agts st)) -> NoDup (map fst dones) -> dones <> [] ->
  (forall a, slookup a (r_agts st) = Some SRepairRun <-> In a (map fst dones)) ->
  exists agts', run_dones ro st dones ags
                = finish_repair (negb ro) agts' (marks dones (r_comps st)) (r_dist_count st) ags.
Proof. exact run_dones_spec. Qed.

Theorem repair_reported_ok_iff : forall ro ags dones st b,
  NoDup (map fst (r_agts st)) -> NoDup (map fst (r_comps st)) ->
  NoDup (map fst dones) -> dones <> [] ->
  (forall a, slookup a (r_agts st) = Some SRepairRun <-> In a (map fst dones)) ->
  In (ROStatus b) (snd (run_dones ro st dones ags)) ->
  (b = true <-> forall c, In (c, None) (r_comps st) -> selected_in dones c).
Proof. exact repair_reported_ok_iff_l. Qed.

Theorem repair_ok_never_lost : forall ro ags dones st hosting leaving c,
  NoDup (map fst (r_agts st)) -> NoDup (map fst (r_comps st)) ->
  NoDup (map fst dones) -> dones <> [] ->
  (forall a, slookup a (r_agts st) = Some SRepairRun <-> In a (map fst dones)) ->
  In (ROStatus true) (snd (run_dones ro st dones ags)) ->
  In (c, None) (r_comps st) -> hosts_after hosting leaving dones c <> [].
Proof. exact repair_ok_never_lost_l. Qed.

(* ops = ANY interleaving of the departed agents' un-publications (each naming its sender,
   Agent._on_stop since e9e3188) with the registrations made by the agents that deploy *)
Theorem rehost_directory_consistent : forall hosting departed sels ops t c a sel,
  Permutation ops (departure_ops hosting departed ++ rehost_ops sels) ->
  In (a, sel) sels -> In c sel -> ~ In a departed ->
  (forall a' sel', In (a', sel') sels -> In c sel' -> a' = a) ->
  slookup c (dir_run t ops) = Some a.
Proof. exact rehost_directory_consistent_l. Qed.

Theorem repair_valid_outcome_exactly_one : forall s cands ds x ro st dones ags hosting ops t,
  is_candidates s cands -> NoDup cands -> cands <> [] -> binary_outcome s x ->
  all_dcops s cands = Ok ds ->
  total_hard ds x = Ok 0 ->                                  (* no violated hard constraint *)
  (forall c, In c (orph s) -> exists a, holder s c a) ->     (* level k, at most k agents left *)
  NoDup (map fst (r_agts st)) -> NoDup (map fst (r_comps st)) ->
  (forall a, slookup a (r_agts st) = Some SRepairRun <-> In a cands) ->
  (forall c, In (c, None) (r_comps st) -> In c (orph s)) ->
  Permutation dones (selections ds x) ->                     (* repair_done in any order *)
  (forall c h, In (c, h) hosting -> In c (orph s) -> In h (s_departed s)) ->
  Permutation ops (departure_ops hosting (s_departed s) ++ rehost_ops (selections ds x)) ->
  snd (run_dones ro st dones ags) = ROStatus true :: (if negb ro then map ROResume ags else []) /\
  forall c, In c (orph s) ->
    exists a, holder s c a /\ x (c, a) = 1 /\
      slookup c (r_comps (fst (run_dones ro st dones ags))) = Some (Some a) /\
      hosts_after hosting (s_departed s) (selections ds x) c = [a] /\
      slookup c (dir_run t ops) = Some a.
Proof. exact repair_valid_outcome_exactly_one_l. Qed.

Theorem reachable_keys_distinct : forall ro tr,
  NoDup (map fst (r_agts (rrun ro rinit tr))) /\ NoDup (map fst (r_comps (rrun ro rinit tr))).
Proof. exact rrun_keys_ok_l. Qed.

Theorem directory_table_is_dir_step : forall (nm : Z -> string),
  (forall a b, nm a = nm b -> a = b) ->
  forall st (m : M_Discovery.msg) sender,
    match m with
    | M_Discovery.MPubComp c ag addr =>
        P_RepairOrch5.ren nm (P_RepairOrch5.gcomps_of (M_Discovery.dir_recv st sender m))
        = dir_step (P_RepairOrch5.ren nm (M_Discovery.g_comps (M_Discovery.n_dir st))) (DReg (nm c) (nm ag))
    | M_Discovery.MUnpubComp c ag =>
        P_RepairOrch5.ren nm (P_RepairOrch5.gcomps_of (M_Discovery.dir_recv st sender m))
        = dir_step (P_RepairOrch5.ren nm (M_Discovery.g_comps (M_Discovery.n_dir st)))
                   (DUnreg (nm c) (option_map nm ag))
    | _ => True
    end.
Proof. exact P_RepairOrch5.directory_table_is_dir_step_l. Qed.

(* non-vacuity of the composition: a0 (hosting v1, v2) leaves; replicas v1 -> a1, a2 and
   v2 -> a2; outcome x: v1 on a1, v2 on a2.  Hard cost 0, selections, orchestrator from the
   initial state through removal / ready / done (a2 answers first), late un-publications *)
Open Scope string_scope.
Example c27_composition_nonvacuous :
  let d := mkDisc [("v1", "a0"); ("v2", "a0"); ("v3", "a1")]
                  [("v1", ["a1"; "a2"]); ("v2", ["a2"]); ("v3", ["a0"])] in
  let s := mkScen d [("v1", ["v2"]); ("v2", ["v1"; "v3"]); ("v3", ["v2"])] ["a0"]
                  [("a1", 10); ("a2", 10)] [("v1", 7); ("v2", 7)] in
  let x := x_of [(("v1", "a1"), 1); (("v1", "a2"), 0); (("v2", "a2"), 1)] in
  let x2 := x_of [(("v1", "a1"), 0); (("v1", "a2"), 1); (("v2", "a2"), 1)] in
  let pre := [RvRun ["a0"; "a1"; "a2"]; RvRemoval ["a0"] ["a0"; "a1"; "a2"] ["v1"; "v2"] ["a1"; "a2"];
              RvRepairReady "a2"; RvRepairReady "a1"] in
  candidate_agents ["a0"] d = Ok ["a1"; "a2"] /\
  match all_dcops s ["a1"; "a2"] with
  | Err _ => False
  | Ok ds =>
    total_hard ds x = Ok 0 /\ total_hard ds x2 = Ok 10000 /\     (* x2 overloads a2: 14 > 10 *)
    selections ds x = [("a1", ["v1"]); ("a2", ["v2"])] /\
    snd (run_dones false (rrun false rinit pre) [("a2", ["v2"]); ("a1", ["v1"])] ["a1"; "a2"])
      = [ROStatus true; ROResume "a1"; ROResume "a2"] /\
    dir_run [("v1", "a0"); ("v2", "a0"); ("v3", "a1")]
            [DReg "v1" "a1"; DUnreg "v1" (Some "a0"); DUnreg "v2" (Some "a0"); DReg "v2" "a2"]
      = [("v1", "a1"); ("v3", "a1"); ("v2", "a2")]
  end.
Proof. vm_compute. repeat split; reflexivity. Qed.
