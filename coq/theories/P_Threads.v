(* P_Threads.v -- proofs about the dispatch model of the thread-mode runtime (C21). *)
From PyDcop Require Import Base M_Threads.

Lemma thread_eqb_eq x y : thread_eqb x y = true <-> x = y.
Proof.
  destruct x, y; simpl; split; intros H; try discriminate; try reflexivity.
  - apply String.eqb_eq in H. now subst.
  - inversion H. apply String.eqb_refl.
Qed.

(* the guard of C21: a thread other than the agent's own only uses entry points that execute
   no callback inline (message posting, flags, thread creation) *)
Definition foreign_calls_only_post (it : item) : Prop :=
  forall f, i_root it = RApi f -> i_thread it <> TAgent (i_target it) -> inline_kinds f = [].

Lemma exec_events it evs : exec it = Some evs ->
  forall e, In e evs ->
    ce_thread e = i_thread it /\ ce_agent e = i_target it /\
    kmem (ce_kind e) (root_kinds (i_root it)) = true.
Proof.
  unfold exec. destruct (is_loop (i_root it) && _); [discriminate|].
  destruct (forallb _ (i_calls it)) eqn:F; [|discriminate].
  intros H; inversion H; subst; clear H. intros e He.
  apply in_map_iff in He as [[[a c] k] [<- Hin]]. simpl.
  rewrite forallb_forall in F. specialize (F _ Hin). simpl in F.
  apply andb_true_iff in F as [Fa Fk]. apply String.eqb_eq in Fa. auto.
Qed.

Lemma exec_loop_thread it evs : exec it = Some evs -> is_loop (i_root it) = true ->
  i_thread it = TAgent (i_target it).
Proof.
  unfold exec. intros H L. rewrite L in H. simpl in H.
  destruct (thread_eqb (i_thread it) (TAgent (i_target it))) eqn:E; simpl in H; [|discriminate].
  now apply thread_eqb_eq.
Qed.

Lemma callbacks_on_owner_thread_l : forall it evs,
  exec it = Some evs -> foreign_calls_only_post it ->
  forall e, In e evs -> ce_thread e = TAgent (ce_agent e).
Proof.
  intros it evs Hx Hg e He.
  destruct (exec_events it evs Hx e He) as [Ht [Ha Hk]]. rewrite Ht, Ha.
  destruct (is_loop (i_root it)) eqn:L.
  - now apply (exec_loop_thread it evs).
  - destruct (i_root it) as [| | | | |f] eqn:R; try discriminate.
    destruct (thread_eqb (i_thread it) (TAgent (i_target it))) eqn:E.
    + now apply thread_eqb_eq.
    + assert (i_thread it <> TAgent (i_target it)) as Hne.
      { intros Heq. apply thread_eqb_eq in Heq. congruence. }
      specialize (Hg f R Hne). simpl in Hk. rewrite Hg in Hk. discriminate.
Qed.

(* callbacks of one agent are all on one thread, hence sequential *)
Lemma callbacks_never_concurrent_l : forall (p : list item),
  (forall it, In it p -> foreign_calls_only_post it) ->
  forall it1 it2 evs1 evs2 e1 e2,
    In it1 p -> In it2 p -> exec it1 = Some evs1 -> exec it2 = Some evs2 ->
    In e1 evs1 -> In e2 evs2 -> ce_agent e1 = ce_agent e2 -> ce_thread e1 = ce_thread e2.
Proof.
  intros p Hp it1 it2 evs1 evs2 e1 e2 H1 H2 X1 X2 I1 I2 Ha.
  rewrite (callbacks_on_owner_thread_l it1 evs1 X1 (Hp _ H1) e1 I1).
  rewrite (callbacks_on_owner_thread_l it2 evs2 X2 (Hp _ H2) e2 I2). now rewrite Ha.
Qed.

(* everything the agent's own loop does (start-up, every message handler incl. all management
   messages, periodic actions, shutdown) is on the agent's thread, unconditionally *)
Lemma loop_callbacks_on_owner_thread_l : forall it evs,
  is_loop (i_root it) = true -> exec it = Some evs ->
  forall e, In e evs -> ce_thread e = TAgent (ce_agent e).
Proof.
  intros it evs L Hx e He. apply (callbacks_on_owner_thread_l it evs Hx); auto.
  intros f R. rewrite R in L. discriminate.
Qed.

(* the entry points the orchestrated runtime offers to other threads, except Orchestrator.start,
   execute no callback on the caller's thread *)
Definition posting_api : list api :=
  [ApiAgentStart; ApiStop; ApiCleanShutdown; ApiPostMsg; ApiOrchDeploy; ApiOrchStartReplication;
   ApiOrchRun; ApiOrchStopAgents; ApiOrchStop; ApiOrchMgtMethod; ApiOrchOnTimeout;
   ApiOrchProcessEvent; ApiOrchRead; ApiOrchWaitReady].

Lemma posting_api_runs_no_callback_l : forall f t a calls evs,
  In f posting_api -> exec (mkItem (RApi f) t a calls) = Some evs -> evs = [].
Proof.
  intros f t a calls evs Hf Hx.
  assert (inline_kinds f = []) as Hk.
  { simpl in Hf. repeat (destruct Hf as [<-|Hf]; [reflexivity|]). contradiction. }
  destruct evs as [|e r]; auto. exfalso.
  destruct (exec_events _ _ Hx e (or_introl eq_refl)) as [_ [_ Hm]].
  simpl in Hm. rewrite Hk in Hm. discriminate.
Qed.

(* ... but Orchestrator.start() calls Agent.run() on its own agent from the caller's thread *)
Lemma orch_start_refuted_l :
  exists it evs e, i_root it = RApi ApiOrchStart /\ exec it = Some evs /\ In e evs /\
                   ce_thread e <> TAgent (ce_agent e) /\ ~ foreign_calls_only_post it.
Proof.
  exists (mkItem (RApi ApiOrchStart) TMain "orchestrator"
                 [("orchestrator", "_directory", KStart); ("orchestrator", "_mgt_orchestrator", KStart)]%string).
  eexists. exists (mkEv "orchestrator" "_directory" KStart TMain).
  split; [reflexivity|]. split; [vm_compute; reflexivity|]. split; [left; reflexivity|].
  split; [discriminate|]. intros H. specialize (H ApiOrchStart eq_refl). simpl in H.
  assert (TMain <> TAgent "orchestrator") as Hne by discriminate. specialize (H Hne). discriminate.
Qed.
