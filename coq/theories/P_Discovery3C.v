(* P_Discovery3C.v -- C20 deepening 2, part 1: the computation sub-protocol for EVERY history,
   unregister_agent included.

   The notification unpublish_agent(y) makes the subscriber drop every non-technical computation it
   lists on y (Discovery.unregister_agent -> unregister_computation(c, y, publish=False)): what the
   message says about computation c depends on the subscriber's entry.  [replay3] therefore replays
   *transformers*: a message either tells a value / a removal ([tell], as in P_Discovery2) or filters
   the entry ([drop m w] = the entry w is dropped).  The directory side needs two more invariants of
   the directory node: [I1] what Directory._computations_data lists, the Discovery object of the
   orchestrator lists too (so a directory that un-registers agent y lists no non-technical
   computation on y: the cascade at the subscriber cannot hit an entry the directory still has), and
   the computation-subscription map has sorted keys (needed for the purge of y's subscriptions).
   Same guard as before (the directory has an address for the agent of every computation it lists). *)
From PyDcop Require Import Base Net M_Discovery P_Discovery P_Discovery2 P_Discovery2C.
From Coq Require Import Lia.

Local Arguments bind : simpl never.

(* ------------------------------------------------------------------ replay with filters *)
Section Replay3.
  Context {W : Type}.
  Variable tell : msg -> option (option W).
  Variable drop : msg -> W -> bool.
  Variable about : W -> msg -> bool.

  Definition filt (p : W -> bool) (v : option W) : option W :=
    match v with Some x => if p x then None else Some x | None => None end.
  Definition tstep (m : msg) (v : option W) : option W :=
    match tell m with Some u => u | None => filt (drop m) v end.
  Fixpoint replay3 (v : option W) (l : list msg) : option W :=
    match l with
    | [] => v
    | m :: q => replay3 (tstep m v) q
    end.

  Lemma filt_some p v w : filt p v = Some w -> v = Some w.
  Proof. destruct v as [x|]; simpl; [|discriminate]. destruct (p x); [discriminate|auto]. Qed.
  Lemma filt_cases p v : filt p v = v \/ filt p v = None.
  Proof. destruct v as [x|]; simpl; auto. destruct (p x); auto. Qed.

  Lemma replay3_app v l l' : replay3 v (l ++ l') = replay3 (replay3 v l) l'.
  Proof. revert v; induction l; simpl; auto. Qed.

  Lemma replay3_keep l w : (forall m, In m l -> tell m = None /\ drop m w = false) -> replay3 (Some w) l = Some w.
  Proof.
    induction l as [|m q IH]; simpl; intros H; auto.
    destruct (H m (or_introl eq_refl)) as [E1 E2]. unfold tstep. rewrite E1. simpl. rewrite E2.
    apply IH. intros; apply H; auto.
  Qed.

  Lemma replay3_from_none l : forall w, replay3 None l = Some w -> forall v, replay3 v l = Some w.
  Proof.
    induction l as [|m q IH]; simpl; intros w H v; [discriminate|].
    unfold tstep in *. destruct (tell m); auto.
  Qed.

  Lemma replay3_change l : forall v w, replay3 v l = Some w -> forall v', replay3 v' l = Some w \/ v = Some w.
  Proof.
    induction l as [|m q IH]; simpl; intros v w H v'; auto.
    unfold tstep in *. destruct (tell m); auto.
    destruct (IH _ _ H (filt (drop m) v')) as [H1|H1]; auto. right. eapply filt_some; eauto.
  Qed.

  Lemma replay3_burst l w :
    (forall m, In m l -> (tell m = None /\ drop m w = false) \/ tell m = Some (Some w)) ->
    forall v, (v = Some w \/ exists m, In m l /\ tell m = Some (Some w)) -> replay3 v l = Some w.
  Proof.
    induction l as [|m q IH]; simpl; intros Hall v Hv.
    - destruct Hv as [H|[m [[] _]]]; auto.
    - unfold tstep. destruct (Hall m (or_introl eq_refl)) as [[E E2]|E]; rewrite E.
      + apply IH; [intros; apply Hall; auto|]. destruct Hv as [H|[m' [[->|Hin] Hm']]].
        * subst v. simpl. rewrite E2. auto.
        * congruence.
        * right; eauto.
      + apply IH; [intros; apply Hall; auto|]. auto.
  Qed.

  Definition Jg3 (sub : Prop) (D v : option W) (N O : list msg) : Prop :=
    forall w, sub -> D = Some w -> replay3 v N = Some w \/ existsb (about w) O = true.

  (* the subscriber handles m: the head of N, or an operation (N untouched, nothing said, nothing dropped) *)
  Lemma Jg3_agent sub D v v' m N N' O outs :
    (N = m :: N') \/ (tell m = None /\ (forall w, drop m w = false) /\ N' = N) ->
    match tell m with
    | Some (Some u) => v' = Some u
    | Some None => True
    | None => v' = v \/ v' = filt (drop m) v \/ (forall w, v = Some w -> existsb (about w) outs = true)
    end ->
    Jg3 sub D v N O -> Jg3 sub D v' N' (O ++ outs).
  Proof.
    intros Hc He HJ w Hs HD. destruct (HJ w Hs HD) as [H1|H3]; [|right; rewrite existsb_app, H3; auto].
    destruct Hc as [->|(Ht & Hd & ->)].
    - simpl in H1. unfold tstep in H1. destruct (tell m) as [[u|]|] eqn:Et.
      + subst v'. auto.
      + left. eapply replay3_from_none; eauto.
      + destruct He as [->|[->|He]].
        * destruct (filt_cases (drop m) v) as [E|E]; rewrite E in H1; auto.
          left. eapply replay3_from_none; eauto.
        * auto.
        * destruct (replay3_change _ _ _ H1 v') as [H'|H']; auto.
          apply filt_some in H'. right. rewrite existsb_app, (He w H'), orb_true_r. auto.
    - rewrite Ht in He.
      assert (Ef : filt (drop m) v = v) by (destruct v as [x|]; simpl; auto; now rewrite Hd).
      rewrite Ef in He. destruct He as [->|[->|He]]; auto.
      destruct (replay3_change _ _ _ H1 v') as [H'|H']; auto.
      right. rewrite existsb_app, (He w H'), orb_true_r. auto.
  Qed.

  (* the directory handles a message that leaves the value alone and tells the subscriber nothing
     that could change an entry equal to the directory's *)
  Lemma Jg3_frame (sub sub' : Prop) D v N O L O' :
    (sub' -> sub) ->
    (forall w, D = Some w -> forall m, In m L -> tell m = None /\ drop m w = false) ->
    (forall w, D = Some w -> existsb (about w) O = true -> existsb (about w) O' = true) ->
    Jg3 sub D v N O -> Jg3 sub' D v (N ++ L) O'.
  Proof.
    intros Hs HL HO HJ w Hs' HD. destruct (HJ w (Hs Hs') HD) as [H|H].
    - left. rewrite replay3_app, H. apply replay3_keep. apply HL; auto.
    - right. eauto.
  Qed.

  Lemma Jg3_told (sub' : Prop) D' v N L O' :
    (forall w, sub' -> D' = Some w ->
       (exists m, In m L /\ tell m = Some (Some w)) /\
       (forall m, In m L -> (tell m = None /\ drop m w = false) \/ tell m = Some (Some w))) ->
    Jg3 sub' D' v (N ++ L) O'.
  Proof.
    intros H w Hs HD. destruct (H w Hs HD) as [H1 H2]. left. rewrite replay3_app. apply replay3_burst; auto.
  Qed.
End Replay3.

(* ------------------------------------------------------------------ the computation instance *)
(* unpublish_agent(y) drops the entry of a non-technical computation listed on y *)
Definition dropc (c : Z) (m : msg) (w : Z) : bool :=
  match m with MUnpubAgent y => (0 <=? c) && (w =? y) | _ => false end.

Definition JC3 (a : Z) (st : nst) (d : dstate) (N O : list msg) : Prop :=
  forall c, Jg3 (tellsc c) (dropc c) (aboutc2 c) (In a (Sc st c)) (Dc st c) (vc d c) N O.

(* ---- the subscriber's side: un-registration of an agent *)
Lemma unreg_comp_X_known s c y : vc s c = Some y -> rX (d_unregister_computation s c (Some y) false) = None.
Proof. unfold d_unregister_computation, vc. intros ->. simpl. now rewrite Z.eqb_refl. Qed.

Lemma unreg_comp_loose s c' y p c :
  vc (rS (d_unregister_computation s c' (Some y) p)) c = vc s c \/
  (vc s c = Some y /\ c = c' /\ vc (rS (d_unregister_computation s c' (Some y) p)) c = None).
Proof.
  destruct (Z.eq_dec c c') as [->|Hne]; [|left; now apply unreg_comp_other].
  unfold d_unregister_computation, vc. destruct (zlookup c' (d_comps s)) as [k|] eqn:El; simpl; auto.
  destruct (k =? y) eqn:E; simpl; auto. apply Z.eqb_eq in E. subst k. right. split; auto. split; auto.
  destruct p; simpl.
  - rewrite !bind_S. simpl. dm; simpl; rewrite ?unsub_comp_comps; simpl; apply zlookup_zdel_same.
  - apply zlookup_zdel_same.
Qed.

Lemma unregister_all_loose l y c : (forall x, In x l -> 0 <= x) -> forall s,
  vc (rS (unregister_all s l y)) c = vc s c \/
  (vc s c = Some y /\ 0 <= c /\ vc (rS (unregister_all s l y)) c = None).
Proof.
  intros Hl. induction l as [|c' r IH]; intros s; simpl; auto.
  rewrite bind_S.
  assert (H1 := unreg_comp_loose s c' y false c).
  destruct (rX (d_unregister_computation s c' (Some y) false)).
  - destruct H1 as [H1|(H1 & -> & H2)]; auto. right. repeat split; auto. apply Hl. left; auto.
  - destruct (IH (fun x Hx => Hl x (or_intror Hx)) (rS (d_unregister_computation s c' (Some y) false))) as [H2|(H2 & H3 & H4)].
    + rewrite H2. destruct H1 as [H1|(H1 & -> & H1')]; auto. right. repeat split; auto. apply Hl. left; auto.
    + destruct H1 as [H1|(H1 & -> & H1')]; [|congruence]. right. rewrite <- H1. auto.
Qed.

Lemma agent_computations_nontech s y x : In x (agent_computations s y false) -> 0 <= x.
Proof.
  unfold agent_computations. intros H. apply in_map_iff in H as [p [<- Hp]]. apply filter_In in Hp as [_ Hp].
  apply andb_true_iff in Hp as [_ Hp]. simpl in Hp. unfold is_technical in Hp.
  destruct (fst p <? 0) eqn:E; [discriminate|]. apply Z.ltb_ge in E. exact E.
Qed.

Lemma unreg_agent_notif_loose s y c :
  let s' := rS (d_unregister_agent s y false) in
  vc s' c = vc s c \/ vc s' c = filt (dropc c (MUnpubAgent y)) (vc s c).
Proof.
  simpl. unfold d_unregister_agent.
  match goal with |- context[bind ?r _] => set (r1 := r) end.
  assert (H1 : vc (rS r1) c = vc s c \/ (vc s c = Some y /\ 0 <= c /\ vc (rS r1) c = None)).
  { subst r1. destruct (agent_computations s y false) eqn:Ea; [left; reflexivity|]. rewrite <- Ea.
    apply unregister_all_loose. apply agent_computations_nontech. }
  match goal with |- context[bind r1 ?f] => assert (H2 : vc (rS (bind r1 f)) c = vc (rS r1) c) end.
  { rewrite bind_S. destruct (rX r1); auto. dm; reflexivity. }
  rewrite H2. destruct H1 as [H1|(H1 & H3 & H4)]; auto.
  right. rewrite H4, H1. simpl. assert (E1 : (0 <=? c) = true) by (apply Z.leb_le; auto).
  rewrite E1, Z.eqb_refl. reflexivity.
Qed.

Lemma agent_effect_c3 s m c : noaddrnone m = true ->
  let r := disc_recv s m in
  match tellsc c m with
  | Some (Some u) => vc (rS r) c = Some u
  | Some None => True
  | None => vc (rS r) c = vc s c \/ vc (rS r) c = filt (dropc c m) (vc s c) \/
            (forall w, vc s c = Some w -> existsb (aboutc2 c w) (rO r) = true)
  end.
Proof.
  intros Hna. destruct (okmsg2 m) eqn:Hok.
  - pose proof (agent_effect_c s m c Hok Hna) as H. simpl in H. simpl.
    destruct (tellsc c m) as [[u|]|]; auto. destruct H; auto.
  - destruct m as [o|y ad|l|y|y b|c' g addr|c' ag|c' b|r' g' b|r' b]; try discriminate.
    + destruct o; try discriminate. simpl. left. unfold vc. now rewrite unreg_agent_comps_pub.
    + cbn [tellsc disc_recv]. destruct (unreg_agent_notif_loose s y c) as [H|H]; auto.
Qed.

Lemma JC3_agent a st s m q d N O :
  (s = 0 -> N = m :: q) -> (s <> 0 -> is_op m = true) -> noaddrnone m = true ->
  JC3 a st d N O ->
  JC3 a st (rS (disc_recv d m)) (if 0 =? s then q else N) (O ++ rO (disc_recv d m)).
Proof.
  intros H0 Hop Hna HJ c. eapply Jg3_agent; [| apply (agent_effect_c3 d m c Hna) | apply HJ].
  destruct (0 =? s) eqn:E.
  - left. apply H0. apply Z.eqb_eq in E. auto.
  - right. apply Z.eqb_neq in E. destruct m; try (discriminate (Hop (not_eq_sym E))). repeat split; reflexivity.
Qed.

(* ------------------------------------------------------------------ the directory's side *)
(* what Directory._computations_data lists, the orchestrator's Discovery lists too; sorted keys *)
Definition I1 (st : nst) : Prop := forall c g, Dc st c = Some g -> vc (n_disc st) c = Some g.
Definition Dinv (st : nst) : Prop := I1 st /\ ksorted (gsc st).

Lemma agent_computations_nil s y c : agent_computations s y false = [] -> vc s c = Some y -> 0 <= c -> False.
Proof.
  unfold agent_computations, vc. intros H Hv Hc. apply zlookup_In in Hv.
  assert (Hin : In c (map fst (filter (fun p => (y =? snd p) && (false || negb (is_technical (fst p)))) (d_comps s)))).
  { apply in_map_iff. exists (c, y). split; auto. apply filter_In. split; auto. simpl.
    rewrite Z.eqb_refl. unfold is_technical. assert (E : (c <? 0) = false) by (apply Z.ltb_ge; auto). now rewrite E. }
  rewrite H in Hin. contradiction.
Qed.

Lemma unreg_agent_nocomps s y p : agent_computations s y false = [] ->
  d_comps (rS (d_unregister_agent s y p)) = d_comps s.
Proof. unfold d_unregister_agent. intros ->. rewrite bind_S. simpl. dm; reflexivity. Qed.

Lemma dir_unreg_comp_none st c :
  let r := dir_unregister_computation st c None in
  I1 st -> I1 (rS r) /\ (forall c', c' <> c -> Dc (rS r) c' = Dc st c') /\ (Dc (rS r) c = Dc st c \/ Dc (rS r) c = None) /\
  (forall d x, In (d, x) (rO r) -> (x = MSubComp c false \/ exists ag, x = MUnpubComp c ag) /\ Dc (rS r) c = None).
Proof.
  simpl. intros HI. unfold dir_unregister_computation. simpl.
  destruct (zmemk c (g_comps (n_dir st))) eqn:Ek; [|split; [auto|]; split; [auto|]; split; [auto|]; simpl; intros ? ? []].
  pose proof (unreg_comp_O (n_disc st) c None false) as HO.
  assert (HV : forall c', c' <> c -> vc (rS (d_unregister_computation (n_disc st) c None false)) c' = vc (n_disc st) c')
    by (intros; now apply unreg_comp_other).
  destruct (d_unregister_computation (n_disc st) c None false) as [[[d1 o1] e1] x1]. simpl in *.
  unfold I1, Dc in *. simpl. repeat split.
  - intros c' g H. destruct (Z.eq_dec c' c) as [->|Hne]; [rewrite zlookup_zdel_same in H; discriminate|].
    rewrite zlookup_zdel_other in H by auto. rewrite HV; auto.
  - intros c' Hne. apply zlookup_zdel_other; auto.
  - right. apply zlookup_zdel_same.
  - apply in_app_or in H as [H|H].
    + apply to_self_In in H as [_ H]. apply HO in H as [->| ->]; eauto.
    + apply to_all_In in H as [_ ->]. eauto.
  - apply zlookup_zdel_same.
Qed.

Lemma dir_unreg_all_comps l : forall st,
  let r := dir_unregister_all st l in
  I1 st -> I1 (rS r) /\ (forall c, Dc (rS r) c = Dc st c \/ Dc (rS r) c = None) /\
  (forall d x, In (d, x) (rO r) -> exists c', (x = MSubComp c' false \/ exists ag, x = MUnpubComp c' ag) /\ Dc (rS r) c' = None).
Proof.
  induction l as [|c t IH]; intros st; simpl; intros HI.
  - repeat split; auto. intros ? ? [].
  - destruct (dir_unreg_comp_none st c HI) as (A1 & A2 & A3 & A4).
    destruct (dir_unreg_comp_spec st c None) as (_ & AX & _).
    destruct (dir_unregister_computation st c None) as [[[st1 o1] e1] x1]. simpl in *.
    rewrite (AX eq_refl). destruct (IH st1 A1) as (B1 & B2 & B3).
    destruct (dir_unregister_all st1 t) as [[[st2 o2] e2] x2]. simpl in *.
    split; auto. split.
    + intros c'. destruct (B2 c') as [E|E]; auto. rewrite E.
      destruct (Z.eq_dec c' c) as [->|Hne]; auto.
    + intros d x H. apply in_app_or in H as [H|H]; eauto.
      destruct (A4 d x H) as [Hx Hc]. exists c. split; auto. destruct (B2 c) as [E|E]; congruence.
Qed.

(* Directory.unregister_agent and the computations *)
Lemma dir_unreg_agent_comps a st y :
  let r := dir_unregister_agent st y in
  Dinv st -> Dinv (rS r) /\
  (forall c, In a (Sc (rS r) c) -> In a (Sc st c)) /\
  (forall c, Dc (rS r) c = Dc st c \/ Dc (rS r) c = None) /\
  (forall d x, In (d, x) (rO r) ->
     (x = MUnpubAgent y /\ agent_computations (n_disc st) y false = []) \/
     (exists c', (x = MSubComp c' false \/ exists ag, x = MUnpubComp c' ag) /\ Dc (rS r) c' = None)).
Proof.
  simpl. intros [HI HK]. unfold dir_unregister_agent.
  destruct (agent_computations (n_disc st) y false) eqn:Eac;
    [|split; [split; auto|]; split; auto; split; auto; intros ? ? []].
  destruct (dir_unreg_all_comps (agent_computations (n_disc st) y true) st HI) as (A1 & A2 & A3).
  destruct (dir_unreg_all_spec (agent_computations (n_disc st) y true) st) as (C & HX & _).
  destruct (dir_unregister_all st (agent_computations (n_disc st) y true)) as [[[st1 o1] e1] x1]. simpl in *. subst x1.
  destruct C as (C1 & C2 & C3 & C4 & C5 & C6 & C7 & C8).
  destruct (zmemk y (g_agents (n_dir st1))) eqn:Ek.
  - assert (Eac1 := agent_computations_sub _ _ y false C8 Eac).
    pose proof (unreg_agent_nocomps (n_disc st1) y false Eac1) as HC.
    assert (HOut : rO (d_unregister_agent (n_disc st1) y false) = []).
    { unfold d_unregister_agent. rewrite Eac1. rewrite bind_O. simpl. dm; reflexivity. }
    destruct (d_unregister_agent (n_disc st1) y false) as [[[d2 o2] e2] x2]. simpl in *. subst o2.
    unfold Dinv, I1, Dc, Sc, vc, gsc in *. simpl. repeat split.
    + intros c g H. rewrite HC. auto.
    + apply sm_purge_sorted. rewrite C3. exact HK.
    + intros c H. apply sm_purge_get in H; [|rewrite C3; exact HK]. rewrite C3 in H. exact H.
    + exact A2.
    + intros d x H. apply in_app_or in H as [H|H]; [right; eauto|]. simpl in H.
      apply to_all_In in H as [_ ->]. left. auto.
  - simpl. unfold Dinv, gsc, Sc in *. rewrite C3. repeat split; auto. intros d x H. right; eauto.
Qed.

(* messages that do not concern computations leave the orchestrator's computation table alone *)
Lemma dir_recv_dcomps st s m :
  match m with
  | MPubComp _ _ _ | MUnpubComp _ _ | MUnpubAgent _ => True
  | _ => d_comps (n_disc (rS (dir_recv st s m))) = d_comps (n_disc st)
  end.
Proof.
  destruct m as [o|y ad|l|y|y b|c g addr|c ag|c b|r g b|r b]; simpl; auto.
  - unfold dir_register_agent. pose proof (reg_agent_comps (n_disc st) y ad false) as H.
    destruct (d_register_agent (n_disc st) y ad false) as [[[d1 o1] e1] x1]. simpl in *. auto.
  - destruct b; [destruct (y =? STAR)|]; simpl; auto.
  - destruct b; simpl; auto.
  - destruct b; simpl.
    + pose proof (reg_rep_comps (n_disc st) r g false) as H.
      destruct (d_register_replica (n_disc st) r g false) as [[[d1 o1] e1] [x1|]]; simpl in *; auto.
    + pose proof (unreg_rep_comps (n_disc st) r g true) as H.
      destruct (d_unregister_replica (n_disc st) r g true) as [[[d1 o1] e1] x1]; simpl in *; auto.
  - destruct b; simpl; auto. destruct (zmemk r (d_comps (n_disc st))); simpl; auto.
    destruct (zmemk r (d_reps (n_disc st))); simpl; auto.
Qed.

Lemma dir_pubcomp3 st s c g addr :
  Binv st -> addr_ok' (rS (dir_recv st s (MPubComp c g addr))) ->
  d_comps (n_disc (rS (dir_recv st s (MPubComp c g addr)))) = zset c g (d_comps (n_disc st)).
Proof.
  intros (_ & B2 & _) Hok. simpl in *. unfold dir_register_computation in *.
  pose proof (reg_comp_gen (n_disc st) c (Some g) addr false) as H. simpl in H.
  assert (Hg : zmemk g (g_agents (n_dir st)) = true).
  { specialize (Hok c g). unfold Dc in Hok.
    destruct (d_register_computation (n_disc st) c (Some g) addr false) as [[[d1 o1] e1] [x1|]]; simpl in *.
    - apply Hok. apply zlookup_zset_same.
    - destruct (match addr with Some x => Some x | None => _ end); simpl in *; apply Hok; apply zlookup_zset_same. }
  apply zmemk_lookup in Hg as [ad0 Hg].
  pose proof (B2 g ad0 Hg) as Hv. unfold va in Hv.
  assert (Hm : zmemk g (d_agents (n_disc st)) = true) by (eapply zmemk_some; eauto).
  rewrite Hm in H. simpl in H. rewrite andb_false_r in H.
  destruct H as [(H & _)|(_ & HX & HC & _)]; [discriminate|].
  destruct (d_register_computation (n_disc st) c (Some g) addr false) as [[[d1 o1] e1] x1]. simpl in *. subst x1.
  destruct addr as [ad|]; simpl; auto. rewrite Hg. simpl. auto.
Qed.

Lemma Dinv_dir st s m : Binv st -> addr_ok' (rS (dir_recv st s m)) -> Dinv st -> Dinv (rS (dir_recv st s m)).
Proof.
  intros HB HG [HI HK].
  pose proof (dir_recv_comps st s m) as HC. pose proof (dir_recv_dcomps st s m) as HD.
  assert (Same : gc (rS (dir_recv st s m)) = gc st /\ gsc (rS (dir_recv st s m)) = gsc st ->
                 d_comps (n_disc (rS (dir_recv st s m))) = d_comps (n_disc st) -> Dinv (rS (dir_recv st s m))).
  { intros [E1 E2] E3. unfold Dinv, I1, Dc, vc in *. fold (gc (rS (dir_recv st s m))). rewrite E1, E2, E3. auto. }
  destruct m as [o|y ad|l|y|y b|c g addr|c ag|c b|r g b|r b]; auto.
  - exact (proj1 (dir_unreg_agent_comps 0 st y (conj HI HK))).
  - destruct (dir_pubcomp2 st s c g addr HB HG) as (E1 & E2 & _).
    pose proof (dir_pubcomp3 st s c g addr HB HG) as E3.
    unfold Dinv, I1, Dc, vc in *. fold (gc (rS (dir_recv st s (MPubComp c g addr)))). rewrite E1, E2, E3.
    split; auto. intros c' g' H. destruct (Z.eq_dec c' c) as [->|Hne].
    + rewrite zlookup_zset_same in *. auto.
    + rewrite zlookup_zset_other in * by auto. auto.
  - destruct (dir_unpubcomp2 st s c ag) as (E2 & _). split; [|rewrite E2; auto].
    simpl. unfold dir_unregister_computation. destruct (stale_unpub st c ag); auto.
    destruct (zmemk c (g_comps (n_dir st))); auto.
    assert (HV : forall c', c' <> c -> vc (rS (d_unregister_computation (n_disc st) c None false)) c' = vc (n_disc st) c')
      by (intros; now apply unreg_comp_other).
    destruct (d_unregister_computation (n_disc st) c None false) as [[[d1 o1] e1] x1]. simpl in *.
    unfold I1, Dc in *. simpl. intros c' g' H.
    destruct (Z.eq_dec c' c) as [->|Hne]; [rewrite zlookup_zdel_same in H; discriminate|].
    rewrite zlookup_zdel_other in H by auto. rewrite HV; auto.
  - destruct b.
    + destruct (dir_subcomp_true st s c) as (E1 & E2 & _).
      unfold Dinv, I1, Dc, vc in *. fold (gc (rS (dir_recv st s (MSubComp c true)))). rewrite E1, E2, HD.
      split; auto. apply sm_put_sorted; auto.
    + destruct (dir_subcomp_false st s c) as (E1 & E2 & _).
      unfold Dinv, I1, Dc, vc in *. fold (gc (rS (dir_recv st s (MSubComp c false)))). rewrite E1, E2, HD.
      split; auto. apply sm_put_sorted; auto.
Qed.

Lemma JC3_dir a st s m q d N O :
  Binv st -> Dinv st -> (s = a -> O = m :: q) -> addr_ok' (rS (dir_recv st s m)) ->
  JC3 a st d N O ->
  JC3 a (rS (dir_recv st s m)) d (N ++ msgs_to a (rO (dir_recv st s m))) (if a =? s then q else O).
Proof.
  intros HB HDi HO HG HJ c.
  assert (Frame : (In a (Sc (rS (dir_recv st s m)) c) -> In a (Sc st c)) ->
                  Dc (rS (dir_recv st s m)) c = Dc st c ->
                  (forall w, Dc st c = Some w -> forall d' m', In (d', m') (rO (dir_recv st s m)) -> d' = a ->
                     tellsc c m' = None /\ dropc c m' w = false) ->
                  (s = a -> forall w, Dc st c = Some w -> aboutc2 c w m = false) ->
                  Jg3 (tellsc c) (dropc c) (aboutc2 c) (In a (Sc (rS (dir_recv st s m)) c)) (Dc (rS (dir_recv st s m)) c) (vc d c)
                     (N ++ msgs_to a (rO (dir_recv st s m))) (if a =? s then q else O)).
  { intros F1 F2 F3 F4. rewrite F2. eapply Jg3_frame; [exact F1| | |apply HJ].
    - intros w HD m' Hm'. apply msgs_to_In in Hm'. eapply F3; eauto.
    - intros w HD Hw. destruct (a =? s) eqn:E; auto. apply Z.eqb_eq in E. symmetry in E.
      rewrite (HO E) in Hw. eapply existsb_tail_gen; [|exact Hw]. apply (F4 E w HD). }
  pose proof (dir_recv_comps st s m) as HC.
  unfold Sc, Dc in *. fold (gsc (rS (dir_recv st s m))) in *. fold (gc (rS (dir_recv st s m))) in *.
  fold (gsc st) in *. fold (gc st) in *.
  destruct m as [o|y ad|l|y|y b|c' g addr|c' ag|c' b|r' g' b|r' b];
    try (destruct HC as [HC1 HC2]; apply Frame; [rewrite HC2; auto | rewrite HC1; auto | | intros; reflexivity]).
  - intros w _ d' m' Hm' _. apply dir_outs_class in Hm'. contradiction.
  - intros w _ d' m' Hm' _. apply dir_outs_class in Hm'. subst. split; reflexivity.
  - intros w _ d' m' Hm' _. apply dir_outs_class in Hm'. contradiction.
  - (* unpublish_agent y *)
    destruct (dir_unreg_agent_comps a st y HDi) as (_ & E2 & E1 & E3).
    destruct (E1 c) as [E|E].
    2:{ intros w _ HD. change (Dc (rS (dir_unregister_agent st y)) c = Some w) in HD. rewrite E in HD. discriminate. }
    apply Frame.
    + exact (E2 c).
    + exact E.
    + intros w HD d' m' Hm' _. change (In (d', m') (rO (dir_unregister_agent st y))) in Hm'.
      apply E3 in Hm' as [[-> Hac]|(c2 & Hx & Hn)].
      * split; [reflexivity|]. simpl. destruct (0 <=? c) eqn:E0; auto. simpl.
        destruct (w =? y) eqn:Ew; auto. exfalso. apply Z.eqb_eq in Ew. subst w. apply Z.leb_le in E0.
        eapply agent_computations_nil; eauto. apply (proj1 HDi). exact HD.
      * assert (Hne : c2 <> c).
        { intros ->. rewrite E in Hn. unfold Dc, gc in *. congruence. }
        assert (Eq : (c2 =? c) = false) by now apply Z.eqb_neq.
        destruct Hx as [->|(ag & ->)]; simpl; rewrite ?Eq; auto.
    + intros; reflexivity.
  - intros w _ d' m' Hm' _. apply dir_outs_class in Hm'. destruct b; [|contradiction].
    destruct (y =? STAR); [subst; split; reflexivity|]. destruct Hm' as (_ & ad & -> & _). split; reflexivity.
  - (* publish_computation c' *)
    destruct (dir_pubcomp2 st s c' g addr HB HG) as (E1 & E2 & ad & E3).
    destruct (Z.eq_dec c' c) as [->|Hne].
    + apply Jg3_told. intros w Hsub HD. rewrite E1, zlookup_zset_same in HD. inversion HD; subst w.
      rewrite E2 in Hsub. rewrite E3. split.
      * exists (MPubComp c g (Some ad)). split; [|simpl; now rewrite Z.eqb_refl].
        apply msgs_to_In. unfold to_all. apply in_map_iff. exists a. auto.
      * intros m' Hm'. apply msgs_to_In in Hm'. apply to_all_In in Hm' as [_ ->]. right. simpl. now rewrite Z.eqb_refl.
    + apply Frame.
      * rewrite E2; auto.
      * rewrite E1. apply zlookup_zset_other. congruence.
      * intros w _ d' m' Hm' _. rewrite E3 in Hm'. apply to_all_In in Hm' as [_ ->]. simpl.
        destruct (c' =? c) eqn:E; auto. apply Z.eqb_eq in E. contradiction.
      * intros _ w _. simpl. now apply Z.eqb_neq.
  - (* unpublish_computation c' ag *)
    destruct (dir_unpubcomp2 st s c' ag) as (E2 & [(E1 & E3 & Hst)|(E1 & E3)]).
    + apply Frame; rewrite ?E1, ?E3; auto.
      * intros ? ? ? ? [].
      * intros _ w Hw. simpl. destruct (Z.eq_dec c' c) as [->|Hne].
        -- destruct (Hst w Hw) as (g' & -> & Hg). rewrite Z.eqb_refl. simpl. now apply Z.eqb_neq.
        -- destruct ag; [|now apply Z.eqb_neq]. assert (E : (c' =? c) = false) by now apply Z.eqb_neq. now rewrite E.
    + destruct (Z.eq_dec c' c) as [->|Hne].
      * intros w _ HD. rewrite E1, zlookup_zdel_same in HD. discriminate.
      * apply Frame.
        -- rewrite E2; auto.
        -- rewrite E1. apply zlookup_zdel_other. congruence.
        -- intros w _ d' m' Hm' _. apply E3 in Hm' as [->|(ag' & ->)]; simpl; auto.
           destruct (c' =? c) eqn:E; auto. apply Z.eqb_eq in E. contradiction.
        -- intros _ w _. simpl. assert (E : (c' =? c) = false) by now apply Z.eqb_neq.
           destruct ag; now rewrite E.
  - (* subscribe_computation c' from s *)
    destruct b.
    + destruct (dir_subcomp_true st s c') as (E1 & E2 & E3).
      destruct (Z.eq_dec c' c) as [->|Hne]; [destruct (Z.eq_dec s a) as [->|Hsa]|].
      * apply Jg3_told. intros w _ HD. pose proof (HG c w HD) as Hadr. rewrite E1 in HD.
        assert (Hag : g_agents (n_dir (rS (dir_recv st a (MSubComp c true)))) = g_agents (n_dir st)) by reflexivity.
        rewrite Hag in Hadr. apply zmemk_lookup in Hadr as [adr Hadr].
        rewrite E3, HD, Hadr. unfold msgs_to. simpl. rewrite Z.eqb_refl. simpl. split.
        -- eexists; split; [left; reflexivity|]. simpl. now rewrite Z.eqb_refl.
        -- intros m' [<-|[]]. right. simpl. now rewrite Z.eqb_refl.
      * apply Frame.
        -- rewrite E2. intros Hin. apply sm_add_In in Hin as [[_ Hin]|Hin]; auto. congruence.
        -- rewrite E1; auto.
        -- intros w _ d' m' Hm' ->. rewrite E3 in Hm'.
           destruct (zlookup c (gc st)); [|contradiction]. destruct (zlookup z _); [|contradiction].
           destruct Hm' as [Hx|[]]. inversion Hx. congruence.
        -- intros; reflexivity.
      * apply Frame.
        -- rewrite E2. unfold sm_add. rewrite sm_get_put_other; auto.
        -- rewrite E1; auto.
        -- intros w _ d' m' Hm' _. rewrite E3 in Hm'.
           destruct (zlookup c' (gc st)); [|contradiction]. destruct (zlookup z _); [|contradiction].
           destruct Hm' as [Hx|[]]. inversion Hx; subst. simpl.
           destruct (c' =? c) eqn:E; auto. apply Z.eqb_eq in E. contradiction.
        -- intros; reflexivity.
    + destruct (dir_subcomp_false st s c') as (E1 & E2 & E3). apply Frame.
      * rewrite E2. apply sm_del_In.
      * rewrite E1; auto.
      * intros w _ d' m' Hm' _. rewrite E3 in Hm'. contradiction.
      * intros; reflexivity.
  - intros w _ d' m' Hm' _. apply dir_outs_class in Hm'. subst. split; reflexivity.
  - intros w _ d' m' Hm' _. apply dir_outs_class in Hm'. destruct b; [|contradiction].
    destruct Hm' as (_ & g & -> & _). split; reflexivity.
Qed.

(* ------------------------------------------------------------------ the network level *)
Section CompNet3.
  Variable h : hist_t.
  Variable a : Z.
  Hypothesis a_pos : 0 < a.

  Notation P := (disc_proto h).
  Notation cfg := (config nst msg).

  Definition Q3 (st : nst) (d : dstate) (N O : list msg) : Prop := Dinv st /\ JC3 a st d N O.
  Definition IC3 (cf : cfg) : Prop := Qc a Q3 cf.

  Lemma IC3_step act cf : Base a cf -> IC3 cf -> GC h cf act -> IC3 (fst (step P cf act)).
  Proof.
    intros (R0 & Ra & T & B) HI HG.
    apply (Q_step h a a_pos); auto.
    - intros s m q Ea Hc. subst act. destruct HI as [HD HJ].
      assert (HG' : addr_ok' (rS (dir_recv (dirst cf) s m))).
      { unfold GC in HG. unfold addr_ok in HG. rewrite (dirst_deliver0 h cf s m q R0 Hc) in HG. exact HG. }
      split; [apply Dinv_dir; auto|]. apply JC3_dir; auto. intros ->. exact Hc.
    - intros s m q Ea Hc Hop. destruct HI as [HD HJ]. split; auto. apply JC3_agent; auto.
      + intros ->. exact Hc.
      + destruct (Z.eq_dec s 0) as [->|Hs].
        * apply (proj1 T 0 a m); [rewrite Hc; left; auto|reflexivity].
        * specialize (Hop Hs). destruct m; try discriminate. reflexivity.
  Qed.

  Lemma IC3_init cf : Kinit2 h cf -> IC3 cf.
  Proof.
    intros HK. destruct (Kinit2_quiet h a a_pos cf HK) as (E1 & E2 & E3).
    unfold IC3, Qc. rewrite E1. split.
    - split; [intros c g H; discriminate|simpl; auto].
    - intros c w H. simpl in H. contradiction.
  Qed.
End CompNet3.

(* EVERY history: no operation is excluded *)
Lemma disc_comp3_inv_l : forall (h : hist_t) (a : Z) (ns : list node) (sched : list (@action)),
  0 < a -> In 0 ns -> In a ns ->
  let P := disc_proto h in
  let cf0 := fst (exec P (init P) (map (@Start) ns)) in
  guard_along h cf0 sched ->
  Base a (fst (exec P cf0 sched)) /\ IC3 a (fst (exec P cf0 sched)).
Proof.
  intros h a ns sched Ha H0 Hna P cf0 HG.
  destruct (starts_spec2 h ns (init P) (Kinit2_init h)) as [K R].
  apply (I_exec h a (GC h) (IC3 a)).
  - intros act cf. apply IC3_step; auto.
  - apply (Kinit2_Base h); auto.
  - apply (IC3_init h); auto.
  - now apply guard_along_GC.
Qed.

Lemma disc_comp3_converges_l : forall (h : hist_t) (a : Z) (ns : list node) (sched : list (@action)),
  0 < a -> In 0 ns -> In a ns ->
  let P := disc_proto h in
  let cf0 := fst (exec P (init P) (map (@Start) ns)) in
  guard_along h cf0 sched ->
  let cf := fst (exec P cf0 sched) in
  forall c g,
    In a (sm_get c (g_sub_comps (n_dir (w_st (nodes cf 0))))) ->
    zlookup c (g_comps (n_dir (w_st (nodes cf 0)))) = Some g ->
    chan cf 0 a = [] -> chan cf a 0 = [] ->
    zlookup c (d_comps (n_disc (w_st (nodes cf a)))) = Some g.
Proof.
  intros h a ns sched Ha H0 Hna P cf0 HG cf c g Hsub HD E1 E2.
  destruct (disc_comp3_inv_l h a ns sched Ha H0 Hna HG) as [_ [_ HI]].
  fold P cf0 cf in HI. specialize (HI c g Hsub HD).
  rewrite E1, E2 in HI. simpl in HI. destruct HI as [H|H]; [exact H|discriminate].
Qed.

(* the directory node: what the Directory lists, the orchestrator's Discovery lists (under the guard) *)
Lemma dir_tables_agree_l : forall (h : hist_t) (a : Z) (ns : list node) (sched : list (@action)),
  0 < a -> In 0 ns -> In a ns ->
  let P := disc_proto h in
  let cf0 := fst (exec P (init P) (map (@Start) ns)) in
  guard_along h cf0 sched ->
  let cf := fst (exec P cf0 sched) in
  forall c g, zlookup c (g_comps (n_dir (w_st (nodes cf 0)))) = Some g ->
              zlookup c (d_comps (n_disc (w_st (nodes cf 0)))) = Some g.
Proof.
  intros h a ns sched Ha H0 Hna P cf0 HG cf c g HD.
  destruct (disc_comp3_inv_l h a ns sched Ha H0 Hna HG) as [_ [[HI _] _]]. apply HI. exact HD.
Qed.

(* non-vacuity with unregister_agent in the history (outside frag2): agent 1 registers computation 0,
   un-registers it, un-registers itself (carried out by the directory: subscriber 2 is told
   unpublish_agent(1)), then registers again; subscriber 2 ends with the directory's entry *)
Definition okc3_h : hist_t :=
  [(1, [OpRegAgent 1 1001; OpRegComp 0 (Some 1) (Some 1001); OpUnregComp 0 None; OpUnregAgent 1;
        OpRegAgent 1 1001; OpRegComp 0 (Some 1) None]);
   (2, [OpSubComp 0 (Some 7) false; OpSubAgent 1 (Some 8) false])].
Definition drain3 : list (@action) :=
  [Deliver (-2) 2; Deliver 2 0; Deliver (-1) 1; Deliver 1 0; Deliver 1 0; Deliver 0 0; Deliver 0 0;
   Deliver 0 1; Deliver 0 2; Deliver 0 2].
Definition okc3_sched : list (@action) := List.concat (List.repeat drain3 8).
