(* NetPause.v -- pause / resume of started computations is a stutter of the network model Net.v.

   MessagePassingComputation.pause(True) makes on_message store what it receives in the SAME hold
   buffer that keeps the messages received before start (_paused_messages_recv); pause(False)
   re-posts the held messages with priority 19, i.e. at the head of their channels, oldest first,
   and empties the buffer.  A paused computation handles nothing, hence posts nothing.

   The thread-free driver (harness/pydrv/netdriver.py) pauses only started computations and
   records as `model_schedule` the schedule without the P / R actions and without the deliveries
   made to a paused computation.  [pause_is_stutter] below is the statement that makes this sound:
   for every protocol and every extended schedule, the projected schedule run on the plain network
   [Net.exec] emits the same events and ends in the abstraction of the extended configuration
   (held messages put back in front of their channels).  So every theorem proved about
   [Net.reachable] configurations (C08, C03, C04, C05, C07 ...) speaks about the paused runs too. *)
From PyDcop Require Import Base Net.

Section NetPause.
  Context {St Msg Ev : Type}.
  Notation proto := (proto St Msg Ev).
  Notation config := (config St Msg).
  Notation nwrap := (nwrap St Msg).

  Record econfig := mkE { e_cf : config; e_paused : node -> bool }.
  Inductive eaction := EStart (n : node) | EDeliver (s d : node) | EPause (n : node) | EResume (n : node).

  Definition upd_flag (f : node -> bool) (n : node) (b : bool) : node -> bool :=
    fun x => if Z.eqb x n then b else f x.

  (* one action of the network with pause; third component = the plain-network actions it stands for *)
  Definition estep (P : proto) (e : econfig) (a : eaction) : econfig * list Ev * list (@action) :=
    match a with
    | EStart n =>
        let '(cf', evs) := step P (e_cf e) (Start n) in (mkE cf' (e_paused e), evs, [Start n])
    | EDeliver s d =>
        if e_paused e d then
          match chan (e_cf e) s d with
          | [] => (e, [], [])
          | m :: q =>
              let w := nodes (e_cf e) d in
              (mkE (mkConfig (upd_node (nodes (e_cf e)) d
                                (mkWrap (w_running w) (w_held w ++ [(s, m)]) (w_st w)))
                             (upd_chan (chan (e_cf e)) s d q))
                   (e_paused e), [], [])
          end
        else
          let '(cf', evs) := step P (e_cf e) (Deliver s d) in (mkE cf' (e_paused e), evs, [Deliver s d])
    | EPause n =>
        if w_running (nodes (e_cf e) n)
        then (mkE (e_cf e) (upd_flag (e_paused e) n true), [], [])
        else (e, [], [])
    | EResume n =>
        if e_paused e n then
          let w := nodes (e_cf e) n in
          (mkE (mkConfig (upd_node (nodes (e_cf e)) n (mkWrap (w_running w) [] (w_st w)))
                         (reinject_all (chan (e_cf e)) n (reinject (w_held w))))
               (upd_flag (e_paused e) n false), [], [])
        else (e, [], [])
    end.

  Fixpoint eexec (P : proto) (e : econfig) (sched : list eaction) : econfig * list Ev * list (@action) :=
    match sched with
    | [] => (e, [], [])
    | a :: r =>
        let '(e1, ev1, m1) := estep P e a in
        let '(e2, ev2, m2) := eexec P e1 r in
        (e2, ev1 ++ ev2, m1 ++ m2)
    end.

  Definition einit (P : proto) : econfig := mkE (init P) (fun _ => false).
  Definition erun (P : proto) (sched : list eaction) := eexec P (einit P) sched.

  (* ---------------------------------------------------------------- abstraction *)
  Definition heldfrom (s : node) (l : list (node * Msg)) : list Msg :=
    map snd (filter (fun sm => Z.eqb (fst sm) s) l).

  Definition abs (e : econfig) : config :=
    mkConfig
      (fun n => if e_paused e n then mkWrap true [] (w_st (nodes (e_cf e) n)) else nodes (e_cf e) n)
      (fun s d => if e_paused e d
                  then heldfrom s (w_held (nodes (e_cf e) d)) ++ chan (e_cf e) s d
                  else chan (e_cf e) s d).

  (* configurations hold functions: compare them pointwise (no extensionality axiom) *)
  Definition ceq (c1 c2 : config) : Prop :=
    (forall n, nodes c1 n = nodes c2 n) /\ (forall s d, chan c1 s d = chan c2 s d).

  Definition EInv (e : econfig) : Prop :=
    forall n, (e_paused e n = true -> w_running (nodes (e_cf e) n) = true) /\
              (w_running (nodes (e_cf e) n) = true -> e_paused e n = false ->
               w_held (nodes (e_cf e) n) = []).

  (* ---------------------------------------------------------------- pointwise characterisations *)
  Definition msgs_to (d : node) (outs : list (node * Msg)) : list Msg :=
    map snd (filter (fun dm => Z.eqb (fst dm) d) outs).

  Lemma heldfrom_app s l1 l2 : heldfrom s (l1 ++ l2) = heldfrom s l1 ++ heldfrom s l2.
  Proof. unfold heldfrom. now rewrite filter_app, map_app. Qed.

  Lemma send_all_at c src outs s d :
    send_all c src outs s d = if Z.eqb s src then c s d ++ msgs_to d outs else c s d.
  Proof.
    revert c; induction outs as [|[d0 m] r IH]; intros c; simpl.
    - destruct (Z.eqb s src); [now rewrite app_nil_r | reflexivity].
    - rewrite IH. unfold upd_chan, msgs_to. simpl.
      destruct (Z.eqb_spec s src) as [E1|E1]; destruct (Z.eqb_spec d d0) as [E2|E2];
        destruct (Z.eqb_spec d0 d) as [E3|E3]; subst; simpl; try congruence.
      now rewrite <- app_assoc.
  Qed.

  Lemma reinject_all_at c dst l s d :
    reinject_all c dst l s d = if Z.eqb d dst then heldfrom s l ++ c s d else c s d.
  Proof.
    induction l as [|[s0 m] r IH].
    - simpl. destruct (Z.eqb d dst); reflexivity.
    - change (reinject_all c dst ((s0, m) :: r))
        with (upd_chan (reinject_all c dst r) s0 dst (m :: reinject_all c dst r s0 dst)).
      unfold upd_chan. unfold heldfrom in *. simpl.
      destruct (Z.eqb_spec s s0) as [E1|E1]; destruct (Z.eqb_spec d dst) as [E2|E2];
        destruct (Z.eqb_spec s0 s) as [E3|E3]; subst; simpl; try congruence.
  Qed.

  Lemma nwrap_eta (w : nwrap) : w = mkWrap (w_running w) (w_held w) (w_st w).
  Proof. now destruct w. Qed.

  Ltac eqbs := repeat match goal with
                      | |- context [Z.eqb ?a ?b] => destruct (Z.eqb_spec a b); subst; simpl
                      end.

  Lemma abs_eta e : abs (mkE (e_cf e) (e_paused e)) = abs e.
  Proof. reflexivity. Qed.

  (* ---------------------------------------------------------------- one plain step, target not paused *)
  Lemma start_sim (P : proto) (e : econfig) (b : config) n :
    EInv e -> ceq (abs e) b -> e_paused e n = false ->
    EInv (mkE (fst (step P (e_cf e) (Start n))) (e_paused e)) /\
    ceq (abs (mkE (fst (step P (e_cf e) (Start n))) (e_paused e))) (fst (step P b (Start n))) /\
    snd (step P (e_cf e) (Start n)) = snd (step P b (Start n)).
  Proof.
    intros I [Hn Hc] Hp.
    pose proof (Hn n) as Hnn. simpl in Hnn. rewrite Hp in Hnn.
    unfold step. rewrite <- Hnn.
    destruct (w_running (nodes (e_cf e) n)) eqn:R.
    - simpl. split; [exact I|]. split; [split; assumption | reflexivity].
    - destruct (p_start P n (w_st (nodes (e_cf e) n))) as [[st' outs] evs]. simpl.
      split; [|split; [split|reflexivity]].
      + intros x. simpl. unfold upd_node. destruct (Z.eqb_spec x n) as [E|E]; subst; simpl.
        * split; intros; reflexivity.
        * apply I.
      + intros x. simpl. unfold upd_node.
        specialize (Hn x). simpl in Hn.
        destruct (e_paused e x) eqn:Px; destruct (Z.eqb_spec x n) as [E|E]; subst; simpl;
          try congruence; try reflexivity.
      + intros s d. simpl. unfold reinject. rewrite !reinject_all_at, !send_all_at.
        unfold upd_node. specialize (Hc s d). simpl in Hc. rewrite <- Hc.
        destruct (e_paused e d) eqn:Pd; destruct (Z.eqb_spec d n) as [E|E]; subst; simpl;
          try congruence; destruct (Z.eqb_spec s n) as [E2|E2]; subst; simpl;
          rewrite ?app_assoc; reflexivity.
  Qed.

  Lemma deliver_sim (P : proto) (e : econfig) (b : config) s d :
    EInv e -> ceq (abs e) b -> e_paused e d = false ->
    EInv (mkE (fst (step P (e_cf e) (Deliver s d))) (e_paused e)) /\
    ceq (abs (mkE (fst (step P (e_cf e) (Deliver s d))) (e_paused e))) (fst (step P b (Deliver s d))) /\
    snd (step P (e_cf e) (Deliver s d)) = snd (step P b (Deliver s d)).
  Proof.
    intros I [Hn Hc] Hp.
    pose proof (Hn d) as Hnd. simpl in Hnd. rewrite Hp in Hnd.
    pose proof (Hc s d) as Hcd. simpl in Hcd. rewrite Hp in Hcd.
    unfold step. rewrite <- Hnd, <- Hcd.
    destruct (chan (e_cf e) s d) as [|m q] eqn:C.
    - simpl. split; [exact I|]. split; [split; assumption | reflexivity].
    - destruct (w_running (nodes (e_cf e) d)) eqn:R.
      + destruct (p_recv P d (w_st (nodes (e_cf e) d)) s m) as [[st' outs] evs]. simpl.
        split; [|split; [split|reflexivity]].
        * intros x. simpl. unfold upd_node. destruct (Z.eqb_spec x d) as [E|E]; subst; simpl.
          -- split; [reflexivity|]. intros _ _. apply (I d); assumption.
          -- apply I.
        * intros x. simpl. unfold upd_node.
          specialize (Hn x). simpl in Hn.
          destruct (e_paused e x) eqn:Px; destruct (Z.eqb_spec x d) as [E|E]; subst; simpl;
            try congruence; try reflexivity.
        * intros s' d'. simpl. rewrite !send_all_at. unfold upd_node, upd_chan.
          specialize (Hc s' d'). simpl in Hc. rewrite <- Hc.
          destruct (e_paused e d') eqn:Pd; eqbs; rewrite ?app_assoc; try reflexivity; try congruence.
      + simpl. split; [|split; [split|reflexivity]].
        * intros x. simpl. unfold upd_node. destruct (Z.eqb_spec x d) as [E|E]; subst; simpl.
          -- split; [intros H; rewrite Hp in H; discriminate | intros H; discriminate].
          -- apply I.
        * intros x. simpl. unfold upd_node.
          specialize (Hn x). simpl in Hn.
          destruct (e_paused e x) eqn:Px; destruct (Z.eqb_spec x d) as [E|E]; subst; simpl;
            try congruence; try reflexivity.
        * intros s' d'. simpl. unfold upd_node, upd_chan.
          specialize (Hc s' d'). simpl in Hc. rewrite <- Hc.
          destruct (e_paused e d') eqn:Pd; eqbs; rewrite ?app_assoc; try reflexivity; try congruence.
  Qed.

  Lemma exec_app (P : proto) (b : config) m1 m2 :
    exec P b (m1 ++ m2) =
    let '(b1, e1) := exec P b m1 in let '(b2, e2) := exec P b1 m2 in (b2, e1 ++ e2).
  Proof.
    revert b; induction m1 as [|a r IH]; intros b; simpl.
    - destruct (exec P b m2); reflexivity.
    - destruct (step P b a) as [b1 e1]. rewrite IH.
      destruct (exec P b1 r) as [b2 e2]. destruct (exec P b2 m2) as [b3 e3].
      now rewrite app_assoc.
  Qed.

  Lemma exec_single (P : proto) (b : config) a :
    exec P b [a] = (fst (step P b a), snd (step P b a)).
  Proof. cbn [exec]. destruct (step P b a); cbn [fst snd]. now rewrite app_nil_r. Qed.

  (* ---------------------------------------------------------------- one extended step *)
  Lemma estep_sim (P : proto) (e : econfig) (b : config) (a : eaction) :
    EInv e -> ceq (abs e) b ->
    EInv (fst (fst (estep P e a))) /\
    ceq (abs (fst (fst (estep P e a)))) (fst (exec P b (snd (estep P e a)))) /\
    snd (exec P b (snd (estep P e a))) = snd (fst (estep P e a)).
  Proof.
    intros I H. destruct a as [n|s d|n|n]; unfold estep.
    - (* Start *)
      destruct (step P (e_cf e) (Start n)) as [cf' evs] eqn:S. cbn [fst snd]. rewrite exec_single.
      destruct (step P b (Start n)) as [b1 e1] eqn:Sb. cbn [fst snd].
      destruct (e_paused e n) eqn:Pn.
      + pose proof (proj1 (I n) Pn) as R. destruct H as [Hn Hc].
        pose proof (Hn n) as Hnn. simpl in Hnn. rewrite Pn in Hnn.
        unfold step in S, Sb. rewrite R in S. rewrite <- Hnn in Sb. simpl in Sb.
        inversion S; inversion Sb; subst. split; [exact I|]. split; [split; assumption|reflexivity].
      + pose proof (start_sim P e b n I H Pn) as (A & B & C).
        rewrite S, Sb in *. simpl in *. split; [exact A|]. split; [exact B|]. now rewrite C.
    - (* Deliver *)
      destruct (e_paused e d) eqn:Pd.
      + destruct (chan (e_cf e) s d) as [|m q] eqn:C; simpl.
        * split; [exact I|]. split; [exact H|reflexivity].
        * destruct H as [Hn Hc]. split; [|split; [split|reflexivity]].
          -- intros x. simpl. unfold upd_node. destruct (Z.eqb_spec x d) as [E|E]; subst; simpl.
             ++ split; [intros _; apply (I d); exact Pd | intros _ Hf; congruence].
             ++ apply I.
          -- intros x. simpl. unfold upd_node. specialize (Hn x). simpl in Hn.
             destruct (e_paused e x) eqn:Px; destruct (Z.eqb_spec x d) as [E|E]; subst; simpl;
               try congruence.
          -- intros s' d'. simpl. unfold upd_node, upd_chan.
             specialize (Hc s' d'). simpl in Hc. rewrite <- Hc.
             destruct (e_paused e d') eqn:Pd'; destruct (Z.eqb_spec d' d) as [E|E]; subst; simpl;
               try congruence.
             ++ destruct (Z.eqb_spec s' s) as [E2|E2]; subst; simpl.
                ** rewrite heldfrom_app, C. unfold heldfrom at 2. simpl. rewrite Z.eqb_refl. simpl.
                   rewrite <- app_assoc. reflexivity.
                ** rewrite heldfrom_app. unfold heldfrom at 2. simpl.
                   destruct (Z.eqb_spec s s'); [congruence|]. simpl. rewrite app_nil_r. reflexivity.
             ++ rewrite andb_false_r. reflexivity.
             ++ rewrite andb_false_r. reflexivity.
      + destruct (step P (e_cf e) (Deliver s d)) as [cf' evs] eqn:S. cbn [fst snd]. rewrite exec_single.
        destruct (step P b (Deliver s d)) as [b1 e1] eqn:Sb. cbn [fst snd].
        pose proof (deliver_sim P e b s d I H Pd) as (A & B & C).
        rewrite S, Sb in *. simpl in *. split; [exact A|]. split; [exact B|]. now rewrite C.
    - (* Pause *)
      destruct (w_running (nodes (e_cf e) n)) eqn:R; simpl.
      + destruct H as [Hn Hc]. split; [|split; [split|reflexivity]].
        * intros x. simpl. unfold upd_flag. destruct (Z.eqb_spec x n) as [E|E]; subst; simpl.
          -- split; [intros _; exact R | intros _ Hf; discriminate].
          -- apply I.
        * intros x. simpl. unfold upd_flag. specialize (Hn x). simpl in Hn.
          destruct (Z.eqb_spec x n) as [E|E]; subst; [|exact Hn].
          destruct (e_paused e n) eqn:Pn; [exact Hn|].
          rewrite <- Hn. rewrite (nwrap_eta (nodes (e_cf e) n)) at 2.
          rewrite R, (proj2 (I n) R Pn). reflexivity.
        * intros s d. simpl. unfold upd_flag. specialize (Hc s d). simpl in Hc.
          destruct (Z.eqb_spec d n) as [E|E]; subst; [|exact Hc].
          destruct (e_paused e n) eqn:Pn; [exact Hc|].
          rewrite (proj2 (I n) R Pn). simpl. exact Hc.
      + split; [exact I|]. split; [exact H|reflexivity].
    - (* Resume *)
      destruct (e_paused e n) eqn:Pn; simpl.
      + destruct H as [Hn Hc]. split; [|split; [split|reflexivity]].
        * intros x. simpl. unfold upd_node, upd_flag.
          destruct (Z.eqb_spec x n) as [E|E]; subst; simpl.
          -- split; [discriminate | reflexivity].
          -- apply I.
        * intros x. simpl. unfold upd_node, upd_flag. specialize (Hn x). simpl in Hn.
          destruct (Z.eqb_spec x n) as [E|E]; subst; simpl; [|exact Hn].
          rewrite Pn in Hn. rewrite (proj1 (I n) Pn). exact Hn.
        * intros s d. simpl. unfold reinject. rewrite reinject_all_at.
          unfold upd_node, upd_flag. specialize (Hc s d). simpl in Hc.
          destruct (Z.eqb_spec d n) as [E|E]; subst; simpl; [|exact Hc].
          rewrite Pn in Hc. exact Hc.
      + split; [exact I|]. split; [exact H|reflexivity].
  Qed.

  (* ---------------------------------------------------------------- whole schedules *)
  Lemma eexec_sim (P : proto) sched : forall (e : econfig) (b : config),
    EInv e -> ceq (abs e) b ->
    EInv (fst (fst (eexec P e sched))) /\
    ceq (abs (fst (fst (eexec P e sched)))) (fst (exec P b (snd (eexec P e sched)))) /\
    snd (exec P b (snd (eexec P e sched))) = snd (fst (eexec P e sched)).
  Proof.
    induction sched as [|a r IH]; intros e b I H.
    - simpl. auto.
    - cbn [eexec]. pose proof (estep_sim P e b a I H) as (I1 & H1 & E1).
      destruct (estep P e a) as [[e1 ev1] m1]. cbn [fst snd] in *.
      specialize (IH e1 (fst (exec P b m1)) I1 H1). destruct IH as (I2 & H2 & E2).
      destruct (eexec P e1 r) as [[e2 ev2] m2]. cbn [fst snd] in *.
      rewrite exec_app. destruct (exec P b m1) as [b1 x1]. cbn [fst snd] in *.
      destruct (exec P b1 m2) as [b2 x2]. cbn [fst snd] in *. subst. auto.
  Qed.

  Lemma einit_inv (P : proto) : EInv (einit P).
  Proof. intros n. simpl. split; discriminate. Qed.

  Lemma einit_abs (P : proto) : ceq (abs (einit P)) (init P).
  Proof. split; intros; reflexivity. Qed.

  (* Every run with pauses is, event for event, the run of its projected schedule on the plain
     network, and ends in the abstraction of its final configuration -- a reachable plain one. *)
  Theorem pause_is_stutter_run (P : proto) (sched : list eaction) :
    snd (run P (snd (erun P sched))) = snd (fst (erun P sched)) /\
    ceq (abs (fst (fst (erun P sched)))) (fst (run P (snd (erun P sched)))) /\
    reachable P (fst (run P (snd (erun P sched)))) /\
    EInv (fst (fst (erun P sched))).
  Proof.
    unfold erun, run.
    destruct (eexec_sim P sched (einit P) (init P) (einit_inv P) (einit_abs P)) as (I & H & E).
    split; [exact E|]. split; [exact H|]. split; [|exact I].
    apply exec_reachable. constructor.
  Qed.

  (* once every paused computation has been resumed (what the driver does at the end of a run)
     the configuration itself -- node states, hold buffers, channels -- is the plain one *)
  Theorem resumed_is_plain (P : proto) (sched : list eaction) :
    (forall n, e_paused (fst (fst (erun P sched))) n = false) ->
    ceq (e_cf (fst (fst (erun P sched)))) (fst (run P (snd (erun P sched)))).
  Proof.
    intros Hnp. destruct (pause_is_stutter_run P sched) as (_ & [Hn Hc] & _).
    split.
    - intros n. specialize (Hn n). simpl in Hn. rewrite Hnp in Hn. exact Hn.
    - intros s d. specialize (Hc s d). simpl in Hc. rewrite Hnp in Hc. exact Hc.
  Qed.

  (* a paused computation handles nothing: its protocol state does not move while it is paused *)
  Lemma paused_state_frozen (P : proto) (e : econfig) (a : eaction) n :
    EInv e -> e_paused e n = true -> e_paused (fst (fst (estep P e a))) n = true ->
    w_st (nodes (e_cf (fst (fst (estep P e a)))) n) = w_st (nodes (e_cf e) n).
  Proof.
    intros I Pn Pn'. destruct a as [x|s d|x|x]; unfold estep in *.
    - pose proof (proj1 (I n) Pn) as R. unfold step.
      destruct (Z.eqb_spec x n) as [E|E]; subst.
      + rewrite R. reflexivity.
      + destruct (w_running (nodes (e_cf e) x)); [reflexivity|].
        destruct (p_start P x (w_st (nodes (e_cf e) x))) as [[st' outs] evs]. simpl.
        unfold upd_node. destruct (Z.eqb_spec n x); [congruence|reflexivity].
    - destruct (e_paused e d) eqn:Pd.
      + destruct (chan (e_cf e) s d) as [|m q]; [reflexivity|]. simpl.
        unfold upd_node. destruct (Z.eqb_spec n d); subst; reflexivity.
      + unfold step. destruct (chan (e_cf e) s d) as [|m q]; [reflexivity|].
        destruct (w_running (nodes (e_cf e) d)).
        * destruct (p_recv P d (w_st (nodes (e_cf e) d)) s m) as [[st' outs] evs]. simpl.
          unfold upd_node. destruct (Z.eqb_spec n d); [congruence|reflexivity].
        * simpl. unfold upd_node. destruct (Z.eqb_spec n d); subst; reflexivity.
    - destruct (w_running (nodes (e_cf e) x)); reflexivity.
    - destruct (e_paused e x) eqn:Px; [|reflexivity]. simpl.
      unfold upd_node. destruct (Z.eqb_spec n x); subst; reflexivity.
  Qed.
End NetPause.
