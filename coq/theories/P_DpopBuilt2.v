(* P_DpopBuilt2.v -- C01: the executable hypothesis checker M_DpopValid.dpop_check is COMPLETE:
   it accepts every dcop + tree that satisfies the Prop-level hypotheses of the all-schedules
   theorem (dvalid + the ownership filter is a partition of the constraints).  With
   dpop_check_sound this makes  dpop_check P = true  <->  dpop_valid P /\ partition, and with
   P_DpopBuilt it shows that the per-case evaluation of dpop_check on the trees pydcop builds is a
   consequence of the theorems (dpop_check accepts the output of the builder model on every
   well-formed DCOP). *)
From PyDcop Require Import Base Net M_Dpop P_Dpop M_DpopValid P_Dpop2Net P_Dpop2Tree P_Dpop2Aux P_Dpop2
  P_Dpop2Valid.
From Coq Require Import ZifyBool Permutation.
Local Open Scope list_scope.

Lemma NoDup_nodupb (l : list Z) : NoDup l -> nodupb Z.eqb l = true.
Proof.
  induction 1 as [|a r Ha _ IH]; simpl; auto.
  rewrite IH, andb_true_r. apply negb_true_iff. destruct (existsb (Z.eqb a) r) eqn:E; auto.
  apply existsb_exists in E. destruct E as (y & Hy & E). apply Z.eqb_eq in E. subst. contradiction.
Qed.

Section Complete.
  Variable P : dcop.
  Variable dep : Z -> nat.
  Variable B : nat.
  Hypothesis V : dvalid P dep B.
  Notation N := (tree_ids P).
  Let F := List.length N.

  (* the fuel-bounded depth and ancestor list are stable from the true depth on *)
  Lemma stab : forall n x, (dep x <= n)%nat -> forall f, (depf P n x <= f)%nat ->
    depf P f x = depf P n x /\ ancs P f x = ancs P n x /\ List.length (ancs P n x) = depf P n x.
  Proof.
    induction n as [|n IH]; intros x Hx f Hf.
    - destruct (parent P x) as [p|] eqn:E.
      + pose proof (dv_dep _ _ _ V _ _ E). lia.
      + destruct f; simpl; rewrite ?E; auto.
    - simpl in *. destruct (parent P x) as [p|] eqn:E.
      + pose proof (dv_dep _ _ _ V _ _ E) as Hd.
        destruct f as [|f]; [lia|]. simpl. rewrite E.
        destruct (IH p ltac:(lia) f ltac:(lia)) as (E1 & E2 & E3).
        rewrite E1, E2. simpl. rewrite E3. auto.
      + destruct f; simpl; rewrite ?E; auto.
  Qed.

  Definition td (x : Z) : nat := depf P (dep x) x.
  Definition full (x : Z) : list Z := ancs P (dep x) x.

  Lemma td_stab x f : (td x <= f)%nat -> depf P f x = td x /\ ancs P f x = full x.
  Proof. intros H. destruct (stab (dep x) x (le_n _) f H) as (E1 & E2 & _). auto. Qed.
  Lemma full_len x : List.length (full x) = td x.
  Proof. destruct (stab (dep x) x (le_n _) (td x) (le_n _)) as (_ & _ & E). exact E. Qed.

  Lemma ancs_nodup : forall f x, NoDup (ancs P f x).
  Proof.
    induction f as [|f IH]; intros x; simpl; [constructor|].
    destruct (parent P x) as [p|] eqn:E; [|constructor]. constructor; auto.
    intros H. apply ancs_sound in H. exact (anc_irrefl P dep B V p H).
  Qed.

  Lemma td_le x : (td x <= F)%nat.
  Proof.
    rewrite <- full_len. apply NoDup_incl_length; [apply ancs_nodup|].
    intros y Hy. apply ancs_sound in Hy. apply (anc_in P dep B V _ _ Hy).
  Qed.

  Lemma depf_F x : depf P F x = td x.
  Proof. apply td_stab. apply td_le. Qed.
  Lemma ancs_F x : ancs P F x = full x.
  Proof. apply td_stab. apply td_le. Qed.

  Lemma td_parent x p : parent P x = Some p -> td x = S (td p).
  Proof.
    intros E. destruct (td_stab x (S (td x + td p))) as [E1 _]; [lia|].
    destruct (td_stab p (td x + td p)) as [E2 _]; [lia|].
    simpl in E1. rewrite E, E2 in E1. lia.
  Qed.

  Lemma full_parent x p : parent P x = Some p -> full x = p :: full p.
  Proof.
    intros E. destruct (td_stab x (S (td x + td p))) as [_ E1]; [lia|].
    destruct (td_stab p (td x + td p)) as [_ E2]; [lia|].
    simpl in E1. rewrite E, E2 in E1. auto.
  Qed.

  Lemma full_complete a x : Anc P a x -> In a (full x).
  Proof.
    induction 1 as [a b H|a b c H _ IH].
    - rewrite (full_parent _ _ H). left; auto.
    - rewrite (full_parent _ _ H). right; auto.
  Qed.

  Hypothesis Hperm : Permutation (all_owned P) (cons_ids P).
  Hypothesis Hnd : NoDup (cons_ids P).

  Theorem dpop_check_complete_l : dpop_check P = true.
  Proof.
    unfold dpop_check. fold F.
    repeat (apply andb_true_iff; split).
    - apply NoDup_nodupb. apply (dv_nodup _ _ _ V).
    - apply forallb_forall. intros x Hx. apply Nat.ltb_lt. apply (dv_dom _ _ _ V). exact Hx.
    - apply forallb_forall. intros x Hx. destruct (parent P x) as [p|] eqn:E; auto.
      destruct (dv_par _ _ _ V _ _ E) as [_ Hp].
      repeat (apply andb_true_iff; split).
      + apply zmem_In. exact Hp.
      + apply zmem_In. apply (dv_pc _ _ _ V). exact E.
      + apply Nat.eqb_eq. rewrite !depf_F. apply td_parent. exact E.
    - apply forallb_forall. intros x Hx. apply andb_true_iff. split.
      + apply NoDup_nodupb. apply (dv_chnd _ _ _ V).
      + apply forallb_forall. intros c Hc. apply (dv_pc _ _ _ V) in Hc. rewrite Hc. simpl. apply Z.eqb_refl.
    - apply forallb_forall. intros x Hx. apply forallb_forall. intros d Hd.
      apply sv_svars in Hd. destruct (dv_sv _ _ _ V x d Hx Hd) as [->|A].
      + rewrite Z.eqb_refl. reflexivity.
      + apply orb_true_iff. right. apply zmem_In. rewrite ancs_F. apply full_complete. exact A.
    - apply forallb_forall. intros c Hc. destruct (parent P c) as [p|] eqn:E; auto.
      destruct (dv_link _ _ _ V _ _ E) as (y & Hy & Hp).
      apply existsb_exists. exists y. split.
      + destruct Hy as [->|A]; auto. apply (anc_in P dep B V _ _ A).
      + apply andb_true_iff. split.
        * destruct Hy as [->|A]; [rewrite Z.eqb_refl; reflexivity|].
          apply orb_true_iff. right. apply zmem_In. rewrite ancs_F. apply full_complete. exact A.
        * apply zmem_In. apply sv_svars. exact Hp.
    - apply NoDup_nodupb. exact Hnd.
    - apply NoDup_nodupb. eapply Permutation_NoDup; [apply Permutation_sym; exact Hperm|exact Hnd].
    - apply forallb_forall. intros k Hk. apply zmem_In. eapply Permutation_in; eauto.
    - apply forallb_forall. intros k Hk. apply zmem_In. eapply Permutation_in; [apply Permutation_sym; exact Hperm|exact Hk].
  Qed.
End Complete.

Theorem dpop_check_iff_l P :
  dpop_check P = true <-> dpop_valid P /\ Permutation (all_owned P) (cons_ids P) /\ NoDup (cons_ids P).
Proof.
  split; [apply dpop_check_sound|].
  intros ((dep & B & V) & Hp & Hn). eapply dpop_check_complete_l; eauto.
Qed.
