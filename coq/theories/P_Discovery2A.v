(* P_Discovery2A.v -- C20 deepening, part 2: the agent sub-protocol (register_agent / unregister_agent,
   subscribe_agent / subscribe_all_agents), for EVERY history of operations.
   Guard: the directory does not refuse an un-registration published by the subscriber itself
   (negation of finding C20-unregister-agent-refused). *)
From PyDcop Require Import Base Net M_Discovery P_Discovery P_Discovery2.
From Coq Require Import Lia.

Local Arguments bind : simpl never.

(* what a notification says about agent x *)
Definition tellsa (x : Z) (m : msg) : option (option Z) :=
  match m with
  | MPubAgent x' ad => if x' =? x then Some (Some ad) else None
  | MPubAgents l => match lastb x l with Some ad => Some (Some ad) | None => None end
  | MUnpubAgent x' => if x' =? x then Some None else None
  | _ => None
  end.
(* a publication about agent x (the directory acts on all of them unless it refuses) *)
Definition abouta (x : Z) (_ : Z) (m : msg) : bool :=
  match m with MPubAgent x' _ | MUnpubAgent x' => x' =? x | _ => false end.
(* a is subscribed to x: by name, or to all agents (the answer to '*' filters the orchestrator, 0) *)
Definition suba (st : nst) (a x : Z) : Prop := In a (Sa st x) \/ (In a (Sall st) /\ x <> 0).

Definition JA (a : Z) (st : nst) (d : dstate) (N O : list msg) : Prop :=
  forall x, Jg (tellsa x) (abouta x) (suba st a x) (Da st x) (va d x) N O.

Lemma zset_new_lookup {V} g (ad : V) l x : zmemk g l = false ->
  zlookup x (zset g ad l) = zlookup x l \/ zlookup x l = None.
Proof.
  intros Hk. destruct (Z.eq_dec x g) as [->|Hne].
  - right. now apply zmemk_false.
  - left. now apply zlookup_zset_other.
Qed.

(* ---- the subscriber's side: what any message does to its entry for agent x *)
Lemma agent_effect_a s m x :
  let r := disc_recv s m in
  match tellsa x m with
  | Some (Some u) => va (rS r) x = Some u
  | Some None => True
  | None => va (rS r) x = va s x \/ (forall w, va s x = Some w -> existsb (abouta x w) (rO r) = true)
  end.
Proof.
  assert (RC : forall c ag addr p,
            va (rS (d_register_computation s c ag addr p)) x = va s x \/
            (forall w, va s x = Some w -> existsb (abouta x w) (rO (d_register_computation s c ag addr p)) = true)).
  { intros c ag addr p. unfold va. destruct (reg_comp_agents s c ag addr p) as [->|(g & ad & Hk & ->)]; auto.
    destruct (zset_new_lookup g ad (d_agents s) x Hk) as [->|E]; auto. right. intros w Hw. congruence. }
  assert (UA : forall y p, y <> x -> va (rS (d_unregister_agent s y p)) x = va s x).
  { intros y p Hne. unfold va. destruct (unreg_agent_agents s y p) as [->| ->]; auto.
    apply zlookup_zdel_other. congruence. }
  destruct m as [o|y ad|l|y|y b|c g addr|c ag|c b|r g b|r b]; cbn [tellsa disc_recv].
  - destruct (is_subop o) eqn:Es; [left; unfold va; now rewrite subop_agents|].
    destruct o as [y ad|y|c g addr|c g|r g|r g| | | | | | |]; simpl in *; try discriminate.
    + unfold va. rewrite reg_agent_agents, reg_agent_O. destruct (Z.eq_dec y x) as [->|Hne].
      * right. intros w _. simpl. now rewrite Z.eqb_refl.
      * left. apply zlookup_zset_other. congruence.
    + destruct (Z.eq_dec y x) as [->|Hne]; [|left; now apply UA].
      unfold va. destruct (unreg_agent_pub s x) as [->| ->]; auto.
      right. intros w _. simpl. now rewrite Z.eqb_refl.
    + apply RC.
    + left. unfold va. now rewrite unreg_comp_agents.
    + left. unfold va. now rewrite reg_rep_agents.
    + left. unfold va. now rewrite unreg_rep_agents.
  - destruct (y =? x) eqn:E.
    + apply Z.eqb_eq in E; subst. unfold va. rewrite reg_agent_agents. apply zlookup_zset_same.
    + left. unfold va. rewrite reg_agent_agents. apply zlookup_zset_other. apply Z.eqb_neq in E. congruence.
  - rewrite register_agents_va. destruct (lastb x l); auto.
  - destruct (y =? x) eqn:E; auto. left. apply UA. now apply Z.eqb_neq.
  - left; reflexivity.
  - apply RC.
  - left. unfold va. now rewrite catch_S, unreg_comp_agents.
  - left; reflexivity.
  - destruct b; cbn [disc_recv]; left; unfold va; [now rewrite reg_rep_agents|now rewrite unreg_rep_agents].
  - left; reflexivity.
Qed.

Lemma JA_agent a st s m q d N O :
  (s = 0 -> N = m :: q) -> (s <> 0 -> is_op m = true) ->
  JA a st d N O ->
  JA a st (rS (disc_recv d m)) (if 0 =? s then q else N) (O ++ rO (disc_recv d m)).
Proof.
  intros H0 Hop HJ x. eapply Jg_agent; [| apply (agent_effect_a d m x) | apply HJ].
  destruct (0 =? s) eqn:E.
  - left. apply H0. apply Z.eqb_eq in E. auto.
  - right. split; auto. apply Z.eqb_neq in E. destruct m; try (discriminate (Hop (not_eq_sym E))). reflexivity.
Qed.

(* ---- the directory's side *)
Lemma lastb_notin x l : (forall p, In p l -> fst p <> x) -> lastb x l = None.
Proof.
  induction l as [|[k v] r IH]; simpl; auto. intros H. rewrite IH by (intros; apply H; auto).
  destruct (k =? x) eqn:E; auto. apply Z.eqb_eq in E. exfalso. apply (H (k, v)); auto.
Qed.

Lemma star_list_tells st x w :
  Binv st -> Da st x = Some w -> x <> 0 ->
  tellsa x (MPubAgents (filter (fun p => negb (fst p =? 0)) (d_agents (n_disc st)))) = Some (Some w).
Proof.
  intros (B1 & B2 & _) HD Hx. simpl.
  rewrite lastb_nodup by (now apply nodupk_filter).
  rewrite (zlookup_filter_key (fun k => negb (k =? 0))).
  - pose proof (B2 x w HD) as Hv. unfold va in Hv. rewrite Hv. reflexivity.
  - apply Z.eqb_neq in Hx. now rewrite Hx.
Qed.

Lemma star_list_silent st : tellsa 0 (MPubAgents (filter (fun p => negb (fst p =? 0)) (d_agents (n_disc st)))) = None.
Proof.
  simpl. rewrite lastb_notin; auto. intros p Hp. apply filter_In in Hp as [_ Hp].
  destruct (fst p =? 0) eqn:E; [discriminate|]. now apply Z.eqb_neq.
Qed.

Lemma compmsg_silent x m : compmsg m -> tellsa x m = None.
Proof. intros (c & [->|(ag & ->)]); reflexivity. Qed.

Definition unreg_guard (a : Z) (st : nst) (s : node) (m : msg) : Prop :=
  s = a -> forall x, m = MUnpubAgent x -> agent_computations (n_disc st) x false = [].

Lemma JA_dir a st s m q d N O :
  Binv st -> (s = a -> O = m :: q) -> unreg_guard a st s m ->
  JA a st d N O ->
  JA a (rS (dir_recv st s m)) d (N ++ msgs_to a (rO (dir_recv st s m))) (if a =? s then q else O).
Proof.
  intros HB HO HG HJ x.
  pose proof (dir_recv_agents st s m) as HA. pose proof (dir_recv_subs st s m) as [_ HS].
  pose proof (dir_recv_all st s m) as HL. simpl in HA, HS.
  (* nothing changes for x *)
  assert (Frame : (suba (rS (dir_recv st s m)) a x -> suba st a x) ->
                  Da (rS (dir_recv st s m)) x = Da st x ->
                  (forall d' m', In (d', m') (rO (dir_recv st s m)) -> d' = a -> tellsa x m' = None) ->
                  (s = a -> abouta x 0 m = false) ->
                  Jg (tellsa x) (abouta x) (suba (rS (dir_recv st s m)) a x) (Da (rS (dir_recv st s m)) x) (va d x)
                     (N ++ msgs_to a (rO (dir_recv st s m))) (if a =? s then q else O)).
  { intros F1 F2 F3 F4. rewrite F2. eapply Jg_frame; [exact F1| | |apply HJ].
    - intros m' Hm'. apply msgs_to_In in Hm'. eapply F3; eauto.
    - intros w _ Hw. destruct (a =? s) eqn:E; auto. apply Z.eqb_eq in E. symmetry in E.
      rewrite (HO E) in Hw. eapply existsb_tail_gen; [|exact Hw]. apply (F4 E). }
  assert (SameSub : g_sub_agents (n_dir (rS (dir_recv st s m))) = g_sub_agents (n_dir st) ->
                    Sall (rS (dir_recv st s m)) = Sall st -> suba (rS (dir_recv st s m)) a x -> suba st a x).
  { unfold suba, Sa. intros -> ->. auto. }
  destruct m as [o|y ad|l|y|y b|c g addr|c ag|c b|r g b|r b];
    try solve [apply Frame;
         [apply SameSub; [exact HS|exact HL] | unfold Da; destruct HA as [_ ->]; reflexivity
         | intros d' m' Hm' _; apply dir_outs_class in Hm'; contradiction | reflexivity]].
  - (* publish_agent y *)
    destruct HA as [_ HAg]. destruct (Z.eq_dec y x) as [->|Hne].
    + apply Jg_told. intros w Hsub HD. unfold Da in HD. rewrite HAg, zlookup_zset_same in HD. inversion HD; subst w.
      assert (Hsub0 : suba st a x) by (apply SameSub; auto).
      split.
      * exists (MPubAgent x ad). split; [|simpl; now rewrite Z.eqb_refl].
        apply msgs_to_In. simpl. unfold dir_register_agent.
        destruct (d_register_agent (n_disc st) x ad false) as [[[d1 o1] e1] x1]. simpl.
        apply in_or_app. destruct Hsub0 as [H|[H _]]; [left|right]; unfold to_all; apply in_map_iff; exists a; auto.
      * intros m' Hm'. apply msgs_to_In in Hm'. apply dir_outs_class in Hm'. subst m'. right. simpl. now rewrite Z.eqb_refl.
    + apply Frame.
      * apply SameSub; auto.
      * unfold Da. rewrite HAg. apply zlookup_zset_other. congruence.
      * intros d' m' Hm' _. apply dir_outs_class in Hm'. subst m'. simpl.
        destruct (y =? x) eqn:E; auto. apply Z.eqb_eq in E. contradiction.
      * intros _. simpl. now apply Z.eqb_neq.
  - (* unpublish_agent y *)
    destruct (dir_unreg_agent_spec st y) as [(Hn & E1 & E2)|(Hn & _ & _ & E1 & E2 & _ & E3 & E4 & E5)]; simpl in *.
    + destruct (Z.eq_dec s a) as [Hs|Hs].
      * exfalso. apply Hn. apply (HG Hs y eq_refl).
      * rewrite E1, E2. unfold msgs_to. simpl. rewrite app_nil_r.
        assert (E : (a =? s) = false) by (apply Z.eqb_neq; congruence). rewrite E. apply HJ.
    + destruct (Z.eq_dec y x) as [->|Hne].
      * intros w _ HD. rewrite E1 in HD. discriminate.
      * apply Frame.
        -- unfold suba, Sa. intros [H|[H Hx]]; [left|right; split; auto].
           destruct E3 as [E3|E3]; rewrite E3 in H; auto. destruct HB as (_ & _ & B3 & _). eapply sm_purge_get; eauto.
        -- apply E2. congruence.
        -- intros d' m' Hm' _. apply E5 in Hm' as [->|Hc]; [|now apply compmsg_silent].
           simpl. destruct (y =? x) eqn:E; auto. apply Z.eqb_eq in E. contradiction.
        -- intros _. simpl. now apply Z.eqb_neq.
  - (* subscribe_agent y / '*' *)
    destruct HA as [_ HAg]. destruct b.
    + destruct (y =? STAR) eqn:Estar.
      * (* subscribe_all_agents: the whole list goes to every '*' subscriber *)
        destruct (Z.eq_dec x 0) as [->|Hx0].
        -- apply Frame.
           ++ unfold suba, Sa. rewrite HS. intros [H|[_ H]]; [left; auto|congruence].
           ++ unfold Da. now rewrite HAg.
           ++ intros d' m' Hm' _. apply dir_outs_class in Hm'. rewrite Estar in Hm'. subst m'. apply star_list_silent.
           ++ reflexivity.
        -- destruct (in_dec Z.eq_dec a (Sall (rS (dir_recv st s (MSubAgent y true))))) as [Hin|Hnin].
           ++ apply Jg_told. intros w _ HD. unfold Da in HD. rewrite HAg in HD.
              split.
              ** exists (MPubAgents (filter (fun p => negb (fst p =? 0)) (d_agents (n_disc st)))).
                 split; [|now apply star_list_tells].
                 apply msgs_to_In. simpl. rewrite Estar. unfold dir_subscribe_all. simpl.
                 unfold to_all. apply in_map_iff. exists a. split; auto.
                 rewrite HL in Hin; try rewrite Estar in Hin. exact Hin.
              ** intros m' Hm'. apply msgs_to_In in Hm'. apply dir_outs_class in Hm'. rewrite Estar in Hm'. subst m'.
                 right. now apply star_list_tells.
           ++ apply Frame.
              ** unfold suba, Sa. rewrite HS. intros [H|[H _]]; [left; auto|contradiction].
              ** unfold Da. now rewrite HAg.
              ** intros d' m' Hm' ->. exfalso. apply Hnin. rewrite HL; try rewrite Estar.
                 simpl in Hm'. rewrite Estar in Hm'. unfold dir_subscribe_all in Hm'. simpl in Hm'.
                 apply to_all_In in Hm'. tauto.
              ** reflexivity.
      * (* subscribe_agent y from s *)
        try rewrite Estar in HL.
        destruct (Z.eq_dec y x) as [->|Hne]; [destruct (Z.eq_dec s a) as [->|Hs]|].
        -- apply Jg_told. intros w _ HD. unfold Da in HD. rewrite HAg in HD.
           assert (Ho : rO (dir_recv st a (MSubAgent x true)) = [(a, MPubAgent x w)]).
           { simpl. rewrite Estar. simpl. fold (Da st x). unfold Da. rewrite HD. reflexivity. }
           rewrite Ho. unfold msgs_to. simpl. rewrite Z.eqb_refl. simpl. split.
           ++ eexists; split; [left; reflexivity|]. simpl. now rewrite Z.eqb_refl.
           ++ intros m' [<-|[]]. right. simpl. now rewrite Z.eqb_refl.
        -- apply Frame.
           ++ unfold suba, Sa. rewrite HS, HL. intros [H|H]; auto. apply sm_add_In in H as [[_ H]|H]; auto. congruence.
           ++ unfold Da. now rewrite HAg.
           ++ intros d' m' Hm' ->. apply dir_outs_class in Hm'. rewrite Estar in Hm'. destruct Hm' as [E _]. congruence.
           ++ reflexivity.
        -- apply Frame.
           ++ unfold suba, Sa. rewrite HS, HL. intros [H|H]; auto. apply sm_add_In in H as [[E _]|H]; auto. congruence.
           ++ unfold Da. now rewrite HAg.
           ++ intros d' m' Hm' _. apply dir_outs_class in Hm'. rewrite Estar in Hm'. destruct Hm' as (_ & ad & -> & _).
              simpl. destruct (y =? x) eqn:E; auto. apply Z.eqb_eq in E. contradiction.
           ++ reflexivity.
    + apply Frame.
      * unfold suba, Sa. rewrite HS, HL. intros [H|H]; auto. left. eapply sm_del_In; eauto.
      * unfold Da. now rewrite HAg.
      * intros d' m' Hm' _. apply dir_outs_class in Hm'. contradiction.
      * reflexivity.
  - (* publish_computation: the agent tables of the directory proper are untouched *)
    apply Frame.
    + apply SameSub; [exact HS|exact HL].
    + unfold Da. destruct HA as [-> _]. reflexivity.
    + intros d' m' Hm' _. apply dir_outs_class in Hm' as (ad & ->). reflexivity.
    + reflexivity.
  - apply Frame.
    + apply SameSub; [exact HS|exact HL].
    + unfold Da. destruct HA as [_ ->]. reflexivity.
    + intros d' m' Hm' _. apply dir_outs_class in Hm'. now apply compmsg_silent.
    + reflexivity.
  - apply Frame.
    + apply SameSub; [exact HS|exact HL].
    + unfold Da. destruct HA as [_ ->]. reflexivity.
    + intros d' m' Hm' _. apply dir_outs_class in Hm'. destruct b; [|contradiction]. destruct Hm' as (_ & g & ad & ->). reflexivity.
    + reflexivity.
  - apply Frame.
    + apply SameSub; [exact HS|exact HL].
    + unfold Da. destruct HA as [_ ->]. reflexivity.
    + intros d' m' Hm' _. apply dir_outs_class in Hm'. subst m'. reflexivity.
    + reflexivity.
  - apply Frame.
    + apply SameSub; [exact HS|exact HL].
    + unfold Da. destruct HA as [_ ->]. reflexivity.
    + intros d' m' Hm' _. apply dir_outs_class in Hm'. destruct b; [|contradiction]. destruct Hm' as (_ & g & -> & _). reflexivity.
    + reflexivity.
Qed.

(* ------------------------------------------------------------------ the network level *)
(* the guard, on one step: the directory is not about to refuse an un-registration published by a
   (Directory.unregister_agent raises DiscoveryException while computations are hosted on the agent) *)
Definition GA (a : Z) (cf : config nst msg) (act : action) : Prop :=
  forall x q, act = Deliver a 0 -> chan cf a 0 = MUnpubAgent x :: q ->
    agent_computations (n_disc (dirst cf)) x false = [].

Definition IA (a : Z) (cf : config nst msg) : Prop := Qc a (JA a) cf.

Lemma IA_step h a : 0 < a -> forall act cf, Base a cf -> IA a cf -> GA a cf act ->
  IA a (fst (step (disc_proto h) cf act)).
Proof.
  intros Ha act cf (R0 & Ra & T & B) HI HG. apply (Q_step h a Ha); auto.
  - intros s m q Ea Hc. apply JA_dir; auto.
    + intros ->. exact Hc.
    + intros -> x ->. eapply HG; eauto.
  - intros s m q Ea Hc Hop. apply JA_agent; auto. intros ->. exact Hc.
Qed.

Lemma IA_init h a : 0 < a -> forall cf, Kinit2 h cf -> IA a cf.
Proof.
  intros Ha cf HK. destruct (Kinit2_quiet h a Ha cf HK) as (E1 & E2 & E3).
  unfold IA, Qc. rewrite E1. intros x w [H|[H _]]; simpl in H; contradiction.
Qed.

(* in-flight invariant and convergence of the agent sub-protocol: every history, every subscriber,
   every start order, every schedule along which the guard holds *)
Lemma disc_agent_inv_l : forall (h : hist_t) (a : Z) (ns : list node) (sched : list (@action)),
  0 < a -> In 0 ns -> In a ns ->
  let P := disc_proto h in
  let cf0 := fst (exec P (init P) (map (@Start) ns)) in
  along h (GA a) cf0 sched ->
  Base a (fst (exec P cf0 sched)) /\ IA a (fst (exec P cf0 sched)).
Proof.
  intros h a ns sched Ha H0 Hna P cf0 HG.
  destruct (starts_spec2 h ns (init P) (Kinit2_init h)) as [K R].
  apply (I_exec h a (GA a) (IA a)); auto.
  - intros act cf. now apply IA_step.
  - apply (Kinit2_Base h); auto.
  - now apply (IA_init h).
Qed.

Lemma disc_agent_converges_l : forall (h : hist_t) (a : Z) (ns : list node) (sched : list (@action)),
  0 < a -> In 0 ns -> In a ns ->
  let P := disc_proto h in
  let cf0 := fst (exec P (init P) (map (@Start) ns)) in
  along h (GA a) cf0 sched ->
  let cf := fst (exec P cf0 sched) in
  forall x ad,
    In a (sm_get x (g_sub_agents (n_dir (w_st (nodes cf 0))))) \/
      (In a (g_sub_all (n_dir (w_st (nodes cf 0)))) /\ x <> 0) ->
    zlookup x (g_agents (n_dir (w_st (nodes cf 0)))) = Some ad ->
    chan cf 0 a = [] -> chan cf a 0 = [] ->
    zlookup x (d_agents (n_disc (w_st (nodes cf a)))) = Some ad.
Proof.
  intros h a ns sched Ha H0 Hna P cf0 HG cf x ad Hsub HD E1 E2.
  destruct (disc_agent_inv_l h a ns sched Ha H0 Hna HG) as [_ HI].
  fold P cf0 cf in HI. unfold IA, Qc in HI. specialize (HI x ad Hsub HD).
  rewrite E1, E2 in HI. simpl in HI. destruct HI as [H|H]; [exact H|discriminate].
Qed.

(* the guard can be checked by computation *)
Definition GAb (a : Z) (cf : config nst msg) (act : action) : bool :=
  match act with
  | Deliver s d =>
      if (s =? a) && (d =? 0) then
        match chan cf a 0 with
        | MUnpubAgent x :: _ =>
            match agent_computations (n_disc (w_st (nodes cf 0))) x false with [] => true | _ => false end
        | _ => true
        end
      else true
  | _ => true
  end.

Fixpoint alongb (h : hist_t) (g : config nst msg -> action -> bool) (cf : config nst msg) (sched : list (@action)) : bool :=
  match sched with
  | [] => true
  | act :: r => g cf act && alongb h g (fst (step (disc_proto h) cf act)) r
  end.

Lemma alongb_sound h (g : config nst msg -> action -> bool) (G : config nst msg -> action -> Prop) :
  (forall cf act, g cf act = true -> G cf act) ->
  forall sched cf, alongb h g cf sched = true -> along h G cf sched.
Proof.
  intros Hs. induction sched as [|act r IH]; intros cf H; simpl in *; auto.
  apply andb_true_iff in H as [H1 H2]. split; auto.
Qed.

Lemma GAb_sound a cf act : GAb a cf act = true -> GA a cf act.
Proof.
  unfold GAb, GA. intros H x q -> Hc. rewrite Z.eqb_refl in H. simpl in H. rewrite Hc in H.
  unfold dirst. destruct (agent_computations _ x false); [reflexivity|discriminate].
Qed.

(* ---- the unguarded statement is false of the model (finding C20-unregister-agent-refused):
   agent 2 registers agent 3 and subscribes to it, agent 1 registers computation 0 on agent 3,
   then 2 un-registers 3 locally: the directory refuses, keeps 3 and never tells 2 *)
Definition wa_h : hist_t :=
  [(1, [OpRegComp 0 (Some 3) (Some 1003)]);
   (2, [OpRegAgent 3 1003; OpSubAgent 3 (Some 1) false; OpUnregAgent 3])].
Definition wa_sched :=
  [Deliver (-2) 2; Deliver 2 0; Deliver 0 2; Deliver (-2) 2; Deliver 2 0; Deliver 0 2;
   Deliver (-1) 1; Deliver 1 0; Deliver (-2) 2; Deliver 2 0].

Lemma agent_agreement_unguarded_refuted_l :
  exists h a ns sched x ad, 0 < a /\ In 0 ns /\ In a ns /\
    let cf := run_from h ns sched in
    quietb cf ns = true /\
    In a (sm_get x (g_sub_agents (n_dir (w_st (nodes cf 0))))) /\
    zlookup x (g_agents (n_dir (w_st (nodes cf 0)))) = Some ad /\
    zlookup x (d_agents (n_disc (w_st (nodes cf a)))) = None.
Proof.
  exists wa_h, 2, w1_ns, wa_sched, 3, 1003. vm_compute. repeat split; auto.
Qed.

(* non-vacuity of the agent theorem: the same history without the refused un-registration, plus a
   '*' subscriber, guard checked along the schedule *)
Definition oka_h : hist_t :=
  [(1, [OpSubAll (Some 5); OpRegAgent 1 1001]);
   (2, [OpRegAgent 3 1003; OpSubAgent 3 (Some 1) false; OpUnregAgent 3; OpRegAgent 3 1004])].
Definition oka_sched :=
  [Deliver (-1) 1; Deliver 1 0; Deliver (-2) 2; Deliver 2 0; Deliver (-2) 2; Deliver 2 0; Deliver 0 2;
   Deliver (-2) 2; Deliver (-2) 2; Deliver 2 0; Deliver 2 0; Deliver 0 2; Deliver 0 2; Deliver 0 1; Deliver 0 1; Deliver 0 1;
   Deliver (-1) 1; Deliver 1 0; Deliver 0 1; Deliver 0 1; Deliver 0 1].
