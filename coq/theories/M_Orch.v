(* M_Orch.v -- executable model of the orchestrator's management computation
   (pydcop/infrastructure/orchestrator.py: AgentsMgt) as far as C22 needs it:
     _cb_agent_registration (incl. the stop order to an agent that registers after the agents were
     asked to stop, /repo fix), _cb_computation_registration, _orchestrator_deploy_computations,
     _orchestrator_run_computations, _orchestrator_stop_agents, _on_value_change_msg
     (collect modes 'value_change' / 'period' / None: every value goes to _current_cycle = 0),
     _on_computation_end_msg, _on_agent_stopped_msg, _on_metrics_msg, the error path of
     on_message, and global_metrics + DCOP.solution_cost + filter_assignment_dict.
   One [step] = one call made by the orchestrator's agent thread (a message handed to
   AgentsMgt.on_message or a discovery callback).  Models only; proofs are in P_Orch.v. *)
From PyDcop Require Import Base.
Open Scope Z_scope.

(* ---------- the DCOP as solution_cost sees it ---------- *)
Record constraint := mkCons {
  k_scope : list string;     (* r.dimensions, in order *)
  k_dims  : list Z;          (* domain sizes of the scope variables *)
  k_table : list Z           (* row-major cost matrix (NAryMatrixRelation) *)
}.
Record dcop := mkDcop {
  d_vars : list (string * list Z);   (* all_variables in order; cost_for_val per value
                                         index ([] = plain Variable, cost 0) *)
  d_cons : list constraint;          (* dcop.constraints.values() *)
  d_infinity : Z
}.
Definition var_names (d : dcop) : list string := map fst (d_vars d).

Definition assignment := list (string * Z).   (* dict name -> value (= domain index) *)

(* row-major index of the scope's values; None = a scope variable has no value *)
Fixpoint cons_index (a : assignment) (scope : list string) (dims : list Z) (acc : Z) : option Z :=
  match scope, dims with
  | x :: s, dm :: ds =>
      match slookup x a with
      | Some v => cons_index a s ds (acc * dm + v)
      | None => None
      end
  | _, _ => Some acc
  end.
Definition cons_cost (a : assignment) (k : constraint) : option Z :=
  match cons_index a (k_scope k) (k_dims k) 0 with
  | Some i => Some (nth (Z.to_nat i) (k_table k) 0)
  | None => None
  end.
Definition var_cost (a : assignment) (v : string * list Z) : option Z :=
  match slookup (fst v) a with
  | Some x => Some (nth (Z.to_nat x) (snd v) 0)
  | None => None
  end.

(* "if c != infinity: cost_soft += c else: cost_hard += 1" *)
Definition account (inf : Z) (hs : Z * Z) (c : Z) : Z * Z :=
  if Z.eqb c inf then (fst hs + 1, snd hs) else (fst hs, snd hs + c).

Fixpoint account_cons (inf : Z) (a : assignment) (ks : list constraint) (hs : Z * Z)
  : option (Z * Z) :=
  match ks with
  | [] => Some hs
  | k :: r => match cons_cost a k with
              | Some c => account_cons inf a r (account inf hs c)
              | None => None           (* KeyError out of the relation: unreachable when the
                                          assignment is total, see P_Orch.total_cons_cost *)
              end
  end.
Fixpoint account_vars (inf : Z) (a : assignment) (vs : list (string * list Z)) (hs : Z * Z)
  : Z * Z :=
  match vs with
  | [] => hs
  | v :: r => match var_cost a v with
              | Some c => account_vars inf a r (account inf hs c)
              | None => account_vars inf a r hs    (* "if v.name in assignment" *)
              end
  end.

(* pydcop.dcop.dcop.solution_cost: None = ValueError (a variable without value, or
   len(variables) != len(assignment)).  Result = (cost_hard, cost_soft) = (violation, cost). *)
Definition solution_cost (d : dcop) (a : assignment) : option (Z * Z) :=
  if negb (forallb (fun v => mem_key String.eqb (fst v) a) (d_vars d))
     || negb (Nat.eqb (List.length (d_vars d)) (List.length a)) then None
  else match account_cons (d_infinity d) a (d_cons d) (0, 0) with
       | Some hs => Some (account_vars (d_infinity d) a (d_vars d) hs)
       | None => None
       end.

(* filter_assignment_dict(assignment, dcop.variables.values()) *)
Definition filter_assignment (names : list string) (a : assignment) : assignment :=
  filter (fun kv => smem (fst kv) names) a.

(* ---------- AgentsMgt ---------- *)
Record cfg := mkCfg {
  g_nodes : list string;                    (* graph.nodes names: keys of _computation_status *)
  g_dist : list (string * list string);     (* initial_dist mapping, in its own order *)
  g_repair_only : bool
}.
Definition dist_agents (c : cfg) : list string := map fst (g_dist c).
Definition dist_computations (c : cfg) : list string := flat_map snd (g_dist c).
Definition computations_hosted (c : cfg) (a : string) : list string :=
  match slookup a (g_dist c) with Some l => l | None => [] end.

(* What the handlers READ from the orchestrator's Discovery object when they run.  The directory
   updates it when agents / computations (un)register, independently of (and possibly ahead
   of) the callbacks delivered to AgentsMgt, so it is an explicit input of every step. *)
Record env := mkEnv {
  e_agents : list string;     (* discovery.agents(): registration order, orchestrator filtered *)
  e_comps : list string       (* discovery.computations() *)
}.

Record mgt := mkMgt {
  m_status : list (string * bool);   (* _computation_status: true = 'finished', false = '' *)
  m_values : assignment;             (* _agent_cycle_values[0]: computation -> value *)
  m_nb : Z;                          (* _nb_computations *)
  m_all_registered : bool;
  m_ready : bool;                    (* ready_to_run, as set by the registration callback *)
  m_all_stopped : bool;              (* _all_agt_stopped *)
  m_stop_requested : bool            (* _stop_requested: the stop order has been sent (fix: a late agent is told too) *)
}.

Definition init (c : cfg) : mgt :=
  mkMgt (dict_of_list String.eqb (map (fun n => (n, false)) (g_nodes c))) [] 0 false false false false.

Inductive ev :=
| EAgentAdded (a : string) | EAgentRemoved (a : string)     (* discovery callbacks *)
| ECompAdded (c : string) | ECompRemoved (c : string)
| EDeploy | ERun | EStopReq                                 (* internal _orchestrator_* messages *)
| EValue (a c : string) (v : Z)                             (* value_change *)
| EEnd (a c : string)                                       (* end_of_computation *)
| EStopped (a : string) | EMetrics (a : string)
| EOther.                                                   (* a type with no handler *)

Inductive out :=
| OMetricsMode (a : string) | ODeploy (a c : string) | ORun (a : string) (cs : list string)
| OStop (a : string) | OCritical.

(* _orchestrator_stop_agents *)
Definition stop_agents (m : mgt) (en : env) : mgt * list out :=
  match e_agents en with
  | [] => (mkMgt (m_status m) (m_values m) (m_nb m) (m_all_registered m) (m_ready m) true true, [])
  | ags => (mkMgt (m_status m) (m_values m) (m_nb m) (m_all_registered m) (m_ready m)
                  (m_all_stopped m) true, map OStop ags)
  end.

Definition all_finished (st : list (string * bool)) : bool := forallb snd st.

Definition step (c : cfg) (m : mgt) (en : env) (e : ev) : mgt * list out :=
  match e with
  | EAgentAdded a =>
      let allreg := forallb (fun x => smem x (e_agents en)) (dist_agents c) in
      (mkMgt (m_status m) (m_values m) (m_nb m) (m_all_registered m || allreg) (m_ready m)
             (m_all_stopped m) (m_stop_requested m),
       OMetricsMode a :: if m_stop_requested m then [OStop a] else [])
  | EAgentRemoved a =>
      (mkMgt (m_status m) (m_values m) (m_nb m) (m_all_registered m) (m_ready m)
             (m_all_stopped m || match e_agents en with [] => true | _ => false end)
             (m_stop_requested m), [])
  | ECompAdded x =>
      let rdy := smem x (dist_computations c)
                 && forallb (fun y => smem y (e_comps en)) (dist_computations c) in
      (mkMgt (m_status m) (m_values m) (m_nb m) (m_all_registered m) (m_ready m || rdy)
             (m_all_stopped m) (m_stop_requested m), [])
  | ECompRemoved x => (m, [])
  | EDeploy =>
      let outs := flat_map (fun a => map (ODeploy a) (computations_hosted c a)) (e_agents en) in
      (mkMgt (m_status m) (m_values m) (m_nb m + Z.of_nat (List.length outs))
             (m_all_registered m) (m_ready m) (m_all_stopped m) (m_stop_requested m), outs)
  | ERun =>
      (m, if g_repair_only c then []
          else map (fun a => ORun a (computations_hosted c a)) (e_agents en))
  | EStopReq => stop_agents m en
  | EValue _ x v =>
      (mkMgt (m_status m) (dict_set String.eqb x v (m_values m)) (m_nb m) (m_all_registered m)
             (m_ready m) (m_all_stopped m) (m_stop_requested m), [])
  | EEnd _ x =>
      let st := dict_set String.eqb x true (m_status m) in
      let m' := mkMgt st (m_values m) (m_nb m) (m_all_registered m) (m_ready m)
                      (m_all_stopped m) (m_stop_requested m) in
      if all_finished st then stop_agents m' en else (m', [])
  | EStopped _ | EMetrics _ => (m, [])
  | EOther => (m, [OCritical])     (* AgentException -> stop_agents(10) from the handler, self.stop() *)
  end.

(* a trace = the calls made by the orchestrator thread, each with what Discovery held then *)
Definition run_from (c : cfg) (m : mgt) (tr : list (ev * env)) : mgt :=
  fold_left (fun m ee => fst (step c m (snd ee) (fst ee))) tr m.
Definition run (c : cfg) (tr : list (ev * env)) : mgt := run_from c (init c) tr.

(* global_metrics: (assignment, Some (violation, cost) | None) *)
Definition reported_assignment (m : mgt) : assignment := m_values m.
Definition reported_cost (d : dcop) (m : mgt) : option (Z * Z) :=
  solution_cost d (filter_assignment (var_names d) (reported_assignment m)).

(* ---------- correspondence ---------- *)
Definition out_eqb (a b : out) : bool :=
  match a, b with
  | OMetricsMode x, OMetricsMode y => String.eqb x y
  | ODeploy x1 x2, ODeploy y1 y2 => String.eqb x1 y1 && String.eqb x2 y2
  | ORun x xs, ORun y ys => String.eqb x y && list_eqb String.eqb xs ys
  | OStop x, OStop y => String.eqb x y
  | OCritical, OCritical => true
  | _, _ => false
  end.

(* one recorded call: the event, the management messages the real handler sent, and the
   flags read afterwards: all_registered, Some ready_to_run (None = not compared: the caller
   thread replaces that Event object concurrently once run() is entered), _all_agt_stopped *)
Record obs_step := mkObs {
  o_ev : ev; o_env : env; o_outs : list out; o_allreg : bool; o_ready : option bool; o_allstopped : bool }.

Record case := mkCase {
  c_cfg : cfg; c_dcop : dcop; c_trace : list obs_step;
  c_status : list (string * bool);          (* final _computation_status.items() *)
  c_assignment : assignment;                (* end_metrics()['assignment'].items() *)
  c_cost : option (Z * Z)                   (* (violation, cost), None = both None *)
}.

Fixpoint check_trace (c : cfg) (m : mgt) (tr : list obs_step) : option mgt :=
  match tr with
  | [] => Some m
  | o :: r =>
      let '(m1, outs) := step c m (o_env o) (o_ev o) in
      if list_eqb out_eqb outs (o_outs o)
         && Bool.eqb (m_all_registered m1) (o_allreg o)
         && match o_ready o with Some b => Bool.eqb (m_ready m1) b | None => true end
         && Bool.eqb (m_all_stopped m1) (o_allstopped o)
      then check_trace c m1 r else None
  end.

Definition zz_eqb (a b : Z * Z) : bool := Z.eqb (fst a) (fst b) && Z.eqb (snd a) (snd b).

Definition check_case (k : case) : bool :=
  match check_trace (c_cfg k) (init (c_cfg k)) (c_trace k) with
  | None => false
  | Some m =>
      list_eqb (pair_eqb String.eqb Bool.eqb) (m_status m) (c_status k)
      && list_eqb (pair_eqb String.eqb Z.eqb) (reported_assignment m) (c_assignment k)
      && option_eqb zz_eqb (reported_cost (c_dcop k) m) (c_cost k)
  end.
