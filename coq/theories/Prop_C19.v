(* Prop_C19.v -- C19: messages held across start or pause keep their original order.
   Only statements; each closed by an exact lemma from P_Lifecycle.

   Model (M_Lifecycle.v): one MessagePassingComputation [me] and the hosting agent's priority
   queue.  A history is any list of
     Recv src id ty | LNext | Start | Stop | Pause | Resume | LPost tgt id prio
   (a message reaches the agent / the agent loop pops one and calls on_message / lifecycle calls /
   the computation posts).  [received ops], [posted me ops] are the Recv / LPost of the history in
   order; [l_handled] the handler invocations; [out me l_calls] the message_sender calls towards
   other computations; [l_brecv], [l_bpost] the two hold buffers; [qmsgs l_queue] the queue.
   [posts_elsewhere]: the computation does not post to itself. *)
From PyDcop Require Import Base M_Messaging M_Lifecycle P_Lifecycle.
From Coq Require Import Permutation.

(* Posting side, all histories: what message_sender saw, followed by what is still held, is the
   posted sequence -- each post once, in posting order; nothing is held unless paused. *)
Theorem held_posts_sent_in_order : forall me ops,
  posts_elsewhere me ops = true ->
  let st := lrun (linit me) ops in
  out me (l_calls st) ++ map (tocall me) (l_bpost st) = posted me ops /\
  (l_paused st = false -> l_bpost st = [] /\ out me (l_calls st) = posted me ops).
Proof. exact held_posts_sent_in_order_l. Qed.

(* Receiving side, all histories, all message types: a received message is in exactly one of
   handled / held / queued (never lost, never duplicated); once the computation runs un-paused
   and the queue is drained, the handled messages are exactly the received ones. *)
Theorem held_handled_exactly_once : forall me ops,
  posts_elsewhere me ops = true ->
  let st := lrun (linit me) ops in
  Permutation (received ops) (l_handled st ++ l_brecv st ++ qmsgs (l_queue st)) /\
  (l_running st = true -> l_paused st = false -> l_queue st = [] ->
   Permutation (received ops) (l_handled st)).
Proof. exact held_handled_exactly_once_l. Qed.

(* FULL STATEMENT (false of the code, see the two refutations below):
     forall me ops, posts_elsewhere me ops = true -> (all received messages have one type) ->
       l_handled st ++ l_brecv st ++ qmsgs (l_queue st) = received ops.
   Proved with the exact guards
     [REINJECT < t /\ uniform_types t ops]: the received messages all have type t > 19 (the default
        MSG_ALGO = 20 in particular; the priority queue deliberately reorders different types, C18);
     [safe_run]: no start/resume re-injects held messages while a message of type <= 19 (i.e. one
        re-injected earlier) is still queued.
   The equation says: handled once, in reception order, and every held or queued message comes
   after the handled ones and before any newer message. *)
Theorem held_handled_once_in_order : forall t me ops,
  REINJECT < t ->
  posts_elsewhere me ops = true -> uniform_types t ops = true -> safe_run (linit me) ops = true ->
  let st := lrun (linit me) ops in
  l_handled st ++ l_brecv st ++ qmsgs (l_queue st) = received ops.
Proof. exact held_handled_once_in_order_l. Qed.

Theorem held_handled_all_when_quiescent : forall t me ops,
  REINJECT < t ->
  posts_elsewhere me ops = true -> uniform_types t ops = true -> safe_run (linit me) ops = true ->
  let st := lrun (linit me) ops in
  l_running st = true -> l_paused st = false -> l_queue st = [] ->
  l_handled st = received ops /\ l_brecv st = [].
Proof. exact held_handled_all_when_quiescent_l. Qed.

(* [safe_run] cannot be dropped: receive a, b before start; start; pause; the loop pops a (held
   again); resume re-injects a behind b.  Known finding C19-reinject-behind-queued. *)
Theorem held_order_refuted :
  exists me ops,
    posts_elsewhere me ops = true /\ uniform_types MSG_ALGO ops = true /\
    let st := lrun (linit me) ops in
    l_running st = true /\ l_paused st = false /\ l_queue st = [] /\ l_brecv st = [] /\
    received ops = [(6, 1); (5, 2)] /\ l_handled st = [(5, 2); (6, 1)].
Proof. exact held_order_refuted_l. Qed.

(* [REINJECT < t] cannot be dropped: a held message of type 10 is re-queued with type 19 and a
   newer type-10 message overtakes it.  Known finding C19-held-requeued-as-19. *)
Theorem held_priority_refuted :
  exists me ops,
    posts_elsewhere me ops = true /\ uniform_types 10 ops = true /\ safe_run (linit me) ops = true /\
    let st := lrun (linit me) ops in
    l_running st = true /\ l_paused st = false /\ l_queue st = [] /\ l_brecv st = [] /\
    received ops = [(6, 1); (6, 2)] /\ l_handled st = [(6, 2); (6, 1)].
Proof. exact held_priority_refuted_l. Qed.

(* non-vacuity: a history meeting every hypothesis of the ordering theorem in which messages are
   received before start and while paused, posts are made while paused, and everything comes
   out once and in order *)
Example c19_nonvacuous :
  let ops := [Recv 5 1 None; Recv 6 2 None; LNext; Start; LNext; Pause; LPost 1 10 None;
              Recv 5 3 None; LNext; LNext; LPost 2 11 (Some 15); Recv 6 4 None; Resume;
              LNext; LNext; LNext] in
  let st := lrun (linit 0) ops in
  posts_elsewhere 0 ops = true /\ uniform_types MSG_ALGO ops = true /\ safe_run (linit 0) ops = true /\
  l_running st = true /\ l_paused st = false /\ l_queue st = [] /\
  l_handled st = [(5, 1); (6, 2); (5, 3); (6, 4)] /\
  out 0 (l_calls st) = [mkCall 0 1 10 None; mkCall 0 2 11 (Some 15)] /\
  List.length (l_calls st) = 5%nat.
Proof. vm_compute. repeat split; reflexivity. Qed.
