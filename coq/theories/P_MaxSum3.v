(* P_MaxSum3.v -- C05 deepening, part 2: the SAME_COUNT suppression lifted to runs of the lock-step system.
   With stability 0 and damping 0 a withheld message equals what the receiver already holds, so after every
   round the receiver's costs dict holds, for each neighbour, exactly the table that neighbour computed in
   its last cycle ([view_spec]). *)
From Coq Require Import QArith Qabs Lia Permutation.
From PyDcop Require Import Base Net M_SyncMixin P_SyncMixin M_MaxSum P_MaxSum P_MaxSum2.
Local Open Scope nat_scope.
Local Notation length := List.length.

(* ------------------------------------------------------------------ canonical tables *)
(* every table the code builds is stored reduced ([Qred] models nothing: it keeps the model's rationals small);
   two reduced tables that are pointwise Qeq are equal *)
Definition canon (t : table) : Prop := Forall (fun q => Qred q = q) t.

Lemma Qred_idem q : Qred (Qred q) = Qred q.
Proof. apply Qred_complete. apply Qred_correct. Qed.

Lemma canon_map_Qred {X} (g : X -> Q) l : canon (map (fun x => Qred (g x)) l).
Proof. induction l as [|x l IH]; simpl; constructor; [apply Qred_idem | exact IH]. Qed.

Lemma fcv_canon D mx f recv x : canon (factor_costs_for_var D mx f recv x).
Proof. unfold factor_costs_for_var. apply (canon_map_Qred (fun d => odefault (fcv_at D mx f recv x d))). Qed.

Lemma cff_canon vd factors costs f : canon (costs_for_factor vd factors costs f).
Proof. unfold costs_for_factor. cbv zeta. apply (canon_map_Qred (fun d => _)). Qed.

Lemma canon_eq t : forall p, canon t -> canon p -> length t = length p ->
  Forall (fun cp => (snd cp == fst cp)%Q) (combine t p) -> p = t.
Proof.
  induction t as [|x t IH]; intros p Ht Hp Hl HF; destruct p as [|y p]; simpl in Hl; try discriminate; auto.
  cbn [combine] in HF.
  inversion Ht as [|? ? Hx Ht']; inversion Hp as [|? ? Hy Hp']; inversion HF as [|? ? Hxy HF']; subst.
  cbn [fst snd] in Hxy. f_equal.
  - rewrite <- Hy, <- Hx. now apply Qred_complete.
  - apply IH; auto.
Qed.

Lemma damp_zero dm t : forall p, (dm == 0)%Q -> canon t -> length p = length t -> damp dm t p = t.
Proof.
  unfold damp. induction t as [|x t IH]; intros p Hd Ht Hl; destruct p as [|y p]; simpl in Hl; try discriminate; auto.
  inversion Ht as [|? ? Hx Ht']; subst. cbn [combine map fst snd]. f_equal.
  - transitivity (Qred x); [|exact Hx]. apply Qred_complete. rewrite Hd. ring.
  - apply IH; auto.
Qed.

Lemma approx_match_stab0 s t p : (s == 0)%Q -> approx_match s t p = approx_match 0 t p.
Proof.
  intros Hs. unfold approx_match. apply forallb_ext'. intros cp. unfold match1.
  destruct (Qeq_bool (snd cp) (fst cp)); auto. destruct (Qeq_bool (snd cp + fst cp) 0); auto.
  unfold Qltb. f_equal.
  destruct (Qle_bool s _) eqn:A, (Qle_bool 0 (2 * Qabs (snd cp - fst cp) / Qabs (snd cp + fst cp))) eqn:B; auto.
  - apply Qle_bool_iff in A. rewrite Hs in A. apply Qle_bool_iff in A. congruence.
  - apply Qle_bool_iff in B. rewrite <- Hs in B. apply Qle_bool_iff in B. congruence.
Qed.

(* ------------------------------------------------------------------ the emit block, stability 0 and damping 0 *)
Lemma emit_spec P dampon prev tgt t :
  (p_stab P == 0)%Q -> (p_damp P == 0)%Q -> canon t ->
  (forall p c, zlookup tgt prev = Some (p, c) -> canon p /\ length p = length t) ->
  match emit P dampon prev tgt t with
  | (Some t', prev') => t' = t /\ exists c, prev' = dict_set Z.eqb tgt (t, c) prev
  | (None, prev') => prev' = prev /\ exists c, zlookup tgt prev = Some (t, c)
  end.
Proof.
  intros Hs Hd Hct Hprev. unfold emit. destruct (zlookup tgt prev) as [[p c]|] eqn:E.
  - destruct (Hprev p c eq_refl) as [Hcp Hl].
    assert ((if dampon then damp (p_damp P) t p else t) = t) as ->.
    { destruct dampon; auto. apply damp_zero; auto. }
    rewrite (approx_match_stab0 _ t p Hs). destruct (approx_match 0 t p) eqn:M; simpl.
    + destruct (Nat.ltb c SAME_COUNT).
      * split; eauto.
      * split; auto. apply approx_match_zero in M. exists c. rewrite (canon_eq t p); auto.
    + split; eauto.
  - simpl. split; eauto.
Qed.

Lemma emit_all_spec P dampon compute targets :
  (p_stab P == 0)%Q -> (p_damp P == 0)%Q -> (forall b, In b targets -> canon (compute b)) -> NoDup targets ->
  forall prev,
  (forall b p c, In b targets -> zlookup b prev = Some (p, c) -> canon p /\ length p = length (compute b)) ->
  forall b,
    (In b targets ->
       (exists c, zlookup b (snd (emit_all P dampon compute prev targets)) = Some (compute b, c)) /\
       (zlookup b (fst (emit_all P dampon compute prev targets)) = Some (compute b) \/
        (zlookup b (fst (emit_all P dampon compute prev targets)) = None /\
         exists c, zlookup b prev = Some (compute b, c)))) /\
    (~ In b targets ->
       zlookup b (snd (emit_all P dampon compute prev targets)) = zlookup b prev /\
       zlookup b (fst (emit_all P dampon compute prev targets)) = None).
Proof.
  intros Hs Hd. induction targets as [|tgt rest IH]; intros Hcan Hnd prev Hprev b.
  - simpl. split; [intros [] | auto].
  - inversion Hnd as [|? ? Hnin Hnd']; subst. simpl.
    pose proof (emit_spec P dampon prev tgt (compute tgt) Hs Hd (Hcan tgt (or_introl eq_refl))
                  (fun p c H => Hprev tgt p c (or_introl eq_refl) H)) as He.
    destruct (emit P dampon prev tgt (compute tgt)) as [o prev1] eqn:Ee.
    assert (F1 : forall y, y <> tgt -> zlookup y prev1 = zlookup y prev).
    { intros y Hy. destruct o as [t'|].
      - destruct He as [_ [c ->]]. now apply zlookup_set_other.
      - destruct He as [-> _]. reflexivity. }
    assert (F2 : exists c, zlookup tgt prev1 = Some (compute tgt, c)).
    { destruct o as [t'|].
      - destruct He as [_ [c ->]]. exists c. apply zlookup_set_same.
      - destruct He as [-> [c Hc]]. eauto. }
    assert (F3 : o = Some (compute tgt) \/ (o = None /\ exists c, zlookup tgt prev = Some (compute tgt, c))).
    { destruct o as [t'|].
      - destruct He as [-> _]. auto.
      - destruct He as [_ Hc]. auto. }
    clear He.
    assert (Hprev1 : forall y p c, In y rest -> zlookup y prev1 = Some (p, c) -> canon p /\ length p = length (compute y)).
    { intros y p c Hy Hl. rewrite F1 in Hl; [|intros ->; contradiction]. eapply Hprev; eauto. right; auto. }
    specialize (IH (fun y Hy => Hcan y (or_intror Hy)) Hnd' prev1 Hprev1).
    destruct (emit_all P dampon compute prev1 rest) as [os prev2] eqn:Ea. simpl in IH. simpl.
    unfold zlookup in *.
    match goal with |- context [@lookup _ table Z.eqb b ?X] => set (L := X) end.
    assert (Hos : forall y, y <> tgt -> lookup Z.eqb y L = lookup Z.eqb y os).
    { intros y Hy. unfold L. destruct o; auto. simpl. destruct (Z.eqb_spec y tgt); [contradiction|reflexivity]. }
    unfold zlookup in *.
    destruct (Z.eq_dec b tgt) as [->|Hb].
    + destruct (IH tgt) as [_ IHn]. destruct (IHn Hnin) as [Hp2 Ho2]. split; [|intros Hc; exfalso; apply Hc; left; reflexivity].
      intros _. split.
      * destruct F2 as [c Hc]. exists c. rewrite Hp2. exact Hc.
      * unfold L. destruct F3 as [->|[-> Hc]].
        -- left. simpl. now rewrite Z.eqb_refl.
        -- right. split; auto.
    + destruct (IH b) as [IHi IHn]. rewrite (Hos b Hb). split.
      * intros [Hc|Hin]; [congruence|]. destruct (IHi Hin) as [Hp2 Ho2]. split; auto.
        destruct Ho2 as [Ho2|[Ho2 Hc]]; auto. right. split; auto. rewrite <- (F1 b Hb). exact Hc.
      * intros Hn. assert (Hn' : ~ In b rest) by (intros Hc; apply Hn; right; exact Hc).
        destruct (IHn Hn') as [Hp2 Ho2]. split; auto. rewrite Hp2. now apply F1.
Qed.

(* ------------------------------------------------------------------ the rounds, message by message *)
Section Views.
  Variable P : params.
  Variable G : dcop.
  Hypothesis Hwf : wf_dcop G.

  (* the table computation a builds for neighbour b from its costs dict c *)
  Definition comp_table (a : node) (c : list (node * table)) (b : node) : table :=
    match zlookup a (d_vars G) with
    | Some vd => costs_for_factor vd (factors_of G a) c b
    | None => match zlookup a (d_facs G) with
              | Some fd => factor_costs_for_var (dom_of G) (p_max P) fd c b
              | None => []
              end
    end.
  Definition dampon (a : node) : bool :=
    match zlookup a (d_vars G) with Some _ => p_damp_vars P | None => p_damp_facs P end.

  Lemma ms_cycle_nf a st k msgs :
    let c1 := dict_update (n_costs st) msgs in
    let E := emit_all P (dampon a) (comp_table a c1) (n_prev st) (nbrs G a) in
    n_costs (fst (fst (ms_cycle P G a st k msgs))) = c1 /\
    n_prev (fst (fst (ms_cycle P G a st k msgs))) = snd E /\
    snd (fst (ms_cycle P G a st k msgs)) = fst E.
  Proof.
    cbv zeta. unfold comp_table, dampon.
    destruct (nbrs_cases G a) as [[vd [Hv Hn]]|[[fd [Hnv [Hf [Hin Hn]]]]|[Hnv [Hnf Hn]]]]; rewrite Hn.
    - rewrite (ms_cycle_var P G a vd) by auto. rewrite Hv. simpl. auto.
    - rewrite (ms_cycle_fac P G a fd) by auto. rewrite Hnv, Hf. simpl. auto.
    - rewrite ms_cycle_none by auto. rewrite Hnv, Hnf. simpl. auto.
  Qed.

  Lemma comp_table_canon a c b : canon (comp_table a c b).
  Proof.
    unfold comp_table. destruct (zlookup a (d_vars G)); [apply cff_canon|].
    destruct (zlookup a (d_facs G)); [apply fcv_canon | constructor].
  Qed.

  Lemma comp_table_len a c c' b : length (comp_table a c b) = length (comp_table a c' b).
  Proof.
    unfold comp_table. destruct (zlookup a (d_vars G)).
    - unfold costs_for_factor. now rewrite !map_length.
    - destruct (zlookup a (d_facs G)); auto. unfold factor_costs_for_var. now rewrite !map_length.
  Qed.

  Notation R := (ms_rounds P G).
  (* the costs dict computation a uses in its cycle k, the table it computes there for b *)
  Definition costs_at (k : nat) (a : node) : list (node * table) := n_costs (fst (R (S k) a)).
  Definition T (k : nat) (a b : node) : table := comp_table a (costs_at k a) b.
  Definition prev_at (k : nat) (a : node) := n_prev (fst (R k a)).
  Definition outs_at (k : nat) (a : node) := snd (R k a).

  Lemma node_start_prev sync n s : n_prev (fst (node_start P G sync n s)) = n_prev s.
  Proof.
    unfold node_start. destruct (zlookup n (d_vars G)) as [vd|].
    - unfold var_start. destruct (v_init vd); [|destruct (select_value _ _ _)]; reflexivity.
    - destruct (zlookup n (d_facs G)); reflexivity.
  Qed.

  Lemma prev_at_0 a : prev_at 0 a = [].
  Proof. unfold prev_at. simpl. unfold ms_init. now rewrite node_start_prev. Qed.

  Lemma round_nf k a :
    costs_at k a = dict_update (n_costs (fst (R k a))) (inbox G (R k) a) /\
    prev_at (S k) a = snd (emit_all P (dampon a) (T k a) (prev_at k a) (nbrs G a)) /\
    outs_at (S k) a = fst (emit_all P (dampon a) (T k a) (prev_at k a) (nbrs G a)).
  Proof.
    unfold T, costs_at, prev_at, outs_at. simpl. unfold ms_round.
    destruct (ms_cycle_nf a (fst (R k a)) k (inbox G (R k) a)) as [H1 [H2 H3]].
    rewrite H1. auto.
  Qed.

  Lemma costs_at_0 a : costs_at 0 a = dict_update [] (inbox G (R 0) a).
  Proof. destruct (round_nf 0 a) as [H _]. rewrite H. simpl. unfold ms_init. now rewrite node_start_costs. Qed.

  Lemma costs_at_S k a : costs_at (S k) a = dict_update (costs_at k a) (inbox G (R (S k)) a).
  Proof. destruct (round_nf (S k) a) as [H _]. exact H. Qed.

  Lemma inbox_keys g n : incl (map fst (inbox G g n)) (nbrs G n).
  Proof. unfold inbox. apply (flat_opt_keys (fun a => zlookup n (snd (g a)))). Qed.

  Lemma costs_at_keys k a : NoDup (map fst (costs_at k a)) /\ incl (map fst (costs_at k a)) (nbrs G a).
  Proof.
    induction k as [|k [IH1 IH2]].
    - rewrite costs_at_0. split.
      + apply dict_update_nodup. constructor.
      + apply dict_update_keys; [intros x [] | apply inbox_keys].
    - rewrite costs_at_S. split.
      + now apply dict_update_nodup.
      + apply dict_update_keys; [assumption | apply inbox_keys].
  Qed.

  Hypothesis Hstab : (p_stab P == 0)%Q.
  Hypothesis Hdamp : (p_damp P == 0)%Q.

  (* what a's cycle k leaves in _prev_messages and posts *)
  Lemma round_spec k : forall a b, In b (nbrs G a) ->
    (exists c, zlookup b (prev_at (S k) a) = Some (T k a b, c)) /\
    (zlookup b (outs_at (S k) a) = Some (T k a b) \/
     (zlookup b (outs_at (S k) a) = None /\ exists c, zlookup b (prev_at k a) = Some (T k a b, c))).
  Proof.
    induction k as [|k IH]; intros a b Hb;
      [destruct (round_nf 0 a) as [_ [Hp Ho]] | destruct (round_nf (S k) a) as [_ [Hp Ho]]]; rewrite Hp, Ho.
    - eapply (emit_all_spec P (dampon a) (T 0 a) (nbrs G a) Hstab Hdamp); eauto.
      + intros y _. apply comp_table_canon.
      + apply (maxsum_graph_ok_l G Hwf).
      + intros y p c _ Hl. rewrite prev_at_0 in Hl. discriminate.
    - eapply (emit_all_spec P (dampon a) (T (S k) a) (nbrs G a) Hstab Hdamp); eauto.
      + intros y _. apply comp_table_canon.
      + apply (maxsum_graph_ok_l G Hwf).
      + intros y p c Hy Hl. destruct (IH a y Hy) as [[c' Hc'] _]. rewrite Hc' in Hl. inversion Hl; subst.
        split; [apply comp_table_canon | apply comp_table_len].
  Qed.

  (* THE LIFTED SUPPRESSION LEMMA: after absorbing the messages of round k+1, computation b holds for each
     neighbour a exactly the table a computed in its cycle k -- whether a posted it or the SAME_COUNT cut-off
     withheld it as an exact repeat *)
  Theorem view_spec k : forall a b, In b (nbrs G a) -> zlookup a (costs_at (S k) b) = Some (T k a b).
  Proof.
    pose proof (maxsum_graph_ok_l G Hwf) as [_ [Hsym _]].
    assert (Hstep : forall k a b, In b (nbrs G a) ->
              zlookup a (costs_at (S k) b)
              = match zlookup b (outs_at (S k) a) with Some t => Some t | None => zlookup a (costs_at k b) end).
    { intros k0 a b Hb. rewrite costs_at_S, dict_update_lookup by apply (inbox_nodup G Hwf).
      rewrite (inbox_lookup G Hwf). pose proof (Hsym _ _ Hb) as Hab. apply zmem_In in Hab. rewrite Hab. reflexivity. }
    induction k as [|k IH]; intros a b Hb; rewrite (Hstep _ a b Hb).
    - destruct (round_spec 0 a b Hb) as [_ [Ho|[Ho [c Hc]]]].
      + rewrite Ho. reflexivity.
      + rewrite prev_at_0 in Hc. discriminate.
    - destruct (round_spec (S k) a b Hb) as [_ [Ho|[Ho [c Hc]]]]; rewrite Ho; [reflexivity|].
      destruct (round_spec k a b Hb) as [[c' Hc'] _]. rewrite Hc' in Hc. injection Hc as E1 E2.
      rewrite <- E1. now apply IH.
  Qed.

  Lemma view_0 a b : In b (nbrs G a) -> zlookup a (costs_at 0 b) = zlookup b (snd (ms_init P G a)).
  Proof.
    pose proof (maxsum_graph_ok_l G Hwf) as [_ [Hsym _]]. intros Hb.
    rewrite costs_at_0, dict_update_lookup by apply (inbox_nodup G Hwf).
    rewrite (inbox_lookup G Hwf). pose proof (Hsym _ _ Hb) as Hab. apply zmem_In in Hab. rewrite Hab. simpl.
    destruct (zlookup b (snd (ms_init P G a))); reflexivity.
  Qed.
End Views.
