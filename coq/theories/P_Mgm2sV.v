(* P_Mgm2sV.v -- MGM2 barrier proof: the micro-step that consumes a VALUE message (state value):
   the value is filed; when the table is complete the offers are sent and the state becomes offer. *)
From Coq Require Import ZArith List Bool Lia.
From PyDcop Require Import Base Net M_Mgm M_Mgm2 M_Mgm2x P_Mgm P_Mgm3 P_Mgm3c P_Mgm2x P_Mgm2y P_Mgm2s.
Import ListNotations.
Open Scope Z_scope.

Local Notation length := List.length.

Section StepV.
  Variable d : dcop.
  Variable stop thr favor : Z.
  Notation nbr := (nbrs d).
  Notation doneb := (doneb stop).
  Notation InvA := (InvA d stop).
  Notation good := (good d stop).
  Variable rn : node -> bool.
  Variable S : node -> m2st.
  Variable pd : node -> node -> list m2msg.
  Hypothesis HI : InvA rn S pd.
  Notation step_ok := (step_ok d stop thr favor rn S pd).
  Notation pos_facts := (pos_facts d stop rn S pd HI).
  Notation le_facts := (le_facts d stop rn S pd HI).
  Notation pending_nbr := (pending_nbr d stop rn S pd HI).
  Notation evok := (evok stop).

  (* ============================================================ value message *)
  Lemma step_V y x v l1 l2 : rn y = true -> pd x y = l1 ++ M2Value v :: l2 -> t_state (S y) = 1 ->
    step_ok y x (M2Value v) l1 l2.
  Proof.
    intros Ry Hp Hk s2 o2 e2 Hm.
    pose proof (pending_nbr x y _ _ _ Hp) as Hxy. pose proof (nbrs_sym d y x Hxy) as Hyx.
    pose proof (act_of d x y Hxy) as Hact.
    pose proof (i_good _ _ _ _ _ HI y Ry Hact) as Gy.
    assert (Hne : x <> y) by (intros ->; eapply nbrs_irrefl; eauto).
    (* the sender runs, is in the same cycle, its value is not yet in the table *)
    pose proof (in_cnt_pos _ _ (in_pd _ _ _ _ _ _ Hp)) as Hc1. simpl in Hc1.
    pose proof (i_pair _ _ _ _ _ HI x y Hxy) as Pxy.
    assert (Rx : rn x = true).
    { destruct (rn x) eqn:Rx; [reflexivity|exfalso]. pose proof (p_V _ _ _ _ _ Pxy) as E. unf. rewrite Rx, Ry in E.
      pose proof (g_c _ _ _ _ Gy). pose proof (b2z_range (kinv x (t_nv (S y)))). lia. }
    pose proof (i_good _ _ _ _ _ HI x Rx (act_of d y x Hyx)) as Gx.
    destruct (pos_facts x y Hxy Rx Ry) as (Q1 & Q2 & Q3).
    assert (Hkv : kinv x (t_nv (S y)) = false /\ cnt 1 (pd x y) = 1 /\ t_cycle (S x) = t_cycle (S y) /\ t_fin (S x) = 0).
    { pose proof (p_V _ _ _ _ _ Pxy) as E. unf. rewrite Rx, Ry in E.
      pose proof (b2z_range (doneb (t_cycle (S x)))) as Fx. rewrite <- (g_fin _ _ _ _ Gx) in Fx.
      assert (t_cycle (S x) <= t_cycle (S y)) by (clear - Q1 Q2 Hk; lia).
      destruct (kinv x (t_nv (S y))); simpl in E; [exfalso; clear - E Hc1 Fx H; lia|].
      split; [reflexivity|]. clear - E Hc1 Fx H. lia. }
    destruct Hkv as (Hkv & Hcnt & Hcyc & Hfx).
    unfold mstep, on_msg in Hm. simpl kind_of in Hm. rewrite Hk in Hm. simpl negb in Hm. cbv iota in Hm.
    rewrite (dict_set_fresh x v (t_nv (S y)) Hkv) in Hm.
    match type of Hm with context [handle_value_messages _ _ _ _ ?t] =>
      assert (KK : skel t = (t_state (S y), t_cycle (S y), t_fin (S y), t_nv (S y) ++ [(x, v)], t_offers (S y), t_ng (S y),
                             t_partner (S y), t_committed (S y), t_offerer (S y), t_pgain (S y)) /\ posts t = posts (S y))
        by apply skel_set_nv;
      remember t as s1 eqn:Es1 in * end.
    clear Es1. destruct KK as [K1 Po1].
    destruct (g_nv _ _ _ _ Gy) as [Nd Inc].
    assert (Nd1 : NoDup (map fst (t_nv (S y) ++ [(x, v)])) /\ incl (map fst (t_nv (S y) ++ [(x, v)])) (nbr y)).
    { rewrite map_app. simpl. split.
      - apply NoDup_snoc; [exact Nd|]. apply kinv_false. exact Hkv.
      - intros z Hz. apply in_app_or in Hz as [Hz|[<-|[]]]; [apply Inc; exact Hz|exact Hxy]. }
    unfold skel in K1. injection K1 as K1st K1cy K1fi K1nv K1of K1ng K1pa K1co K1or K1pg.
    assert (SS1 : skelS s1 = skelS (S y)) by (unfold skelS; rewrite K1st, K1cy, K1fi, K1pa, K1co, K1or; reflexivity).
    assert (Hlen : (length (t_nv s1) <= length (nbr y))%nat).
    { rewrite K1nv. rewrite <- (map_length fst). apply NoDup_incl_length; apply Nd1. }
    cbv zeta in Hm. rewrite zlen_eqb in Hm.
    destruct (Nat.eqb (length (t_nv s1)) (length (nbr y))) eqn:Ez.
    2:{ (* ---- the value is filed, the table is not complete *)
      apply Nat.eqb_neq in Ez. unfold ret2 in Hm.
      injection Hm as <- <- <-.
      assert (G1 : good y s1).
      { destruct Gy. constructor; rewrite ?K1st, ?K1cy, ?K1fi, ?K1nv, ?K1of, ?K1ng, ?K1pa, ?K1co, ?K1or, ?K1pg; auto.
        - intros _. rewrite <- K1nv. lia.
        - intros H. rewrite Hk in H. lia. }
      split; [|split; [apply evok_nil; rewrite K1fi; reflexivity|split; [exact Po1|intros Hc; rewrite K1st in Hc; congruence]]].
      apply (step_frame d stop rn S pd y s1 x (l1 ++ l2) [] HI Ry Hact Hxy G1).
      - intros x' Hx'. assert (Hx'y : x' <> y) by (intros ->; eapply nbrs_irrefl; eauto).
        destruct (pd_step_recv pd x y l1 (M2Value v) l2 [] x' Hp Hx'y) as [Hc Hi].
        apply (pairI_store rn S pd); rewrite ?updS_same, ?updS_other by assumption; try reflexivity; try assumption;
          rewrite ?Hc, ?K1nv, ?K1of, ?K1ng; simpl kind_of; try (rewrite andb_false_r; simpl; lia).
        + unfold kinv at 1. rewrite map_app, (proj1 (existsb_app _ _ _)) || idtac.
          unfold kinv. rewrite map_app. unfold zmem. rewrite existsb_app. simpl. rewrite orb_false_r.
          destruct (Z.eqb_spec x' x) as [->|Hn]; simpl.
          * fold (zmem x (map fst (t_nv (S y)))). fold (kinv x (t_nv (S y))). rewrite Hkv. simpl. lia.
          * rewrite orb_false_r. lia.
        + intros f os _ H. left. exact H.
        + apply (i_pair _ _ _ _ _ HI x' y Hx').
      - intros w Hw. assert (Hwy : w <> y) by (intros ->; eapply nbrs_irrefl; eauto).
        apply (pairI_ext rn S pd); rewrite ?updS_same, ?updS_other by assumption; try reflexivity; try assumption.
        + intros k. rewrite pd_step_send. simpl. rewrite app_nil_r. reflexivity.
        + intros m0. rewrite pd_step_send. simpl. rewrite app_nil_r. auto.
        + apply (i_pair _ _ _ _ _ HI y w (nbrs_sym d y w Hw)).
      - intros w _. reflexivity. }
    (* ---- the table is complete: offers are sent, state offer *)
    apply Nat.eqb_eq in Ez.
    destruct (hvm0_spec d thr y s1 Hact) as (s2' & off & p & g & E & Hg & Hpin & K2 & Po2).
    rewrite E in Hm. injection Hm as <- <- <-. clear E.
    unfold skel in K2. injection K2 as K2st K2cy K2fi K2nv K2of K2ng K2pa K2co K2or.
    rewrite K1cy in K2cy. rewrite K1fi in K2fi. rewrite K1nv in K2nv. rewrite K1of in K2of. rewrite K1ng in K2ng.
    rewrite K1co in K2co.
    destruct (g_fl1 _ _ _ _ Gy Hk) as (Foff & Fcom & Fpar).
    pose proof (g_of1 _ _ _ _ Gy Hk) as Fof. pose proof (g_ng3 _ _ _ _ Gy ltac:(lia)) as Fng.
    rewrite Fcom in K2co. rewrite Fof in K2of. rewrite Fng in K2ng.
    assert (Hlen2 : length (map fst (t_nv (S y) ++ [(x, v)])) = length (nbr y)) by (rewrite map_length, <- K1nv; exact Ez).
    (* every neighbour runs, is in the same cycle, in state value or offer, not finished *)
    assert (AllN : forall w, In w (nbr y) ->
              rn w = true /\ t_cycle (S w) = t_cycle (S y) /\ t_fin (S w) = 0 /\ t_state (S w) <= 2 /\
              kinv w (t_nv (S y) ++ [(x, v)]) = true).
    { intros w Hw. assert (Kw : kinv w (t_nv (S y) ++ [(x, v)]) = true).
      { apply kinv_In. apply (full_in _ (nbr y)); [apply Nd1|apply Nd1|exact Hlen2|exact Hw]. }
      destruct (Z.eq_dec w x) as [->|Hwx].
      - destruct Q3 as (Q31 & _); [exact Hcyc|]. repeat split; try assumption.
        destruct (Z_le_gt_dec (t_state (S x)) 2) as [Hle|Hgt]; [exact Hle|]. specialize (Q31 ltac:(lia)). lia.
      - assert (Kw0 : kinv w (t_nv (S y)) = true).
        { apply kinv_In in Kw. rewrite map_app in Kw. apply in_app_or in Kw as [Kw|[Kw|[]]]; [apply kinv_In; exact Kw|].
          simpl in Kw. congruence. }
        pose proof (i_pair _ _ _ _ _ HI w y Hw) as Pw.
        assert (Rw : rn w = true).
        { destruct (rn w) eqn:Rw; [reflexivity|exfalso]. pose proof (p_V _ _ _ _ _ Pw) as Ew. unfold CV, SV in Ew.
          rewrite Rw, Ry, Kw0 in Ew. pose proof (g_c _ _ _ _ Gy). pose proof (cnt_nonneg 1 (pd w y)). simpl in Ew. lia. }
        destruct (le_facts w y Hw Rw Ry) as (L1 & _ & _). rewrite Kw0 in L1. simpl in L1.
        destruct (pos_facts w y Hw Rw Ry) as (W1 & W2 & W3).
        pose proof (i_good _ _ _ _ _ HI w Rw (act_of d y w (nbrs_sym d y w Hw))) as Gw.
        pose proof (b2z_range (P_Mgm2x.doneb stop (t_cycle (S w)))) as Fw. rewrite <- (g_fin _ _ _ _ Gw) in Fw.
        assert (Cw : t_cycle (S w) = t_cycle (S y) /\ t_fin (S w) = 0) by (clear - L1 W1 W2 Hk Fw; lia).
        destruct Cw as [Cw Fw0]. repeat split; try assumption.
        destruct (W3 Cw) as (W31 & _).
        destruct (Z_le_gt_dec (t_state (S w)) 2) as [Hle|Hgt]; [exact Hle|]. specialize (W31 ltac:(lia)). lia. }
    assert (Hnd : doneb (t_cycle (S y)) = false).
    { pose proof (g_fin _ _ _ _ Gx) as Fx. rewrite Hfx, Hcyc in Fx. destruct (doneb (t_cycle (S y))); [discriminate|reflexivity]. }
    assert (G2 : good y s2').
    { destruct Gy. constructor; rewrite ?K2st, ?K2cy, ?K2fi, ?K2nv, ?K2of, ?K2ng, ?K2pa, ?K2co, ?K2or; auto;
        try (clear; lia); try (intros H; exfalso; clear - H; lia); try (intros H; discriminate H).
      - intros Hd. rewrite Hnd in Hd. discriminate.
      - split; [constructor|split; [intros z []|constructor]].
      - split; [constructor|intros z []].
      - intros _. rewrite <- K1nv. exact Ez.
      - intros _. simpl. destruct (nbr y); [congruence|simpl; lia].
      - intros Ho. subst off. exists p. split; [reflexivity|apply Hpin; reflexivity].
      - intros Ho _. subst off. reflexivity. }
    admit.
  Admitted.
End StepV.
