(* P_Mgm2sV.v -- MGM2 barrier proof: the micro-step that consumes a VALUE message (state value):
   the value is filed; when the table is complete the offers are sent and the state becomes offer. *)
From Coq Require Import ZArith List Bool Lia.
From PyDcop Require Import Base Net M_Mgm M_Mgm2 M_Mgm2x P_Mgm P_Mgm3 P_Mgm3c P_Mgm2x P_Mgm2y P_Mgm2s.
Import ListNotations.
Open Scope Z_scope.

Local Notation length := List.length.


Ltac getPV P :=
  pose proof (p_V _ _ _ _ _ P) as PV; pose proof (p_O _ _ _ _ _ P) as PO; pose proof (p_G _ _ _ _ _ P) as PG;
  pose proof (p_A1 _ _ _ _ _ P) as PA1; pose proof (p_A0 _ _ _ _ _ P) as PA0;
  pose proof (p_Go1 _ _ _ _ _ P) as PGo1; pose proof (p_Go0 _ _ _ _ _ P) as PGo0;
  pose proof (p_PO _ _ _ _ _ P) as PPO; pose proof (p_PS _ _ _ _ _ P) as PPS; pose proof (p_PA _ _ _ _ _ P) as PPA;
  pose proof (p_L _ _ _ _ _ P) as PL; pose proof (p_Ans _ _ _ _ _ P) as PAns; clear P.

Lemma kinv_snocV a (l : list (Z * Z)) (x : node) g : kinv a (l ++ [(x, g)]) = kinv a l || (a =? x).
Proof. unfold kinv, zmem. rewrite map_app, existsb_app. simpl. rewrite orb_false_r. reflexivity. Qed.

Lemma pd_step_recv_indepV pd x y rest o o' x' : x' <> y ->
  pd_step pd x y rest o x' y = pd_step pd x y rest o' x' y.
Proof. intros H. unfold pd_step. apply Z.eqb_neq in H. rewrite H. reflexivity. Qed.

(* ------------------------------------------------------------------ local pair transformations:
   the node whose value table is complete goes from state value to state offer *)
Section LocalV.
  Variable rn : node -> bool.
  Variables S1 S2 : node -> m2st.
  Variables pd1 pd2 : node -> node -> list m2msg.

  (* receiver b: value -> offer; the sender a is in the same cycle, in state value or offer *)
  Lemma recv_to2 a b (off : bool) p :
    S2 a = S1 a ->
    t_state (S1 b) = 1 -> t_offerer (S1 b) = false -> t_committed (S1 b) = false -> t_offers (S1 b) = [] ->
    t_state (S2 b) = 2 ->
    t_cycle (S2 b) = t_cycle (S1 b) -> t_fin (S2 b) = t_fin (S1 b) -> t_nv (S2 b) = t_nv (S1 b) ->
    t_offers (S2 b) = t_offers (S1 b) -> t_ng (S2 b) = t_ng (S1 b) ->
    t_partner (S2 b) = (if off then Some p else None) -> t_committed (S2 b) = false -> t_offerer (S2 b) = off ->
    pd2 a b = pd1 a b ->
    t_cycle (S1 a) = t_cycle (S1 b) -> t_state (S1 a) <= 2 ->
    pairI rn S1 pd1 a b -> pairI rn S2 pd2 a b.
  Proof.
    intros Ea B1 Bo Bc Bof B1' B2 B3 B4 B5 B6 B7 B8 B9 Hp Hcy Hk P. getPV P.
    constructor; unf; rewrite ?Ea, ?Hp, ?B1', ?B2, ?B3, ?B4, ?B5, ?B6, ?B7, ?B8, ?B9; rewrite ?B1, ?Bo, ?Bc, ?Bof in *;
      try assumption.
    - intros _ H. exfalso. clear - H Hk. lia.
    - intros _. apply PA0. intros [(E & _) _]. discriminate.
    - intros (E & _). discriminate.
    - intros _. apply PGo0. intros [(E & _) _]. discriminate.
    - intros f os _ [].
    - intros H1 H2. exfalso. destruct (PL H1 H2) as [[H _]|[_ H]]; [clear - H Hcy; lia|].
      destruct (t_offerer (S1 a)); [destruct H as (_ & H & _)|destruct H as (H & _)]; discriminate.
  Qed.

  (* sender a: value -> offer; one offer goes to b, which is in the same cycle *)
  Lemma send_to2 a b (off : bool) p os :
    S2 b = S1 b -> rn a = true -> rn b = true ->
    t_state (S1 a) = 1 -> t_offerer (S1 a) = false -> t_committed (S1 a) = false ->
    t_state (S2 a) = 2 ->
    t_cycle (S2 a) = t_cycle (S1 a) -> t_fin (S2 a) = t_fin (S1 a) ->
    t_partner (S2 a) = (if off then Some p else None) -> t_committed (S2 a) = false -> t_offerer (S2 a) = off ->
    pd2 a b = pd1 a b ++ [M2Offer (off && (b =? p)) os] ->
    t_cycle (S1 b) = t_cycle (S1 a) ->
    pairI rn S1 pd1 a b -> pairI rn S2 pd2 a b.
  Proof.
    intros Eb Ra Rb A1 Ao Ac A1' A2 A3 A7 A8 A9 Hp Hcy P. getPV P.
    assert (C : forall k, cnt k (pd2 a b) = cnt k (pd1 a b) + b2z (2 =? k)).
    { intros k. rewrite Hp, cnt_app, cnt_cons, cnt_nil. simpl kind_of. lia. }
    assert (Hin : forall m, In m (pd2 a b) -> In m (pd1 a b) \/ m = M2Offer (off && (b =? p)) os).
    { intros m. rewrite Hp. intros H. apply in_app_or in H as [H|[<-|[]]]; [left; exact H|right; reflexivity]. }
    assert (Z2 : cnt 2 (pd1 a b) = 0 /\ kino a (t_offers (S1 b)) = false).
    { unfold SO, CO in PO. rewrite Ra, Rb, A1 in PO. change (b2z (2 <=? 1)) with 0 in PO.
      pose proof (cnt_nonneg 2 (pd1 a b)) as Hn.
      destruct (kino a (t_offers (S1 b))); simpl b2z in PO; [exfalso; clear - PO Hn Hcy; lia|].
      split; [clear - PO Hn Hcy; lia|reflexivity]. }
    destruct Z2 as [Z2 Zk].
    assert (Z3 : cnt 3 (pd1 a b) = 0).
    { apply PA0. intros [_ H]. rewrite A1 in H. clear - H. lia. }
    assert (Z5 : cnt 5 (pd1 a b) = 0).
    { apply PGo0. intros [_ [[_ H]|H]]; [rewrite A1 in H; discriminate|clear - H Hcy; lia]. }
    constructor; unf; rewrite ?Eb, ?C, ?A1', ?A2, ?A3, ?A7, ?A8, ?A9; rewrite ?A1, ?Ao, ?Ac, ?Ra, ?Rb in *.
    - change (b2z (2 =? 1)) with 0. clear - PV. lia.
    - change (b2z (2 =? 2)) with 1. change (b2z (2 <=? 2)) with 1. change (b2z (2 <=? 1)) with 0 in PO. clear - PO. lia.
    - change (b2z (2 =? 4)) with 0. change (b2z (4 <=? 2)) with 0. change (b2z (4 <=? 1)) with 0 in PG. clear - PG. lia.
    - intros _ H. exfalso. clear - H. lia.
    - intros _. rewrite Z3. reflexivity.
    - intros _ [[_ H]|H]; exfalso; [discriminate|clear - H Hcy; lia].
    - intros _. rewrite Z5. reflexivity.
    - intros f os0 H. apply Hin in H as [H|H].
      + exfalso. apply in_cnt_pos in H. simpl kind_of in H. clear - H Z2. lia.
      + injection H as -> _. destruct off; reflexivity.
    - intros f os0 _ H. exfalso. apply kino_false in Zk. apply Zk. apply in_map_iff.
      exists (a, M2Offer f os0). split; [reflexivity|exact H].
    - intros a0 v g H. apply Hin in H as [H|H]; [|discriminate].
      exfalso. apply in_cnt_pos in H. simpl kind_of in H. clear - H Z3. lia.
    - intros H. discriminate.
    - intros _ _ H. exfalso. clear - H. lia.
  Qed.
End LocalV.

Section StepV.
  Variable d : dcop.
  Variable stop thr favor : Z.
  Notation nbr := (nbrs d).
  Notation doneb := (doneb stop).
  Notation InvA := (InvA d stop).
  Notation good := (good d stop).
  Variable rn : node -> bool.
  Variable S : node -> m2st.
  Variable pd : node -> node -> list m2msg.
  Hypothesis HI : InvA rn S pd.
  Notation step_ok := (step_ok d stop thr favor rn S pd).
  Notation pos_facts := (pos_facts d stop rn S pd HI).
  Notation le_facts := (le_facts d stop rn S pd HI).
  Notation pending_nbr := (pending_nbr d stop rn S pd HI).
  Notation evok := (evok stop).

  (* a neighbour w of y (state value) whose value of the current cycle of y has been sent: it runs, is in
     the same cycle, in state value or offer, not finished *)
  Lemma nbr_here1 y w : rn y = true -> t_state (S y) = 1 -> In w (nbr y) ->
    0 < cnt 1 (pd w y) + b2z (kinv w (t_nv (S y))) ->
    rn w = true /\ t_cycle (S w) = t_cycle (S y) /\ t_fin (S w) = 0 /\ t_state (S w) <= 2 /\
    cnt 1 (pd w y) + b2z (kinv w (t_nv (S y))) = 1.
  Proof.
    intros Ry Hk Hw Hpos. pose proof (i_pair _ _ _ _ _ HI w y Hw) as P. pose proof (p_V _ _ _ _ _ P) as E. clear P.
    unfold SV, CV in E. rewrite Ry in E.
    pose proof (g_c _ _ _ _ (i_good _ _ _ _ _ HI y Ry (act_of d w y Hw))) as Cy.
    assert (Rw : rn w = true). { destruct (rn w); [reflexivity|]. exfalso. clear - E Cy Hpos. lia. }
    rewrite Rw in E. destruct (pos_facts w y Hw Rw Ry) as (Q1 & Q2 & Q3).
    pose proof (i_good _ _ _ _ _ HI w Rw (act_of d y w (nbrs_sym d y w Hw))) as Gw.
    pose proof (b2z_range (P_Mgm2x.doneb stop (t_cycle (S w)))) as Fw. rewrite <- (g_fin _ _ _ _ Gw) in Fw.
    assert (Hle : t_cycle (S w) <= t_cycle (S y)) by (clear - Q1 Q2 Hk; lia).
    assert (Hc : t_cycle (S w) = t_cycle (S y) /\ t_fin (S w) = 0 /\ cnt 1 (pd w y) + b2z (kinv w (t_nv (S y))) = 1)
      by (clear - E Hpos Fw Hle; lia).
    destruct Hc as (Hc & F0 & H1). destruct (Q3 Hc) as (Q4 & _ & _).
    split; [exact Rw|]. split; [exact Hc|]. split; [exact F0|]. split; [|exact H1].
    destruct (Z_le_gt_dec (t_state (S w)) 2) as [Hle2|Hgt]; [exact Hle2|exfalso].
    assert (H3 : 3 <= t_state (S w)) by (clear - Hgt; lia). specialize (Q4 H3). clear - Q4 Hk. lia.
  Qed.

  (* ============================================================ value message *)
  Lemma step_V y x v l1 l2 : rn y = true -> pd x y = l1 ++ M2Value v :: l2 -> t_state (S y) = 1 ->
    step_ok y x (M2Value v) l1 l2.
  Proof.
    intros Ry Hp Hk s2 o2 e2 Hm.
    pose proof (pending_nbr x y _ _ _ Hp) as Hxy. pose proof (nbrs_sym d y x Hxy) as Hyx.
    pose proof (act_of d x y Hxy) as Hact.
    pose proof (i_good _ _ _ _ _ HI y Ry Hact) as Gy.
    assert (Hne : x <> y) by (intros ->; eapply nbrs_irrefl; eauto).
    (* the sender runs, is in the same cycle, its value is not yet in the table *)
    pose proof (in_cnt_pos _ _ (in_pd _ _ _ _ _ _ Hp)) as Hc1. simpl in Hc1.
    destruct (nbr_here1 y x Ry Hk Hxy) as (Rx & Hcyc & Hfx & Hkx & Hone).
    { pose proof (b2z_range (kinv x (t_nv (S y)))) as B. clear - B Hc1. lia. }
    assert (Hkv : kinv x (t_nv (S y)) = false).
    { destruct (kinv x (t_nv (S y))); [exfalso; simpl in Hone; clear - Hone Hc1; lia|reflexivity]. }
    unfold mstep, on_msg in Hm. simpl kind_of in Hm. rewrite Hk in Hm. simpl negb in Hm. cbv iota in Hm.
    rewrite (dict_set_fresh x v (t_nv (S y)) Hkv) in Hm.
    match type of Hm with context [handle_value_messages _ _ _ _ ?t] =>
      assert (KK : skel t = (t_state (S y), t_cycle (S y), t_fin (S y), t_nv (S y) ++ [(x, v)], t_offers (S y), t_ng (S y),
                             t_partner (S y), t_committed (S y), t_offerer (S y), t_pgain (S y)) /\ posts t = posts (S y))
        by apply skel_set_nv;
      remember t as s1 eqn:Es1 in * end.
    clear Es1. destruct KK as [K1 Po1].
    destruct (g_nv _ _ _ _ Gy) as [Nd Inc].
    assert (Nd1 : NoDup (map fst (t_nv (S y) ++ [(x, v)])) /\ incl (map fst (t_nv (S y) ++ [(x, v)])) (nbr y)).
    { rewrite map_app. simpl. split.
      - apply NoDup_snoc; [exact Nd|]. apply kinv_false. exact Hkv.
      - intros z Hz. apply in_app_or in Hz as [Hz|[<-|[]]]; [apply Inc; exact Hz|exact Hxy]. }
    unfold skel in K1. injection K1 as K1st K1cy K1fi K1nv K1of K1ng K1pa K1co K1or K1pg.
    assert (SS1 : skelS s1 = skelS (S y)) by (unfold skelS; rewrite K1st, K1cy, K1fi, K1pa, K1co, K1or; reflexivity).
    assert (Hlen : (length (t_nv s1) <= length (nbr y))%nat).
    { rewrite K1nv. rewrite <- (map_length fst). apply NoDup_incl_length; apply Nd1. }
    cbv zeta in Hm. rewrite zlen_eqb in Hm.
    (* the world after the store *)
    assert (P1r : forall x', In x' (nbr y) -> pairI rn (updS S y s1) (pd_step pd x y (l1 ++ l2) []) x' y).
    { intros x' Hx'. assert (Hx'y : x' <> y) by (intros ->; eapply nbrs_irrefl; eauto).
      destruct (pd_step_recv pd x y l1 (M2Value v) l2 [] x' Hp Hx'y) as [Hc Hi].
      apply (pairI_store rn S pd); rewrite ?updS_same, ?updS_other by assumption; try reflexivity; try assumption;
        rewrite ?Hc, ?K1nv, ?K1of, ?K1ng; simpl kind_of; try (rewrite andb_false_r; simpl; lia).
      + rewrite kinv_snocV. destruct (Z.eqb_spec x' x) as [->|Hn]; simpl.
        * rewrite Hkv. simpl. lia.
        * rewrite orb_false_r. lia.
      + intros f os _ H. left. exact H.
      + apply (i_pair _ _ _ _ _ HI x' y Hx'). }
    assert (P1s : forall w, In w (nbr y) -> pairI rn (updS S y s1) (pd_step pd x y (l1 ++ l2) []) y w).
    { intros w Hw. assert (Hwy : w <> y) by (intros ->; eapply nbrs_irrefl; eauto).
      apply (pairI_ext rn S pd); rewrite ?updS_same, ?updS_other by assumption; try reflexivity; try assumption.
      + intros k. rewrite pd_step_send. simpl. rewrite app_nil_r. reflexivity.
      + intros m0. rewrite pd_step_send. simpl. rewrite app_nil_r. auto.
      + apply (i_pair _ _ _ _ _ HI y w (nbrs_sym d y w Hw)). }
    destruct (Nat.eqb (length (t_nv s1)) (length (nbr y))) eqn:Ez.
    2:{ (* ---- the value is filed, the table is not complete *)
      apply Nat.eqb_neq in Ez. unfold ret2 in Hm.
      injection Hm as <- <- <-.
      assert (G1 : good y s1).
      { destruct Gy. constructor; rewrite ?K1st, ?K1cy, ?K1fi, ?K1nv, ?K1of, ?K1ng, ?K1pa, ?K1co, ?K1or, ?K1pg; auto.
        - intros _. rewrite <- K1nv. clear - Ez Hlen. lia.
        - intros H. rewrite Hk in H. clear - H. lia. }
      split; [|split; [apply evok_nil; rewrite K1fi; reflexivity|split; [exact Po1|intros Hc; rewrite K1st in Hc; congruence]]].
      apply (step_frame d stop rn S pd y s1 x (l1 ++ l2) [] HI Ry Hact Hxy G1 P1r P1s).
      intros w _. reflexivity. }
    (* ---- the table is complete: offers are sent, state offer *)
    apply Nat.eqb_eq in Ez.
    destruct (g_fl1 _ _ _ _ Gy Hk) as (Foff & Fcom & Fpar).
    pose proof (g_of1 _ _ _ _ Gy Hk) as Fof.
    assert (Fng : t_ng (S y) = []) by (apply (g_ng3 _ _ _ _ Gy); rewrite Hk; clear; lia).
    assert (Hlen2 : length (map fst (t_nv (S y) ++ [(x, v)])) = length (nbr y)) by (rewrite map_length, <- K1nv; exact Ez).
    (* every neighbour runs, is in the same cycle, in state value or offer, not finished *)
    assert (AllN : forall w, In w (nbr y) ->
              rn w = true /\ t_cycle (S w) = t_cycle (S y) /\ t_fin (S w) = 0 /\ t_state (S w) <= 2 /\
              kinv w (t_nv (S y) ++ [(x, v)]) = true).
    { intros w Hw. assert (Kw : kinv w (t_nv (S y) ++ [(x, v)]) = true).
      { apply kinv_In. apply (full_in _ (nbr y)); [apply Nd1|apply Nd1|exact Hlen2|exact Hw]. }
      destruct (Z.eq_dec w x) as [->|Hwx]; [repeat split; assumption|].
      pose proof Kw as Kw0. rewrite kinv_snocV in Kw0. apply Z.eqb_neq in Hwx. rewrite Hwx, orb_false_r in Kw0.
      pose proof (cnt_nonneg 1 (pd w y)) as Hnn.
      destruct (nbr_here1 y w Ry Hk Hw) as (R & C & F & K & _); [rewrite Kw0; simpl; clear - Hnn; lia|].
      repeat split; assumption. }
    assert (Hnd : doneb (t_cycle (S y)) = false).
    { pose proof (g_fin _ _ _ _ (i_good _ _ _ _ _ HI x Rx (act_of d y x Hyx))) as Fx. rewrite Hfx, Hcyc in Fx.
      destruct (doneb (t_cycle (S y))); [discriminate|reflexivity]. }
    destruct (hvm0_spec d thr y s1 Hact) as (s2' & off & p & g & E & Hg & Hpin & K2 & Po2).
    rewrite E in Hm. injection Hm as <- <- <-. clear E.
    unfold skel in K2. injection K2 as K2st K2cy K2fi K2nv K2of K2ng K2pa K2co K2or.
    assert (G2 : good y s2').
    { pose proof Gy as Gy0. destruct Gy.
      constructor; rewrite ?K2st, ?K2cy, ?K2fi, ?K2nv, ?K2of, ?K2ng, ?K2pa, ?K2co, ?K2or;
        rewrite ?K1cy, ?K1fi, ?K1nv, ?K1of, ?K1ng, ?K1co, ?Fof, ?Fng, ?Fcom; auto;
        try (intros H; discriminate H); try (intros H; exfalso; clear - H; lia).
      - clear; lia.
      - intros Hd. rewrite Hnd in Hd. discriminate.
      - split; [constructor|split; [intros z []|constructor]].
      - split; [constructor|intros z []].
      - intros _. rewrite <- K1nv. exact Ez.
      - intros _. simpl. destruct (nbr y); [congruence|simpl; clear; lia].
      - intros Ho. rewrite Ho. exists p. split; [reflexivity|apply Hpin; exact Ho].
      - intros Ho _. rewrite Ho. reflexivity. }
    assert (Hgf : forall t, fst (g t) = t) by (intros t; destruct (Hg t) as [os Ht]; rewrite Ht; reflexivity).
    assert (Hout : forall w, to_y2 w (map g (nbr y)) = if zmem w (nbr y) then [snd (g w)] else []).
    { intros w. apply (to_y2_map g (nbr y) w Hgf (nbrs_nodup d y)). }
    assert (HInv : InvA rn (updS S y s2') (pd_step pd x y (l1 ++ l2) (map g (nbr y)))).
    { apply (step_frame d stop rn S pd y s2' x (l1 ++ l2) _ HI Ry Hact Hxy G2).
      - intros x' Hx'. assert (Hx'y : x' <> y) by (intros ->; eapply nbrs_irrefl; eauto).
        destruct (AllN x' Hx') as (Rx' & Cx' & Fx' & Kx' & _).
        apply (recv_to2 rn (updS S y s1) (updS S y s2') (pd_step pd x y (l1 ++ l2) []) _ x' y off p);
          rewrite ?updS_same, ?updS_other by assumption; try reflexivity; try assumption; try congruence.
        + apply pd_step_recv_indepV. exact Hx'y.
        + apply (P1r x' Hx').
      - intros w Hw. assert (Hwy : w <> y) by (intros ->; eapply nbrs_irrefl; eauto).
        destruct (AllN w Hw) as (Rw & Cw & Fw & Kw & _).
        destruct (Hg w) as [osw Hgw].
        apply (send_to2 rn (updS S y s1) (updS S y s2') (pd_step pd x y (l1 ++ l2) []) _ y w off p osw);
          rewrite ?updS_same, ?updS_other by assumption; try reflexivity; try assumption; try congruence.
        + rewrite !pd_step_send. simpl to_y2 at 1. rewrite app_nil_r. f_equal. rewrite Hout.
          rewrite (proj2 (zmem_In w (nbr y)) Hw), Hgw. reflexivity.
        + apply (P1s w Hw).
      - intros w Hw. rewrite Hout. destruct (zmem w (nbr y)) eqn:E'; [exfalso; apply Hw; apply zmem_In; exact E'|reflexivity]. }
    split; [exact HInv|]. split; [apply evok_nil; rewrite K2fi, K1fi; reflexivity|]. split; [rewrite Po2; exact Po1|].
    intros _ x' Hx'. assert (Hx'y : x' <> y) by (intros ->; eapply nbrs_irrefl; eauto).
    destruct (AllN x' Hx') as (Rx' & Cx' & Fx' & _ & Kx').
    pose proof (p_V _ _ _ _ _ (i_pair _ _ _ _ _ HInv x' y Hx')) as EV. unfold SV, CV in EV.
    rewrite Ry, Rx', updS_same, (updS_other S y s2' x' Hx'y), K2cy, K2nv, K1cy, K1nv, Kx', Cx', Fx' in EV.
    rewrite Hk. change (b2z true) with 1 in EV. clear - EV. lia.
  Qed.
End StepV.
