(* P_SyncPause.v -- the C08 theorems for runs with pause / resume, through NetPause.pause_is_stutter_run *)
From PyDcop Require Import Base Net NetPause M_SyncMixin P_SyncMixin.

Lemma pause_is_stutter_l : forall (St Msg Ev : Type) (P : proto St Msg Ev) (sched : list eaction),
  snd (run P (snd (erun P sched))) = snd (fst (erun P sched)) /\
  ceq (abs (fst (fst (erun P sched)))) (fst (run P (snd (erun P sched)))) /\
  reachable P (fst (run P (snd (erun P sched)))) /\
  EInv (fst (fst (erun P sched))).
Proof. intros. apply pause_is_stutter_run. Qed.

Lemma resumed_is_plain_l : forall (St Msg Ev : Type) (P : proto St Msg Ev) (sched : list eaction),
  (forall n, e_paused (fst (fst (erun P sched))) n = false) ->
  ceq (e_cf (fst (fst (erun P sched)))) (fst (run P (snd (erun P sched)))).
Proof. intros. now apply resumed_is_plain. Qed.

(* no ComputationException / ValueError branch is reachable in a run with pauses either *)
Lemma sync_no_error_paused_l : forall A P nbrs (G : algo A P), graph_ok nbrs -> algo_ok nbrs G ->
  forall (sched : list eaction) n k, ~ In (EvRaise n k) (snd (fst (erun (sync_proto nbrs G) sched))).
Proof.
  intros A P nbrs G Hg Ha sched n k.
  destruct (pause_is_stutter_run (sync_proto nbrs G) sched) as (E & _).
  rewrite <- E. apply sync_no_error_l; assumption.
Qed.

(* neighbours' round counters stay at most one apart while some computations are paused:
   a paused computation's state is the plain one's (abs keeps w_st) *)
Lemma sync_neighbours_one_apart_paused_l : forall A P nbrs (G : algo A P), graph_ok nbrs -> algo_ok nbrs G ->
  forall (sched : list eaction) a b,
    let e := fst (fst (erun (sync_proto nbrs G) sched)) in
    In a (nbrs b) ->
    w_running (nodes (e_cf e) a) = true -> w_running (nodes (e_cf e) b) = true ->
    (cur (w_st (nodes (e_cf e) a)) <= S (cur (w_st (nodes (e_cf e) b))))%nat.
Proof.
  intros A P nbrs G Hg Ha sched a b e Hin Ra Rb.
  destruct (pause_is_stutter_run (sync_proto nbrs G) sched) as (_ & [Hn _] & Hr & _).
  pose proof (@sync_neighbours_one_apart_l A P nbrs G Hg Ha _ a b Hr Hin) as H.
  pose proof (Hn a) as Hna. pose proof (Hn b) as Hnb. simpl in Hna, Hnb. fold e in Hna, Hnb.
  rewrite <- Hna, <- Hnb in H.
  destruct (e_paused e a); destruct (e_paused e b); simpl in H; apply H; auto.
Qed.
