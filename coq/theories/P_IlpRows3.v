(* P_IlpRows3.v -- the boolean guards evaluated by the correspondence run (M_IlpRows.guardsb)
   imply the hypotheses of the row-level theorems of Prop_C24. *)
From PyDcop Require Import Base M_Dist M_Ilp P_Ilp M_IlpRows P_IlpRows P_IlpRowsObj P_IlpRows2.
From Coq Require Import ZifyBool.

Lemma nodupb_NoDup (l : list Z) : nodupb Z.eqb l = true -> NoDup l.
Proof.
  induction l as [|x l IH]; simpl; intros H; constructor; apply andb_true_iff in H as [H1 H2]; auto.
  intros Hin. apply negb_true_iff in H1. apply zmem_In in Hin. unfold zmem in Hin. congruence.
Qed.

Lemma oilp_guardsb_sound_l G : oilp_guardsb G = true -> NoDup (agent_ids (g_inst G)) /\ links_wf G.
Proof.
  unfold oilp_guardsb, links_wfb. rewrite andb_true_iff, forallb_forall. intros [H1 H2]. split.
  - now apply nodupb_NoDup.
  - intros l c Hl Hc. specialize (H2 l Hl). rewrite forallb_forall in H2. apply zmem_In. auto.
Qed.

Lemma fgdp_guardsb_sound_l G : fgdp_guardsb G = true -> fixed_conflict (g_inst G) = false ->
  fg_wf G /\ fg_links_wf G.
Proof.
  unfold fgdp_guardsb. rewrite !andb_true_iff, !forallb_forall. intros [[[H1 H2] H3] H4] Hc. split.
  - constructor; auto using nodupb_NoDup. intros nd Hn. specialize (H3 nd Hn). lia.
  - intros l Hl. specialize (H4 l Hl). unfold fg_linkb in H4. rewrite !andb_true_iff in H4.
    destruct H4 as [[Ha Hb] Hd]. repeat split.
    + destruct l as [|x [|y [|z r]]]; try discriminate. eauto.
    + apply existsb_exists in Hb as [nd [Hn E]]. exists nd. repeat split; auto; lia.
    + apply existsb_exists in Hd as [nd [Hn E]]. exists nd. repeat split; auto; lia.
Qed.
