(* P_Dist2.v -- C23 deepening: validity of the adhoc model (M_Dist.adhoc), proved for every
   instance, every shuffle / choice oracle, under two boolean guards on the input:
     hints_wfb  : the hints are well-formed (known agents / computations, each computation
                  must-hosted at most once)
     secp_free  : no computation has the "SECP" host_with shape handled by adhoc's first loop
                  (the recorded finding C23-adhoc-secp-hostwith; see adhoc_secp_refuted). *)
From PyDcop Require Import Base P_Base M_Dist P_Dist M_Dist2.
From Coq Require Import Permutation ZifyBool.

(* the draws of shuffle(): each one is a permutation of cg.nodes *)
Definition shuffles_ok (I : inst) (shuf : list (list Z)) : Prop :=
  Forall (fun o => Permutation o (map n_id (i_nodes I))) shuf.

Definition valid_mapping (I : inst) (m : list (Z * Z)) : Prop :=
  hosts_once I m /\ agents_declared I m /\ must_host_honoured I m /\ within_capacity I m.

(* ================================================================ generic facts *)
Lemma nodupb_NoDup l : nodupb Z.eqb l = true <-> NoDup l.
Proof.
  induction l as [|x r IH]; simpl.
  - split; auto. constructor.
  - rewrite andb_true_iff, negb_true_iff, IH. change (existsb (Z.eqb x) r) with (zmem x r). split.
    + intros [H1 H2]. constructor; auto. intro Hin. apply zmem_In in Hin. congruence.
    + intros H. inversion H; subst. split; auto.
      destruct (zmem x r) eqn:E; auto. apply zmem_In in E. contradiction.
Qed.

Lemma NoDup_app_inv {A} (l1 l2 : list A) :
  NoDup (l1 ++ l2) -> NoDup l1 /\ NoDup l2 /\ (forall x, In x l1 -> ~ In x l2).
Proof.
  induction l1 as [|x r IH]; simpl; intros H.
  - repeat split; auto. constructor.
  - inversion H as [|? ? Hn Hr]; subst. destruct (IH Hr) as [H1 [H2 H3]].
    repeat split; auto.
    + constructor; auto. intro Hin. apply Hn. apply in_or_app. auto.
    + intros y [->|Hy]; auto. intro Hin. apply Hn. apply in_or_app. auto.
Qed.

Lemma In_keys {B} c (l : list (Z * B)) : In c (map fst l) <-> exists b, In (c, b) l.
Proof.
  rewrite in_map_iff. split.
  - intros [[c' b] [E H]]. simpl in E. subst. eauto.
  - intros [b H]. exists (c, b). auto.
Qed.

Lemma zlookup_set_same {V} k (v : V) l : zlookup k (dict_set Z.eqb k v l) = Some v.
Proof. unfold zlookup. apply lookup_dict_set_same. apply Z.eqb_eq. Qed.

Lemma zlookup_set_other {V} k k2 (v : V) l : k2 <> k -> zlookup k2 (dict_set Z.eqb k v l) = zlookup k2 l.
Proof. unfold zlookup. apply lookup_dict_set_other. apply Z.eqb_eq. Qed.

Lemma zlookup_In {V} k (v : V) l : zlookup k l = Some v -> In (k, v) l.
Proof. unfold zlookup. apply lookup_In. apply Z.eqb_eq. Qed.

Lemma zlookup_nodup {V} k (v : V) l : NoDup (map fst l) -> In (k, v) l -> zlookup k l = Some v.
Proof.
  unfold zlookup. induction l as [|[k' v'] r IH]; simpl; [tauto|].
  intros Hnd [H|H].
  - inversion H; subst. now rewrite Z.eqb_refl.
  - inversion Hnd as [|? ? Hn Hr]; subst. destruct (k =? k') eqn:E; auto.
    apply Z.eqb_eq in E. subst. exfalso. apply Hn. apply In_keys. eauto.
Qed.

Lemma dict_set_keys {V} k (v : V) l : In k (map fst l) -> map fst (dict_set Z.eqb k v l) = map fst l.
Proof.
  induction l as [|[k' v'] r IH]; simpl; [tauto|].
  intros H. destruct (k =? k') eqn:E; simpl; auto.
  f_equal. apply IH. destruct H as [H|H]; auto. subst. rewrite Z.eqb_refl in E. discriminate.
Qed.

Lemma dict_set_fresh {V} k (v : V) l : ~ In k (map fst l) -> dict_set Z.eqb k v l = l ++ [(k, v)].
Proof.
  induction l as [|[k' v'] r IH]; simpl; auto.
  intros H. destruct (k =? k') eqn:E.
  - apply Z.eqb_eq in E. subst. tauto.
  - f_equal. apply IH. tauto.
Qed.

Lemma dict_of_list_nodup {V} (l : list (Z * V)) : NoDup (map fst l) -> dict_of_list Z.eqb l = l.
Proof.
  unfold dict_of_list. intros H.
  assert (forall acc, NoDup (map fst (acc ++ l)) ->
            fold_left (fun d kv => dict_set Z.eqb (fst kv) (snd kv) d) l acc = acc ++ l) as G.
  { clear H. induction l as [|[k v] r IH]; intros acc H; simpl.
    - now rewrite app_nil_r.
    - rewrite dict_set_fresh.
      + rewrite IH; rewrite <- app_assoc; simpl; auto.
      + rewrite map_app in H. simpl in H. apply NoDup_remove_2 in H.
        intro Hin. apply H. apply in_or_app. auto. }
  apply (G []). exact H.
Qed.

Lemma mem_key_set {V} c c0 (a : V) h :
  mem_key Z.eqb c (dict_set Z.eqb c0 a h) = (c =? c0) || mem_key Z.eqb c h.
Proof.
  unfold mem_key. destruct (c =? c0) eqn:E; simpl.
  - apply Z.eqb_eq in E. subst. fold (@zlookup V). now rewrite zlookup_set_same.
  - fold (@zlookup V). rewrite zlookup_set_other; auto. now apply Z.eqb_neq.
Qed.

Lemma capa_get_sub caps a f b :
  capa_get (capa_sub caps a f) b = if b =? a then capa_get caps a - f else capa_get caps b.
Proof.
  unfold capa_sub. unfold capa_get at 1. destruct (b =? a) eqn:E.
  - apply Z.eqb_eq in E. subst. now rewrite zlookup_set_same.
  - rewrite zlookup_set_other; auto. now apply Z.eqb_neq.
Qed.

Lemma dedup_In x l : In x (dedup l) -> In x l.
Proof.
  induction l as [|y r IH]; simpl; auto.
  destruct (zmem y r); simpl; intuition.
Qed.

Lemma best_score_In l r : best_score l = Some r -> In r l.
Proof.
  unfold best_score.
  assert (forall acc, fold_left (fun acc x => match acc with
                          | None => Some x
                          | Some b => if score_lt b x then Some x else Some b
                          end) l acc = Some r -> In r l \/ acc = Some r) as G.
  { induction l as [|x t IH]; simpl; intros acc H; auto.
    apply IH in H as [H|H]; auto.
    destruct acc as [b|].
    - destruct (score_lt b x); inversion H; subst; auto.
    - inversion H; auto. }
  intros H. apply G in H as [H|H]; auto. discriminate.
Qed.

(* ================================================================ the mapping dict as pairs *)
Definition pairs (m : list (Z * list Z)) : list (Z * Z) :=
  flat_map (fun al => map (fun c => (c, fst al)) (snd al)) m.

Lemma dist_of_pairs m :
  dist_of m = if nodupb Z.eqb (map fst (pairs m)) then Ok (pairs m) else Crash 3.
Proof. reflexivity. Qed.

Lemma keys_pairs_cons k l r : map fst (pairs ((k, l) :: r)) = l ++ map fst (pairs r).
Proof.
  unfold pairs. simpl. rewrite map_app, map_map. simpl. now rewrite map_id.
Qed.

Lemma pairs_cons k l r : pairs ((k, l) :: r) = map (fun c => (c, k)) l ++ pairs r.
Proof. reflexivity. Qed.

Lemma pairs_map_add m a x : ~ In x (map fst (pairs m)) ->
  Permutation (pairs (map_add m a x)) ((x, a) :: pairs m).
Proof.
  unfold map_add. induction m as [|[k l] r IH]; intros Hx.
  - simpl. apply Permutation_refl.
  - rewrite keys_pairs_cons in Hx.
    assert (map_get ((k, l) :: r) a = if a =? k then l else map_get r a) as ->
      by (unfold map_get, zlookup; simpl; destruct (a =? k); reflexivity).
    simpl dict_set. destruct (a =? k) eqn:E.
    + apply Z.eqb_eq in E. subst k.
      unfold set_add. destruct (zmem x l) eqn:M.
      { apply zmem_In in M. exfalso. apply Hx. apply in_or_app. auto. }
      rewrite !pairs_cons, map_app. simpl. rewrite <- app_assoc. simpl.
      symmetry. apply Permutation_middle.
    + rewrite !pairs_cons. rewrite IH.
      * symmetry. apply Permutation_middle.
      * intro Hin. apply Hx. apply in_or_app. auto.
Qed.

(* ================================================================ adhoc *)
Section Adhoc.
  Variable I : inst.
  Hypothesis Hwf : wf I.
  Local Notation ids := (map g_id (i_agents I)).
  Local Notation nids := (map n_id (i_nodes I)).
  Local Notation caps0 := (map (fun a => (g_id a, g_cap a)) (i_agents I)).

  (* consequences of hints_wfb, in the form the proof uses *)
  Hypothesis W1 : forall a, NoDup (hints_must I a).
  Hypothesis W2 : forall a a' c, In c (hints_must I a) -> In c (hints_must I a') -> a = a'.
  Hypothesis W3 : forall a c, In c (hints_must I a) -> In c nids.
  Hypothesis W4 : forall a cs, In (a, cs) (i_must I) -> hints_must I a = cs /\ In a ids.
  Hypothesis W5 : forall c h, In h (hints_with I c) -> In h nids.
  Hypothesis Hsecp : secp_free I = true.

  Lemma node_of_some c : In c nids ->
    exists nd, node_of I c = Some nd /\ n_id nd = c /\ In nd (i_nodes I).
  Proof.
    intros H. unfold node_of. destruct (find _ _) as [nd|] eqn:F.
    - apply find_some in F as [Hin E]. apply Z.eqb_eq in E. eauto.
    - exfalso. apply in_map_iff in H as [nd [E Hin]].
      apply (find_none _ _ F) in Hin. simpl in Hin. rewrite E, Z.eqb_refl in Hin. discriminate.
  Qed.

  Lemma node_of_fp c nd : node_of I c = Some nd -> n_fp nd = fp_of I c.
  Proof. unfold node_of, fp_of. now intros ->. Qed.

  Lemma caps0_keys : map fst caps0 = ids.
  Proof. rewrite map_map. reflexivity. Qed.

  Record Inv (s : astate) : Prop := mkInv {
    inv_keys : map fst (s_caps s) = ids;
    inv_nodup : NoDup (map fst (pairs (s_map s)));
    inv_hosted : forall c, mem_key Z.eqb c (s_hosted s) = true <-> In c (map fst (pairs (s_map s)));
    inv_hagent : forall c a, zlookup c (s_hosted s) = Some a -> In a ids;
    inv_decl : forall c a, In (c, a) (pairs (s_map s)) -> In a ids /\ In c nids;
    inv_cap : forall a, In a ids ->
        capa_get (s_caps s) a + hosted_fp I (pairs (s_map s)) a = capa_get caps0 a
  }.

  Definition nonneg (s : astate) : Prop := forall a, In a ids -> 0 <= capa_get (s_caps s) a.

  Definition add_comp (s : astate) (a c : Z) (ch : list nat) : astate :=
    mkA (capa_sub (s_caps s) a (fp_of I c)) (map_add (s_map s) a c)
        (dict_set Z.eqb c a (s_hosted s)) ch.

  Lemma Inv_add s a c ch :
    Inv s -> In a ids -> In c nids -> ~ In c (map fst (pairs (s_map s))) ->
    Inv (add_comp s a c ch) /\
    Permutation (pairs (s_map (add_comp s a c ch))) ((c, a) :: pairs (s_map s)).
  Proof.
    intros [Hk Hn Hh Ha Hd Hc] Hia Hic Hfresh.
    pose proof (pairs_map_add (s_map s) a c Hfresh) as Hp.
    split; [|exact Hp]. simpl in *.
    assert (Permutation (map fst (pairs (map_add (s_map s) a c))) (c :: map fst (pairs (s_map s)))) as Hpk
      by (apply (Permutation_map fst) in Hp; exact Hp).
    constructor; simpl.
    - unfold capa_sub. rewrite dict_set_keys; auto. now rewrite Hk.
    - eapply Permutation_NoDup; [symmetry; exact Hpk|]. constructor; auto.
    - intros c'. rewrite mem_key_set. rewrite orb_true_iff, Hh, Z.eqb_eq. split.
      + intros H. eapply Permutation_in; [symmetry; exact Hpk|]. simpl. intuition.
      + intros H. eapply Permutation_in in H; [|exact Hpk]. simpl in H. intuition.
    - intros c' b. destruct (Z.eq_dec c' c) as [->|Hne].
      + rewrite zlookup_set_same. intros E. inversion E; subst. auto.
      + rewrite zlookup_set_other; auto. apply Ha.
    - intros c' b H. eapply Permutation_in in H; [|exact Hp]. destruct H as [H|H].
      + inversion H; subst. auto.
      + now apply Hd.
    - intros b Hb. rewrite capa_get_sub.
      assert (hosted_fp I (pairs (map_add (s_map s) a c)) b
              = (if a =? b then fp_of I c else 0) + hosted_fp I (pairs (s_map s)) b) as ->.
      { unfold hosted_fp.
        rewrite (zsum_perm _ _ (Permutation_map (fun e : Z * Z => if snd e =? b then fp_of I (fst e) else 0) Hp)).
        reflexivity. }
      specialize (Hc b Hb). rewrite (Z.eqb_sym a b).
      destruct (b =? a) eqn:E; [apply Z.eqb_eq in E; subst b|]; lia.
  Qed.

  (* ---------------------------------------------------------------- must-host phase *)
  Lemma must_comps_spec a : In a ids -> forall cs s,
    Inv s -> NoDup cs ->
    (forall c, In c cs -> In c nids /\ ~ In c (map fst (pairs (s_map s)))) ->
    exists s', must_comps I a cs s = AOk s' /\ Inv s' /\
      (forall c b, In (c, b) (pairs (s_map s')) <->
                   (In c cs /\ b = a) \/ In (c, b) (pairs (s_map s))) /\
      (forall b, b <> a -> capa_get (s_caps s') b = capa_get (s_caps s) b).
  Proof.
    intros Hia. induction cs as [|c r IH]; intros s Hinv Hnd Hcs.
    - exists s. simpl. split; [reflexivity|]. split; [exact Hinv|]. split; [|reflexivity].
      intros c b. split; auto. intros [[[] _]|H]; auto.
    - simpl. destruct (Hcs c (or_introl eq_refl)) as [Hc Hfresh].
      destruct (node_of_some c Hc) as [nd [En [_ _]]]. rewrite En. rewrite (node_of_fp c nd En).
      fold (add_comp s a c (s_choices s)).
      destruct (Inv_add s a c (s_choices s) Hinv Hia Hc Hfresh) as [Hinv' Hp].
      inversion Hnd as [|? ? Hnc Hnr]; subst.
      destruct (IH (add_comp s a c (s_choices s)) Hinv' Hnr) as [s' [E [Hi' [Hiff Hcap]]]].
      { intros c' Hc'. split; [apply Hcs; now right|].
        intros Hin. apply (Permutation_in _ (Permutation_map fst Hp)) in Hin. simpl in Hin.
        destruct Hin as [->|Hin]; [contradiction|]. apply (Hcs c' (or_intror Hc')). exact Hin. }
      exists s'. split; [exact E|]. split; [exact Hi'|]. split.
      + intros c' b. rewrite Hiff. split.
        * intros [[H1 H2]|H]; [left; split; auto; now right|].
          apply (Permutation_in _ Hp) in H. destruct H as [H|H]; auto.
          inversion H; subst. left. split; [now left|reflexivity].
        * intros [[[->|H1] H2]|H].
          -- right. subst b. apply (Permutation_in _ (Permutation_sym Hp)). now left.
          -- left. auto.
          -- right. apply (Permutation_in _ (Permutation_sym Hp)). now right.
      + intros b Hb. rewrite Hcap; auto. simpl. rewrite capa_get_sub.
        destruct (b =? a) eqn:Eb; auto. apply Z.eqb_eq in Eb. contradiction.
  Qed.

  Lemma must_phase_spec : forall ags s,
    NoDup ags -> (forall a, In a ags -> In a ids) -> Inv s ->
    (forall a c, In a ags -> In c (hints_must I a) -> ~ In c (map fst (pairs (s_map s)))) ->
    match must_phase I ags s with
    | AOk s' => Inv s' /\
        (forall c b, In (c, b) (pairs (s_map s')) <->
                     (In b ags /\ In c (hints_must I b)) \/ In (c, b) (pairs (s_map s))) /\
        (forall b, In b ags -> 0 <= capa_get (s_caps s') b) /\
        (forall b, ~ In b ags -> capa_get (s_caps s') b = capa_get (s_caps s) b)
    | AImpossible => True
    | _ => False
    end.
  Proof.
    induction ags as [|a r IH]; intros s Hnd Hids Hinv Hfresh; simpl.
    - split; [exact Hinv|]. split; [|split; [intros b []|reflexivity]].
      intros c b. split; auto. intros [[[] _]|H]; auto.
    - inversion Hnd as [|? ? Hna Hnr]; subst.
      destruct (must_comps_spec a (Hids a (or_introl eq_refl)) (hints_must I a) s Hinv (W1 a))
        as [s1 [-> [Hinv1 [Hiff1 Hcap1]]]].
      { intros c Hc. split; [eapply W3; eauto|]. apply (Hfresh a c); auto. now left. }
      destruct (capa_get (s_caps s1) a <? 0) eqn:Eneg; [exact Logic.I|].
      specialize (IH s1 Hnr (fun b Hb => Hids b (or_intror Hb)) Hinv1).
      assert (forall a' c, In a' r -> In c (hints_must I a') -> ~ In c (map fst (pairs (s_map s1)))) as Hf1.
      { intros a' c Ha' Hc Hin. apply In_keys in Hin as [b Hin]. apply Hiff1 in Hin as [[Hc' _]|Hin].
        - assert (a = a') by (eapply W2; eauto). subst. contradiction.
        - apply (Hfresh a' c (or_intror Ha') Hc). apply In_keys. eauto. }
      specialize (IH Hf1).
      destruct (must_phase I r s1) as [s'| | |]; auto.
      destruct IH as [Hinv' [Hiff [Hpos Hsame]]].
      split; [exact Hinv'|]. split; [|split].
      + intros c b. rewrite Hiff, Hiff1. split.
        * intros [[H1 H2]|[[H1 H2]|H]].
          -- left. split; [now right|exact H2].
          -- left. subst b. split; [now left|exact H1].
          -- right. exact H.
        * intros [[[->|H1] H2]|H].
          -- right. left. split; [exact H2|reflexivity].
          -- left. split; assumption.
          -- right. right. exact H.
      + intros b [->|Hb]; auto. rewrite Hsame; auto. lia.
      + intros b Hb. rewrite Hsame by (intro; apply Hb; now right).
        apply Hcap1. intros ->. apply Hb. now left.
  Qed.

  (* ---------------------------------------------------------------- first ("secp") loop *)
  Lemma secp_step_id nd s : In nd (i_nodes I) ->
    (must_hosted I (n_id nd) = true -> mem_key Z.eqb (n_id nd) (s_hosted s) = true) ->
    secp_step I nd s = AOk s.
  Proof.
    intros Hin Hmh. unfold secp_step.
    destruct (mem_key Z.eqb (n_id nd) (s_hosted s)) eqn:Hm; auto.
    destruct (hints_with I (n_id nd)) as [|h [|h2 t]] eqn:Hw; auto.
    destruct (n_kind nd =? 1) eqn:K; simpl; auto.
    destruct (node_of I h) as [hn|] eqn:Hn.
    - destruct (n_kind hn =? 0) eqn:K0; simpl; auto.
      exfalso. unfold secp_free in Hsecp. rewrite forallb_forall in Hsecp.
      specialize (Hsecp nd Hin). unfold secp_shape in Hsecp. rewrite Hw, Hn, K, K0 in Hsecp.
      destruct (must_hosted I (n_id nd)); simpl in Hsecp; [|discriminate].
      specialize (Hmh eq_refl). congruence.
    - exfalso. assert (In h nids) as Hh by (apply (W5 (n_id nd)); rewrite Hw; now left).
      destruct (node_of_some h Hh) as [x [E _]]. congruence.
  Qed.

  Lemma secp_loop_id : forall nds s, (forall nd, In nd nds -> In nd (i_nodes I)) ->
    (forall nd, In nd (i_nodes I) -> must_hosted I (n_id nd) = true ->
                mem_key Z.eqb (n_id nd) (s_hosted s) = true) ->
    aloop (secp_step I) nds s = AOk s.
  Proof.
    induction nds as [|nd r IH]; intros s Hsub Hmh; simpl; auto.
    rewrite secp_step_id; auto.
    - apply IH; auto. intros x Hx. apply Hsub. now right.
    - apply Hsub. now left.
    - apply Hmh. apply Hsub. now left.
  Qed.

  (* ---------------------------------------------------------------- second (scoring) loop *)
  Definition mono (s s' : astate) : Prop :=
    forall p, In p (pairs (s_map s)) -> In p (pairs (s_map s')).

  Lemma place_step_spec nd s : In nd (i_nodes I) -> Inv s -> nonneg s ->
    match place_step I nd s with
    | AOk s' => Inv s' /\ nonneg s' /\ mono s s' /\ In (n_id nd) (map fst (pairs (s_map s'))) /\
                s_choices s' = s_choices s
    | ANoCandidate => True
    | _ => False
    end.
  Proof.
    intros Hin Hinv Hpos. unfold place_step.
    destruct (mem_key Z.eqb (n_id nd) (s_hosted s)) eqn:Hm.
    { split; [exact Hinv|]. split; [exact Hpos|]. split; [intros p Hp; exact Hp|].
      split; [now apply (inv_hosted s Hinv)|reflexivity]. }
    set (hinted := dedup _). set (c1 := filter _ (map _ hinted)).
    set (cands := match c1 with [] => _ | _ => c1 end).
    set (scores := map _ cands).
    destruct (best_score scores) as [[[x y] sel]|] eqn:B; [|exact Logic.I].
    apply best_score_In in B. unfold scores in B. apply in_map_iff in B as [ca [Eca Hca]].
    inversion Eca; subst x y sel. clear Eca.
    assert (n_fp nd < fst ca /\ fst ca = capa_get (s_caps s) (snd ca) /\ In (snd ca) ids) as [Hlt [Hcap Hsel]].
    { assert (In ca c1 \/ In ca (filter (fun ca => n_fp nd <? fst ca)
                                   (map (fun ac : Z * Z => (snd ac, fst ac)) (s_caps s)))) as [H|H]
        by (unfold cands in Hca; destruct c1; auto).
      - unfold c1 in H. apply filter_In in H as [H Hl]. apply in_map_iff in H as [a [<- Ha]]. simpl in *.
        split; [lia|]. split; auto.
        unfold hinted in Ha. apply dedup_In in Ha. apply in_flat_map in Ha as [c [_ Ha]].
        destruct (zlookup c (s_hosted s)) as [a'|] eqn:El; simpl in Ha; [|contradiction].
        destruct Ha as [<-|[]]. eapply inv_hagent; eauto.
      - apply filter_In in H as [H Hl]. apply in_map_iff in H as [[a c] [<- Ha]]. simpl in *.
        split; [lia|]. split.
        + unfold capa_get. rewrite (zlookup_nodup a c); auto.
          rewrite (inv_keys s Hinv). apply Hwf.
        + rewrite <- (inv_keys s Hinv). apply In_keys. eauto. }
    assert (In (n_id nd) nids) as Hnid by now apply in_map.
    assert (~ In (n_id nd) (map fst (pairs (s_map s)))) as Hfresh.
    { intro H. apply (inv_hosted s Hinv) in H. congruence. }
    rewrite <- (fp_of_node I nd (proj1 Hwf) Hin).
    fold (add_comp s (snd ca) (n_id nd) (s_choices s)).
    destruct (Inv_add s (snd ca) (n_id nd) (s_choices s) Hinv Hsel Hnid Hfresh) as [Hinv' Hp].
    split; [exact Hinv'|]. split; [|split; [|split]].
    - intros b Hb. simpl. rewrite capa_get_sub. rewrite (fp_of_node I nd (proj1 Hwf) Hin).
      destruct (b =? snd ca) eqn:E; [lia|]. now apply Hpos.
    - intros p H. apply (Permutation_in _ (Permutation_sym Hp)). now right.
    - apply In_keys. exists (snd ca). apply (Permutation_in _ (Permutation_sym Hp)). now left.
    - reflexivity.
  Qed.

  Lemma place_loop_spec : forall nds s,
    (forall nd, In nd nds -> In nd (i_nodes I)) -> Inv s -> nonneg s ->
    match aloop (place_step I) nds s with
    | AOk s' => Inv s' /\ nonneg s' /\ mono s s' /\
                (forall nd, In nd nds -> In (n_id nd) (map fst (pairs (s_map s'))))
    | ANoCandidate => True
    | _ => False
    end.
  Proof.
    induction nds as [|nd r IH]; intros s Hsub Hinv Hpos; simpl.
    - split; [exact Hinv|]. split; [exact Hpos|]. split; [intros p Hp; exact Hp|intros nd []].
    - pose proof (place_step_spec nd s (Hsub nd (or_introl eq_refl)) Hinv Hpos) as H1.
      destruct (place_step I nd s) as [s1| | |]; auto.
      destruct H1 as [Hinv1 [Hpos1 [Hm1 [Hin1 _]]]].
      specialize (IH s1 (fun x Hx => Hsub x (or_intror Hx)) Hinv1 Hpos1).
      destruct (aloop (place_step I) r s1) as [s'| | |]; auto.
      destruct IH as [Hinv' [Hpos' [Hm' Hcov]]].
      split; [exact Hinv'|]. split; [exact Hpos'|]. split.
      + intros p Hp. apply Hm'. apply Hm1. exact Hp.
      + intros x [<-|Hx]; [|now apply Hcov].
        apply In_keys in Hin1 as [b Hb]. apply In_keys. exists b. apply Hm'. exact Hb.
  Qed.

  (* ---------------------------------------------------------------- one attempt and the retry *)
  Lemma order_nodes_In o nd : In nd (order_nodes I o) -> In nd (i_nodes I).
  Proof.
    unfold order_nodes. intros H. apply in_flat_map in H as [c [_ H]].
    destruct (node_of I c) as [x|] eqn:E; simpl in H; [|contradiction].
    destruct H as [<-|[]]. unfold node_of in E. now apply find_some in E.
  Qed.

  Lemma order_nodes_cover o c : In c o -> In c nids ->
    exists nd, In nd (order_nodes I o) /\ n_id nd = c.
  Proof.
    intros Ho Hc. destruct (node_of_some c Hc) as [nd [E [En _]]].
    exists nd. split; auto. unfold order_nodes. apply in_flat_map. exists c. split; auto.
    rewrite E. now left.
  Qed.

  Lemma caps0_cap ag : In ag (i_agents I) -> capa_get caps0 (g_id ag) = g_cap ag.
  Proof.
    intros H. unfold capa_get. rewrite (zlookup_nodup (g_id ag) (g_cap ag)); auto.
    - rewrite caps0_keys. apply Hwf.
    - apply in_map_iff. exists ag. auto.
  Qed.

  Lemma adhoc_try_valid : forall fuel shuf choices, shuffles_ok I shuf ->
    match adhoc_try fuel I shuf choices with
    | Ok m => valid_mapping I m
    | Impossible => True
    | _ => False
    end.
  Proof.
    induction fuel as [|f IH]; intros shuf choices Hshuf; [exact Logic.I|].
    cbn [adhoc_try].
    assert (Permutation (hd nids shuf) nids) as Hperm.
    { destruct shuf; simpl; [apply Permutation_refl|]. now inversion Hshuf. }
    set (nodes := order_nodes I (hd nids shuf)).
    rewrite (dict_of_list_nodup caps0) by (rewrite caps0_keys; apply Hwf).
    set (s0 := mkA caps0 [] [] choices).
    assert (Inv s0) as Hinv0.
    { constructor; simpl; auto.
      - apply caps0_keys.
      - constructor.
      - intros c. unfold mem_key. simpl. split; [discriminate|tauto].
      - intros c a. unfold zlookup. simpl. discriminate.
      - tauto.
      - intros a _. unfold hosted_fp. simpl. lia. }
    change (map fst (s_caps s0)) with (map fst caps0). rewrite caps0_keys.
    pose proof (must_phase_spec ids s0 (proj2 Hwf) (fun a H => H) Hinv0
                  (fun a c _ _ (H : In c []) => H)) as Hm.
    destruct (must_phase I ids s0) as [s1| | |]; auto.
    destruct Hm as [Hinv1 [Hiff1 [Hpos1 _]]].
    assert (forall nd, In nd nodes -> In nd (i_nodes I)) as Hsub by (intros nd; apply order_nodes_In).
    rewrite secp_loop_id; auto.
    2:{ intros nd Hnd Hmh. apply (inv_hosted s1 Hinv1). apply In_keys.
        unfold must_hosted in Hmh. apply existsb_exists in Hmh as [ag [Hag Hz]].
        apply zmem_In in Hz. exists (g_id ag). apply Hiff1. left. split; auto. now apply in_map. }
    pose proof (place_loop_spec nodes s1 Hsub Hinv1 Hpos1) as Hp.
    destruct (aloop (place_step I) nodes s1) as [s3| | |]; auto.
    2:{ apply IH. destruct shuf; simpl; auto. now inversion Hshuf. }
    destruct Hp as [Hinv3 [Hpos3 [Hmono Hcov]]].
    rewrite dist_of_pairs.
    rewrite (proj2 (nodupb_NoDup _) (inv_nodup s3 Hinv3)).
    split; [|split; [|split]].
    - unfold hosts_once. apply NoDup_Permutation.
      + exact (inv_nodup s3 Hinv3).
      + apply Hwf.
      + intros c. split.
        * intros H. apply In_keys in H as [b H]. now apply (inv_decl s3 Hinv3) in H.
        * intros H. destruct (order_nodes_cover (hd nids shuf) c) as [nd [Hnd <-]]; auto.
          eapply Permutation_in; [symmetry; exact Hperm|exact H].
    - intros c a H. now apply (inv_decl s3 Hinv3) in H.
    - intros a cs c Hacs Hc. destruct (W4 a cs Hacs) as [E Ha].
      apply Hmono. apply Hiff1. left. split; auto. now rewrite E.
    - intros ag Hag. pose proof (inv_cap s3 Hinv3 (g_id ag) (in_map g_id _ _ Hag)) as Hc.
      rewrite (caps0_cap ag Hag) in Hc. specialize (Hpos3 (g_id ag) (in_map g_id _ _ Hag)). lia.
  Qed.
End Adhoc.

(* ================================================================ from the boolean guards *)
Lemma flat_snd_disjoint {A} (l : list (A * list Z)) :
  NoDup (flat_map snd l) -> forall e1 e2 c, In e1 l -> In e2 l -> In c (snd e1) -> In c (snd e2) -> e1 = e2.
Proof.
  induction l as [|e r IH]; simpl; intros Hnd e1 e2 c H1 H2 Hc1 Hc2; [contradiction|].
  apply NoDup_app_inv in Hnd as [Ha [Hb Hd]].
  assert (forall e', In e' r -> In c (snd e') -> In c (flat_map snd r)) as Hfl
    by (intros e' He' Hc'; apply in_flat_map; eauto).
  destruct H1 as [<-|H1], H2 as [<-|H2]; auto.
  - exfalso. apply (Hd c Hc1). eauto.
  - exfalso. apply (Hd c Hc2). eauto.
  - eapply IH; eauto.
Qed.

Lemma hints_must_cases I a :
  (exists cs, In (a, cs) (i_must I) /\ hints_must I a = cs) \/ hints_must I a = [].
Proof.
  unfold hints_must. destruct (zlookup a (i_must I)) as [cs|] eqn:E; auto.
  left. exists cs. split; auto. now apply zlookup_In.
Qed.

Theorem adhoc_valid I shuf choices :
  wf I -> hints_wfb I = true -> secp_free I = true -> shuffles_ok I shuf ->
  match adhoc I shuf choices with
  | Ok m => valid_mapping I m
  | Impossible => True
  | _ => False
  end.
Proof.
  intros Hwf Hh Hs Hshuf. unfold hints_wfb in Hh.
  repeat rewrite andb_true_iff in Hh. destruct Hh as [[[[H1 H2] H3] H4] H5].
  apply nodupb_NoDup in H1. apply nodupb_NoDup in H3.
  rewrite forallb_forall in H2, H4, H5.
  unfold adhoc. apply adhoc_try_valid; auto.
  - intros a. destruct (hints_must_cases I a) as [[cs [Hin ->]]| ->]; [|constructor].
    clear - H3 Hin. induction (i_must I) as [|e r IH]; simpl in *; [contradiction|].
    apply NoDup_app_inv in H3 as [Ha [Hb _]]. destruct Hin as [->|Hin]; auto.
  - intros a a' c Hc Hc'.
    destruct (hints_must_cases I a) as [[cs [Hin E]]|E]; rewrite E in Hc; [|contradiction].
    destruct (hints_must_cases I a') as [[cs' [Hin' E']]|E']; rewrite E' in Hc'; [|contradiction].
    assert ((a, cs) = (a', cs')) as Heq by (eapply (flat_snd_disjoint _ H3); eauto).
    congruence.
  - intros a c Hc.
    destruct (hints_must_cases I a) as [[cs [Hin E]]|E]; rewrite E in Hc; [|contradiction].
    apply zmem_In. apply H4. apply in_flat_map. exists (a, cs). auto.
  - intros a cs Hin. split.
    + unfold hints_must. now rewrite (zlookup_nodup a cs).
    + apply zmem_In. apply H2. apply in_map_iff. exists (a, cs). auto.
  - intros c h Hh. unfold hints_with in Hh.
    destruct (zlookup c (i_with I)) as [l|] eqn:E; [|contradiction].
    apply zlookup_In in E. apply zmem_In.
    specialize (H5 (c, l) E). simpl in H5. rewrite forallb_forall in H5. now apply H5.
Qed.

(* ================================================================ must-host alone *)
(* Every mapping adhoc returns honours the must-host hints -- also when the first (secp) loop
   fires, i.e. without the secp_free guard, for arbitrary shuffles and names. *)
Lemma set_add_incl x l c : In c l -> In c (set_add x l).
Proof. unfold set_add. destruct (zmem x l); auto. intros H. apply in_or_app. auto. Qed.

Lemma set_add_new x l : In x (set_add x l).
Proof.
  unfold set_add. destruct (zmem x l) eqn:E.
  - now apply zmem_In. - apply in_or_app. right. now left.
Qed.

Lemma map_get_cons k l r a : map_get ((k, l) :: r) a = if a =? k then l else map_get r a.
Proof. unfold map_get, zlookup. simpl. destruct (a =? k); reflexivity. Qed.

Lemma pairs_map_add_mono m a x p : In p (pairs m) -> In p (pairs (map_add m a x)).
Proof.
  unfold map_add. induction m as [|[k l] r IH]; intros H; [contradiction|].
  rewrite map_get_cons. simpl dict_set. rewrite pairs_cons in H.
  destruct (a =? k) eqn:E; rewrite pairs_cons; apply in_or_app; apply in_app_or in H as [H|H]; auto.
  left. apply in_map_iff in H as [c [<- Hc]]. apply (in_map (fun c => (c, k))). now apply set_add_incl.
Qed.

Lemma pairs_map_add_new m a x : In (x, a) (pairs (map_add m a x)).
Proof.
  unfold map_add. induction m as [|[k l] r IH].
  - simpl. now left.
  - rewrite map_get_cons. simpl dict_set. destruct (a =? k) eqn:E; rewrite pairs_cons; apply in_or_app.
    + apply Z.eqb_eq in E. subst k. left. apply (in_map (fun c => (c, a))). apply set_add_new.
    + right. exact IH.
Qed.

Lemma mono_refl s : mono s s.
Proof. intros p Hp. exact Hp. Qed.

Lemma must_comps_mono I a : forall cs s s', must_comps I a cs s = AOk s' ->
  mono s s' /\ forall c, In c cs -> In (c, a) (pairs (s_map s')).
Proof.
  induction cs as [|c r IH]; simpl; intros s s' H.
  - inversion H; subst. split; [apply mono_refl|intros c []].
  - destruct (node_of I c) as [nd|]; [|discriminate].
    apply IH in H as [Hm Hc]. split.
    + intros p Hp. apply Hm. simpl. now apply pairs_map_add_mono.
    + intros c' [<-|Hc']; auto. apply Hm. simpl. apply pairs_map_add_new.
Qed.

Lemma must_phase_mono I : forall ags s s', must_phase I ags s = AOk s' ->
  mono s s' /\ forall a c, In a ags -> In c (hints_must I a) -> In (c, a) (pairs (s_map s')).
Proof.
  induction ags as [|a r IH]; simpl; intros s s' H.
  - inversion H; subst. split; [apply mono_refl|intros a c []].
  - destruct (must_comps I a (hints_must I a) s) as [s1| | |] eqn:E; try discriminate.
    destruct (capa_get (s_caps s1) a <? 0); [discriminate|].
    apply must_comps_mono in E as [Hm1 Hc1]. apply IH in H as [Hm Hc]. split.
    + intros p Hp. auto.
    + intros a' c [<-|Ha'] Hin; auto.
Qed.

Lemma aloop_mono f : (forall nd s s', f nd s = AOk s' -> mono s s') ->
  forall nds s s', aloop f nds s = AOk s' -> mono s s'.
Proof.
  intros Hf. induction nds as [|nd r IH]; simpl; intros s s' H.
  - inversion H; subst. apply mono_refl.
  - destruct (f nd s) as [s1| | |] eqn:E; try discriminate.
    intros p Hp. eapply IH; eauto. eapply Hf; eauto.
Qed.

Lemma secp_step_mono I nd s s' : secp_step I nd s = AOk s' -> mono s s'.
Proof.
  unfold secp_step. intros H.
  destruct (mem_key Z.eqb (n_id nd) (s_hosted s)); [inversion H; subst; apply mono_refl|].
  destruct (hints_with I (n_id nd)) as [|h [|h2 t]]; try (inversion H; subst; apply mono_refl).
  destruct (negb (n_kind nd =? 1)); [inversion H; subst; apply mono_refl|].
  destruct (node_of I h) as [hn|]; [|discriminate].
  destruct (negb (n_kind hn =? 0)); [inversion H; subst; apply mono_refl|].
  match type of H with match ?pk with _ => _ end = _ => destruct pk as [[sel ch]|] end; [|discriminate].
  inversion H; subst. intros p Hp. simpl. apply pairs_map_add_mono. now apply pairs_map_add_mono.
Qed.

Lemma place_step_mono I nd s s' : place_step I nd s = AOk s' -> mono s s'.
Proof.
  unfold place_step. intros H.
  destruct (mem_key Z.eqb (n_id nd) (s_hosted s)); [inversion H; subst; apply mono_refl|].
  match type of H with match ?b with _ => _ end = _ => destruct b as [[[x y] sel]|] end; [|discriminate].
  inversion H; subst. intros p Hp. simpl. now apply pairs_map_add_mono.
Qed.

Lemma adhoc_try_must I : forall fuel shuf choices m, adhoc_try fuel I shuf choices = Ok m ->
  forall a c, In a (map fst (dict_of_list Z.eqb (map (fun a => (g_id a, g_cap a)) (i_agents I)))) ->
              In c (hints_must I a) -> In (c, a) m.
Proof.
  induction fuel as [|f IH]; intros shuf choices m H; [discriminate|].
  cbn [adhoc_try] in H. cbn [s_caps] in H.
  destruct (must_phase I _ _) as [s1| | |] eqn:E1; try discriminate.
  destruct (aloop (secp_step I) _ s1) as [s2| | |] eqn:E2; try discriminate.
  destruct (aloop (place_step I) _ s2) as [s3| | |] eqn:E3; try discriminate.
  - rewrite dist_of_pairs in H. destruct (nodupb _ _); [|discriminate]. inversion H; subst.
    apply must_phase_mono in E1 as [_ Hc].
    apply (aloop_mono _ (secp_step_mono I)) in E2. apply (aloop_mono _ (place_step_mono I)) in E3.
    intros a c Ha Hin. apply E3. apply E2. now apply Hc.
  - eapply IH; eauto.
Qed.

Theorem adhoc_must_host I shuf choices m :
  hints_wfb I = true -> adhoc I shuf choices = Ok m -> must_host_honoured I m.
Proof.
  intros Hh H. unfold hints_wfb in Hh.
  repeat rewrite andb_true_iff in Hh. destruct Hh as [[[[H1 H2] _] _] _].
  apply nodupb_NoDup in H1. rewrite forallb_forall in H2.
  intros a cs c Hacs Hc. eapply adhoc_try_must; [exact H| |].
  - assert (In a (map g_id (i_agents I))) as Ha
      by (apply zmem_In; apply H2; apply in_map_iff; exists (a, cs); auto).
    apply in_map_iff in Ha as [ag [Ea Hag]]. apply mem_key_In.
    apply (dict_of_list_covers Z.eqb Z.eqb_eq a (g_cap ag)).
    apply in_map_iff. exists ag. split; [now rewrite Ea|exact Hag].
  - unfold hints_must. now rewrite (zlookup_nodup a cs).
Qed.

(* ================================================================ gh_cgdp: pinning *)
(* gh_cgdp never reads `hints`, but a zero hosting cost pins: every computation for which some
   agent has hosting cost 0 is hosted on the FIRST such agent.  Hence must-host hints that are
   (also) expressed that way are honoured. *)
Lemma gh_cgdp_pins cle I rnd m : gh_cgdp cle I rnd = Ok m ->
  forall nd ag, In nd (i_nodes I) ->
    find (fun a => hosting_cost a (n_id nd) =? 0) (i_agents I) = Some ag -> In (n_id nd, g_id ag) m.
Proof.
  unfold gh_cgdp. intros H nd ag Hnd Hf.
  destruct (existsb _ (i_agents I)); [discriminate|].
  destruct (sorted_levels _ rnd) as [todo rnd'].
  assert (forall fuel d t r m, run cle I (fixed_mapping I) fuel d t r = Ok m ->
            forall p, In p (map (fun e : Z * (Z * Z) => (fst e, fst (snd e))) (fixed_mapping I)) -> In p m) as G.
  { induction fuel as [|f IH]; simpl; intros d t r m0 H0; [discriminate|].
    destruct (step cle I (fixed_mapping I) d t r) as [d' t' r'|res] eqn:S.
    - eapply IH; eauto.
    - subst res. unfold step in S. destruct t as [|[L cands] rest].
      + inversion S; subst. intros p Hp. apply in_or_app. auto.
      + destruct (match cands with Some l => (l, r) | None => candidate_hosts cle I (fixed_mapping I) L d r end)
          as [cl r2]. destruct cl; [destruct d as [|[[? ?] ?] ?]|]; discriminate. }
  eapply G; [exact H|].
  apply in_map_iff. exists (n_id nd, (g_id ag, n_fp nd)). split; [reflexivity|].
  unfold fixed_mapping. apply in_flat_map. exists nd. split; auto. rewrite Hf. now left.
Qed.

Definition must_by_cost (I : inst) : Prop :=
  forall a cs c, In (a, cs) (i_must I) -> In c cs ->
    exists nd ag, In nd (i_nodes I) /\ n_id nd = c /\
                  find (fun g => hosting_cost g c =? 0) (i_agents I) = Some ag /\ g_id ag = a.

Theorem gh_cgdp_must_host_by_cost cle I rnd m :
  must_by_cost I -> gh_cgdp cle I rnd = Ok m -> must_host_honoured I m.
Proof.
  intros Hb H a cs c Hacs Hc. destruct (Hb a cs c Hacs Hc) as [nd [ag [Hnd [<- [Hf <-]]]]].
  eapply gh_cgdp_pins; eauto.
Qed.
