(* P_Mgm2pB.v -- MGM2 payload refinement, part 2 (C03/C04): the payload invariant [InvP] over the abstract
   world of P_Mgm2y.v (every computation holds the payloads of the reference run for its cycle; every
   pending value / offer / answer / gain / go message is the reference message of the cycle read off
   the sender's position), and its preservation by every micro-step and every start. *)
From Coq Require Import ZArith List Bool Lia Permutation.
From PyDcop Require Import Base Net M_Mgm M_Mgm2 M_Mgm2x M_Mgm2r P_Mgm P_Mgm3 P_Mgm3c P_Mgm2x P_Mgm2y P_Mgm2s P_Mgm2sV P_Mgm2sO P_Mgm2sA P_Mgm2sG P_Mgm2sS P_Mgm2f P_Mgm2r P_Mgm2pA.
Import ListNotations.
Open Scope Z_scope.
Local Notation length := List.length.

Section PayInv.
  Variable d : dcop.
  Variables stop thr favor : Z.
  Variable orc : node -> list Z.
  Notation nbr := (nbrs d).
  Notation doneb := (doneb stop).
  Notation InvA := (InvA d stop).
  Notation good := (good d stop).
  Notation payc := (payc d thr favor orc).
  Notation AC := (AC d thr favor orc).
  Notation OC := (OC d thr favor orc).

  (* the cycle a pending message belongs to: read off the sender's position (go / no-go: the receiver's) *)
  Definition sidx (s : m2st) (m : m2msg) (cy : Z) : Z :=
    match m with
    | M2Value _ => t_cycle s - t_fin s
    | M2Offer _ _ => t_cycle s - 1 + b2z (2 <=? t_state s)
    | M2Gain _ => t_cycle s - 1 + b2z (4 <=? t_state s)
    | M2Answer _ _ _ => t_cycle s
    | M2Go _ => cy
    end.
  Definition rmsg (c : Z) (x y : Z) (m : m2msg) : Prop := refmsg d thr favor (AC c) (OC c) x y m.
  Definition pmsg (S : node -> m2st) (x y : node) (m : m2msg) : Prop :=
    rmsg (sidx (S x) m (t_cycle (S y))) x y m.

  Record InvP (rn : node -> bool) (S : node -> m2st) (pd : node -> node -> list m2msg) : Prop := {
    q_node : forall n, rn n = true -> nbr n <> [] -> payc n (S n);
    q_iso : forall n, rn n = true -> nbr n = [] -> t_value (S n) = Some (init_val2 d orc n);
    q_bag : forall x y m, In m (pd x y) -> pmsg S x y m
  }.

  Section W.
  Variable rn : node -> bool.
  Variable S : node -> m2st.
  Variable pd : node -> node -> list m2msg.
  Hypothesis HI : InvA rn S pd.

  Lemma bag_nbr x y m : In m (pd x y) -> In x (nbr y).
  Proof.
    intros Hm. destruct (in_dec Z.eq_dec x (nbr y)) as [H|H]; [exact H|].
    rewrite (i_far _ _ _ _ _ HI x y H) in Hm. destruct Hm.
  Qed.

  (* at most one pending message of each kind per ordered pair *)
  Lemma cnt_le1A x y k : In x (nbr y) -> cnt k (pd x y) <= 1.
  Proof.
    intros Hxy. pose proof (i_pair _ _ _ _ _ HI x y Hxy) as Pxy.
    pose proof (cnt_nonneg k (pd x y)) as Hn.
    assert (Hk : k = 1 \/ k = 2 \/ k = 3 \/ k = 4 \/ k = 5 \/ (k < 1 \/ 5 < k)) by lia.
    assert (H3 : cnt 3 (pd x y) <= 1).
    { destruct (Z_le_gt_dec (cnt 3 (pd x y)) 1) as [H|H]; [lia|exfalso].
      assert (Hnot : ~ (expA S y x /\ 3 <= t_state (S x))).
      { intros [A B]. rewrite (p_A1 _ _ _ _ _ Pxy A B) in H. lia. }
      rewrite (p_A0 _ _ _ _ _ Pxy Hnot) in H. lia. }
    assert (H5 : cnt 5 (pd x y) <= 1).
    { destruct (Z_le_gt_dec (cnt 5 (pd x y)) 1) as [H|H]; [lia|exfalso].
      assert (Hnot : ~ (expG S y x /\ sentGo S x y)).
      { intros [A B]. rewrite (p_Go1 _ _ _ _ _ Pxy A B) in H. lia. }
      rewrite (p_Go0 _ _ _ _ _ Pxy Hnot) in H. lia. }
    assert (H0 : (k < 1 \/ 5 < k) -> cnt k (pd x y) = 0).
    { intros Hk0. unfold cnt. assert (E : filter (fun m => kind_of m =? k) (pd x y) = []); [|rewrite E; reflexivity].
      clear Hn H3 H5. induction (pd x y) as [|m r IHr]; [reflexivity|]. simpl.
      assert (Hm : (kind_of m =? k) = false) by (apply Z.eqb_neq; destruct m; simpl; lia). rewrite Hm. exact IHr. }
    destruct (rn x) eqn:Rx.
    2:{ (* x not started: it has sent nothing *)
      pose proof (idle_tabf (S x) y (i_idle _ _ _ _ _ HI x Rx)) as (T1 & T2 & T3 & _ & _ & _ & T7 & T8 & T9 & _).
      destruct Hk as [->|[->|[->|[->|[->|Hk]]]]]; try assumption; try (rewrite (H0 Hk); lia).
      - pose proof (p_V _ _ _ _ _ Pxy) as E. unfold CV, SV in E. rewrite Rx in E.
        destruct (rn y) eqn:Ry; [|lia].
        pose proof (g_c _ _ _ _ (i_good _ _ _ _ _ HI y Ry (act_of d x y Hxy))) as Cy.
        pose proof (b2z_range (kinv x (t_nv (S y)))). lia.
      - pose proof (p_O _ _ _ _ _ Pxy) as E. unfold CO, SO in E. rewrite Rx in E.
        destruct (rn y) eqn:Ry; [|lia].
        pose proof (g_c _ _ _ _ (i_good _ _ _ _ _ HI y Ry (act_of d x y Hxy))) as Cy.
        pose proof (b2z_range (kino x (t_offers (S y)))). lia.
      - pose proof (p_G _ _ _ _ _ Pxy) as E. unfold CG, SG in E. rewrite Rx in E.
        destruct (rn y) eqn:Ry; [|lia].
        pose proof (g_c _ _ _ _ (i_good _ _ _ _ _ HI y Ry (act_of d x y Hxy))) as Cy.
        pose proof (b2z_range (kinv x (t_ng (S y)))). lia. }
    pose proof (i_good _ _ _ _ _ HI x Rx (act_of d y x (nbrs_sym d y x Hxy))) as Gx.
    pose proof (b2z_range (doneb (t_cycle (S x)))) as Fx. rewrite <- (g_fin _ _ _ _ Gx) in Fx.
    pose proof (b2z_leb 2 (t_state (S x))) as B2. pose proof (b2z_leb 4 (t_state (S x))) as B4.
    destruct (rn y) eqn:Ry.
    - pose proof (i_good _ _ _ _ _ HI y Ry (act_of d x y Hxy)) as Gy.
      pose proof (g_c _ _ _ _ Gy) as Cy.
      destruct (pos_facts d stop _ _ _ HI x y Hxy Rx Ry) as (Q1 & Q2 & _).
      destruct (tabf d stop y _ x Gy Hxy) as (T1 & _ & T3 & _ & _ & _ & _ & _).
      destruct Hk as [->|[->|[->|[->|[->|Hk]]]]]; try assumption; try (rewrite (H0 Hk); lia).
      + pose proof (p_V _ _ _ _ _ Pxy) as E. unfold CV, SV in E. rewrite Rx, Ry in E.
        pose proof (b2z_range (kinv x (t_nv (S y)))).
        destruct (Z.eq_dec (t_cycle (S x)) (t_cycle (S y) + 1)) as [Ec|Ec].
        * destruct (Q2 Ec) as (_ & K4 & _). specialize (T1 ltac:(clear - K4; lia)). clear - E Ec T1 Fx. lia.
        * clear - E Q1 Ec Fx H. lia.
      + pose proof (p_O _ _ _ _ _ Pxy) as E. unfold CO, SO in E. rewrite Rx, Ry in E.
        pose proof (b2z_range (kino x (t_offers (S y)))). pose proof (b2z_range (2 <=? t_state (S x))).
        destruct (Z.eq_dec (t_cycle (S x)) (t_cycle (S y) + 1)) as [Ec|Ec].
        * destruct (Q2 Ec) as (K1 & K4 & _). specialize (T3 ltac:(clear - K4; lia)). clear - E Ec T3 K1 B2. lia.
        * clear - E Q1 Ec H H1. lia.
      + pose proof (p_G _ _ _ _ _ Pxy) as E. unfold CG, SG in E. rewrite Rx, Ry in E.
        pose proof (b2z_range (kinv x (t_ng (S y)))). pose proof (b2z_range (4 <=? t_state (S x))).
        destruct (Z.eq_dec (t_cycle (S x)) (t_cycle (S y) + 1)) as [Ec|Ec].
        * destruct (Q2 Ec) as (K1 & _ & _). clear - E Ec K1 B4 H. lia.
        * clear - E Q1 Ec H H1. lia.
    - (* the receiver is not started: the sender is in its first cycle, state value *)
      destruct (nbr_idle_flags d stop rn S pd HI x y Hxy Ry) as (_ & _ & Hx1). destruct (Hx1 Rx) as [Cx Kx].
      destruct Hk as [->|[->|[->|[->|[->|Hk]]]]]; try assumption; try (rewrite (H0 Hk); lia).
      + pose proof (p_V _ _ _ _ _ Pxy) as E. unfold CV, SV in E. rewrite Rx, Ry in E. clear - E Cx Fx. lia.
      + pose proof (p_O _ _ _ _ _ Pxy) as E. unfold CO, SO in E. rewrite Rx, Ry in E.
        pose proof (b2z_range (2 <=? t_state (S x))). clear - E Cx H. lia.
      + pose proof (p_G _ _ _ _ _ Pxy) as E. unfold CG, SG in E. rewrite Rx, Ry in E.
        pose proof (b2z_range (4 <=? t_state (S x))). clear - E Cx H. lia.
  Qed.
  Lemma pend_running x y m : In m (pd x y) -> rn x = true.
  Proof.
    intros Hm. pose proof (bag_nbr x y m Hm) as Hxy. destruct (rn x) eqn:Rx; [reflexivity|exfalso].
    pose proof (i_pair _ _ _ _ _ HI x y Hxy) as Pxy. pose proof (in_cnt_pos _ _ Hm) as Hp.
    pose proof (idle_tabf (S x) y (i_idle _ _ _ _ _ HI x Rx)) as (T1 & T2 & T3 & _ & _ & _ & T7 & T8 & T9 & _).
    assert (Cy : rn y = true -> 1 <= t_cycle (S y)).
    { intros Ry. apply (g_c _ _ _ _ (i_good _ _ _ _ _ HI y Ry (act_of d x y Hxy))). }
    destruct m; simpl in Hp.
    - pose proof (p_V _ _ _ _ _ Pxy) as E. unfold CV, SV in E. rewrite Rx in E.
      destruct (rn y); [specialize (Cy eq_refl); pose proof (b2z_range (kinv x (t_nv (S y))))|]; lia.
    - pose proof (p_G _ _ _ _ _ Pxy) as E. unfold CG, SG in E. rewrite Rx in E.
      destruct (rn y); [specialize (Cy eq_refl); pose proof (b2z_range (kinv x (t_ng (S y))))|]; lia.
    - pose proof (p_O _ _ _ _ _ Pxy) as E. unfold CO, SO in E. rewrite Rx in E.
      destruct (rn y); [specialize (Cy eq_refl); pose proof (b2z_range (kino x (t_offers (S y))))|]; lia.
    - rewrite (p_A0 _ _ _ _ _ Pxy) in Hp; [lia|]. intros [_ B]. rewrite T1 in B. lia.
    - rewrite (p_Go0 _ _ _ _ _ Pxy) in Hp; [lia|]. intros [(A1 & _ & A3) [[_ B]|B]]; [rewrite T1 in B; lia|].
      rewrite T2 in B. destruct (rn y) eqn:Ry; [specialize (Cy eq_refl); lia|].
      pose proof (idle_tabf (S y) x (i_idle _ _ _ _ _ HI y Ry)) as (_ & _ & _ & _ & _ & _ & _ & U8 & _). congruence.
  Qed.

  Hypothesis HP : InvP rn S pd.

  (* what the computation y learns from a pending message of the kind it waits for *)
  Lemma recv_facts y x m l1 l2 : rn y = true -> pd x y = l1 ++ m :: l2 -> kind_of m = t_state (S y) ->
    rmsg (t_cycle (S y)) x y m /\
    (forall v, m = M2Value v -> kinv x (t_nv (S y)) = false) /\
    (forall f os, m = M2Offer f os -> kino x (t_offers (S y)) = false) /\
    (forall g, m = M2Gain g -> kinv x (t_ng (S y)) = false) /\
    (forall ac v g, m = M2Answer ac v g -> t_offerer (S y) = true /\ t_partner (S y) = Some x) /\
    (forall go, m = M2Go go -> t_partner (S y) = Some x).
  Proof.
    intros Ry Hp Hk.
    assert (Hm : In m (pd x y)) by (rewrite Hp; apply in_or_app; right; left; reflexivity).
    pose proof (bag_nbr x y m Hm) as Hxy. pose proof (pend_running x y m Hm) as Rx.
    pose proof (q_bag _ _ _ HP x y m Hm) as Hq. unfold pmsg in Hq.
    pose proof (in_cnt_pos _ _ Hm) as Hc. pose proof (cnt_le1A x y (kind_of m) Hxy) as Hle.
    pose proof (i_pair _ _ _ _ _ HI x y Hxy) as Pxy.
    assert (Hidx : sidx (S x) m (t_cycle (S y)) = t_cycle (S y) ->
                   rmsg (t_cycle (S y)) x y m) by (intros E; rewrite <- E at 1; exact Hq).
    destruct m as [v|g|f os|ac v g|go]; simpl in Hk, Hc, Hle; symmetry in Hk.
    - (* value *)
      destruct (nbr_here1 d stop rn S pd HI y x Ry Hk Hxy) as (_ & Cx & Fx & _ & H1).
      { pose proof (b2z_range (kinv x (t_nv (S y)))). lia. }
      assert (Hb : kinv x (t_nv (S y)) = false) by (destruct (kinv x (t_nv (S y))); [simpl in H1; lia|reflexivity]).
      split; [apply Hidx; simpl; lia|].
      repeat split; try discriminate. intros v0 _. exact Hb.
    - (* gain *)
      destruct (nbr_pos4 d stop rn S pd HI y x Ry Hxy ltac:(lia)) as (_ & Hpos).
      { pose proof (b2z_range (kinv x (t_ng (S y)))). lia. }
      pose proof (p_G _ _ _ _ _ Pxy) as E. unfold CG, SG in E. rewrite Rx, Ry in E.
      assert (Hs : t_cycle (S x) - 1 + b2z (4 <=? t_state (S x)) = t_cycle (S y)).
      { destruct Hpos as [[C K]|[C K]].
        - destruct (b2z_leb 4 (t_state (S x))) as [B _]. rewrite (B K). lia.
        - destruct (b2z_leb 4 (t_state (S x))) as [_ B]. rewrite (B ltac:(lia)). lia. }
      assert (Hb : kinv x (t_ng (S y)) = false).
      { destruct (kinv x (t_ng (S y))); [simpl in E; lia|reflexivity]. }
      split; [apply Hidx; simpl; exact Hs|].
      repeat split; try discriminate. intros g0 _. exact Hb.
    - (* offer *)
      destruct (nbr_here d stop rn S pd HI y x Ry Hk Hxy) as (_ & Cx & Kx & H1).
      { pose proof (b2z_range (kino x (t_offers (S y)))). lia. }
      assert (Hb : kino x (t_offers (S y)) = false) by (destruct (kino x (t_offers (S y))); [simpl in H1; lia|reflexivity]).
      split; [apply Hidx; simpl; destruct (b2z_leb 2 (t_state (S x))) as [B _]; rewrite (B ltac:(lia)); lia|].
      repeat split; try discriminate. intros f0 os0 _. exact Hb.
    - (* answer *)
      destruct (expA_dec S y x) as [[A B]|Hn]; [|rewrite (p_A0 _ _ _ _ _ Pxy Hn) in Hc; lia].
      destruct A as (A1 & A2 & A3).
      destruct (pos_facts d stop _ _ _ HI x y Hxy Rx Ry) as (Q1 & Q2 & _).
      destruct (pos_facts d stop _ _ _ HI y x (nbrs_sym d y x Hxy) Ry Rx) as (R1 & R2 & _).
      assert (Ec : t_cycle (S x) = t_cycle (S y)).
      { destruct (Z.eq_dec (t_cycle (S x)) (t_cycle (S y) + 1)) as [E|E]; [destruct (Q2 E) as (K & _); lia|].
        destruct (Z.eq_dec (t_cycle (S y)) (t_cycle (S x) + 1)) as [E'|E']; [destruct (R2 E') as (K & _); lia|]. lia. }
      split; [apply Hidx; simpl; exact Ec|].
      repeat split; try discriminate; intros; assumption.
    - (* go *)
      destruct (go_dec S y x) as [[A B]|Hn]; [|rewrite (p_Go0 _ _ _ _ _ Pxy Hn) in Hc; lia].
      destruct A as (A1 & A2 & A3).
      split; [apply Hidx; reflexivity|].
      repeat split; try discriminate; intros; assumption.
  Qed.
  End W.

  Section W2.
  Variable rn : node -> bool.
  Variable S : node -> m2st.
  Variable pd : node -> node -> list m2msg.
  Hypothesis HI : InvA rn S pd.
  Hypothesis HP : InvP rn S pd.

  Lemma in_to_y2 b m0 (o2 : list (node * m2msg)) : In m0 (to_y2 b o2) <-> In (b, m0) o2.
  Proof.
    unfold to_y2. rewrite in_map_iff. split.
    - intros [[b' m'] [E H]]. simpl in E. subst m'. apply filter_In in H as [H Hb]. simpl in Hb.
      apply Z.eqb_eq in Hb. subst b'. exact H.
    - intros H. exists (b, m0). split; [reflexivity|]. apply filter_In. split; [exact H|]. simpl. apply Z.eqb_refl.
  Qed.

  (* a pending message of y keeps its cycle index across a step of y *)
  Lemma old_keep y s2 pd' b0 m0 :
    rn y = true -> nbr y <> [] ->
    InvA rn (updS S y s2) pd' -> (forall b, exists extra, pd' y b = pd y b ++ extra) ->
    (t_cycle s2 = t_cycle (S y) \/ (t_cycle s2 = t_cycle (S y) + 1 /\ t_state s2 = 1)) ->
    In m0 (pd y b0) -> sidx s2 m0 (t_cycle (S b0)) = sidx (S y) m0 (t_cycle (S b0)).
  Proof.
    intros Ry Hact HI' Hext Hcyc Hm.
    pose proof (bag_nbr rn S pd HI y b0 m0 Hm) as Hyb. assert (Hne : b0 <> y) by (intros ->; eapply nbrs_irrefl; eauto).
    destruct (Hext b0) as [extra Epd].
    assert (Hm' : In m0 (pd' y b0)) by (rewrite Epd; apply in_or_app; left; exact Hm).
    pose proof (in_cnt_pos _ _ Hm) as Hc.
    assert (Hc' : forall k, cnt k (pd y b0) <= cnt k (pd' y b0)).
    { intros k. rewrite Epd, cnt_app. pose proof (cnt_nonneg k extra). lia. }
    pose proof (i_pair _ _ _ _ _ HI y b0 Hyb) as P. pose proof (i_pair _ _ _ _ _ HI' y b0 Hyb) as P'.
    assert (Hle : forall k, cnt k (pd' y b0) <= 1).
    { intros k. exact (cnt_le1A rn (updS S y s2) pd' HI' y b0 k Hyb). }
    destruct m0 as [v|g|f os|ac v g|go]; simpl in Hc |- *.
    - pose proof (p_V _ _ _ _ _ P) as E. pose proof (p_V _ _ _ _ _ P') as E'. unfold SV, CV in E, E'.
      rewrite Ry, updS_same, (updS_other S y s2 b0 Hne) in E'. rewrite Ry in E.
      specialize (Hc' 1). specialize (Hle 1). lia.
    - pose proof (p_G _ _ _ _ _ P) as E. pose proof (p_G _ _ _ _ _ P') as E'. unfold SG, CG in E, E'.
      rewrite Ry, updS_same, (updS_other S y s2 b0 Hne) in E'. rewrite Ry in E.
      specialize (Hc' 4). specialize (Hle 4). lia.
    - pose proof (p_O _ _ _ _ _ P) as E. pose proof (p_O _ _ _ _ _ P') as E'. unfold SO, CO in E, E'.
      rewrite Ry, updS_same, (updS_other S y s2 b0 Hne) in E'. rewrite Ry in E.
      specialize (Hc' 2). specialize (Hle 2). lia.
    - destruct Hcyc as [E|[E K]]; [exact E|exfalso].
      pose proof (in_cnt_pos _ _ Hm') as Hp. simpl in Hp.
      rewrite (p_A0 _ _ _ _ _ P') in Hp; [lia|]. intros [_ B]. rewrite updS_same, K in B. lia.
    - reflexivity.
  Qed.
  Lemma pstep y x m l1 l2 s2 o2 e2 :
    rn y = true -> pd x y = l1 ++ m :: l2 -> kind_of m = t_state (S y) ->
    mstep d stop thr favor y (S y) x m = (s2, o2, e2) ->
    InvA rn (updS S y s2) (pd_step pd x y (l1 ++ l2) o2) ->
    InvP rn (updS S y s2) (pd_step pd x y (l1 ++ l2) o2).
  Proof.
    intros Ry Hp Hk Hm HI'.
    assert (Hmin : In m (pd x y)) by (rewrite Hp; apply in_or_app; right; left; reflexivity).
    pose proof (bag_nbr rn S pd HI x y m Hmin) as Hxy.
    assert (Hne : x <> y) by (intros ->; eapply nbrs_irrefl; eauto).
    pose proof (act_of d x y Hxy) as Hact.
    pose proof (i_good _ _ _ _ _ HI y Ry Hact) as Gy. pose proof (g_c _ _ _ _ Gy) as Cy.
    pose proof (i_good _ _ _ _ _ HI' y Ry Hact) as G2. rewrite updS_same in G2.
    destruct (recv_facts rn S pd HI HP y x m l1 l2 Ry Hp Hk) as (Hr & F1 & F2 & F4 & F3 & F5).
    pose proof (mstep_pay d stop thr favor (AC (t_cycle (S y))) (OC (t_cycle (S y))) y (S y) x m s2 o2 e2 Gy
                  (q_node _ _ _ HP y Ry Hact) Hxy Hk Hr F1 F2 F4 F3 F5 Hm) as Hpost.
    set (c := t_cycle (S y)) in *.
    set (pd' := pd_step pd x y (l1 ++ l2) o2) in *.
    assert (Hext : forall b, exists extra, pd' y b = pd y b ++ extra).
    { intros b. exists (to_y2 b o2). apply pd_step_send. }
    assert (Hin_in : forall a0, a0 <> y -> forall m0, In m0 (pd' a0 y) -> In m0 (pd a0 y)).
    { intros a0 Ha0 m0. destruct (pd_step_recv pd x y l1 m l2 o2 a0 Hp Ha0) as [_ Hi]. apply Hi. }
    assert (Hcyc : t_cycle s2 = c \/ (t_cycle s2 = c + 1 /\ t_state s2 = 1)).
    { destruct Hpost as [(E & _)|((_ & _ & K & E & _) & _)]; [left; exact E|right; split; assumption]. }
    assert (Hpay2 : payc y s2).
    { destruct Hpost as [(E & P2 & _)|(F & K4 & Ho & _)].
      - unfold P_Mgm2pA.payc. rewrite E. exact P2.
      - apply (fresh_payc d thr favor orc y (S y) s2 Hact Cy F Ho). }
    constructor.
    - intros n Rn Hn. destruct (Z.eq_dec n y) as [->|Hny]; [rewrite updS_same; exact Hpay2|].
      rewrite updS_other by assumption. apply (q_node _ _ _ HP n Rn Hn).
    - intros n Rn Hn. assert (Hny : n <> y) by (intros ->; contradiction).
      rewrite updS_other by assumption. apply (q_iso _ _ _ HP n Rn Hn).
    - intros a0 b0 m0 Hm0. unfold pmsg.
      destruct (Z.eq_dec a0 y) as [->|Ha0].
      + (* a message of y *)
        pose proof (bag_nbr rn _ _ HI' y b0 m0 Hm0) as Hyb.
        assert (Hb0 : b0 <> y) by (intros ->; eapply nbrs_irrefl; eauto).
        rewrite updS_same, (updS_other S y s2 b0 Hb0).
        unfold pd' in Hm0. rewrite pd_step_send in Hm0. apply in_app_or in Hm0 as [Hold|Hnew].
        * rewrite (old_keep y s2 pd' b0 m0 Ry Hact HI' Hext Hcyc Hold).
          apply (q_bag _ _ _ HP y b0 m0 Hold).
        * apply in_to_y2 in Hnew.
          destruct Hpost as [(E & _ & Ho)|(F & K4 & _ & Ho)].
          -- destruct (Ho b0 m0 Hnew) as (R & N1 & K2 & K4 & K5).
             assert (Hs : sidx s2 m0 (t_cycle (S b0)) = c); [|unfold rmsg; rewrite Hs; exact R].
             destruct m0 as [v|g|f os|ac v g|go]; simpl in N1, K2, K4, K5 |- *.
             ++ congruence.
             ++ rewrite E, (K4 eq_refl). unfold c. simpl b2z. lia.
             ++ rewrite E, (K2 eq_refl). unfold c. simpl b2z. lia.
             ++ exact E.
             ++ destruct (K5 eq_refl) as (Hc & Hpa & Hst).
                destruct (p_L _ _ _ _ _ (i_pair _ _ _ _ _ HI y b0 Hyb) Hc Hpa) as [[_ H5]|[Hcb _]]; [lia|exact Hcb].
          -- destruct (Ho b0 m0 Hnew) as (-> & Hd). destruct F as (_ & _ & _ & F4' & _).
             unfold rmsg, refmsg. simpl sidx.
             rewrite (g_fin _ _ _ _ G2), F4'. change (t_cycle (S y)) with c in Hd. fold c. rewrite Hd. simpl b2z.
             replace (c + 1 - 0) with (c + 1) by lia. rewrite (AC_next d thr favor orc c Cy). reflexivity.
      + destruct (Z.eq_dec b0 y) as [->|Hb0].
        * (* a message to y *)
          rewrite (updS_other S y s2 a0 Ha0), updS_same.
          pose proof (Hin_in a0 Ha0 m0 Hm0) as Hold. pose proof (q_bag _ _ _ HP a0 y m0 Hold) as Hq. unfold pmsg in Hq.
          destruct Hcyc as [E|[E K]]; [rewrite E; exact Hq|].
          destruct m0 as [v|g|f os|ac v g|go]; try exact Hq.
          exfalso. pose proof (bag_nbr rn _ _ HI' a0 y _ Hm0) as Hay.
          pose proof (in_cnt_pos _ _ Hm0) as Hpos. simpl in Hpos.
          rewrite (p_Go0 _ _ _ _ _ (i_pair _ _ _ _ _ HI' a0 y Hay)) in Hpos; [lia|].
          intros [(_ & _ & B) _]. rewrite updS_same, K in B. lia.
        * rewrite (updS_other S y s2 a0 Ha0), (updS_other S y s2 b0 Hb0).
          unfold pd' in Hm0. rewrite pd_step_other in Hm0 by assumption. apply (q_bag _ _ _ HP a0 b0 m0 Hm0).
  Qed.
  Lemma start_iso_val y s : nbr y = [] -> t_orc s = orc y ->
    t_value (fst (fst (start0 d stop thr favor y s))) = Some (init_val2 d orc y) /\
    snd (fst (start0 d stop thr favor y s)) = [].
  Proof.
    intros Hiso Ho. unfold start0, init_val2. rewrite Hiso. unfold mgm2_start. rewrite Hiso.
    destruct (compute_best_value2 d y []) as [vals cost]. rewrite Ho.
    destruct (draw (orc y)) as [x o1]. unfold value_selection2, andthen2. destruct s; cbn. split; reflexivity.
  Qed.

  Lemma pstart y s2 o2 e2 : rn y = false -> S y = mgm2_init orc y -> start0 d stop thr favor y (S y) = (s2, o2, e2) ->
    InvA (start_rn rn y) (updS S y s2) (pd_start pd y o2) ->
    InvP (start_rn rn y) (updS S y s2) (pd_start pd y o2).
  Proof.
    intros Ry Hinit Hs HI'.
    assert (Hold : forall b m0, In m0 (pd y b) -> False).
    { intros b m0 H. pose proof (pend_running rn S pd HI y b m0 H). congruence. }
    assert (Hvals : nbr y <> [] -> payc y s2 /\ t_cycle s2 = 1 /\
                    forall b m0, In (b, m0) o2 -> m0 = M2Value (init_val2 d orc y) /\ doneb 1 = false).
    { intros Hact. destruct (start_payc d stop thr favor orc y Hact) as (s' & evs & E & P & C & K).
      rewrite Hinit, E in Hs. injection Hs as <- <- <-. split; [exact P|split; [exact C|]].
      intros b m0 Hin. apply in_map_iff in Hin as [t [Et Hin]]. injection Et as <- <-. split; [reflexivity|].
      destruct (doneb 1); [destruct Hin|reflexivity]. }
    constructor.
    - intros n Rn Hn. destruct (Z.eq_dec n y) as [->|Hny]; [rewrite updS_same; apply (Hvals Hn)|].
      rewrite updS_other by assumption. rewrite start_rn_other in Rn by assumption. apply (q_node _ _ _ HP n Rn Hn).
    - intros n Rn Hn. destruct (Z.eq_dec n y) as [->|Hny].
      + rewrite updS_same. pose proof (start_iso_val y (S y) Hn) as [Hv _]; [rewrite Hinit; reflexivity|].
        rewrite Hs in Hv. exact Hv.
      + rewrite updS_other by assumption. rewrite start_rn_other in Rn by assumption. apply (q_iso _ _ _ HP n Rn Hn).
    - intros a0 b0 m0 Hm0. unfold pmsg.
      destruct (Z.eq_dec a0 y) as [->|Ha0].
      + rewrite pd_start_same in Hm0. apply in_app_or in Hm0 as [H|H]; [destruct (Hold b0 m0 H)|].
        apply in_to_y2 in H.
        destruct (nbr y) as [|z r] eqn:En.
        * exfalso. pose proof (start_iso_val y (S y) En) as [_ Ho]; [rewrite Hinit; reflexivity|].
          rewrite Hs in Ho. simpl in Ho. subst o2. exact H.
        * assert (Hact : nbr y <> []) by (rewrite En; discriminate). rewrite <- En in *.
          destruct (Hvals Hact) as (_ & C & Ho). destruct (Ho b0 m0 H) as [-> Hd].
          pose proof (i_good _ _ _ _ _ HI' y (start_rn_same rn y) Hact) as G2. rewrite updS_same in G2.
          rewrite updS_same. unfold rmsg, refmsg. simpl sidx. rewrite (g_fin _ _ _ _ G2), C, Hd. reflexivity.
      + rewrite pd_start_other in Hm0 by assumption. rewrite (updS_other S y s2 a0 Ha0).
        pose proof (q_bag _ _ _ HP a0 b0 m0 Hm0) as Hq. unfold pmsg in Hq.
        destruct (Z.eq_dec b0 y) as [->|Hb0]; [|rewrite (updS_other S y s2 b0 Hb0); exact Hq].
        destruct m0 as [v|g|f os|ac v g|go]; try exact Hq.
        exfalso. pose proof (bag_nbr rn S pd HI a0 y _ Hm0) as Hay.
        pose proof (in_cnt_pos _ _ Hm0) as Hpos. simpl in Hpos.
        rewrite (p_Go0 _ _ _ _ _ (i_pair _ _ _ _ _ HI a0 y Hay)) in Hpos; [lia|].
        intros [(B & _) _]. rewrite Hinit in B. discriminate.
  Qed.
  End W2.
End PayInv.
