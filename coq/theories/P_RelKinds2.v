(* P_RelKinds2.v -- C11 deepening: conditional relations (call forms, slice spec, slice
   composition, all for EVERY partial assignment, deciding the condition or not).
   Proofs only; the model is M_RelKinds, the non-conditional lemmas are in P_RelKinds. *)
From PyDcop Require Import Base M_RelKinds P_RelKinds.
From Coq Require Import Permutation.
Open Scope Z_scope.

(* ================= well-formed conditional relations ================= *)
(* what ConditionalRelation(c, t) needs: both parts well-formed, and a variable name used by
   both parts denotes the SAME Variable object (same domain): Variable.__eq__ compares name and
   domain, `v not in dims` / `v in sub.dimensions` use it. *)
Definition wf_cond (c t : brel) : Prop :=
  wf_b c /\ wf_b t /\
  forall v v', In v (bdims c) -> In v' (bdims t) -> vname v = vname v' -> v = v'.

Definition wf (r : rel) : Prop :=
  match r with RBase b => wf_b b | RCond c t _ => wf_cond c t end.

(* a completion: a dict (distinct keys) whose key set is exactly the given names *)
Definition complete_for (d : asg) (ns : list Z) : Prop :=
  NoDup (map fst d) /\ forall k, In k (map fst d) <-> In k ns.

(* ================= generic lemmas ================= *)
Lemma insert_sorted_perm {A} (leb : A -> A -> bool) x l : Permutation (insert_sorted leb x l) (x :: l).
Proof.
  induction l as [|y l IH]; simpl; auto. destruct (leb x y); auto.
  eapply perm_trans; [apply perm_skip, IH | apply perm_swap].
Qed.

Lemma isort_perm {A} (leb : A -> A -> bool) l : Permutation (isort leb l) l.
Proof.
  induction l as [|x l IH]; simpl; auto.
  eapply perm_trans; [apply insert_sorted_perm | now apply perm_skip].
Qed.

Lemma perm_filter {A} (f : A -> bool) l l' : Permutation l l' -> Permutation (filter f l) (filter f l').
Proof.
  induction 1; simpl; auto.
  - destruct (f x); auto.
  - destruct (f x), (f y); auto. apply perm_swap.
  - eapply perm_trans; eauto.
Qed.

Lemma NoDup_app_intro {A} (a b : list A) :
  NoDup a -> NoDup b -> (forall x, In x a -> ~ In x b) -> NoDup (a ++ b).
Proof.
  induction a as [|x a IH]; simpl; intros Ha Hb Hd; auto.
  inversion Ha as [|? ? Hni Ha']; subst. constructor.
  - intros Hin. apply in_app_or in Hin as [Hin|Hin]; [auto | eapply Hd; eauto].
  - apply IH; auto.
Qed.

Lemma NoDup_keys_NoDup (d : asg) : NoDup (map fst d) -> NoDup d.
Proof. apply NoDup_map_inv. Qed.

Lemma lookup_eq_perm (d d' : asg) :
  NoDup (map fst d) -> NoDup (map fst d') -> (forall k, zlookup k d = zlookup k d') -> Permutation d d'.
Proof.
  intros H1 H2 Hl. apply NoDup_Permutation; try now apply NoDup_keys_NoDup.
  intros [k v]. split; intros Hin.
  - apply zlookup_In. rewrite <- Hl. now apply In_zlookup.
  - apply zlookup_In. rewrite Hl. now apply In_zlookup.
Qed.

Lemma zlookup_filter_key (P : Z -> bool) (l : asg) k :
  zlookup k (filter (fun kv => P (fst kv)) l) = if P k then zlookup k l else None.
Proof.
  induction l as [|[n a] l IH]; simpl; [now destruct (P k)|].
  destruct (P n) eqn:E; unfold zlookup in *; simpl.
  - destruct (k =? n) eqn:E2; auto. apply Z.eqb_eq in E2; subst. now rewrite E.
  - rewrite IH. destruct (k =? n) eqn:E2; auto. apply Z.eqb_eq in E2; subst. now rewrite E.
Qed.

Lemma has_key_filter_key (P : Z -> bool) (l : asg) k :
  has_key k (filter (fun kv => P (fst kv)) l) = P k && has_key k l.
Proof. rewrite !has_key_lookup, zlookup_filter_key. destruct (P k); auto. Qed.

Lemma keys_filter_nodup (P : Z -> bool) (l : asg) :
  NoDup (map fst l) -> NoDup (map fst (filter (fun kv => P (fst kv)) l)).
Proof. intros H. rewrite (map_fst_filter P). now apply NoDup_filter. Qed.

Lemma var_eqb_iff (a b : var) : var_eqb a b = true <-> a = b.
Proof.
  destruct a as [n d], b as [n' d']. unfold var_eqb. simpl. rewrite andb_true_iff, Z.eqb_eq.
  rewrite (list_eqb_spec Z.eqb) by (intros; apply Z.eqb_eq). split; [intros [-> ->]; auto | intros H; inversion H; auto].
Qed.

Lemma existsb_var_eqb v l : existsb (var_eqb v) l = true <-> In v l.
Proof.
  rewrite existsb_exists. split.
  - intros [x [Hx E]]. apply var_eqb_iff in E. now subst.
  - intros H. exists v. split; auto. now apply var_eqb_iff.
Qed.

Lemma remaining_remaining p1 p2 vs : remaining p2 (remaining p1 vs) = remaining (p1 ++ p2) vs.
Proof.
  unfold remaining. rewrite filter_filter. apply filter_ext_in'. intros v _.
  rewrite has_key_app. now rewrite negb_orb.
Qed.

Lemma remaining_ext p p' vs :
  (forall v, In v vs -> has_key (vname v) p = has_key (vname v) p') -> remaining p vs = remaining p' vs.
Proof. intros H. unfold remaining. apply filter_ext_in'. intros v Hv. now rewrite H. Qed.

Lemma In_remaining v p vs : In v (remaining p vs) <-> In v vs /\ has_key (vname v) p = false.
Proof. unfold remaining. rewrite filter_In, negb_true_iff. tauto. Qed.

(* ================= non-conditional kinds: more facts ================= *)
Lemma wf_b_names_nodup b : wf_b b -> NoDup (bnames b).
Proof.
  destruct b; unfold bnames; simpl; intros H.
  - constructor.
  - repeat constructor. simpl. tauto.
  - repeat constructor. simpl. tauto.
  - apply H.
  - rewrite map_map. exact H.
  - exact H.
Qed.

Lemma bgv_dict_perm b d d' :
  wf_b b -> NoDup (map fst d) -> Permutation d d' -> bgv_dict b d = bgv_dict b d'.
Proof.
  intros Hwf Hnd Hp. destruct b; simpl.
  - now rewrite (is_nil_perm _ _ Hp).
  - now rewrite (zlookup_perm _ _ Hnd Hp).
  - now rewrite (zlookup_perm _ _ Hnd Hp).
  - destruct (wf_fun_facts _ _ _ _ Hwf) as (_ & Hs & _). now apply fun_gv_dict_perm.
  - unfold mat_gv_dict. now rewrite (slice_mat_perm _ _ _ _ _ Hnd Hp).
  - reflexivity.
Qed.

(* r( **kw ) with as many keywords as the relation has variables is get_value_for_assignment *)
Lemma bcall_kw_full b kw : List.length kw = List.length (bdims b) -> bcall_kw b kw = bgv_dict b kw.
Proof.
  intros Hl. unfold bcall_kw. destruct kw as [|kv kw]; simpl is_nil; cbv iota.
  - destruct b; simpl in *; try discriminate; auto.
    + destruct vars; [reflexivity | discriminate].
    + destruct dims; [reflexivity | discriminate].
  - destruct b; simpl in *; try discriminate; auto.
    + destruct kw; [reflexivity | discriminate].
    + destruct kw; [reflexivity | discriminate].
Qed.

Lemma bcall_kw_perm b a a' :
  wf_b b -> NoDup (map fst a) -> List.length a = List.length (bdims b) -> Permutation a a' ->
  bcall_kw b a = bcall_kw b a'.
Proof.
  intros Hwf Hnd Hl Hp. rewrite !bcall_kw_full; auto.
  - now apply bgv_dict_perm.
  - now rewrite <- (Permutation_length Hp).
Qed.

(* ----- pick ----- *)
Definition pickf (vs : list var) (d : asg) : asg :=
  map (fun v => (vname v, match zlookup (vname v) d with Some x => x | None => 0 end)) vs.

Lemma pick_spec vs d :
  pick vs d = if forallb (fun v => has_key (vname v) d) vs then Ok (pickf vs d) else Err EKey.
Proof.
  induction vs as [|v vs IH]; simpl; auto.
  rewrite has_key_lookup. destruct (zlookup (vname v) d); simpl; auto.
  rewrite IH. destruct (forallb _ vs); reflexivity.
Qed.

Lemma pickf_keys vs d : map fst (pickf vs d) = map vname vs.
Proof. unfold pickf. rewrite map_map. reflexivity. Qed.

Lemma pickf_length vs d : List.length (pickf vs d) = List.length vs.
Proof. unfold pickf. now rewrite map_length. Qed.

Lemma zlookup_pickf vs d k :
  forallb (fun v => has_key (vname v) d) vs = true ->
  zlookup k (pickf vs d) = if zmem k (map vname vs) then zlookup k d else None.
Proof.
  induction vs as [|v vs IH]; simpl; auto. intros H. apply andb_true_iff in H as [H1 H2].
  unfold zlookup at 1. simpl. fold (@zlookup Z k (pickf vs d)). unfold zmem. simpl. fold (zmem k (map vname vs)).
  destruct (k =? vname v) eqn:E; simpl.
  - apply Z.eqb_eq in E; subst. rewrite has_key_lookup in H1. unfold zlookup in *.
    now destruct (lookup Z.eqb (vname v) d).
  - now apply IH.
Qed.

(* the condition's (consequence's) own part of an assignment that covers its variables, in
   any order: what pick builds is a permutation of what filtering builds *)
Lemma pick_perm_part b d :
  NoDup (bnames b) -> NoDup (map fst d) -> (forall n, In n (bnames b) -> In n (map fst d)) ->
  pick (bdims b) d = Ok (pickf (bdims b) d) /\ Permutation (pickf (bdims b) d) (cond_part b d).
Proof.
  intros Hb Hd Hcov.
  assert (Hall : forallb (fun v => has_key (vname v) d) (bdims b) = true).
  { apply forallb_forall. intros v Hv. apply has_key_iff, Hcov. unfold bnames. now apply in_map. }
  split; [now rewrite pick_spec, Hall|].
  apply lookup_eq_perm.
  - now rewrite pickf_keys.
  - unfold cond_part. now apply (keys_filter_nodup (fun k => zmem k (bnames b))).
  - intros k. rewrite zlookup_pickf by auto. unfold cond_part.
    now rewrite (zlookup_filter_key (fun k => zmem k (bnames b))).
Qed.

Lemma cond_part_perm b d d' : Permutation d d' -> Permutation (cond_part b d) (cond_part b d').
Proof. apply perm_filter. Qed.

Lemma cond_part_app b p d : cond_part b (p ++ d) = cond_part b p ++ cond_part b d.
Proof. unfold cond_part. apply filter_app. Qed.

Lemma cond_part_keys_nodup b d : NoDup (map fst d) -> NoDup (map fst (cond_part b d)).
Proof. apply (keys_filter_nodup (fun k => zmem k (bnames b))). Qed.

Lemma has_key_cond_part b d k : has_key k (cond_part b d) = zmem k (bnames b) && has_key k d.
Proof. apply (has_key_filter_key (fun k => zmem k (bnames b))). Qed.

Lemma cond_part_keys_in b d k : In k (map fst (cond_part b d)) -> In k (bnames b) /\ In k (map fst d).
Proof.
  intros H. apply has_key_iff in H. rewrite has_key_cond_part in H. apply andb_true_iff in H as [H1 H2].
  split; [now apply zmem_iff | now apply has_key_iff].
Qed.

(* ================= dimensions of a conditional ================= *)
Definition cond_raw (c t : brel) : list var :=
  bdims c ++ filter (fun v => negb (existsb (var_eqb v) (bdims c))) (bdims t).

Lemma cond_dims_perm c t : Permutation (cond_dims c t) (cond_raw c t).
Proof. apply isort_perm. Qed.

Lemma In_cond_raw c t v : In v (cond_raw c t) <-> In v (bdims c) \/ In v (bdims t).
Proof.
  unfold cond_raw. rewrite in_app_iff, filter_In, negb_true_iff. split.
  - tauto.
  - intros [H|H]; auto. destruct (existsb (var_eqb v) (bdims c)) eqn:E; auto.
    left. now apply existsb_var_eqb.
Qed.

Lemma In_cond_dims c t v : In v (cond_dims c t) <-> In v (bdims c) \/ In v (bdims t).
Proof.
  rewrite <- In_cond_raw. split; apply Permutation_in; [|apply Permutation_sym]; apply cond_dims_perm.
Qed.

Lemma In_cond_names c t n : In n (map vname (cond_dims c t)) <-> In n (bnames c) \/ In n (bnames t).
Proof.
  unfold bnames. rewrite !in_map_iff. split.
  - intros [v [E H]]. apply In_cond_dims in H as [H|H]; [left|right]; eauto.
  - intros [[v [E H]]|[v [E H]]]; exists v; split; auto; apply In_cond_dims; auto.
Qed.

Lemma cond_names_nodup c t : wf_cond c t -> NoDup (map vname (cond_dims c t)).
Proof.
  intros (Hc & Ht & Hs).
  eapply Permutation_NoDup; [apply Permutation_map, Permutation_sym, cond_dims_perm|].
  unfold cond_raw. rewrite map_app. apply NoDup_app_intro.
  - now apply wf_b_names_nodup.
  - apply NoDup_map_filter. now apply wf_b_names_nodup.
  - intros n Hn Hn'. apply in_map_iff in Hn as [v [E Hv]]. apply in_map_iff in Hn' as [v' [E' Hv']].
    apply filter_In in Hv' as [Hv' Hne]. apply negb_true_iff in Hne.
    assert (v = v') by (apply Hs; auto; congruence). subst v'.
    apply existsb_var_eqb in Hv. congruence.
Qed.

(* membership tests by Variable equality coincide with tests by name *)
Lemma cond_member_by_name c t v :
  wf_cond c t -> In v (cond_dims c t) ->
  existsb (var_eqb v) (bdims c) = zmem (vname v) (bnames c) /\
  existsb (var_eqb v) (bdims t) = zmem (vname v) (bnames t).
Proof.
  intros (Hc & Ht & Hs) Hv. apply In_cond_dims in Hv.
  pose proof (wf_b_names_nodup _ Hc) as Nc. pose proof (wf_b_names_nodup _ Ht) as Nt.
  split; apply bool_eq_iff; rewrite existsb_var_eqb, zmem_iff; unfold bnames; rewrite in_map_iff.
  - split; [intros H; eauto|]. intros [v' [E Hv']]. destruct Hv as [Hv|Hv].
    + assert (v' = v); [|now subst].
      clear - Nc E Hv Hv'. unfold bnames in Nc. induction (bdims c) as [|x l IH]; [contradiction|].
      simpl in Nc. inversion Nc as [|? ? Hni Nc']; subst. destruct Hv as [->|Hv], Hv' as [->|Hv']; auto.
      * exfalso. apply Hni. rewrite <- E. now apply in_map.
      * exfalso. apply Hni. rewrite E. now apply in_map.
    + assert (v' = v) by (apply Hs; auto). now subst.
  - split; [intros H; eauto|]. intros [v' [E Hv']]. destruct Hv as [Hv|Hv].
    + assert (v = v') by (apply Hs; auto). now subst.
    + assert (v' = v); [|now subst].
      clear - Nt E Hv Hv'. unfold bnames in Nt. induction (bdims t) as [|x l IH]; [contradiction|].
      simpl in Nt. inversion Nt as [|? ? Hni Nt']; subst. destruct Hv as [->|Hv], Hv' as [->|Hv']; auto.
      * exfalso. apply Hni. rewrite <- E. now apply in_map.
      * exfalso. apply Hni. rewrite E. now apply in_map.
Qed.

Lemma zip_filter_names ds l sub :
  (forall v, In v ds -> existsb (var_eqb v) sub = zmem (vname v) (map vname sub)) ->
  zip_filter ds l sub = filter (fun kv => zmem (fst kv) (map vname sub)) (combine (map vname ds) l).
Proof.
  unfold zip_filter. revert l. induction ds as [|v ds IH]; intros [|x l] H; simpl; auto.
  rewrite H by (simpl; auto). destruct (zmem (vname v) (map vname sub)); simpl; rewrite IH; auto;
    intros; apply H; simpl; auto.
Qed.

(* ================= (1) call forms of a conditional relation ================= *)
(* all evaluation forms reduce to this one, [full] being the full assignment *)
Definition cond_eval (c t : brel) (full : asg) : res Z :=
  do cv <- bcall_kw c (cond_part c full);
  if truthy cv then bcall_kw t (cond_part t full) else Ok 0.

Lemma cond_gv_list_eval c t vals :
  wf_cond c t -> cond_gv_list c t vals = cond_eval c t (combine (map vname (cond_dims c t)) vals).
Proof.
  intros Hwf. unfold cond_gv_list, cond_eval, cond_part.
  rewrite !zip_filter_names; auto; intros v Hv; now apply (cond_member_by_name c t v Hwf).
Qed.

Lemma cond_gv_dict_eval c t d :
  wf_cond c t -> NoDup (map fst d) ->
  (forall n, In n (map vname (cond_dims c t)) -> In n (map fst d)) ->
  cond_gv_dict c t d = cond_eval c t d.
Proof.
  intros Hwf Hnd Hcov. pose proof Hwf as (Hc & Ht & _).
  destruct (pick_perm_part c d) as [Pc Qc]; auto using wf_b_names_nodup.
  { intros n Hn. apply Hcov, In_cond_names. auto. }
  destruct (pick_perm_part t d) as [Pt Qt]; auto using wf_b_names_nodup.
  { intros n Hn. apply Hcov, In_cond_names. auto. }
  unfold cond_gv_dict, cond_eval. rewrite Pc. simpl.
  rewrite (bcall_kw_perm c (pickf (bdims c) d) (cond_part c d) Hc); auto.
  2:{ now rewrite pickf_keys; apply wf_b_names_nodup. }
  2:{ apply pickf_length. }
  destruct (bcall_kw c (cond_part c d)); simpl; auto. destruct (truthy a); auto.
  rewrite Pt. simpl. apply bcall_kw_perm; auto.
  - now rewrite pickf_keys; apply wf_b_names_nodup.
  - apply pickf_length.
Qed.

Lemma cond_part_full_length b d :
  wf_b b -> NoDup (map fst d) -> (forall n, In n (bnames b) -> In n (map fst d)) ->
  List.length (cond_part b d) = List.length (bdims b).
Proof.
  intros Hwf Hnd Hcov. destruct (pick_perm_part b d) as [_ Q]; auto using wf_b_names_nodup.
  rewrite <- (Permutation_length Q). apply pickf_length.
Qed.

Lemma cond_eval_perm c t d d' :
  wf_cond c t -> NoDup (map fst d) ->
  (forall n, In n (map vname (cond_dims c t)) -> In n (map fst d)) ->
  Permutation d d' -> cond_eval c t d = cond_eval c t d'.
Proof.
  intros Hwf Hnd Hcov Hp. pose proof Hwf as (Hc & Ht & _). unfold cond_eval.
  rewrite (bcall_kw_perm c (cond_part c d) (cond_part c d')); auto.
  - destruct (bcall_kw c (cond_part c d')); simpl; auto. destruct (truthy a); auto.
    apply bcall_kw_perm; auto.
    + now apply cond_part_keys_nodup.
    + apply cond_part_full_length; auto. intros n Hn. apply Hcov, In_cond_names. auto.
    + now apply cond_part_perm.
  - now apply cond_part_keys_nodup.
  - apply cond_part_full_length; auto. intros n Hn. apply Hcov, In_cond_names. auto.
  - now apply cond_part_perm.
Qed.

Lemma cond_call_forms_agree_l c t rn vals kw :
  wf_cond c t -> List.length vals = List.length (dims (RCond c t rn)) ->
  Permutation kw (combine (names (RCond c t rn)) vals) ->
  call_kw (RCond c t rn) kw = call_pos (RCond c t rn) vals /\
  gv_dict (RCond c t rn) kw = call_pos (RCond c t rn) vals /\
  gv_list (RCond c t rn) vals = call_pos (RCond c t rn) vals /\
  (forall o, call_dictarg (RCond c t rn) kw = Some o -> o = call_pos (RCond c t rn) vals).
Proof.
  intros Hwf Hl Hp. unfold names in Hp. simpl in *.
  set (full := combine (map vname (cond_dims c t)) vals) in *.
  assert (Hkeys : map fst full = map vname (cond_dims c t)).
  { unfold full. apply map_fst_combine. now rewrite map_length. }
  assert (Hnf : NoDup (map fst full)) by (rewrite Hkeys; now apply cond_names_nodup).
  assert (Hnk : NoDup (map fst kw)) by (eapply perm_keys_nodup; eauto).
  assert (Hcov : forall n, In n (map vname (cond_dims c t)) -> In n (map fst kw)).
  { intros n Hn. rewrite <- Hkeys in Hn. eapply Permutation_in; [apply Permutation_map, Permutation_sym|]; eauto. }
  assert (E : cond_gv_dict c t kw = cond_gv_list c t vals).
  { rewrite cond_gv_dict_eval, cond_gv_list_eval; auto. now apply cond_eval_perm. }
  assert (E2 : (if is_nil kw then cond_gv_list c t [] else cond_gv_dict c t kw) = cond_gv_list c t vals).
  { destruct kw as [|kv kw']; simpl; auto.
    apply Permutation_nil in Hp. unfold full in Hp.
    destruct (map vname (cond_dims c t)) eqn:En, vals; simpl in *; try discriminate; auto.
    apply map_eq_nil in En. rewrite En in Hl. discriminate. }
  repeat split; auto. intros o Ho. inversion Ho; subst. exact E2.
Qed.

(* all 8 kinds *)
Lemma call_forms_agree_all_l r vals kw :
  wf r -> List.length vals = List.length (dims r) ->
  Permutation kw (combine (names r) vals) ->
  call_kw r kw = call_pos r vals /\ gv_dict r kw = call_pos r vals /\ gv_list r vals = call_pos r vals /\
  (forall o, call_dictarg r kw = Some o -> o = call_pos r vals).
Proof.
  destruct r as [b|c t rn]; intros Hwf.
  - now apply call_forms_agree_l.
  - now apply cond_call_forms_agree_l.
Qed.

(* ================= (2) slice of a conditional relation: every partial assignment ================= *)
(* ConditionalRelation.slice, the `if cond_args:` / `if slice_dict:` tests folded away
   (slicing on {} returns the relation itself) *)
Lemma cond_slice_unfold c t rn p :
  cond_slice c t rn p =
  if Nat.eqb (List.length (cond_part c p)) (List.length (bdims c)) then
    do cv <- bcall_kw c (cond_part c p);
    if truthy cv then (do s <- bslice t (cond_part t p); Ok (RBase s))
    else if rn then Ok (RBase (RNeutral (remaining p (bdims t)))) else Ok (RBase (RZero 0))
  else
    do sc <- bslice c (cond_part c p); do st <- bslice t (cond_part t p); Ok (RCond sc st rn).
Proof.
  unfold cond_slice. fold (cond_part c p). fold (cond_part t p). fold (remaining p (bdims t)).
  destruct (Nat.eqb _ _).
  - destruct (bcall_kw c (cond_part c p)); simpl; auto. destruct (truthy a); auto.
    destruct (cond_part t p); simpl is_nil; cbv iota; auto. now rewrite bslice_nil.
  - assert (E1 : (if is_nil (cond_part c p) then Ok c else bslice c (cond_part c p)) = bslice c (cond_part c p)).
    { destruct (cond_part c p); simpl is_nil; cbv iota; auto. now rewrite bslice_nil. }
    assert (E2 : (if is_nil (cond_part t p) then Ok t else bslice t (cond_part t p)) = bslice t (cond_part t p)).
    { destruct (cond_part t p); simpl is_nil; cbv iota; auto. now rewrite bslice_nil. }
    now rewrite E1, E2.
Qed.

Lemma has_key_part_on b p n : In n (bnames b) -> has_key n (cond_part b p) = has_key n p.
Proof. intros H. rewrite has_key_cond_part. apply zmem_iff in H. now rewrite H. Qed.

Lemma remaining_part b p : remaining (cond_part b p) (bdims b) = remaining p (bdims b).
Proof.
  apply remaining_ext. intros v Hv. apply has_key_part_on. unfold bnames. now apply in_map.
Qed.

Lemma bslice_part_dims b p s : bslice b (cond_part b p) = Ok s -> bdims s = remaining p (bdims b).
Proof. intros H. apply bslice_dims_l in H. now rewrite remaining_part in H. Qed.

Lemma In_names_remaining n p vs :
  In n (map vname (remaining p vs)) <-> In n (map vname vs) /\ has_key n p = false.
Proof. rewrite remaining_names, filter_In, negb_true_iff. tauto. Qed.

Lemma filter_all {A} (f : A -> bool) l : (forall x, In x l -> f x = true) -> filter f l = l.
Proof. induction l; simpl; auto. intros H. rewrite H by auto. f_equal. auto. Qed.

Lemma filter_none {A} (f : A -> bool) l : (forall x, In x l -> f x = false) -> filter f l = [].
Proof. induction l; simpl; auto. intros H. rewrite H by auto. auto. Qed.

Lemma cond_part_all b d : (forall k, In k (map fst d) -> In k (bnames b)) -> cond_part b d = d.
Proof.
  intros H. apply filter_all. intros [k x] Hin. apply zmem_iff, H. simpl.
  change k with (fst (k, x)). now apply in_map.
Qed.

Lemma cond_part_none b d : (forall k, In k (map fst d) -> ~ In k (bnames b)) -> cond_part b d = [].
Proof.
  intros H. apply filter_none. intros [k x] Hin. simpl. destruct (zmem k (bnames b)) eqn:E; auto.
  apply zmem_iff in E. exfalso. apply (H k); auto. change k with (fst (k, x)). now apply in_map.
Qed.

Lemma NoDup_keys_app (p d : asg) :
  NoDup (map fst p) -> NoDup (map fst d) -> (forall k, In k (map fst p) -> ~ In k (map fst d)) ->
  NoDup (map fst (p ++ d)).
Proof. intros. rewrite map_app. now apply NoDup_app_intro. Qed.

(* the heart of the matter: evaluating the slice of a part on its share of a completion d is
   evaluating the part on its share of p ++ d *)
Lemma slice_part_value b p d s :
  wf_b b -> NoDup (map fst p) -> NoDup (map fst d) ->
  (forall k, In k (map fst p) -> ~ In k (map fst d)) ->
  bslice b (cond_part b p) = Ok s ->
  (forall n, In n (bnames s) -> In n (map fst d)) ->
  bcall_kw s (cond_part s d) = bcall_kw b (cond_part b (p ++ d)).
Proof.
  intros Hwf Hp Hd Hdisj Hs Hcov.
  pose proof (bslice_part_dims _ _ _ Hs) as Ds.
  assert (Hwfs : wf_b s) by (apply (bslice_wf_l b (cond_part b p) s); auto using cond_part_keys_nodup).
  assert (Ns : forall n, In n (bnames s) <-> In n (bnames b) /\ has_key n p = false).
  { intros n. unfold bnames. rewrite Ds. apply In_names_remaining. }
  assert (Epart : cond_part s d = cond_part b d).
  { unfold cond_part. apply filter_ext_in'. intros [k x] Hin. simpl.
    assert (Hk : In k (map fst d)) by (change k with (fst (k, x)); now apply in_map).
    apply bool_eq_iff. rewrite !zmem_iff, Ns. split; [tauto|]. intros Hb. split; auto.
    apply has_key_false. intros Hkp. now apply (Hdisj k). }
  rewrite bcall_kw_full by (apply cond_part_full_length; auto).
  rewrite (bslice_value_l b (cond_part b p) s (cond_part s d)); auto.
  2:{ now apply cond_part_keys_nodup. }
  2:{ intros k Hk. now apply cond_part_keys_in in Hk. }
  rewrite Epart, <- cond_part_app. symmetry. apply bcall_kw_full.
  apply cond_part_full_length; auto.
  - now apply NoDup_keys_app.
  - intros n Hn. rewrite map_app, in_app_iff. destruct (has_key n p) eqn:E.
    + left. now apply has_key_iff.
    + right. apply Hcov, Ns. auto.
Qed.

(* a decided condition: every variable of the condition is a key of p *)
Lemma decided_covers c p :
  NoDup (bnames c) -> NoDup (map fst p) ->
  List.length (cond_part c p) = List.length (bdims c) ->
  forall n, In n (bnames c) -> In n (map fst p).
Proof.
  intros Hc Hp Hl n Hn.
  assert (P : Permutation (map fst (cond_part c p)) (bnames c)).
  { apply NoDup_Permutation_bis.
    - now apply cond_part_keys_nodup.
    - unfold bnames. rewrite !map_length. lia.
    - intros k Hk. now apply cond_part_keys_in in Hk. }
  apply Permutation_sym in P. apply (Permutation_in _ P) in Hn. now apply cond_part_keys_in in Hn.
Qed.

(* dimensions: what remains of the union *)
Lemma remaining_cond_raw c t p :
  remaining p (cond_raw c t) =
  remaining p (bdims c) ++
  filter (fun v => negb (existsb (var_eqb v) (remaining p (bdims c)))) (remaining p (bdims t)).
Proof.
  unfold cond_raw, remaining at 1. rewrite filter_app. f_equal.
  unfold remaining. rewrite !filter_filter. apply filter_ext_in'. intros v Hv.
  destruct (has_key (vname v) p) eqn:E; simpl; [now rewrite andb_false_r|].
  rewrite andb_true_r. f_equal. apply bool_eq_iff. rewrite !existsb_var_eqb.
  fold (remaining p (bdims c)). rewrite In_remaining. tauto.
Qed.

Lemma cond_dims_remaining c t p sc st :
  bdims sc = remaining p (bdims c) -> bdims st = remaining p (bdims t) ->
  Permutation (cond_dims sc st) (remaining p (cond_dims c t)).
Proof.
  intros Ec Et. eapply perm_trans; [apply cond_dims_perm|].
  eapply perm_trans; [|apply perm_filter, Permutation_sym, cond_dims_perm].
  fold (remaining p (cond_raw c t)). rewrite remaining_cond_raw. unfold cond_raw. now rewrite Ec, Et.
Qed.

Lemma decided_dims c t p :
  (forall n, In n (bnames c) -> In n (map fst p)) ->
  Permutation (remaining p (bdims t)) (remaining p (cond_dims c t)).
Proof.
  intros Hcov. eapply perm_trans; [|apply perm_filter, Permutation_sym, cond_dims_perm].
  fold (remaining p (cond_raw c t)). rewrite remaining_cond_raw.
  assert (E : remaining p (bdims c) = []).
  { apply filter_none. intros v Hv. apply negb_false_iff, has_key_iff, Hcov. unfold bnames. now apply in_map. }
  rewrite E. simpl. rewrite filter_all; auto.
Qed.

Lemma wf_cond_sliced c t p sc st :
  wf_cond c t -> NoDup (map fst p) ->
  bslice c (cond_part c p) = Ok sc -> bslice t (cond_part t p) = Ok st -> wf_cond sc st.
Proof.
  intros (Hc & Ht & Hs) Hp H1 H2. split; [|split].
  - apply (bslice_wf_l c (cond_part c p) sc); auto using cond_part_keys_nodup.
  - apply (bslice_wf_l t (cond_part t p) st); auto using cond_part_keys_nodup.
  - rewrite (bslice_part_dims _ _ _ H1), (bslice_part_dims _ _ _ H2).
    intros v v' Hv Hv'. apply In_remaining in Hv as [Hv _]. apply In_remaining in Hv' as [Hv' _]. auto.
Qed.

Definition neutral_ok (r : rel) : Prop := match r with RCond _ _ rn => rn = true | RBase _ => True end.

Lemma complete_disjoint d p vs ns :
  complete_for d ns -> (forall k, In k ns <-> In k (map vname vs) /\ has_key k p = false) ->
  forall k, In k (map fst p) -> ~ In k (map fst d).
Proof.
  intros [_ Hd] Hns k Hp Hk. apply Hd, Hns in Hk as [_ Hk]. apply has_key_false in Hk. contradiction.
Qed.

Lemma names_of_perm (ds vs : list var) p :
  Permutation ds (remaining p vs) ->
  forall k, In k (map vname ds) <-> In k (map vname vs) /\ has_key k p = false.
Proof.
  intros P k. rewrite <- In_names_remaining. split; apply Permutation_in; [|apply Permutation_sym];
    now apply Permutation_map.
Qed.

(* slice spec of a conditional relation.  The guard on rn = false excludes exactly the known
   finding (decided false condition with return_neutral = False -> ZeroAryRelation). *)
Lemma cond_slice_spec_gen c t rn p r' :
  wf_cond c t -> NoDup (map fst p) ->
  (rn = false -> forall cv, List.length (cond_part c p) = List.length (bdims c) ->
                 bcall_kw c (cond_part c p) = Ok cv -> truthy cv = true) ->
  slice (RCond c t rn) p = Ok r' ->
  wf r' /\ (neutral_ok (RCond c t rn) -> neutral_ok r') /\
  Permutation (dims r') (remaining p (dims (RCond c t rn))) /\
  forall d, complete_for d (names r') -> gv_dict r' d = gv_dict (RCond c t rn) (p ++ d).
Proof.
  intros Hwf Hp Hguard Hs. pose proof Hwf as (Hc & Ht & Hsh).
  simpl in Hs. rewrite cond_slice_unfold in Hs. simpl dims. simpl gv_dict at 2.
  (* the right-hand side, once the dimensions are known *)
  assert (RHS : forall d, Permutation (dims r') (remaining p (cond_dims c t)) ->
                complete_for d (names r') ->
                cond_gv_dict c t (p ++ d) = cond_eval c t (p ++ d) /\
                NoDup (map fst d) /\ (forall k, In k (map fst p) -> ~ In k (map fst d))).
  { intros d P Hd. pose proof (names_of_perm _ _ _ P) as Hn.
    pose proof (complete_disjoint d p (cond_dims c t) (names r') Hd Hn) as Hdisj.
    destruct Hd as [Hnd Hkeys]. split; [|split; auto].
    apply cond_gv_dict_eval; auto.
    - now apply NoDup_keys_app.
    - intros n Hin. rewrite map_app, in_app_iff. destruct (has_key n p) eqn:E.
      + left. now apply has_key_iff.
      + right. apply Hkeys, Hn. auto. }
  destruct (Nat.eqb _ _) eqn:Edec.
  - (* the condition is decided *)
    apply Nat.eqb_eq in Edec.
    pose proof (decided_covers c p (wf_b_names_nodup _ Hc) Hp Edec) as Hcov.
    pose proof (decided_dims c t p Hcov) as Pd.
    apply bind_ok in Hs as [cv [Hcv Hs]].
    assert (Ecd : forall d, (forall k, In k (map fst p) -> ~ In k (map fst d)) ->
                  cond_part c (p ++ d) = cond_part c p).
    { intros d Hdisj. rewrite cond_part_app, (cond_part_none c d), app_nil_r; auto.
      intros k Hk Hkc. apply Hcov in Hkc. now apply (Hdisj k). }
    destruct (truthy cv) eqn:Etr.
    + apply bind_ok in Hs as [s [Hsl E]]. inversion E; subst r'. clear E.
      pose proof (bslice_part_dims _ _ _ Hsl) as Ds.
      assert (Hwfs : wf_b s) by (apply (bslice_wf_l t (cond_part t p) s); auto using cond_part_keys_nodup).
      split; [exact Hwfs|]. split; [simpl; auto|].
      assert (P : Permutation (dims (RBase s)) (remaining p (cond_dims c t))) by (simpl; now rewrite Ds).
      split; [exact P|]. intros d Hd. destruct (RHS d P Hd) as (-> & Hnd & Hdisj).
      unfold cond_eval. rewrite (Ecd d Hdisj), Hcv. simpl. rewrite Etr.
      destruct Hd as [_ Hkeys].
      rewrite <- (slice_part_value t p d s); auto.
      2:{ intros n Hn. now apply Hkeys. }
      rewrite cond_part_all by (intros k Hk; now apply Hkeys).
      symmetry. apply bcall_kw_full.
      rewrite <- (map_length fst d), <- (map_length vname (bdims s)).
      apply Permutation_length, NoDup_Permutation; auto.
      apply (wf_b_names_nodup s Hwfs).
    + destruct rn; [|specialize (Hguard eq_refl cv Edec Hcv); congruence].
      inversion Hs; subst r'. clear Hs.
      split; [simpl; unfold remaining; apply NoDup_map_filter; now apply wf_b_names_nodup|].
      split; [simpl; auto|].
      assert (P : Permutation (dims (RBase (RNeutral (remaining p (bdims t))))) (remaining p (cond_dims c t)))
        by exact Pd.
      split; [exact P|]. intros d Hd. destruct (RHS d P Hd) as (-> & Hnd & Hdisj).
      unfold cond_eval. rewrite (Ecd d Hdisj), Hcv. simpl. now rewrite Etr.
  - (* the condition stays undecided: conditional relation of the two slices *)
    apply bind_ok in Hs as [sc [H1 Hs]]. apply bind_ok in Hs as [st [H2 E]]. inversion E; subst r'. clear E.
    pose proof (wf_cond_sliced c t p sc st Hwf Hp H1 H2) as Hwf'.
    pose proof (bslice_part_dims _ _ _ H1) as D1. pose proof (bslice_part_dims _ _ _ H2) as D2.
    split; [exact Hwf'|]. split; [simpl; auto|].
    assert (P : Permutation (dims (RCond sc st rn)) (remaining p (cond_dims c t)))
      by (simpl; now apply cond_dims_remaining).
    split; [exact P|]. intros d Hd. destruct (RHS d P Hd) as (-> & Hnd & Hdisj).
    destruct Hd as [_ Hkeys]. simpl gv_dict.
    rewrite cond_gv_dict_eval; auto.
    2:{ intros n Hn. now apply Hkeys. }
    unfold cond_eval.
    rewrite (slice_part_value c p d sc); auto.
    2:{ intros n Hn. apply Hkeys. unfold names. simpl. apply In_cond_names. auto. }
    rewrite (slice_part_value t p d st); auto.
    intros n Hn. apply Hkeys. unfold names. simpl. apply In_cond_names. auto.
Qed.

Lemma cond_slice_spec_l c t p r' :
  wf_cond c t -> NoDup (map fst p) -> slice (RCond c t true) p = Ok r' ->
  wf r' /\ neutral_ok r' /\
  Permutation (dims r') (remaining p (dims (RCond c t true))) /\
  forall d, complete_for d (names r') -> gv_dict r' d = gv_dict (RCond c t true) (p ++ d).
Proof.
  intros Hwf Hp Hs. destruct (cond_slice_spec_gen c t true p r' Hwf Hp) as (H1 & H2 & H3 & H4); auto.
  - discriminate.
  - repeat split; auto. now apply H2.
Qed.

(* with return_neutral = False the same holds for every slice but the one of the known finding *)
Lemma cond_slice_spec_no_neutral_l c t p r' :
  wf_cond c t -> NoDup (map fst p) ->
  (forall cv, List.length (cond_part c p) = List.length (bdims c) ->
              bcall_kw c (cond_part c p) = Ok cv -> truthy cv = true) ->
  slice (RCond c t false) p = Ok r' ->
  wf r' /\
  Permutation (dims r') (remaining p (dims (RCond c t false))) /\
  forall d, complete_for d (names r') -> gv_dict r' d = gv_dict (RCond c t false) (p ++ d).
Proof.
  intros Hwf Hp Hg Hs. destruct (cond_slice_spec_gen c t false p r' Hwf Hp) as (H1 & H2 & H3 & H4); auto.
Qed.

(* ================= slice spec for every kind ================= *)
Lemma slice_spec_all_l r p r' :
  wf r -> neutral_ok r -> NoDup (map fst p) -> slice r p = Ok r' ->
  wf r' /\ neutral_ok r' /\
  Permutation (dims r') (remaining p (dims r)) /\
  forall d, complete_for d (names r') -> gv_dict r' d = gv_dict r (p ++ d).
Proof.
  destruct r as [b|c t rn]; intros Hwf Hn Hp Hs.
  - destruct (slice_spec_l b p r' Hwf Hp Hs) as (b' & -> & Hwf' & Hd & Hv).
    split; [exact Hwf'|]. split; [exact I|]. split; [rewrite Hd; apply Permutation_refl|].
    intros d [_ Hk]. apply Hv. intros k Hkd. now apply Hk.
  - simpl in Hn. subst rn. now apply cond_slice_spec_l.
Qed.

(* ================= (3) several steps = one step, every kind, nested conditionals ================= *)
Lemma slice_compose_all_l r p1 p2 r1 r2 r12 :
  wf r -> neutral_ok r -> NoDup (map fst (p1 ++ p2)) ->
  slice r p1 = Ok r1 -> slice r1 p2 = Ok r2 -> slice r (p1 ++ p2) = Ok r12 ->
  (forall k, In k (map fst p2) -> In k (names r1)) ->
  Permutation (dims r12) (dims r2) /\
  forall d, complete_for d (names r2) -> gv_dict r12 d = gv_dict r2 d.
Proof.
  intros Hwf Hn Hnd H1 H2 H12 Hp2.
  pose proof Hnd as Hnd'. rewrite map_app in Hnd'. destruct (NoDup_app_inv _ _ Hnd') as [Hnd1 Hnd2].
  destruct (slice_spec_all_l r p1 r1 Hwf Hn Hnd1 H1) as (Hwf1 & Hn1 & P1 & V1).
  destruct (slice_spec_all_l r1 p2 r2 Hwf1 Hn1 Hnd2 H2) as (Hwf2 & Hn2 & P2 & V2).
  destruct (slice_spec_all_l r (p1 ++ p2) r12 Hwf Hn Hnd H12) as (Hwf12 & Hn12 & P12 & V12).
  assert (Pd : Permutation (dims r12) (dims r2)).
  { eapply perm_trans; [exact P12|]. apply Permutation_sym. eapply perm_trans; [exact P2|].
    rewrite <- remaining_remaining. now apply perm_filter. }
  split; [exact Pd|]. intros d Hd.
  assert (Hd12 : complete_for d (names r12)).
  { destruct Hd as [Hdn Hdk]. split; auto. intros k. rewrite Hdk. unfold names.
    split; apply Permutation_in; [apply Permutation_sym|]; now apply Permutation_map. }
  rewrite (V12 d Hd12), (V2 d Hd), <- app_assoc. symmetry. apply V1.
  pose proof (names_of_perm _ _ _ P2) as N2. fold (names r2) in N2. fold (names r1) in N2.
  destruct Hd as [Hdn Hdk]. split.
  - apply NoDup_keys_app; auto. intros k Hk Hk'. apply Hdk, N2 in Hk' as [_ Hk'].
    apply has_key_false in Hk'. contradiction.
  - intros k. rewrite map_app, in_app_iff. split.
    + intros [Hk|Hk]; auto. apply Hdk, N2 in Hk. tauto.
    + intros Hk. destruct (has_key k p2) eqn:E; [left; now apply has_key_iff|].
      right. apply Hdk, N2. auto.
Qed.

Lemma cond_slice_compose_l c t p1 p2 r1 r2 r12 :
  wf_cond c t -> NoDup (map fst (p1 ++ p2)) ->
  slice (RCond c t true) p1 = Ok r1 -> slice r1 p2 = Ok r2 -> slice (RCond c t true) (p1 ++ p2) = Ok r12 ->
  (forall k, In k (map fst p2) -> In k (names r1)) ->
  Permutation (dims r12) (dims r2) /\
  forall d, complete_for d (names r2) -> gv_dict r12 d = gv_dict r2 d.
Proof. intros Hwf. apply slice_compose_all_l; [exact Hwf | reflexivity]. Qed.
