(* P_Mgm2x.v -- MGM2 (M_Mgm2.v), part 1 of the global barrier proof: what ONE handler does to the
   control skeleton of a computation (state, cycle counter, tables' key sets, offerer / partner /
   committed flags, messages sent), with _enter_state reduced to the state assignment
   ([M_Mgm2x.enter0]).  Numeric payloads (values, gains, offers) are left abstract: the barrier
   invariant of P_Mgm2y.v needs only the skeleton.  Also: the postponed lists are a frame of every
   micro-step, and the real nested handler = micro-step followed by the loop of _enter_state. *)
From Coq Require Import ZArith List Bool Lia.
From PyDcop Require Import Base Net M_Mgm M_Mgm2 M_Mgm2x P_Mgm.
Import ListNotations.
Open Scope Z_scope.

Local Notation length := List.length.

Definition skel (s : m2st) :=
  (t_state s, t_cycle s, t_fin s, t_nv s, t_offers s, t_ng s, t_partner s, t_committed s, t_offerer s, t_pgain s).
Definition posts (s : m2st) := (t_pvalue s, t_poffer s, t_panswer s, t_pgainm s, t_pgo s).

Definition noerr (e : list mev) : Prop := forall n k, ~ In (EvErr n k) e.
Definition evs_of (n : node) (e : list mev) : Prop :=
  forall ev, In ev e -> match ev with EvValue n' _ _ _ | EvCycle n' _ | EvFinished n' _ | EvErr n' _ => n' = n end.

Lemma andthen2_ret_r (r : res2) : andthen2 r ret2 = r.
Proof. destruct r as [[s o] e]. simpl. rewrite !app_nil_r. reflexivity. Qed.
Lemma andthen2_assoc (r : res2) f g : andthen2 (andthen2 r f) g = andthen2 r (fun s => andthen2 (f s) g).
Proof.
  destruct r as [[s o] e]. simpl. destruct (f s) as [[s1 o1] e1]. simpl.
  destruct (g s1) as [[s2 o2] e2]. rewrite !app_assoc. reflexivity.
Qed.
Lemma andthen2_ret_l s (f : m2st -> res2) : andthen2 (ret2 s) f = f s.
Proof. unfold ret2. simpl. destruct (f s) as [[s1 o1] e1]. reflexivity. Qed.

Section Node.
  Variable d : dcop.
  Variable stop thr favor : Z.
  Variable n : node.
  Notation nb := (nbrs d n).
  Notation E0 := enter0.

  Definition doneb (c : Z) : bool := negb (stop =? 0) && (stop <=? c).

  (* ---------------------------------------------------------------- finish_cycle *)
  Lemma finish0_spec s :
    exists s' vs,
      finish_cycle d stop n E0 s = (s', map (fun t => (t, M2Value vs)) (if doneb (t_cycle s + 1) then [] else nb),
                                    EvCycle n (t_cycle s + 1) :: (if doneb (t_cycle s + 1) then [EvFinished n (t_cycle s + 1)] else [])) /\
      skel s' = (1, t_cycle s + 1, t_fin s + (if doneb (t_cycle s + 1) then 1 else 0), [], [], [], None, false, false, 0) /\
      posts s' = posts s.
  Proof.
    unfold finish_cycle, send_value2, doneb, enter0, ret2. destruct s. cbn.
    destruct (negb (stop =? 0) && (stop <=? t_cycle + 1)); cbn.
    - eexists _, 0. split; [reflexivity|]. split; reflexivity.
    - eexists _, _. rewrite !app_nil_r. split; [reflexivity|]. rewrite Z.add_0_r. split; reflexivity.
  Qed.

  (* ---------------------------------------------------------------- values complete *)
  Lemma hvm0_spec s : nb <> [] ->
    exists s' off p g,
      handle_value_messages d thr n E0 s = (s', map g nb, []) /\
      (forall t, exists os, g t = (t, M2Offer (off && (t =? p)) os)) /\
      (off = true -> In p nb) /\
      skel s' = (2, t_cycle s, t_fin s, t_nv s, t_offers s, t_ng s, (if off then Some p else None),
                 t_committed s, off, t_pgain s') /\
      posts s' = posts s.
  Proof.
    intros Hnb. unfold handle_value_messages, enter0, ret2. destruct s. cbn.
    destruct (draw t_orc) as [k o1].
    destruct (k <? thr) eqn:Ek.
    - destruct (draw o1) as [x o2]. cbn.
      match goal with |- context [compute_best_value2 ?a ?b ?c] => destruct (compute_best_value2 a b c) as [vals best] end.
      cbn.
      match goal with |- context [if ?c then _ else _] => destruct c end;
      [destruct (draw o2) as [x3 o3]|]; cbn;
      (eexists _, true, (choose nb x 0), _; rewrite !app_nil_r; split;
       [reflexivity
       |split; [intros t; unfold opt_is; destruct (t =? choose nb x 0); cbn; eexists; reflexivity
               |split; [intros _; apply choose_In; exact Hnb|split; reflexivity]]]).
    - cbn.
      match goal with |- context [compute_best_value2 ?a ?b ?c] => destruct (compute_best_value2 a b c) as [vals best] end.
      cbn.
      match goal with |- context [if ?c then _ else _] => destruct c end;
      [destruct (draw o1) as [x3 o3]|]; cbn;
      (eexists _, false, 0, _; rewrite !app_nil_r; split;
       [reflexivity|split; [intros t; cbn; eexists; reflexivity|split; [discriminate|split; reflexivity]]]).
  Qed.

  (* ---------------------------------------------------------------- offers complete *)
  Lemma fbo_in s all b : In b (fst (find_best_offer d n s all)) -> In (snd b) (map fst all).
  Proof.
    unfold find_best_offer.
    set (inner := fun p (acc2 : list (Z * Z * Z) * Z) (o : Z * Z * Z) =>
      let '(vp, vme, pg) := o in let '(bests, best) := acc2 in
      let gg := cost2 s - cost_at (filter (fun c => negb (zmem p (c_scope c))) (cons_of d n)) (view2 n (t_nv s) vme p vp) + pg in
      if (if d_max d then gg <? best else best <? gg) then ([(vp, vme, p)], gg)
      else if gg =? best then (bests ++ [(vp, vme, p)], best) else acc2).
    assert (Hin : forall (P : Z -> Prop) p os acc, P p -> (forall b, In b (fst acc) -> P (snd b)) ->
                  forall b, In b (fst (fold_left (inner p) os acc)) -> P (snd b)).
    { intros P p os. induction os as [|o r IH]; intros acc Hp Hacc b0; simpl; [apply Hacc|].
      apply IH; [exact Hp|]. destruct o as [[vp vme] pg]. destruct acc as [bests best]. unfold inner.
      cbv zeta. match goal with |- context [if ?c then _ else _] => destruct c end.
      - simpl. intros b1 [<-|[]]. exact Hp.
      - match goal with |- context [if ?c then _ else _] => destruct c end; [|exact Hacc].
        simpl. intros b1 Hb. apply in_app_or in Hb as [Hb|[<-|[]]]; [apply Hacc; exact Hb|exact Hp]. }
    assert (Hout : forall all0 acc, (forall b, In b (fst acc) -> In (snd b) (map fst all)) -> incl all0 all ->
       forall b, In b (fst (fold_left (fun acc po => fold_left (inner (fst po)) (snd po) acc) all0 acc)) -> In (snd b) (map fst all)).
    { induction all0 as [|po r IH]; intros acc Hacc Hincl b0; simpl; [apply Hacc|].
      apply IH; [|intros z Hz; apply Hincl; right; exact Hz].
      apply (Hin (fun p => In p (map fst all))); [|exact Hacc].
      apply in_map. apply Hincl. left. reflexivity. }
    intros Hb. revert Hb. apply (Hout all ([], 0)); [intros b0 []|apply incl_refl].
  Qed.

  Definition reject (so : Z * list (Z * Z * Z)) : node * m2msg := (fst so, M2Answer false None None).

  Lemma hom0_offerer s : t_offerer s = true ->
    exists s',
      handle_offer_messages d favor n E0 s = (s', map reject (offering (t_offers s)), []) /\
      skel s' = (3, t_cycle s, t_fin s, t_nv s, t_offers s, t_ng s, t_partner s, t_committed s, t_offerer s, t_pgain s) /\
      posts s' = posts s.
  Proof.
    intros Ho. unfold handle_offer_messages, enter0, ret2. destruct s. cbn in *. subst. cbn.
    eexists. rewrite !app_nil_r. split; [reflexivity|]. split; reflexivity.
  Qed.

  Lemma nth_mod_In {A} (l : list A) x dflt : l <> [] -> In (nth (Z.to_nat (x mod zlen l)) l dflt) l.
  Proof.
    intros H. apply nth_In. unfold zlen.
    assert (0 < Z.of_nat (length l)) by (destruct l; [congruence|simpl; lia]).
    pose proof (Z.mod_pos_bound x (Z.of_nat (length l)) H0). lia.
  Qed.

  Lemma hom0_other s : t_offerer s = false -> t_partner s = None ->
    exists s' com p vp gain gv,
      handle_offer_messages d favor n E0 s =
        (s', map (fun so => (fst so, if com && (fst so =? p) then M2Answer true vp (Some gain) else M2Answer false None None))
                 (offering (t_offers s)) ++ map (fun t => (t, M2Gain gv)) nb, []) /\
      (com = true -> gain <> 0 /\ In p (map fst (offering (t_offers s))) /\ t_pgain s' = gain) /\
      skel s' = (4, t_cycle s, t_fin s, t_nv s, t_offers s, t_ng s, (if com then Some p else None), com, false,
                 t_pgain s') /\
      posts s' = posts s.
  Proof.
    intros Ho Hp. unfold handle_offer_messages, enter0, ret2, send_gain2. rewrite Ho.
    pose proof (fbo_in s (offering (t_offers s))) as Hin.
    destruct (find_best_offer d n s (offering (t_offers s))) as [bests gain]. simpl in Hin.
    set (com := if (gain =? 0) || match bests with [] => true | _ => false end then (false, t_orc s)
          else if (if d_max d then gain <? t_pgain s else t_pgain s <? gain) then (true, t_orc s)
          else if gain =? t_pgain s then
            if favor =? 2 then (true, t_orc s)
            else if favor =? 1 then let '(k, o) := draw (t_orc s) in (500 <? k, o) else (false, t_orc s)
          else (false, t_orc s)).
    assert (Hcom : fst com = true -> gain <> 0 /\ bests <> []).
    { unfold com. destruct (gain =? 0) eqn:Eg; simpl; [discriminate|]. apply Z.eqb_neq in Eg.
      destruct bests; simpl; [discriminate|]. intros _. split; [exact Eg|discriminate]. }
    destruct com as [[|] o1] eqn:Ecom; simpl in Hcom.
    - destruct (Hcom eq_refl) as [Hg Hb]. clear Hcom. destruct s. cbn in *. subst t_partner t_offerer.
      destruct (draw o1) as [x o]. cbn.
      assert (Hs : isort t3_leb bests <> []).
      { destruct bests as [|b r]; [congruence|]. intros Hc. assert (In b (isort t3_leb (b :: r))) by (apply In_isort; left; reflexivity).
        rewrite Hc in H. exact H. }
      pose proof (nth_mod_In (isort t3_leb bests) x (0, 0, 0) Hs) as Hn.
      destruct (nth (Z.to_nat (x mod zlen (isort t3_leb bests))) (isort t3_leb bests) (0, 0, 0)) as [[vp vme] p] eqn:En.
      cbn. apply In_isort in Hn. apply Hin in Hn. simpl in Hn.
      eexists _, true, p, (Some vp), gain, _. rewrite !app_nil_r. split.
      + apply (f_equal (fun l => (_, l ++ _, @nil mev))). apply map_ext. intros so. unfold opt_is. cbn.
        destruct (fst so =? p); reflexivity.
      + split; [intros _; split; [exact Hg|split; [exact Hn|reflexivity]]|]. split; reflexivity.
    - clear Hcom. destruct s. cbn in *. subst t_partner t_offerer.
      eexists _, false, 0, None, 0, _. rewrite !app_nil_r. split.
      + apply (f_equal (fun l => (_, l ++ _, @nil mev))). apply map_ext. intros so. reflexivity.
      + split; [discriminate|]. split; reflexivity.
  Qed.

  (* ---------------------------------------------------------------- answer *)
  Lemma hr0_spec s src acc v g : t_offerer s = true -> t_partner s = Some src ->
    exists s' gv,
      handle_response d n E0 s src acc v g = (s', map (fun t => (t, M2Gain gv)) nb, []) /\
      t_pgain s' = (if acc then match g with Some x => x | None => 0 end else t_pgain s) /\
      skel s' = (4, t_cycle s, t_fin s, t_nv s, t_offers s, t_ng s, t_partner s, acc, true, t_pgain s') /\
      posts s' = posts s.
  Proof.
    intros Ho Hp. unfold handle_response, enter0, ret2, send_gain2, opt_is. rewrite Ho, Hp, Z.eqb_refl. cbn.
    destruct s. cbn in *. subst. destruct acc; cbn; eexists _, _; rewrite !app_nil_r; (split; [reflexivity|]); split; try reflexivity; split; reflexivity.
  Qed.

  (* ---------------------------------------------------------------- gains complete *)
  Definition valev (e : list mev) : Prop := forall ev, In ev e -> exists v c k, ev = EvValue n v c k.

  Lemma finish_after_sel s r :
    (r = ret2 s \/ exists v c, r = value_selection2 n s v c) ->
    exists s' vs pre,
      andthen2 r (finish_cycle d stop n E0) =
        (s', map (fun t => (t, M2Value vs)) (if doneb (t_cycle s + 1) then [] else nb),
         pre ++ EvCycle n (t_cycle s + 1) :: (if doneb (t_cycle s + 1) then [EvFinished n (t_cycle s + 1)] else [])) /\
      valev pre /\
      skel s' = (1, t_cycle s + 1, t_fin s + (if doneb (t_cycle s + 1) then 1 else 0), [], [], [], None, false, false, 0) /\
      posts s' = posts s.
  Proof.
    intros [->|[v [c ->]]].
    - rewrite andthen2_ret_l. destruct (finish0_spec s) as (s' & vs & E & K & Po).
      exists s', vs, []. split; [exact E|]. split; [intros ev []|]. split; assumption.
    - unfold value_selection2, andthen2.
      set (s1 := set_t_cost (set_t_value s (Some v)) c).
      assert (H1 : t_cycle s1 = t_cycle s) by (destruct s; reflexivity).
      assert (H2 : t_fin s1 = t_fin s) by (destruct s; reflexivity).
      assert (H3 : posts s1 = posts s) by (destruct s; reflexivity).
      destruct (finish0_spec s1) as (s' & vs & E & K & Po). rewrite H1, H2 in *. rewrite H3 in Po.
      rewrite E. exists s', vs. eexists. split; [reflexivity|].
      split; [|split; assumption].
      intros ev Hev. destruct (option_eqb Z.eqb (t_value s) (Some v)); [destruct Hev|].
      destruct Hev as [<-|[]]. eexists _, _, _. reflexivity.
  Qed.

  Lemma hgm0_spec s :
    (t_committed s = true -> t_pgain s <> 0 /\ exists p, t_partner s = Some p) ->
    (t_committed s = true /\
       exists s' p go, t_partner s = Some p /\
         handle_gain_messages d stop n E0 s = (s', [(p, M2Go go)], []) /\
         skel s' = (5, t_cycle s, t_fin s, t_nv s, t_offers s, t_ng s, t_partner s, t_committed s, t_offerer s, t_pgain s) /\
         posts s' = posts s) \/
    (t_committed s = false /\
       exists s' vs pre,
         handle_gain_messages d stop n E0 s =
           (s', map (fun t => (t, M2Value vs)) (if doneb (t_cycle s + 1) then [] else nb),
            pre ++ EvCycle n (t_cycle s + 1) :: (if doneb (t_cycle s + 1) then [EvFinished n (t_cycle s + 1)] else [])) /\
         valev pre /\
         skel s' = (1, t_cycle s + 1, t_fin s + (if doneb (t_cycle s + 1) then 1 else 0), [], [], [], None, false, false, 0) /\
         posts s' = posts s).
  Proof.
    intros Hc. unfold handle_gain_messages.
    destruct (t_committed s) eqn:Ec.
    - destruct (Hc eq_refl) as [Hg [p Hp]]. left. split; [reflexivity|].
      apply Z.eqb_neq in Hg. rewrite Hg, Hp. unfold enter0, ret2. destruct s. cbn in *. subst.
      eexists _, p, _. split; [reflexivity|]. split; [reflexivity|]. split; reflexivity.
    - right. split; [reflexivity|]. clear Hc.
      destruct (t_pgain s =? 0).
      + destruct (finish_after_sel s (ret2 s) (or_introl eq_refl)) as (s' & vs & pre & E & V & K & Po).
        rewrite andthen2_ret_l in E. exists s', vs, pre. auto.
      + cbv zeta. match goal with |- context [if ?c then value_selection2 _ _ ?v ?co else _] =>
          destruct c; [apply (finish_after_sel s _ (or_intror (ex_intro _ v (ex_intro _ co eq_refl))))
                      |apply (finish_after_sel s _ (or_introl eq_refl))] end.
  Qed.

  (* ---------------------------------------------------------------- go *)
  Lemma hgo0_spec s go :
    exists s' vs pre,
      handle_go d stop n E0 s go =
        (s', map (fun t => (t, M2Value vs)) (if doneb (t_cycle s + 1) then [] else nb),
         pre ++ EvCycle n (t_cycle s + 1) :: (if doneb (t_cycle s + 1) then [EvFinished n (t_cycle s + 1)] else [])) /\
      valev pre /\
      skel s' = (1, t_cycle s + 1, t_fin s + (if doneb (t_cycle s + 1) then 1 else 0), [], [], [], None, false, false, 0) /\
      posts s' = posts s.
  Proof.
    unfold handle_go. cbv zeta.
    match goal with |- context [if ?c then value_selection2 _ _ ?v ?co else _] =>
      destruct c; [apply (finish_after_sel s _ (or_intror (ex_intro _ v (ex_intro _ co eq_refl))))
                  |apply (finish_after_sel s _ (or_introl eq_refl))] end.
  Qed.
End Node.
