(* M_Repr.v -- executable model of pyDCOP's wire format (C15).
   pydcop/utils/simple_repr.py (simple_repr / from_repr / SimpleRepr mixin), the message_type
   class factory of infrastructure/computations.py, the JSON step of HttpCommunicationLayer
   (requests: json.dumps(allow_nan=False) ; json.loads), the custom reprs of MaxSumMessage,
   Mgm2OfferMessage, PseudoTreeLink, OrderLink, FactorGraphLink, AlgorithmDef,
   ExpressionFunction, AgentDef, the ordered-graph VariableComputationNode, and
   AgentDef.__getstate__/__setstate__ (pickling).  Models only; proofs are in P_Repr.v. *)
From PyDcop Require Import Base.
From Coq Require Import DecimalString Decimal DecimalZ.
Open Scope string_scope.

(* ---------- python values ---------- *)
Inductive py : Type :=
| PNone
| PMissing                                   (* an attribute that does not exist (AttributeError) *)
| PBool (b : bool)
| PInt (z : Z)
| PFloat (r : string)                        (* float.__repr__ text: "1.5", "inf", "-inf", "nan" *)
| PStr (s : string)
| PList (l : list py)
| PTuple (l : list py)
| PSet (l : list py)                         (* set / frozenset, in iteration order *)
| PDict (d : list (py * py))                 (* insertion order *)
| PNamed (m q : string) (f : list (string * py))   (* namedtuple instance of class m.q *)
| PObj (m q : string) (f : list (string * py))     (* SimpleRepr instance of class m.q; f = value of the
                                                       attribute behind every constructor argument, in
                                                       constructor order; names starting with "*" are
                                                       state that is not a constructor argument *)
| PMsg (t : string) (f : list (string * py)).      (* instance of message_type(t, fields) *)

Inductive res (A : Type) : Type := Ok (a : A) | Err (e : string).
Arguments Ok {A} a. Arguments Err {A} e.
Definition bind {A B} (x : res A) (f : A -> res B) : res B :=
  match x with Ok a => f a | Err e => Err e end.
Definition mapM {A B} (f : A -> res B) : list A -> res (list B) :=
  fix go (l : list A) : res (list B) :=
    match l with
    | [] => Ok []
    | x :: r => bind (f x) (fun y => bind (go r) (fun ys => Ok (y :: ys)))
    end.
(* turn a list of already computed results into a result (first error wins) *)
Definition seqM {A} (l : list (res A)) : res (list A) := mapM (fun x => x) l.

Definition str_of_Z (z : Z) : string := NilZero.string_of_int (Z.to_int z).
Definition Z_of_str (s : string) : option Z :=
  match NilZero.int_of_string s with Some i => Some (Z.of_int i) | None => None end.

Definition MOD := "__module__".
Definition QUAL := "__qualname__".
Definition reserved (s : string) : bool := String.eqb s MOD || String.eqb s QUAL.
Definition hdr (m q : string) : list (py * py) := [(PStr MOD, PStr m); (PStr QUAL, PStr q)].
Definition COMPUTATIONS := "pydcop.infrastructure.computations".

Fixpoint dget {V} (k : string) (d : list (py * V)) : option V :=
  match d with
  | [] => None
  | (PStr s, v) :: r => if String.eqb k s then Some v else dget k r
  | _ :: r => dget k r
  end.

Fixpoint enumerate_from {A} (i : Z) (l : list A) : list (Z * A) :=
  match l with [] => [] | x :: r => (i, x) :: enumerate_from (i + 1) r end.

(* ---------- the class table ---------- *)
Inductive kind :=
| KGeneric       (* mixin's _simple_repr / _from_repr, constructor stores its arguments *)
| KNamedTuple    (* hasattr(cls, '_fields') *)
| KMsgFactory    (* the function computations.message_type *)
| KMaxSum | KMgm2Offer | KPTLink | KOrderLink | KFGLink | KAlgoDef | KExprFn
| KAgentDef | KOrderedNode | KVarCostDict
| KCompNode.     (* base ComputationNode: neighbours recomputed from links; not modelled *)

Definition is_prefix (p s : string) : bool := String.eqb p (substring 0 (String.length p) s).

Definition kind_of (m q : string) : kind :=
  if String.eqb q "message_type" then KMsgFactory
  else if is_prefix "NT" q then KNamedTuple
  else if String.eqb q "MaxSumMessage" then KMaxSum
  else if String.eqb q "Mgm2OfferMessage" then KMgm2Offer
  else if String.eqb q "PseudoTreeLink" then KPTLink
  else if String.eqb q "OrderLink" then KOrderLink
  else if String.eqb q "FactorGraphLink" then KFGLink
  else if String.eqb q "AlgorithmDef" then KAlgoDef
  else if String.eqb q "ExpressionFunction" then KExprFn
  else if String.eqb q "AgentDef" then KAgentDef
  else if String.eqb q "VariableWithCostDict" then KVarCostDict
  else if String.eqb q "ComputationNode" then KCompNode
  else if String.eqb q "VariableComputationNode"
          && String.eqb m "pydcop.computations_graph.ordered_graph" then KOrderedNode
  else KGeneric.

Definition is_hidden (n : string) : bool :=
  match n with String c _ => Ascii.eqb c "*"%char | EmptyString => false end.
Definition visible {V} (f : list (string * V)) := filter (fun nv => negb (is_hidden (fst nv))) f.
Definition hidden {V} (f : list (string * V)) := filter (fun nv => is_hidden (fst nv)) f.

(* what the constructors do to their arguments (only the conversions that change the
   shape of a value): Domain: tuple(values); Link, ConstraintLink: frozenset(nodes) *)
Definition as_tuple (v : py) : py :=
  match v with PList l => PTuple l | PSet l => PTuple l | _ => v end.
Definition as_set (v : py) : py :=
  match v with PList l => PSet l | PTuple l => PSet l | _ => v end.
Definition ctor_norm (q : string) (f : list (string * py)) : list (string * py) :=
  if String.eqb q "Domain" then
    map (fun nv => if String.eqb (fst nv) "values" then (fst nv, as_tuple (snd nv)) else nv) f
  else if String.eqb q "Link" || String.eqb q "ConstraintLink" then
    map (fun nv => if String.eqb (fst nv) "nodes" then (fst nv, as_set (snd nv)) else nv) f
  else f.

Definition hashable (v : py) : bool :=
  match v with PList _ | PDict _ | PSet _ | PObj _ _ _ | PMsg _ _ | PMissing => false | _ => true end.

(* ---------- equality ---------- *)
Fixpoint py_eqb (a b : py) {struct a} : bool :=
  let fix leq (x y : list py) {struct x} : bool :=
    match x, y with
    | [], [] => true
    | u :: x', v :: y' => py_eqb u v && leq x' y'
    | _, _ => false
    end in
  let fix deq (x y : list (py * py)) {struct x} : bool :=
    match x, y with
    | [], [] => true
    | (k, u) :: x', (k', v) :: y' => py_eqb k k' && py_eqb u v && deq x' y'
    | _, _ => false
    end in
  let fix feq (x y : list (string * py)) {struct x} : bool :=
    match x, y with
    | [], [] => true
    | (k, u) :: x', (k', v) :: y' => String.eqb k k' && py_eqb u v && feq x' y'
    | _, _ => false
    end in
  match a, b with
  | PNone, PNone => true
  | PMissing, PMissing => true
  | PBool x, PBool y => Bool.eqb x y
  | PInt x, PInt y => Z.eqb x y
  | PFloat x, PFloat y => String.eqb x y
  | PStr x, PStr y => String.eqb x y
  | PList x, PList y => leq x y
  | PTuple x, PTuple y => leq x y
  | PSet x, PSet y => leq x y
  | PDict x, PDict y => deq x y
  | PNamed m q x, PNamed m' q' y => String.eqb m m' && String.eqb q q' && feq x y
  | PObj m q x, PObj m' q' y => String.eqb m m' && String.eqb q q' && feq x y
  | PMsg t x, PMsg t' y => String.eqb t t' && feq x y
  | _, _ => false
  end.

(* ---------- simple_repr ---------- *)
(* non recursive part for objects: [f] the fields, [fr] their simple_repr *)
Definition entries (fr : list (string * res py)) : res (list (py * py)) :=
  mapM (fun nv => bind (snd nv) (fun r => Ok (PStr (fst nv), r))) fr.

Definition truthy (v : py) : bool :=
  match v with
  | PNone | PMissing => false | PBool b => b | PInt z => negb (Z.eqb z 0)
  | PStr s => negb (String.eqb s "") | PList [] | PTuple [] | PSet [] | PDict [] => false
  | _ => true
  end.

Definition is_scalar (v : py) : bool :=
  match v with PNone | PBool _ | PInt _ | PFloat _ | PStr _ => true | _ => false end.

Definition repr_obj (m q : string) (f : list (string * py)) (fr : list (string * res py)) : res py :=
  match kind_of m q with
  | KMaxSum =>
      (* vals, costs = zip of the items of self._costs ; NOT recursively converted *)
      match slookup "costs" f with
      | Some (PDict []) => Err "ValueError"
      | Some (PDict d) =>
          Ok (PDict (hdr m q ++ [(PStr "vals", PTuple (map fst d)); (PStr "costs", PTuple (map snd d))]))
      | _ => Err "Unsupported"
      end
  | KMgm2Offer =>
      match slookup "offers" f, slookup "is_offering" f with
      | Some (PDict d), Some b =>
          let on := truthy b && negb (match d with [] => true | _ => false end) in
          Ok (PDict (hdr m q ++
                [(PStr "is_offering", b);
                 (PStr "var_values", if on then PTuple (map fst d) else PList []);
                 (PStr "gains", if on then PTuple (map snd d) else PList [])]))
      | _, _ => Err "Unsupported"
      end
  | KPTLink | KOrderLink =>
      match slookup "link_type" f, slookup "source" fr, slookup "target" fr with
      | Some t, Some s, Some g =>
          bind s (fun s' => bind g (fun g' =>
            Ok (PDict (hdr m q ++ [(PStr "type", t); (PStr "source", s'); (PStr "target", g')]))))
      | _, _, _ => Err "Unsupported"
      end
  | KFGLink =>
      match slookup "factor_node" fr, slookup "variable_node" fr with
      | Some s, Some g =>
          bind s (fun s' => bind g (fun g' =>
            Ok (PDict (hdr m q ++ [(PStr "factor", s'); (PStr "variable", g')]))))
      | _, _ => Err "Unsupported"
      end
  | KCompNode | KNamedTuple | KMsgFactory => Err "Unsupported"
  | KAgentDef =>
      (* repaired code: the extra attributes (kwargs) follow the constructor arguments *)
      match slookup "*attr" f, slookup "*attr" fr with
      | Some (PDict a), Some ar =>
          bind (entries (visible fr)) (fun e => bind ar (fun a' =>
            match a' with PDict a'' => Ok (PDict (hdr m q ++ e ++ a'')) | _ => Err "Unsupported" end))
      | _, _ => Err "Unsupported"
      end
  | KOrderedNode =>
      match slookup "*order_links" fr with
      | Some lr => bind (entries (visible fr)) (fun e => bind lr (fun l' =>
                     Ok (PDict (hdr m q ++ e ++ [(PStr "order_links", l')]))))
      | None => Err "Unsupported"
      end
  | KVarCostDict =>
      (* repaired code: the typed keys of the costs dict travel in a list next to it *)
      match slookup "costs" f with
      | Some (PDict d) =>
          if forallb is_scalar (map fst d)
          then bind (entries fr) (fun e =>
                 Ok (PDict (hdr m q ++ e ++ [(PStr "cost_values", PList (map fst d))])))
          else Err "Unsupported"
      | _ => Err "Unsupported"
      end
  | KGeneric | KAlgoDef | KExprFn =>
      match hidden f with
      | [] => if existsb (fun nv => match snd nv with PMissing => true | _ => false end) f
              then Err "SimpleReprException"
              else bind (entries fr) (fun e => Ok (PDict (hdr m q ++ e)))
      | _ => Err "Unsupported"
      end
  end.

Fixpoint simple_repr (v : py) : res py :=
  match v with
  | PObj m q f => repr_obj m q f (map (fun nv => (fst nv, simple_repr (snd nv))) f)
  | PMsg t f =>
      if existsb (fun nv => match snd nv with PMissing => true | _ => false end) f
      then Err "SimpleReprException" else
      bind (entries (map (fun nv => (fst nv, simple_repr (snd nv))) f)) (fun e =>
        Ok (PDict ([(PStr MOD, PStr COMPUTATIONS); (PStr QUAL, PStr "message_type");
                    (PStr "__type__", PStr t)] ++ e)))
  | PNamed m q f =>
      (* o._asdict(): the values are NOT converted *)
      Ok (PDict (map (fun nv => (PStr (fst nv), snd nv)) f ++ hdr m q))
  | PTuple l =>
      bind (mapM (fun x => x) (map simple_repr l)) (fun rs =>
        Ok (PDict (map (fun ix => (PInt (fst ix), snd ix)) (enumerate_from 0 rs) ++ hdr "builtins" "tuple")))
  | PStr _ | PInt _ | PFloat _ | PBool _ => Ok v
  | PList l | PSet l => bind (mapM (fun x => x) (map simple_repr l)) (fun rs => Ok (PList rs))
  | PDict d =>
      bind (mapM (fun kv => bind (snd kv) (fun r => Ok (fst kv, r)))
                 (map (fun kv => (fst kv, simple_repr (snd kv))) d))
           (fun e => Ok (PDict e))
  | PNone => Ok PNone
  | PMissing => Err "Unsupported"
  end.

(* ---------- the JSON step: json.loads(json.dumps(r, allow_nan=nan)) ---------- *)
Definition special_float (r : string) : bool :=
  String.eqb r "inf" || String.eqb r "-inf" || String.eqb r "nan".

Definition json_key (k : py) : res string :=
  match k with
  | PStr s => Ok s
  | PInt z => Ok (str_of_Z z)
  | PBool true => Ok "true"
  | PBool false => Ok "false"
  | PNone => Ok "null"
  | PFloat r => if special_float r then Err "Unsupported" else Ok r
  | _ => Err "TypeError"
  end.

Fixpoint json_rt (nan : bool) (v : py) : res py :=
  match v with
  | PNone | PBool _ | PInt _ | PStr _ => Ok v
  | PFloat r => if special_float r && negb nan then Err "ValueError" else Ok v
  | PList l | PTuple l => bind (mapM (fun x => x) (map (json_rt nan) l)) (fun rs => Ok (PList rs))
  | PNamed _ _ f => bind (mapM (fun x => x) (map (fun nv => json_rt nan (snd nv)) f)) (fun rs => Ok (PList rs))
  | PDict d =>
      bind (mapM (fun kv => bind (json_key (fst kv)) (fun k => bind (snd kv) (fun r => Ok (k, r))))
                 (map (fun kv => (fst kv, json_rt nan (snd kv))) d))
           (fun e => if nodupb String.eqb (map fst e)
                     then Ok (PDict (map (fun kr => (PStr (fst kr), snd kr)) e))
                     else
                       (* two keys with the same JSON rendering (0 and "0", True and "true"): dumps writes
                          both, loads builds dict(pairs): position of the first, value of the last *)
                       Ok (PDict (map (fun kr => (PStr (fst kr), snd kr)) (dict_of_list String.eqb e))))
  | PSet _ | PObj _ _ _ | PMsg _ _ | PMissing => Err "TypeError"
  end.

(* ---------- from_repr ---------- *)
Definition key_str (k : py) : res string := match k with PStr s => Ok s | _ => Err "TypeError" end.

(* keyword arguments: every entry except the two reserved ones *)
Definition kwargs (dec : list (py * res py)) : res (list (string * py)) :=
  mapM (fun kv => bind (key_str (fst kv)) (fun k => bind (snd kv) (fun v => Ok (k, v))))
       (filter (fun kv => match fst kv with PStr s => negb (reserved s) | _ => true end) dec).

Definition tuple_index (k : py) : res Z :=
  match k with
  | PStr s => match Z_of_str s with Some z => Ok z | None => Err "ValueError" end
  | PInt z => Ok z
  | PBool b => Ok (if b then 1 else 0)
  | _ => Err "TypeError"
  end.

Fixpoint strictly_increasing (l : list Z) : bool :=
  match l with
  | x :: ((y :: _) as r) => Z.ltb x y && strictly_increasing r
  | _ => true
  end.

Definition decode_tuple (dec : list (py * res py)) : res py :=
  bind (mapM (fun kv => bind (tuple_index (fst kv)) (fun i => Ok (i, snd kv)))
             (filter (fun kv => match fst kv with PStr s => negb (reserved s) | _ => true end) dec))
       (fun ivs =>
          let sorted := isort (fun a b => Z.leb (fst a) (fst b)) ivs in
          if strictly_increasing (map fst sorted)
          then bind (seqM (map snd sorted)) (fun vs => Ok (PTuple vs))
          else Err "Unsupported").

Definition zip_dict (ks vs : list py) : res py :=
  if forallb hashable ks
  then if nodupb py_eqb ks then Ok (PDict (combine ks vs)) else Err "Unsupported"
  else Err "TypeError".

Definition list_items (v : py) : res (list py) :=
  match v with PList l => Ok l | PTuple l => Ok l | _ => Err "Unsupported" end.

Definition PT_TYPES := ["children"; "pseudo_children"; "pseudo_parent"; "parent"].
Definition ORDER_TYPES := ["previous"; "next"].
Definition type_in (t : py) (l : list string) : bool :=
  match t with PStr s => smem s l | _ => false end.

Definition need {A} (o : option A) : res A := match o with Some a => Ok a | None => Err "KeyError" end.
Definition need_arg {A} (o : option A) : res A := match o with Some a => Ok a | None => Err "TypeError" end.

(* [d] the raw dict, [dec] the same entries with from_repr applied to the values *)
Definition decode_obj (m q : string) (d : list (py * py)) (dec : list (py * res py)) : res py :=
  match kind_of m q with
  | KMsgFactory =>
      bind (need (dget "__type__" d)) (fun t =>
      match t with
      | PStr ts =>
          bind (kwargs (filter (fun kv => match fst kv with PStr s => negb (String.eqb s "__type__") | _ => true end) dec))
               (fun a => Ok (PMsg ts a))
      | _ => Err "Unsupported"
      end)
  | KNamedTuple => bind (kwargs dec) (fun a => Ok (PNamed m q a))
  | KMaxSum =>
      bind (need (dget "vals" d)) (fun vals => bind (need (dget "costs" d)) (fun costs =>
      bind (list_items vals) (fun ks => bind (list_items costs) (fun vs =>
      bind (zip_dict ks vs) (fun c => Ok (PObj m q [("costs", c)]))))))
  | KMgm2Offer =>
      match dget "gains" d with
      | Some gains =>
          bind (need (dget "var_values" d)) (fun vv => bind (need (dget "is_offering" d)) (fun b =>
          bind (list_items vv) (fun couples => bind (list_items gains) (fun gs =>
          bind (mapM (fun c => bind (list_items c) (fun l => Ok (PTuple l))) couples) (fun ks =>
          bind (zip_dict ks gs) (fun o => Ok (PObj m q [("offers", o); ("is_offering", b)])))))))
      | None => bind (need (dget "is_offering" d)) (fun b =>
                  Ok (PObj m q [("offers", PDict []); ("is_offering", b)]))
      end
  | KPTLink =>
      bind (need (dget "type" d)) (fun t =>
      bind (need (dget "source" dec)) (fun rs => bind rs (fun s =>
      bind (need (dget "target" dec)) (fun rg => bind rg (fun g =>
      if negb (type_in t PT_TYPES) then Err "ValueError"
      else if hashable s && hashable g
      then Ok (PObj m q [("link_type", t); ("source", s); ("target", g)])
      else Err "TypeError")))))
  | KOrderLink =>
      bind (need (dget "type" d)) (fun t =>
      bind (need (dget "source" dec)) (fun rs => bind rs (fun s =>
      bind (need (dget "target" dec)) (fun rg => bind rg (fun g =>
      if negb (hashable s && hashable g) then Err "TypeError"
      else if type_in t ORDER_TYPES
      then Ok (PObj m q [("link_type", t); ("source", s); ("target", g)])
      else Err "ValueError")))))
  | KFGLink =>
      bind (need (dget "factor" dec)) (fun rs => bind rs (fun s =>
      bind (need (dget "variable" dec)) (fun rg => bind rg (fun g =>
      if hashable s && hashable g
      then Ok (PObj m q [("factor_node", s); ("variable_node", g)])
      else Err "TypeError"))))
  | KAlgoDef =>
      (* params is taken raw (not from_repr'ed) *)
      bind (need (dget "params" d)) (fun p =>
      bind (need_arg (dget "algo" dec)) (fun ra => bind ra (fun a =>
      bind (match dget "mode" dec with Some rm => rm | None => Ok (PStr "min") end) (fun mo =>
      Ok (PObj m q [("algo", a); ("params", p); ("mode", mo)])))))
  | KExprFn =>
      bind (need (dget "fixed_vars" d)) (fun fv =>
      bind (need_arg (dget "expression" dec)) (fun re => bind re (fun e =>
      bind (match dget "source_file" dec with Some rm => rm | None => Ok PNone end) (fun sf =>
      Ok (PObj m q [("expression", e); ("source_file", sf); ("fixed_vars", fv)])))))
  | KAgentDef =>
      (* AgentDef called with the decoded keyword arguments: the five named parameters, everything else lands in kwargs *)
      bind (kwargs dec) (fun a =>
        let named := ["name"; "default_route"; "routes"; "default_hosting_cost"; "hosting_costs"] in
        let get n dflt := match slookup n a with Some v => v | None => dflt end in
        let none_dict v := match v with PNone => PDict [] | _ => v end in
        bind (need_arg (slookup "name" a)) (fun nm =>
        Ok (PObj m q [("name", nm); ("default_route", get "default_route" (PInt 1));
                      ("routes", none_dict (get "routes" PNone));
                      ("default_hosting_cost", get "default_hosting_cost" (PInt 0));
                      ("hosting_costs", none_dict (get "hosting_costs" PNone));
                      ("*attr", PDict (map (fun nv => (PStr (fst nv), snd nv))
                                           (filter (fun nv => negb (smem (fst nv) named)) a)))])))
  | KOrderedNode =>
      bind (kwargs (filter (fun kv => match fst kv with PStr s => negb (String.eqb s "order_links") | _ => true end) dec))
        (fun a =>
        bind (match dget "order_links" dec with Some rl => rl | None => Ok (PList []) end) (fun ol =>
        Ok (PObj m q (a ++ [("*order_links", ol)]))))
  | KVarCostDict =>
      bind (kwargs (filter (fun kv => match fst kv with PStr s => negb (String.eqb s "cost_values") | _ => true end) dec))
        (fun a =>
        match dget "cost_values" dec with
        | None => Ok (PObj m q a)
        | Some rl =>
            bind rl (fun l => bind (list_items l) (fun ks =>
            match slookup "costs" a with
            | Some (PDict cd) =>
                bind (zip_dict ks (map snd cd)) (fun c =>
                  Ok (PObj m q (map (fun nv => if String.eqb (fst nv) "costs" then (fst nv, c) else nv) a)))
            | _ => Err "Unsupported"
            end))
        end)
  | KCompNode => Err "Unsupported"
  | KGeneric => bind (kwargs dec) (fun a => Ok (PObj m q (ctor_norm q a)))
  end.

Definition decode_dict (d : list (py * py)) (dec : list (py * res py)) : res py :=
  match dget QUAL d, dget MOD d with
  | Some qv, Some mv =>
      match qv with
      | PStr q =>
          if String.eqb q "tuple" then decode_tuple dec
          else match mv with PStr m => decode_obj m q d dec | _ => Err "Unsupported" end
      | _ => Err "Unsupported"
      end
  | _, _ => bind (mapM (fun kv => bind (snd kv) (fun v => Ok (fst kv, v))) dec) (fun e => Ok (PDict e))
  end.

Fixpoint from_repr (r : py) : res py :=
  match r with
  | PDict d => decode_dict d (map (fun kv => (fst kv, from_repr (snd kv))) d)
  | PList l => bind (mapM (fun x => x) (map from_repr l)) (fun vs => Ok (PList vs))
  | PStr _ | PInt _ | PFloat _ | PBool _ => Ok r
  | _ => Ok PNone                      (* falls through every isinstance test: returns None *)
  end.

(* the whole trip of HttpCommunicationLayer.send_msg -> MPCHttpHandler.do_POST *)
Definition wire (nan : bool) (v : py) : res py :=
  bind (simple_repr v) (fun r => bind (json_rt nan r) from_repr).

(* ---------- AgentDef pickling: __getstate__ / __setstate__ (repaired code) ---------- *)
Definition AGENT_FIELDS := ["name"; "default_route"; "routes"; "default_hosting_cost"; "hosting_costs"; "*attr"].
Definition getstate (f : list (string * py)) : list py :=
  map (fun n => match slookup n f with Some v => v | None => PMissing end) AGENT_FIELDS.
Definition setstate (st : list py) : list (string * py) := combine AGENT_FIELDS st.
Definition pickle_rt (v : py) : res py :=
  match v with
  | PObj m q f => match kind_of m q with
                  | KAgentDef => Ok (PObj m q (setstate (getstate f)))
                  | _ => Err "Unsupported"
                  end
  | _ => Err "Unsupported"
  end.

(* ---------- correspondence ---------- *)
Inductive outcome := OOk (v : py) | OErr (e : string).
Definition outcome_eqb (r : res py) (o : outcome) : bool :=
  match r, o with
  | Ok v, OOk w => py_eqb v w
  | Err e, OErr e' => String.eqb e e'
  | _, _ => false
  end.

Inductive item :=
| IWire (nan : bool) (v : py) (r : outcome) (o : outcome)
      (* object v: observed simple_repr(v) and observed from_repr(json(simple_repr v)) *)
| IPickle (v : py) (o : outcome)
| IDecode (r : py) (o : outcome).   (* from_repr applied to a (possibly malformed) repr *)

Definition check_item (i : item) : bool :=
  match i with
  | IWire nan v r o => outcome_eqb (simple_repr v) r && outcome_eqb (wire nan v) o
  | IPickle v o => outcome_eqb (pickle_rt v) o
  | IDecode r o => outcome_eqb (from_repr r) o
  end.

Definition case := list item.
Definition check_case (c : case) : bool := forallb check_item c.
