(* M_OrchDpop.v -- the link between the two layers of an orchestrated DPOP solve (C22):
   the DPOP computations (M_Dpop over Net.v) and the orchestrator's management computation
   (M_Orch).  Definitions only; proofs are in P_OrchDpop.v.

   What is modelled here (pydcop/infrastructure/agents.py, orchestratedagents.py):
   - Agent.add_computation wraps every hosted computation: [_on_value_selection] (called by
     value_selection when the value differs from the previous one; this is M_Dpop's EvSelect)
     then calls OrchestratedAgent._on_computation_value_changed, and [finished] (M_Dpop's
     EvFinished) then calls OrchestratedAgent._on_computation_finished;
   - OrchestrationComputation.on_computation_value_changed posts ValueChangeMessage(agent,
     computation, value, cost, cycle) and on_computation_finished posts
     ComputationFinishedMessage(agent, computation) to the orchestrator's _mgt computation, both
     with priority MSG_MGT: [mgmt_of];
   - the variable names / hosting agents of the node ids: [link];
   - the DCOP object handed to the orchestrator (solution_cost's view, M_Orch.dcop) is the same
     problem as the one the computations were built from (M_Dpop.dcop): [dcop_of] (matrix
     constraints flattened row-major, variable costs, same order of variables).
   What the management transport does is NOT modelled but stated as a hypothesis of the
   theorems (P_OrchDpop.transport): per computation, the value/end messages handled by
   AgentsMgt are a prefix of the ones posted, in posting order, and nothing else claims to
   come from a computation.  [fifo_trace] is the thread-mode instance (one queue, global FIFO
   among messages of equal priority). *)
From PyDcop Require Import Base Net M_Dpop M_DpopValid M_Orch.
Open Scope Z_scope.

Record link := mkLink {
  lk_name : Z -> string;     (* name of the variable / computation of a node id *)
  lk_host : Z -> string      (* the agent hosting it (Distribution.agent_for) *)
}.

(* Distribution.agent_for *)
Definition agent_for (c : cfg) (n : string) : string :=
  match find (fun ac => smem n (snd ac)) (g_dist c) with
  | Some ac => fst ac
  | None => EmptyString
  end.
Definition name_of (names : list (Z * string)) (x : Z) : string :=
  match zlookup x names with Some s => s | None => EmptyString end.
Definition link_of (names : list (Z * string)) (c : cfg) : link :=
  mkLink (name_of names) (fun x => agent_for c (name_of names x)).

(* one event of a DPOP computation -> the management messages its agent posts *)
Definition mgmt_of (L : link) (e : M_Dpop.ev) : list M_Orch.ev :=
  match e with
  | EvSelect x v _ => [EValue (lk_host L x) (lk_name L x) v]
  | EvFinished x => [EEnd (lk_host L x) (lk_name L x)]
  | _ => []
  end.

(* the value-selection / finished events of computation x *)
Definition sel_fin (x : Z) (e : M_Dpop.ev) : bool :=
  match e with
  | EvSelect y _ _ => Z.eqb y x
  | EvFinished y => Z.eqb y x
  | _ => false
  end.
(* the management messages posted on behalf of computation x during a run, in posting order *)
Definition posted (L : link) (x : Z) (evs : list M_Dpop.ev) : list M_Orch.ev :=
  flat_map (mgmt_of L) (filter (sel_fin x) evs).

(* the value_change / end_of_computation messages about computation s that AgentsMgt handled *)
Definition about (s : string) (e : M_Orch.ev) : bool :=
  match e with
  | EValue _ c _ => String.eqb c s
  | EEnd _ c => String.eqb c s
  | _ => false
  end.
Definition cproj (s : string) (tr : list (M_Orch.ev * env)) : list M_Orch.ev :=
  filter (about s) (map fst tr).
Definition is_ve (e : M_Orch.ev) : bool :=
  match e with EValue _ _ _ | EEnd _ _ => true | _ => false end.

(* thread mode: every agent posts into the orchestrator's single queue; among messages of equal
   priority the queue is FIFO, so AgentsMgt sees them in the global posting order *)
Definition fifo_trace (L : link) (en : env) (evs : list M_Dpop.ev) : list (M_Orch.ev * env) :=
  map (fun e => (e, en)) (flat_map (mgmt_of L) evs).

(* ---------- the same problem as the orchestrator's DCOP object ---------- *)
Fixpoint flatten (t : tbl) : list Z :=
  match t with
  | Leaf c => [c]
  | Node l => flat_map flatten l
  end.

(* the nested table has the shape of its dimensions (numpy array of shape [D d | d in dims]) *)
Fixpoint shaped (D : Z -> nat) (dims : list Z) (t : tbl) : bool :=
  match dims, t with
  | [], Leaf _ => true
  | d :: r, Node l => Nat.eqb (List.length l) (D d) && forallb (shaped D r) l
  | _, _ => false
  end.
Definition cons_shaped (P : M_Dpop.dcop) : bool :=
  forallb (fun kr => shaped (dsize P) (r_dims (snd kr)) (r_tbl (snd kr))) (dc_cons P).

Definition cons_of (L : link) (P : M_Dpop.dcop) (r : rel) : constraint :=
  mkCons (map (lk_name L) (r_dims r)) (map (fun x => Z.of_nat (dsize P x)) (r_dims r))
         (flatten (r_tbl r)).
Definition dcop_of (L : link) (P : M_Dpop.dcop) (inf : Z) : M_Orch.dcop :=
  mkDcop (map (fun x => (lk_name L x, vcosts P x)) (tree_ids P))
         (map (fun kr => cons_of L P (snd kr)) (dc_cons P)) inf.

(* the cost terms solution_cost accounts for the assignment a: constraints, then variables *)
Definition cost_terms (P : M_Dpop.dcop) (a : asg) : list Z :=
  map (fun kr => eval (snd kr) a) (dc_cons P)
  ++ map (fun x => nth (aval a x) (vcosts P x) 0) (tree_ids P).

(* every select / finished event of the run is about a node of the tree *)
Definition events_in_tree (P : M_Dpop.dcop) (evs : list M_Dpop.ev) : bool :=
  forallb (fun e => match e with
                    | EvSelect y _ _ => zmem y (tree_ids P)
                    | EvFinished y => zmem y (tree_ids P)
                    | _ => true
                    end) evs.

(* ---------- correspondence of the composition ---------- *)
(* A composed case = a C01 case (dcop, pseudo-tree, schedule, recorded events of the real
   DpopAlgo objects) + the names of the nodes + a C22 case (the calls into the real AgentsMgt,
   which received the management messages the real OrchestratedAgents posted for those
   computations through the real orchestrator queue).  Checked: both layers replay; the value /
   end messages AgentsMgt handled are, in order, [mgmt_of] of the events of the DPOP model under
   the same schedule (link + thread-mode transport); the orchestrator's DCOP object is [dcop_of]
   of the DPOP model's dcop (variables up to order); the cost tables have the declared shape. *)
Definition mev_eqb (a b : M_Orch.ev) : bool :=
  match a, b with
  | EValue a1 c1 v1, EValue a2 c2 v2 => String.eqb a1 a2 && String.eqb c1 c2 && Z.eqb v1 v2
  | EEnd a1 c1, EEnd a2 c2 => String.eqb a1 a2 && String.eqb c1 c2
  | _, _ => false
  end.
Definition cons_eqb (a b : constraint) : bool :=
  list_eqb String.eqb (k_scope a) (k_scope b) && list_eqb Z.eqb (k_dims a) (k_dims b)
  && list_eqb Z.eqb (k_table a) (k_table b).
Definition var_eqb (a b : string * list Z) : bool :=
  String.eqb (fst a) (fst b) && list_eqb Z.eqb (snd a) (snd b).
Definition dcop_same (a b : M_Orch.dcop) : bool :=
  list_eqb cons_eqb (d_cons a) (d_cons b) && Z.eqb (d_infinity a) (d_infinity b)
  && Nat.eqb (List.length (d_vars a)) (List.length (d_vars b))
  && forallb (fun v => existsb (var_eqb v) (d_vars b)) (d_vars a).

Record ccase := mkCC {
  cc_dpop : M_Dpop.case;
  cc_names : list (Z * string);
  cc_orch : M_Orch.case
}.
Definition check_ccase (k : ccase) : bool :=
  let P := M_Dpop.c_dcop (cc_dpop k) in
  let o := cc_orch k in
  let L := link_of (cc_names k) (c_cfg o) in
  let evs := snd (Net.run (dpop_proto P) (c_sched (cc_dpop k))) in
  M_DpopValid.check_case (cc_dpop k) && M_Orch.check_case o && cons_shaped P
  && list_eqb mev_eqb (filter is_ve (map o_ev (c_trace o))) (flat_map (mgmt_of L) evs)
  && dcop_same (dcop_of L P (d_infinity (M_Orch.c_dcop o))) (M_Orch.c_dcop o).

Inductive case2 := COrch (k : M_Orch.case) | CComp (k : ccase).
Definition check_case2 (c : case2) : bool :=
  match c with
  | COrch k => M_Orch.check_case k
  | CComp k => check_ccase k
  end.
