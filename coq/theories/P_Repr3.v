(* P_Repr3.v -- C15 deepening, part 2: the well-formedness predicate [wf] covering every kind of
   value the model knows (tuples, namedtuples, generic classes incl. Domain / Link / ConstraintLink,
   and every hand-written repr) and the building blocks of the general round-trip theorem. *)
From PyDcop Require Import Base P_Base M_AgentDef M_Repr P_Repr P_Repr2.
Open Scope string_scope.
Open Scope list_scope.
Arguments MOD : simpl never.
Arguments QUAL : simpl never.

(* ---------- the well-formedness predicate ---------- *)
Definition is_nil {A} (l : list A) : bool := match l with [] => true | _ => false end.
Definition is_list (v : py) : bool := match v with PList _ => true | _ => false end.
Definition not_none (v : py) : bool := match v with PNone => false | _ => true end.

(* constructor conversions of the generic classes (M_Repr.ctor_norm), per field *)
Definition set_field (q n : string) : bool :=
  (String.eqb q "Link" || String.eqb q "ConstraintLink") && String.eqb n "nodes".
Definition tuple_field (q n : string) : bool := String.eqb q "Domain" && String.eqb n "values".

(* MaxSumMessage(costs): keys = scalars (sent raw in a tuple, must be hashable), values sent raw *)
Definition maxsum_ok (nan : bool) (d : list (py * py)) : bool :=
  negb (is_nil d) && forallb (scalar_ok nan) (map fst d) && nodupb py_eqb (map fst d)
  && forallb (plain nan) (map snd d).

(* Mgm2OfferMessage(offers, is_offering): offers = {(my value, partner value): gain}; the offers are
   only transmitted when is_offering is true *)
Definition offer_key_ok (nan : bool) (k : py) : bool :=
  match k with PTuple l => forallb (plain nan) l | _ => false end.
Definition mgm2_ok (nan : bool) (d : list (py * py)) (b : py) : bool :=
  plain nan b && (is_nil d || truthy b) && forallb (offer_key_ok nan) (map fst d)
  && nodupb py_eqb (map fst d) && forallb (plain nan) (map snd d).

Definition AGENT_NAMED := ["name"; "default_route"; "routes"; "default_hosting_cost"; "hosting_costs"].

(* the field names of an ordered-graph node: constructor arguments, then the order links *)
Fixpoint ordered_names_ok (ns : list string) : bool :=
  match ns with
  | [] => false
  | [x] => String.eqb x "*order_links"
  | x :: r => negb (is_hidden x) && negb (reserved x) && negb (String.eqb x "order_links")
              && negb (existsb (String.eqb x) r) && ordered_names_ok r
  end.

(* keys of VariableWithCostDict.costs: scalars (finite floats: a dict KEY inf/nan is not rendered by the
   model) whose JSON renderings are pairwise distinct *)
Definition jkey (k : py) : string := match json_key k with Ok s => s | Err _ => "" end.
Definition cost_keys_ok (ks : list py) : bool :=
  forallb (scalar_ok false) ks && nodupb py_eqb ks && nodupb String.eqb (map jkey ks)
  && negb (existsb (String.eqb QUAL) (map jkey ks) && existsb (String.eqb MOD) (map jkey ks)).

Definition str3 (a b c x y z : string) : bool := String.eqb a x && String.eqb b y && String.eqb c z.

Fixpoint wf (nan : bool) (v : py) {struct v} : bool :=
  match v with
  | PNone | PBool _ | PInt _ | PStr _ => true
  | PFloat r => float_ok nan r
  | PList l => forallb (wf nan) l
  | PTuple l => forallb (wf nan) l
  | PDict d =>
      forallb (fun kv => is_str (fst kv)) d
      && nodupb String.eqb (map (fun kv => key_string (fst kv)) d)
      && negb (existsb (String.eqb QUAL) (map (fun kv => key_string (fst kv)) d)
               && existsb (String.eqb MOD) (map (fun kv => key_string (fst kv)) d))
      && forallb (fun kv => wf nan (snd kv)) d
  | PNamed m q f =>
      match kind_of m q with KNamedTuple => true | _ => false end
      && names_ok (map fst f) && forallb (fun nv => plain nan (snd nv) && plain_dec (snd nv)) f
  | PMsg t f =>
      names_ok (map fst f) && forallb (fun n => negb (String.eqb n "__type__")) (map fst f)
      && forallb (fun nv => wf nan (snd nv)) f
  | PObj m q f =>
      match kind_of m q with
      | KGeneric =>
          negb (String.eqb q "tuple") && names_ok (map fst f)
          && forallb (fun nv => negb (is_hidden (fst nv))) f
          && forallb (fun nv =>
                        if set_field q (fst nv)
                        then match snd nv with PSet l => forallb (wf nan) l | _ => false end
                        else wf nan (snd nv) && negb (tuple_field q (fst nv) && is_list (snd nv))) f
      | KMaxSum =>
          match f with [(n, PDict d)] => String.eqb n "costs" && maxsum_ok nan d | _ => false end
      | KMgm2Offer =>
          match f with
          | [(n1, PDict d); (n2, b)] => String.eqb n1 "offers" && String.eqb n2 "is_offering" && mgm2_ok nan d b
          | _ => false
          end
      | KPTLink =>
          match f with
          | [(n1, t); (n2, s); (n3, g)] =>
              str3 n1 n2 n3 "link_type" "source" "target" && type_in t PT_TYPES
              && wf nan s && hashable s && wf nan g && hashable g
          | _ => false
          end
      | KOrderLink =>
          match f with
          | [(n1, t); (n2, s); (n3, g)] =>
              str3 n1 n2 n3 "link_type" "source" "target" && type_in t ORDER_TYPES
              && wf nan s && hashable s && wf nan g && hashable g
          | _ => false
          end
      | KFGLink =>
          match f with
          | [(n1, s); (n2, g)] =>
              String.eqb n1 "factor_node" && String.eqb n2 "variable_node"
              && wf nan s && hashable s && wf nan g && hashable g
          | _ => false
          end
      | KAlgoDef =>
          match f with
          | [(n1, a); (n2, p); (n3, mo)] =>
              str3 n1 n2 n3 "algo" "params" "mode" && wf nan a && plain nan p && wf nan mo
          | _ => false
          end
      | KExprFn =>
          match f with
          | [(n1, e); (n2, sf); (n3, fv)] =>
              str3 n1 n2 n3 "expression" "source_file" "fixed_vars" && wf nan e && wf nan sf && plain nan fv
          | _ => false
          end
      | KAgentDef =>
          match f with
          | [(n1, n); (n2, dr); (n3, r); (n4, dh); (n5, h); (n6, PDict a)] =>
              str3 n1 n2 n3 "name" "default_route" "routes"
              && str3 n4 n5 n6 "default_hosting_cost" "hosting_costs" "*attr"
              && wf nan n && wf nan dr && wf nan r && not_none r && wf nan dh && wf nan h && not_none h
              && forallb (fun kv => is_str (fst kv)) a
              && names_ok (AGENT_NAMED ++ map (fun kv => key_string (fst kv)) a)
              && forallb (fun kv => wf nan (snd kv)) a
          | _ => false
          end
      | KOrderedNode => ordered_names_ok (map fst f) && forallb (fun nv => wf nan (snd nv)) f
      | KVarCostDict =>
          names_ok (map fst f) && forallb (fun nv => negb (is_hidden (fst nv))) f
          && forallb (fun n => negb (String.eqb n "cost_values")) (map fst f)
          && existsb (String.eqb "costs") (map fst f)
          && forallb (fun nv =>
                        if String.eqb (fst nv) "costs"
                        then match snd nv with
                             | PDict d => cost_keys_ok (map fst d) && forallb (fun kv => wf nan (snd kv)) d
                             | _ => false
                             end
                        else wf nan (snd nv)) f
      | KNamedTuple | KMsgFactory | KCompNode => false
      end
  | PSet _ | PMissing => false
  end.

(* a set is allowed in the positions where the constructor rebuilds it (Link.nodes) *)
Definition wfw (nan : bool) (v : py) : bool :=
  match v with PSet l => forallb (wf nan) l | _ => wf nan v end.
Definition dec_of (v : py) : py := match v with PSet l => PList l | _ => v end.

Definition TW (nan : bool) (v s r w : py) : Prop :=
  simple_repr v = Ok s /\ json_rt nan s = Ok r /\ from_repr r = Ok w.

Lemma wf_wfw nan v : wf nan v = true -> wfw nan v = true /\ dec_of v = v.
Proof. destruct v; cbn; auto; discriminate. Qed.

Lemma safe_wf nan v : safe nan v = true -> wf nan v = true.
Proof.
  induction v using py_ind'; cbn [safe wf]; intros HS; auto; try discriminate.
  - revert HS. induction H as [|x l Hx Hl IH]; cbn [forallb]; auto. intros HS.
    apply andb_true_iff in HS as [? ?]. apply andb_true_iff; auto.
  - apply andb_true_iff in HS as [HS S4]. rewrite HS. cbn [andb].
    revert S4. clear -H. induction H as [|x l Hx Hl IH]; cbn [forallb]; auto. intros HS.
    apply andb_true_iff in HS as [? ?]. apply andb_true_iff; auto.
  - destruct (kind_of m q); try discriminate. cbn [andb] in HS.
    apply andb_true_iff in HS as [HS S5]. apply andb_true_iff in HS as [HS S4].
    apply andb_true_iff in HS as [S2 S3]. rewrite S3, S4.
    unfold norm_free in S2. apply negb_true_iff in S2.
    apply orb_false_iff in S2 as [S2 Q4]. apply orb_false_iff in S2 as [S2 Q3]. apply orb_false_iff in S2 as [Q1 Q2].
    rewrite Q4. cbn [negb andb].
    revert S5. clear -H Q1 Q2 Q3. induction H as [|x l Hx Hl IH]; cbn [forallb]; auto. intros HS.
    apply andb_true_iff in HS as [? ?]. apply andb_true_iff; split; auto.
    unfold set_field, tuple_field. rewrite Q1, Q2, Q3. cbn [orb andb negb]. rewrite Hx; auto.
  - apply andb_true_iff in HS as [HS S3]. rewrite HS. cbn [andb].
    revert S3. clear -H. induction H as [|x l Hx Hl IH]; cbn [forallb]; auto. intros HS.
    apply andb_true_iff in HS as [? ?]. apply andb_true_iff; auto.
Qed.

(* ---------- generic plumbing ---------- *)
Lemma Forall_forallb_mp {A} (P : A -> Prop) (b : A -> bool) (l : list A) :
  Forall (fun x => b x = true -> P x) l -> forallb b l = true -> Forall P l.
Proof.
  induction 1 as [|x r Hx Hr IH]; cbn [forallb]; intros H; constructor;
    apply andb_true_iff in H as [H1 H2]; auto.
Qed.

Lemma fields_TW {K} nan (f : list (K * py)) :
  Forall (fun nv => exists s r, TW nan (snd nv) s r (dec_of (snd nv))) f ->
  exists fs fr : list (K * py),
    map (fun nv => (fst nv, simple_repr (snd nv))) f = map (fun ns => (fst ns, Ok (snd ns))) fs
    /\ map fst fs = map fst f
    /\ map (fun ns => (fst ns, json_rt nan (snd ns))) fs = map (fun nr => (fst nr, Ok (snd nr))) fr
    /\ map fst fr = map fst f
    /\ map (fun nr => (fst nr, from_repr (snd nr))) fr = map (fun nv => (fst nv, Ok (dec_of (snd nv)))) f.
Proof.
  induction 1 as [|[n v] l Hv Hl IH].
  - exists [], []. cbn. auto.
  - destruct Hv as (s & r & Hs1 & Hs2 & Hs3). destruct IH as (fs & fr & E1 & E2 & E3 & E4 & E5).
    cbn [fst snd] in *. exists ((n, s) :: fs), ((n, r) :: fr). cbn [map fst snd].
    rewrite Hs1, Hs2, Hs3, E1, E2, E3, E4, E5. auto.
Qed.

Lemma dec_of_fields {K} nan (f : list (K * py)) :
  forallb (fun nv => wf nan (snd nv)) f = true ->
  map (fun nv => (fst nv, Ok (dec_of (snd nv)))) f = map (fun nv => (fst nv, Ok (snd nv))) f.
Proof.
  induction f as [|[n v] r IH]; cbn [forallb map fst snd]; auto. intros H.
  apply andb_true_iff in H as [H1 H2]. rewrite (proj2 (wf_wfw nan v H1)), IH; auto.
Qed.

Definition IHP (nan : bool) (v : py) : Prop :=
  wfw nan v = true -> exists s r, TW nan v s r (dec_of v).

Lemma IH_fields {K} nan (f : list (K * py)) :
  Forall (fun nv => IHP nan (snd nv)) f -> forallb (fun nv => wf nan (snd nv)) f = true ->
  Forall (fun nv => exists s r, TW nan (snd nv) s r (dec_of (snd nv))) f.
Proof.
  intros HF HS. eapply Forall_forallb_mp; [|exact HS]. eapply Forall_impl; [|exact HF].
  intros [n v] HP Hw. apply HP. apply wf_wfw. exact Hw.
Qed.

(* fields all well-formed: the three passes field by field *)
Lemma fields_T2 {K} nan (f : list (K * py)) :
  Forall (fun nv => IHP nan (snd nv)) f -> forallb (fun nv => wf nan (snd nv)) f = true ->
  exists fs fr : list (K * py),
    map (fun nv => (fst nv, simple_repr (snd nv))) f = map (fun ns => (fst ns, Ok (snd ns))) fs
    /\ map fst fs = map fst f
    /\ map (fun ns => (fst ns, json_rt nan (snd ns))) fs = map (fun nr => (fst nr, Ok (snd nr))) fr
    /\ map fst fr = map fst f
    /\ map (fun nr => (fst nr, from_repr (snd nr))) fr = map (fun nv => (fst nv, Ok (snd nv))) f.
Proof.
  intros HF HS. destruct (fields_TW nan f (IH_fields nan f HF HS)) as (fs & fr & E1 & E2 & E3 & E4 & E5).
  exists fs, fr. rewrite (dec_of_fields nan f HS) in E5. auto.
Qed.

Lemma IH_one nan v : IHP nan v -> wf nan v = true -> exists s r, T nan v s r.
Proof.
  intros HP Hw. destruct (wf_wfw nan v Hw) as [W D]. destruct (HP W) as (s & r & H). rewrite D in H.
  exists s, r. exact H.
Qed.

Lemma list_T2 nan l :
  Forall (IHP nan) l -> forallb (wf nan) l = true ->
  exists ss rs, map simple_repr l = map Ok ss /\ map (json_rt nan) ss = map Ok rs
                /\ map from_repr rs = map Ok l.
Proof.
  induction 1 as [|v l Hv Hl IH]; cbn [forallb]; intros Hs.
  - exists [], []. auto.
  - apply andb_true_iff in Hs as [H1 H2]. destruct (IH_one nan v Hv H1) as (s & r & Hs1 & Hs2 & Hs3).
    destruct (IH H2) as (ss & rs & E1 & E2 & E3).
    exists (s :: ss), (r :: rs). cbn [map]. rewrite Hs1, Hs2, Hs3, E1, E2, E3. auto.
Qed.

(* ---------- lookups in string-keyed dicts ---------- *)
Lemma dget_skeys k (e : list (string * py)) : dget k (skeys e) = slookup k e.
Proof.
  unfold skeys, slookup. induction e as [|[n a] r IH]; cbn [map dget lookup fst snd]; auto.
  destruct (String.eqb k n); auto.
Qed.

Lemma dget_dec {A B} k (g : A -> B) (e : list (string * A)) :
  dget k (map (fun ns => (PStr (fst ns), g (snd ns))) e) = option_map g (slookup k e).
Proof.
  unfold slookup. induction e as [|[n a] r IH]; cbn [map dget lookup fst snd option_map]; auto.
  destruct (String.eqb k n); auto.
Qed.

Lemma slookup_app {V} k (a b : list (string * V)) :
  slookup k (a ++ b) = match slookup k a with Some v => Some v | None => slookup k b end.
Proof.
  unfold slookup. induction a as [|[n x] r IH]; cbn [app lookup]; auto. destruct (String.eqb k n); auto.
Qed.

Lemma slookup_notin {V} k (a : list (string * V)) :
  existsb (String.eqb k) (map fst a) = false -> slookup k a = None.
Proof.
  unfold slookup. induction a as [|[n x] r IH]; cbn [map fst existsb lookup]; auto. intros H.
  apply orb_false_iff in H as [H1 H2]. rewrite H1. auto.
Qed.

Lemma filter_skeys_dec {A} (P : string -> bool) (h : string * A -> res py) (e : list (string * A)) :
  filter (fun kv : py * res py => match fst kv with PStr s => P s | _ => true end)
         (map (fun nv => (PStr (fst nv), h nv)) e)
  = map (fun nv => (PStr (fst nv), h nv)) (filter (fun nv => P (fst nv)) e).
Proof.
  induction e as [|[n a] r IH]; cbn [map filter fst]; auto. destruct (P n); cbn [map fst]; now rewrite IH.
Qed.

Lemma kwargs_gen (e : list (string * py)) :
  kwargs (map (fun nv => (PStr (fst nv), Ok (snd nv))) e)
  = Ok (filter (fun nv => negb (reserved (fst nv))) e).
Proof.
  unfold kwargs. rewrite (filter_skeys_dec (fun s => negb (reserved s)) (fun nv => Ok (snd nv))).
  induction (filter (fun nv : string * py => negb (reserved (fst nv))) e) as [|[n a] r IH]; [apply mapM_nil|].
  cbn [map]. rewrite mapM_cons. cbn [fst snd key_str bind]. rewrite IH. reflexivity.
Qed.

(* mapM part of kwargs on entries that are already filtered *)
Lemma kwargs_mapM (e : list (string * py)) :
  mapM (fun kv : py * res py => bind (key_str (fst kv)) (fun k => bind (snd kv) (fun v => Ok (k, v))))
       (map (fun nv => (PStr (fst nv), Ok (snd nv))) e) = Ok e.
Proof.
  induction e as [|[n a] r IH]; [apply mapM_nil|].
  cbn [map]. rewrite mapM_cons. cbn [fst snd key_str bind]. rewrite IH. reflexivity.
Qed.

Lemma filter_all {A} (P : A -> bool) (l : list A) : forallb P l = true -> filter P l = l.
Proof.
  induction l as [|x r IH]; cbn [forallb filter]; auto. intros H. apply andb_true_iff in H as [H1 H2].
  rewrite H1, IH; auto.
Qed.

Lemma forallb_map {A B} (g : A -> B) (P : B -> bool) (l : list A) :
  forallb P (map g l) = forallb (fun x => P (g x)) l.
Proof. induction l as [|x r IH]; cbn [map forallb]; auto. now rewrite IH. Qed.

Lemma kind_tuple m : kind_of m "tuple" = KGeneric.
Proof. reflexivity. Qed.

Lemma kind_not_tuple m q : kind_of m q <> KGeneric -> String.eqb q "tuple" = false.
Proof.
  intros H. destruct (String.eqb q "tuple") eqn:E; auto. apply String.eqb_eq in E. subst. now contradiction H.
Qed.

(* repr of the kinds that use the mixin's _simple_repr (generic, AlgorithmDef, ExpressionFunction) *)
Definition no_missing (f : list (string * py)) : bool :=
  negb (existsb (fun nv : string * py => match snd nv with PMissing => true | _ => false end) f).

Lemma repr_mixin m q (f fs : list (string * py)) :
  match kind_of m q with KGeneric | KAlgoDef | KExprFn => True | _ => False end ->
  forallb (fun nv => negb (is_hidden (fst nv))) f = true -> no_missing f = true ->
  map (fun nv => (fst nv, simple_repr (snd nv))) f = map (fun ns => (fst ns, Ok (snd ns))) fs ->
  simple_repr (PObj m q f) = Ok (PDict (skeys ((MOD, PStr m) :: (QUAL, PStr q) :: fs))).
Proof.
  intros HK HH HM E. cbn [simple_repr]. unfold repr_obj. unfold no_missing in HM. apply negb_true_iff in HM.
  destruct (kind_of m q); try contradiction; rewrite (hidden_nil f HH), HM, E, entries_ok; reflexivity.
Qed.

Lemma wf_not_missing nan v : wf nan v = true -> match v with PMissing => true | _ => false end = false.
Proof. destruct v; auto; discriminate. Qed.
Lemma plain_not_missing nan v : plain nan v = true -> match v with PMissing => true | _ => false end = false.
Proof. destruct v; auto; discriminate. Qed.

Lemma no_missing_wf nan (f : list (string * py)) :
  forallb (fun nv => wfw nan (snd nv)) f = true -> no_missing f = true.
Proof.
  unfold no_missing. induction f as [|[n a] r IH]; cbn [forallb existsb snd]; auto. intros H.
  apply andb_true_iff in H as [H1 H2]. apply negb_true_iff. apply negb_true_iff in IH; auto.
  rewrite IH, orb_false_r. destruct a; auto; discriminate.
Qed.

(* header of an object dict: decode_dict dispatches on it *)
Lemma decode_hdr m q (e : list (string * py)) (dec : list (py * res py)) :
  String.eqb q "tuple" = false ->
  decode_dict (skeys ((MOD, PStr m) :: (QUAL, PStr q) :: e)) dec
  = decode_obj m q (skeys ((MOD, PStr m) :: (QUAL, PStr q) :: e)) dec.
Proof.
  intros H. unfold decode_dict. cbn [skeys map fst snd]. rewrite dget_hdr_qual, dget_hdr_mod, H. reflexivity.
Qed.

(* ---------- dict, message, generic object, namedtuple ---------- *)
Lemma dict_T2 nan (e : list (string * py)) :
  Forall (fun nv => IHP nan (snd nv)) e ->
  forallb (fun nv => wf nan (snd nv)) e = true ->
  nodupb String.eqb (map fst e) = true ->
  negb (existsb (String.eqb QUAL) (map fst e) && existsb (String.eqb MOD) (map fst e)) = true ->
  exists s r, T nan (PDict (skeys e)) s r.
Proof.
  intros HF HS HN HR.
  destruct (fields_T2 nan e HF HS) as (fs & fr & E1 & K1 & E2 & K2 & E3).
  exists (PDict (skeys fs)), (PDict (skeys fr)). repeat split.
  - rewrite simple_repr_dict, (lift_keys _ _ _ E1), mapM_skeys_ok. reflexivity.
  - apply json_dict; auto. now rewrite K1.
  - rewrite from_repr_dict, (lift_keys _ _ _ E3). unfold decode_dict.
    assert (Hk : map (fun kv : py * py => key_string (fst kv)) (skeys fr) = map fst e).
    { rewrite <- K2. unfold skeys. rewrite map_map. reflexivity. }
    destruct (dget QUAL (skeys fr)) eqn:DQ; [destruct (dget MOD (skeys fr)) eqn:DM|].
    + apply dget_some_exists in DQ. apply dget_some_exists in DM. rewrite Hk in DQ, DM.
      rewrite DQ, DM in HR. discriminate.
    + rewrite mapM_skeys_ok. reflexivity.
    + rewrite mapM_skeys_ok. reflexivity.
Qed.

Lemma msg_T2 nan t (f : list (string * py)) :
  names_ok (map fst f) = true ->
  forallb (fun n => negb (String.eqb n "__type__")) (map fst f) = true ->
  Forall (fun nv => IHP nan (snd nv)) f ->
  forallb (fun nv => wf nan (snd nv)) f = true ->
  exists s r, T nan (PMsg t f) s r.
Proof.
  intros HN HT HF HS.
  destruct (fields_T2 nan f HF HS) as (fs & fr & E1 & K1 & E2 & K2 & E3).
  exists (PDict (skeys ((MOD, PStr COMPUTATIONS) :: (QUAL, PStr "message_type") :: ("__type__", PStr t) :: fs))),
         (PDict (skeys ((MOD, PStr COMPUTATIONS) :: (QUAL, PStr "message_type") :: ("__type__", PStr t) :: fr))).
  assert (HT' : forallb (fun n => negb (String.eqb "__type__" n)) (map fst f) = true).
  { clear -HT. induction (map fst f) as [|n r IH]; cbn [forallb] in *; auto.
    apply andb_true_iff in HT as [H1 H2]. rewrite String.eqb_sym, H1. auto. }
  assert (HM : existsb (fun nv : string * py => match snd nv with PMissing => true | _ => false end) f = false).
  { assert (W : forallb (fun nv => wfw nan (snd nv)) f = true).
    { clear -HS. induction f as [|[n a] r IH]; cbn [forallb snd] in *; auto.
      apply andb_true_iff in HS as [H1 H2]. rewrite (proj1 (wf_wfw nan a H1)), IH; auto. }
    apply no_missing_wf in W. unfold no_missing in W. now apply negb_true_iff in W. }
  repeat split.
  - cbn [simple_repr]. rewrite HM, E1, entries_ok. reflexivity.
  - apply json_dict.
    + cbn [map fst snd json_rt]. rewrite E2. reflexivity.
    + cbn [map fst]. rewrite K1.
      assert (names_ok ("__type__" :: map fst f) = true) as HN2.
      { apply names_ok_split in HN as [N R]. unfold names_ok. cbn [nodupb forallb].
        rewrite N, R.
        assert (existsb (String.eqb "__type__") (map fst f) = false) as ->.
        { clear -HT'. induction (map fst f) as [|n r IH]; cbn [existsb forallb] in *; auto.
          apply andb_true_iff in HT' as [H1 H2]. apply negb_true_iff in H1. rewrite H1. auto. }
        reflexivity. }
      now apply nodup_hdr.
  - rewrite from_repr_dict. cbn [map fst snd from_repr]. rewrite (lift_keys _ _ _ E3).
    unfold decode_dict. cbn [skeys map fst snd]. rewrite dget_hdr_qual, dget_hdr_mod.
    change (String.eqb "message_type" "tuple") with false. cbv iota.
    unfold decode_obj. change (kind_of COMPUTATIONS "message_type") with KMsgFactory. cbv iota.
    change (dget "__type__" ((PStr MOD, PStr COMPUTATIONS) :: (PStr QUAL, PStr "message_type")
              :: (PStr "__type__", PStr t) :: map (fun ns : string * py => (PStr (fst ns), snd ns)) fr))
      with (Some (PStr t)).
    cbn [need bind].
    cbn [filter fst].
    change (negb (String.eqb MOD "__type__")) with true.
    change (negb (String.eqb QUAL "__type__")) with true.
    change (negb (String.eqb "__type__" "__type__")) with false. cbv iota.
    rewrite (filter_fields_keep (fun s => negb (String.eqb s "__type__")) f HT).
    unfold kwargs. cbn [filter fst].
    change (negb (reserved MOD)) with false. change (negb (reserved QUAL)) with false. cbv iota.
    apply names_ok_split in HN as [N R].
    rewrite (filter_fields_keep (fun s => negb (reserved s)) f R).
    pose proof (kwargs_fields f R) as KW. unfold kwargs in KW.
    rewrite (filter_fields_keep (fun s => negb (reserved s)) f R) in KW. rewrite KW. reflexivity.
Qed.

Lemma lift_keys_gen {A B C} (g : A -> C) (h : B -> C) (fr : list (string * A)) (f : list (string * B)) :
  map (fun nr => (fst nr, g (snd nr))) fr = map (fun nv => (fst nv, h (snd nv))) f ->
  map (fun nr => (PStr (fst nr), g (snd nr))) fr = map (fun nv => (PStr (fst nv), h (snd nv))) f.
Proof.
  revert f. induction fr as [|[n a] r IH]; intros [|[n' a'] f]; cbn [map fst snd]; intros E; try discriminate; auto.
  inversion E; subst. f_equal. auto.
Qed.

Lemma filter_names_all {A} (P : string -> bool) (f : list (string * A)) :
  forallb P (map fst f) = true -> filter (fun nv => P (fst nv)) f = f.
Proof. intros H. apply filter_all. now rewrite forallb_map in H. Qed.

(* ---------- generic classes, including the constructor conversions ---------- *)
Definition fwf (nan : bool) (q : string) (nv : string * py) : bool :=
  if set_field q (fst nv)
  then match snd nv with PSet l => forallb (wf nan) l | _ => false end
  else wf nan (snd nv) && negb (tuple_field q (fst nv) && is_list (snd nv)).

Lemma fwf_wfw nan q (f : list (string * py)) :
  forallb (fwf nan q) f = true -> forallb (fun nv => wfw nan (snd nv)) f = true.
Proof.
  induction f as [|[n v] r IH]; cbn [forallb snd]; auto. intros H. apply andb_true_iff in H as [H1 H2].
  rewrite (IH H2), andb_true_r. unfold fwf in H1. cbn [fst snd] in H1. destruct (set_field q n).
  - destruct v; try discriminate. exact H1.
  - apply andb_true_iff in H1 as [H1 _]. now apply wf_wfw.
Qed.

Lemma ctor_norm_dec nan q (f : list (string * py)) :
  forallb (fwf nan q) f = true ->
  ctor_norm q (map (fun nv => (fst nv, dec_of (snd nv))) f) = f.
Proof.
  intros H. unfold ctor_norm.
  destruct (String.eqb q "Domain") eqn:QD; [|destruct (String.eqb q "Link" || String.eqb q "ConstraintLink") eqn:QL].
  - apply String.eqb_eq in QD. subst q. rewrite map_map. cbn [fst snd].
    induction f as [|[n v] r IH]; cbn [map forallb fst snd] in *; auto.
    apply andb_true_iff in H as [H1 H2]. rewrite (IH H2). f_equal.
    unfold fwf, set_field, tuple_field in H1. cbn [fst snd] in H1.
    change (String.eqb "Domain" "Link" || String.eqb "Domain" "ConstraintLink") with false in H1.
    change (String.eqb "Domain" "Domain") with true in H1. cbn [andb] in H1.
    apply andb_true_iff in H1 as [W L]. destruct (String.eqb n "values"); destruct v; cbn in *; try discriminate; reflexivity.
  - rewrite map_map. cbn [fst snd].
    induction f as [|[n v] r IH]; cbn [map forallb fst snd] in *; auto.
    apply andb_true_iff in H as [H1 H2]. rewrite (IH H2). f_equal.
    unfold fwf, set_field, tuple_field in H1. cbn [fst snd] in H1. rewrite QL, QD in H1. cbn [andb] in H1.
    destruct (String.eqb n "nodes").
    + destruct v; try discriminate. reflexivity.
    + rewrite andb_true_r in H1. now rewrite (proj2 (wf_wfw nan v H1)).
  - induction f as [|[n v] r IH]; cbn [map forallb fst snd] in *; auto.
    apply andb_true_iff in H as [H1 H2]. rewrite (IH H2). f_equal.
    unfold fwf, set_field, tuple_field in H1. cbn [fst snd] in H1. rewrite QL, QD in H1. cbn [andb] in H1.
    rewrite andb_true_r in H1. now rewrite (proj2 (wf_wfw nan v H1)).
Qed.

Lemma obj_T2 nan m q (f : list (string * py)) :
  kind_of m q = KGeneric -> String.eqb q "tuple" = false -> names_ok (map fst f) = true ->
  forallb (fun nv => negb (is_hidden (fst nv))) f = true ->
  Forall (fun nv => IHP nan (snd nv)) f ->
  forallb (fwf nan q) f = true ->
  exists s r, T nan (PObj m q f) s r.
Proof.
  intros HK HQ HN HH HF HS.
  pose proof (fwf_wfw nan q f HS) as HW.
  assert (HE : Forall (fun nv => exists s r, TW nan (snd nv) s r (dec_of (snd nv))) f).
  { eapply Forall_forallb_mp; [|exact HW]. exact HF. }
  destruct (fields_TW nan f HE) as (fs & fr & E1 & K1 & E2 & K2 & E3).
  exists (PDict (skeys ((MOD, PStr m) :: (QUAL, PStr q) :: fs))),
         (PDict (skeys ((MOD, PStr m) :: (QUAL, PStr q) :: fr))).
  repeat split.
  - apply repr_mixin; auto. now rewrite HK. now apply (no_missing_wf nan).
  - apply json_dict.
    + cbn [map fst snd json_rt]. rewrite E2. reflexivity.
    + cbn [map fst]. rewrite K1. now apply nodup_hdr.
  - rewrite from_repr_dict. cbn [map fst snd from_repr]. rewrite (lift_keys_gen _ (fun v => Ok (dec_of v)) _ _ E3).
    rewrite (decode_hdr m q fr _ HQ). unfold decode_obj. rewrite HK.
    unfold kwargs. cbn [filter fst].
    change (negb (reserved MOD)) with false. change (negb (reserved QUAL)) with false. cbv iota.
    apply names_ok_split in HN as [N R].
    rewrite (filter_skeys_dec (fun s => negb (reserved s)) (fun nv : string * py => Ok (dec_of (snd nv)))).
    rewrite (filter_names_all (fun s => negb (reserved s)) f R).
    pose proof (kwargs_mapM (map (fun nv : string * py => (fst nv, dec_of (snd nv))) f)) as KW.
    rewrite map_map in KW. cbn [fst snd] in KW. rewrite KW. cbn [bind].
    now rewrite (ctor_norm_dec nan q f HS).
Qed.

(* ---------- namedtuple: the field values travel raw ---------- *)
Lemma named_T nan m q (f : list (string * py)) :
  kind_of m q = KNamedTuple -> names_ok (map fst f) = true ->
  forallb (fun nv => plain nan (snd nv) && plain_dec (snd nv)) f = true ->
  exists s r, T nan (PNamed m q f) s r.
Proof.
  intros HK HN HP.
  assert (HQ : String.eqb q "tuple" = false) by (apply (kind_not_tuple m); rewrite HK; discriminate).
  assert (EJ : map (fun ns : string * py => (fst ns, json_rt nan (snd ns))) f = map (fun nr => (fst nr, Ok (snd nr))) f).
  { clear -HP. induction f as [|[n v] r IH]; cbn [map forallb fst snd] in *; auto.
    apply andb_true_iff in HP as [H1 H2]. apply andb_true_iff in H1 as [H1 _].
    rewrite (plain_json nan v H1), IH; auto. }
  assert (EF : map (fun ns : string * py => (PStr (fst ns), from_repr (snd ns))) f = map (fun nr => (PStr (fst nr), Ok (snd nr))) f).
  { clear -HP. induction f as [|[n v] r IH]; cbn [map forallb fst snd] in *; auto.
    apply andb_true_iff in HP as [H1 H2]. apply andb_true_iff in H1 as [H1 H3].
    rewrite (plain_from_repr nan v H1 H3), IH; auto. }
  pose proof (names_ok_split _ HN) as [N R].
  exists (PDict (skeys (f ++ [(MOD, PStr m); (QUAL, PStr q)]))), (PDict (skeys (f ++ [(MOD, PStr m); (QUAL, PStr q)]))).
  repeat split.
  - cbn [simple_repr]. unfold skeys, hdr. rewrite map_app. reflexivity.
  - apply json_dict.
    + rewrite !map_app, EJ. reflexivity.
    + rewrite map_app. cbn [map fst].
      clear -HN. apply names_ok_split in HN as [N R].
      induction (map fst f) as [|n r IH]; [reflexivity|].
      cbn [nodupb forallb app] in *. apply andb_true_iff in N as [N1 N2]. apply andb_true_iff in R as [R1 R2].
      rewrite (IH N2 R2), andb_true_r. apply negb_true_iff. apply negb_true_iff in N1.
      rewrite existsb_app, N1. cbn [existsb orb].
      unfold reserved in R1. apply negb_true_iff in R1. apply orb_false_iff in R1 as [A B]. now rewrite A, B.
  - rewrite from_repr_dict. rewrite map_app, EF. cbn [map fst snd from_repr].
    unfold decode_dict, skeys. rewrite map_app. cbn [map fst snd].
    rewrite (dget_skeys_notin QUAL f (fun ns => snd ns)) by (apply names_not; auto; intros n Hn; now apply not_reserved_neq).
    rewrite (dget_skeys_notin MOD f (fun ns => snd ns)) by (apply names_not; auto; intros n Hn; now apply not_reserved_neq).
    cbn [dget]. change (String.eqb QUAL MOD) with false. change (String.eqb QUAL QUAL) with true.
    change (String.eqb MOD MOD) with true. cbv iota. rewrite HQ.
    unfold decode_obj. rewrite HK.
    change ([(PStr MOD, Ok (PStr m)); (PStr QUAL, Ok (PStr q))])
      with (map (fun nr : string * py => (PStr (fst nr), Ok (snd nr))) [(MOD, PStr m); (QUAL, PStr q)]).
    rewrite <- map_app, kwargs_gen, filter_app. cbn [filter fst].
    change (negb (reserved MOD)) with false. change (negb (reserved QUAL)) with false. cbv iota.
    rewrite app_nil_r, (filter_names_all (fun s => negb (reserved s)) f R). reflexivity.
Qed.

(* ---------- MaxSumMessage ---------- *)
Lemma combine_fst_snd {A B} (d : list (A * B)) : combine (map fst d) (map snd d) = d.
Proof. induction d as [|[a b] r IH]; cbn; auto. now rewrite IH. Qed.

Lemma scalar_hashable nan ks : forallb (scalar_ok nan) ks = true -> forallb hashable ks = true.
Proof.
  induction ks as [|k r IH]; cbn [forallb]; auto. intros H. apply andb_true_iff in H as [H1 H2].
  rewrite (IH H2), andb_true_r. destruct k; auto; discriminate.
Qed.

Lemma scalar_plain nan ks : forallb (scalar_ok nan) ks = true -> forallb (plain nan) ks = true.
Proof.
  induction ks as [|k r IH]; cbn [forallb]; auto. intros H. apply andb_true_iff in H as [H1 H2].
  rewrite (IH H2), andb_true_r. destruct k; auto; discriminate.
Qed.

Lemma json_tuple_plain nan l : forallb (plain nan) l = true -> json_rt nan (PTuple l) = Ok (PList l).
Proof. intros H. cbn [json_rt]. rewrite (plain_list_json nan l H), mapM_ok. reflexivity. Qed.

Lemma decode_maxsum m q ks vs dec :
  kind_of m q = KMaxSum ->
  decode_obj m q (skeys [(MOD, PStr m); (QUAL, PStr q); ("vals", PList ks); ("costs", PList vs)]) dec
  = bind (zip_dict ks vs) (fun c => Ok (PObj m q [("costs", c)])).
Proof. intros H. unfold decode_obj. rewrite H. reflexivity. Qed.

Lemma maxsum_T nan m q d :
  kind_of m q = KMaxSum -> maxsum_ok nan d = true ->
  exists s r, T nan (PObj m q [("costs", PDict d)]) s r.
Proof.
  intros HK H. unfold maxsum_ok in H.
  apply andb_true_iff in H as [H H4]. apply andb_true_iff in H as [H H3]. apply andb_true_iff in H as [H1 H2].
  assert (HQ : String.eqb q "tuple" = false) by (apply (kind_not_tuple m); rewrite HK; discriminate).
  exists (PDict (skeys [(MOD, PStr m); (QUAL, PStr q); ("vals", PTuple (map fst d)); ("costs", PTuple (map snd d))])),
         (PDict (skeys [(MOD, PStr m); (QUAL, PStr q); ("vals", PList (map fst d)); ("costs", PList (map snd d))])).
  repeat split.
  - cbn [simple_repr]. unfold repr_obj. rewrite HK. destruct d; [discriminate|]. reflexivity.
  - apply json_dict; [|reflexivity]. cbn [map fst snd].
    rewrite (json_tuple_plain nan _ (scalar_plain nan _ H2)), (json_tuple_plain nan _ H4). reflexivity.
  - rewrite from_repr_dict, (decode_hdr m q _ _ HQ), (decode_maxsum m q _ _ _ HK).
    unfold zip_dict. rewrite (scalar_hashable nan _ H2), H3, combine_fst_snd. reflexivity.
Qed.

(* ---------- Mgm2OfferMessage ---------- *)
Definition untuple (k : py) : py := match k with PTuple l => PList l | _ => k end.

Lemma json_offer_keys nan ks :
  forallb (offer_key_ok nan) ks = true -> map (json_rt nan) ks = map Ok (map untuple ks).
Proof.
  induction ks as [|k r IH]; cbn [forallb map]; auto. intros H. apply andb_true_iff in H as [H1 H2].
  rewrite (IH H2). destruct k; try discriminate. cbn [offer_key_ok] in H1.
  now rewrite (json_tuple_plain nan l H1).
Qed.

Lemma retuple_offer_keys nan ks :
  forallb (offer_key_ok nan) ks = true ->
  mapM (fun c => bind (list_items c) (fun l => Ok (PTuple l))) (map untuple ks) = Ok ks.
Proof.
  induction ks as [|k r IH]; cbn [forallb map]; [intros; apply mapM_nil|]. intros H.
  apply andb_true_iff in H as [H1 H2]. rewrite mapM_cons, (IH H2). destruct k; try discriminate. reflexivity.
Qed.

Lemma offer_keys_hashable nan ks : forallb (offer_key_ok nan) ks = true -> forallb hashable ks = true.
Proof.
  induction ks as [|k r IH]; cbn [forallb]; auto. intros H. apply andb_true_iff in H as [H1 H2].
  rewrite (IH H2), andb_true_r. destruct k; auto; discriminate.
Qed.

Lemma decode_mgm2 m q b vv gs dec :
  kind_of m q = KMgm2Offer ->
  decode_obj m q (skeys [(MOD, PStr m); (QUAL, PStr q); ("is_offering", b); ("var_values", PList vv); ("gains", PList gs)]) dec
  = bind (mapM (fun c => bind (list_items c) (fun l => Ok (PTuple l))) vv) (fun ks =>
    bind (zip_dict ks gs) (fun o => Ok (PObj m q [("offers", o); ("is_offering", b)]))).
Proof. intros H. unfold decode_obj. rewrite H. reflexivity. Qed.

Lemma mgm2_T nan m q d b :
  kind_of m q = KMgm2Offer -> mgm2_ok nan d b = true ->
  exists s r, T nan (PObj m q [("offers", PDict d); ("is_offering", b)]) s r.
Proof.
  intros HK H. unfold mgm2_ok in H.
  apply andb_true_iff in H as [H H5]. apply andb_true_iff in H as [H H4]. apply andb_true_iff in H as [H H3].
  apply andb_true_iff in H as [H1 H2].
  assert (HQ : String.eqb q "tuple" = false) by (apply (kind_not_tuple m); rewrite HK; discriminate).
  set (on := truthy b && negb (is_nil d)).
  exists (PDict (skeys [(MOD, PStr m); (QUAL, PStr q); ("is_offering", b);
                        ("var_values", if on then PTuple (map fst d) else PList []);
                        ("gains", if on then PTuple (map snd d) else PList [])])),
         (PDict (skeys [(MOD, PStr m); (QUAL, PStr q); ("is_offering", b);
                        ("var_values", PList (map untuple (map fst d))); ("gains", PList (map snd d))])).
  repeat split.
  - cbn [simple_repr]. unfold repr_obj. rewrite HK. unfold on. destruct d; reflexivity.
  - apply json_dict; [|reflexivity]. cbn [map fst snd]. rewrite (plain_json nan b H1).
    unfold on. destruct d as [|kv d'].
    + rewrite andb_false_r. reflexivity.
    + cbn [is_nil orb] in H2. rewrite H2. cbn [is_nil negb andb].
      rewrite (json_tuple_plain nan _ H5). cbn [json_rt]. rewrite (json_offer_keys nan _ H3), mapM_ok. reflexivity.
  - rewrite from_repr_dict, (decode_hdr m q _ _ HQ), (decode_mgm2 m q _ _ _ _ HK).
    rewrite (retuple_offer_keys nan _ H3). cbn [bind]. unfold zip_dict.
    rewrite (offer_keys_hashable nan _ H3), H4, combine_fst_snd. reflexivity.
Qed.

(* ---------- the three link classes, for arbitrary (hashable, well-formed) end points ---------- *)
Lemma type_in_str t l : type_in t l = true -> exists ts, t = PStr ts.
Proof. destruct t; try discriminate. eauto. Qed.

Lemma ptlink_T nan m q t s g :
  kind_of m q = KPTLink -> type_in t PT_TYPES = true ->
  (exists ss rs, T nan s ss rs) -> hashable s = true ->
  (exists sg rg, T nan g sg rg) -> hashable g = true ->
  exists s0 r0, T nan (PObj m q [("link_type", t); ("source", s); ("target", g)]) s0 r0.
Proof.
  intros HK HT (ss & rs & S1 & S2 & S3) HS (sg & rg & G1 & G2 & G3) HG.
  assert (HQ : String.eqb q "tuple" = false) by (apply (kind_not_tuple m); rewrite HK; discriminate).
  destruct (type_in_str _ _ HT) as (ts & ->).
  exists (PDict (skeys [(MOD, PStr m); (QUAL, PStr q); ("type", PStr ts); ("source", ss); ("target", sg)])),
         (PDict (skeys [(MOD, PStr m); (QUAL, PStr q); ("type", PStr ts); ("source", rs); ("target", rg)])).
  repeat split.
  - cbn [simple_repr]. unfold repr_obj. rewrite HK. cbn [map fst snd]. rewrite S1, G1. reflexivity.
  - apply json_dict; [|reflexivity]. cbn [map fst snd]. rewrite S2, G2. reflexivity.
  - rewrite from_repr_dict, (decode_hdr m q _ _ HQ). cbn [map fst snd]. rewrite S3, G3.
    unfold decode_obj. rewrite HK.
    change (dget "type" _) with (Some (PStr ts)). cbn [need bind].
    change (dget "source" _) with (Some (@Ok py s)). cbn [need bind].
    change (dget "target" _) with (Some (@Ok py g)). cbn [need bind].
    rewrite HT, HS, HG. reflexivity.
Qed.

Lemma orderlink_T nan m q t s g :
  kind_of m q = KOrderLink -> type_in t ORDER_TYPES = true ->
  (exists ss rs, T nan s ss rs) -> hashable s = true ->
  (exists sg rg, T nan g sg rg) -> hashable g = true ->
  exists s0 r0, T nan (PObj m q [("link_type", t); ("source", s); ("target", g)]) s0 r0.
Proof.
  intros HK HT (ss & rs & S1 & S2 & S3) HS (sg & rg & G1 & G2 & G3) HG.
  assert (HQ : String.eqb q "tuple" = false) by (apply (kind_not_tuple m); rewrite HK; discriminate).
  destruct (type_in_str _ _ HT) as (ts & ->).
  exists (PDict (skeys [(MOD, PStr m); (QUAL, PStr q); ("type", PStr ts); ("source", ss); ("target", sg)])),
         (PDict (skeys [(MOD, PStr m); (QUAL, PStr q); ("type", PStr ts); ("source", rs); ("target", rg)])).
  repeat split.
  - cbn [simple_repr]. unfold repr_obj. rewrite HK. cbn [map fst snd]. rewrite S1, G1. reflexivity.
  - apply json_dict; [|reflexivity]. cbn [map fst snd]. rewrite S2, G2. reflexivity.
  - rewrite from_repr_dict, (decode_hdr m q _ _ HQ). cbn [map fst snd]. rewrite S3, G3.
    unfold decode_obj. rewrite HK.
    change (dget "type" _) with (Some (PStr ts)). cbn [need bind].
    change (dget "source" _) with (Some (@Ok py s)). cbn [need bind].
    change (dget "target" _) with (Some (@Ok py g)). cbn [need bind].
    rewrite HT, HS, HG. reflexivity.
Qed.

Lemma fglink_T nan m q s g :
  kind_of m q = KFGLink ->
  (exists ss rs, T nan s ss rs) -> hashable s = true ->
  (exists sg rg, T nan g sg rg) -> hashable g = true ->
  exists s0 r0, T nan (PObj m q [("factor_node", s); ("variable_node", g)]) s0 r0.
Proof.
  intros HK (ss & rs & S1 & S2 & S3) HS (sg & rg & G1 & G2 & G3) HG.
  assert (HQ : String.eqb q "tuple" = false) by (apply (kind_not_tuple m); rewrite HK; discriminate).
  exists (PDict (skeys [(MOD, PStr m); (QUAL, PStr q); ("factor", ss); ("variable", sg)])),
         (PDict (skeys [(MOD, PStr m); (QUAL, PStr q); ("factor", rs); ("variable", rg)])).
  repeat split.
  - cbn [simple_repr]. unfold repr_obj. rewrite HK. cbn [map fst snd]. rewrite S1, G1. reflexivity.
  - apply json_dict; [|reflexivity]. cbn [map fst snd]. rewrite S2, G2. reflexivity.
  - rewrite from_repr_dict, (decode_hdr m q _ _ HQ). cbn [map fst snd]. rewrite S3, G3.
    unfold decode_obj. rewrite HK.
    change (dget "factor" _) with (Some (@Ok py s)). cbn [need bind].
    change (dget "variable" _) with (Some (@Ok py g)). cbn [need bind].
    rewrite HS, HG. reflexivity.
Qed.

(* ---------- AlgorithmDef, ExpressionFunction: one argument is decoded raw ---------- *)
Lemma repr_ok_not_missing v s : simple_repr v = Ok s -> match v with PMissing => true | _ => false end = false.
Proof. destruct v; auto; discriminate. Qed.

Lemma algodef_T nan m q a p mo :
  kind_of m q = KAlgoDef ->
  (exists sa ra, T nan a sa ra) -> plain nan p = true -> (exists sm rm, T nan mo sm rm) ->
  exists s0 r0, T nan (PObj m q [("algo", a); ("params", p); ("mode", mo)]) s0 r0.
Proof.
  intros HK (sa & ra & A1 & A2 & A3) HP (sm & rm & M1 & M2 & M3).
  assert (HQ : String.eqb q "tuple" = false) by (apply (kind_not_tuple m); rewrite HK; discriminate).
  exists (PDict (skeys [(MOD, PStr m); (QUAL, PStr q); ("algo", sa); ("params", p); ("mode", sm)])),
         (PDict (skeys [(MOD, PStr m); (QUAL, PStr q); ("algo", ra); ("params", p); ("mode", rm)])).
  repeat split.
  - apply (repr_mixin m q _ [("algo", sa); ("params", p); ("mode", sm)]).
    + now rewrite HK.
    + reflexivity.
    + unfold no_missing. cbn [existsb snd].
      now rewrite (repr_ok_not_missing a sa A1), (plain_not_missing nan p HP), (repr_ok_not_missing mo sm M1).
    + cbn [map fst snd]. now rewrite A1, M1, (plain_repr nan p HP).
  - apply json_dict; [|reflexivity]. cbn [map fst snd]. rewrite A2, M2, (plain_json nan p HP). reflexivity.
  - rewrite from_repr_dict, (decode_hdr m q _ _ HQ). cbn [map fst snd]. rewrite A3, M3.
    unfold decode_obj. rewrite HK.
    change (dget "params" _) with (Some p). cbn [need bind].
    change (dget "algo" _) with (Some (@Ok py a)). cbn [need_arg bind].
    change (dget "mode" _) with (Some (@Ok py mo)). reflexivity.
Qed.

Lemma exprfn_T nan m q e sf fv :
  kind_of m q = KExprFn ->
  (exists se re, T nan e se re) -> (exists ss rs, T nan sf ss rs) -> plain nan fv = true ->
  exists s0 r0, T nan (PObj m q [("expression", e); ("source_file", sf); ("fixed_vars", fv)]) s0 r0.
Proof.
  intros HK (se & re & A1 & A2 & A3) (sm & rm & M1 & M2 & M3) HP.
  assert (HQ : String.eqb q "tuple" = false) by (apply (kind_not_tuple m); rewrite HK; discriminate).
  exists (PDict (skeys [(MOD, PStr m); (QUAL, PStr q); ("expression", se); ("source_file", sm); ("fixed_vars", fv)])),
         (PDict (skeys [(MOD, PStr m); (QUAL, PStr q); ("expression", re); ("source_file", rm); ("fixed_vars", fv)])).
  repeat split.
  - apply (repr_mixin m q _ [("expression", se); ("source_file", sm); ("fixed_vars", fv)]).
    + now rewrite HK.
    + reflexivity.
    + unfold no_missing. cbn [existsb snd].
      now rewrite (repr_ok_not_missing e se A1), (plain_not_missing nan fv HP), (repr_ok_not_missing sf sm M1).
    + cbn [map fst snd]. now rewrite A1, M1, (plain_repr nan fv HP).
  - apply json_dict; [|reflexivity]. cbn [map fst snd]. rewrite A2, M2, (plain_json nan fv HP). reflexivity.
  - rewrite from_repr_dict, (decode_hdr m q _ _ HQ). cbn [map fst snd]. rewrite A3, M3.
    unfold decode_obj. rewrite HK.
    change (dget "fixed_vars" _) with (Some fv). cbn [need bind].
    change (dget "expression" _) with (Some (@Ok py e)). cbn [need_arg bind].
    change (dget "source_file" _) with (Some (@Ok py sf)). reflexivity.
Qed.

(* ---------- AgentDef through the wire (repaired code: extra attributes travel as kwargs) ---------- *)
Definition agent_five (n dr r dh h : py) : list (string * py) :=
  [("name", n); ("default_route", dr); ("routes", r); ("default_hosting_cost", dh); ("hosting_costs", h)].

Lemma filter_agent m q n dr r dh h (ae : list (string * py)) :
  filter (fun nv : string * py => negb (reserved (fst nv)))
         ((MOD, PStr m) :: (QUAL, PStr q) :: agent_five n dr r dh h ++ ae)
  = agent_five n dr r dh h ++ filter (fun nv : string * py => negb (reserved (fst nv))) ae.
Proof. reflexivity. Qed.

Lemma decode_agent m q d n dr r dh h (ae : list (string * py)) :
  kind_of m q = KAgentDef ->
  forallb (fun s => negb (reserved s)) (map fst ae) = true ->
  decode_obj m q d (map (fun nv : string * py => (PStr (fst nv), Ok (snd nv)))
                        ((MOD, PStr m) :: (QUAL, PStr q) :: agent_five n dr r dh h ++ ae))
  = Ok (PObj m q [("name", n); ("default_route", dr);
                  ("routes", match r with PNone => PDict [] | _ => r end);
                  ("default_hosting_cost", dh);
                  ("hosting_costs", match h with PNone => PDict [] | _ => h end);
                  ("*attr", PDict (skeys (filter (fun nv => negb (smem (fst nv) AGENT_NAMED)) ae)))]).
Proof.
  intros HK R. unfold decode_obj. rewrite HK, kwargs_gen, filter_agent, (filter_names_all _ ae R).
  cbn [bind]. reflexivity.
Qed.

Lemma nodup_app_notin (l1 l2 : list string) :
  nodupb String.eqb (l1 ++ l2) = true -> forallb (fun n => negb (smem n l1)) l2 = true.
Proof.
  induction l1 as [|x r IH]; cbn [app nodupb]; intros H.
  - clear. induction l2 as [|y l2 IHl]; [reflexivity|]. cbn [forallb]. now rewrite IHl.
  - apply andb_true_iff in H as [H1 H2]. specialize (IH H2). apply negb_true_iff in H1.
    rewrite existsb_app in H1. apply orb_false_iff in H1 as [_ H1].
    clear -IH H1. induction l2 as [|y l2 IHl]; cbn [forallb existsb] in *; auto.
    apply andb_true_iff in IH as [I1 I2]. apply orb_false_iff in H1 as [A B].
    rewrite (IHl I2 B), andb_true_r. unfold smem in *. cbn [existsb].
    rewrite String.eqb_sym, A. exact I1.
Qed.

Lemma names_ok_app_r l1 l2 : names_ok (l1 ++ l2) = true -> forallb (fun n => negb (reserved n)) l2 = true.
Proof.
  intros H. apply names_ok_split in H as [_ R]. rewrite forallb_app in R. now apply andb_true_iff in R.
Qed.

Lemma agentdef_T nan m q n dr r dh h (ae : list (string * py)) :
  kind_of m q = KAgentDef ->
  (exists s1 r1, T nan n s1 r1) -> (exists s2 r2, T nan dr s2 r2) -> (exists s3 r3, T nan r s3 r3) ->
  (exists s4 r4, T nan dh s4 r4) -> (exists s5 r5, T nan h s5 r5) ->
  not_none r = true -> not_none h = true ->
  names_ok (AGENT_NAMED ++ map fst ae) = true ->
  Forall (fun nv => IHP nan (snd nv)) ae -> forallb (fun nv => wf nan (snd nv)) ae = true ->
  exists s0 r0, T nan (PObj m q (agent_five n dr r dh h ++ [("*attr", PDict (skeys ae))])) s0 r0.
Proof.
  intros HK (s1 & r1 & A1 & B1 & C1) (s2 & r2 & A2 & B2 & C2) (s3 & r3 & A3 & B3 & C3)
         (s4 & r4 & A4 & B4 & C4) (s5 & r5 & A5 & B5 & C5) NR NH HN HF HS.
  assert (HQ : String.eqb q "tuple" = false) by (apply (kind_not_tuple m); rewrite HK; discriminate).
  destruct (fields_T2 nan ae HF HS) as (fs & fr & E1 & K1 & E2 & K2 & E3).
  exists (PDict (skeys ((MOD, PStr m) :: (QUAL, PStr q) :: agent_five s1 s2 s3 s4 s5 ++ fs))),
         (PDict (skeys ((MOD, PStr m) :: (QUAL, PStr q) :: agent_five r1 r2 r3 r4 r5 ++ fr))).
  repeat split.
  - cbn [simple_repr]. unfold repr_obj. rewrite HK. unfold agent_five. cbn [app map fst snd].
    rewrite simple_repr_dict, (lift_keys _ _ _ E1), mapM_skeys_ok, A1, A2, A3, A4, A5. reflexivity.
  - apply json_dict.
    + unfold agent_five. cbn [app map fst snd]. rewrite B1, B2, B3, B4, B5, E2. reflexivity.
    + unfold agent_five. cbn [app map fst]. rewrite K1. apply (nodup_hdr _ HN).
  - rewrite from_repr_dict, (decode_hdr m q _ _ HQ).
    assert (map (fun ns : string * py => (PStr (fst ns), from_repr (snd ns)))
                ((MOD, PStr m) :: (QUAL, PStr q) :: agent_five r1 r2 r3 r4 r5 ++ fr)
            = map (fun nv : string * py => (PStr (fst nv), Ok (snd nv)))
                  ((MOD, PStr m) :: (QUAL, PStr q) :: agent_five n dr r dh h ++ ae)) as ->.
    { unfold agent_five. cbn [app map fst snd from_repr]. rewrite C1, C2, C3, C4, C5, (lift_keys _ _ _ E3). reflexivity. }
    rewrite (decode_agent m q _ n dr r dh h ae HK (names_ok_app_r _ _ HN)).
    apply names_ok_split in HN as [N _]. apply nodup_app_notin in N.
    rewrite (filter_names_all (fun s => negb (smem s AGENT_NAMED)) ae N).
    destruct r; try discriminate; destruct h; try discriminate; reflexivity.
Qed.

(* ---------- ordered-graph VariableComputationNode (repaired code: order links in the repr) ---------- *)
Lemma ordered_split {V} (f : list (string * V)) :
  ordered_names_ok (map fst f) = true ->
  exists g ol, f = g ++ [("*order_links", ol)]
    /\ names_ok (map fst g) = true
    /\ forallb (fun nv => negb (is_hidden (fst nv))) g = true
    /\ forallb (fun n => negb (String.eqb n "order_links")) (map fst g) = true
    /\ existsb (String.eqb "*order_links") (map fst g) = false.
Proof.
  induction f as [|[x v] r IH]; [discriminate|].
  destruct r as [|[y u] r'].
  - cbn [map fst ordered_names_ok]. intros H. apply String.eqb_eq in H. subst x.
    exists [], v. repeat split; reflexivity.
  - intros H. cbn [map fst] in H, IH.
    change (ordered_names_ok (x :: y :: map fst r'))
      with (negb (is_hidden x) && negb (reserved x) && negb (String.eqb x "order_links")
            && negb (existsb (String.eqb x) (y :: map fst r')) && ordered_names_ok (y :: map fst r')) in H.
    apply andb_true_iff in H as [H H5]. apply andb_true_iff in H as [H H4]. apply andb_true_iff in H as [H H3].
    apply andb_true_iff in H as [H1 H2].
    destruct (IH H5) as (g & ol & E & N & Vs & O & L).
    exists ((x, v) :: g), ol. rewrite E. split; [reflexivity|].
    assert (X : existsb (String.eqb x) (map fst g) = false /\ String.eqb x "*order_links" = false).
    { apply negb_true_iff in H4. change (y :: map fst r') with (map fst ((y, u) :: r')) in H4. rewrite E in H4.
      rewrite map_app, existsb_app in H4. apply orb_false_iff in H4 as [A B]. split; auto.
      cbn [map fst existsb] in B. now apply orb_false_iff in B. }
    destruct X as [X1 X2].
    repeat split.
    + apply names_ok_split in N as [N R]. unfold names_ok. cbn [map fst nodupb forallb]. now rewrite X1, N, H2, R.
    + cbn [forallb fst]. now rewrite H1, Vs.
    + cbn [map fst forallb]. now rewrite H3, O.
    + cbn [map fst existsb]. now rewrite String.eqb_sym, X2, L.
Qed.

Lemma visible_fields {A} (g : list (string * A)) (last : string * A) :
  forallb (fun nv => negb (is_hidden (fst nv))) g = true -> is_hidden (fst last) = true ->
  visible (g ++ [last]) = g.
Proof.
  intros H L. unfold visible. rewrite filter_app. cbn [filter]. rewrite L. cbn [negb].
  rewrite app_nil_r. now apply filter_all.
Qed.

Lemma existsb_names_map {A B} k (g : A -> B) (f : list (string * A)) :
  existsb (String.eqb k) (map fst (map (fun nv => (fst nv, g (snd nv))) f)) = existsb (String.eqb k) (map fst f).
Proof. rewrite map_map. reflexivity. Qed.

Lemma ordered_T nan m q (g : list (string * py)) ol :
  kind_of m q = KOrderedNode ->
  names_ok (map fst g) = true -> forallb (fun nv => negb (is_hidden (fst nv))) g = true ->
  forallb (fun n => negb (String.eqb n "order_links")) (map fst g) = true ->
  existsb (String.eqb "*order_links") (map fst g) = false ->
  Forall (fun nv => IHP nan (snd nv)) g -> forallb (fun nv => wf nan (snd nv)) g = true ->
  (exists sl rl, T nan ol sl rl) ->
  exists s0 r0, T nan (PObj m q (g ++ [("*order_links", ol)])) s0 r0.
Proof.
  intros HK HN HV HO HL HF HS (sl & rl & L1 & L2 & L3).
  assert (HQ : String.eqb q "tuple" = false) by (apply (kind_not_tuple m); rewrite HK; discriminate).
  destruct (fields_T2 nan g HF HS) as (fs & fr & E1 & K1 & E2 & K2 & E3).
  pose proof (names_ok_split _ HN) as [N R].
  assert (HO' : existsb (String.eqb "order_links") (map fst g) = false).
  { clear -HO. induction (map fst g) as [|n r IH]; cbn [existsb forallb] in *; auto.
    apply andb_true_iff in HO as [H1 H2]. apply negb_true_iff in H1. rewrite String.eqb_sym, H1. auto. }
  exists (PDict (skeys ((MOD, PStr m) :: (QUAL, PStr q) :: fs ++ [("order_links", sl)]))),
         (PDict (skeys ((MOD, PStr m) :: (QUAL, PStr q) :: fr ++ [("order_links", rl)]))).
  repeat split.
  - cbn [simple_repr]. unfold repr_obj. rewrite HK. rewrite map_app. cbn [map fst snd]. rewrite L1, E1.
    rewrite slookup_app, slookup_notin by (rewrite map_map; cbn [fst]; rewrite <- K1 in HL; exact HL).
    change (slookup "*order_links" [("*order_links", Ok sl)]) with (Some (@Ok py sl)).
    rewrite visible_fields; [|rewrite forallb_map; cbn [fst]|reflexivity].
    + rewrite entries_ok. cbn [bind]. unfold skeys, hdr. cbn [map fst snd app]. rewrite map_app. reflexivity.
    + clear -HV K1. rewrite <- (forallb_map fst (fun n => negb (is_hidden n))) in *. now rewrite K1.
  - apply json_dict.
    + cbn [map fst snd]. rewrite !map_app, E2. cbn [map fst snd]. rewrite L2. reflexivity.
    + cbn [map fst]. rewrite map_app, K1. cbn [map fst]. apply nodup_hdr. unfold names_ok.
      rewrite forallb_app, R. cbn [forallb]. change (negb (reserved "order_links")) with true. cbn [andb].
      rewrite andb_true_r. clear -N HO'. induction (map fst g) as [|n r IH]; [reflexivity|].
      cbn [app nodupb existsb] in *. apply andb_true_iff in N as [N1 N2]. apply orb_false_iff in HO' as [A B].
      rewrite (IH N2 B), andb_true_r. apply negb_true_iff. apply negb_true_iff in N1.
      rewrite existsb_app, N1. cbn [existsb]. rewrite String.eqb_sym, A. reflexivity.
  - rewrite from_repr_dict, (decode_hdr m q _ _ HQ).
    assert (map (fun ns : string * py => (PStr (fst ns), from_repr (snd ns)))
                ((MOD, PStr m) :: (QUAL, PStr q) :: fr ++ [("order_links", rl)])
            = map (fun nv : string * py => (PStr (fst nv), Ok (snd nv)))
                  ((MOD, PStr m) :: (QUAL, PStr q) :: g ++ [("order_links", ol)])) as ->.
    { cbn [map fst snd from_repr]. rewrite !map_app. cbn [map fst snd]. rewrite L3, (lift_keys _ _ _ E3). reflexivity. }
    unfold decode_obj. rewrite HK.
    rewrite (filter_skeys_dec (fun s => negb (String.eqb s "order_links")) (fun nv : string * py => Ok (snd nv))).
    rewrite kwargs_gen, (dget_dec "order_links" (@Ok py)).
    assert (filter (fun nv : string * py => negb (reserved (fst nv)))
              (filter (fun nv : string * py => negb (String.eqb (fst nv) "order_links"))
                 ((MOD, PStr m) :: (QUAL, PStr q) :: g ++ [("order_links", ol)])) = g) as ->.
    { cbn [filter fst]. change (negb (String.eqb MOD "order_links")) with true.
      change (negb (String.eqb QUAL "order_links")) with true. cbv iota. cbn [filter fst].
      change (negb (reserved MOD)) with false. change (negb (reserved QUAL)) with false. cbv iota.
      rewrite filter_app. cbn [filter fst]. change (negb (String.eqb "order_links" "order_links")) with false. cbv iota.
      rewrite app_nil_r, (filter_names_all (fun s => negb (String.eqb s "order_links")) g HO).
      apply (filter_names_all (fun s => negb (reserved s)) g R). }
    assert (slookup "order_links" ((MOD, PStr m) :: (QUAL, PStr q) :: g ++ [("order_links", ol)]) = Some ol) as ->.
    { change (slookup "order_links" ((MOD, PStr m) :: (QUAL, PStr q) :: g ++ [("order_links", ol)]))
        with (slookup "order_links" (g ++ [("order_links", ol)])).
      rewrite slookup_app, (slookup_notin _ g HO'). reflexivity. }
    reflexivity.
Qed.

(* ---------- VariableWithCostDict (repaired code: typed keys travel in cost_values) ---------- *)
Lemma fields_TWg {K} nan (w : K * py -> py) (f : list (K * py)) :
  Forall (fun nv => exists s r, TW nan (snd nv) s r (w nv)) f ->
  exists fs fr : list (K * py),
    map (fun nv => (fst nv, simple_repr (snd nv))) f = map (fun ns => (fst ns, Ok (snd ns))) fs
    /\ map fst fs = map fst f
    /\ map (fun ns => (fst ns, json_rt nan (snd ns))) fs = map (fun nr => (fst nr, Ok (snd nr))) fr
    /\ map fst fr = map fst f
    /\ map (fun nr => (fst nr, from_repr (snd nr))) fr = map (fun nv => (fst nv, Ok (w nv))) f.
Proof.
  induction 1 as [|[n v] l Hv Hl IH].
  - exists [], []. cbn. auto.
  - destruct Hv as (s & r & Hs1 & Hs2 & Hs3). destruct IH as (fs & fr & E1 & E2 & E3 & E4 & E5).
    cbn [fst snd] in *. exists ((n, s) :: fs), ((n, r) :: fr). cbn [map fst snd].
    rewrite Hs1, Hs2, Hs3, E1, E2, E3, E4, E5. auto.
Qed.

Lemma json_key_scalar k : scalar_ok false k = true -> json_key k = Ok (jkey k).
Proof.
  destruct k; try discriminate; try reflexivity.
  - destruct b; reflexivity.
  - cbn [scalar_ok]. unfold float_ok. cbn [orb]. intros H. apply negb_true_iff in H.
    unfold jkey. cbn [json_key]. now rewrite H.
Qed.

Lemma scalar_strict nan k : scalar_ok false k = true -> scalar_ok nan k = true.
Proof. destruct k; auto. cbn. unfold float_ok. cbn [orb]. intros ->. apply orb_true_r. Qed.

Lemma scalar_from_repr ks : forallb (scalar_ok false) ks = true -> map from_repr ks = map Ok ks.
Proof.
  induction ks as [|k r IH]; cbn [forallb map]; auto. intros H. apply andb_true_iff in H as [H1 H2].
  rewrite (IH H2). destruct k; try discriminate; reflexivity.
Qed.

Definition jkeys (d : list (py * py)) : list (string * py) := map (fun kv => (jkey (fst kv), snd kv)) d.

Lemma json_entries_keys (dr : list (py * py)) :
  forallb (scalar_ok false) (map fst dr) = true ->
  mapM (fun kv : py * res py => bind (json_key (fst kv)) (fun k => bind (snd kv) (fun r => Ok (k, r))))
       (map (fun kv => (fst kv, Ok (snd kv))) dr) = Ok (jkeys dr).
Proof.
  induction dr as [|[k a] r IH]; cbn [map forallb fst snd]; [intros; apply mapM_nil|]. intros H.
  apply andb_true_iff in H as [H1 H2]. rewrite mapM_cons. cbn [fst snd]. rewrite (json_key_scalar k H1).
  cbn [bind]. rewrite (IH H2). reflexivity.
Qed.

Lemma costs_T nan (d : list (py * py)) :
  cost_keys_ok (map fst d) = true ->
  Forall (fun kv => IHP nan (snd kv)) d -> forallb (fun kv => wf nan (snd kv)) d = true ->
  exists s r, TW nan (PDict d) s r (PDict (skeys (jkeys d))).
Proof.
  intros HC HF HS. unfold cost_keys_ok in HC.
  apply andb_true_iff in HC as [HC C4]. apply andb_true_iff in HC as [HC C3]. apply andb_true_iff in HC as [C1 C2].
  destruct (fields_T2 nan d HF HS) as (ds & dr & E1 & K1 & E2 & K2 & E3).
  assert (JK : map fst (jkeys dr) = map jkey (map fst d)).
  { rewrite <- K2. unfold jkeys. rewrite !map_map. reflexivity. }
  exists (PDict ds), (PDict (skeys (jkeys dr))). repeat split.
  - cbn [simple_repr]. rewrite E1, mapM_snd_ok. reflexivity.
  - cbn [json_rt]. rewrite E2, json_entries_keys by (now rewrite K2). cbn [bind].
    rewrite JK, C3. reflexivity.
  - rewrite from_repr_dict.
    assert (map (fun ns : string * py => (PStr (fst ns), from_repr (snd ns))) (jkeys dr)
            = map (fun nv : string * py => (PStr (fst nv), Ok (snd nv))) (jkeys d)) as ->.
    { clear -E3. revert d E3. induction dr as [|[k a] r IH]; intros [|[k' a'] d]; cbn [map fst snd jkeys]; intros E; try discriminate; auto.
      inversion E; subst. f_equal. apply IH. assumption. }
    unfold decode_dict.
    assert (Hk : map (fun kv : py * py => key_string (fst kv)) (skeys (jkeys dr)) = map jkey (map fst d)).
    { rewrite <- JK. unfold skeys. rewrite !map_map. reflexivity. }
    destruct (dget QUAL (skeys (jkeys dr))) eqn:DQ; [destruct (dget MOD (skeys (jkeys dr))) eqn:DM|].
    + apply dget_some_exists in DQ. apply dget_some_exists in DM. rewrite Hk in DQ, DM.
      rewrite DQ, DM in C4. discriminate.
    + rewrite mapM_skeys_ok. reflexivity.
    + rewrite mapM_skeys_ok. reflexivity.
Qed.

Lemma map_replace_notin (c : py) (g : list (string * py)) :
  existsb (String.eqb "costs") (map fst g) = false ->
  map (fun nv : string * py => if String.eqb (fst nv) "costs" then (fst nv, c) else nv) g = g.
Proof.
  induction g as [|[n v] r IH]; cbn [map fst existsb]; auto. intros H. apply orb_false_iff in H as [H1 H2].
  rewrite String.eqb_sym, H1, (IH H2). reflexivity.
Qed.

Lemma nodup_mid_notin (l1 l2 : list string) x :
  nodupb String.eqb (l1 ++ x :: l2) = true ->
  existsb (String.eqb x) l1 = false /\ existsb (String.eqb x) l2 = false.
Proof.
  induction l1 as [|y r IH]; cbn [app nodupb existsb]; intros H; apply andb_true_iff in H as [H1 H2].
  - apply negb_true_iff in H1. auto.
  - destruct (IH H2) as [A B]. split; auto. rewrite A, orb_false_r.
    apply negb_true_iff in H1. rewrite existsb_app in H1. apply orb_false_iff in H1 as [_ H1].
    cbn [existsb] in H1. apply orb_false_iff in H1 as [H1 _]. now rewrite String.eqb_sym.
Qed.

Lemma scalar_is_scalar ks : forallb (scalar_ok false) ks = true -> forallb is_scalar ks = true.
Proof.
  induction ks as [|k r IH]; cbn [forallb]; auto. intros H. apply andb_true_iff in H as [H1 H2].
  rewrite (IH H2), andb_true_r. destruct k; auto; discriminate.
Qed.

Lemma names_ok_snoc names x :
  names_ok names = true -> reserved x = false -> forallb (fun n => negb (String.eqb n x)) names = true ->
  names_ok (names ++ [x]) = true.
Proof.
  intros H RX HX. apply names_ok_split in H as [N R]. unfold names_ok. rewrite forallb_app, R. cbn [forallb].
  rewrite RX. cbn [negb andb]. rewrite andb_true_r.
  induction names as [|n r IH]; [reflexivity|].
  cbn [app nodupb forallb] in *. apply andb_true_iff in N as [N1 N2]. apply andb_true_iff in R as [R1 R2].
  apply andb_true_iff in HX as [X1 X2]. rewrite (IH N2 R2 X2), andb_true_r. apply negb_true_iff.
  apply negb_true_iff in N1. apply negb_true_iff in X1. rewrite existsb_app, N1. cbn [existsb]. now rewrite X1.
Qed.

Lemma varcost_T nan m q (f1 f2 : list (string * py)) (d : list (py * py)) :
  kind_of m q = KVarCostDict ->
  names_ok (map fst (f1 ++ ("costs", PDict d) :: f2)) = true ->
  forallb (fun nv => negb (is_hidden (fst nv))) (f1 ++ ("costs", PDict d) :: f2) = true ->
  forallb (fun n => negb (String.eqb n "cost_values")) (map fst (f1 ++ ("costs", PDict d) :: f2)) = true ->
  cost_keys_ok (map fst d) = true ->
  Forall (fun kv => IHP nan (snd kv)) d -> forallb (fun kv => wf nan (snd kv)) d = true ->
  Forall (fun nv => IHP nan (snd nv)) f1 -> forallb (fun nv => wf nan (snd nv)) f1 = true ->
  Forall (fun nv => IHP nan (snd nv)) f2 -> forallb (fun nv => wf nan (snd nv)) f2 = true ->
  exists s0 r0, T nan (PObj m q (f1 ++ ("costs", PDict d) :: f2)) s0 r0.
Proof.
  intros HK HN HV HC CK DF DS F1 S1 F2 S2.
  assert (HQ : String.eqb q "tuple" = false) by (apply (kind_not_tuple m); rewrite HK; discriminate).
  destruct (costs_T nan d CK DF DS) as (sc & rc & C1 & C2 & C3).
  destruct (fields_T2 nan f1 F1 S1) as (fs1 & fr1 & A1 & A2 & A3 & A4 & A5).
  destruct (fields_T2 nan f2 F2 S2) as (fs2 & fr2 & B1 & B2 & B3 & B4 & B5).
  pose proof (names_ok_split _ HN) as [N R].
  rewrite map_app in N. cbn [map fst] in N. destruct (nodup_mid_notin _ _ _ N) as [NI1 NI2].
  unfold cost_keys_ok in CK.
  apply andb_true_iff in CK as [CK K4]. apply andb_true_iff in CK as [CK K3]. apply andb_true_iff in CK as [K1 K2].
  set (ks := map fst d) in *.
  set (A := f1 ++ ("costs", PDict (skeys (jkeys d))) :: f2).
  assert (NA : map fst A = map fst (f1 ++ ("costs", PDict d) :: f2)).
  { unfold A. rewrite !map_app. reflexivity. }
  exists (PDict (skeys ((MOD, PStr m) :: (QUAL, PStr q) :: (fs1 ++ ("costs", sc) :: fs2) ++ [("cost_values", PList ks)]))),
         (PDict (skeys ((MOD, PStr m) :: (QUAL, PStr q) :: (fr1 ++ ("costs", rc) :: fr2) ++ [("cost_values", PList ks)]))).
  repeat split.
  - cbn [simple_repr]. unfold repr_obj. rewrite HK.
    rewrite slookup_app, (slookup_notin _ f1 NI1).
    change (slookup "costs" (("costs", PDict d) :: f2)) with (Some (PDict d)). cbv iota.
    fold ks. rewrite (scalar_is_scalar ks K1).
    rewrite map_app. cbn [map fst snd]. rewrite A1, B1, C1.
    change ((("costs", @Ok py sc)) :: map (fun ns : string * py => (fst ns, Ok (snd ns))) fs2)
      with (map (fun ns : string * py => (fst ns, Ok (snd ns))) (("costs", sc) :: fs2)).
    rewrite <- map_app, entries_ok. cbn [bind]. unfold skeys, hdr. cbn [map fst snd app].
    rewrite !map_app. cbn [map fst snd]. rewrite <- !app_assoc. reflexivity.
  - apply json_dict.
    + cbn [map fst snd]. repeat (rewrite map_app; cbn [map fst snd]).
      rewrite A3, B3, C2. cbn [json_rt].
      rewrite (plain_list_json nan ks) by (apply (scalar_plain nan); clear -K1; induction ks as [|k r IH]; cbn [forallb] in *; auto;
        apply andb_true_iff in K1 as [H1 H2]; rewrite (scalar_strict nan k H1); auto).
      rewrite mapM_ok. reflexivity.
    + cbn [map fst]. rewrite map_app. cbn [map fst].
      assert (map fst (fs1 ++ ("costs", sc) :: fs2) = map fst (f1 ++ ("costs", PDict d) :: f2)) as ->.
      { rewrite !map_app. cbn [map fst]. now rewrite A2, B2. }
      apply nodup_hdr. apply names_ok_snoc; auto.
  - rewrite from_repr_dict, (decode_hdr m q _ _ HQ).
    assert (map (fun ns : string * py => (PStr (fst ns), from_repr (snd ns)))
                ((MOD, PStr m) :: (QUAL, PStr q) :: (fr1 ++ ("costs", rc) :: fr2) ++ [("cost_values", PList ks)])
            = map (fun nv : string * py => (PStr (fst nv), Ok (snd nv)))
                  ((MOD, PStr m) :: (QUAL, PStr q) :: A ++ [("cost_values", PList ks)])) as ->.
    { unfold A. cbn [map fst snd]. repeat (rewrite map_app; cbn [map fst snd]).
      rewrite C3, (lift_keys _ _ _ A5), (lift_keys _ _ _ B5). cbn [from_repr].
      rewrite (scalar_from_repr ks K1), mapM_ok. reflexivity. }
    unfold decode_obj. rewrite HK.
    rewrite (filter_skeys_dec (fun s => negb (String.eqb s "cost_values")) (fun nv : string * py => Ok (snd nv))).
    rewrite kwargs_gen, (dget_dec "cost_values" (@Ok py)).
    assert (filter (fun nv : string * py => negb (reserved (fst nv)))
              (filter (fun nv : string * py => negb (String.eqb (fst nv) "cost_values"))
                 ((MOD, PStr m) :: (QUAL, PStr q) :: A ++ [("cost_values", PList ks)])) = A) as ->.
    { cbn [filter fst]. change (negb (String.eqb MOD "cost_values")) with true.
      change (negb (String.eqb QUAL "cost_values")) with true. cbv iota. cbn [filter fst].
      change (negb (reserved MOD)) with false. change (negb (reserved QUAL)) with false. cbv iota.
      rewrite filter_app. cbn [filter fst]. change (negb (String.eqb "cost_values" "cost_values")) with false. cbv iota.
      rewrite app_nil_r, (filter_names_all (fun s => negb (String.eqb s "cost_values")) A) by (now rewrite NA).
      apply (filter_names_all (fun s => negb (reserved s)) A). now rewrite NA. }
    assert (slookup "cost_values" ((MOD, PStr m) :: (QUAL, PStr q) :: A ++ [("cost_values", PList ks)]) = Some (PList ks)) as ->.
    { change (slookup "cost_values" ((MOD, PStr m) :: (QUAL, PStr q) :: A ++ [("cost_values", PList ks)]))
        with (slookup "cost_values" (A ++ [("cost_values", PList ks)])).
      rewrite slookup_app, slookup_notin; [reflexivity|]. rewrite NA.
      clear -HC. induction (map fst (f1 ++ ("costs", PDict d) :: f2)) as [|n r IH]; cbn [existsb forallb] in *; auto.
      apply andb_true_iff in HC as [H1 H2]. apply negb_true_iff in H1. rewrite String.eqb_sym, H1. auto. }
    cbn [option_map bind list_items].
    assert (slookup "costs" A = Some (PDict (skeys (jkeys d)))) as ->.
    { unfold A. rewrite slookup_app, (slookup_notin _ f1 NI1). reflexivity. }
    unfold zip_dict. rewrite (scalar_hashable false ks K1), K2.
    assert (map snd (skeys (jkeys d)) = map snd d) as ->.
    { unfold skeys, jkeys. rewrite !map_map. reflexivity. }
    unfold ks. rewrite combine_fst_snd. cbn [bind]. unfold A. rewrite map_app. cbn [map fst].
    change (String.eqb "costs" "costs") with true. cbv iota.
    rewrite (map_replace_notin _ f1 NI1), (map_replace_notin _ f2 NI2). reflexivity.
Qed.
